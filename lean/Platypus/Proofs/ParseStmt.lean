import Platypus.Proofs.ParseExpr
/-!
# C06 helper lemmas, part 3: statements, blocks, programs

Same scheme as for expressions: one `…ok` predicate per spelling relation, one lemma per constructor,
recursion on the derivations at the end.  Fuel bounds: `4 * length + 4` for a statement and a block,
`4 * length + 5` for a statement list.
-/
namespace Platypus.Parse
open Platypus.Lex (Tok Item)

/-! ### token classes -/

/-- the tokens a statement can start with -/
def stmtStart (t : Tok) : Bool := exprStart t || t = .IF || t = .FOR || t = .BREAK || t = .CONTINUE

/-- the tokens that follow a simple statement: a statement end or the `{` of a loop body -/
def simpleStop (t : Tok) : Bool := stmtEnd t || t = .LEFT_BRACE

theorem simpleStop_facts {t : Tok} (h : simpleStop t = true) :
    stop1 t = true ∧ t ≠ .COMMA ∧ t ≠ .EQ ∧ asgOf t = none := by
  cases t <;> simp_all [simpleStop, stmtEnd, stop1, noPost, binOf, asgOf]

theorem stmtStart_ne {t : Tok} (h : stmtStart t = true) :
    t ≠ .EOL ∧ t ≠ .SEMICOLON ∧ t ≠ .RIGHT_BRACE ∧ t ≠ .EOF := by
  cases t <;> simp_all [stmtStart, exprStart]

theorem stmtEnd_facts {t : Tok} (h : stmtEnd t = true) : t ≠ .ELIF ∧ t ≠ .ELSE ∧ simpleStop t = true := by
  cases t <;> simp_all [stmtEnd, simpleStop]

theorem exprStart_stmtStart {t : Tok} (h : exprStart t = true) : stmtStart t = true := by
  simp [stmtStart, h]

/-! ### simple statements -/

structure PSimpleok (x : PT) (t : List Item) : Prop where
  start : ∀ rest, exprStart (tk (t ++ rest)) = true
  len : 1 ≤ t.length
  simple : ∀ rest, simpleStop (tk rest) = true → ∀ F, 4 * t.length + 3 ≤ F →
    parseSimple F (t ++ rest) = some (x, rest)
  brace : ∀ rest, stmtEnd (tk rest) = false → ∀ F, 4 * t.length ≤ F → asBlock F (t ++ rest) = none

theorem psimple_expr {x t} (ih : PEok x t) : PSimpleok x t where
  start := ih.start
  len := ih.len
  simple rest hs F hF := by
    obtain ⟨h1, h2, h3, h4⟩ := simpleStop_facts hs
    obtain ⟨F, rfl⟩ : ∃ F', F = F' + 1 := ⟨F - 1, by omega⟩
    exact parseSimple_expr ((pc_one ih).params [] rest h1 h2 F (by omega)) h3 h4
  brace := ih.brace

theorem psimple_assign {lhs rhs tl tr e p s} (he : Eols e) (ihl : PCok lhs tl) (ihr : PCok rhs tr) :
    PSimpleok (.assign .eq lhs rhs) (tl ++ [⟨.EQ, p, s⟩] ++ e ++ tr) where
  start rest := by simpa [List.append_assoc] using ihl.start _
  len := by have := ihl.len; simp; omega
  simple rest hs F hF := by
    obtain ⟨h1, h2, h3, h4⟩ := simpleStop_facts hs
    simp only [List.append_assoc, List.cons_append, List.nil_append]
    simp only [List.length_append, List.length_cons, List.length_nil] at hF
    obtain ⟨F, rfl⟩ : ∃ F', F = F' + 1 := ⟨F - 1, by omega⟩
    have hl := ihl.params [] (⟨.EQ, p, s⟩ :: (e ++ (tr ++ rest))) rfl (by simp) F (by omega)
    have hne := (exprStart_ne (ihr.start rest)).1
    have hr := ihr.params [] rest h1 h2 F (by omega)
    simp only [List.nil_append] at hl hr
    simp [parseSimple, hl, skipE_eols_ne he hne, hr]
  brace rest hr F hF := by
    simp only [List.append_assoc, List.cons_append, List.nil_append]
    simp only [List.length_append, List.length_cons, List.length_nil] at hF
    exact ihl.brace _ rfl F (by omega)

theorem psimple_opAssign {op l r tl tr e p s} (hop : op ≠ .eq) (he : Eols e) (ihl : PEok l tl) (ihr : PEok r tr) :
    PSimpleok (.assign op [l] [r]) (tl ++ [⟨asgTok op, p, s⟩] ++ e ++ tr) where
  start rest := by simpa [List.append_assoc] using ihl.start _
  len := by have := ihl.len; simp; omega
  simple rest hs F hF := by
    obtain ⟨h1, h2, h3, h4⟩ := simpleStop_facts hs
    simp only [List.append_assoc, List.cons_append, List.nil_append]
    simp only [List.length_append, List.length_cons, List.length_nil] at hF
    obtain ⟨F, rfl⟩ : ∃ F', F = F' + 1 := ⟨F - 1, by omega⟩
    have hl := (pc_one ihl).params [] (⟨asgTok op, p, s⟩ :: (e ++ (tr ++ rest)))
      (by simpa using stop1_asgTok op) (by cases op <;> simp [asgTok]) F (by omega)
    have hne := (exprStart_ne (ihr.start rest)).1
    have hr := ihr.fin h1 F (by omega)
    simp only [List.nil_append] at hl
    simp [parseSimple, hl, asgTok_ne_eq hop, asgOf_asgTok hop, skipE_eols_ne he hne, hr]
  brace rest hr F hF := by
    simp only [List.append_assoc, List.cons_append, List.nil_append]
    simp only [List.length_append, List.length_cons, List.length_nil] at hF
    exact ihl.brace _ (by simpa using stmtEnd_asgTok op) F (by omega)

theorem psimple_ok : {x : PT} → {t : List Item} → PSimple x t → PSimpleok x t
  | _, _, .expr _ _ h => psimple_expr (pe_ok h)
  | _, _, .assign _ _ _ _ _ _ _ he hl hr => psimple_assign he (pc_ok hl) (pc_ok hr)
  | _, _, .opAssign _ _ _ _ _ _ _ _ hop he hl hr => psimple_opAssign hop he (pe_ok hl) (pe_ok hr)

/-- an optional for-clause -/
def POSok (o : Option PT) (ts : List Item) : Prop :=
  match o with
  | none => ts = []
  | some x => PSimpleok x ts

theorem pos_ok : {o : Option PT} → {ts : List Item} → POS o ts → POSok o ts
  | _, _, .none => rfl
  | _, _, .some _ _ h => psimple_ok h

/-! ### the predicates for blocks, statement lists and statements -/

structure PBok (ss : List PT) (tb : List Item) : Prop where
  lb : ∀ rest, tk (tb ++ rest) = .LEFT_BRACE
  len : 2 ≤ tb.length
  block : ∀ rest F, 4 * tb.length + 4 ≤ F → parseBlock F (tb ++ rest) = some (ss, rest)

structure PSSok (ss : List PT) (t : List Item) : Prop where
  start : ∀ rest, tk (t ++ rest) ≠ .EOL ∧ tk (t ++ rest) ≠ .RIGHT_BRACE ∧ tk (t ++ rest) ≠ .EOF
  stmts : ∀ rest, (tk rest = .RIGHT_BRACE ∨ tk rest = .EOF) → ∀ F, 4 * t.length + 5 ≤ F →
    parseStmts F (t ++ rest) = some (ss, rest)

structure PSeqok (ss : List PT) (t : List Item) : Prop where
  start : ∀ rest, stmtStart (tk (t ++ rest)) = true
  seq : ∀ acc rest, (tk rest = .RIGHT_BRACE ∨ tk rest = .EOF) → ∀ F, 4 * t.length + 5 ≤ F →
    parseStmtsAfterSep F acc (t ++ rest) = some (acc ++ ss, rest)

structure PSok (x : PT) (t : List Item) : Prop where
  start : ∀ rest, stmtStart (tk (t ++ rest)) = true
  len : 1 ≤ t.length
  stmt : ∀ rest, stmtEnd (tk rest) = true → ∀ F, 4 * t.length + 4 ≤ F → parseStmt F (t ++ rest) = some (x, rest)

structure PIfsok (first : Bool) (ifs : List (PT × List PT)) (t : List Item) : Prop where
  elifs : first = false → ∀ acc rest f res, (∀ F, f ≤ F → parseElifs F (acc ++ ifs) rest = some res) →
    ∀ F, f + 4 * t.length ≤ F → parseElifs F acc (t ++ rest) = some res
  ifs : first = true → ∀ rest f res, (∀ F, f ≤ F → parseElifs F ifs rest = some res) →
    ∀ F, f + 4 * t.length ≤ F → parseStmt F (t ++ rest) = some res
  len : 1 ≤ t.length
  ifstart : first = true → ∀ rest, tk (t ++ rest) = .IF

structure PElseok (els : Option (List PT)) (te : List Item) : Prop where
  els : ∀ acc rest, tk rest ≠ .ELIF → tk rest ≠ .ELSE → ∀ F, 4 * te.length + 4 ≤ F →
    parseElifs F acc (te ++ rest) = some (.ifelse acc els, rest)

/-! ### blocks -/

theorem pb_empty {e p s p' s'} (he : Eols e) :
    PBok [] ([⟨.LEFT_BRACE, p, s⟩] ++ e ++ [⟨.RIGHT_BRACE, p', s'⟩]) where
  lb rest := rfl
  len := by simp
  block rest F hF := by
    simp only [List.append_assoc, List.cons_append, List.nil_append]
    obtain ⟨F, rfl⟩ : ∃ F', F = F' + 1 := ⟨F - 1, by omega⟩
    simp [parseBlock, skipE_eols_ne he (xs := ⟨.RIGHT_BRACE, p', s'⟩ :: rest) (by simp)]

theorem pb_emptySem {e sm p s p' s'} (he : Eols e) (hsm : IsSem sm) :
    PBok [] ([⟨.LEFT_BRACE, p, s⟩] ++ e ++ sm ++ [⟨.RIGHT_BRACE, p', s'⟩]) where
  lb rest := rfl
  len := by simp; omega
  block rest F hF := by
    obtain ⟨i, r, rfl, hi, hr⟩ := hsm
    simp only [List.append_assoc, List.cons_append, List.nil_append]
    simp only [List.length_append, List.length_cons, List.length_nil] at hF
    obtain ⟨F, rfl⟩ : ∃ F', F = F' + 3 := ⟨F - 3, by omega⟩
    have h1 : skipE (e ++ i :: (r ++ ⟨.RIGHT_BRACE, p', s'⟩ :: rest)) = i :: (r ++ ⟨.RIGHT_BRACE, p', s'⟩ :: rest) :=
      skipE_eols_ne he (by simp [hi])
    have h2 : skipSep (i :: (r ++ ⟨.RIGHT_BRACE, p', s'⟩ :: rest)) = ⟨.RIGHT_BRACE, p', s'⟩ :: rest := by
      have := skipSep_run_ne (sp := i :: r) (xs := ⟨.RIGHT_BRACE, p', s'⟩ :: rest)
        (by intro j hj; rcases List.mem_cons.1 hj with rfl | hj; exact Or.inl hi; exact hr j hj) (by simp) (by simp)
      simpa using this
    simp [parseBlock, h1, hi, parseStmts, h2, parseStmtsAfterSep]

theorem pb_stmts {ss e t p s p' s'} (he : Eols e) (ih : PSSok ss t) :
    PBok ss ([⟨.LEFT_BRACE, p, s⟩] ++ e ++ t ++ [⟨.RIGHT_BRACE, p', s'⟩]) where
  lb rest := rfl
  len := by simp; omega
  block rest F hF := by
    simp only [List.append_assoc, List.cons_append, List.nil_append]
    simp only [List.length_append, List.length_cons, List.length_nil] at hF
    obtain ⟨F, rfl⟩ : ∃ F', F = F' + 1 := ⟨F - 1, by omega⟩
    obtain ⟨h1, h2, _⟩ := ih.start (⟨.RIGHT_BRACE, p', s'⟩ :: rest)
    have hx := ih.stmts (⟨.RIGHT_BRACE, p', s'⟩ :: rest) (Or.inl rfl) F (by omega)
    simp [parseBlock, skipE_eols_ne he h1, h2, hx]

/-! ### statement lists -/

theorem parseStmts_eq_afterSep {ts : List Item} (h : stmtStart (tk ts) = true) (F : Nat) :
    parseStmts (F + 1) ts = parseStmtsAfterSep (F + 1) [] ts := by
  obtain ⟨_, h2, h3, h4⟩ := stmtStart_ne h
  simp [parseStmts, parseStmtsAfterSep, h2, h3, h4]

theorem pss_plain {ss t} (ih : PSeqok ss t) : PSSok ss t where
  start rest := by
    obtain ⟨h1, _, h3, h4⟩ := stmtStart_ne (ih.start rest)
    exact ⟨h1, h3, h4⟩
  stmts rest hr F hF := by
    obtain ⟨F, rfl⟩ : ∃ F', F = F' + 1 := ⟨F - 1, by omega⟩
    rw [parseStmts_eq_afterSep (ih.start rest)]
    simpa using ih.seq [] rest hr (F + 1) hF

theorem pss_sem {ss sm t} (hsm : IsSem sm) (ih : PSeqok ss t) : PSSok ss (sm ++ t) where
  start rest := by
    obtain ⟨i, r, rfl, hi, hr⟩ := hsm
    simp [hi]
  stmts rest hr F hF := by
    obtain ⟨i, r, rfl, hi, hr'⟩ := hsm
    simp only [List.append_assoc, List.cons_append]
    simp only [List.length_append, List.length_cons] at hF
    obtain ⟨F, rfl⟩ : ∃ F', F = F' + 1 := ⟨F - 1, by omega⟩
    obtain ⟨h1, h2, _, _⟩ := stmtStart_ne (ih.start rest)
    have h3 : skipSep (i :: (r ++ (t ++ rest))) = t ++ rest := by
      have := skipSep_run_ne (sp := i :: r) (xs := t ++ rest)
        (by intro j hj; rcases List.mem_cons.1 hj with rfl | hj; exact Or.inl hi; exact hr' j hj) h2 h1
      simpa using this
    have hx := ih.seq [] rest hr F (by omega)
    simp only [List.nil_append] at hx
    simp [parseStmts, hi, h3, hx]

theorem stmtsTail_stop {rest : List Item} (h : tk rest = .RIGHT_BRACE ∨ tk rest = .EOF) (acc : List PT) :
    ∀ F, 1 ≤ F → parseStmtsTail F acc rest = some (acc, rest) := by
  intro F hF
  obtain ⟨F, rfl⟩ : ∃ F', F = F' + 1 := ⟨F - 1, by omega⟩
  rcases h with h | h <;> simp [parseStmtsTail, h]

theorem stmtsAfterSep_stop {rest : List Item} (h : tk rest = .RIGHT_BRACE ∨ tk rest = .EOF) (acc : List PT) :
    ∀ F, 1 ≤ F → parseStmtsAfterSep F acc rest = some (acc, rest) := by
  intro F hF
  obtain ⟨F, rfl⟩ : ∃ F', F = F' + 1 := ⟨F - 1, by omega⟩
  rcases h with h | h <;> simp [parseStmtsAfterSep, h]

theorem stmtEnd_of_blockEnd {rest : List Item} (h : tk rest = .RIGHT_BRACE ∨ tk rest = .EOF) :
    stmtEnd (tk rest) = true := by
  rcases h with h | h <;> simp [h, stmtEnd]

/-- a separator run: its head is `;` or a line end -/
theorem sep_head {sp : List Item} (h : IsSep sp) (xs : List Item) :
    (tk (sp ++ xs) = .SEMICOLON ∨ tk (sp ++ xs) = .EOL) := by
  obtain ⟨hne, hall⟩ := h
  cases sp with
  | nil => exact absurd rfl hne
  | cons i r => simpa using hall i (by simp)

theorem stmtsTail_sep {sp : List Item} (h : IsSep sp) (acc : List PT) (xs : List Item) (F : Nat) :
    parseStmtsTail (F + 1) acc (sp ++ xs) = parseStmtsAfterSep F acc (skipSep xs) := by
  have hh := sep_head h xs
  rw [parseStmtsTail, skipSep_run h.2]
  rcases hh with hh | hh <;> simp [hh]

theorem pseq_last {x t} (ih : PSok x t) : PSeqok [x] t where
  start := ih.start
  seq acc rest hr F hF := by
    obtain ⟨F, rfl⟩ : ∃ F', F = F' + 1 := ⟨F - 1, by omega⟩
    obtain ⟨_, _, h3, h4⟩ := stmtStart_ne (ih.start rest)
    have hx := ih.stmt rest (stmtEnd_of_blockEnd hr) F (by omega)
    have ht := stmtsTail_stop hr (acc ++ [x]) F (by omega)
    simp [parseStmtsAfterSep, h3, h4, hx, ht]

theorem pseq_lastSep {x t sp} (hsp : IsSep sp) (ih : PSok x t) : PSeqok [x] (t ++ sp) where
  start rest := by simpa [List.append_assoc] using ih.start _
  seq acc rest hr F hF := by
    simp only [List.append_assoc]
    simp only [List.length_append] at hF
    obtain ⟨F, rfl⟩ : ∃ F', F = F' + 2 := ⟨F - 2, by omega⟩
    obtain ⟨_, _, h3, h4⟩ := stmtStart_ne (ih.start (sp ++ rest))
    have hse : stmtEnd (tk (sp ++ rest)) = true := by
      rcases sep_head hsp rest with h | h <;> simp [h, stmtEnd]
    have hx := ih.stmt (sp ++ rest) hse (F + 1) (by omega)
    have hne : tk rest ≠ .SEMICOLON ∧ tk rest ≠ .EOL := by rcases hr with h | h <;> simp [h]
    have ht : parseStmtsTail (F + 1) (acc ++ [x]) (sp ++ rest) = some (acc ++ [x], rest) := by
      rw [stmtsTail_sep hsp, skipSep_of_ne hne.1 hne.2]
      exact stmtsAfterSep_stop hr _ F (by have := ih.len; omega)
    simp [parseStmtsAfterSep, h3, h4, hx, ht]

theorem pseq_cons {x rest' t sp tr} (hsp : IsSep sp) (ih : PSok x t) (ihr : PSeqok rest' tr) :
    PSeqok (x :: rest') (t ++ sp ++ tr) where
  start rest := by simpa [List.append_assoc] using ih.start _
  seq acc rest hr F hF := by
    simp only [List.append_assoc]
    simp only [List.length_append] at hF
    obtain ⟨F, rfl⟩ : ∃ F', F = F' + 2 := ⟨F - 2, by omega⟩
    obtain ⟨_, _, h3, h4⟩ := stmtStart_ne (ih.start (sp ++ (tr ++ rest)))
    have hse : stmtEnd (tk (sp ++ (tr ++ rest))) = true := by
      rcases sep_head hsp (tr ++ rest) with h | h <;> simp [h, stmtEnd]
    have hx := ih.stmt (sp ++ (tr ++ rest)) hse (F + 1) (by omega)
    obtain ⟨g1, g2, _, _⟩ := stmtStart_ne (ihr.start rest)
    have ht : parseStmtsTail (F + 1) (acc ++ [x]) (sp ++ (tr ++ rest)) = some (acc ++ x :: rest', rest) := by
      rw [stmtsTail_sep hsp, skipSep_of_ne g2 g1]
      have := ihr.seq (acc ++ [x]) rest hr F (by have := ih.len; have := hsp.1; omega)
      simpa using this
    simp [parseStmtsAfterSep, h3, h4, hx, ht]

/-! ### statements -/

theorem ps_simple {x t} (ih : PSimpleok x t) : PSok x t where
  start rest := exprStart_stmtStart (ih.start rest)
  len := ih.len
  stmt rest hr F hF := by
    obtain ⟨F, rfl⟩ : ∃ F', F = F' + 1 := ⟨F - 1, by omega⟩
    rw [parseStmt_simple (ih.start rest)]
    exact ih.simple rest (stmtEnd_facts hr).2.2 F (by omega)

theorem ps_brk (p s) : PSok .brk [⟨.BREAK, p, s⟩] where
  start rest := rfl
  len := by simp
  stmt rest hr F hF := by
    obtain ⟨F, rfl⟩ : ∃ F', F = F' + 1 := ⟨F - 1, by omega⟩
    simp [parseStmt]

theorem ps_cont (p s) : PSok .cont [⟨.CONTINUE, p, s⟩] where
  start rest := rfl
  len := by simp
  stmt rest hr F hF := by
    obtain ⟨F, rfl⟩ : ∃ F', F = F' + 1 := ⟨F - 1, by omega⟩
    simp [parseStmt]

/-! #### if / elif / else -/

theorem pifs_one {first c b tc tb p s} (ihc : PEok c tc) (ihb : PBok b tb) :
    PIfsok first [(c, b)] (⟨if first then .IF else .ELIF, p, s⟩ :: (tc ++ tb)) where
  len := by simp
  ifstart hf rest := by subst hf; rfl
  elifs hf acc rest f res hK F hF := by
    subst hf
    simp only [List.append_assoc, List.cons_append]
    simp only [List.length_append, List.length_cons] at hF
    obtain ⟨F, rfl⟩ : ∃ F', F = F' + 1 := ⟨F - 1, by omega⟩
    have hc := ihc.fin (rest := tb ++ rest) (by rw [ihb.lb]; rfl) F (by omega)
    have hb := ihb.block rest F (by have := ihc.len; omega)
    simp [parseElifs, hc, hb]
    exact hK F (by omega)
  ifs hf rest f res hK F hF := by
    subst hf
    simp only [List.append_assoc, List.cons_append]
    simp only [List.length_append, List.length_cons] at hF
    obtain ⟨F, rfl⟩ : ∃ F', F = F' + 1 := ⟨F - 1, by omega⟩
    have hc := ihc.fin (rest := tb ++ rest) (by rw [ihb.lb]; rfl) F (by omega)
    have hb := ihb.block rest F (by have := ihc.len; omega)
    simp [parseStmt, hc, hb]
    exact hK F (by omega)

theorem pifs_cons {first c b rest' tc tb tr p s} (ihc : PEok c tc) (ihb : PBok b tb) (ihr : PIfsok false rest' tr) :
    PIfsok first ((c, b) :: rest') (⟨if first then .IF else .ELIF, p, s⟩ :: (tc ++ tb ++ tr)) where
  len := by simp
  ifstart hf rest := by subst hf; rfl
  elifs hf acc rest f res hK F hF := by
    subst hf
    simp only [List.append_assoc, List.cons_append]
    simp only [List.length_append, List.length_cons] at hF
    obtain ⟨F, rfl⟩ : ∃ F', F = F' + 1 := ⟨F - 1, by omega⟩
    have hc := ihc.fin (rest := tb ++ (tr ++ rest)) (by rw [ihb.lb]; rfl) F (by omega)
    have hb := ihb.block (tr ++ rest) F (by have := ihc.len; omega)
    simp [parseElifs, hc, hb]
    exact ihr.elifs rfl (acc ++ [(c, b)]) rest f res (by simpa using hK) F (by omega)
  ifs hf rest f res hK F hF := by
    subst hf
    simp only [List.append_assoc, List.cons_append]
    simp only [List.length_append, List.length_cons] at hF
    obtain ⟨F, rfl⟩ : ∃ F', F = F' + 1 := ⟨F - 1, by omega⟩
    have hc := ihc.fin (rest := tb ++ (tr ++ rest)) (by rw [ihb.lb]; rfl) F (by omega)
    have hb := ihb.block (tr ++ rest) F (by have := ihc.len; omega)
    simp [parseStmt, hc, hb]
    exact ihr.elifs rfl [(c, b)] rest f res (by simpa using hK) F (by omega)

theorem pelse_none : PElseok none [] where
  els acc rest h1 h2 F hF := by
    obtain ⟨F, rfl⟩ : ∃ F', F = F' + 1 := ⟨F - 1, by omega⟩
    simp [parseElifs, h1, h2]

theorem pelse_some {b tb p s} (ihb : PBok b tb) : PElseok (some b) (⟨.ELSE, p, s⟩ :: tb) where
  els acc rest h1 h2 F hF := by
    simp only [List.length_cons] at hF
    obtain ⟨F, rfl⟩ : ∃ F', F = F' + 1 := ⟨F - 1, by omega⟩
    have hb := ihb.block rest F (by omega)
    simp [parseElifs, hb]

theorem ps_ifelse {ifs els t te} (ih : PIfsok true ifs t) (ihe : PElseok els te) :
    PSok (.ifelse ifs els) (t ++ te) where
  start rest := by
    have := ih.ifstart rfl (te ++ rest)
    simp only [List.append_assoc, this]; rfl
  len := by have := ih.len; simp; omega
  stmt rest hr F hF := by
    simp only [List.append_assoc]
    simp only [List.length_append] at hF
    obtain ⟨h1, h2, _⟩ := stmtEnd_facts hr
    exact ih.ifs rfl (te ++ rest) (4 * te.length + 4) _ (fun F hF => ihe.els ifs rest h1 h2 F hF) F (by omega)

/-! #### for -/

/-- the condition clause as `parseForRest` reads it -/
def condStep (F : Nat) (ts : List Item) : Option (Option PT × List Item) :=
  if tk ts = .SEMICOLON then some (none, ts)
  else match parseExpr F 1 ts with
    | some (c, r) => some (some c, r)
    | none => none

theorem forRest_block {F : Nat} {init cond : Option PT} {ts r r1 r2 : List Item} {b : List PT}
    (hc : condStep F ts = some (cond, r)) (hx : expect .SEMICOLON r = some r1)
    (hb : asBlock F r1 = some (b, r2)) :
    parseForRest (F + 1) init ts = some (.forS init cond none b, r2) := by
  simp only [condStep] at hc
  simp only [asBlock] at hb
  simp only [parseForRest]
  split at hc
  · rename_i h
    cases hc
    simp only [h, if_true, hx]
    split at hb
    · rename_i h'
      simp only [h', if_true]
      split at hb
      · rename_i b' r2' hb'
        split at hb
        · cases hb; simp_all
        · cases hb
      · cases hb
    · cases hb
  · rename_i h
    split at hc
    · rename_i c r' hc'
      cases hc
      simp only [h, if_false, hc', hx]
      split at hb
      · rename_i h'
        simp only [h', if_true]
        split at hb
        · rename_i b' r2' hb'
          split at hb
          · cases hb; simp_all
          · cases hb
        · cases hb
      · cases hb
    · cases hc

theorem forRest_loop {F : Nat} {init cond : Option PT} {ts r r1 r2 r3 : List Item} {b : List PT} {l : PT}
    (hc : condStep F ts = some (cond, r)) (hx : expect .SEMICOLON r = some r1)
    (hb : asBlock F r1 = none) (hl : parseSimple F r1 = some (l, r2)) (hbl : parseBlock F r2 = some (b, r3)) :
    parseForRest (F + 1) init ts = some (.forS init cond (some l) b, r3) := by
  simp only [condStep] at hc
  simp only [asBlock] at hb
  simp only [parseForRest]
  have hcond : (tk ts = .SEMICOLON ∧ cond = none ∧ r = ts) ∨
      (tk ts ≠ .SEMICOLON ∧ ∃ c, cond = some c ∧ parseExpr F 1 ts = some (c, r)) := by
    split at hc
    · rename_i h
      cases hc; exact Or.inl ⟨h, rfl, rfl⟩
    · rename_i h
      split at hc
      · rename_i c r' hc'
        cases hc; exact Or.inr ⟨h, _, rfl, hc'⟩
      · cases hc
  clear hc
  by_cases h' : tk r1 = .LEFT_BRACE
  · cases hpb : parseBlock F r1 with
    | none =>
      rcases hcond with ⟨h, rfl, rfl⟩ | ⟨h, c, rfl, hc'⟩
      · simp [h, hx, h', hpb, hl, hbl]
      · simp [h, hx, h', hpb, hl, hbl, hc']
    | some br =>
      obtain ⟨b', r2'⟩ := br
      have hse : stmtEnd (tk r2') = false := by simpa [h', hpb] using hb
      rcases hcond with ⟨h, rfl, rfl⟩ | ⟨h, c, rfl, hc'⟩
      · simp [h, hx, h', hpb, hse, hl, hbl]
      · simp [h, hx, h', hpb, hse, hl, hbl, hc']
  · rcases hcond with ⟨h, rfl, rfl⟩ | ⟨h, c, rfl, hc'⟩
    · simp [h, hx, h', hl, hbl]
    · simp [h, hx, h', hl, hbl, hc']

theorem ps_forIn {q v it body ti tb e p s p1 p2 s2} (hok : identOK q v) (hl : 3 < level it)
    (hmk : mkForIn (.bin .in_ (.ident q v) it) body = some (.forIn (.ident q v) it body))
    (he : Eols e) (ihi : PEok it ti) (ihb : PBok body tb) :
    PSok (.forIn (.ident q v) it body)
      ([⟨.FOR, p, s⟩, ⟨identTok q, p1, v⟩, ⟨.IN, p2, s2⟩] ++ e ++ ti ++ tb) where
  start rest := rfl
  len := by simp
  stmt rest hr F hF := by
    simp only [List.append_assoc, List.cons_append, List.nil_append]
    simp only [List.length_append, List.length_cons, List.length_nil] at hF
    obtain ⟨F, rfl⟩ : ∃ F', F = F' + 2 := ⟨F - 2, by omega⟩
    have hbin : PEok (.bin .in_ (.ident q v) it) ([⟨identTok q, p1, v⟩] ++ [⟨opTok .in_, p2, s2⟩] ++ e ++ ti) :=
      pe_bin (by simp [lvl, level]) (by simpa [lvl] using hl) (by simp [mkBin]) he (pe_ident q v p1 hok) ihi
    have hlb := ihb.lb rest
    have hs := (psimple_expr hbin).simple (tb ++ rest) (by rw [hlb]; rfl) F
      (by simp only [List.length_append, List.length_cons, List.length_nil]; have := ihb.len; omega)
    simp only [List.append_assoc, List.cons_append, List.nil_append, opTok] at hs
    have hb := ihb.block rest F (by omega)
    have hq : identTok q ≠ .SEMICOLON := by cases q <;> simp [identTok]
    simp [parseStmt, parseFor, hq, hs, hlb, hb, hmk]

/-- after the first `;` of a three-clause `for` -/
theorem forRest_ok {init cond loop : Option PT} {body : List PT} {tc tl tb : List Item} {p2 s2}
    (ihc : POok cond tc) (ihl : POSok loop tl) (ihb : PBok body tb) (rest : List Item)
    (hr : stmtEnd (tk rest) = true) :
    ∀ F, 4 * (tc.length + tl.length + tb.length) + 5 ≤ F →
      parseForRest F init (tc ++ ⟨.SEMICOLON, p2, s2⟩ :: (tl ++ (tb ++ rest))) =
        some (.forS init cond loop body, rest) := by
  intro F hF
  obtain ⟨F, rfl⟩ : ∃ F', F = F' + 1 := ⟨F - 1, by omega⟩
  have hlb := ihb.lb rest
  have hb := ihb.block rest F (by omega)
  have hc : condStep F (tc ++ ⟨.SEMICOLON, p2, s2⟩ :: (tl ++ (tb ++ rest))) =
      some (cond, ⟨.SEMICOLON, p2, s2⟩ :: (tl ++ (tb ++ rest))) := by
    cases cond with
    | none =>
      have : tc = [] := ihc
      subst this
      simp [condStep]
    | some c =>
      have ihc' : PEok c tc := ihc
      have hs := exprStart_ne (ihc'.start (⟨.SEMICOLON, p2, s2⟩ :: (tl ++ (tb ++ rest))))
      have hx := ihc'.fin (rest := ⟨.SEMICOLON, p2, s2⟩ :: (tl ++ (tb ++ rest))) rfl F (by omega)
      simp [condStep, hs.2.2.2.2.2.1, hx]
  cases loop with
  | none =>
    have : tl = [] := ihl
    subst this
    refine forRest_block hc rfl ?_
    simp [asBlock, hlb, hb, hr]
  | some l =>
    have ihl' : PSimpleok l tl := ihl
    have h1 := ihl'.brace (tb ++ rest) (by rw [hlb]; rfl) F (by omega)
    have h2 := ihl'.simple (tb ++ rest) (by rw [hlb]; rfl) F (by omega)
    exact forRest_loop hc rfl h1 h2 hb

theorem ps_forS {init cond loop body ti tc tl tb p s p1 s1 p2 s2}
    (ihi : POSok init ti) (ihc : POok cond tc) (ihl : POSok loop tl) (ihb : PBok body tb) :
    PSok (.forS init cond loop body)
      ([⟨.FOR, p, s⟩] ++ ti ++ [⟨.SEMICOLON, p1, s1⟩] ++ tc ++ [⟨.SEMICOLON, p2, s2⟩] ++ tl ++ tb) where
  start rest := rfl
  len := by simp
  stmt rest hr F hF := by
    simp only [List.append_assoc, List.cons_append, List.nil_append]
    simp only [List.length_append, List.length_cons, List.length_nil] at hF
    obtain ⟨F, rfl⟩ : ∃ F', F = F' + 2 := ⟨F - 2, by omega⟩
    have hrest := forRest_ok (init := init) (p2 := p2) (s2 := s2) ihc ihl ihb rest hr F (by omega)
    cases init with
    | none =>
      have : ti = [] := ihi
      subst this
      simp [parseStmt, parseFor, hrest]
    | some x =>
      have ihi' : PSimpleok x ti := ihi
      have hs := exprStart_ne (ihi'.start (⟨.SEMICOLON, p1, s1⟩ :: (tc ++ ⟨.SEMICOLON, p2, s2⟩ :: (tl ++ (tb ++ rest)))))
      have hx := ihi'.simple (⟨.SEMICOLON, p1, s1⟩ :: (tc ++ ⟨.SEMICOLON, p2, s2⟩ :: (tl ++ (tb ++ rest)))) rfl F (by omega)
      simp [parseStmt, parseFor, hs.2.2.2.2.2.1, hx, hrest]

/-! ### tying the knot for statements -/

mutual

theorem pb_ok : {ss : List PT} → {tb : List Item} → PB ss tb → PBok ss tb
  | _, _, .empty _ _ _ _ _ he => pb_empty he
  | _, _, .emptySem _ _ _ _ _ _ he hsm => pb_emptySem he hsm
  | _, _, .stmts _ _ _ _ _ _ _ he h => pb_stmts he (pss_ok h)

theorem pss_ok : {ss : List PT} → {t : List Item} → PSS ss t → PSSok ss t
  | _, _, .plain _ _ h => pss_plain (pseq_ok h)
  | _, _, .sem _ _ _ hsm h => pss_sem hsm (pseq_ok h)

theorem pseq_ok : {ss : List PT} → {t : List Item} → PSeq ss t → PSeqok ss t
  | _, _, .last _ _ h => pseq_last (ps_ok h)
  | _, _, .lastSep _ _ _ hsp h => pseq_lastSep hsp (ps_ok h)
  | _, _, .cons _ _ _ _ _ hsp h hr => pseq_cons hsp (ps_ok h) (pseq_ok hr)

theorem pifs_ok : {first : Bool} → {ifs : List (PT × List PT)} → {t : List Item} → PIfs first ifs t → PIfsok first ifs t
  | _, _, _, .one _ _ _ _ _ _ _ hc hb => pifs_one (pe_ok hc) (pb_ok hb)
  | _, _, _, .cons _ _ _ _ _ _ _ _ _ hc hb hr => pifs_cons (pe_ok hc) (pb_ok hb) (pifs_ok hr)

theorem pelse_ok : {els : Option (List PT)} → {te : List Item} → PElse els te → PElseok els te
  | _, _, .none => pelse_none
  | _, _, .some _ _ _ _ hb => pelse_some (pb_ok hb)

theorem ps_ok : {x : PT} → {t : List Item} → PS x t → PSok x t
  | _, _, .simple _ _ h => ps_simple (psimple_ok h)
  | _, _, .brk p s => ps_brk p s
  | _, _, .cont p s => ps_cont p s
  | _, _, .ifelse _ _ _ _ h he => ps_ifelse (pifs_ok h) (pelse_ok he)
  | _, _, .forIn _ _ _ _ _ _ _ _ _ _ _ _ hok hl hmk he hi hb => ps_forIn hok hl hmk he (pe_ok hi) (pb_ok hb)
  | _, _, .forS _ _ _ _ _ _ _ _ _ _ _ _ _ _ hi hc hl hb =>
    ps_forS (pos_ok hi) (po_ok hc) (pos_ok hl) (pb_ok hb)

end

/-! ### spellings contain no ERROR and no COMMENT items -/

def good (t : Tok) : Bool := t != .ERROR && t != .COMMENT
def clean (ts : List Item) : Bool := ts.all fun i => good i.typ

theorem clean_nil : clean [] = true := rfl
theorem clean_cons (i : Item) (r : List Item) : clean (i :: r) = (good i.typ && clean r) := rfl
theorem clean_append (a b : List Item) : clean (a ++ b) = (clean a && clean b) := by simp [clean, List.all_append]
theorem opTok_ne_error (op : BOp) : opTok op ≠ .ERROR := by cases op <;> simp [opTok]
theorem opTok_ne_comment (op : BOp) : opTok op ≠ .COMMENT := by cases op <;> simp [opTok]
theorem unTok_ne_error (op : UnOp) : unTok op ≠ .ERROR := by cases op <;> simp [unTok]
theorem unTok_ne_comment (op : UnOp) : unTok op ≠ .COMMENT := by cases op <;> simp [unTok]
theorem asgTok_ne_error (op : AsgOp) : asgTok op ≠ .ERROR := by cases op <;> simp [asgTok]
theorem asgTok_ne_comment (op : AsgOp) : asgTok op ≠ .COMMENT := by cases op <;> simp [asgTok]
theorem identTok_ne_error (q : Bool) : identTok q ≠ .ERROR := by cases q <;> simp [identTok]
theorem identTok_ne_comment (q : Bool) : identTok q ≠ .COMMENT := by cases q <;> simp [identTok]
theorem clean_eols {e : List Item} (h : Eols e) : clean e = true := by
  simp only [clean, List.all_eq_true]; intro i hi; rw [h i hi]; rfl
theorem clean_run {sp : List Item} (h : ∀ i ∈ sp, i.typ = .SEMICOLON ∨ i.typ = .EOL) : clean sp = true := by
  simp only [clean, List.all_eq_true]; intro i hi; rcases h i hi with h | h <;> rw [h] <;> rfl
theorem clean_sep {sp : List Item} (h : IsSep sp) : clean sp = true := clean_run h.2
theorem clean_sem {sm : List Item} (h : IsSem sm) : clean sm = true := by
  obtain ⟨i, r, rfl, hi, hr⟩ := h
  rw [clean_cons, hi, clean_run hr]; rfl

macro "clean_tac" : tactic =>
  `(tactic| simp [*, clean_append, clean_cons, clean_nil, good, opTok_ne_error, opTok_ne_comment, unTok_ne_error,
      unTok_ne_comment, asgTok_ne_error, asgTok_ne_comment, identTok_ne_error, identTok_ne_comment])

mutual

theorem pe_clean : {t : PT} → {ts : List Item} → PE t ts → clean ts = true
  | _, _, .ident q v p h => by clean_tac
  | _, _, .num v p => by clean_tac
  | _, _, .numNeg v p p' s => by clean_tac
  | _, _, .str m v p h => by cases m <;> clean_tac
  | _, _, .boolT p s => by clean_tac
  | _, _, .boolF p s => by clean_tac
  | _, _, .nil p s => by clean_tac
  | _, _, .null p s => by clean_tac
  | _, _, .listNil _ _ _ _ _ he => by have := clean_eols he; clean_tac
  | _, _, .list _ _ _ _ _ he h => by have := clean_eols he; have := pl_clean h; clean_tac
  | _, _, .mapNil _ _ _ _ _ he => by have := clean_eols he; clean_tac
  | _, _, .map _ _ _ _ _ he h => by have := clean_eols he; have := pm_clean h; clean_tac
  | _, _, .paren _ _ _ _ _ _ _ _ h1 h2 h => by
    have := clean_eols h1; have := clean_eols h2; have := pe_clean h; clean_tac
  | _, _, .attr _ _ _ _ _ _ _ _ h1 h2 => by have := pe_clean h1; have := pe_clean h2; clean_tac
  | _, _, .index _ _ _ _ _ _ _ h => by have := pi_clean h; clean_tac
  | _, _, .indexDot _ _ _ _ _ h => by have := pi_clean h; clean_tac
  | _, _, .unary _ _ _ _ _ _ _ h => by have := pe_clean h; clean_tac
  | _, _, .bin _ _ _ _ _ _ _ _ _ _ _ he h1 h2 => by
    have := clean_eols he; have := pe_clean h1; have := pe_clean h2; clean_tac
  | _, _, .callNil _ _ _ _ _ _ _ _ _ he => by have := clean_eols he; clean_tac
  | _, _, .call _ _ _ _ _ _ _ _ _ he h => by have := clean_eols he; have := pa_clean h; clean_tac
  | _, _, .slice2 _ _ _ _ _ _ _ _ _ _ _ _ _ _ _ _ he1 he2 h0 ha hb => by
    have := clean_eols he1; have := clean_eols he2
    have := pe_clean h0; have := po_clean ha; have := po_clean hb; clean_tac
  | _, _, .slice3 _ _ _ _ _ _ _ _ _ _ _ _ _ _ _ _ _ _ _ _ _ he1 he2 he3 h0 ha hb hc => by
    have := clean_eols he1; have := clean_eols he2; have := clean_eols he3
    have := pe_clean h0; have := po_clean ha; have := po_clean hb; have := po_clean hc; clean_tac

theorem po_clean : {o : Option PT} → {ts : List Item} → PO o ts → clean ts = true
  | _, _, .none => rfl
  | _, _, .some _ _ h => pe_clean h

theorem pi_clean : {idx : List PT} → {ts : List Item} → PI idx ts → clean ts = true
  | _, _, .nil => rfl
  | _, _, .cons _ _ _ _ _ _ _ _ _ _ h1 h2 hx hr => by
    have := clean_eols h1; have := clean_eols h2; have := pe_clean hx; have := pi_clean hr; clean_tac

theorem pl_clean : {xs : List PT} → {ts : List Item} → PL xs ts → clean ts = true
  | _, _, .last _ _ _ _ _ he h => by have := clean_eols he; have := pe_clean h; clean_tac
  | _, _, .lastComma _ _ _ _ _ _ _ _ he1 he2 h => by
    have := clean_eols he1; have := clean_eols he2; have := pe_clean h; clean_tac
  | _, _, .cons _ _ _ _ _ _ _ _ he1 he2 h hr => by
    have := clean_eols he1; have := clean_eols he2; have := pe_clean h; have := pl_clean hr; clean_tac

theorem pm_clean : {kvs : List (PT × PT)} → {ts : List Item} → PM kvs ts → clean ts = true
  | _, _, .last _ _ _ _ _ _ _ _ _ _ he1 he2 hk hv => by
    have := clean_eols he1; have := clean_eols he2; have := pe_clean hk; have := pe_clean hv; clean_tac
  | _, _, .lastComma _ _ _ _ _ _ _ _ _ _ _ _ he1 he2 hk hv => by
    have := clean_eols he1; have := clean_eols he2; have := pe_clean hk; have := pe_clean hv; clean_tac
  | _, _, .cons _ _ _ _ _ _ _ _ _ _ _ _ he1 he2 hk hv hr => by
    have := clean_eols he1; have := clean_eols he2; have := pe_clean hk; have := pe_clean hv
    have := pm_clean hr; clean_tac

theorem parg_clean : {a : PT} → {ts : List Item} → PArg a ts → clean ts = true
  | _, _, .pos _ _ h => pe_clean h
  | _, _, .named _ _ _ _ _ _ _ _ _ he h => by have := clean_eols he; have := pe_clean h; clean_tac

theorem pa_clean : {args : List PT} → {ts : List Item} → PA args ts → clean ts = true
  | _, _, .last _ _ _ _ _ he h => by have := clean_eols he; have := parg_clean h; clean_tac
  | _, _, .lastComma _ _ _ _ _ _ _ he h => by have := clean_eols he; have := parg_clean h; clean_tac
  | _, _, .cons _ _ _ _ _ _ _ he h hr => by
    have := clean_eols he; have := parg_clean h; have := pa_clean hr; clean_tac

theorem pc_clean : {xs : List PT} → {ts : List Item} → PC xs ts → clean ts = true
  | _, _, .one _ _ h => pe_clean h
  | _, _, .cons _ _ _ _ _ _ _ he h hr => by
    have := clean_eols he; have := pe_clean h; have := pc_clean hr; clean_tac

theorem psimple_clean : {x : PT} → {t : List Item} → PSimple x t → clean t = true
  | _, _, .expr _ _ h => pe_clean h
  | _, _, .assign _ _ _ _ _ _ _ he hl hr => by
    have := clean_eols he; have := pc_clean hl; have := pc_clean hr; clean_tac
  | _, _, .opAssign _ _ _ _ _ _ _ _ _ he hl hr => by
    have := clean_eols he; have := pe_clean hl; have := pe_clean hr; clean_tac

theorem pos_clean : {o : Option PT} → {ts : List Item} → POS o ts → clean ts = true
  | _, _, .none => rfl
  | _, _, .some _ _ h => psimple_clean h

theorem pb_clean : {ss : List PT} → {tb : List Item} → PB ss tb → clean tb = true
  | _, _, .empty _ _ _ _ _ he => by have := clean_eols he; clean_tac
  | _, _, .emptySem _ _ _ _ _ _ he hsm => by have := clean_eols he; have := clean_sem hsm; clean_tac
  | _, _, .stmts _ _ _ _ _ _ _ he h => by have := clean_eols he; have := pss_clean h; clean_tac

theorem pss_clean : {ss : List PT} → {t : List Item} → PSS ss t → clean t = true
  | _, _, .plain _ _ h => pseq_clean h
  | _, _, .sem _ _ _ hsm h => by have := clean_sem hsm; have := pseq_clean h; clean_tac

theorem pseq_clean : {ss : List PT} → {t : List Item} → PSeq ss t → clean t = true
  | _, _, .last _ _ h => ps_clean h
  | _, _, .lastSep _ _ _ hsp h => by have := clean_sep hsp; have := ps_clean h; clean_tac
  | _, _, .cons _ _ _ _ _ hsp h hr => by
    have := clean_sep hsp; have := ps_clean h; have := pseq_clean hr; clean_tac

theorem pifs_clean : {first : Bool} → {ifs : List (PT × List PT)} → {t : List Item} → PIfs first ifs t → clean t = true
  | first, _, _, .one _ _ _ _ _ _ _ hc hb => by
    have := pe_clean hc; have := pb_clean hb; cases first <;> clean_tac
  | first, _, _, .cons _ _ _ _ _ _ _ _ _ hc hb hr => by
    have := pe_clean hc; have := pb_clean hb; have := pifs_clean hr; cases first <;> clean_tac

theorem pelse_clean : {els : Option (List PT)} → {te : List Item} → PElse els te → clean te = true
  | _, _, .none => rfl
  | _, _, .some _ _ _ _ hb => by have := pb_clean hb; clean_tac

theorem ps_clean : {x : PT} → {t : List Item} → PS x t → clean t = true
  | _, _, .simple _ _ h => psimple_clean h
  | _, _, .brk p s => by clean_tac
  | _, _, .cont p s => by clean_tac
  | _, _, .ifelse _ _ _ _ h he => by have := pifs_clean h; have := pelse_clean he; clean_tac
  | _, _, .forIn _ _ _ _ _ _ _ _ _ _ _ _ _ _ _ he hi hb => by
    have := clean_eols he; have := pe_clean hi; have := pb_clean hb; clean_tac
  | _, _, .forS _ _ _ _ _ _ _ _ _ _ _ _ _ _ hi hc hl hb => by
    have := pos_clean hi; have := po_clean hc; have := pos_clean hl; have := pb_clean hb; clean_tac

end

/-! ### programs -/

theorem clean_no_error {ts : List Item} (h : clean ts = true) : (ts.any fun i => i.typ = .ERROR) = false := by
  simp only [clean, List.all_eq_true] at h
  simp only [List.any_eq_false]
  intro i hi
  have := h i hi
  intro he
  simp [good] at this
  exact this.1 (by simpa using he)

theorem clean_filter {ts : List Item} (h : clean ts = true) : ts.filter (fun i => i.typ ≠ .COMMENT) = ts := by
  simp only [clean, List.all_eq_true] at h
  rw [List.filter_eq_self]
  intro i hi
  have := h i hi
  simp [good] at this
  simpa using this.2

theorem pprog_clean {ss : List PT} {ts : List Item} (h : PProg ss ts) : clean ts = true := by
  cases h with
  | empty e p s hne he => have := clean_eols he; clean_tac
  | emptySem e sm p s he hsm => have := clean_eols he; have := clean_sem hsm; clean_tac
  | stmts ss e t p s he h => have := clean_eols he; have := pss_clean h; clean_tac

theorem parseItems_empty {ts : List Item} (hc : clean ts = true) (h1 : tk (skipE ts) = .EOF) (h2 : tk ts = .EOL) :
    parseItems ts = some [] := by
  simp only [parseItems, clean_no_error hc, clean_filter hc]
  simp [h1, h2]

theorem parseItems_stmts {ts r : List Item} {ss : List PT} (hc : clean ts = true) (h1 : tk (skipE ts) ≠ .EOF)
    (h2 : parseStmts (16 * ts.length + 64) (skipE ts) = some (ss, r)) (h3 : tk r = .EOF) :
    parseItems ts = some ss := by
  simp only [parseItems, clean_no_error hc, clean_filter hc]
  simp [h1, h2, h3]

theorem parseItems_of_pprog {ss : List PT} {ts : List Item} (h : PProg ss ts) : parseItems ts = some ss := by
  have hc := pprog_clean h
  cases h with
  | empty e p s hne he =>
    have hsk : skipE (e ++ [⟨.EOF, p, s⟩]) = [⟨.EOF, p, s⟩] := skipE_eols_ne he (by simp)
    have htk : tk (e ++ [⟨.EOF, p, s⟩]) = .EOL := by
      cases e with
      | nil => exact absurd rfl hne
      | cons i r => simpa using he i (by simp)
    exact parseItems_empty hc (by rw [hsk]; rfl) htk
  | emptySem e sm p s he hsm =>
    obtain ⟨i, r, rfl, hi, hr⟩ := hsm
    have hsk : skipE (e ++ (i :: r) ++ [⟨.EOF, p, s⟩]) = i :: (r ++ [⟨.EOF, p, s⟩]) := by
      rw [List.append_assoc]; exact skipE_eols_ne he (by simp [hi])
    have h3 : skipSep (i :: (r ++ [⟨.EOF, p, s⟩])) = [⟨.EOF, p, s⟩] := by
      have := skipSep_run_ne (sp := i :: r) (xs := [⟨.EOF, p, s⟩])
        (by intro j hj; rcases List.mem_cons.1 hj with rfl | hj; exact Or.inl hi; exact hr j hj) (by simp) (by simp)
      simpa using this
    refine parseItems_stmts (r := [⟨.EOF, p, s⟩]) hc (by rw [hsk]; simp [hi]) ?_ rfl
    rw [hsk]
    have : 16 * (e ++ i :: r ++ [(⟨.EOF, p, s⟩ : Item)]).length + 64 =
        (16 * (e ++ i :: r ++ [(⟨.EOF, p, s⟩ : Item)]).length + 62) + 2 := by omega
    rw [this]
    simp [parseStmts, hi, h3, parseStmtsAfterSep]
  | stmts ss e t p s he h =>
    have ih := pss_ok h
    obtain ⟨g1, g2, g3⟩ := ih.start [⟨.EOF, p, s⟩]
    have hsk : skipE (e ++ t ++ [⟨.EOF, p, s⟩]) = t ++ [⟨.EOF, p, s⟩] := by
      rw [List.append_assoc]; exact skipE_eols_ne he g1
    have hx := ih.stmts [⟨.EOF, p, s⟩] (Or.inr rfl) (16 * (e ++ t ++ [(⟨.EOF, p, s⟩ : Item)]).length + 64)
      (by simp only [List.length_append, List.length_cons, List.length_nil]; omega)
    exact parseItems_stmts hc (by rw [hsk]; exact g3) (by rw [hsk]; exact hx) rfl

end Platypus.Parse
