import Platypus.Model.Lexer
/-!
Basic facts about the lexer model: rune decoding widths, `next`/`backup`, blanks, error messages.
-/
namespace Platypus.Lex
open Platypus.Utf8

/-- `omega` after exposing `Rune = Int` and `eof = -1` -/
macro "romega" : tactic => `(tactic| ((try simp only [Rune, eof] at *); omega))

/-! ### `Utf8.decode` / `decodeRune` -/

theorem decode_cases (b0 : UInt8) (rest bytes : Bytes) (w : Nat) (h : decode (b0 :: rest) = some (bytes, w)) :
      (w = 1 ∨ (w = 2 ∧ 0xC2 ≤ b0.toNat ∧ b0.toNat < 0xE0 ∧ ∃ b1 r, rest = b1 :: r ∧ bytes = [b0, b1]) ∨
       (w = 3 ∧ 0xE0 ≤ b0.toNat ∧ b0.toNat < 0xF0 ∧ ∃ b1 b2 r, rest = b1 :: b2 :: r ∧ bytes = [b0, b1, b2] ∧ b1.toNat ≤ 0xBF ∧ (b0.toNat = 0xE0 → 0xA0 ≤ b1.toNat)) ∨
       (w = 4 ∧ 0xF0 ≤ b0.toNat ∧ b0.toNat < 0xF5 ∧ ∃ b1 b2 b3 r, rest = b1 :: b2 :: b3 :: r ∧ bytes = [b0, b1, b2, b3] ∧ b1.toNat ≤ 0xBF ∧ (b0.toNat = 0xF0 → 0x90 ≤ b1.toNat))) := by
  simp only [decode] at h
  repeat' split at h
  all_goals simp only [Option.some.injEq, Prod.mk.injEq] at h
  all_goals obtain ⟨rfl, rfl⟩ := h
  all_goals simp_all [UInt8.lt_iff_toNat_lt, UInt8.le_iff_toNat_le]
  all_goals first
    | omega
    | (intro he
       have : b0 = UInt8.ofNat b0.toNat := by simp
       rw [he] at this
       simp_all)

theorem decode_cons_isSome (b0 : UInt8) (rest : Bytes) : (decode (b0 :: rest)).isSome = true := by
  simp only [decode]
  repeat' split
  all_goals rfl

theorem decodeRune_spec (b0 : UInt8) (rest : Bytes) :
    1 ≤ (decodeRune (b0 :: rest)).2 ∧ (decodeRune (b0 :: rest)).2 ≤ rest.length + 1 ∧
    ((decodeRune (b0 :: rest)).1 < 128 → (decodeRune (b0 :: rest)).2 = 1 ∧ (decodeRune (b0 :: rest)).1 = b0.toNat) := by
  unfold decodeRune
  simp only
  split
  · simp
  rename_i hb
  cases hd : decode (b0 :: rest) with
  | none => have := decode_cons_isSome b0 rest; simp [hd] at this
  | some p =>
    obtain ⟨bytes, w⟩ := p
    simp only
    split
    · simp
    rename_i hw
    rcases decode_cases b0 rest bytes w hd with h | ⟨rfl, h0, h0', b1, r, rfl, rfl⟩ | ⟨rfl, h0, h0', b1, b2, r, rfl, rfl, h1', h1⟩ | ⟨rfl, h0, h0', b1, b2, b3, r, rfl, rfl, h1', h1⟩
    · exact absurd h hw
    · simp only [List.length_cons]; omega
    · simp only [List.length_cons]
      refine ⟨by omega, by omega, ?_⟩
      intro hlt
      exfalso
      by_cases he : b0.toNat = 224
      · have := h1 he; omega
      · have := b0.toNat_lt; omega
    · simp only [List.length_cons]
      refine ⟨by omega, by omega, ?_⟩
      intro hlt
      exfalso
      by_cases he : b0.toNat = 240
      · have := h1 he; omega
      · have := b0.toNat_lt; omega

/-! ### the rune at a position -/

/-- rune and width that `next` reads at `pos` -/
def runeAt (input : Bytes) (pos : Nat) : Rune × Nat :=
  if pos ≥ input.length then (eof, 0)
  else (((decodeRune (input.drop pos)).1 : Nat), (decodeRune (input.drop pos)).2)

theorem next_eq (l : L) : next l = ((runeAt l.input l.pos).1,
    { l with width := (runeAt l.input l.pos).2, pos := l.pos + (runeAt l.input l.pos).2 }) := by
  unfold next runeAt
  split
  · simp
  · simp

theorem peek_eq (l : L) : peek l = (runeAt l.input l.pos).1 := by
  simp [peek, next_eq]

theorem drop_eq_cons_of_lt {α} (s : List α) (p : Nat) (h : p < s.length) :
    s.drop p = s[p] :: s.drop (p + 1) := by
  simp

theorem runeAt_le (i : Bytes) (p : Nat) (h : p ≤ i.length) : p + (runeAt i p).2 ≤ i.length := by
  unfold runeAt
  split
  · simpa using h
  · rename_i hp
    have hp : p < i.length := by omega
    rw [drop_eq_cons_of_lt i p hp]
    have := (decodeRune_spec i[p] (i.drop (p+1))).2.1
    simp only [List.length_drop] at this
    simp only
    omega

theorem runeAt_eof_iff (i : Bytes) (p : Nat) : (runeAt i p).1 = eof ↔ i.length ≤ p := by
  unfold runeAt
  split
  · simp_all
  · rename_i hp
    simp only [eof, Rune]
    constructor
    · intro h; exfalso; omega
    · intro h; exfalso; omega

theorem runeAt_width_of_eof (i : Bytes) (p : Nat) (h : (runeAt i p).1 = eof) : (runeAt i p).2 = 0 := by
  have := (runeAt_eof_iff i p).1 h
  unfold runeAt
  simp [this]

theorem runeAt_width_pos (i : Bytes) (p : Nat) (h : (runeAt i p).1 ≠ eof) : 1 ≤ (runeAt i p).2 := by
  have hp : p < i.length := by
    have := mt (runeAt_eof_iff i p).2 h; omega
  unfold runeAt
  rw [if_neg (by omega)]
  rw [drop_eq_cons_of_lt i p hp]
  exact (decodeRune_spec i[p] (i.drop (p+1))).1

theorem runeAt_lt_of_ne_eof (i : Bytes) (p : Nat) (h : (runeAt i p).1 ≠ eof) : p < i.length := by
  have := mt (runeAt_eof_iff i p).2 h; omega

theorem runeAt_ascii (i : Bytes) (p : Nat) (h0 : 0 ≤ (runeAt i p).1) (h1 : (runeAt i p).1 < 128) :
    (runeAt i p).2 = 1 ∧ ∃ c, i[p]? = some c ∧ (c.toNat : Int) = (runeAt i p).1 := by
  have hne : (runeAt i p).1 ≠ eof := by
    intro h; rw [h] at h0; simp [eof] at h0
  have hp := runeAt_lt_of_ne_eof i p hne
  revert h0 h1 hne
  unfold runeAt
  rw [if_neg (by omega)]
  rw [drop_eq_cons_of_lt i p hp]
  intro h0 h1 _
  simp only [Rune] at h0 h1 ⊢
  have := (decodeRune_spec i[p] (i.drop (p+1))).2.2 (by omega)
  refine ⟨this.1, i[p], by simp [hp], ?_⟩
  omega

/-! ### blanks -/

def isBlankByte (c : UInt8) : Bool := c == 32 || c == 9 || c == 13

/-- every byte of `input[a, b)` exists and is a blank -/
def Blanks (input : Bytes) (a b : Nat) : Prop :=
  ∀ k, a ≤ k → k < b → ∃ c, input[k]? = some c ∧ isBlankByte c = true

theorem Blanks.refl (input : Bytes) (a : Nat) : Blanks input a a := by
  intro k h1 h2; omega

theorem Blanks.trans {input : Bytes} {a b c : Nat} (h1 : Blanks input a b) (h2 : Blanks input b c) :
    Blanks input a c := by
  intro k hk1 hk2
  by_cases h : k < b
  · exact h1 k hk1 h
  · exact h2 k (by omega) hk2

theorem runeAt_blank (i : Bytes) (p : Nat) (h : isSpaceNotEOL (runeAt i p).1 = true) :
    (runeAt i p).2 = 1 ∧ Blanks i p (p + 1) := by
  have h' : (runeAt i p).1 = 32 ∨ (runeAt i p).1 = 9 ∨ (runeAt i p).1 = 13 := by
    simpa [isSpaceNotEOL, or_assoc] using h
  obtain ⟨hw, c, hc, hcr⟩ := runeAt_ascii i p (by rcases h' with h | h | h <;> rw [h] <;> decide) (by rcases h' with h | h | h <;> rw [h] <;> decide)
  refine ⟨hw, ?_⟩
  intro k hk1 hk2
  have : k = p := by omega
  subst this
  refine ⟨c, hc, ?_⟩
  have hc' : c.toNat = 32 ∨ c.toNat = 9 ∨ c.toNat = 13 := by
    simp only [Rune] at h' hcr; omega
  have : c = UInt8.ofNat c.toNat := by simp
  rcases hc' with h | h | h <;> (rw [h] at this; subst this; decide)

theorem Blanks_all (input : Bytes) (a b : Nat) (hab : a ≤ b) (h : Blanks input a b) :
    ((input.drop a).take (b - a)).all isBlankByte = true := by
  rw [List.all_eq_true]
  intro x hx
  obtain ⟨k, hk, rfl⟩ := List.getElem_of_mem hx
  simp only [List.length_take, List.length_drop] at hk
  obtain ⟨c, hc, hb⟩ := h (a + k) (by omega) (by omega)
  simp only [List.getElem_take, List.getElem_drop]
  have : input[a + k]? = some input[a + k] := by
    apply List.getElem?_eq_getElem
  rw [this] at hc
  injection hc with hc
  rw [hc]; exact hb

/-! ### error messages are not the fuel marker -/

theorem ByteArray_toList_loop_length (bs : ByteArray) (i : Nat) (r : List UInt8) :
    (ByteArray.toList.loop bs i r).length = r.length + (bs.size - i) := by
  fun_induction ByteArray.toList.loop bs i r with
  | case1 i r h ih => rw [ih]; simp; omega
  | case2 i r h => simp; omega

theorem ByteArray_toList_length (bs : ByteArray) : bs.toList.length = bs.size := by
  simp [ByteArray.toList, ByteArray_toList_loop_length]

def fuelMsg : Bytes := "fuel".toUTF8.toList

theorem fuelMsg_length : fuelMsg.length = 4 := by
  unfold fuelMsg; rw [ByteArray_toList_length]; rfl

/-! ### field projections of the primitive operations -/

/-- the state after `next` -/
def nx (l : L) : L :=
  { l with width := (runeAt l.input l.pos).2, pos := l.pos + (runeAt l.input l.pos).2 }

/-- rune read by `next` -/
def rAt (l : L) : Rune := (runeAt l.input l.pos).1
/-- width read by `next` -/
def wAt (l : L) : Nat := (runeAt l.input l.pos).2

theorem next_eq' (l : L) : next l = (rAt l, nx l) := next_eq l

@[simp] theorem next_fst (l : L) : (next l).1 = rAt l := by rw [next_eq']
@[simp] theorem next_snd (l : L) : (next l).2 = nx l := by rw [next_eq']
@[simp] theorem peek_rAt (l : L) : peek l = rAt l := peek_eq l

@[simp] theorem nx_input (l : L) : (nx l).input = l.input := rfl
@[simp] theorem nx_state (l : L) : (nx l).state = l.state := rfl
@[simp] theorem nx_pos (l : L) : (nx l).pos = l.pos + wAt l := rfl
@[simp] theorem nx_start (l : L) : (nx l).start = l.start := rfl
@[simp] theorem nx_width (l : L) : (nx l).width = wAt l := rfl
@[simp] theorem nx_item (l : L) : (nx l).item = l.item := rfl
@[simp] theorem nx_paren (l : L) : (nx l).paren = l.paren := rfl
@[simp] theorem nx_brace (l : L) : (nx l).brace = l.brace := rfl
@[simp] theorem nx_bracket (l : L) : (nx l).bracket = l.bracket := rfl

@[simp] theorem backup_input (l : L) : (backup l).input = l.input := rfl
@[simp] theorem backup_state (l : L) : (backup l).state = l.state := rfl
@[simp] theorem backup_pos (l : L) : (backup l).pos = l.pos - l.width := rfl
@[simp] theorem backup_start (l : L) : (backup l).start = l.start := rfl
@[simp] theorem backup_width (l : L) : (backup l).width = l.width := rfl
@[simp] theorem backup_item (l : L) : (backup l).item = l.item := rfl

@[simp] theorem emit_input (l : L) (t : Tok) : (emit l t).input = l.input := rfl
@[simp] theorem emit_state (l : L) (t : Tok) : (emit l t).state = l.state := rfl
@[simp] theorem emit_pos (l : L) (t : Tok) : (emit l t).pos = l.pos := rfl
@[simp] theorem emit_start (l : L) (t : Tok) : (emit l t).start = l.pos := rfl
@[simp] theorem emit_width (l : L) (t : Tok) : (emit l t).width = l.width := rfl
@[simp] theorem emit_item (l : L) (t : Tok) :
    (emit l t).item = some ⟨t, l.start, slice l.input l.start l.pos⟩ := rfl
@[simp] theorem emit_paren (l : L) (t : Tok) : (emit l t).paren = l.paren := rfl
@[simp] theorem emit_brace (l : L) (t : Tok) : (emit l t).brace = l.brace := rfl
@[simp] theorem emit_bracket (l : L) (t : Tok) : (emit l t).bracket = l.bracket := rfl

@[simp] theorem errorf_input (l : L) (m : String) : (errorf l m).input = l.input := rfl
@[simp] theorem errorf_state (l : L) (m : String) : (errorf l m).state = l.state := rfl
@[simp] theorem errorf_pos (l : L) (m : String) : (errorf l m).pos = l.pos := rfl
@[simp] theorem errorf_start (l : L) (m : String) : (errorf l m).start = l.start := rfl
@[simp] theorem errorf_width (l : L) (m : String) : (errorf l m).width = l.width := rfl
@[simp] theorem errorf_item (l : L) (m : String) :
    (errorf l m).item = some ⟨.ERROR, l.start, m.toUTF8.toList⟩ := rfl

@[simp] theorem ignore_input (l : L) : (ignore l).input = l.input := rfl
@[simp] theorem ignore_state (l : L) : (ignore l).state = l.state := rfl
@[simp] theorem ignore_pos (l : L) : (ignore l).pos = l.pos := rfl
@[simp] theorem ignore_start (l : L) : (ignore l).start = l.pos := rfl
@[simp] theorem ignore_width (l : L) : (ignore l).width = l.width := rfl
@[simp] theorem ignore_item (l : L) : (ignore l).item = l.item := rfl

/-- facts about the rune at the current position -/
theorem wAt_le (l : L) (h : l.pos ≤ l.input.length) : l.pos + wAt l ≤ l.input.length :=
  runeAt_le _ _ h
theorem wAt_pos (l : L) (h : rAt l ≠ eof) : 1 ≤ wAt l := runeAt_width_pos _ _ h
theorem wAt_eof (l : L) (h : rAt l = eof) : wAt l = 0 := runeAt_width_of_eof _ _ h
theorem rAt_eof_iff (l : L) : rAt l = eof ↔ l.input.length ≤ l.pos := runeAt_eof_iff _ _
theorem rAt_congr (l l' : L) (h1 : l'.input = l.input) (h2 : l'.pos = l.pos) : rAt l' = rAt l := by
  unfold rAt; rw [h1, h2]
theorem wAt_congr (l l' : L) (h1 : l'.input = l.input) (h2 : l'.pos = l.pos) : wAt l' = wAt l := by
  unfold wAt; rw [h1, h2]
theorem rAt_blank (l : L) (h : isSpaceNotEOL (rAt l) = true) :
    wAt l = 1 ∧ Blanks l.input l.pos (l.pos + 1) := runeAt_blank _ _ h

theorem keyword_ne (w : Bytes) : (keyword w).getD .ID ≠ .EOF ∧ (keyword w).getD .ID ≠ .ERROR := by
  unfold keyword
  simp only
  split <;> simp

theorem msg_len (msg : String) : (msg.toUTF8.toList).length = msg.toUTF8.size :=
  ByteArray_toList_length _

end Platypus.Lex
