import Platypus.Proofs.ElabShape
/-!
# Front end, helper 5: `GStmt` implies the shape hypotheses of the evaluator theorems

* `GStmt.prog`: `C03.Prog`;
* `GStmt.shaped`, `gstmt_shapedL`: `C03.Shaped`, `C03.ShapedL`;
* `gstmt_noStmtInExpr`: the Boolean checker `stmtsOk2` of C14 (v2) accepts the block at every large
  enough depth (`Ev`: "for all sufficiently large fuel").
-/
set_option linter.unusedVariables false
namespace Platypus.FrontEnd
open Platypus Platypus.ScopeProofs Platypus.SignalV2

/-! ### `Prog` -/

theorem GStmt.prog {x : Node} (h : GStmt x) : C03.Prog x := by
  induction h with
  | expr h => exact .expr h
  | brk p => exact .brk p
  | cont p => exact .cont p
  | ifelse p h1 h2 h3 ih2 ih3 => exact .ifelse p (fun x hx => .expr (h1 x hx)) ih2 ih3
  | forS p h1 h2 h3 h4 ih4 =>
    exact .forS p (fun n hn => .expr (h1 n hn)) (fun n hn => .expr (h2 n hn)) (fun n hn => .expr (h3 n hn)) ih4
  | forIn p1 p2 hv hi hb ihb => exact .forIn _ p1 p2 (.expr hi) ihb

/-! ### `Shaped` -/

theorem sfree_not_stmtNode {e : Node} (h : SFree e) : C03.isStmtNode e = false := by
  rw [← C03.isStmt_eq]; exact h.not_stmt

theorem sfree_shaped {e : Node} (h : SFree e) : C03.Shaped e := by
  intro k
  cases k with
  | zero => cases e <;> rfl
  | succ k => cases h <;> rfl

theorem shapedL_of {b : List Node} (h : ∀ n ∈ b, C03.Shaped n) : C03.ShapedL b := by
  intro k
  induction b generalizing k with
  | nil => cases k <;> rfl
  | cons a r ih =>
    cases k with
    | zero => rfl
    | succ k =>
      simp only [C03.shapedL, Bool.and_eq_true]
      exact ⟨h a (by simp) k, ih (fun n hn => h n (by simp [hn])) k⟩

theorem shapedOB_of {o : Option (List Node)} (h : ∀ blk, o = some blk → ∀ n ∈ blk, C03.Shaped n) :
    C03.ShapedOB o := by
  intro k
  cases o with
  | none => cases k <;> rfl
  | some b =>
    cases k with
    | zero => rfl
    | succ k => simp only [C03.shapedOB]; exact shapedL_of (h b rfl) k

theorem shapedIfs_of {ifs : List (Node × Option (List Node) × Pos)}
    (h : ∀ x ∈ ifs, C03.isStmtNode x.1 = false ∧ C03.ShapedOB x.2.1) : C03.ShapedIfs ifs := by
  intro k
  induction ifs generalizing k with
  | nil => cases k <;> rfl
  | cons a r ih =>
    obtain ⟨c, b, p⟩ := a
    cases k with
    | zero => rfl
    | succ k =>
      simp only [C03.shapedIfs, Bool.and_eq_true, Bool.not_eq_true']
      have := h (c, b, p) (by simp)
      exact ⟨⟨this.1, this.2 k⟩, ih (fun x hx => h x (by simp [hx])) k⟩

def optOk (o : Option Node) : Bool := match o with | some i => !C03.isStmtNode i | none => true

theorem optNotStmt {o : Option Node} (h : ∀ n, o = some n → SFree n) : optOk o = true := by
  unfold optOk
  cases o with
  | none => rfl
  | some i => simp [sfree_not_stmtNode (h i rfl)]

theorem GStmt.shaped {x : Node} (h : GStmt x) : C03.Shaped x := by
  induction h with
  | expr h => exact sfree_shaped h
  | brk p => intro k; cases k <;> rfl
  | cont p => intro k; cases k <;> rfl
  | ifelse p h1 h2 h3 ih2 ih3 =>
    intro k
    cases k with
    | zero => rfl
    | succ k =>
      simp only [C03.shaped, Bool.and_eq_true]
      exact ⟨shapedIfs_of (fun x hx => ⟨sfree_not_stmtNode (h1 x hx), shapedOB_of (ih2 x hx)⟩) k,
        shapedOB_of ih3 k⟩
  | @forS ini c l body p h1 h2 h3 h4 ih4 =>
    intro k
    cases k with
    | zero => rfl
    | succ k =>
      simp only [C03.shaped, Bool.and_eq_true]
      exact ⟨⟨⟨optNotStmt h1, optNotStmt h2⟩, optNotStmt h3⟩, shapedOB_of ih4 k⟩
  | forIn p1 p2 hv hi hb ihb =>
    intro k
    cases k with
    | zero => rfl
    | succ k =>
      simp only [C03.shaped, Bool.and_eq_true, Bool.not_eq_true']
      exact ⟨sfree_not_stmtNode hi, shapedOB_of ihb k⟩

theorem gstmt_shapedL {b : List Node} (h : ∀ n ∈ b, GStmt n) : C03.ShapedL b :=
  shapedL_of fun n hn => (h n hn).shaped

/-! ### the Boolean checkers of C14 (v2): accepted at every large enough depth -/

/-- for all sufficiently large fuel -/
def Ev (P : Nat → Bool) : Prop := ∃ g, ∀ g', g ≤ g' → P g' = true

theorem Ev.and {P Q : Nat → Bool} (hp : Ev P) (hq : Ev Q) : Ev fun g => P g && Q g := by
  obtain ⟨g1, h1⟩ := hp
  obtain ⟨g2, h2⟩ := hq
  refine ⟨max g1 g2, fun g' hg => ?_⟩
  simp only [Bool.and_eq_true]
  exact ⟨h1 g' (by omega), h2 g' (by omega)⟩

theorem Ev.shift {P Q : Nat → Bool} (h : ∀ k, P k = true → Q (k+1) = true) (hp : Ev P) : Ev Q := by
  obtain ⟨g, hg⟩ := hp
  refine ⟨g + 1, fun g' hg' => ?_⟩
  obtain ⟨k, rfl⟩ : ∃ k, g' = k + 1 := ⟨g' - 1, by omega⟩
  exact h k (hg k (by omega))

theorem Ev.const_succ {Q : Nat → Bool} (h : ∀ k, Q (k+1) = true) : Ev Q :=
  ⟨1, fun g' hg' => by obtain ⟨k, rfl⟩ : ∃ k, g' = k + 1 := ⟨g' - 1, by omega⟩; exact h k⟩

theorem ev_list {α} {P : Nat → α → Bool} {xs : List α} (h : ∀ x ∈ xs, Ev fun g => P g x) :
    ∃ g, ∀ x ∈ xs, ∀ g', g ≤ g' → P g' x = true := by
  induction xs with
  | nil => exact ⟨0, by simp⟩
  | cons a r ih =>
    obtain ⟨g1, h1⟩ := h a (by simp)
    obtain ⟨g2, h2⟩ := ih (fun x hx => h x (by simp [hx]))
    refine ⟨max g1 g2, ?_⟩
    intro x hx g' hg
    rcases List.mem_cons.1 hx with rfl | hx
    · exact h1 g' (by omega)
    · exact h2 x hx g' (by omega)

theorem ev_exprFreeL {xs : List Node} (h : ∀ x ∈ xs, Ev fun g => exprFree g x) : Ev fun g => exprFreeL g xs := by
  obtain ⟨G, hG⟩ := ev_list h
  refine ⟨G + xs.length + 1, ?_⟩
  intro g hg
  induction xs generalizing g with
  | nil =>
    obtain ⟨k, rfl⟩ : ∃ k, g = k + 1 := ⟨g - 1, by simp at hg; omega⟩
    rfl
  | cons a r ih =>
    obtain ⟨k, rfl⟩ : ∃ k, g = k + 1 := ⟨g - 1, by simp at hg; omega⟩
    simp only [List.length_cons] at hg
    simp only [exprFreeL, Bool.and_eq_true]
    exact ⟨hG a (by simp) k (by omega),
      ih (fun x hx => h x (by simp [hx])) (fun x hx => hG x (by simp [hx])) k (by omega)⟩

theorem ev_exprFreeO {o : Option Node} (h : ∀ x, o = some x → Ev fun g => exprFree g x) :
    Ev fun g => exprFreeO g o := by
  cases o with
  | none => exact Ev.const_succ fun k => rfl
  | some x => exact (h x rfl).shift fun k hk => by simpa only [exprFreeO] using hk

theorem ev_exprFreeKV {kvs : List (Node × Node)} (h1 : ∀ kv ∈ kvs, Ev fun g => exprFree g kv.1)
    (h2 : ∀ kv ∈ kvs, Ev fun g => exprFree g kv.2) : Ev fun g => exprFreeKV g kvs := by
  obtain ⟨G, hG⟩ := ev_list (P := fun g (kv : Node × Node) => exprFree g kv.1 && exprFree g kv.2)
    (fun kv hkv => (h1 kv hkv).and (h2 kv hkv))
  refine ⟨G + kvs.length + 1, ?_⟩
  intro g hg
  induction kvs generalizing g with
  | nil =>
    obtain ⟨k, rfl⟩ : ∃ k, g = k + 1 := ⟨g - 1, by simp at hg; omega⟩
    rfl
  | cons a r ih =>
    obtain ⟨k', v'⟩ := a
    obtain ⟨k, rfl⟩ : ∃ k, g = k + 1 := ⟨g - 1, by simp at hg; omega⟩
    simp only [List.length_cons] at hg
    have ha := hG (k', v') (by simp) k (by omega)
    simp only [Bool.and_eq_true] at ha
    simp only [exprFreeKV, Bool.and_eq_true]
    exact ⟨ha, ih (fun x hx => h1 x (by simp [hx])) (fun x hx => h2 x (by simp [hx]))
      (fun x hx => hG x (by simp [hx])) k (by omega)⟩

theorem sfree_ev {e : Node} (h : SFree e) : Ev fun g => exprFree g e := by
  induction h with
  | ident n p => exact Ev.const_succ fun k => rfl
  | strLit v p => exact Ev.const_succ fun k => rfl
  | intLit v p => exact Ev.const_succ fun k => rfl
  | floatLit v p => exact Ev.const_succ fun k => rfl
  | boolLit v p => exact Ev.const_succ fun k => rfl
  | nilLit p => exact Ev.const_succ fun k => rfl
  | attr o a p => exact Ev.const_succ fun k => rfl
  | list lb rb h ih => exact (ev_exprFreeL ih).shift fun k hk => by simpa only [exprFree] using hk
  | map lb rb h1 h2 ih1 ih2 => exact (ev_exprFreeKV ih1 ih2).shift fun k hk => by simpa only [exprFree] using hk
  | paren lp rp h ih => exact ih.shift fun k hk => by simpa only [exprFree] using hk
  | index obj lbs rbs h ih => exact (ev_exprFreeL ih).shift fun k hk => by simpa only [exprFree] using hk
  | unary op p h ih => exact ih.shift fun k hk => by simpa only [exprFree] using hk
  | arith op p hl hr ihl ihr => exact (ihl.and ihr).shift fun k hk => by simpa only [exprFree] using hk
  | cond op p hl hr ihl ihr => exact (ihl.and ihr).shift fun k hk => by simpa only [exprFree] using hk
  | inE p hl hr ihl ihr => exact (ihl.and ihr).shift fun k hk => by simpa only [exprFree] using hk
  | assign op p hl hr ihl ihr =>
    exact ((ev_exprFreeL ihl).and (ev_exprFreeL ihr)).shift fun k hk => by simpa only [exprFree] using hk
  | call name np lp rp site h ih =>
    exact (ev_exprFreeL ih).shift fun k hk => by simpa only [exprFree] using hk
  | slice c2 lb rb ho ha hb hc iho iha ihb ihc =>
    exact (((iho.and (ev_exprFreeO iha)).and (ev_exprFreeO ihb)).and (ev_exprFreeO ihc)).shift
      fun k hk => by simpa only [exprFree] using hk

theorem stmtOk2_expr {e : Node} (h : SFree e) (k : Nat) : stmtOk2 (k+1) e = exprFree k e := by
  cases h <;> rfl

theorem ev_stmtsOk2 {b : List Node} (h : ∀ n ∈ b, Ev fun g => stmtOk2 g n) : Ev fun g => stmtsOk2 g b := by
  obtain ⟨G, hG⟩ := ev_list h
  refine ⟨G + b.length + 1, ?_⟩
  intro g hg
  induction b generalizing g with
  | nil =>
    obtain ⟨k, rfl⟩ : ∃ k, g = k + 1 := ⟨g - 1, by simp at hg; omega⟩
    rfl
  | cons a r ih =>
    obtain ⟨k, rfl⟩ : ∃ k, g = k + 1 := ⟨g - 1, by simp at hg; omega⟩
    simp only [List.length_cons] at hg
    simp only [stmtsOk2, Bool.and_eq_true]
    exact ⟨hG a (by simp) k (by omega),
      ih (fun x hx => h x (by simp [hx])) (fun x hx => hG x (by simp [hx])) k (by omega)⟩

theorem ev_blockOk2 {o : Option (List Node)} (h : ∀ blk, o = some blk → ∀ n ∈ blk, Ev fun g => stmtOk2 g n) :
    Ev fun g => blockOk2 g o := by
  cases o with
  | none => exact Ev.const_succ fun k => rfl
  | some b => exact (ev_stmtsOk2 (h b rfl)).shift fun k hk => by simpa only [blockOk2] using hk

theorem ev_ifsOk2 {ifs : List (Node × Option (List Node) × Pos)}
    (h : ∀ x ∈ ifs, (Ev fun g => exprFree g x.1) ∧ Ev fun g => blockOk2 g x.2.1) : Ev fun g => ifsOk2 g ifs := by
  obtain ⟨G, hG⟩ := ev_list
    (P := fun g (x : Node × Option (List Node) × Pos) => exprFree g x.1 && blockOk2 g x.2.1)
    (fun x hx => (h x hx).1.and (h x hx).2)
  refine ⟨G + ifs.length + 1, ?_⟩
  intro g hg
  induction ifs generalizing g with
  | nil =>
    obtain ⟨k, rfl⟩ : ∃ k, g = k + 1 := ⟨g - 1, by simp at hg; omega⟩
    rfl
  | cons a r ih =>
    obtain ⟨c, b, p⟩ := a
    obtain ⟨k, rfl⟩ : ∃ k, g = k + 1 := ⟨g - 1, by simp at hg; omega⟩
    simp only [List.length_cons] at hg
    have ha := hG (c, b, p) (by simp) k (by omega)
    simp only [Bool.and_eq_true] at ha
    simp only [ifsOk2, Bool.and_eq_true]
    exact ⟨ha, ih (fun x hx => h x (by simp [hx])) (fun x hx => hG x (by simp [hx])) k (by omega)⟩

theorem GStmt.ev {x : Node} (h : GStmt x) : Ev fun g => stmtOk2 g x := by
  induction h with
  | expr h => exact (sfree_ev h).shift fun k hk => by rw [stmtOk2_expr h]; exact hk
  | brk p =>
    exact ⟨2, fun g' hg' => by
      obtain ⟨k, rfl⟩ : ∃ k, g' = k + 2 := ⟨g' - 2, by omega⟩; rfl⟩
  | cont p =>
    exact ⟨2, fun g' hg' => by
      obtain ⟨k, rfl⟩ : ∃ k, g' = k + 2 := ⟨g' - 2, by omega⟩; rfl⟩
  | ifelse p h1 h2 h3 ih2 ih3 =>
    exact ((ev_ifsOk2 fun x hx => ⟨sfree_ev (h1 x hx), ev_blockOk2 (ih2 x hx)⟩).and (ev_blockOk2 ih3)).shift
      fun k hk => by simpa only [stmtOk2] using hk
  | forS p h1 h2 h3 h4 ih4 =>
    exact ((((ev_exprFreeO fun n hn => sfree_ev (h1 n hn)).and (ev_exprFreeO fun n hn => sfree_ev (h2 n hn))).and
      (ev_exprFreeO fun n hn => sfree_ev (h3 n hn))).and (ev_blockOk2 ih4)).shift
      fun k hk => by simpa only [stmtOk2] using hk
  | forIn p1 p2 hv hi hb ihb =>
    exact ((sfree_ev hi).and (ev_blockOk2 ihb)).shift fun k hk => by simpa only [stmtOk2] using hk

theorem gstmt_noStmtInExpr {b : List Node} (h : ∀ n ∈ b, GStmt n) : C14V2.NoStmtInExpr b := by
  obtain ⟨g, hg⟩ := ev_stmtsOk2 fun n hn => (h n hn).ev
  exact ⟨g, hg g (Nat.le_refl _)⟩

end Platypus.FrontEnd
