import Platypus.Properties.C14
import Platypus.Proofs.Refine
/-!
C14, effects-prefix theorem, part 1: environments that differ only in the signal (`withSig`),
the syntactic hypothesis (`SF` signal-free expressions, `StmtOk` statements in which `use(…)`
occurs only as a whole statement) with its Boolean checker, and a small logic `MonoM` for
"this computation only conses onto the trace".
-/
namespace Platypus.SignalProofs
open Platypus Platypus.MachineProofs

/-- the same environment, with a signal that reports true from poll `k` on (`none`: never) -/
def withSig (env : Env) (o : Option Nat) : Env := { env with hasSignal := true, sigK := o }

@[simp] theorem withSig_bound (env : Env) (o : Option Nat) : (withSig env o).bound = env.bound := rfl
@[simp] theorem withSig_fns (env : Env) (o : Option Nat) : (withSig env o).fns = env.fns := rfl
@[simp] theorem withSig_mapOrder (env : Env) (o : Option Nat) : (withSig env o).mapOrder = env.mapOrder := rfl
@[simp] theorem withSig_grok (env : Env) (o : Option Nat) : (withSig env o).grok = env.grok := rfl
@[simp] theorem withSig_oracle (env : Env) (o : Option Nat) : (withSig env o).oracle = env.oracle := rfl
@[simp] theorem withSig_hasSignal (env : Env) (o : Option Nat) : (withSig env o).hasSignal = true := rfl
@[simp] theorem withSig_sigK (env : Env) (o : Option Nat) : (withSig env o).sigK = o := rfl

/-- …and with the signal present or not (`hs = false`: a nil signal, never polled) -/
def withSigH (env : Env) (hs : Bool) (o : Option Nat) : Env := { env with hasSignal := hs, sigK := o }

theorem withSig_eq (env : Env) (o : Option Nat) : withSig env o = withSigH env true o := rfl
@[simp] theorem withSigH_bound (env : Env) (hs : Bool) (o : Option Nat) : (withSigH env hs o).bound = env.bound := rfl
@[simp] theorem withSigH_fns (env : Env) (hs : Bool) (o : Option Nat) : (withSigH env hs o).fns = env.fns := rfl
@[simp] theorem withSigH_mapOrder (env : Env) (hs : Bool) (o : Option Nat) : (withSigH env hs o).mapOrder = env.mapOrder := rfl
@[simp] theorem withSigH_grok (env : Env) (hs : Bool) (o : Option Nat) : (withSigH env hs o).grok = env.grok := rfl
@[simp] theorem withSigH_oracle (env : Env) (hs : Bool) (o : Option Nat) : (withSigH env hs o).oracle = env.oracle := rfl
@[simp] theorem withSigH_hasSignal (env : Env) (hs : Bool) (o : Option Nat) : (withSigH env hs o).hasSignal = hs := rfl
@[simp] theorem withSigH_sigK (env : Env) (hs : Bool) (o : Option Nat) : (withSigH env hs o).sigK = o := rfl

/-! ### the syntactic hypothesis -/

mutual
/-- signal-free expression: no `use(…)` call and no `if`/`for` statement anywhere inside -/
def sigFree : Nat → Node → Bool
  | 0, _ => false
  | f+1, n => match n with
    | .ident _ _ | .strLit _ _ | .intLit _ _ | .floatLit _ _ | .boolLit _ _ | .nilLit _ => true
    | .attr _ _ _ => true
    | .brk _ | .cont _ => true
    | .list xs _ _ => sigFreeL f xs
    | .map kvs _ _ => sigFreeKV f kvs
    | .paren e _ _ => sigFree f e
    | .index _ idx _ _ => sigFreeL f idx
    | .unary _ e _ => sigFree f e
    | .arith _ l r _ | .cond _ l r _ | .inE l r _ => sigFree f l && sigFree f r
    | .assign _ lhs rhs _ => sigFreeL f lhs && sigFreeL f rhs
    | .call name args _ _ _ _ => decide (name ≠ B "use") && sigFreeL f args
    | .slice o a b c _ _ _ => sigFree f o && sigFreeO f a && sigFreeO f b && sigFreeO f c
    | .ifelse _ _ _ | .forS _ _ _ _ _ | .forIn _ _ _ _ _ => false
def sigFreeL : Nat → List Node → Bool
  | 0, _ => false
  | _+1, [] => true
  | f+1, n :: r => sigFree f n && sigFreeL f r
def sigFreeO : Nat → Option Node → Bool
  | 0, _ => false
  | _+1, none => true
  | f+1, some n => sigFree f n
def sigFreeKV : Nat → List (Node × Node) → Bool
  | 0, _ => false
  | _+1, [] => true
  | f+1, (k, v) :: r => sigFree f k && sigFree f v && sigFreeKV f r
end

mutual
/-- `use(…)` occurs only as a whole statement: never inside a larger expression, an argument,
    a condition or a loop header -/
def stmtOk : Nat → Node → Bool
  | 0, _ => false
  | f+1, n => match n with
    | .ifelse ifs els _ => ifsOk f ifs && blockOk f els
    | .forS a b c body _ => sigFreeO f a && sigFreeO f b && sigFreeO f c && blockOk f body
    | .forIn _ it body _ _ => sigFree f it && blockOk f body
    | .call name args _ _ _ _ => decide (name = B "use") || sigFreeL f args
    | e => sigFree f e
def stmtsOk : Nat → List Node → Bool
  | 0, _ => false
  | _+1, [] => true
  | f+1, n :: r => stmtOk f n && stmtsOk f r
def blockOk : Nat → Option (List Node) → Bool
  | 0, _ => false
  | _+1, none => true
  | f+1, some b => stmtsOk f b
def ifsOk : Nat → List (Node × Option (List Node) × Pos) → Bool
  | 0, _ => false
  | _+1, [] => true
  | f+1, (c, b, _) :: r => sigFree f c && blockOk f b && ifsOk f r
end

/-- signal-free expressions, as a predicate -/
inductive SF : Node → Prop
  | ident (n p) : SF (.ident n p)
  | strLit (v p) : SF (.strLit v p)
  | intLit (v p) : SF (.intLit v p)
  | floatLit (v p) : SF (.floatLit v p)
  | boolLit (v p) : SF (.boolLit v p)
  | nilLit (p) : SF (.nilLit p)
  | attr (o a p) : SF (.attr o a p)
  | brk (p) : SF (.brk p)
  | cont (p) : SF (.cont p)
  | list (xs lb rb) : (∀ x ∈ xs, SF x) → SF (.list xs lb rb)
  | map (kvs lb rb) : (∀ kv ∈ kvs, SF kv.1) → (∀ kv ∈ kvs, SF kv.2) → SF (.map kvs lb rb)
  | paren (e lp rp) : SF e → SF (.paren e lp rp)
  | index (obj idx lbs rbs) : (∀ x ∈ idx, SF x) → SF (.index obj idx lbs rbs)
  | unary (op e p) : SF e → SF (.unary op e p)
  | arith (op l r p) : SF l → SF r → SF (.arith op l r p)
  | cond (op l r p) : SF l → SF r → SF (.cond op l r p)
  | inE (l r p) : SF l → SF r → SF (.inE l r p)
  | assign (op lhs rhs p) : (∀ x ∈ lhs, SF x) → (∀ x ∈ rhs, SF x) → SF (.assign op lhs rhs p)
  | call (name args np lp rp site) : name ≠ B "use" → (∀ x ∈ args, SF x) → SF (.call name args np lp rp site)
  | slice (o a b c c2 lb rb) : SF o → (∀ x, a = some x → SF x) → (∀ x, b = some x → SF x) →
      (∀ x, c = some x → SF x) → SF (.slice o a b c c2 lb rb)

/-- statements in which `use(…)` occurs only as a whole statement -/
inductive StmtOk : Node → Prop
  | ifelse (ifs els p) :
      (∀ x ∈ ifs, SF x.1) → (∀ x ∈ ifs, ∀ b, x.2.1 = some b → ∀ n ∈ b, StmtOk n) →
      (∀ b, els = some b → ∀ n ∈ b, StmtOk n) → StmtOk (.ifelse ifs els p)
  | forS (a b c body p) : (∀ x, a = some x → SF x) → (∀ x, b = some x → SF x) → (∀ x, c = some x → SF x) →
      (∀ bl, body = some bl → ∀ n ∈ bl, StmtOk n) → StmtOk (.forS a b c body p)
  | forIn (v it body fp ip) : SF it → (∀ bl, body = some bl → ∀ n ∈ bl, StmtOk n) →
      StmtOk (.forIn v it body fp ip)
  | use (args np lp rp site) : StmtOk (.call (B "use") args np lp rp site)
  | expr (e) : SF e → StmtOk e

def StmtsOk (b : List Node) : Prop := ∀ n ∈ b, StmtOk n
def BlockOk (b : Option (List Node)) : Prop := ∀ bl, b = some bl → StmtsOk bl

/-! ### the checker is sound -/
theorem sigFree_sound : ∀ f,
    (∀ n, sigFree f n = true → SF n) ∧ (∀ l, sigFreeL f l = true → ∀ x ∈ l, SF x) ∧
    (∀ o, sigFreeO f o = true → ∀ x, o = some x → SF x) ∧
    (∀ kvs, sigFreeKV f kvs = true → ∀ kv ∈ kvs, SF kv.1 ∧ SF kv.2) := by
  intro f
  induction f with
  | zero => simp [sigFree, sigFreeL, sigFreeO, sigFreeKV]
  | succ f ih =>
    obtain ⟨ihn, ihl, iho, ihk⟩ := ih
    refine ⟨?_, ?_, ?_, ?_⟩
    · intro n h
      cases n <;> simp only [sigFree, Bool.and_eq_true, decide_eq_true_eq] at h
      case ident => exact .ident _ _
      case strLit => exact .strLit _ _
      case intLit => exact .intLit _ _
      case floatLit => exact .floatLit _ _
      case boolLit => exact .boolLit _ _
      case nilLit => exact .nilLit _
      case attr => exact .attr _ _ _
      case brk => exact .brk _
      case cont => exact .cont _
      case list => exact .list _ _ _ (ihl _ h)
      case map => exact .map _ _ _ (fun kv hkv => (ihk _ h kv hkv).1) (fun kv hkv => (ihk _ h kv hkv).2)
      case paren => exact .paren _ _ _ (ihn _ h)
      case index => exact .index _ _ _ _ (ihl _ h)
      case unary => exact .unary _ _ _ (ihn _ h)
      case arith => exact .arith _ _ _ _ (ihn _ h.1) (ihn _ h.2)
      case cond => exact .cond _ _ _ _ (ihn _ h.1) (ihn _ h.2)
      case inE => exact .inE _ _ _ (ihn _ h.1) (ihn _ h.2)
      case assign => exact .assign _ _ _ _ (ihl _ h.1) (ihl _ h.2)
      case call => exact .call _ _ _ _ _ _ h.1 (ihl _ h.2)
      case slice => exact .slice _ _ _ _ _ _ _ (ihn _ h.1.1.1) (iho _ h.1.1.2) (iho _ h.1.2) (iho _ h.2)
      all_goals exact absurd h (by simp)
    · intro l h
      cases l with
      | nil => simp
      | cons n r =>
        simp only [sigFreeL, Bool.and_eq_true] at h
        intro x hx
        rcases List.mem_cons.1 hx with rfl | hx
        · exact ihn _ h.1
        · exact ihl _ h.2 x hx
    · intro o h x hx
      subst hx
      exact ihn _ (by simpa [sigFreeO] using h)
    · intro kvs h
      cases kvs with
      | nil => simp
      | cons kv r =>
        obtain ⟨k, v⟩ := kv
        simp only [sigFreeKV, Bool.and_eq_true] at h
        intro x hx
        rcases List.mem_cons.1 hx with rfl | hx
        · exact ⟨ihn _ h.1.1, ihn _ h.1.2⟩
        · exact ihk _ h.2 x hx

theorem stmtOk_sound : ∀ f,
    (∀ n, stmtOk f n = true → StmtOk n) ∧ (∀ l, stmtsOk f l = true → StmtsOk l) ∧
    (∀ o, blockOk f o = true → BlockOk o) ∧
    (∀ ifs, ifsOk f ifs = true → ∀ x ∈ ifs, SF x.1 ∧ ∀ b, x.2.1 = some b → ∀ n ∈ b, StmtOk n) := by
  intro f
  induction f with
  | zero => simp [stmtOk, stmtsOk, blockOk, ifsOk]
  | succ f ih =>
    obtain ⟨ihn, ihl, iho, ihi⟩ := ih
    have sfn := (sigFree_sound f).1
    have sfl := (sigFree_sound f).2.1
    have sfo := (sigFree_sound f).2.2.1
    refine ⟨?_, ?_, ?_, ?_⟩
    · intro n h
      cases n
      case ifelse ifs els p =>
        simp only [stmtOk, Bool.and_eq_true] at h
        exact .ifelse _ _ _ (fun x hx => (ihi _ h.1 x hx).1) (fun x hx => (ihi _ h.1 x hx).2) (iho _ h.2)
      case forS a b c body p =>
        simp only [stmtOk, Bool.and_eq_true] at h
        exact .forS _ _ _ _ _ (sfo _ h.1.1.1) (sfo _ h.1.1.2) (sfo _ h.1.2) (iho _ h.2)
      case forIn v it body fp ip =>
        simp only [stmtOk, Bool.and_eq_true] at h
        exact .forIn _ _ _ _ _ (sfn _ h.1) (iho _ h.2)
      case call name args np lp rp site =>
        simp only [stmtOk, Bool.or_eq_true, decide_eq_true_eq] at h
        by_cases hn : name = B "use"
        · subst hn; exact .use _ _ _ _ _
        · rcases h with h | h
          · exact absurd h hn
          · exact .expr _ (.call _ _ _ _ _ _ hn (sfl _ h))
      all_goals
        simp only [stmtOk] at h
        exact .expr _ (sfn _ h)
    · intro l h
      cases l with
      | nil => intro x hx; cases hx
      | cons n r =>
        simp only [stmtsOk, Bool.and_eq_true] at h
        intro x hx
        rcases List.mem_cons.1 hx with rfl | hx
        · exact ihn _ h.1
        · exact ihl _ h.2 x hx
    · intro o h bl hb
      subst hb
      exact ihl _ (by simpa [blockOk] using h)
    · intro ifs h
      cases ifs with
      | nil => simp
      | cons x r =>
        obtain ⟨c, b, p⟩ := x
        simp only [ifsOk, Bool.and_eq_true] at h
        intro y hy
        rcases List.mem_cons.1 hy with rfl | hy
        · exact ⟨sfn _ h.1.1, iho _ h.1.2⟩
        · exact ihi _ h.2 y hy

/-! ### "only conses onto the trace" -/

def MonoR {α} (s : St) : Res α → Prop
  | .ok _ s' => s.world.trace <:+ s'.world.trace
  | .err _ s' => s.world.trace <:+ s'.world.trace
  | _ => True

/-- every run of `m` that ends in a state has only added events to the trace -/
def MonoM {α} (m : EM α) : Prop := ∀ s, MonoR s (m s)

theorem MonoR.trans {α} {s0 s : St} {r : Res α} (h0 : s0.world.trace <:+ s.world.trace) (h : MonoR s r) :
    MonoR s0 r := by
  cases r <;> first | exact List.IsSuffix.trans h0 h | trivial

theorem MonoR.of_trace_eq {α} {s0 s : St} {r : Res α} (h0 : s.world.trace = s0.world.trace) (h : MonoR s r) :
    MonoR s0 r := MonoR.trans (by rw [h0]; exact List.suffix_refl _) h

theorem MonoM.pure {α} (a : α) : MonoM (Pure.pure a : EM α) := fun _ => List.suffix_refl _
theorem MonoM.getS : MonoM Platypus.getS := fun _ => List.suffix_refl _
theorem MonoM.modTask (g : Task → Task) : MonoM (Platypus.modTask g) := fun _ => List.suffix_refl _
theorem MonoM.modWorld (g : World → World) (h : ∀ w, w.trace <:+ (g w).trace) : MonoM (Platypus.modWorld g) :=
  fun s => h s.world
theorem MonoM.runErr {α} (p : Pos) (m : String) : MonoM (Platypus.runErr p m : EM α) := fun _ => List.suffix_refl _
theorem MonoM.panicE {α} (m : String) : MonoM (Platypus.panicE m : EM α) := fun _ => trivial
theorem MonoM.needE {α} (q : Bytes) : MonoM (Platypus.needE q : EM α) := fun _ => trivial
theorem MonoM.outOfFuel {α} : MonoM (Platypus.outOfFuel : EM α) := fun _ => trivial
theorem MonoM.pushScope : MonoM Platypus.pushScope := fun _ => List.suffix_refl _
theorem MonoM.popScope : MonoM Platypus.popScope := fun _ => List.suffix_refl _
theorem MonoM.clearScope : MonoM Platypus.clearScope := fun _ => List.suffix_refl _
theorem MonoM.setVarb (k : Bytes) (v : TV) : MonoM (Platypus.setVarb k v) := fun _ => List.suffix_refl _
theorem MonoM.ask (env : Env) (q : Bytes) : MonoM (Platypus.ask env q) := by
  intro s; unfold Platypus.ask; split
  · exact List.suffix_refl _
  · trivial

theorem MonoM.bind {α β} {m : EM α} {k : α → EM β} (hm : MonoM m) (hk : ∀ a, MonoM (k a)) :
    MonoM (m >>= k) := by
  intro s
  rw [bind_apply]
  have h1 := hm s
  cases h : m s with
  | ok a s' => rw [h] at h1; exact MonoR.trans h1 (hk a s')
  | err e s' => rw [h] at h1; exact h1
  | panic m => trivial
  | fuel => trivial
  | need q => trivial

theorem MonoM.map {α β} {m : EM α} (g : α → β) (hm : MonoM m) : MonoM (g <$> m) := by
  intro s
  have h1 := hm s
  show MonoR s (EM.bind m _ s)
  unfold EM.bind
  cases h : m s <;> rw [h] at h1 <;> first | exact h1 | trivial

theorem MonoM.finally {α} {m : EM α} (hm : MonoM m) : MonoM (m.finally popSt) := by
  intro s
  rw [finally_apply]
  have h1 := hm s
  cases h : m s <;> rw [h] at h1 <;> first | exact h1 | trivial

theorem MonoM.procExit (env : Env) : MonoM (Platypus.procExit env) := by
  intro s; rw [procExit_apply]; unfold pollSt; split <;> exact List.suffix_refl _
theorem MonoM.stmtReturn (env : Env) : MonoM (Platypus.stmtReturn env) := by
  intro s; rw [stmtReturn_apply]; unfold pollSt; split <;> exact List.suffix_refl _

theorem MonoM.castToString (env : Env) (v : Val) : MonoM (Platypus.castToString env v) := by
  cases v <;> simp only [Platypus.castToString] <;>
    first | exact MonoM.pure _ | exact MonoM.bind (MonoM.ask _ _) fun _ => MonoM.pure _

set_option hygiene false in
/-- one step of the syntax-directed proof that a `do` block is trace-monotone; induction hypotheses
    are looked up under the reserved names `ih1` … `ih12` -/
macro "mono_step" : tactic => `(tactic| first
  | with_reducible exact MonoM.pure _
  | with_reducible exact MonoM.getS
  | with_reducible exact MonoM.modTask _
  | with_reducible exact MonoM.runErr _ _
  | with_reducible exact MonoM.panicE _
  | with_reducible exact MonoM.needE _
  | with_reducible exact MonoM.outOfFuel
  | with_reducible exact MonoM.pushScope
  | with_reducible exact MonoM.popScope
  | with_reducible exact MonoM.clearScope
  | with_reducible exact MonoM.setVarb _ _
  | with_reducible exact MonoM.ask _ _
  | with_reducible exact MonoM.procExit _
  | with_reducible exact MonoM.stmtReturn _
  | with_reducible exact MonoM.castToString _ _
  | with_reducible assumption
  | with_reducible apply ih1
  | with_reducible apply ih2
  | with_reducible apply ih3
  | with_reducible apply ih4
  | with_reducible apply ih5
  | with_reducible apply ih6
  | with_reducible apply ih7
  | with_reducible apply ih8
  | with_reducible apply ih9
  | with_reducible apply ih10
  | with_reducible apply ih11
  | with_reducible apply ih12
  | (with_reducible refine MonoM.modWorld _ (fun w => ?_); first | exact List.suffix_refl _ | exact List.suffix_cons _ _)
  | with_reducible refine MonoM.bind ?_ (fun _ => ?_)
  | with_reducible refine MonoM.map _ ?_
  | with_reducible refine MonoM.finally ?_
  | split)

macro "mono" : tactic => `(tactic| repeat' mono_step)

theorem MonoM.conv2str (env : Env) (x : TV) : MonoM (Platypus.conv2str env x) := by
  unfold Platypus.conv2str
  mono

end Platypus.SignalProofs
