import Platypus.Model.Eval
/-!
String literals as byte lists: `B "len" = [108, 101, 110]` etc., so that `Fn.ofName` can be evaluated
on concrete names (for the concrete examples of C01).
-/
namespace Platypus.PanicProofs
open Platypus

theorem toList_loop (data : Array UInt8) : ∀ (k i : Nat) (r : List UInt8), i + k = data.size →
    ByteArray.toList.loop ⟨data⟩ i r = r.reverse ++ data.toList.drop i := by
  intro k
  induction k with
  | zero =>
    intro i r h
    rw [ByteArray.toList.loop.eq_def]
    have h1 : ¬ i < (ByteArray.mk data).size := by show ¬ i < data.size; omega
    rw [if_neg h1]
    have : data.toList.drop i = [] := List.drop_eq_nil_of_le (by rw [Array.length_toList]; omega)
    rw [this, List.append_nil]
  | succ k ih =>
    intro i r h
    rw [ByteArray.toList.loop.eq_def]
    have hi : i < (ByteArray.mk data).size := by show i < data.size; omega
    rw [if_pos hi, ih (i+1) _ (by omega)]
    have hlen : i < data.toList.length := by rw [Array.length_toList]; omega
    rw [List.drop_eq_getElem_cons hlen, List.reverse_cons, List.append_assoc]
    congr 1
    show [(ByteArray.mk data).get! i] ++ _ = _
    have : (ByteArray.mk data).get! i = data.toList[i] := by
      show data[i]! = _
      rw [getElem!_pos data i (by omega)]
      simp
    rw [this]
    rfl

theorem bytesOf_ofList (cs : List Char) : bytesOf (String.ofList cs) = cs.flatMap String.utf8EncodeChar := by
  show (String.ofList cs).toByteArray.toList = _
  rw [String.toByteArray_ofList]
  unfold ByteArray.toList
  have := toList_loop (cs.utf8Encode).data (cs.utf8Encode).data.size 0 [] (by omega)
  rw [show (ByteArray.mk (cs.utf8Encode).data) = cs.utf8Encode from rfl] at this
  rw [this]
  simp only [List.utf8Encode, List.reverse_nil, List.nil_append, List.drop_zero, List.toList_data_toByteArray]

theorem B_exit : B "exit" = [101, 120, 105, 116] := by
  show bytesOf "exit" = _
  rw [show "exit" = String.ofList ['e','x','i','t'] from rfl, bytesOf_ofList]
  decide
theorem B_add_key : B "add_key" = [97, 100, 100, 95, 107, 101, 121] := by
  show bytesOf "add_key" = _
  rw [show "add_key" = String.ofList ['a','d','d','_','k','e','y'] from rfl, bytesOf_ofList]
  decide
theorem B_get_key : B "get_key" = [103, 101, 116, 95, 107, 101, 121] := by
  show bytesOf "get_key" = _
  rw [show "get_key" = String.ofList ['g','e','t','_','k','e','y'] from rfl, bytesOf_ofList]
  decide
theorem B_set_tag : B "set_tag" = [115, 101, 116, 95, 116, 97, 103] := by
  show bytesOf "set_tag" = _
  rw [show "set_tag" = String.ofList ['s','e','t','_','t','a','g'] from rfl, bytesOf_ofList]
  decide
theorem B_drop_key : B "drop_key" = [100, 114, 111, 112, 95, 107, 101, 121] := by
  show bytesOf "drop_key" = _
  rw [show "drop_key" = String.ofList ['d','r','o','p','_','k','e','y'] from rfl, bytesOf_ofList]
  decide
theorem B_rename : B "rename" = [114, 101, 110, 97, 109, 101] := by
  show bytesOf "rename" = _
  rw [show "rename" = String.ofList ['r','e','n','a','m','e'] from rfl, bytesOf_ofList]
  decide
theorem B_set_measurement : B "set_measurement" = [115, 101, 116, 95, 109, 101, 97, 115, 117, 114, 101, 109, 101, 110, 116] := by
  show bytesOf "set_measurement" = _
  rw [show "set_measurement" = String.ofList ['s','e','t','_','m','e','a','s','u','r','e','m','e','n','t'] from rfl, bytesOf_ofList]
  decide
theorem B_len : B "len" = [108, 101, 110] := by
  show bytesOf "len" = _
  rw [show "len" = String.ofList ['l','e','n'] from rfl, bytesOf_ofList]
  decide
theorem B_use : B "use" = [117, 115, 101] := by
  show bytesOf "use" = _
  rw [show "use" = String.ofList ['u','s','e'] from rfl, bytesOf_ofList]
  decide
theorem B_cast : B "cast" = [99, 97, 115, 116] := by
  show bytesOf "cast" = _
  rw [show "cast" = String.ofList ['c','a','s','t'] from rfl, bytesOf_ofList]
  decide
theorem B_trim : B "trim" = [116, 114, 105, 109] := by
  show bytesOf "trim" = _
  rw [show "trim" = String.ofList ['t','r','i','m'] from rfl, bytesOf_ofList]
  decide
theorem B_uppercase : B "uppercase" = [117, 112, 112, 101, 114, 99, 97, 115, 101] := by
  show bytesOf "uppercase" = _
  rw [show "uppercase" = String.ofList ['u','p','p','e','r','c','a','s','e'] from rfl, bytesOf_ofList]
  decide
theorem B_url_decode : B "url_decode" = [117, 114, 108, 95, 100, 101, 99, 111, 100, 101] := by
  show bytesOf "url_decode" = _
  rw [show "url_decode" = String.ofList ['u','r','l','_','d','e','c','o','d','e'] from rfl, bytesOf_ofList]
  decide
theorem B_replace : B "replace" = [114, 101, 112, 108, 97, 99, 101] := by
  show bytesOf "replace" = _
  rw [show "replace" = String.ofList ['r','e','p','l','a','c','e'] from rfl, bytesOf_ofList]
  decide
theorem B_load_json : B "load_json" = [108, 111, 97, 100, 95, 106, 115, 111, 110] := by
  show bytesOf "load_json" = _
  rw [show "load_json" = String.ofList ['l','o','a','d','_','j','s','o','n'] from rfl, bytesOf_ofList]
  decide
theorem B_strfmt : B "strfmt" = [115, 116, 114, 102, 109, 116] := by
  show bytesOf "strfmt" = _
  rw [show "strfmt" = String.ofList ['s','t','r','f','m','t'] from rfl, bytesOf_ofList]
  decide
theorem B_printf : B "printf" = [112, 114, 105, 110, 116, 102] := by
  show bytesOf "printf" = _
  rw [show "printf" = String.ofList ['p','r','i','n','t','f'] from rfl, bytesOf_ofList]
  decide
theorem B_p : B "p" = [112] := by
  show bytesOf "p" = _
  rw [show "p" = String.ofList ['p'] from rfl, bytesOf_ofList]
  decide
theorem B_pr : B "pr" = [112, 114] := by
  show bytesOf "pr" = _
  rw [show "pr" = String.ofList ['p','r'] from rfl, bytesOf_ofList]
  decide
theorem B_void : B "void" = [118, 111, 105, 100] := by
  show bytesOf "void" = _
  rw [show "void" = String.ofList ['v','o','i','d'] from rfl, bytesOf_ofList]
  decide
theorem B_grok : B "grok" = [103, 114, 111, 107] := by
  show bytesOf "grok" = _
  rw [show "grok" = String.ofList ['g','r','o','k'] from rfl, bytesOf_ofList]
  decide
theorem B_add_pattern : B "add_pattern" = [97, 100, 100, 95, 112, 97, 116, 116, 101, 114, 110] := by
  show bytesOf "add_pattern" = _
  rw [show "add_pattern" = String.ofList ['a','d','d','_','p','a','t','t','e','r','n'] from rfl, bytesOf_ofList]
  decide
theorem B_datetime : B "datetime" = [100, 97, 116, 101, 116, 105, 109, 101] := by
  show bytesOf "datetime" = _
  rw [show "datetime" = String.ofList ['d','a','t','e','t','i','m','e'] from rfl, bytesOf_ofList]
  decide
theorem B_default_time : B "default_time" = [100, 101, 102, 97, 117, 108, 116, 95, 116, 105, 109, 101] := by
  show bytesOf "default_time" = _
  rw [show "default_time" = String.ofList ['d','e','f','a','u','l','t','_','t','i','m','e'] from rfl, bytesOf_ofList]
  decide
theorem B_xml : B "xml" = [120, 109, 108] := by
  show bytesOf "xml" = _
  rw [show "xml" = String.ofList ['x','m','l'] from rfl, bytesOf_ofList]
  decide
theorem B_sql_cover : B "sql_cover" = [115, 113, 108, 95, 99, 111, 118, 101, 114] := by
  show bytesOf "sql_cover" = _
  rw [show "sql_cover" = String.ofList ['s','q','l','_','c','o','v','e','r'] from rfl, bytesOf_ofList]
  decide

/-- `Fn.ofName` with the names as explicit byte lists (computes by `decide` on a concrete name) -/
def ofNameB (name : Bytes) : Option Fn :=
  if name = [101, 120, 105, 116] then some .exit else
  if name = [97, 100, 100, 95, 107, 101, 121] then some .addKey else
  if name = [103, 101, 116, 95, 107, 101, 121] then some .getKey else
  if name = [115, 101, 116, 95, 116, 97, 103] then some .setTag else
  if name = [100, 114, 111, 112, 95, 107, 101, 121] then some .dropKey else
  if name = [114, 101, 110, 97, 109, 101] then some .rename else
  if name = [115, 101, 116, 95, 109, 101, 97, 115, 117, 114, 101, 109, 101, 110, 116] then some .setMeasurement else
  if name = [108, 101, 110] then some .len else
  if name = [117, 115, 101] then some .use else
  if name = [99, 97, 115, 116] then some .cast else
  if name = [116, 114, 105, 109] then some .trim else
  if name = [117, 112, 112, 101, 114, 99, 97, 115, 101] then some .uppercase else
  if name = [117, 114, 108, 95, 100, 101, 99, 111, 100, 101] then some .urlDecode else
  if name = [114, 101, 112, 108, 97, 99, 101] then some .replace else
  if name = [108, 111, 97, 100, 95, 106, 115, 111, 110] then some .loadJson else
  if name = [115, 116, 114, 102, 109, 116] then some .strfmt else
  if name = [112, 114, 105, 110, 116, 102] then some .printf else
  if name = [112] then some .p else
  if name = [112, 114] then some .pr else
  if name = [118, 111, 105, 100] then some .void else
  if name = [103, 114, 111, 107] then some .grok else
  if name = [97, 100, 100, 95, 112, 97, 116, 116, 101, 114, 110] then some .addPattern else
  if name = [100, 97, 116, 101, 116, 105, 109, 101] then some .datetime else
  if name = [100, 101, 102, 97, 117, 108, 116, 95, 116, 105, 109, 101] then some .defaultTime else
  if name = [120, 109, 108] then some .xml else
  if name = [115, 113, 108, 95, 99, 111, 118, 101, 114] then some .sqlCover else
  none

theorem ofName_eq (name : Bytes) : Fn.ofName name = ofNameB name := by
  unfold Fn.ofName ofNameB
  simp only [B_exit, B_add_key, B_get_key, B_set_tag, B_drop_key, B_rename, B_set_measurement, B_len, B_use, B_cast, B_trim, B_uppercase, B_url_decode, B_replace, B_load_json, B_strfmt, B_printf, B_p, B_pr, B_void, B_grok, B_add_pattern, B_datetime, B_default_time, B_xml, B_sql_cover]

end Platypus.PanicProofs
