import Platypus.Proofs.SignalV2Base
/-!
C14 for the v2 interpreter, part 2: the evaluation of an expression without statement nodes
(`SF2`) does not depend on the signal (only `procExit` reads it, and only the statement functions
call `procExit`), and it never polls.
-/
namespace Platypus.SignalV2
open Platypus Platypus.V2 Platypus.MachineProofs Platypus.SignalProofs

/-- signal-independence of the v2 expression functions at fuel `f`, on statement-free arguments -/
structure Ind2 (env : Env) (sa sb : Bool) (a b : Option Nat) (f : Nat) : Prop where
  expr : ∀ n, SF2 n → runExpr (withSigH env sa a) f n = runExpr (withSigH env sb b) f n
  value : ∀ n, SF2 n → valueOf (withSigH env sa a) f n = valueOf (withSigH env sb b) f n
  values : ∀ l, (∀ x ∈ l, SF2 x) → valuesOf (withSigH env sa a) f l = valuesOf (withSigH env sb b) f l
  mapLit : ∀ kvs acc, (∀ kv ∈ kvs, SF2 kv.1) → (∀ kv ∈ kvs, SF2 kv.2) →
    mapLit (withSigH env sa a) f kvs acc = mapLit (withSigH env sb b) f kvs acc
  search : ∀ cur idx, (∀ x ∈ idx, SF2 x) →
    searchLM2 (withSigH env sa a) f cur idx = searchLM2 (withSigH env sb b) f cur idx
  change : ∀ cur idx val, (∀ x ∈ idx, SF2 x) →
    changeLM2 (withSigH env sa a) f cur idx val = changeLM2 (withSigH env sb b) f cur idx val
  slice : ∀ obj st en sp, SF2 obj → (∀ x, st = some x → SF2 x) → (∀ x, en = some x → SF2 x) →
    (∀ x, sp = some x → SF2 x) →
    slice2 (withSigH env sa a) f obj st en sp = slice2 (withSigH env sb b) f obj st en sp
  rhs : ∀ es first n acc, (∀ x ∈ es, SF2 x) →
    rhsVals (withSigH env sa a) f es first n acc = rhsVals (withSigH env sb b) f es first n acc
  assignTo : ∀ e v, SF2 e → assignTo (withSigH env sa a) f e v = assignTo (withSigH env sb b) f e v
  assignAll : ∀ op es vals p, (∀ x ∈ es, SF2 x) →
    assignAll (withSigH env sa a) f op es vals p = assignAll (withSigH env sb b) f op es vals p
  assign : ∀ op lhs rhs p, (∀ x ∈ lhs, SF2 x) → (∀ x ∈ rhs, SF2 x) →
    assign2 (withSigH env sa a) f op lhs rhs p = assign2 (withSigH env sb b) f op lhs rhs p
  call : ∀ name args np, (∀ x ∈ args, SF2 x) →
    call2 (withSigH env sa a) f name args np = call2 (withSigH env sb b) f name args np

theorem ind2_zero (env : Env) (sa sb : Bool) (a b : Option Nat) : Ind2 env sa sb a b 0 := by
  refine ⟨?_, ?_, ?_, ?_, ?_, ?_, ?_, ?_, ?_, ?_, ?_, ?_⟩ <;> intros
  · simp only [runExpr]
  · simp only [valueOf]
  · simp only [valuesOf]
  · simp only [V2.mapLit]
  · simp only [searchLM2]
  · simp only [changeLM2]
  · simp only [slice2]
  · simp only [rhsVals]
  · simp only [V2.assignTo]
  · simp only [V2.assignAll]
  · simp only [assign2]
  · simp only [call2]

section
variable {env : Env} {sa sb : Bool} {a b : Option Nat} {f : Nat}

theorem runExpr_ind_step (ih : Ind2 env sa sb a b f) (n : Node) (hn : SF2 n) :
    runExpr (withSigH env sa a) (f+1) n = runExpr (withSigH env sb b) (f+1) n := by
  cases hn
  case ident => simp only [runExpr]
  case strLit => simp only [runExpr]
  case intLit => simp only [runExpr]
  case floatLit => simp only [runExpr]
  case boolLit => simp only [runExpr]
  case nilLit => simp only [runExpr]
  case attr => simp only [runExpr]
  case brk => simp only [runExpr]
  case cont => simp only [runExpr]
  case list xs _ _ h => simp only [runExpr, ih.values xs h]
  case map kvs _ _ h1 h2 => simp only [runExpr, ih.mapLit kvs [] h1 h2]
  case paren e _ _ h => simp only [runExpr, ih.expr e h]
  case index obj idx _ _ h => simp only [runExpr, fun cur => ih.search cur idx h]
  case unary op e p h => simp only [runExpr, ih.value e h]
  case arith op l r p h1 h2 => simp only [runExpr, ih.value l h1, ih.value r h2]
  case cond op l r p h1 h2 => simp only [runExpr, ih.value l h1, ih.value r h2]
  case inE l r p h1 h2 => simp only [runExpr, ih.value l h1, ih.expr r h2]
  case assign op lhs rhs p h1 h2 => simp only [runExpr, ih.assign op lhs rhs p h1 h2]
  case call name args np lp rp site h => simp only [runExpr, ih.call name args np h]; rfl
  case slice o sa sb sc c2 lb rb h0 h1 h2 h3 => simp only [runExpr, ih.slice o sa sb sc h0 h1 h2 h3]

theorem slice2_ind_step (ih : Ind2 env sa sb a b f) (obj : Node) (st en sp : Option Node) (h0 : SF2 obj)
    (h1 : ∀ x, st = some x → SF2 x) (h2 : ∀ x, en = some x → SF2 x) (h3 : ∀ x, sp = some x → SF2 x) :
    slice2 (withSigH env sa a) (f+1) obj st en sp = slice2 (withSigH env sb b) (f+1) obj st en sp := by
  cases st with
  | none =>
    cases en with
    | none =>
      cases sp with
      | none => simp only [slice2, ih.value obj h0]
      | some z => simp only [slice2, ih.value obj h0, ih.value z (h3 z rfl)]
    | some y =>
      cases sp with
      | none => simp only [slice2, ih.value obj h0, ih.value y (h2 y rfl)]
      | some z => simp only [slice2, ih.value obj h0, ih.value y (h2 y rfl), ih.value z (h3 z rfl)]
  | some x =>
    cases en with
    | none =>
      cases sp with
      | none => simp only [slice2, ih.value obj h0, ih.value x (h1 x rfl)]
      | some z => simp only [slice2, ih.value obj h0, ih.value x (h1 x rfl), ih.value z (h3 z rfl)]
    | some y =>
      cases sp with
      | none => simp only [slice2, ih.value obj h0, ih.value x (h1 x rfl), ih.value y (h2 y rfl)]
      | some z =>
        simp only [slice2, ih.value obj h0, ih.value x (h1 x rfl), ih.value y (h2 y rfl), ih.value z (h3 z rfl)]

theorem ind2_succ (ih : Ind2 env sa sb a b f) : Ind2 env sa sb a b (f+1) := by
  refine ⟨runExpr_ind_step ih, ?_, ?_, ?_, ?_, ?_, slice2_ind_step ih, ?_, ?_, ?_, ?_, ?_⟩
  · intro n h; simp only [valueOf, ih.expr n h]
  · intro l hl
    cases l with
    | nil => simp only [valuesOf]
    | cons x r => simp only [valuesOf, ih.value x (hl x (by simp)), ih.values r (fun y hy => hl y (by simp [hy]))]
  · intro kvs acc h1 h2
    cases kvs with
    | nil => simp only [V2.mapLit]
    | cons kv r =>
      obtain ⟨k, v⟩ := kv
      simp only [V2.mapLit, ih.value k (h1 (k, v) (by simp)), ih.value v (h2 (k, v) (by simp)),
        fun acc => ih.mapLit r acc (fun y hy => h1 y (by simp [hy])) (fun y hy => h2 y (by simp [hy]))]
  · intro cur idx h
    cases idx with
    | nil => simp only [searchLM2]
    | cons i r =>
      simp only [searchLM2, ih.value i (h i (by simp)), fun cur => ih.search cur r (fun y hy => h y (by simp [hy]))]
  · intro cur idx val h
    cases idx with
    | nil => simp only [changeLM2]
    | cons i r =>
      simp only [changeLM2, ih.value i (h i (by simp)),
        fun cur val => ih.change cur r val (fun y hy => h y (by simp [hy]))]
  · intro es first n acc h
    cases es with
    | nil => simp only [rhsVals]
    | cons e r =>
      simp only [rhsVals, ih.expr e (h e (by simp)),
        fun acc => ih.rhs r first n acc (fun y hy => h y (by simp [hy]))]
  · intro e v h
    cases h <;> simp only [V2.assignTo]
    case index obj idx _ _ hidx => simp only [fun cur val => ih.change cur idx val hidx]
  · intro op es vals p h
    cases es with
    | nil => simp only [V2.assignAll]
    | cons e r =>
      simp only [V2.assignAll, ih.assignTo e _ (h e (by simp)), ih.value e (h e (by simp)),
        fun vals => ih.assignAll op r vals p (fun y hy => h y (by simp [hy]))]
  · intro op lhs rhs p h1 h2
    cases rhs with
    | nil => simp only [assign2]
    | cons first r =>
      simp only [assign2, fun n acc => ih.rhs (first :: r) first n acc h2, fun vals => ih.assignAll op lhs vals p h1]
  · intro name args np h
    simp only [call2, ih.values args h]

end

theorem ind2_all (env : Env) (sa sb : Bool) (a b : Option Nat) : ∀ f, Ind2 env sa sb a b f
  | 0 => ind2_zero env sa sb a b
  | f+1 => ind2_succ (ind2_all env sa sb a b f)

/-- the registers, the variables and the effects of an expression without statement nodes do not
    depend on the signal -/
theorem runExpr_sigFree (env : Env) (a b : Option Nat) (f : Nat) (n : Node) (h : SF2 n) :
    runExpr (withSig env a) f n = runExpr (withSig env b) f n :=
  (ind2_all env true true a b f).expr n h

theorem valueOf_sigFree (env : Env) (a b : Option Nat) (f : Nat) (n : Node) (h : SF2 n) :
    valueOf (withSig env a) f n = valueOf (withSig env b) f n :=
  (ind2_all env true true a b f).value n h

/-! ### without a signal nothing polls -/

theorem KeepM.retSet (vs : List TV) : KeepM (retSet vs) := KeepM.modTask _
theorem KeepM.setVar (k : Bytes) (v : TV) : KeepM (setVar k v) := KeepM.modTask _
theorem KeepM.getRet (p : Pos) : KeepM (V2.getRet p) := by
  intro s; unfold V2.getRet; split <;> exact rfl

set_option hygiene false in
macro "keep2_step" : tactic => `(tactic| first
  | with_reducible exact KeepM.retSet _
  | with_reducible exact KeepM.setVar _ _
  | with_reducible exact KeepM.getRet _
  | keep_step)

macro "keep2" : tactic => `(tactic| repeat' keep2_step)

/-- the v2 functions keep the poll counter, at fuel `f` -/
structure Keep2 (env : Env) (f : Nat) : Prop where
  expr : ∀ n, KeepM (runExpr env f n)
  value : ∀ n, KeepM (valueOf env f n)
  values : ∀ l, KeepM (valuesOf env f l)
  mapLit : ∀ kvs acc, KeepM (mapLit env f kvs acc)
  search : ∀ cur idx, KeepM (searchLM2 env f cur idx)
  change : ∀ cur idx val, KeepM (changeLM2 env f cur idx val)
  slice : ∀ obj st en sp, KeepM (slice2 env f obj st en sp)
  rhs : ∀ es first n acc, KeepM (rhsVals env f es first n acc)
  assignTo : ∀ e v, KeepM (assignTo env f e v)
  assignAll : ∀ op es vals p, KeepM (assignAll env f op es vals p)
  assign : ∀ op lhs rhs p, KeepM (assign2 env f op lhs rhs p)
  call : ∀ name args np, KeepM (call2 env f name args np)
  stmts : ∀ l, KeepM (stmts2 env f l)
  ifs : ∀ ifs els, KeepM (ifs2 env f ifs els)
  loop : ∀ c l body, KeepM (for2 env f c l body)
  forIn : ∀ var it pos body, KeepM (forIn2 env f var it pos body)
  forStr : ∀ var rs body, KeepM (forInStr2 env f var rs body)
  forItems : ∀ var pos items live body, KeepM (forInItems2 env f var pos items live body)

theorem keep2_zero (env : Env) : Keep2 env 0 := by
  refine ⟨?_, ?_, ?_, ?_, ?_, ?_, ?_, ?_, ?_, ?_, ?_, ?_, ?_, ?_, ?_, ?_, ?_, ?_⟩ <;> intros
  · rw [runExpr]; exact KeepM.outOfFuel
  · rw [valueOf]; exact KeepM.outOfFuel
  · rw [valuesOf]; exact KeepM.outOfFuel
  · rw [V2.mapLit]; exact KeepM.outOfFuel
  · rw [searchLM2]; exact KeepM.outOfFuel
  · rw [changeLM2]; exact KeepM.outOfFuel
  · rw [slice2]; exact KeepM.outOfFuel
  · rw [rhsVals]; exact KeepM.outOfFuel
  · rw [V2.assignTo]; exact KeepM.outOfFuel
  · rw [V2.assignAll]; exact KeepM.outOfFuel
  · rw [assign2]; exact KeepM.outOfFuel
  · rw [call2]; exact KeepM.outOfFuel
  · rw [stmts2]; exact KeepM.outOfFuel
  · rw [ifs2]; exact KeepM.outOfFuel
  · rw [for2]; exact KeepM.outOfFuel
  · rw [forIn2]; exact KeepM.outOfFuel
  · rw [forInStr2]; exact KeepM.outOfFuel
  · rw [forInItems2]; exact KeepM.outOfFuel

section
variable {env : Env} {f : Nat} (hsig : env.hasSignal = false)
include hsig

theorem stmts2_keep_step (ih : Keep2 env f) (l : List Node) : KeepM (stmts2 env (f+1) l) := by
  cases l with
  | nil => simp only [stmts2]; exact KeepM.pure _
  | cons n rest =>
    intro s
    simp only [stmts2, stmtReturn_apply, pollSt_noSignal env hsig]
    cases (pollB env s || (s.task.brk || s.task.cont)) with
    | true => exact rfl
    | false =>
      dsimp only
      have h2 := ih.expr n s
      cases hr : runExpr env f n s with
      | ok v s2 =>
        rw [hr] at h2
        exact KeepR.trans h2 (ih.stmts rest s2)
      | err e s2 =>
        rw [hr] at h2
        exact h2
      | panic m => trivial
      | fuel => trivial
      | need q => trivial

omit hsig in
theorem runExpr_keep_step (ih : Keep2 env f) (n : Node) : KeepM (runExpr env (f+1) n) := by
  have ih1 := ih.expr; have ih2 := ih.value; have ih3 := ih.values; have ih4 := ih.mapLit
  have ih5 := ih.search; have ih6 := ih.slice; have ih7 := ih.assign; have ih8 := ih.call
  have ih9 := ih.ifs; have ih10 := ih.loop; have ih11 := ih.forIn
  cases n <;> simp only [runExpr] <;> keep2

theorem keep2_succ (ih : Keep2 env f) : Keep2 env (f+1) := by
  have ih1 := ih.expr; have ih2 := ih.value; have ih3 := ih.values; have ih4 := ih.mapLit
  have ih5 := ih.search; have ih6 := ih.change; have ih7 := ih.rhs; have ih8 := ih.assignTo
  have ih9 := ih.assignAll; have ih10 := ih.stmts; have ih11 := ih.forStr; have ih12 := ih.forItems
  refine ⟨runExpr_keep_step ih, ?_, ?_, ?_, ?_, ?_, ?_, ?_, ?_, ?_, ?_, ?_, stmts2_keep_step hsig ih, ?_, ?_, ?_, ?_, ?_⟩
  · intro n; simp only [valueOf]; keep2
  · intro l; cases l <;> simp only [valuesOf] <;> keep2
  · intro kvs acc
    cases kvs with
    | nil => simp only [V2.mapLit]; keep2
    | cons kv r => obtain ⟨k, v⟩ := kv; simp only [V2.mapLit]; keep2
  · intro cur idx; cases idx <;> simp only [searchLM2] <;> keep2
  · intro cur idx val; cases idx <;> simp only [changeLM2] <;> keep2
  · intro obj st en sp; rw [slice2.eq_def]; simp only []; keep2
  · intro es first n acc; cases es <;> simp only [rhsVals] <;> keep2
  · intro e v; rw [V2.assignTo.eq_def]; simp only []; keep2
  · intro op es vals p; cases es <;> simp only [V2.assignAll] <;> keep2
  · intro op lhs rhs p; rw [assign2.eq_def]; simp only []; keep2
  · intro name args np; rw [call2.eq_def]; simp only []; keep2
  · intro ifs els
    have ih1 := ih.ifs
    cases ifs with
    | nil => rw [ifs2.eq_def]; simp only []; keep2
    | cons x rest => obtain ⟨c, blk, p⟩ := x; rw [ifs2.eq_def]; simp only []; keep2
  · intro c l body
    have ih3 := ih.loop
    rw [for2.eq_def]; simp only []; keep2
  · intro var it pos body
    rw [forIn2.eq_def]; simp only []; keep2
  · intro var rs body
    cases rs with
    | nil => simp only [forInStr2]; keep2
    | cons r rest => rw [forInStr2.eq_def]; simp only []; keep2
  · intro var pos items live body
    rw [forInItems2.eq_def]; simp only []; keep2

theorem keep2_all : ∀ f, Keep2 env f
  | 0 => keep2_zero env
  | f+1 => keep2_succ hsig (keep2_all f)

end

/-- an expression without statement nodes never polls, whatever the signal -/
theorem runExpr_sf_keep (env : Env) (a : Option Nat) (f : Nat) (n : Node) (h : SF2 n) :
    KeepM (runExpr (withSig env a) f n) := by
  rw [withSig_eq, (ind2_all env true false a none f).expr n h]
  exact (keep2_all (env := withSigH env false none) rfl f).expr n

theorem valueOf_sf_keep (env : Env) (a : Option Nat) (f : Nat) (n : Node) (h : SF2 n) :
    KeepM (valueOf (withSig env a) f n) := by
  rw [withSig_eq, (ind2_all env true false a none f).value n h]
  exact (keep2_all (env := withSigH env false none) rfl f).value n

end Platypus.SignalV2
