import Platypus.Proofs.PanicOps
import Platypus.Proofs.PanicSyntax
/-!
C01 proof, part 5: the statement machine, for any expression evaluator that is safe.
-/
namespace Platypus.PanicProofs
open Platypus Platypus.MachineProofs Platypus.C01

/-- the value is good in the heap of the end state -/
def QV : TV → St → Prop := fun v s' => GV s'.world.heap v
def QT {α} : α → St → Prop := fun _ _ => True

/-- contract of an expression evaluator -/
def EvOK (ev : Node → EM TV) : Prop := ∀ n s, CkN n → GS s → Tr s (ev n) QV

/-- the contracts of the machine functions at fuel `g` -/
structure MIH (env : Env) (ev : Node → EM TV) (g : Nat) : Prop where
  stmt : ∀ n s, CkN n → GS s → Tr s (runStmt env ev g n) QV
  stmts : ∀ l s, CkL l → GS s → Tr s (runStmts env ev g l) QT
  ifs : ∀ ifs els s, CkIfs ifs → CkOB els → GS s → Tr s (runIfs env ev g ifs els) QV
  loop : ∀ c l body s, CkO c → CkO l → CkOB body → GS s → Tr s (forLoop env ev g c l body) QV
  forIn : ∀ nm pp it pos body s, CkOB body → GS s → Tr s (forIn env ev g (.ident nm pp) it pos body) QV
  forStr : ∀ var rs body s, CkOB body → GS s → Tr s (forInStr env ev g var rs body) QV
  forItems : ∀ nm pp pos items live body s, CkOB body → GS s → (∀ x ∈ items, GV s.world.heap x) →
    Tr s (forInItems env ev g (.ident nm pp) pos items live body) QV

theorem mih_zero (env : Env) (ev : Node → EM TV) : MIH env ev 0 := by
  refine ⟨?_, ?_, ?_, ?_, ?_, ?_, ?_⟩ <;> intros
  · rw [runStmt]; exact Tr.fuel
  · rw [runStmts]; exact Tr.fuel
  · rw [runIfs]; exact Tr.fuel
  · rw [forLoop]; exact Tr.fuel
  · rw [Platypus.forIn]; exact Tr.fuel
  · rw [forInStr]; exact Tr.fuel
  · rw [forInItems]; exact Tr.fuel

/-- the end of every loop iteration -/
def tailM (env : Env) (K : EM TV) : EM TV := do
  let s ← getS
  if s.task.brk = true then do
    modTask fun t => { t with brk := false }
    pure voidTV
  else if s.task.cont = true then do
    modTask fun t => { t with cont := false }
    let r ← stmtReturn env
    if r = true then pure voidTV else K
  else do
    let r ← stmtReturn env
    if r = true then pure voidTV else K

theorem tr_tail (env : Env) {s : St} (hs : GS s) {K : EM TV}
    (hK : ∀ s', GS s' → HeapLe s.world.heap s'.world.heap → Tr s' K QV) : Tr s (tailM env K) QV := by
  unfold tailM
  refine Tr.getS ?_
  split
  · refine Tr.modTask_bind ?_
    exact Tr.pure (hs.of_eq rfl rfl rfl rfl) (gv_void _)
  · split
    · refine Tr.modTask_bind ?_
      have hs1 : GS { s with task := { s.task with cont := false } } := hs.of_eq rfl rfl rfl rfl
      refine Tr.bind (tr_stmtReturn env hs1) fun r s2 hs2 hle _ => ?_
      split
      · exact Tr.pure hs2 (gv_void _)
      · exact hK s2 hs2 hle
    · refine Tr.bind (tr_stmtReturn env hs) fun r s2 hs2 hle _ => ?_
      split
      · exact Tr.pure hs2 (gv_void _)
      · exact hK s2 hs2 hle

section
variable {env : Env} {ev : Node → EM TV} {g : Nat}

/-- `{ … }`: push, statements, pop -/
theorem tr_block (ih : MIH env ev g) {b : List Node} {s : St} (hb : CkL b) (hs : GS s)
    {K : EM TV} (hK : ∀ s', GS s' → HeapLe s.world.heap s'.world.heap → Tr s' K QV) :
    Tr s (do pushScope; runStmts env ev g b; popScope; K) QV := by
  refine Tr.bind (tr_pushScope hs) fun _ s1 hs1 h1 _ => ?_
  refine Tr.bind (ih.stmts b s1 hb hs1) fun _ s2 hs2 h2 _ => ?_
  refine Tr.bind (tr_popScope hs2) fun _ s3 hs3 h3 _ => ?_
  exact hK s3 hs3 (h1.trans (h2.trans h3))

theorem runStmts_step (ih : MIH env ev g) (l : List Node) (s : St) (hl : CkL l) (hs : GS s) :
    Tr s (runStmts env ev (g+1) l) QT := by
  cases l with
  | nil => simp only [runStmts]; exact Tr.pure hs trivial
  | cons n rest =>
    simp only [runStmts]
    unfold Tr
    dsimp only
    rw [stmtReturn_apply]
    have hs1 := hs.pollSt env
    have hle1 : HeapLe s.world.heap (pollSt env s).world.heap := by rw [pollSt_heap]; exact HeapLe.refl _
    cases (pollB env s || (s.task.brk || s.task.cont)) with
    | true => exact ⟨hs1, hle1, trivial⟩
    | false =>
      dsimp only
      have h2 := ih.stmt n _ hl.cons.1 hs1
      unfold Tr at h2
      cases hr2 : runStmt env ev g n (pollSt env s) with
      | ok v s2 =>
        rw [hr2] at h2
        exact ((ih.stmts rest s2 hl.cons.2 h2.1).from h2.2.1).from hle1
      | err e s2 =>
        rw [hr2] at h2
        exact ⟨h2.1.of_eq rfl rfl rfl rfl, hle1.trans h2.2⟩
      | panic m => rw [hr2] at h2; exact h2
      | fuel => trivial
      | need q => trivial

theorem runIfs_step (ih : MIH env ev g) (ifs : List (Node × Option (List Node) × Pos))
    (els : Option (List Node)) (s : St) (hi : CkIfs ifs) (he : CkOB els) (hs : GS s) :
    Tr s (runIfs env ev (g+1) ifs els) QV := by
  cases ifs with
  | nil =>
    rw [runIfs.eq_def]
    dsimp only
    split
    · rename_i b
      exact tr_block ih he.some hs fun s' hs' _ => Tr.pure hs' (gv_void _)
    · exact Tr.pure hs (gv_void _)
  | cons x rest =>
    obtain ⟨c, blk, p⟩ := x
    rw [runIfs.eq_def]
    dsimp only
    refine Tr.bind (ih.stmt c s hi.cons.1 hs) fun v s1 hs1 h1 _ => ?_
    refine Tr.getS ?_
    split
    · split
      · exact tr_block ih hi.cons.2.1.some hs1 fun s' hs' _ => Tr.pure hs' (gv_void _)
      · exact Tr.pure hs1 (gv_void _)
    · exact ih.ifs rest els s1 hi.cons.2.2 he hs1

theorem forLoop_step (ih : MIH env ev g) (c l : Option Node) (body : Option (List Node)) (s : St)
    (hc : CkO c) (hl : CkO l) (hb : CkOB body) (hs : GS s) :
    Tr s (forLoop env ev (g+1) c l body) QV := by
  rw [forLoop.eq_def]
  simp only []
  refine Tr.bind (tr_procExit env hs) fun r s1 hs1 _ _ => ?_
  split
  · exact Tr.pure hs1 (gv_void _)
  refine Tr.bind (Q := QT) ?_ fun go s2 hs2 _ _ => ?_
  · split
    · refine Tr.bind (ih.stmt _ s1 hc.some hs1) fun v s2 hs2 _ _ => ?_
      exact Tr.getS (Tr.pure hs2 trivial)
    · exact Tr.pure hs1 trivial
  split
  · exact Tr.pure hs2 (gv_void _)
  have hK : ∀ s', GS s' → Tr s' (match l with
      | some ln => do let _ ← runStmt env ev g ln; forLoop env ev g c l body
      | none => forLoop env ev g c l body) QV := by
    intro s' hs'
    split
    · refine Tr.bind (ih.stmt _ s' hl.some hs') fun v s2 hs2 _ _ => ?_
      exact ih.loop c _ body s2 hc hl hb hs2
    · exact ih.loop c _ body s' hc hl hb hs'
  split
  · exact tr_block ih hb.some hs2 fun s' hs' _ => tr_tail env hs' fun s'' hs'' _ => hK s'' hs''
  · exact tr_tail env hs2 fun s'' hs'' _ => hK s'' hs''

theorem forInItems_step (ih : MIH env ev g) (nm : Bytes) (pp pos : Pos) (items : List TV)
    (live : Option (Nat × Nat × Nat)) (body : Option (List Node)) (s : St)
    (hb : CkOB body) (hs : GS s) (hitems : ∀ x ∈ items, GV s.world.heap x) :
    Tr s (forInItems env ev (g+1) (.ident nm pp) pos items live body) QV := by
  rw [forInItems.eq_def]
  simp only []
  refine Tr.bind (Q := fun nx s' => ∀ x it lv, nx = some (x, it, lv) →
      GV s'.world.heap x ∧ ∀ y ∈ it, GV s'.world.heap y) ?_ fun nx s1 hs1 h1 hq => ?_
  · split
    · split
      · refine Tr.getS (Tr.pure hs ?_)
        intro x it lv h
        cases h
        refine ⟨gv_detect _ _ ?_, by simp⟩
        split
        · rename_i xs hg
          exact valLo_getD (heapLo_get hs.heap hg) _
        · trivial
      · exact Tr.pure hs (by intro _ _ _ h; cases h)
    · split
      · exact Tr.pure hs (by intro _ _ _ h; cases h)
      · rename_i x r
        refine Tr.pure hs ?_
        intro x' it lv h
        cases h
        exact ⟨hitems _ List.mem_cons_self, fun y hy => hitems y (List.mem_cons_of_mem _ hy)⟩
  split
  · exact Tr.pure hs1 (gv_void _)
  · rename_i x items' live'
    obtain ⟨hx, hit⟩ := hq _ _ _ rfl
    refine Tr.bind (tr_clearScope hs1) fun _ s2 hs2 h2 _ => ?_
    split
    · exact Tr.runErr hs2 _ _
    · refine Tr.bind (tr_setVarb hs2 nm (hx.mono h2)) fun _ s3 hs3 h3 _ => ?_
      have hK : ∀ s', GS s' → HeapLe s3.world.heap s'.world.heap →
          Tr s' (forInItems env ev g (.ident nm pp) pos items' live' body) QV :=
        fun s' hs' hle => ih.forItems nm pp pos items' live' body s' hb hs'
          (fun y hy => (hit y hy).mono (h2.trans (h3.trans hle)))
      split
      · refine Tr.bind (ih.stmts _ s3 hb.some hs3) fun _ s4 hs4 h4 _ => ?_
        exact tr_tail env hs4 fun s' hs' hle => hK s' hs' (h4.trans hle)
      · exact tr_tail env hs3 fun s' hs' hle => hK s' hs' hle

theorem forInStr_step (ih : MIH env ev g) (var : Node) (rs : List Bytes) (body : Option (List Node)) (s : St)
    (hb : CkOB body) (hs : GS s) : Tr s (forInStr env ev (g+1) var rs body) QV := by
  cases rs with
  | nil => simp only [forInStr]; exact Tr.pure hs (gv_void _)
  | cons r rest =>
    rw [forInStr.eq_def]
    simp only []
    have hK : ∀ s', GS s' → Tr s' (forInStr env ev g var rest body) QV :=
      fun s' hs' => ih.forStr var rest body s' hb hs'
    split
    · refine Tr.bind (tr_setVarb hs _ (gv_str _ r)) fun _ s1 hs1 _ _ => ?_
      split
      · refine Tr.bind (ih.stmts _ s1 hb.some hs1) fun _ s2 hs2 _ _ => ?_
        refine Tr.bind (tr_clearScope hs2) fun _ s3 hs3 _ _ => ?_
        exact tr_tail env hs3 fun s' hs' _ => hK s' hs'
      · refine Tr.bind (tr_clearScope hs1) fun _ s3 hs3 _ _ => ?_
        exact tr_tail env hs3 fun s' hs' _ => hK s' hs'
    · exact Tr.pure hs (gv_inv _)

theorem forIn_step (ih : MIH env ev g) (nm : Bytes) (pp : Pos) (it : TV) (pos : Pos)
    (body : Option (List Node)) (s : St) (hb : CkOB body) (hs : GS s) :
    Tr s (Platypus.forIn env ev (g+1) (.ident nm pp) it pos body) QV := by
  rw [Platypus.forIn.eq_def]
  simp only []
  split
  · split
    · exact ih.forStr _ _ _ s hb hs
    · exact Tr.runErr hs _ _
  · refine Tr.getS ?_
    split
    · split
      · refine Tr.modWorld_bind (HeapLe.refl _) ?_
        refine ih.forItems nm pp pos _ none body _ hb (hs.of_eq rfl rfl rfl rfl) ?_
        intro x hx
        obtain ⟨k, _, rfl⟩ := List.mem_map.1 hx
        exact gv_str _ k
      · exact Tr.runErr hs _ _
    · exact Tr.runErr hs _ _
  · refine Tr.getS ?_
    split
    · split
      · exact ih.forItems nm pp pos [] _ body s hb hs (by simp)
      · exact Tr.runErr hs _ _
    · exact Tr.runErr hs _ _
  · exact Tr.runErr hs _ _

theorem qv_popSt (a : TV) (s' : St) (h : QV a s') : QV a (popSt s') := h

theorem runStmt_step (hev : EvOK ev) (ih : MIH env ev g) (n : Node) (s : St) (hn : CkN n) (hs : GS s) :
    Tr s (runStmt env ev (g+1) n) QV := by
  cases n
  case ifelse ifs els p =>
    simp only [runStmt]
    refine Tr.finally ?_ qv_popSt
    refine Tr.bind (tr_pushScope hs) fun _ s1 hs1 _ _ => ?_
    exact ih.ifs ifs els s1 hn.ifelse.1 hn.ifelse.2 hs1
  case forS ini c l body p =>
    simp only [runStmt]
    obtain ⟨h1, h2, h3, h4⟩ := hn.forS
    refine Tr.finally ?_ qv_popSt
    refine Tr.bind (tr_pushScope hs) fun _ s1 hs1 _ _ => ?_
    split
    · refine Tr.bind (ih.stmt _ s1 h1.some hs1) fun _ s2 hs2 _ _ => ?_
      exact ih.loop c l body s2 h2 h3 h4 hs2
    · exact ih.loop c l body s1 h2 h3 h4 hs1
  case forIn var iter body fp ip =>
    simp only [runStmt]
    obtain ⟨⟨nm, pp, rfl⟩, h2, h3⟩ := hn.forIn
    refine Tr.finally ?_ qv_popSt
    refine Tr.bind (tr_pushScope hs) fun _ s1 hs1 _ _ => ?_
    refine Tr.bind (ih.stmt _ s1 h2 hs1) fun it s2 hs2 _ _ => ?_
    refine Tr.finally ?_ qv_popSt
    refine Tr.bind (tr_pushScope hs2) fun _ s3 hs3 _ _ => ?_
    exact ih.forIn nm pp it _ body s3 h3 hs3
  case brk p =>
    simp only [runStmt]
    refine Tr.modTask_bind ?_
    exact Tr.pure (hs.of_eq rfl rfl rfl rfl) (gv_void _)
  case cont p =>
    simp only [runStmt]
    refine Tr.modTask_bind ?_
    exact Tr.pure (hs.of_eq rfl rfl rfl rfl) (gv_void _)
  all_goals
    simp only [runStmt]
    exact hev _ s hn hs

theorem mih_succ (hev : EvOK ev) (ih : MIH env ev g) : MIH env ev (g+1) :=
  ⟨runStmt_step hev ih, runStmts_step ih, runIfs_step ih, forLoop_step ih, forIn_step ih,
    forInStr_step ih, forInItems_step ih⟩

theorem mih_all (hev : EvOK ev) : ∀ g, MIH env ev g
  | 0 => mih_zero env ev
  | g+1 => mih_succ hev (mih_all hev g)

end
end Platypus.PanicProofs
