import Platypus.Properties.C04Slice
/-!
Slice bounds that are only bounded below: values above the int64 range behave like `maxI64`
in `Slice.sliceBounds`, so the in-range theorem of C04 extends to them.
-/
namespace Platypus.PanicProofs
open Platypus

/-- values above the int64 range behave like maxI64 -/
def clampHi (v : Int) : Int := if v > maxI64 then maxI64 else v

/-- every `wrap64` result lies in the int64 range -/
theorem wrap64_range (x : Int) : minI64 ≤ wrap64 x ∧ wrap64 x ≤ maxI64 := by
  unfold wrap64 minI64 maxI64
  have h1 := BitVec.le_toInt (BitVec.ofInt 64 x)
  have h2 := BitVec.toInt_lt (x := BitVec.ofInt 64 x)
  have e : (2 : Int) ^ (64 - 1) = 9223372036854775808 := by decide
  rw [e] at h1 h2
  omega

theorem clampHi_zero : clampHi 0 = 0 := by unfold clampHi maxI64; simp
theorem clampHi_one : clampHi 1 = 1 := by unfold clampHi maxI64; simp

theorem clampHi_of_le {v : Int} (h : v ≤ maxI64) : clampHi v = v := by
  unfold clampHi; rw [if_neg (by omega)]

theorem clampHi_of_gt {v : Int} (h : v > maxI64) : clampHi v = maxI64 := by
  unfold clampHi; rw [if_pos h]

theorem clampHi_inI64 {v : Int} (h : minI64 ≤ v) : inI64 (clampHi v) := by
  unfold inI64 clampHi
  unfold minI64 maxI64 at *
  split <;> omega

theorem clampHi_ne_zero {v : Int} (h : v ≠ 0) : clampHi v ≠ 0 := by
  unfold clampHi maxI64
  split <;> omega

/-- `norm` only compares a non-negative value against `hi ≤ maxI64` -/
theorem norm_clamp (length lo hi v : Int) (hhi : hi ≤ maxI64) :
    Slice.norm length lo hi (clampHi v) = Slice.norm length lo hi v := by
  by_cases h : v ≤ maxI64
  · rw [clampHi_of_le h]
  · have hv : v > maxI64 := by omega
    rw [clampHi_of_gt hv]
    unfold Slice.norm
    unfold maxI64 at *
    have a1 : ¬ ((9223372036854775807 : Int) < 0) := by omega
    have a2 : ¬ (v < 0) := by omega
    rw [if_neg a1, if_neg a2]
    split <;> split <;> omega

/-- clamping the step -/
theorem sliceBounds_clamp_step (length a b c : Int) (hs he : Bool) :
    Slice.sliceBounds length a b (clampHi c) hs he = Slice.sliceBounds length a b c hs he := by
  by_cases h : c ≤ maxI64
  · rw [clampHi_of_le h]
  · have hv : c > maxI64 := by omega
    rw [clampHi_of_gt hv]
    unfold Slice.sliceBounds
    have ⟨x1, x2⟩ := wrap64_range (length + 1)
    have ⟨y1, y2⟩ := wrap64_range (wrap64 (-length) - 1)
    generalize wrap64 (length + 1) = X at *
    generalize wrap64 (wrap64 (-length) - 1) = Y at *
    generalize wrap64 (length - 1) = W at *
    unfold minI64 at *
    unfold maxI64 at *
    have a1 : ¬ ((9223372036854775807 : Int) < 0) := by omega
    have a2 : ¬ (c < 0) := by omega
    have a3 : c > X := by omega
    have a4 : ¬ ((9223372036854775807 : Int) < Y) := by omega
    have e : (if (9223372036854775807 : Int) > X then X
        else if (9223372036854775807 : Int) < Y then Y else 9223372036854775807) = X := by
      split
      · rfl
      · omega
    simp only [a1, a2, a3, e, if_true, if_false]

theorem sliceBounds_clamp (length a b c : Int) (hs he : Bool) (hlen : length ≤ maxI64) :
    Slice.sliceBounds length (clampHi a) (clampHi b) (clampHi c) hs he
      = Slice.sliceBounds length a b c hs he := by
  rw [sliceBounds_clamp_step]
  unfold Slice.sliceBounds
  have hhi : (if c < 0 then wrap64 (length - 1) else length) ≤ maxI64 := by
    split
    · exact (wrap64_range _).2
    · exact hlen
  simp only [norm_clamp _ _ _ _ hhi]

theorem getD_map_zero (s : Option Int) : (s.map clampHi).getD 0 = clampHi (s.getD 0) := by
  cases s with
  | none => simp [clampHi_zero]
  | some v => rfl

theorem getD_map_one (s : Option Int) : (s.map clampHi).getD 1 = clampHi (s.getD 1) := by
  cases s with
  | none => simp [clampHi_one]
  | some v => rfl

theorem indices_clamp (n : Nat) (hn : (n : Int) < 2^62) (s e st : Option Int) :
    Slice.indices n s e st
      = Slice.indices n (s.map clampHi) (e.map clampHi) (st.map clampHi) := by
  have hlen : (n : Int) ≤ maxI64 := by
    rw [SliceProofs.two_pow_62] at hn
    unfold maxI64; omega
  unfold Slice.indices
  simp only [getD_map_zero, getD_map_one, Option.isSome_map, sliceBounds_clamp _ _ _ _ _ _ hlen]

theorem slice_indices_in_range_lo (n : Nat) (hn : (n : Int) < 2^62) (s e st : Option Int)
    (hs : ∀ v, s = some v → minI64 ≤ v) (he : ∀ v, e = some v → minI64 ≤ v)
    (hst : ∀ v, st = some v → minI64 ≤ v ∧ v ≠ 0) :
    ∀ i ∈ Slice.indices n s e st, 0 ≤ i ∧ i < n := by
  rw [indices_clamp n hn s e st]
  apply C04.slice_indices_in_range n hn
  · intro v hv
    cases s with
    | none => simp at hv
    | some w =>
      simp at hv; subst hv
      exact clampHi_inI64 (hs w rfl)
  · intro v hv
    cases e with
    | none => simp at hv
    | some w =>
      simp at hv; subst hv
      exact clampHi_inI64 (he w rfl)
  · intro v hv
    cases st with
    | none => simp at hv
    | some w =>
      simp at hv; subst hv
      exact ⟨clampHi_inI64 (hst w rfl).1, clampHi_ne_zero (hst w rfl).2⟩

end Platypus.PanicProofs

#print axioms Platypus.PanicProofs.indices_clamp
#print axioms Platypus.PanicProofs.slice_indices_in_range_lo
