import Platypus.Proofs.LiteralLex
import Platypus.Spec.Denote
/-!
The unquoters against the declarative denotation (C07), as pure functions: what the lexer accepts
(`firstTok`, `findB`, `closeIdx`, `lexStr`) and `Unquote`/`UnquoteMultiline` on the accepted token,
compared with `Denote.denote`.
-/
namespace Platypus.Lit
open Platypus Platypus.Lex Platypus.Utf8 Platypus.Unq

/-- the implementation's value of a spelling, from the first token the lexer scans -/
def implOf (s : Bytes) : Option Bytes :=
  match firstTok s with
  | some (t, p) =>
    if p = s.length then
      match t with
      | .STRING => if s.headD 0 != 96 then unquote s else none
      | .MULTILINE_STRING => unquoteMultiline s
      | .QUOTED_STRING => if s.headD 0 == 96 then unquote s else none
      | _ => none
    else none
  | none => none


theorem eq_nil_or_snoc (l : Bytes) : l = [] ∨ ∃ b x, l = b ++ [x] := by
  rcases List.eq_nil_or_concat l with h | ⟨b, x, h⟩
  · exact Or.inl h
  · exact Or.inr ⟨b, x, by simpa using h⟩

/-! ### back-quoted identifiers -/

theorem findB_lt (c : UInt8) : ∀ (b : Bytes) (i : Nat), findB c b = some i → i < b.length
  | [], _, h => by simp [findB] at h
  | x :: r, i, h => by
    simp only [findB] at h
    split at h
    · injection h with h; subst h; simp
    · simp only [Option.map_eq_some_iff] at h
      obtain ⟨j, hj, rfl⟩ := h
      have := findB_lt c r j hj
      simp; omega

theorem findB_none (c : UInt8) : ∀ (b : Bytes), findB c b = none ↔ b.contains c = false
  | [] => by simp [findB]
  | x :: r => by
    have ih := findB_none c r
    simp only [findB, List.contains_cons]
    by_cases hx : x = c
    · subst hx; simp
    · have h1 : (x == c) = false := by simpa using hx
      have h2 : (c == x) = false := by simpa using (Ne.symm hx)
      simp [h1, h2, ih]

theorem findB_append (c : UInt8) : ∀ (b r : Bytes), findB c (b ++ r) =
    match findB c b with
    | some i => some i
    | none => (findB c r).map (· + b.length)
  | [], r => by simp [findB]
  | x :: b, r => by
    have ih := findB_append c b r
    simp only [List.cons_append, findB]
    split
    · rfl
    · rw [ih]
      cases findB c b with
      | some i => rfl
      | none => simp only [Option.map_none, Option.map_map, List.length_cons]; congr 1

theorem denote_bq_nil : Denote.denote [96] = none := by decide

theorem denote_bq_snoc (b : Bytes) (x : UInt8) : Denote.denote (96 :: (b ++ [x])) =
    if x == 96 then (if b.contains 96 then none else some b) else none := by
  have hl : (96 :: (b ++ [x])).getLastD 0 = x := by
    rw [List.getLastD_cons, List.getLastD_concat]
  simp only [Denote.denote, hl]
  have : (List.drop 1 (96 :: (b ++ [x]))).take ((96 :: (b ++ [x])).length - 2) = b := by simp
  rw [this]
  simp

theorem unquote_bq_snoc (b : Bytes) : unquote (96 :: (b ++ [96])) =
    if b.contains 96 then none else some b := by
  have hl : (96 :: (b ++ [96])).getLastD 0 = 96 := by
    rw [List.getLastD_cons, List.getLastD_concat]
  have : (List.drop 1 (96 :: (b ++ [96]))).take ((96 :: (b ++ [96])).length - 2) = b := by simp
  simp only [unquote, hl, this]
  simp
  intro h; omega

theorem implOf_bq (r0 : Bytes) : implOf (96 :: r0) = Denote.denote (96 :: r0) := by
  have hft : firstTok (96 :: r0) = (findB 96 r0).map fun i => (Tok.QUOTED_STRING, i + 2) := by
    simp [firstTok]
  unfold implOf
  rw [hft]
  rcases eq_nil_or_snoc r0 with rfl | ⟨b, x, rfl⟩
  · simp [findB, denote_bq_nil]
  · rw [denote_bq_snoc, findB_append]
    cases hb : findB 96 b with
    | some i =>
      have hlt := findB_lt 96 b i hb
      have hc : b.contains 96 = true := by
        cases h : b.contains 96 with
        | true => rfl
        | false => rw [(findB_none 96 b).2 h] at hb; cases hb
      simp only [Option.map_some]
      rw [if_neg (by simp; omega)]
      have hc' : 96 ∈ b := by simpa using hc
      simp [hc']
    | none =>
      have hc := (findB_none 96 b).1 hb
      simp only [findB]
      by_cases hx : x = 96
      · subst hx
        simp [unquote_bq_snoc]
      · have : (x == 96) = false := by simpa using hx
        simp [this]


/-! ### triple-quoted strings -/

theorem multilineLoop_valid : ∀ (n : Nat) (b : Bytes), b.length = n → Valid b → ∀ (f : Nat) (acc : Bytes), n < f →
    multilineLoop f b acc = acc ++ b := by
  intro n
  induction n using Nat.strongRecOn with
  | _ n ih =>
    intro b hn hv f acc hf
    obtain ⟨f, rfl⟩ : ∃ f', f = f' + 1 := ⟨f - 1, by omega⟩
    rcases rune_cases b hv with rfl | ⟨c, r, rfl, hc, hd, hr⟩ | ⟨w, h1, h2, h3, h4, h5, h6, h7, h8, h9, h10⟩
    · simp [multilineLoop]
    · simp only [multilineLoop]
      rw [if_neg (by simp [UInt8.le_iff_toNat_le]; omega)]
      rw [ih r.length (by simp at hn; omega) r rfl hr f _ (by simp at hn; omega)]
      simp
    · have hne : b ≠ [] := by intro h; subst h; simp at h3; omega
      obtain ⟨c, r', rfl⟩ := List.exists_cons_of_ne_nil hne
      have hc : 0x80 ≤ c.toNat := h8 c (by
        obtain ⟨w', rfl⟩ := Nat.exists_eq_succ_of_ne_zero (by omega : w ≠ 0)
        simp)
      simp only [multilineLoop]
      rw [if_pos (by simp [UInt8.le_iff_toNat_le]; omega)]
      rw [h4, h9]
      rw [ih ((c :: r').drop w).length (by simp at hn ⊢; omega) _ rfl h10 f _ (by simp at hn ⊢; omega)]
      rw [List.append_assoc, List.take_append_drop]

/-- the body ends in the quote `q` -/
def endsQ (q : UInt8) (b : Bytes) : Bool := b.getLast? == some q

theorem closeIdx_le (q : UInt8) : ∀ (u : Bytes) (i : Nat), closeIdx q u = some i → i + 3 ≤ u.length
  | [], _, h => by simp [closeIdx] at h
  | a :: r, i, h => by
    simp only [closeIdx] at h
    split at h
    · rename_i ht
      injection h with h; subst h
      cases r with
      | nil => simp [tripleHead] at ht
      | cons b r2 =>
        cases r2 with
        | nil => simp [tripleHead, headIs] at ht
        | cons c r3 => simp
    · simp only [Option.map_eq_some_iff] at h
      obtain ⟨j, hj, rfl⟩ := h
      have := closeIdx_le q r j hj
      simp; omega

theorem hasTriple_cons (q a : UInt8) (r : Bytes) :
    Denote.hasTriple q (a :: r) = (tripleHead q (a :: r) || Denote.hasTriple q r) := by
  cases r with
  | nil => simp [Denote.hasTriple, tripleHead]
  | cons b r2 =>
    cases r2 with
    | nil => simp [Denote.hasTriple, tripleHead, headIs]
    | cons c r3 => simp [Denote.hasTriple, tripleHead, headIs]

/-- the first `qqq` of `b ++ [x, y, z]` is at the very end iff `x y z` are `q q q`, `b` contains no
    `qqq` and does not end in `q` -/
theorem closeIdx_snoc3 (q x y z : UInt8) : ∀ (b : Bytes), closeIdx q (b ++ [x, y, z]) = some b.length ↔
    (x = q ∧ y = q ∧ z = q ∧ Denote.hasTriple q b = false ∧ endsQ q b = false)
  | [] => by
    simp [closeIdx, tripleHead, headIs, Denote.hasTriple, endsQ]
  | a :: b => by
    have ih := closeIdx_snoc3 q x y z b
    have h1 : closeIdx q (a :: b ++ [x, y, z]) = some (a :: b).length ↔
        (tripleHead q (a :: (b ++ [x, y, z])) = false ∧ closeIdx q (b ++ [x, y, z]) = some b.length) := by
      simp only [List.cons_append, closeIdx, List.length_cons]
      cases tripleHead q (a :: (b ++ [x, y, z])) with
      | true => simp
      | false => simp
    rw [h1, ih, hasTriple_cons]
    constructor
    · rintro ⟨ht, hx, hy, hz, hb, he⟩
      refine ⟨hx, hy, hz, ?_, ?_⟩
      · rw [hb, Bool.or_false]
        cases b with
        | nil => rfl
        | cons b1 b' =>
          cases b' with
          | nil => simp [tripleHead, headIs]
          | cons b2 b3 => simpa [tripleHead, headIs] using ht
      · cases b with
        | nil => simpa [tripleHead, headIs, endsQ, hx, hy] using ht
        | cons b1 b' => simpa [endsQ] using he
    · rintro ⟨hx, hy, hz, hb, he⟩
      rw [Bool.or_eq_false_iff] at hb
      refine ⟨?_, hx, hy, hz, hb.2, ?_⟩
      · cases b with
        | nil => simpa [tripleHead, headIs, endsQ, hx, hy] using he
        | cons b1 b' =>
          cases b' with
          | nil => simp [endsQ] at he; simp [tripleHead, headIs, hx, he]
          | cons b2 b3 => simpa [tripleHead, headIs] using hb.1
      · cases b with
        | nil => rfl
        | cons b1 b' => simpa [endsQ] using he


theorem denote_triple_short (q : UInt8) (hq : q = 34 ∨ q = 39) (r2 : Bytes) (h : r2.length < 3) :
    Denote.denote (q :: q :: q :: r2) = none := by
  match r2, h with
  | [], _ => rcases hq with rfl | rfl <;> decide
  | [a], _ => rcases hq with rfl | rfl <;> simp [Denote.denote, Denote.body, Denote.isQuote]
  | [a, b], _ => rcases hq with rfl | rfl <;> simp [Denote.denote, Denote.body, Denote.isQuote]

theorem denote_triple (q : UInt8) (hq : q = 34 ∨ q = 39) (b : Bytes) (x y z : UInt8) :
    Denote.denote (q :: q :: q :: (b ++ [x, y, z])) =
      if x = q ∧ y = q ∧ z = q then
        (if Denote.hasTriple q b then none else if endsQ q b then none else some b)
      else none := by
  have hn : (q :: q :: q :: (b ++ [x, y, z])).length = b.length + 6 := by simp
  have h1 : (q :: q :: q :: (b ++ [x, y, z])).drop (b.length + 6 - 3) = [x, y, z] := by
    have : b.length + 6 - 3 = b.length + 3 := by omega
    rw [this]; simp
  have h2 : ((q :: q :: q :: (b ++ [x, y, z])).drop 3).take (b.length + 6 - 6) = b := by simp
  have hqq : Denote.isQuote q = true := by rcases hq with rfl | rfl <;> rfl
  simp only [Denote.denote, hn, h1, h2]
  by_cases hx : x = q <;> by_cases hy : y = q <;> by_cases hz : z = q <;>
    rcases hq with rfl | rfl <;>
    simp [endsQ, Denote.isQuote, hx, hy, hz]


theorem unquoteMultiline_triple (q : UInt8) (hq : q = 34 ∨ q = 39) (b : Bytes) (x y z : UInt8) (hv : Valid b) :
    unquoteMultiline (q :: q :: q :: (b ++ [x, y, z])) = if x = q ∧ y = q ∧ z = q then some b else none := by
  have hn : (q :: q :: q :: (b ++ [x, y, z])).length = b.length + 6 := by simp
  have g0 : (q :: q :: q :: (b ++ [x, y, z])).getD 0 0 = q := rfl
  have g1 : (q :: q :: q :: (b ++ [x, y, z])).getD 1 0 = q := rfl
  have g2 : (q :: q :: q :: (b ++ [x, y, z])).getD 2 0 = q := rfl
  have g3 : (q :: q :: q :: (b ++ [x, y, z])).getD (b.length + 6 - 1) 0 = z := by
    have : b.length + 6 - 1 = b.length + 2 + 3 := by omega
    rw [this]; simp [List.getD]
  have g4 : (q :: q :: q :: (b ++ [x, y, z])).getD (b.length + 6 - 2) 0 = y := by
    have : b.length + 6 - 2 = b.length + 1 + 3 := by omega
    rw [this]; simp [List.getD]
  have g5 : (q :: q :: q :: (b ++ [x, y, z])).getD (b.length + 6 - 3) 0 = x := by
    have : b.length + 6 - 3 = b.length + 0 + 3 := by omega
    rw [this]; simp [List.getD]
  have h2 : ((q :: q :: q :: (b ++ [x, y, z])).drop 3).take (b.length + 6 - 6) = b := by simp
  have hml : multilineLoop (b.length + 1) b [] = b := by
    rw [multilineLoop_valid b.length b rfl hv _ _ (by omega)]; rfl
  simp only [unquoteMultiline, hn, g0, g1, g2, g3, g4, g5, h2, hml]
  rw [if_neg (by omega)]
  by_cases hx : x = q <;> by_cases hy : y = q <;> by_cases hz : z = q <;>
    rcases hq with rfl | rfl <;> simp [hx, hy, hz]
  all_goals first
    | (intro h1; exact absurd h1.symm (by assumption))
    | (intro h1 h2; exact absurd h1.symm (by assumption))
    | (intro h1 h2; exact absurd h2.symm (by assumption))
    | (intro h1 h2 h3; exact absurd h1.symm (by assumption))
    | (intro hb; rw [hb])


theorem snoc3_of_length (r : Bytes) (h : 3 ≤ r.length) : ∃ b x y z, r = b ++ [x, y, z] := by
  rcases eq_nil_or_snoc r with rfl | ⟨r1, z, rfl⟩
  · simp at h
  rcases eq_nil_or_snoc r1 with rfl | ⟨r2, y, rfl⟩
  · simp at h
  rcases eq_nil_or_snoc r2 with rfl | ⟨r3, x, rfl⟩
  · simp at h
  exact ⟨r3, x, y, z, by simp⟩

theorem implOf_triple (q : UInt8) (hq : q = 34 ∨ q = 39) (r2 : Bytes) (hv : Valid (q :: q :: q :: r2)) :
    implOf (q :: q :: q :: r2) = Denote.denote (q :: q :: q :: r2) := by
  have hq96 : (q == 96) = false := by rcases hq with rfl | rfl <;> rfl
  have hqlt : q.toNat < 0x80 := by rcases hq with rfl | rfl <;> decide
  have hft : firstTok (q :: q :: q :: r2) = (closeIdx q r2).map fun i => (Tok.MULTILINE_STRING, i + 6) := by
    simp [firstTok, hq96, headIs]
  have hvr : Valid r2 := valid_drop_ascii q _ hqlt (valid_drop_ascii q _ hqlt (valid_drop_ascii q _ hqlt hv))
  unfold implOf
  rw [hft]
  by_cases hlen : r2.length < 3
  · rw [denote_triple_short q hq r2 hlen]
    cases hc : closeIdx q r2 with
    | none => rfl
    | some i => have := closeIdx_le q r2 i hc; omega
  · obtain ⟨b, x, y, z, rfl⟩ := snoc3_of_length r2 (by omega)
    rw [denote_triple q hq]
    have hsn := closeIdx_snoc3 q x y z b
    by_cases hP : closeIdx q (b ++ [x, y, z]) = some b.length
    · obtain ⟨hx, hy, hz, hb, he⟩ := hsn.1 hP
      have hvb : Valid b := valid_prefix x [y, z] (by rw [hx]; exact hqlt) b.length b rfl hvr
      rw [hP]
      simp only [Option.map_some]
      rw [if_pos (by simp)]
      simp only [unquoteMultiline_triple q hq b x y z hvb, hb, he]
      simp [hx, hy, hz]
    · have hnone : (match (closeIdx q (b ++ [x, y, z])).map fun i => (Tok.MULTILINE_STRING, i + 6) with
          | some (t, p) =>
            if p = (q :: q :: q :: (b ++ [x, y, z])).length then
              (match t with
              | .STRING => if (q :: q :: q :: (b ++ [x, y, z])).headD 0 != 96 then unquote (q :: q :: q :: (b ++ [x, y, z])) else none
              | .MULTILINE_STRING => unquoteMultiline (q :: q :: q :: (b ++ [x, y, z]))
              | .QUOTED_STRING => if (q :: q :: q :: (b ++ [x, y, z])).headD 0 == 96 then unquote (q :: q :: q :: (b ++ [x, y, z])) else none
              | _ => none)
            else none
          | none => none) = none := by
        cases hc : closeIdx q (b ++ [x, y, z]) with
        | none => rfl
        | some i =>
          simp only [Option.map_some]
          rw [if_neg]
          intro h
          apply hP
          rw [hc]
          simp at h
          congr 1
      rw [hnone]
      have hnot := mt hsn.2 hP
      by_cases hxyz : x = q ∧ y = q ∧ z = q
      · rw [if_pos hxyz]
        cases hb : Denote.hasTriple q b with
        | true => simp
        | false =>
          cases he : endsQ q b with
          | true => simp
          | false => exact absurd ⟨hxyz.1, hxyz.2.1, hxyz.2.2, hb, he⟩ hnot
      · rw [if_neg hxyz]


/-! ### one-line strings: digits -/

def hexG (acc : Option Nat) (d : UInt8) : Option Nat :=
  match acc, unhexB d with
  | some a, some x => some (a * 16 + x)
  | _, _ => none

theorem hexVal_eq (ds : Bytes) : hexVal ds = ds.foldl hexG (some 0) := by
  cases ds <;> rfl

theorem hexDig_eq (c : UInt8) : Denote.hexDig c = unhexB c := by
  unfold Denote.hexDig unhexB
  split
  · rfl
  · split
    · rename_i h
      simp only [UInt8.le_iff_toNat_le, Bool.and_eq_true, decide_eq_true_eq] at h
      congr 1
      have : (97 : UInt8).toNat = 97 := rfl
      omega
    · split
      · rename_i h
        simp only [UInt8.le_iff_toNat_le, Bool.and_eq_true, decide_eq_true_eq] at h
        congr 1
        have : (65 : UInt8).toNat = 65 := rfl
        omega
      · rfl

theorem hexNum_eq (ds : Bytes) : Denote.hexNum ds = hexVal ds := by
  have hg : (fun (acc : Option Nat) (d : UInt8) => do
      let a ← acc; let x ← Denote.hexDig d; pure (a * 16 + x)) = hexG := by
    funext acc d
    rw [hexDig_eq]
    cases acc <;> cases h : unhexB d <;> simp [hexG, h]
  rw [hexVal_eq]
  cases ds with
  | nil => rfl
  | cons a r =>
    show List.foldl _ (some 0) (a :: r) = _
    rw [hg]

theorem foldl_hexG_none (ds : Bytes) : ds.foldl hexG none = none := by
  induction ds with
  | nil => rfl
  | cons a r ih => simpa [hexG] using ih

theorem lexDigits_hex (max : Nat) : ∀ (n x : Nat) (u : Bytes), lexDigits n 16 max x u = true ↔
    (n ≤ u.length ∧ ∃ v, (u.take n).foldl hexG (some x) = some v ∧ ¬ (v > max ∨ (0xD800 ≤ v ∧ v < 0xE000)))
  | 0, x, u => by
    simp [lexDigits]
    intro _; omega
  | n+1, x, [] => by simp [lexDigits]
  | n+1, x, c :: r => by
    simp only [lexDigits, List.length_cons, List.take_succ_cons, List.foldl_cons]
    cases hc : unhexB c with
    | none =>
      simp [hexG, hc, foldl_hexG_none]
    | some d =>
      have hd := unhexB_lt c d hc
      simp only [hd, if_true, hexG, hc]
      rw [lexDigits_hex max n (x * 16 + d) r]
      simp


theorem utf8_eq (v : Nat) : Denote.utf8 v =
    if v > 0x10FFFF ∨ (0xD800 ≤ v ∧ v < 0xE000) then none else some (encodeRune v) := by
  unfold Denote.utf8 encodeRune
  (repeat' split) <;> simp_all <;> omega

theorem unhexB_val (c : UInt8) : unhexB c =
    if 48 ≤ c.toNat ∧ c.toNat ≤ 57 then some (c.toNat - 48)
    else if 97 ≤ c.toNat ∧ c.toNat ≤ 102 then some (c.toNat - 87)
    else if 65 ≤ c.toNat ∧ c.toNat ≤ 70 then some (c.toNat - 55) else none := by
  unfold unhexB
  simp only [UInt8.le_iff_toNat_le, Bool.and_eq_true, decide_eq_true_eq]
  have e1 : (48 : UInt8).toNat = 48 := rfl
  have e3 : (57 : UInt8).toNat = 57 := rfl
  have e4 : (97 : UInt8).toNat = 97 := rfl
  have e5 : (102 : UInt8).toNat = 102 := rfl
  have e6 : (65 : UInt8).toNat = 65 := rfl
  have e7 : (70 : UInt8).toNat = 70 := rfl
  rw [e1, e3, e4, e5, e6, e7]
  split
  · rfl
  · split
    · congr 1; omega
    · split
      · congr 1; omega
      · rfl

theorem isOct_val (c : UInt8) : Denote.isOct c = decide (48 ≤ c.toNat ∧ c.toNat ≤ 55) := by
  unfold Denote.isOct
  rw [Bool.eq_iff_iff]
  simp [UInt8.le_iff_toNat_le]

theorem unhexB_oct (c : UInt8) :
    match unhexB c with
    | some d => (decide (d < 8) = Denote.isOct c) ∧ (Denote.isOct c = true → d = c.toNat - 48)
    | none => Denote.isOct c = false := by
  rw [unhexB_val, isOct_val]
  by_cases h1 : 48 ≤ c.toNat ∧ c.toNat ≤ 57
  · rw [if_pos h1]
    refine ⟨?_, fun _ => rfl⟩
    rw [Bool.eq_iff_iff]; simp; omega
  rw [if_neg h1]
  by_cases h2 : 97 ≤ c.toNat ∧ c.toNat ≤ 102
  · rw [if_pos h2]
    refine ⟨?_, fun h => ?_⟩
    · rw [Bool.eq_iff_iff]; simp; omega
    · simp at h; omega
  rw [if_neg h2]
  by_cases h3 : 65 ≤ c.toNat ∧ c.toNat ≤ 70
  · rw [if_pos h3]
    refine ⟨?_, fun h => ?_⟩
    · rw [Bool.eq_iff_iff]; simp; omega
    · simp at h; omega
  rw [if_neg h3]
  simp; omega

def octV (e d1 d2 : UInt8) : Nat := (e.toNat - 48) * 64 + (d1.toNat - 48) * 8 + (d2.toNat - 48)

set_option linter.unusedSimpArgs false in
theorem lexDigits_oct (e : UInt8) (r : Bytes) : lexDigits 3 8 255 0 (e :: r) = true ↔
    ∃ d1 d2 r', r = d1 :: d2 :: r' ∧ Denote.isOct e = true ∧ Denote.isOct d1 = true ∧ Denote.isOct d2 = true ∧
      octV e d1 d2 ≤ 255 := by
  have he := unhexB_oct e
  cases hxe : unhexB e with
  | none =>
    rw [hxe] at he
    simp [lexDigits, hxe, he]
  | some a =>
    rw [hxe] at he
    simp only at he
    by_cases hoe : Denote.isOct e = true
    · have ha : a < 8 := by have := he.1; rw [hoe] at this; simpa using this
      have hav := he.2 hoe
      match r with
      | [] => simp [lexDigits, hxe, ha]
      | [d1] =>
        simp only [lexDigits, hxe, ha, if_true]
        cases unhexB d1 <;> simp [lexDigits]
      | d1 :: d2 :: r' =>
        have h1 := unhexB_oct d1
        have h2 := unhexB_oct d2
        cases hx1 : unhexB d1 with
        | none => rw [hx1] at h1; simp [lexDigits, hxe, ha, hx1, h1]
        | some b =>
          rw [hx1] at h1
          simp only at h1
          by_cases ho1 : Denote.isOct d1 = true
          · have hb : b < 8 := by have := h1.1; rw [ho1] at this; simpa using this
            have hbv := h1.2 ho1
            cases hx2 : unhexB d2 with
            | none => rw [hx2] at h2; simp [lexDigits, hxe, ha, hx1, hb, hx2, h2]
            | some c =>
              rw [hx2] at h2
              simp only at h2
              by_cases ho2 : Denote.isOct d2 = true
              · have hc : c < 8 := by have := h2.1; rw [ho2] at this; simpa using this
                have hcv := h2.2 ho2
                simp only [lexDigits, hxe, ha, hx1, hb, hx2, hc, if_true]
                constructor
                · intro h
                  refine ⟨d1, d2, r', rfl, hoe, ho1, ho2, ?_⟩
                  simp at h
                  simp only [octV]
                  rw [hav, hbv, hcv] at h
                  omega
                · rintro ⟨d1', d2', r'', hr, _, _, _, hv⟩
                  simp only [List.cons.injEq] at hr
                  obtain ⟨rfl, rfl, rfl⟩ := hr
                  simp only [octV] at hv
                  simp
                  rw [hav, hbv, hcv]
                  omega
              · have hc : ¬ c < 8 := by
                  have := h2.1; intro hlt; apply ho2; rw [← this]; simpa using hlt
                simp [lexDigits, hxe, ha, hx1, hb, hx2, hc, ho2]
          · have hb : ¬ b < 8 := by
              have := h1.1; intro hlt; apply ho1; rw [← this]; simpa using hlt
            simp [lexDigits, hxe, ha, hx1, hb, ho1]
    · have ha : ¬ a < 8 := by
        have := he.1; intro hlt; apply hoe; rw [← this]; simpa using hlt
      simp [lexDigits, hxe, ha, hoe]


/-! ### one-line strings: items -/

theorem body_hi (q : UInt8) (hq : q.toNat < 0x80) : ∀ (hs : Bytes), (∀ c ∈ hs, 0x80 ≤ c.toNat) →
    ∀ (f : Nat) (x : Bytes), Denote.body (f + hs.length) q (hs ++ x) = (Denote.body f q x).map (hs ++ ·)
  | [], _, f, x => by simp
  | h :: hs, hh, f, x => by
    have hh0 : 0x80 ≤ h.toNat := hh h (by simp)
    have ih := body_hi q hq hs (fun c hc => hh c (by simp [hc])) f x
    have h10 : (h == 10) = false := by simp [← UInt8.toNat_inj]; omega
    have hhq : (h == q) = false := by simp [← UInt8.toNat_inj]; omega
    have h92 : (h != 92) = true := by simp [← UInt8.toNat_inj]; omega
    have : f + (h :: hs).length = (f + hs.length) + 1 := by simp; omega
    rw [this]
    simp only [List.cons_append, Denote.body, h10, hhq, h92, Bool.or_self, Bool.false_eq_true, if_false, if_true]
    rw [ih]
    simp [Option.map_map, Function.comp_def]

theorem plain_body (q : UInt8) : ∀ (b : Bytes) (f : Nat), (∀ c ∈ b, c ≠ 10 ∧ c ≠ q ∧ c ≠ 92) → b.length < f →
    Denote.body f q b = some b
  | [], f, _, hf => by
    obtain ⟨f, rfl⟩ : ∃ f', f = f' + 1 := ⟨f - 1, by simp at hf; omega⟩
    simp [Denote.body]
  | c :: r, f, hc, hf => by
    obtain ⟨f, rfl⟩ : ∃ f', f = f' + 1 := ⟨f - 1, by simp at hf; omega⟩
    obtain ⟨h1, h2, h3⟩ := hc c (by simp)
    have ih := plain_body q r f (fun x hx => hc x (by simp [hx])) (by simp at hf; omega)
    simp [Denote.body, h1, h2, h3, ih]


def simpleVal (q e : UInt8) : Option UInt8 :=
  if e == 97 then some 7 else if e == 98 then some 8 else if e == 102 then some 12 else if e == 110 then some 10
  else if e == 114 then some 13 else if e == 116 then some 9 else if e == 118 then some 11
  else if e == 92 then some 92 else if e == q then some q else none

theorem simpleVal_none (q e : UInt8) (h : simpleVal q e = none) :
    (e == 97) = false ∧ (e == 98) = false ∧ (e == 102) = false ∧ (e == 110) = false ∧ (e == 114) = false ∧
    (e == 116) = false ∧ (e == 118) = false ∧ (e == 92) = false ∧ (e == q) = false := by
  unfold simpleVal at h
  repeat' split at h
  all_goals simp_all

/-- the escape forms after a backslash, for `Denote.body` -/
theorem body_simple (q e x : UInt8) (hq : q = 34 ∨ q = 39) (h : simpleVal q e = some x) (f : Nat) (r : Bytes) :
    Denote.body (f + 1) q (92 :: e :: r) = (Denote.body f q r).map (x :: ·) := by
  unfold simpleVal at h
  rcases hq with rfl | rfl <;>
  · simp only [Denote.body]
    repeat' split at h
    all_goals first
      | (injection h with h; subst h; simp_all)
      | cases h

theorem body_esc_none (q e : UInt8) (hq : q = 34 ∨ q = 39) (h : simpleVal q e = none) (f : Nat) (r : Bytes) :
    Denote.body (f + 1) q (92 :: e :: r) =
      if Denote.isOct e then
        match r with
        | d1 :: d2 :: r' =>
          if Denote.isOct d1 && Denote.isOct d2 then
            if octV e d1 d2 ≤ 255 then (Denote.body f q r').map ((octV e d1 d2).toUInt8 :: ·) else none
          else none
        | _ => none
      else if e == 120 then
        (match r with
         | h1 :: h2 :: r' => (Denote.hexNum [h1, h2]).bind fun v => (Denote.body f q r').map (v.toUInt8 :: ·)
         | _ => none)
      else if e == 117 || e == 85 then
        (if r.length < (if e == 117 then 4 else 8) then none
         else (Denote.hexNum (r.take (if e == 117 then 4 else 8))).bind fun v => (Denote.utf8 v).bind fun enc =>
           (Denote.body f q (r.drop (if e == 117 then 4 else 8))).map (enc ++ ·))
      else none := by
  obtain ⟨h1, h2, h3, h4, h5, h6, h7, h8, h9⟩ := simpleVal_none q e h
  have e2 : ((92:UInt8) != 92) = false := by decide
  rcases hq with rfl | rfl <;>
  · simp only [Denote.body, h1, h2, h3, h4, h5, h6, h7, h8, h9]
    simp only [octV, e2, Bool.false_eq_true, if_false]
    rw [if_neg (by decide)]
    rcases r with _ | ⟨d1, _ | ⟨d2, r'⟩⟩ <;> simp [Option.map_eq_bind, Function.comp_def]


inductive Item (q : UInt8) : Bytes → Bytes → Prop
  | plain (c : UInt8) : c.toNat < 0x80 → c ≠ 10 → c ≠ q → c ≠ 92 → Item q [c] [c]
  | rune (c : UInt8) (hs : Bytes) : (∀ x ∈ c :: hs, 0x80 ≤ x.toNat) → (c :: hs).length = leadWidth c →
      Item q (c :: hs) (c :: hs)
  | simple (e x : UInt8) : simpleVal q e = some x → Item q [92, e] [x]
  | oct (e d1 d2 : UInt8) : Denote.isOct e = true → Denote.isOct d1 = true → Denote.isOct d2 = true →
      octV e d1 d2 ≤ 255 → Item q [92, e, d1, d2] [(octV e d1 d2).toUInt8]
  | hex (h1 h2 : UInt8) (v : Nat) : hexVal [h1, h2] = some v → Item q [92, 120, h1, h2] [v.toUInt8]
  | uni (e : UInt8) (ds : Bytes) (v : Nat) : (e = 117 ∧ ds.length = 4 ∨ e = 85 ∧ ds.length = 8) →
      hexVal ds = some v → v ≤ 0x10FFFF → ¬ (0xD800 ≤ v ∧ v < 0xE000) → Item q (92 :: e :: ds) (encodeRune v)

theorem isOct_range (e : UInt8) (h : Denote.isOct e = true) : 48 ≤ e.toNat ∧ e.toNat ≤ 55 := by
  rw [isOct_val] at h; simpa using h

theorem item_body (q : UInt8) (hq : q = 34 ∨ q = 39) (it out : Bytes) (h : Item q it out) :
    ∃ k, 1 ≤ k ∧ k ≤ it.length ∧ ∀ (f : Nat) (x : Bytes),
      Denote.body (f + k) q (it ++ x) = (Denote.body f q x).map (out ++ ·) := by
  have hqlt : q.toNat < 0x80 := by rcases hq with rfl | rfl <;> decide
  cases h with
  | plain c hc h10 hcq h92 =>
    refine ⟨1, by omega, by simp, fun f x => ?_⟩
    simp [Denote.body, h10, hcq, h92]
  | rune c hs hall hw =>
    refine ⟨(c :: hs).length, by simp, by omega, fun f x => ?_⟩
    exact body_hi q hqlt (c :: hs) hall f x
  | simple e x hx =>
    refine ⟨1, by omega, by simp, fun f r => ?_⟩
    simpa using body_simple q e x hq hx f r
  | oct e d1 d2 he h1 h2 hv =>
    refine ⟨1, by omega, by simp, fun f r => ?_⟩
    have hr := isOct_range e he
    have hsn : simpleVal q e = none := by
      unfold simpleVal
      rcases hq with rfl | rfl <;>
      · rw [if_neg (by simp [← UInt8.toNat_inj]; omega), if_neg (by simp [← UInt8.toNat_inj]; omega),
          if_neg (by simp [← UInt8.toNat_inj]; omega), if_neg (by simp [← UInt8.toNat_inj]; omega),
          if_neg (by simp [← UInt8.toNat_inj]; omega), if_neg (by simp [← UInt8.toNat_inj]; omega),
          if_neg (by simp [← UInt8.toNat_inj]; omega), if_neg (by simp [← UInt8.toNat_inj]; omega),
          if_neg (by simp [← UInt8.toNat_inj]; omega)]
    have := body_esc_none q e hq hsn f (d1 :: d2 :: r)
    simp only [List.cons_append, List.nil_append]
    rw [this]
    simp [he, h1, h2, hv]
  | hex h1 h2 v hv =>
    refine ⟨1, by omega, by simp, fun f r => ?_⟩
    have hsn : simpleVal q 120 = none := by rcases hq with rfl | rfl <;> decide
    have := body_esc_none q 120 hq hsn f (h1 :: h2 :: r)
    simp only [List.cons_append, List.nil_append]
    rw [this]
    rw [if_neg (by decide), if_pos (by decide)]
    simp [hexNum_eq, hv]
  | uni e ds v hed hv hmax hsur =>
    refine ⟨1, by omega, by simp, fun f r => ?_⟩
    have hu : Denote.utf8 v = some (encodeRune v) := by
      rw [utf8_eq, if_neg (by omega)]
    rcases hed with ⟨rfl, hl⟩ | ⟨rfl, hl⟩
    · have hsn : simpleVal q 117 = none := by rcases hq with rfl | rfl <;> decide
      have := body_esc_none q 117 hq hsn f (ds ++ r)
      simp only [List.cons_append]
      rw [this]
      rw [if_neg (by decide), if_neg (by decide), if_pos (by decide)]
      have e1 : (if ((117 : UInt8) == 117) = true then 4 else 8) = 4 := by decide
      rw [e1, if_neg (by simp; omega)]
      have : (ds ++ r).take 4 = ds := by rw [← hl]; simp
      rw [this]
      have : (ds ++ r).drop 4 = r := by rw [← hl]; simp
      rw [this, hexNum_eq, hv]
      simp [hu]
    · have hsn : simpleVal q 85 = none := by rcases hq with rfl | rfl <;> decide
      have := body_esc_none q 85 hq hsn f (ds ++ r)
      simp only [List.cons_append]
      rw [this]
      rw [if_neg (by decide), if_neg (by decide), if_pos (by decide)]
      have e1 : (if ((85 : UInt8) == 117) = true then 4 else 8) = 8 := by decide
      rw [e1, if_neg (by simp; omega)]
      have : (ds ++ r).take 8 = ds := by rw [← hl]; simp
      rw [this]
      have : (ds ++ r).drop 8 = r := by rw [← hl]; simp
      rw [this, hexNum_eq, hv]
      simp [hu]


theorem rune_item_decode (c : UInt8) (hs x : Bytes) (hall : ∀ y ∈ c :: hs, 0x80 ≤ y.toNat)
    (hw : (c :: hs).length = leadWidth c) (hv : Valid (c :: hs ++ x)) :
    (decodeRune (c :: hs ++ x)).2 = (c :: hs).length ∧ encodeRune (decodeRune (c :: hs ++ x)).1 = c :: hs := by
  have hwl := width_by_lead c (hs ++ x) hv
  rw [← hw] at hwl
  refine ⟨hwl, ?_⟩
  rcases rune_cases _ hv with h | ⟨c', r', h, hc', _, _⟩ | ⟨w, _, _, _, h4, _, _, _, _, h9, _⟩
  · cases h
  · exfalso
    injection h with h1 h2
    subst h1
    have := hall c (by simp)
    omega
  · have hwl' : (decodeRune (c :: hs ++ x)).2 = (c :: hs).length := hwl
    rw [h9, ← h4, hwl']
    simp

theorem hexG2 (h1 h2 : UInt8) (v : Nat) (h : hexVal [h1, h2] = some v) : v ≤ 255 := by
  rw [hexVal_eq] at h
  simp only [List.foldl_cons, List.foldl_nil, hexG] at h
  cases ha : unhexB h1 with
  | none => simp [ha] at h
  | some a =>
    cases hb : unhexB h2 with
    | none => simp [ha, hb] at h
    | some b =>
      simp [ha, hb] at h
      have := unhexB_lt h1 a ha
      have := unhexB_lt h2 b hb
      omega

theorem item_unq (q : UInt8) (hq : q = 34 ∨ q = 39) (it out : Bytes) (h : Item q it out) (x : Bytes)
    (hv : Valid (it ++ x)) : unquoteChar (it ++ x) q = some (out, x) := by
  have hqlt : q.toNat < 0x80 := by rcases hq with rfl | rfl <;> decide
  cases h with
  | plain c hc h10 hcq h92 =>
    have hcl : ¬ (c ≥ 0x80) := by simp [UInt8.le_iff_toNat_le]; omega
    simp [unquoteChar, hcq, hcl, h92]
  | rune c hs hall hw =>
    obtain ⟨h1, h2⟩ := rune_item_decode c hs x hall hw hv
    have hc := hall c (by simp)
    have hcq : (c == q) = false := by simp [← UInt8.toNat_inj]; omega
    have hcl : c ≥ 0x80 := by simp [UInt8.le_iff_toNat_le]; omega
    simp only [List.cons_append, unquoteChar, hcq, Bool.false_and, Bool.false_eq_true, if_false, hcl, if_true]
    rw [List.cons_append] at h1 h2
    rw [h1, h2]
    simp
  | simple e y hy =>
    unfold simpleVal at hy
    rcases hq with rfl | rfl <;>
    · simp only [List.cons_append, List.nil_append, unquoteChar]
      repeat' split at hy
      all_goals first
        | (injection hy with hy; subst hy; simp_all)
        | cases hy
  | oct e d1 d2 he h1 h2 hv' =>
    have hr := isOct_range e he
    have ho : (decide (48 ≤ e) && decide (e ≤ 55)) = true := he
    have ho1 : decide (48 ≤ d1) = true ∧ decide (d1 ≤ 55) = true := by
      simpa [Denote.isOct] using h1
    have ho2 : decide (48 ≤ d2) = true ∧ decide (d2 ≤ 55) = true := by
      simpa [Denote.isOct] using h2
    simp only [List.cons_append, List.nil_append, unquoteChar]
    rw [if_neg (by rcases hq with rfl | rfl <;> decide), if_neg (by decide), if_neg (by decide)]
    rw [if_neg (by simp [← UInt8.toNat_inj]; omega), if_neg (by simp [← UInt8.toNat_inj]; omega),
      if_neg (by simp [← UInt8.toNat_inj]; omega), if_neg (by simp [← UInt8.toNat_inj]; omega),
      if_neg (by simp [← UInt8.toNat_inj]; omega), if_neg (by simp [← UInt8.toNat_inj]; omega),
      if_neg (by simp [← UInt8.toNat_inj]; omega), if_neg (by simp [← UInt8.toNat_inj]; omega),
      if_pos ho]
    simp only [ho1.1, ho1.2, ho2.1, ho2.2, Bool.and_self, if_true]
    rw [if_neg (by simp only [octV] at hv'; omega)]
    rfl
  | hex h1 h2 v hv' =>
    simp only [List.cons_append, List.nil_append, unquoteChar]
    rw [if_neg (by rcases hq with rfl | rfl <;> decide), if_neg (by decide), if_neg (by decide)]
    simp [hv']
  | uni e ds v hed hv' hmax hsur =>
    rcases hed with ⟨rfl, hl⟩ | ⟨rfl, hl⟩
    · simp only [List.cons_append, unquoteChar]
      rw [if_neg (by rcases hq with rfl | rfl <;> decide), if_neg (by decide), if_neg (by decide)]
      have t1 : (ds ++ x).take 4 = ds := by rw [← hl]; simp
      have t2 : (ds ++ x).drop 4 = x := by rw [← hl]; simp
      simp [t1, t2, hv', hl]
      omega
    · simp only [List.cons_append, unquoteChar]
      rw [if_neg (by rcases hq with rfl | rfl <;> decide), if_neg (by decide), if_neg (by decide)]
      have t1 : (ds ++ x).take 8 = ds := by rw [← hl]; simp
      have t2 : (ds ++ x).drop 8 = x := by rw [← hl]; simp
      simp [t1, t2, hv', hl]
      omega


theorem simpleEsc_of_val (q e x : UInt8) (h : simpleVal q e = some x) : simpleEsc q e = true := by
  unfold simpleVal at h
  unfold simpleEsc
  repeat' split at h
  all_goals simp_all

theorem item_lex (q : UInt8) (hq : q = 34 ∨ q = 39) (it out : Bytes) (h : Item q it out) (f : Nat) (x : Bytes)
    (hv : Valid (it ++ x)) : lexStr (f + 1) q (it ++ x) = (lexStr f q x).map (· + it.length) := by
  have hqlt : q.toNat < 0x80 := by rcases hq with rfl | rfl <;> decide
  have hqn : q.toNat = 34 ∨ q.toNat = 39 := by rcases hq with rfl | rfl <;> simp
  have h92 : ¬ ((92 : UInt8) ≥ 0x80) := by decide
  cases h with
  | plain c hc h10 hcq h92 =>
    have hcl : ¬ (c ≥ 0x80) := by simp [UInt8.le_iff_toNat_le]; omega
    simp [lexStr, hcq, hcl, h92, h10]
  | rune c hs hall hw =>
    obtain ⟨h1, h2⟩ := rune_item_decode c hs x hall hw hv
    have hc := hall c (by simp)
    have hcl : c ≥ 0x80 := by simp [UInt8.le_iff_toNat_le]; omega
    simp only [List.cons_append, lexStr, hcl, if_true]
    rw [List.cons_append] at h1
    rw [h1]
    have : (c :: (hs ++ x)).drop (c :: hs).length = x := by
      rw [← List.cons_append]; simp
    rw [this]
  | simple e y hy =>
    have hs := simpleEsc_of_val q e y hy
    simp only [List.cons_append, List.nil_append, lexStr]
    rw [if_neg h92, if_pos (by decide), if_pos hs]
    rfl
  | oct e d1 d2 he h1 h2 hv' =>
    have hr := isOct_range e he
    have hs : simpleEsc q e = false := by
      simp [simpleEsc, ← UInt8.toNat_inj]; omega
    have ho : (decide (48 ≤ e) && decide (e ≤ 55)) = true := he
    have hl : lexDigits 3 8 255 0 (e :: d1 :: d2 :: x) = true :=
      (lexDigits_oct e (d1 :: d2 :: x)).2 ⟨d1, d2, x, rfl, he, h1, h2, hv'⟩
    simp only [List.cons_append, List.nil_append, lexStr]
    rw [if_neg h92, if_pos (by decide), if_neg (by simp [hs]), if_pos ho, if_pos hl]
    rfl
  | hex h1 h2 v hv' =>
    have hs : simpleEsc q 120 = false := by rcases hq with rfl | rfl <;> decide
    have hl : lexDigits 2 16 255 0 (h1 :: h2 :: x) = true := by
      rw [lexDigits_hex]
      refine ⟨by simp, v, ?_, ?_⟩
      · rw [hexVal_eq] at hv'; simpa using hv'
      · have := hexG2 h1 h2 v hv'; omega
    simp only [List.cons_append, List.nil_append, lexStr]
    rw [if_neg h92, if_pos (by decide), if_neg (by simp [hs]), if_neg (by decide), if_pos (by decide), if_pos hl]
    rfl
  | uni e ds v hed hv' hmax hsur =>
    rcases hed with ⟨rfl, hl⟩ | ⟨rfl, hl⟩
    · have hs : simpleEsc q 117 = false := by rcases hq with rfl | rfl <;> decide
      have hld : lexDigits 4 16 0x10FFFF 0 (ds ++ x) = true := by
        rw [lexDigits_hex]
        refine ⟨by simp; omega, v, ?_, by omega⟩
        have : (ds ++ x).take 4 = ds := by rw [← hl]; simp
        rw [this, ← hexVal_eq]; exact hv'
      have t2 : (ds ++ x).drop 4 = x := by rw [← hl]; simp
      simp only [List.cons_append, lexStr]
      rw [if_neg h92, if_pos (by decide), if_neg (by simp [hs]), if_neg (by decide), if_neg (by decide),
        if_pos (by decide), if_pos hld, t2]
      simp [hl]
    · have hs : simpleEsc q 85 = false := by rcases hq with rfl | rfl <;> decide
      have hld : lexDigits 8 16 0x10FFFF 0 (ds ++ x) = true := by
        rw [lexDigits_hex]
        refine ⟨by simp; omega, v, ?_, by omega⟩
        have : (ds ++ x).take 8 = ds := by rw [← hl]; simp
        rw [this, ← hexVal_eq]; exact hv'
      have t2 : (ds ++ x).drop 8 = x := by rw [← hl]; simp
      simp only [List.cons_append, lexStr]
      rw [if_neg h92, if_pos (by decide), if_neg (by simp [hs]), if_neg (by decide), if_neg (by decide),
        if_neg (by decide), if_pos (by decide), if_pos hld, t2]
      simp [hl]


theorem unhexB_ascii (d : UInt8) (a : Nat) (h : unhexB d = some a) : d.toNat < 0x80 ∧ d ≠ 10 := by
  rw [unhexB_val] at h
  have : d.toNat ≠ 10 → d ≠ 10 := by intro h1 h2; apply h1; rw [h2]; rfl
  by_cases h1 : 48 ≤ d.toNat ∧ d.toNat ≤ 57
  · exact ⟨by omega, this (by omega)⟩
  rw [if_neg h1] at h
  by_cases h2 : 97 ≤ d.toNat ∧ d.toNat ≤ 102
  · exact ⟨by omega, this (by omega)⟩
  rw [if_neg h2] at h
  by_cases h3 : 65 ≤ d.toNat ∧ d.toNat ≤ 70
  · exact ⟨by omega, this (by omega)⟩
  rw [if_neg h3] at h
  cases h

theorem hexfold_digits : ∀ (ds : Bytes) (x v : Nat), ds.foldl hexG (some x) = some v →
    ∀ d ∈ ds, d.toNat < 0x80 ∧ d ≠ 10
  | [], _, _, _, d, hd => by simp at hd
  | c :: r, x, v, h, d, hd => by
    simp only [List.foldl_cons] at h
    cases hc : unhexB c with
    | none => simp [hexG, hc, foldl_hexG_none] at h
    | some a =>
      simp only [hexG, hc] at h
      rcases List.mem_cons.1 hd with rfl | hd
      · exact unhexB_ascii d a hc
      · exact hexfold_digits r _ v h d hd

theorem hexVal_digits (ds : Bytes) (v : Nat) (h : hexVal ds = some v) : ∀ d ∈ ds, d.toNat < 0x80 ∧ d ≠ 10 := by
  rw [hexVal_eq] at h
  exact hexfold_digits ds 0 v h

theorem simpleVal_ascii (q e x : UInt8) (hq : q = 34 ∨ q = 39) (h : simpleVal q e = some x) :
    e.toNat < 0x80 ∧ e ≠ 10 := by
  unfold simpleVal at h
  repeat' split at h
  all_goals first
    | cases h; done
    | (rename_i he; simp only [beq_iff_eq] at he; subst he; rcases hq with rfl | rfl <;> decide)

/-- the bytes of an item are not newlines, and all items but runes are ASCII -/
theorem item_props (q : UInt8) (hq : q = 34 ∨ q = 39) (it out : Bytes) (h : Item q it out) :
    1 ≤ it.length ∧ (∀ c ∈ it, c ≠ 10) ∧ (∀ x, Valid (it ++ x) → Valid x) := by
  cases h with
  | plain c hc h10 hcq h92 =>
    refine ⟨by simp, by simpa using h10, fun x hv => valid_drop_ascii c x hc hv⟩
  | rune c hs hall hw =>
    refine ⟨by simp, ?_, ?_⟩
    · intro y hy h10
      have := hall y hy
      rw [h10] at this
      simp at this
    · intro x hv
      obtain ⟨h1, _⟩ := rune_item_decode c hs x hall hw hv
      rcases rune_cases _ hv with h | ⟨c', r', h, hc', _, _⟩ | ⟨w, _, _, _, h4, _, _, _, _, _, h10⟩
      · cases h
      · exfalso
        injection h with h1 h2
        subst h1
        have := hall c (by simp)
        omega
      · rw [← h4, h1] at h10
        simpa using h10
  | simple e x hx =>
    obtain ⟨h1, h2⟩ := simpleVal_ascii q e x hq hx
    refine ⟨by simp, ?_, ?_⟩
    · intro c hc
      simp only [List.mem_cons, List.not_mem_nil, or_false] at hc
      rcases hc with rfl | rfl
      · decide
      · exact h2
    · intro y hv
      exact valid_drop_ascii e y h1 (valid_drop_ascii 92 _ (by decide) hv)
  | oct e d1 d2 he h1 h2 hv' =>
    have r0 := isOct_range e he
    have r1 := isOct_range d1 h1
    have r2 := isOct_range d2 h2
    have ne10 : ∀ d : UInt8, 48 ≤ d.toNat → d ≠ 10 := by
      intro d hd h; rw [h] at hd; simp at hd
    refine ⟨by simp, ?_, ?_⟩
    · intro c hc
      simp only [List.mem_cons, List.not_mem_nil, or_false] at hc
      rcases hc with rfl | rfl | rfl | rfl
      · decide
      · exact ne10 _ r0.1
      · exact ne10 _ r1.1
      · exact ne10 _ r2.1
    · intro y hv
      exact valid_drop_ascii d2 y (by omega) (valid_drop_ascii d1 _ (by omega)
        (valid_drop_ascii e _ (by omega) (valid_drop_ascii 92 _ (by decide) hv)))
  | hex h1 h2 v hv' =>
    have hd := hexVal_digits [h1, h2] v hv'
    have g1 := hd h1 (by simp)
    have g2 := hd h2 (by simp)
    refine ⟨by simp, ?_, ?_⟩
    · intro c hc
      simp only [List.mem_cons, List.not_mem_nil, or_false] at hc
      rcases hc with rfl | rfl | rfl | rfl
      · decide
      · decide
      · exact g1.2
      · exact g2.2
    · intro y hv
      exact valid_drop_ascii h2 y g2.1 (valid_drop_ascii h1 _ g1.1
        (valid_drop_ascii 120 _ (by decide) (valid_drop_ascii 92 _ (by decide) hv)))
  | uni e ds v hed hv' hmax hsur =>
    have hd := hexVal_digits ds v hv'
    have he : e.toNat < 0x80 ∧ e ≠ 10 := by rcases hed with ⟨rfl, _⟩ | ⟨rfl, _⟩ <;> decide
    refine ⟨by simp, ?_, ?_⟩
    · intro c hc
      simp only [List.mem_cons] at hc
      rcases hc with rfl | rfl | hc
      · decide
      · exact he.2
      · exact (hd c hc).2
    · intro y hv
      have hv2 : Valid (ds ++ y) := valid_drop_ascii e _ he.1 (valid_drop_ascii 92 _ (by decide) hv)
      have := valid_drop_asciis ds.length (ds ++ y) (by simp) (by
        intro c hc; simp at hc; exact (hd c hc).1) hv2
      simpa using this


theorem body_hi_fuel (q : UInt8) (hq : q.toNat < 0x80) : ∀ (hs : Bytes), (∀ c ∈ hs, 0x80 ≤ c.toNat) →
    ∀ (f : Nat) (x v : Bytes), Denote.body f q (hs ++ x) = some v → hs.length < f
  | [], _, f, x, v, h => by
    cases f with
    | zero => simp [Denote.body] at h
    | succ f => simp
  | c :: hs, hh, f, x, v, h => by
    cases f with
    | zero => simp [Denote.body] at h
    | succ f =>
      have hh0 : 0x80 ≤ c.toNat := hh c (by simp)
      have h10 : (c == 10) = false := by simp [← UInt8.toNat_inj]; omega
      have hcq : (c == q) = false := by simp [← UInt8.toNat_inj]; omega
      have h92 : (c != 92) = true := by simp [← UInt8.toNat_inj]; omega
      simp only [List.cons_append, Denote.body, h10, hcq, h92, Bool.or_self, Bool.false_eq_true, if_false,
        if_true, Option.map_eq_some_iff] at h
      obtain ⟨v', hv', _⟩ := h
      have := body_hi_fuel q hq hs (fun c hc => hh c (by simp [hc])) f x v' hv'
      simp; omega

theorem body_decomp (q : UInt8) (hq : q = 34 ∨ q = 39) (f : Nat) (b t v : Bytes) (hv : Valid (b ++ q :: t))
    (h : Denote.body f q b = some v) :
    (b = [] ∧ v = []) ∨ ∃ it out b' v' f', f' < f ∧ Item q it out ∧ b = it ++ b' ∧ v = out ++ v' ∧
      Denote.body f' q b' = some v' := by
  have hqlt : q.toNat < 0x80 := by rcases hq with rfl | rfl <;> decide
  cases f with
  | zero => simp [Denote.body] at h
  | succ f =>
  cases b with
  | nil => left; simp [Denote.body] at h; exact ⟨rfl, h⟩
  | cons c rest =>
  right
  rcases rune_cases _ hv with h0 | ⟨c', r', h0, hc, _, hvr⟩ | ⟨w, hw1, hw2, hw3, hw4, _, _, _, hw8, _, _⟩
  · cases h0
  · injection h0 with hh1 hh2
    subst hh1
    by_cases hc92 : c = 92
    · subst hc92
      cases rest with
      | nil => rcases hq with rfl | rfl <;> simp [Denote.body] at h
      | cons e r =>
        cases hsv : simpleVal q e with
        | some x =>
          rw [body_simple q e x hq hsv f r] at h
          simp only [Option.map_eq_some_iff] at h
          obtain ⟨v', hv', rfl⟩ := h
          exact ⟨[92, e], [x], r, v', f, by omega, Item.simple e x hsv, rfl, rfl, hv'⟩
        | none =>
          rw [body_esc_none q e hq hsv f r] at h
          by_cases hoct : Denote.isOct e = true
          · rw [if_pos hoct] at h
            rcases r with _ | ⟨d1, _ | ⟨d2, r'⟩⟩
            · simp at h
            · simp at h
            · simp only at h
              split at h
              · rename_i h12
                split at h
                · rename_i hle
                  simp only [Option.map_eq_some_iff] at h
                  obtain ⟨v', hv', rfl⟩ := h
                  simp only [Bool.and_eq_true] at h12
                  exact ⟨[92, e, d1, d2], _, r', v', f, by omega, Item.oct e d1 d2 hoct h12.1 h12.2 hle,
                    rfl, rfl, hv'⟩
                · cases h
              · cases h
          rw [if_neg hoct] at h
          by_cases hx : (e == 120) = true
          · rw [if_pos hx] at h
            have hx' : e = 120 := by simpa using hx
            subst hx'
            rcases r with _ | ⟨h1, _ | ⟨h2, r'⟩⟩
            · simp at h
            · simp at h
            · simp only [Option.bind_eq_some_iff, Option.map_eq_some_iff] at h
              obtain ⟨vv, hvv, v', hv', rfl⟩ := h
              rw [hexNum_eq] at hvv
              exact ⟨[92, 120, h1, h2], _, r', v', f, by omega, Item.hex h1 h2 vv hvv, rfl, rfl, hv'⟩
          rw [if_neg hx] at h
          by_cases hu : (e == 117 || e == 85) = true
          · rw [if_pos hu] at h
            by_cases hlen : r.length < (if (e == 117) = true then 4 else 8)
            · rw [if_pos hlen] at h; cases h
            · rw [if_neg hlen] at h
              simp only [Option.bind_eq_some_iff, Option.map_eq_some_iff] at h
              obtain ⟨vv, hvv, enc, henc, v', hv', rfl⟩ := h
              rw [hexNum_eq] at hvv
              rw [utf8_eq] at henc
              split at henc
              · cases henc
              · rename_i hok
                injection henc with henc
                subst henc
                refine ⟨92 :: e :: r.take (if (e == 117) = true then 4 else 8), _,
                  r.drop (if (e == 117) = true then 4 else 8), v', f, by omega, ?_, ?_, rfl, hv'⟩
                · refine Item.uni e _ vv ?_ hvv (by omega) (by omega)
                  simp only [Bool.or_eq_true, beq_iff_eq] at hu
                  rcases hu with rfl | rfl
                  · left; refine ⟨rfl, ?_⟩
                    simp at hlen ⊢; omega
                  · right; refine ⟨rfl, ?_⟩
                    simp at hlen ⊢; omega
                · simp
          rw [if_neg hu] at h
          cases h
    · have h92 : (c != 92) = true := by simpa using hc92
      by_cases hcc : (c == 10 || c == q) = true
      · simp only [Denote.body, hcc, if_true] at h
        cases h
      · have hcc' : (c == 10 || c == q) = false := by simpa using hcc
        simp only [Denote.body, hcc', h92, Bool.false_eq_true, if_false, if_true] at h
        simp only [Bool.or_eq_true, beq_iff_eq, not_or] at hcc
        simp only [Option.map_eq_some_iff] at h
        obtain ⟨v', hv', rfl⟩ := h
        exact ⟨[c], [c], rest, v', f, by omega, Item.plain c hc hcc.1 hcc.2 hc92, rfl, rfl, hv'⟩
  · -- a multi-byte rune
    have hwl := width_by_lead c (rest ++ q :: t) hv
    have hw4' : (decodeRune (c :: (rest ++ q :: t))).2 = w := hw4
    rw [hw4'] at hwl
    have hwb : w ≤ (c :: rest).length := by
      apply Nat.le_of_not_lt
      intro hlt
      have hmem : q ∈ (c :: rest ++ q :: t).take w := by
        rw [List.take_append]
        apply List.mem_append_right
        have : w - (c :: rest).length = (w - (c :: rest).length - 1) + 1 := by omega
        rw [this]; simp
      have := hw8 q hmem
      omega
    have htake : (c :: rest ++ q :: t).take w = (c :: rest).take w := by
      rw [List.take_append_of_le_length hwb]
    have hsplit : c :: rest = (c :: rest).take w ++ (c :: rest).drop w := (List.take_append_drop _ _).symm
    obtain ⟨w', rfl⟩ : ∃ w', w = w' + 1 := ⟨w - 1, by omega⟩
    have htk : (c :: rest).take (w' + 1) = c :: rest.take w' := rfl
    have hall : ∀ y ∈ c :: rest.take w', 0x80 ≤ y.toNat := by
      intro y hy; apply hw8; rw [htake, htk]; exact hy
    have hlen : (c :: rest.take w').length = w' + 1 := by
      have : w' ≤ rest.length := by simpa using hwb
      simp [List.length_take, Nat.min_eq_left this]
    rw [hsplit, htk] at h
    have hfuel := body_hi_fuel q hqlt _ hall _ _ _ h
    rw [hlen] at hfuel
    have hf : f + 1 = (f + 1 - (w' + 1)) + (c :: rest.take w').length := by rw [hlen]; omega
    rw [hf, body_hi q hqlt _ hall] at h
    simp only [Option.map_eq_some_iff] at h
    obtain ⟨v', hv', rfl⟩ := h
    refine ⟨c :: rest.take w', c :: rest.take w', (c :: rest).drop (w' + 1), v', f + 1 - (w' + 1), by omega,
      Item.rune c _ hall (by rw [hlen, hwl]), ?_, rfl, hv'⟩
    rw [← htk]; exact hsplit


/-- an item the lexer accepts but `unquoteChar` rejects -/
def Bad (q : UInt8) (it : Bytes) : Prop := ∀ x, unquoteChar (it ++ x) q = none

theorem simpleEsc_cases (q e : UInt8) (h : simpleEsc q e = true) : e = 0 ∨ ∃ x, simpleVal q e = some x := by
  by_cases h0 : e = 0
  · exact Or.inl h0
  · right
    unfold simpleEsc at h
    unfold simpleVal
    simp only [Bool.or_eq_true, beq_iff_eq] at h
    repeat' split
    all_goals first
      | exact ⟨_, rfl⟩
      | (exfalso; simp_all)

theorem bad_nul (q : UInt8) (hq : q = 34 ∨ q = 39) : Bad q [92, 0] := by
  intro x
  rcases hq with rfl | rfl <;> simp [unquoteChar]

theorem bad_X (q : UInt8) (hq : q = 34 ∨ q = 39) (h1 h2 : UInt8) : Bad q [92, 88, h1, h2] := by
  intro x
  rcases hq with rfl | rfl <;> simp [unquoteChar]

theorem lexStr_esc (F : Nat) (q e : UInt8) (r : Bytes) : lexStr (F + 1) q (92 :: e :: r) =
    if simpleEsc q e then (lexStr F q r).map (· + 2)
    else if 48 ≤ e && e ≤ 55 then
      (if lexDigits 3 8 255 0 (e :: r) then (lexStr F q ((e :: r).drop 3)).map (· + 4) else none)
    else if e == 120 || e == 88 then
      (if lexDigits 2 16 255 0 r then (lexStr F q (r.drop 2)).map (· + 4) else none)
    else if e == 117 then
      (if lexDigits 4 16 0x10FFFF 0 r then (lexStr F q (r.drop 4)).map (· + 6) else none)
    else if e == 85 then
      (if lexDigits 8 16 0x10FFFF 0 r then (lexStr F q (r.drop 8)).map (· + 10) else none)
    else none := by
  simp only [lexStr]
  rw [if_neg (by decide), if_pos (by decide)]

theorem hexfold_take (n : Nat) (r : Bytes) (v : Nat) (_hn : n ≤ r.length)
    (h : (r.take n).foldl hexG (some 0) = some v) : hexVal (r.take n) = some v := by
  rw [hexVal_eq]; exact h

theorem lex_decomp (q : UInt8) (hq : q = 34 ∨ q = 39) (F : Nat) (u : Bytes) (k : Nat) (hv : Valid u)
    (h : lexStr F q u = some k) :
    (∃ t, u = q :: t ∧ k = 1) ∨ ∃ it u' k' F', F' < F ∧ u = it ++ u' ∧ k = k' + it.length ∧
      lexStr F' q u' = some k' ∧ Valid u' ∧ ((∃ out, Item q it out) ∨ Bad q it) := by
  have hqlt : q.toNat < 0x80 := by rcases hq with rfl | rfl <;> decide
  cases F with
  | zero => simp [lexStr] at h
  | succ F =>
  cases u with
  | nil => simp [lexStr] at h
  | cons c rest =>
  rcases rune_cases _ hv with h0 | ⟨c', r', h0, hc, _, hvr⟩ | ⟨w, hw1, hw2, hw3, hw4, _, _, _, hw8, _, hw10⟩
  · cases h0
  · injection h0 with hh1 hh2
    subst hh1 hh2
    by_cases hc92 : c = 92
    · subst hc92
      right
      cases rest with
      | nil => simp [lexStr] at h
      | cons e r =>
        rw [lexStr_esc] at h
        by_cases hs : simpleEsc q e = true
        · rw [if_pos hs] at h
          simp only [Option.map_eq_some_iff] at h
          obtain ⟨k', hk', rfl⟩ := h
          rcases simpleEsc_cases q e hs with rfl | ⟨x, hx⟩
          · exact ⟨[92, 0], r, k', F, by omega, rfl, rfl, hk', valid_drop_ascii 0 r (by decide) hvr,
              Or.inr (bad_nul q hq)⟩
          · exact ⟨[92, e], r, k', F, by omega, rfl, rfl, hk',
              valid_drop_ascii e r (simpleVal_ascii q e x hq hx).1 hvr, Or.inl ⟨_, Item.simple e x hx⟩⟩
        rw [if_neg hs] at h
        by_cases ho : (decide (48 ≤ e) && decide (e ≤ 55)) = true
        · rw [if_pos ho] at h
          by_cases hl : lexDigits 3 8 255 0 (e :: r) = true
          · rw [if_pos hl] at h
            simp only [Option.map_eq_some_iff] at h
            obtain ⟨k', hk', rfl⟩ := h
            obtain ⟨d1, d2, r', rfl, he, h1, h2, hv'⟩ := (lexDigits_oct e r).1 hl
            have hit := Item.oct (q := q) e d1 d2 he h1 h2 hv'
            exact ⟨[92, e, d1, d2], r', k', F, by omega, rfl, rfl, hk',
              (item_props q hq _ _ hit).2.2 r' hv, Or.inl ⟨_, hit⟩⟩
          · rw [if_neg hl] at h; cases h
        rw [if_neg ho] at h
        by_cases hx : (e == 120 || e == 88) = true
        · rw [if_pos hx] at h
          by_cases hl : lexDigits 2 16 255 0 r = true
          · rw [if_pos hl] at h
            simp only [Option.map_eq_some_iff] at h
            obtain ⟨k', hk', rfl⟩ := h
            obtain ⟨hlen, v, hvv, _⟩ := (lexDigits_hex 255 2 0 r).1 hl
            rcases r with _ | ⟨h1, _ | ⟨h2, r'⟩⟩
            · simp at hlen
            · simp at hlen
            · have hvv' : hexVal [h1, h2] = some v := by rw [hexVal_eq]; simpa using hvv
              have hit := Item.hex (q := q) h1 h2 v hvv'
              have hvr' : Valid r' := by
                have hd := hexVal_digits [h1, h2] v hvv'
                exact valid_drop_ascii h2 r' (hd h2 (by simp)).1 (valid_drop_ascii h1 _ (hd h1 (by simp)).1
                  (valid_drop_ascii e _ (by
                    simp only [Bool.or_eq_true, beq_iff_eq] at hx
                    rcases hx with rfl | rfl <;> decide) hvr))
              simp only [Bool.or_eq_true, beq_iff_eq] at hx
              rcases hx with rfl | rfl
              · exact ⟨[92, 120, h1, h2], r', k', F, by omega, rfl, rfl, hk', hvr', Or.inl ⟨_, hit⟩⟩
              · exact ⟨[92, 88, h1, h2], r', k', F, by omega, rfl, rfl, hk', hvr', Or.inr (bad_X q hq h1 h2)⟩
          · rw [if_neg hl] at h; cases h
        rw [if_neg hx] at h
        have uni : ∀ (n : Nat), (e = 117 ∧ n = 4 ∨ e = 85 ∧ n = 8) → lexDigits n 16 0x10FFFF 0 r = true →
            ∀ k', lexStr F q (r.drop n) = some k' → k = k' + (n + 2) →
            ∃ it u' k' F', F' < F + 1 ∧ 92 :: e :: r = it ++ u' ∧ k = k' + it.length ∧
              lexStr F' q u' = some k' ∧ Valid u' ∧ ((∃ out, Item q it out) ∨ Bad q it) := by
          intro n hen hl k' hk' hkk
          obtain ⟨hlen, v, hvv, hok⟩ := (lexDigits_hex 0x10FFFF n 0 r).1 hl
          have hvv' := hexfold_take n r v hlen hvv
          have hln : (r.take n).length = n := by simp [List.length_take, Nat.min_eq_left hlen]
          have hit := Item.uni (q := q) e (r.take n) v (by rw [hln]; exact hen) hvv' (by omega) (by omega)
          have hsplit : 92 :: e :: r = (92 :: e :: r.take n) ++ r.drop n := by simp
          refine ⟨92 :: e :: r.take n, r.drop n, k', F, by omega, hsplit, ?_, hk', ?_, Or.inl ⟨_, hit⟩⟩
          · simp [hln]; omega
          · apply (item_props q hq _ _ hit).2.2 (r.drop n)
            rw [← hsplit]; exact hv
        by_cases hu : (e == 117) = true
        · rw [if_pos hu] at h
          by_cases hl : lexDigits 4 16 0x10FFFF 0 r = true
          · rw [if_pos hl] at h
            simp only [Option.map_eq_some_iff] at h
            obtain ⟨k', hk', rfl⟩ := h
            exact uni 4 (Or.inl ⟨by simpa using hu, rfl⟩) hl k' hk' rfl
          · rw [if_neg hl] at h; cases h
        rw [if_neg hu] at h
        by_cases hU : (e == 85) = true
        · rw [if_pos hU] at h
          by_cases hl : lexDigits 8 16 0x10FFFF 0 r = true
          · rw [if_pos hl] at h
            simp only [Option.map_eq_some_iff] at h
            obtain ⟨k', hk', rfl⟩ := h
            exact uni 8 (Or.inr ⟨by simpa using hU, rfl⟩) hl k' hk' rfl
          · rw [if_neg hl] at h; cases h
        rw [if_neg hU] at h
        cases h
    · have hcl : ¬ (c ≥ 0x80) := by simp [UInt8.le_iff_toNat_le]; omega
      have hl : lexStr (F + 1) q (c :: rest) =
          if c == 10 then none else if c == q then some 1 else (lexStr F q rest).map (· + 1) := by
        simp only [lexStr]
        rw [if_neg hcl, if_neg (by simp [hc92])]
      rw [hl] at h
      by_cases h10 : (c == 10) = true
      · rw [if_pos h10] at h; cases h
      rw [if_neg h10] at h
      by_cases hcq : (c == q) = true
      · rw [if_pos hcq] at h
        left
        injection h with h
        exact ⟨rest, by rw [beq_iff_eq] at hcq; rw [hcq], h.symm⟩
      rw [if_neg hcq] at h
      right
      simp only [Option.map_eq_some_iff] at h
      obtain ⟨k', hk', rfl⟩ := h
      exact ⟨[c], rest, k', F, by omega, rfl, rfl, hk', hvr,
        Or.inl ⟨_, Item.plain c hc (by simpa using h10) (by simpa using hcq) hc92⟩⟩
  · right
    have hc : 0x80 ≤ c.toNat := hw8 c (by
      obtain ⟨w', rfl⟩ := Nat.exists_eq_succ_of_ne_zero (by omega : w ≠ 0)
      simp)
    have hcl : c ≥ 0x80 := by simp [UInt8.le_iff_toNat_le]; omega
    have hl : lexStr (F + 1) q (c :: rest) = (lexStr F q ((c :: rest).drop w)).map (· + w) := by
      simp only [lexStr]
      rw [if_pos hcl, hw4]
    rw [hl] at h
    simp only [Option.map_eq_some_iff] at h
    obtain ⟨k', hk', rfl⟩ := h
    have hwl := width_by_lead c rest hv
    rw [hw4] at hwl
    obtain ⟨w', rfl⟩ : ∃ w', w = w' + 1 := ⟨w - 1, by omega⟩
    have hlen : (c :: rest.take w').length = w' + 1 := by
      have : w' ≤ rest.length := by simpa using hw3
      simp [List.length_take, Nat.min_eq_left this]
    refine ⟨c :: rest.take w', (c :: rest).drop (w' + 1), k', F, by omega, ?_, by rw [hlen], hk', hw10,
      Or.inl ⟨_, Item.rune c _ (fun y hy => hw8 y hy) (by rw [hlen, hwl])⟩⟩
    simp


/-! ### one-line strings: the three functions agree -/

theorem unquoteLoop_cons (F : Nat) (c : UInt8) (s : Bytes) (q : UInt8) (acc : Bytes) :
    unquoteLoop (F + 1) (c :: s) q acc =
      match unquoteChar (c :: s) q with
      | none => none
      | some (b, rest) => unquoteLoop F rest q (acc ++ b) := rfl

theorem unquoteLoop_item (q : UInt8) (F : Nat) (it out x acc : Bytes) (hne : 1 ≤ it.length)
    (h : unquoteChar (it ++ x) q = some (out, x)) :
    unquoteLoop (F + 1) (it ++ x) q acc = unquoteLoop F x q (acc ++ out) := by
  cases it with
  | nil => simp at hne
  | cons c it' =>
    rw [List.cons_append] at h ⊢
    rw [unquoteLoop_cons, h]

/-- a well-formed body is accepted by the lexer (up to exactly its closing quote) and unquoted to
    its denotation -/
theorem body_sound (q : UInt8) (hq : q = 34 ∨ q = 39) : ∀ (n : Nat) (b : Bytes), b.length = n →
    ∀ (t : Bytes) (f : Nat) (v : Bytes), Valid (b ++ q :: t) → Denote.body f q b = some v →
    (∀ F, b.length + 1 + t.length < F → lexStr F q (b ++ q :: t) = some (b.length + 1)) ∧
    (∀ F acc, b.length < F → unquoteLoop F b q acc = some (acc ++ v)) ∧ (∀ c ∈ b, c ≠ 10) := by
  have hqlt : q.toNat < 0x80 := by rcases hq with rfl | rfl <;> decide
  intro n
  induction n using Nat.strongRecOn with
  | _ n ih =>
    intro b hn t f v hv hb
    rcases body_decomp q hq f b t v hv hb with ⟨rfl, rfl⟩ | ⟨it, out, b', v', f', _, hit, rfl, rfl, hb'⟩
    · refine ⟨?_, ?_, by simp⟩
      · intro F hF
        obtain ⟨F, rfl⟩ : ∃ F', F = F' + 1 := ⟨F - 1, by omega⟩
        have h1 : ¬ (q ≥ 0x80) := by simp [UInt8.le_iff_toNat_le]; omega
        have h2 : (q == 92) = false := by rcases hq with rfl | rfl <;> rfl
        have h3 : (q == 10) = false := by rcases hq with rfl | rfl <;> rfl
        simp [lexStr, h1, h2, h3]
      · intro F acc hF
        obtain ⟨F, rfl⟩ : ∃ F', F = F' + 1 := ⟨F - 1, by omega⟩
        simp [unquoteLoop]
    · obtain ⟨hl1, h10, hdrop⟩ := item_props q hq it out hit
      have hv1 : Valid (it ++ (b' ++ q :: t)) := by rw [← List.append_assoc]; exact hv
      have hv2 : Valid (b' ++ q :: t) := hdrop _ hv1
      have hv3 : Valid (it ++ b') := valid_prefix q t hqlt _ _ rfl hv
      have hlen : b'.length < n := by simp at hn; omega
      obtain ⟨i1, i2, i3⟩ := ih b'.length hlen b' rfl t f' v' hv2 hb'
      refine ⟨?_, ?_, ?_⟩
      · intro F hF
        obtain ⟨F, rfl⟩ : ∃ F', F = F' + 1 := ⟨F - 1, by omega⟩
        rw [List.append_assoc, item_lex q hq it out hit F _ hv1, i1 F (by simp at hF; omega)]
        simp; omega
      · intro F acc hF
        obtain ⟨F, rfl⟩ : ∃ F', F = F' + 1 := ⟨F - 1, by omega⟩
        rw [unquoteLoop_item q F it out b' acc hl1 (item_unq q hq it out hit b' hv3),
          i2 F _ (by simp at hF; omega)]
        simp
      · intro c hc
        rcases List.mem_append.1 hc with hc | hc
        · exact h10 c hc
        · exact i3 c hc

/-- what the lexer accepts and the unquoter then accepts is a well-formed body with that value -/
theorem lex_unq_body (q : UInt8) (hq : q = 34 ∨ q = 39) : ∀ (n : Nat) (u : Bytes), u.length = n → Valid u →
    ∀ (F k : Nat), lexStr F q u = some k →
    ∃ b t, u = b ++ q :: t ∧ k = b.length + 1 ∧
      ∀ (F' : Nat) (acc w : Bytes), b.length < F' → unquoteLoop F' b q acc = some w →
        ∃ v, w = acc ++ v ∧ ∀ f, b.length < f → Denote.body f q b = some v := by
  have hqlt : q.toNat < 0x80 := by rcases hq with rfl | rfl <;> decide
  intro n
  induction n using Nat.strongRecOn with
  | _ n ih =>
    intro u hn hv F k hl
    rcases lex_decomp q hq F u k hv hl with ⟨t, rfl, rfl⟩ | ⟨it, u', k', F', _, rfl, rfl, hl', hv', hitem⟩
    · refine ⟨[], t, rfl, rfl, ?_⟩
      intro F' acc w hF hu
      obtain ⟨F', rfl⟩ : ∃ F'', F' = F'' + 1 := ⟨F' - 1, by omega⟩
      simp [unquoteLoop] at hu
      refine ⟨[], by simp [hu], ?_⟩
      intro f hf
      obtain ⟨f, rfl⟩ : ∃ f', f = f' + 1 := ⟨f - 1, by omega⟩
      simp [Denote.body]
    · have hl1 : 1 ≤ it.length := by
        rcases hitem with ⟨out, hit⟩ | hbad
        · exact (item_props q hq it out hit).1
        · cases it with
          | nil =>
            exfalso
            have := hbad [65]
            rcases hq with rfl | rfl <;> simp [unquoteChar] at this
          | cons _ _ => simp
      obtain ⟨b', t, rfl, rfl, hrest⟩ := ih u'.length (by simp at hn; omega) u' rfl hv' F' k' hl'
      refine ⟨it ++ b', t, by simp, by simp; omega, ?_⟩
      intro F'' acc w hF hu
      obtain ⟨F'', rfl⟩ : ∃ F3, F'' = F3 + 1 := ⟨F'' - 1, by omega⟩
      rcases hitem with ⟨out, hit⟩ | hbad
      · have hv3 : Valid (it ++ b') := by
          apply valid_prefix q t hqlt _ _ rfl
          rw [List.append_assoc]; exact hv
        rw [unquoteLoop_item q F'' it out b' acc hl1 (item_unq q hq it out hit b' hv3)] at hu
        obtain ⟨v', rfl, hbody⟩ := hrest F'' _ w (by simp at hF; omega) hu
        refine ⟨out ++ v', by simp, ?_⟩
        intro f hf
        obtain ⟨kk, hk1, hk2, hkb⟩ := item_body q hq it out hit
        have : f = (f - kk) + kk := by simp at hf; omega
        rw [this, hkb, hbody (f - kk) (by simp at hf; omega)]
        rfl
      · exfalso
        cases it with
        | nil => simp at hl1
        | cons c it' =>
          have := hbad b'
          rw [List.cons_append] at this hu
          rw [unquoteLoop_cons, this] at hu
          cases hu


/-! ### one-line strings: `Unquote` against `denote` -/

theorem denote_quote_not3 (q : UInt8) (hq : q = 34 ∨ q = 39) (rest : Bytes)
    (h3 : (decide ((q :: rest).length ≥ 6) && (q :: rest).take 3 == [q, q, q]) = false) :
    Denote.denote (q :: rest) =
      if (decide ((q :: rest).length ≥ 2) && (q :: rest).getLastD 0 == q) = true then
        (if ((q :: rest).length == 3 && ((q :: rest).drop 1).take ((q :: rest).length - 2) == [q]) = true
          then none
         else Denote.body ((((q :: rest).drop 1).take ((q :: rest).length - 2)).length + 1) q
           (((q :: rest).drop 1).take ((q :: rest).length - 2)))
      else none := by
  rcases hq with rfl | rfl <;>
  · unfold Denote.denote
    dsimp only
    split
    · rename_i h; injection h with h; exact absurd h (by decide)
    · rename_i q' tail h
      injection h with h1 h2
      subst h1
      rw [if_neg (by decide), if_neg (by rw [h3]; decide)]
    · rename_i h; cases h

theorem denote_snoc (q : UInt8) (hq : q = 34 ∨ q = 39) (b : Bytes) (x : UInt8)
    (h3 : ((q :: (b ++ [x])).take 3 == [q, q, q]) = false) :
    Denote.denote (q :: (b ++ [x])) =
      if x == q then (if b == [q] then none else Denote.body (b.length + 1) q b) else none := by
  have hl : (q :: (b ++ [x])).getLastD 0 = x := by
    rw [List.getLastD_cons, List.getLastD_concat]
  have hn : (q :: (b ++ [x])).length = b.length + 2 := by simp
  have hb : ((q :: (b ++ [x])).drop 1).take (b.length + 2 - 2) = b := by simp
  have hqq : Denote.isQuote q = true := by rcases hq with rfl | rfl <;> rfl
  have hmatch := denote_quote_not3 q hq (b ++ [x]) (by rw [h3]; simp)
  rw [hmatch, hn, hl, hb]
  by_cases hx : x = q
  · subst hx
    simp only [beq_self_eq_true, Bool.and_true]
    rw [if_pos (by simp)]
    by_cases hbq : b = [x]
    · subst hbq; simp
    · have : (b == [x]) = false := by simpa using hbq
      simp [this]
  · have : (x == q) = false := by simpa using hx
    simp [this]

theorem unquote_oneline (q : UInt8) (hq : q = 34 ∨ q = 39) (b : Bytes) :
    unquote (q :: (b ++ [q])) =
      if b.contains 10 then none
      else if !b.contains 92 && !b.contains q then some b
      else unquoteLoop (b.length + 1) b q [] := by
  have hl : (q :: (b ++ [q])).getLastD 0 = q := by
    rw [List.getLastD_cons, List.getLastD_concat]
  have hb : ((q :: (b ++ [q])).drop 1).take ((q :: (b ++ [q])).length - 2) = b := by simp
  simp only [unquote, hl, hb]
  rw [if_neg (by simp), if_neg (by simp)]
  rcases hq with rfl | rfl <;> simp

theorem body_head_q (q : UInt8) (f : Nat) (r : Bytes) : Denote.body f q (q :: r) = none := by
  cases f <;> simp [Denote.body]

theorem implOf_str (q : UInt8) (hq : q = 34 ∨ q = 39) (r0 : Bytes) (hh : headIs q r0 = false)
    (hv : Valid (q :: r0)) : implOf (q :: r0) = Denote.denote (q :: r0) := by
  have hq96 : (q == 96) = false := by rcases hq with rfl | rfl <;> rfl
  have hqlt : q.toNat < 0x80 := by rcases hq with rfl | rfl <;> decide
  have hvr : Valid r0 := valid_drop_ascii q r0 hqlt hv
  have hft : firstTok (q :: r0) = (lexStr (r0.length + 1) q r0).map fun k => (Tok.STRING, k + 1) := by
    simp [firstTok, hq96, hh]
  have himpl : implOf (q :: r0) =
      match lexStr (r0.length + 1) q r0 with
      | some k => if k = r0.length then unquote (q :: r0) else none
      | none => none := by
    unfold implOf
    rw [hft]
    cases lexStr (r0.length + 1) q r0 with
    | none => rfl
    | some k =>
      simp only [Option.map_some, List.length_cons, Nat.add_right_cancel_iff, List.headD_cons]
      have : (q != 96) = true := by simp [bne, hq96]
      simp [this]
  rw [himpl]
  rcases eq_nil_or_snoc r0 with rfl | ⟨b, x, rfl⟩
  · have : Denote.denote [q] = none := by rcases hq with rfl | rfl <;> decide
    rw [this]; simp [lexStr]
  · have h3 : ((q :: (b ++ [x])).take 3 == [q, q, q]) = false := by
      cases b with
      | nil => simp
      | cons c b' =>
        have hc : (c == q) = false := by simpa [headIs] using hh
        have : c ≠ q := by simpa using hc
        simp [List.take, this]
    have hbq : (b == [q]) = false := by
      cases b with
      | nil => rfl
      | cons c b' =>
        have hc : (c == q) = false := by simpa [headIs] using hh
        have : c ≠ q := by simpa using hc
        simp [this]
    rw [denote_snoc q hq b x h3, hbq]
    simp only [Bool.false_eq_true, if_false]
    -- a well-formed body forces the lexer to accept exactly the whole spelling
    have key : ∀ v, x = q → Denote.body (b.length + 1) q b = some v →
        lexStr ((b ++ [x]).length + 1) q (b ++ [x]) = some (b ++ [x]).length := by
      intro v hx hbv
      have hvr' : Valid (b ++ [q]) := by rw [← hx]; exact hvr
      have := (body_sound q hq b.length b rfl [] (b.length + 1) v hvr' hbv).1 ((b ++ [q]).length + 1)
        (by simp)
      rw [hx, this]; simp
    cases hl : lexStr ((b ++ [x]).length + 1) q (b ++ [x]) with
    | none =>
      simp only
      by_cases hx : x = q
      · rw [if_pos (by simp [hx])]
        cases hbv : Denote.body (b.length + 1) q b with
        | none => rfl
        | some v => rw [key v hx hbv] at hl; cases hl
      · rw [if_neg (by simp [hx])]
    | some k =>
      simp only
      by_cases hk : k = (b ++ [x]).length
      · rw [if_pos hk]
        subst hk
        obtain ⟨b', t, hu, hk', hrest⟩ := lex_unq_body q hq _ (b ++ [x]) rfl hvr _ _ hl
        have ht : t = [] := by
          have := congrArg List.length hu
          simp at this hk'
          cases t with
          | nil => rfl
          | cons _ _ => simp at this; omega
        subst ht
        have hbx : b = b' ∧ x = q := by
          have := List.append_inj' hu (by simp)
          simpa using this
        obtain ⟨rfl, rfl⟩ := hbx
        rw [if_pos (by simp), unquote_oneline x hq b]
        cases hbv : Denote.body (b.length + 1) x b with
        | some v =>
          obtain ⟨_, i2, i3⟩ := body_sound x hq b.length b rfl [] (b.length + 1) v hvr hbv
          have h10 : b.contains 10 = false := by
            rw [Bool.eq_false_iff]; intro hc
            simp only [List.contains_iff_mem] at hc
            exact i3 10 hc rfl
          rw [h10]
          simp only [Bool.false_eq_true, if_false]
          split
          · rename_i hsc
            simp only [Bool.and_eq_true, Bool.not_eq_true', Bool.eq_false_iff, ne_eq,
              List.contains_iff_mem] at hsc
            have hp := plain_body x b (b.length + 1) (by
              intro c hc
              refine ⟨i3 c hc, ?_, ?_⟩
              · intro h; subst h; exact hsc.2 hc
              · intro h; subst h; exact hsc.1 hc) (by omega)
            rw [hp] at hbv
            exact hbv
          · have := i2 (b.length + 1) [] (by omega)
            simpa using this
        | none =>
          split
          · rfl
          · rename_i h10
            split
            · rename_i hsc
              exfalso
              simp only [Bool.and_eq_true, Bool.not_eq_true', Bool.eq_false_iff, ne_eq,
                List.contains_iff_mem] at hsc h10
              have hp := plain_body x b (b.length + 1) (by
                intro c hc
                refine ⟨?_, ?_, ?_⟩
                · intro h; subst h; exact h10 hc
                · intro h; subst h; exact hsc.2 hc
                · intro h; subst h; exact hsc.1 hc) (by omega)
              rw [hp] at hbv
              cases hbv
            · cases hu' : unquoteLoop (b.length + 1) b x [] with
              | none => rfl
              | some w =>
                exfalso
                obtain ⟨v, _, hbody⟩ := hrest (b.length + 1) [] w (by omega) hu'
                rw [hbody (b.length + 1) (by omega)] at hbv
                cases hbv
      · rw [if_neg hk]
        by_cases hx : x = q
        · rw [if_pos (by simp [hx])]
          cases hbv : Denote.body (b.length + 1) q b with
          | none => rfl
          | some v =>
            rw [key v hx hbv] at hl
            injection hl with hl
            exact absurd hl.symm hk
        · rw [if_neg (by simp [hx])]


/-- `qq` followed by something that is not the quote: the lexer scans the empty string `qq` -/
theorem implOf_empty (q : UInt8) (hq : q = 34 ∨ q = 39) (r1 : Bytes) (hh : headIs q r1 = false) :
    implOf (q :: q :: r1) = Denote.denote (q :: q :: r1) := by
  have hq96 : (q == 96) = false := by rcases hq with rfl | rfl <;> rfl
  have hft : firstTok (q :: q :: r1) = some (Tok.STRING, 2) := by
    have h1 : headIs q (q :: r1) = true := by simp [headIs]
    simp only [firstTok, hq96, Bool.false_eq_true, if_false]
    rw [if_pos h1]
    simp only [List.drop_succ_cons, List.drop_zero]
    rw [if_neg (by rw [hh]; simp)]
  unfold implOf
  rw [hft]
  cases r1 with
  | nil => rcases hq with rfl | rfl <;> decide
  | cons c r1' =>
    have hc : c ≠ q := by
      have : (c == q) = false := by simpa [headIs] using hh
      simpa using this
    simp only [List.length_cons]
    rw [if_neg (by omega)]
    rcases eq_nil_or_snoc (c :: r1') with h | ⟨b2, x, hbx⟩
    · cases h
    · have hs : q :: q :: c :: r1' = q :: ((q :: b2) ++ [x]) := by rw [hbx]; rfl
      rw [hs]
      have h3 : ((q :: ((q :: b2) ++ [x])).take 3 == [q, q, q]) = false := by
        rw [← hs]; simp [List.take, hc]
      rw [denote_snoc q hq (q :: b2) x h3]
      split
      · split
        · rfl
        · rw [body_head_q]
      · rfl

/-- **C07, pure form**: what the implementation makes of a valid string-shaped spelling is what it denotes -/
theorem implOf_eq_denote (s : Bytes) (hv : Valid s) (c0 : UInt8) (r0 : Bytes) (hs : s = c0 :: r0)
    (hq : c0 = 34 ∨ c0 = 39 ∨ c0 = 96) : implOf s = Denote.denote s := by
  subst hs
  by_cases h96 : c0 = 96
  · subst h96; exact implOf_bq r0
  have hq' : c0 = 34 ∨ c0 = 39 := by
    rcases hq with h | h | h
    · exact Or.inl h
    · exact Or.inr h
    · exact absurd h h96
  cases hh : headIs c0 r0 with
  | false => exact implOf_str c0 hq' r0 hh hv
  | true =>
    cases r0 with
    | nil => simp [headIs] at hh
    | cons c1 r1 =>
      have : c1 = c0 := by simpa [headIs] using hh
      subst this
      cases hh2 : headIs c1 r1 with
      | false => exact implOf_empty c1 hq' r1 hh2
      | true =>
        cases r1 with
        | nil => simp [headIs] at hh2
        | cons c2 r2 =>
          have : c2 = c1 := by simpa [headIs] using hh2
          subst this
          exact implOf_triple c2 hq' r2 hv

end Platypus.Lit
