import Platypus.Proofs.ElabInv
/-!
# Front end, helper 6: the numbering of call expressions

`sitesOf x`: the `site` fields of the call nodes of `x` in the order in which `toNode` walks the tree
(a call's own site first, then its arguments; children left to right).  `toNode_sitesAux`: elaborating
with the counter at `n` yields exactly the sites `n+1, …, n'` where `n'` is the returned counter.
-/
set_option linter.unusedVariables false
namespace Platypus.FrontEnd
open Platypus Platypus.Elab Platypus.ParsePos Platypus.Parse

mutual
def sitesOf : Node → List Nat
  | .ident _ _ => []
  | .strLit _ _ => []
  | .intLit _ _ => []
  | .floatLit _ _ => []
  | .boolLit _ _ => []
  | .nilLit _ => []
  | .list xs _ _ => sitesOfL xs
  | .map kvs _ _ => sitesOfKV kvs
  | .paren e _ _ => sitesOf e
  | .attr o a _ => sitesOfO o ++ sitesOfO a
  | .index _ idx _ _ => sitesOfL idx
  | .unary _ e _ => sitesOf e
  | .arith _ l r _ => sitesOf l ++ sitesOf r
  | .cond _ l r _ => sitesOf l ++ sitesOf r
  | .inE l r _ => sitesOf l ++ sitesOf r
  | .assign _ l r _ => sitesOfL l ++ sitesOfL r
  | .call _ args _ _ _ site => site :: sitesOfL args
  | .slice o a b c _ _ _ => sitesOf o ++ (sitesOfO a ++ (sitesOfO b ++ sitesOfO c))
  | .ifelse ifs els _ => sitesOfIfs ifs ++ sitesOfOB els
  | .forS i c l b _ => sitesOfO i ++ (sitesOfO c ++ (sitesOfO l ++ sitesOfOB b))
  | .forIn v it b _ _ => sitesOf v ++ (sitesOf it ++ sitesOfOB b)
  | .brk _ => []
  | .cont _ => []
def sitesOfL : List Node → List Nat
  | [] => []
  | x :: r => sitesOf x ++ sitesOfL r
def sitesOfO : Option Node → List Nat
  | none => []
  | some x => sitesOf x
def sitesOfKV : List (Node × Node) → List Nat
  | [] => []
  | (k, v) :: r => sitesOf k ++ (sitesOf v ++ sitesOfKV r)
def sitesOfOB : Option (List Node) → List Nat
  | none => []
  | some b => sitesOfL b
def sitesOfIfs : List (Node × Option (List Node) × Pos) → List Nat
  | [] => []
  | (c, b, _) :: r => sitesOf c ++ (sitesOfOB b ++ sitesOfIfs r)
end


/-- `l` is the run `n+1, …, n'` -/
def Seg (l : List Nat) (n n' : Nat) : Prop := n ≤ n' ∧ l = List.range' (n + 1) (n' - n)

theorem Seg.nil (n : Nat) : Seg [] n n := ⟨Nat.le_refl _, by simp⟩

theorem Seg.append {a b : List Nat} {n n1 n2 : Nat} (ha : Seg a n n1) (hb : Seg b n1 n2) :
    Seg (a ++ b) n n2 := by
  obtain ⟨h1, rfl⟩ := ha
  obtain ⟨h2, rfl⟩ := hb
  refine ⟨by omega, ?_⟩
  have e : n1 + 1 = (n + 1) + (n1 - n) := by omega
  rw [e, List.range'_append_1]
  congr 1; omega

theorem Seg.cons {l : List Nat} {n n' : Nat} (h : Seg l (n + 1) n') : Seg ((n + 1) :: l) n n' := by
  have : Seg [n + 1] n (n + 1) := ⟨by omega, by simp⟩
  exact this.append h

theorem sitesOf_numNode {c neg v p x} (h : numNode c neg v p = some x) : sitesOf x = [] := by
  unfold numNode at h
  split at h
  · cases h; rfl
  · split at h
    · cases h; rfl
    · cases h
  · cases h

theorem sitesOf_mkBinNode (op l r p) : sitesOf (mkBinNode op l r p) = sitesOf l ++ sitesOf r := by
  cases op <;> simp only [mkBinNode, sitesOf]

mutual
theorem toNode_sitesAux (c : Cfg) : ∀ (p : PP) (n : Nat) (x : Node) (n' : Nat),
    toNode c p n = some (x, n') → Seg (sitesOf x) n n'
  | .ident q v p, n, x, n', h => by
    obtain ⟨nm, _, rfl, rfl⟩ := toNode_ident_inv h; exact Seg.nil _
  | .num neg v p k, n, x, n', h => by
    obtain ⟨h1, rfl⟩ := toNode_num_inv h; rw [sitesOf_numNode h1]; exact Seg.nil _
  | .str m v p, n, x, n', h => by
    obtain ⟨b, _, rfl, rfl⟩ := toNode_str_inv h; exact Seg.nil _
  | .bool b p, n, x, n', h => by
    obtain ⟨rfl, rfl⟩ := toNode_bool_inv h; exact Seg.nil _
  | .nil p k, n, x, n', h => by
    obtain ⟨rfl, rfl⟩ := toNode_nil_inv h; exact Seg.nil _
  | .list xs lb rb, n, x, n', h => by
    obtain ⟨ys, h1, rfl⟩ := toNode_list_inv h
    simp only [sitesOf]; exact toNodes_sitesAux c xs n ys n' h1
  | .map kvs lb rb, n, x, n', h => by
    obtain ⟨ys, h1, rfl⟩ := toNode_map_inv h
    simp only [sitesOf]; exact toNodeKV_sitesAux c kvs n ys n' h1
  | .paren e lp rp, n, x, n', h => by
    obtain ⟨y, h1, rfl⟩ := toNode_paren_inv h
    simp only [sitesOf]; exact toNode_sitesAux c e n y n' h1
  | .attr o a p, n, x, n', h => by
    obtain ⟨y, n1, z, h1, h2, rfl⟩ := toNode_attr_inv h
    simp only [sitesOf, sitesOfO]
    exact (toNode_sitesAux c o n y n1 h1).append (toNode_sitesAux c a n1 z n' h2)
  | .index obj idx lbs rbs, n, x, n', h => by
    obtain ⟨o, ys, _, h1, rfl⟩ := toNode_index_inv h
    simp only [sitesOf]; exact toNodes_sitesAux c idx n ys n' h1
  | .unary op e p, n, x, n', h => by
    obtain ⟨y, h1, rfl⟩ := toNode_unary_inv h
    simp only [sitesOf]; exact toNode_sitesAux c e n y n' h1
  | .bin op l r p, n, x, n', h => by
    obtain ⟨y, n1, z, h1, h2, rfl⟩ := toNode_bin_inv h
    rw [sitesOf_mkBinNode]
    exact (toNode_sitesAux c l n y n1 h1).append (toNode_sitesAux c r n1 z n' h2)
  | .assign op l r p, n, x, n', h => by
    obtain ⟨ys, n1, zs, h1, h2, rfl⟩ := toNode_assign_inv h
    simp only [sitesOf]
    exact (toNodes_sitesAux c l n ys n1 h1).append (toNodes_sitesAux c r n1 zs n' h2)
  | .call q v args np lp rp, n, x, n', h => by
    obtain ⟨nm, ys, _, h1, rfl⟩ := toNode_call_inv h
    simp only [sitesOf]
    exact (toNodes_sitesAux c args (n+1) ys n' h1).cons
  | .slice o a b s c2 lb rb, n, x, n', h => by
    obtain ⟨y, n1, a', n2, b', n3, s', h0, h1, h2, h3, rfl⟩ := toNode_slice_inv h
    simp only [sitesOf]
    exact (toNode_sitesAux c o n y n1 h0).append ((toNodeO_sitesAux c a n1 a' n2 h1).append
      ((toNodeO_sitesAux c b n2 b' n3 h2).append (toNodeO_sitesAux c s n3 s' n' h3)))
  | .ifelse ifs none, n, x, n', h => by
    obtain ⟨is, h1, rfl⟩ := toNode_ifelse_none_inv h
    simp only [sitesOf, sitesOfOB, List.append_nil]
    exact toNodeIfs_sitesAux c ifs n is n' h1
  | .ifelse ifs (some (ep, b)), n, x, n', h => by
    obtain ⟨is, n1, bs, h1, h2, rfl⟩ := toNode_ifelse_some_inv h
    simp only [sitesOf, sitesOfOB]
    exact (toNodeIfs_sitesAux c ifs n is n1 h1).append (toNodes_sitesAux c b n1 bs n' h2)
  | .forS i cd l b p, n, x, n', h => by
    obtain ⟨i', n1, c', n2, l', n3, b', h0, h1, h2, h3, rfl⟩ := toNode_forS_inv h
    simp only [sitesOf, sitesOfOB]
    exact (toNodeO_sitesAux c i n i' n1 h0).append ((toNodeO_sitesAux c cd n1 c' n2 h1).append
      ((toNodeO_sitesAux c l n2 l' n3 h2).append (toNodes_sitesAux c b n3 b' n' h3)))
  | .forIn v it b fp ip, n, x, n', h => by
    obtain ⟨v', n1, it', n2, b', h0, h1, h2, rfl⟩ := toNode_forIn_inv h
    simp only [sitesOf, sitesOfOB]
    exact (toNode_sitesAux c v n v' n1 h0).append ((toNode_sitesAux c it n1 it' n2 h1).append
      (toNodes_sitesAux c b n2 b' n' h2))
  | .brk p, n, x, n', h => by obtain ⟨rfl, rfl⟩ := toNode_brk_inv h; exact Seg.nil _
  | .cont p, n, x, n', h => by obtain ⟨rfl, rfl⟩ := toNode_cont_inv h; exact Seg.nil _

theorem toNodes_sitesAux (c : Cfg) : ∀ (ps : List PP) (n : Nat) (xs : List Node) (n' : Nat),
    toNodes c ps n = some (xs, n') → Seg (sitesOfL xs) n n'
  | [], n, xs, n', h => by
    obtain ⟨rfl, rfl⟩ := toNodes_nil_inv h; exact Seg.nil _
  | p :: r, n, xs, n', h => by
    obtain ⟨y, n1, ys, h1, h2, rfl⟩ := toNodes_cons_inv h
    simp only [sitesOfL]
    exact (toNode_sitesAux c p n y n1 h1).append (toNodes_sitesAux c r n1 ys n' h2)

theorem toNodeO_sitesAux (c : Cfg) : ∀ (o : Option PP) (n : Nat) (o' : Option Node) (n' : Nat),
    toNodeO c o n = some (o', n') → Seg (sitesOfO o') n n'
  | none, n, o', n', h => by
    obtain ⟨rfl, rfl⟩ := toNodeO_none_inv h; exact Seg.nil _
  | some p, n, o', n', h => by
    obtain ⟨y, h1, rfl⟩ := toNodeO_some_inv h
    simp only [sitesOfO]
    exact toNode_sitesAux c p n y n' h1

theorem toNodeKV_sitesAux (c : Cfg) : ∀ (kvs : List (PP × PP)) (n : Nat) (xs : List (Node × Node)) (n' : Nat),
    toNodeKV c kvs n = some (xs, n') → Seg (sitesOfKV xs) n n'
  | [], n, xs, n', h => by
    obtain ⟨rfl, rfl⟩ := toNodeKV_nil_inv h; exact Seg.nil _
  | (k, v) :: r, n, xs, n', h => by
    obtain ⟨k', n1, v', n2, ys, h1, h2, h3, rfl⟩ := toNodeKV_cons_inv h
    simp only [sitesOfKV]
    exact (toNode_sitesAux c k n k' n1 h1).append ((toNode_sitesAux c v n1 v' n2 h2).append
      (toNodeKV_sitesAux c r n2 ys n' h3))

theorem toNodeIfs_sitesAux (c : Cfg) : ∀ (ifs : List (Nat × PP × List PP)) (n : Nat)
    (xs : List (Node × Option (List Node) × Pos)) (n' : Nat),
    toNodeIfs c ifs n = some (xs, n') → Seg (sitesOfIfs xs) n n'
  | [], n, xs, n', h => by
    obtain ⟨rfl, rfl⟩ := toNodeIfs_nil_inv h; exact Seg.nil _
  | (p, cd, b) :: r, n, xs, n', h => by
    obtain ⟨c', n1, b', n2, ys, h1, h2, h3, rfl⟩ := toNodeIfs_cons_inv h
    simp only [sitesOfIfs, sitesOfOB]
    exact (toNode_sitesAux c cd n c' n1 h1).append ((toNodes_sitesAux c b n1 b' n2 h2).append
      (toNodeIfs_sitesAux c r n2 ys n' h3))
end

end Platypus.FrontEnd
