import Platypus.Model.Check
/-!
Helper lemmas for C08 (soundness and completeness of the load-time check pass).

* the `CM` monad pointwise (`bind_ok`, `pure_ok`, …) and inversion of the two node kinds whose
  equations post-process the result (`list_ok`, `call_ok`) or read the state (`brk_ok`, `cont_ok`);
* `LoopsInv`: the function checkers leave the loop counter alone; under it the whole pass
  preserves the loop counter (`loops_node`, …);
* `AccAt d m`: "the pass `m` accepts in some state at loop depth `d`", with one *inversion step
  lemma* per equation of the pass (`acc_…`): acceptance of a node gives acceptance of every child,
  at the child's loop depth — used for soundness;
* `Tr d d' m`: "from depth `d` the pass `m` either runs out of fuel or accepts and ends at depth
  `d'`", with one *composition step lemma* per equation of the pass (`tr_…`) — used for completeness.
-/
namespace Platypus.CheckProofs
open Platypus

/-! ### the monad, pointwise -/

theorem bind_apply {α β} (a : CM α) (g : α → CM β) (s : CheckSt) :
    (a >>= g) s = match a s with
      | .ok x s1 => g x s1 | .err e => .err e | .fuel => .fuel | .need q => .need q := rfl

/-- a sequence accepts iff both steps accept -/
theorem bind_ok {a : CM Unit} {g : Unit → CM Unit} {s s' : CheckSt} :
    (a >>= g) s = .ok () s' ↔ ∃ s1, a s = .ok () s1 ∧ g () s1 = .ok () s' := by
  rw [bind_apply]
  cases a s <;> simp

theorem pure_ok {s s' : CheckSt} : (pure () : CM Unit) s = .ok () s' ↔ s' = s := by
  show CRes.ok () s = _ ↔ _
  constructor <;> intro h
  · injection h with _ h; exact h.symm
  · rw [h]

theorem cErr_ok {file p m} {s s' : CheckSt} : (cErr file p m : CM Unit) s = .ok () s' ↔ False := by
  simp [cErr]

theorem cFuel_ok {s s' : CheckSt} : (cFuel : CM Unit) s = .ok () s' ↔ False := by
  simp [cFuel]

theorem cMod_ok {g} {s s' : CheckSt} : cMod g s = .ok () s' ↔ s' = g s := by
  simp [cMod, eq_comm]

theorem cGet_bind {α} {g : CheckSt → CM α} {s : CheckSt} : (cGet >>= g) s = g s s := rfl

theorem ite_app {α} {c : Prop} [Decidable c] (a b : CM α) (s : CheckSt) :
    (if c then a else b) s = if c then a s else b s := by split <;> rfl

/-- unfold the pass one step and invert every `do` block whose result is `.ok` -/
macro "chk_inv" " at " h:ident : tactic =>
  `(tactic| simp only [checkNode, checkNodes, checkOpt, checkOptBlock, checkMap, checkIfs,
      bind_ok, cPush, cPop, cMod_ok, pure_ok, cErr_ok, cFuel_ok, exists_eq_left, false_and,
      exists_false, ite_app, if_false_left, if_false_right, Bool.not_eq_true] at $h:ident)

variable {file : Bytes} {registered : Bytes → Bool} {fcheck : CallInfo → Option (CM Unit)}

/-! ### inversion of the equations that are not plain `do` blocks -/

theorem call_ok {f name args np lp rp site} {s s' : CheckSt} :
    checkNode file registered fcheck (f+1) (.call name args np lp rp site) s = .ok () s' ↔
    registered name = true ∧ ∃ s1, checkNodes file registered fcheck f args s = .ok () s1 ∧
      ∃ chk, fcheck ⟨name, args, np, site⟩ = some chk ∧ chk s1 = .ok () s' := by
  simp only [checkNode, ite_app]
  cases hr : registered name <;> simp [cErr_ok]
  cases hn : checkNodes file registered fcheck f args s <;> simp
  cases hc : fcheck ⟨name, args, np, site⟩ <;> simp

theorem list_ok {f xs lb rb} {s s' : CheckSt} :
    checkNode file registered fcheck (f+1) (.list xs lb rb) s = .ok () s' ↔
    checkNodes file registered fcheck f xs s = .ok () s' := by
  simp only [checkNode]
  cases hn : checkNodes file registered fcheck f xs s <;> simp

theorem brk_ok {f p} {s s' : CheckSt} :
    checkNode file registered fcheck (f+1) (.brk p) s = .ok () s' ↔ s.loops ≠ 0 ∧ s' = s := by
  simp only [checkNode, cGet_bind, ite_app]
  split <;> simp [cErr_ok, pure_ok, *]

theorem cont_ok {f p} {s s' : CheckSt} :
    checkNode file registered fcheck (f+1) (.cont p) s = .ok () s' ↔ s.loops ≠ 0 ∧ s' = s := by
  simp only [checkNode, cGet_bind, ite_app]
  split <;> simp [cErr_ok, pure_ok, *]

theorem map_cons_ok {f k v r} {s s' : CheckSt} :
    checkMap file registered fcheck (f+1) ((k, v) :: r) s = .ok () s' ↔
    isMapKeyLit k = false ∧ ∃ s1, checkNode file registered fcheck f k s = .ok () s1 ∧
      ∃ s2, checkNode file registered fcheck f v s1 = .ok () s2 ∧
        checkMap file registered fcheck f r s2 = .ok () s' := by
  simp only [checkMap]
  cases isMapKeyLit k <;> simp [bind_ok, cErr_ok]

/-! ### the loop counter -/

/-- the function checkers do not touch the loop counter (`ctxCheck.forstmt`) -/
def LoopsInv (fcheck : CallInfo → Option (CM Unit)) : Prop :=
  ∀ c chk s s', fcheck c = some chk → chk s = .ok () s' → s'.loops = s.loops

variable (file registered fcheck) in
def LoopsAll (f : Nat) : Prop :=
  (∀ n s s', checkNode file registered fcheck f n s = .ok () s' → s'.loops = s.loops) ∧
  (∀ n s s', checkNodes file registered fcheck f n s = .ok () s' → s'.loops = s.loops) ∧
  (∀ n s s', checkOpt file registered fcheck f n s = .ok () s' → s'.loops = s.loops) ∧
  (∀ n s s', checkOptBlock file registered fcheck f n s = .ok () s' → s'.loops = s.loops) ∧
  (∀ n s s', checkMap file registered fcheck f n s = .ok () s' → s'.loops = s.loops) ∧
  (∀ n s s', checkIfs file registered fcheck f n s = .ok () s' → s'.loops = s.loops)

/-- the pass restores the loop counter (`loops + 1 … - 1` around loop bodies) -/
theorem loopsAll (H : LoopsInv fcheck) : ∀ f, LoopsAll file registered fcheck f := by
  intro f
  induction f with
  | zero =>
    simp [LoopsAll, checkNode, checkNodes, checkOpt, checkOptBlock, checkMap, checkIfs, cFuel_ok]
  | succ f ih =>
    obtain ⟨ihn, ihl, iho, ihb, ihm, ihi⟩ := ih
    refine ⟨?_, ?_, ?_, ?_, ?_, ?_⟩
    · intro n s s' h
      cases n
      case call =>
        rw [call_ok] at h
        obtain ⟨_, s1, h1, chk, hc, h2⟩ := h
        rw [H _ _ _ _ hc h2, ihl _ _ _ h1]
      case list => rw [list_ok] at h; exact ihl _ _ _ h
      case brk => rw [brk_ok] at h; rw [h.2]
      case cont => rw [cont_ok] at h; rw [h.2]
      case forIn var _ _ _ _ =>
        cases var <;> chk_inv at h
        grind
      all_goals
        chk_inv at h
        grind
    · intro n s s' h
      cases n <;> chk_inv at h <;> grind
    · intro n s s' h
      cases n <;> chk_inv at h <;> grind
    · intro n s s' h
      cases n <;> chk_inv at h <;> grind
    · intro n s s' h
      rcases n with _ | ⟨⟨k, v⟩, r⟩
      · chk_inv at h; grind
      · rw [map_cons_ok] at h; grind
    · intro n s s' h
      rcases n with _ | ⟨⟨c, b, p⟩, r⟩ <;> chk_inv at h <;> grind

section
variable (H : LoopsInv fcheck) {f : Nat} {s s' : CheckSt}
include H
theorem loops_node {n} (h : checkNode file registered fcheck f n s = .ok () s') :
    s'.loops = s.loops := (loopsAll H f).1 n s s' h
theorem loops_nodes {n} (h : checkNodes file registered fcheck f n s = .ok () s') :
    s'.loops = s.loops := (loopsAll H f).2.1 n s s' h
theorem loops_opt {n} (h : checkOpt file registered fcheck f n s = .ok () s') :
    s'.loops = s.loops := (loopsAll H f).2.2.1 n s s' h
theorem loops_optBlock {n} (h : checkOptBlock file registered fcheck f n s = .ok () s') :
    s'.loops = s.loops := (loopsAll H f).2.2.2.1 n s s' h
theorem loops_map {n} (h : checkMap file registered fcheck f n s = .ok () s') :
    s'.loops = s.loops := (loopsAll H f).2.2.2.2.1 n s s' h
theorem loops_ifs {n} (h : checkIfs file registered fcheck f n s = .ok () s') :
    s'.loops = s.loops := (loopsAll H f).2.2.2.2.2 n s s' h
end

/-! ### soundness: acceptance of a node gives acceptance of its children -/

variable (fcheck) in
/-- the pass `m` accepts in some state; that state is at loop depth `d` (the depth is only known
    when the checkers leave the loop counter alone) -/
def AccAt (d : Nat) (m : CM Unit) : Prop :=
  ∃ s s', m s = .ok () s' ∧ (LoopsInv fcheck → s.loops = d)

theorem AccAt.of_ok {m : CM Unit} {s s' : CheckSt} (h : m s = .ok () s') : AccAt fcheck s.loops m :=
  ⟨s, s', h, fun _ => rfl⟩

/-- close the depth side conditions of the `acc_…` lemmas -/
macro "acc_depth" : tactic =>
  `(tactic| (intro H; grind [→ loops_node, → loops_nodes, → loops_opt, → loops_optBlock, → loops_map, → loops_ifs]))

section
variable {f d : Nat}

local notation "cN" => checkNode file registered fcheck
local notation "cL" => checkNodes file registered fcheck
local notation "cO" => checkOpt file registered fcheck
local notation "cB" => checkOptBlock file registered fcheck
local notation "cM" => checkMap file registered fcheck
local notation "cI" => checkIfs file registered fcheck
local notation "Acc" => AccAt fcheck

theorem acc_node_zero {n} : ¬ Acc d (cN 0 n) := by
  rintro ⟨s, s', h, _⟩; chk_inv at h
theorem acc_nodes_zero {n} : ¬ Acc d (cL 0 n) := by
  rintro ⟨s, s', h, _⟩; chk_inv at h
theorem acc_opt_zero {n} : ¬ Acc d (cO 0 n) := by
  rintro ⟨s, s', h, _⟩; chk_inv at h
theorem acc_optBlock_zero {n} : ¬ Acc d (cB 0 n) := by
  rintro ⟨s, s', h, _⟩; chk_inv at h
theorem acc_map_zero {n} : ¬ Acc d (cM 0 n) := by
  rintro ⟨s, s', h, _⟩; chk_inv at h
theorem acc_ifs_zero {n} : ¬ Acc d (cI 0 n) := by
  rintro ⟨s, s', h, _⟩; chk_inv at h

theorem acc_list {xs lb rb} (h : Acc d (cN (f+1) (.list xs lb rb))) : Acc d (cL f xs) := by
  obtain ⟨s, s', h, hd⟩ := h
  rw [list_ok] at h
  exact ⟨s, s', h, hd⟩

theorem acc_map {kvs lb rb} (h : Acc d (cN (f+1) (.map kvs lb rb))) : Acc d (cM f kvs) := by
  obtain ⟨s, s', h, hd⟩ := h
  chk_inv at h
  exact ⟨s, s', h, hd⟩

theorem acc_paren {e lp rp} (h : Acc d (cN (f+1) (.paren e lp rp))) : Acc d (cN f e) := by
  obtain ⟨s, s', h, hd⟩ := h
  chk_inv at h
  exact ⟨s, s', h, hd⟩

theorem acc_unary {op e p} (h : Acc d (cN (f+1) (.unary op e p))) : Acc d (cN f e) := by
  obtain ⟨s, s', h, hd⟩ := h
  chk_inv at h
  exact ⟨s, s', h, hd⟩

theorem acc_index {o idx lbs rbs} (h : Acc d (cN (f+1) (.index o idx lbs rbs))) : Acc d (cL f idx) := by
  obtain ⟨s, s', h, hd⟩ := h
  chk_inv at h
  exact ⟨s, s', h, hd⟩

theorem acc_attr {o a p} (h : Acc d (cN (f+1) (.attr o a p))) : Acc d (cO f o) ∧ Acc d (cO f a) := by
  obtain ⟨s, s', h, hd⟩ := h
  chk_inv at h
  obtain ⟨s1, h1, h2⟩ := h
  refine ⟨⟨_, _, h1, hd⟩, ⟨_, _, h2, ?_⟩⟩
  acc_depth

theorem acc_inE {l r p} (h : Acc d (cN (f+1) (.inE l r p))) : Acc d (cN f l) ∧ Acc d (cN f r) := by
  obtain ⟨s, s', h, hd⟩ := h
  chk_inv at h
  obtain ⟨s1, h1, h2⟩ := h
  refine ⟨⟨_, _, h2, ?_⟩, ⟨_, _, h1, hd⟩⟩
  acc_depth

theorem acc_arith {op l r p} (h : Acc d (cN (f+1) (.arith op l r p))) : Acc d (cN f l) ∧ Acc d (cN f r) := by
  obtain ⟨s, s', h, hd⟩ := h
  chk_inv at h
  obtain ⟨s1, h1, h2⟩ := h
  refine ⟨⟨_, _, h1, hd⟩, ⟨_, _, h2, ?_⟩⟩
  acc_depth

theorem acc_cond {op l r p} (h : Acc d (cN (f+1) (.cond op l r p))) : Acc d (cN f l) ∧ Acc d (cN f r) := by
  obtain ⟨s, s', h, hd⟩ := h
  chk_inv at h
  obtain ⟨s1, h1, h2⟩ := h
  refine ⟨⟨_, _, h1, hd⟩, ⟨_, _, h2, ?_⟩⟩
  acc_depth

theorem acc_assign {op l r p} (h : Acc d (cN (f+1) (.assign op l r p))) : Acc d (cL f l) ∧ Acc d (cL f r) := by
  obtain ⟨s, s', h, hd⟩ := h
  chk_inv at h
  obtain ⟨s1, h1, h2⟩ := h
  refine ⟨⟨_, _, h1, hd⟩, ⟨_, _, h2, ?_⟩⟩
  acc_depth

/-- an accepted call names a registered function whose checker exists and accepted it -/
theorem acc_call {name args np lp rp site} (h : Acc d (cN (f+1) (.call name args np lp rp site))) :
    registered name = true ∧
    (∃ chk s s', fcheck ⟨name, args, np, site⟩ = some chk ∧ chk s = .ok () s') ∧
    Acc d (cL f args) := by
  obtain ⟨s, s', h, hd⟩ := h
  rw [call_ok] at h
  obtain ⟨hr, s1, h1, chk, hc, h2⟩ := h
  exact ⟨hr, ⟨chk, s1, s', hc, h2⟩, ⟨_, _, h1, hd⟩⟩

theorem acc_slice {o a b c c2 lb rb} (h : Acc d (cN (f+1) (.slice o a b c c2 lb rb))) :
    Acc d (cN f o) ∧ Acc d (cO f a) ∧ Acc d (cO f b) ∧ Acc d (cO f c) := by
  obtain ⟨s, s', h, hd⟩ := h
  chk_inv at h
  obtain ⟨s1, h1, s2, h2, s3, h3, h4⟩ := h
  refine ⟨⟨_, _, h1, hd⟩, ⟨_, _, h2, ?_⟩, ⟨_, _, h3, ?_⟩, ⟨_, _, h4, ?_⟩⟩ <;> acc_depth

theorem acc_ifelse {ifs els p} (h : Acc d (cN (f+1) (.ifelse ifs els p))) :
    Acc d (cI f ifs) ∧ Acc d (cB f els) := by
  obtain ⟨s, s', h, hd⟩ := h
  chk_inv at h
  obtain ⟨s1, h1, s2, h2, h3⟩ := h
  refine ⟨⟨_, _, h1, ?_⟩, ⟨_, _, h2, ?_⟩⟩ <;> acc_depth

/-- the body and the post statement of a `for` are checked one loop deeper -/
theorem acc_forS {ini c l body p} (h : Acc d (cN (f+1) (.forS ini c l body p))) :
    Acc d (cO f ini) ∧ Acc d (cO f c) ∧ Acc (d+1) (cB f body) ∧ Acc (d+1) (cO f l) := by
  obtain ⟨s, s', h, hd⟩ := h
  chk_inv at h
  obtain ⟨s1, h1, s2, h2, s3, h3, s4, h4, h5⟩ := h
  refine ⟨⟨_, _, h1, ?_⟩, ⟨_, _, h2, ?_⟩, ⟨_, _, h3, ?_⟩, ⟨_, _, h4, ?_⟩⟩ <;> acc_depth

theorem acc_forIn {var iter body fp ip} (h : Acc d (cN (f+1) (.forIn var iter body fp ip))) :
    (∃ nm p, var = .ident nm p) ∧ Acc d (cN f iter) ∧ Acc (d+1) (cB f body) := by
  obtain ⟨s, s', h, hd⟩ := h
  cases var <;> chk_inv at h
  obtain ⟨s1, h1, s2, h2, h3⟩ := h
  refine ⟨⟨_, _, rfl⟩, ⟨_, _, h1, ?_⟩, ⟨_, _, h2, ?_⟩⟩ <;> acc_depth

theorem acc_brk {p} (h : Acc d (cN (f+1) (.brk p))) : LoopsInv fcheck → d > 0 := by
  obtain ⟨s, s', h, hd⟩ := h
  rw [brk_ok] at h
  intro H; have := hd H; omega

theorem acc_cont {p} (h : Acc d (cN (f+1) (.cont p))) : LoopsInv fcheck → d > 0 := by
  obtain ⟨s, s', h, hd⟩ := h
  rw [cont_ok] at h
  intro H; have := hd H; omega

theorem acc_nodes_cons {n r} (h : Acc d (cL (f+1) (n :: r))) : Acc d (cN f n) ∧ Acc d (cL f r) := by
  obtain ⟨s, s', h, hd⟩ := h
  chk_inv at h
  obtain ⟨s1, h1, h2⟩ := h
  refine ⟨⟨_, _, h1, hd⟩, ⟨_, _, h2, ?_⟩⟩
  acc_depth

theorem acc_opt_some {n} (h : Acc d (cO (f+1) (some n))) : Acc d (cN f n) := by
  obtain ⟨s, s', h, hd⟩ := h
  chk_inv at h
  exact ⟨s, s', h, hd⟩

theorem acc_optBlock_some {b} (h : Acc d (cB (f+1) (some b))) : Acc d (cL f b) := by
  obtain ⟨s, s', h, hd⟩ := h
  chk_inv at h
  exact ⟨s, s', h, hd⟩

theorem acc_map_cons {k v r} (h : Acc d (cM (f+1) ((k, v) :: r))) :
    isMapKeyLit k = false ∧ Acc d (cN f k) ∧ Acc d (cN f v) ∧ Acc d (cM f r) := by
  obtain ⟨s, s', h, hd⟩ := h
  rw [map_cons_ok] at h
  obtain ⟨hk, s1, h1, s2, h2, h3⟩ := h
  refine ⟨hk, ⟨_, _, h1, hd⟩, ⟨_, _, h2, ?_⟩, ⟨_, _, h3, ?_⟩⟩ <;> acc_depth

theorem acc_ifs_cons {c b p r} (h : Acc d (cI (f+1) ((c, b, p) :: r))) :
    Acc d (cN f c) ∧ Acc d (cB f b) ∧ Acc d (cI f r) := by
  obtain ⟨s, s', h, hd⟩ := h
  chk_inv at h
  obtain ⟨s1, h1, s2, h2, h3⟩ := h
  refine ⟨⟨_, _, h1, hd⟩, ⟨_, _, h2, ?_⟩, ⟨_, _, h3, ?_⟩⟩ <;> acc_depth

end

/-! ### completeness: composition of passes that accept or run out of fuel -/

/-- from loop depth `d` the pass `m` accepts and ends at depth `d'`, or runs out of fuel -/
def Tr (d d' : Nat) (m : CM Unit) : Prop :=
  ∀ s, s.loops = d → (∃ s', m s = .ok () s' ∧ s'.loops = d') ∨ m s = .fuel

theorem tr_bind {d d1 d2 : Nat} {a : CM Unit} {g : Unit → CM Unit}
    (ha : Tr d d1 a) (hb : Tr d1 d2 (g ())) : Tr d d2 (a >>= g) := by
  intro s hs
  rw [bind_apply]
  rcases ha s hs with ⟨s1, h1, hl⟩ | h1
  · rw [h1]; exact hb s1 hl
  · rw [h1]; exact .inr rfl

theorem tr_pure {d : Nat} : Tr d d (pure ()) := fun s hs => .inl ⟨s, rfl, hs⟩
theorem tr_fuel {d d' : Nat} : Tr d d' cFuel := fun _ _ => .inr rfl
theorem tr_push {d : Nat} : Tr d d cPush := fun _ hs => .inl ⟨_, rfl, hs⟩
theorem tr_pop {d : Nat} : Tr d d cPop := fun _ hs => .inl ⟨_, rfl, hs⟩
theorem tr_inc {d : Nat} : Tr d (d+1) (cMod fun s => { s with loops := s.loops + 1 }) :=
  fun _ hs => .inl ⟨_, rfl, by simp [hs]⟩
theorem tr_dec {d : Nat} : Tr (d+1) d (cMod fun s => { s with loops := s.loops - 1 }) :=
  fun _ hs => .inl ⟨_, rfl, by simp [hs]⟩

/-- unfold the pass one step and compose the `Tr` facts of the children along the `do` block -/
macro "tr_steps" : tactic =>
  `(tactic| (try simp only [checkNode, checkNodes, checkOpt, checkOptBlock, checkMap, checkIfs]
             repeat (first | assumption | exact tr_pure | exact tr_fuel | exact tr_push
                           | exact tr_pop | exact tr_inc | exact tr_dec | apply tr_bind)))

section
variable {f d : Nat}

local notation "cN" => checkNode file registered fcheck
local notation "cL" => checkNodes file registered fcheck
local notation "cO" => checkOpt file registered fcheck
local notation "cB" => checkOptBlock file registered fcheck
local notation "cM" => checkMap file registered fcheck
local notation "cI" => checkIfs file registered fcheck

theorem tr_node_zero {n} : Tr d d (cN 0 n) := by tr_steps
theorem tr_nodes_zero {n} : Tr d d (cL 0 n) := by tr_steps
theorem tr_opt_zero {n} : Tr d d (cO 0 n) := by tr_steps
theorem tr_optBlock_zero {n} : Tr d d (cB 0 n) := by tr_steps
theorem tr_map_zero {n} : Tr d d (cM 0 n) := by tr_steps
theorem tr_ifs_zero {n} : Tr d d (cI 0 n) := by tr_steps

theorem tr_ident {nm p} : Tr d d (cN (f+1) (.ident nm p)) := by tr_steps
theorem tr_strLit {v p} : Tr d d (cN (f+1) (.strLit v p)) := by tr_steps
theorem tr_intLit {v p} : Tr d d (cN (f+1) (.intLit v p)) := by tr_steps
theorem tr_floatLit {v p} : Tr d d (cN (f+1) (.floatLit v p)) := by tr_steps
theorem tr_boolLit {v p} : Tr d d (cN (f+1) (.boolLit v p)) := by tr_steps
theorem tr_nilLit {p} : Tr d d (cN (f+1) (.nilLit p)) := by tr_steps

theorem tr_list {xs lb rb} (h : Tr d d (cL f xs)) : Tr d d (cN (f+1) (.list xs lb rb)) := by
  intro s hs
  simp only [checkNode]
  rcases h s hs with ⟨s1, h1, hl⟩ | h1
  · rw [h1]; exact .inl ⟨s1, rfl, hl⟩
  · rw [h1]; exact .inr rfl

theorem tr_map {kvs lb rb} (h : Tr d d (cM f kvs)) : Tr d d (cN (f+1) (.map kvs lb rb)) := by tr_steps
theorem tr_paren {e lp rp} (h : Tr d d (cN f e)) : Tr d d (cN (f+1) (.paren e lp rp)) := by tr_steps
theorem tr_unary {op e p} (h : Tr d d (cN f e)) : Tr d d (cN (f+1) (.unary op e p)) := by tr_steps
theorem tr_index {o idx lbs rbs} (h : Tr d d (cL f idx)) : Tr d d (cN (f+1) (.index o idx lbs rbs)) := by
  tr_steps
theorem tr_attr {o a p} (h1 : Tr d d (cO f o)) (h2 : Tr d d (cO f a)) : Tr d d (cN (f+1) (.attr o a p)) := by
  tr_steps
theorem tr_inE {l r p} (h1 : Tr d d (cN f l)) (h2 : Tr d d (cN f r)) : Tr d d (cN (f+1) (.inE l r p)) := by
  tr_steps
theorem tr_arith {op l r p} (h1 : Tr d d (cN f l)) (h2 : Tr d d (cN f r)) :
    Tr d d (cN (f+1) (.arith op l r p)) := by tr_steps
theorem tr_cond {op l r p} (h1 : Tr d d (cN f l)) (h2 : Tr d d (cN f r)) :
    Tr d d (cN (f+1) (.cond op l r p)) := by tr_steps
theorem tr_assign {op l r p} (h1 : Tr d d (cL f l)) (h2 : Tr d d (cL f r)) :
    Tr d d (cN (f+1) (.assign op l r p)) := by tr_steps

/-- a call of a registered function whose checker accepts without changing the state -/
theorem tr_call {name args np lp rp site} (hr : registered name = true)
    (hc : ∃ chk, fcheck ⟨name, args, np, site⟩ = some chk ∧ ∀ s, chk s = .ok () s)
    (h : Tr d d (cL f args)) : Tr d d (cN (f+1) (.call name args np lp rp site)) := by
  intro s hs
  obtain ⟨chk, hc, hchk⟩ := hc
  simp only [checkNode, hr, Bool.not_true, Bool.false_eq_true, if_false]
  rcases h s hs with ⟨s1, h1, hl⟩ | h1
  · rw [h1]; simp only [hc, hchk]; exact .inl ⟨s1, rfl, hl⟩
  · rw [h1]; exact .inr rfl

theorem tr_slice {o a b c c2 lb rb} (h1 : Tr d d (cN f o)) (h2 : Tr d d (cO f a)) (h3 : Tr d d (cO f b))
    (h4 : Tr d d (cO f c)) : Tr d d (cN (f+1) (.slice o a b c c2 lb rb)) := by tr_steps

theorem tr_ifelse {ifs els p} (h1 : Tr d d (cI f ifs)) (h2 : Tr d d (cB f els)) :
    Tr d d (cN (f+1) (.ifelse ifs els p)) := by tr_steps

theorem tr_forS {ini c l body p} (h1 : Tr d d (cO f ini)) (h2 : Tr d d (cO f c))
    (h3 : Tr (d+1) (d+1) (cB f body)) (h4 : Tr (d+1) (d+1) (cO f l)) :
    Tr d d (cN (f+1) (.forS ini c l body p)) := by tr_steps

theorem tr_forIn {nm q iter body fp ip} (h1 : Tr d d (cN f iter)) (h2 : Tr (d+1) (d+1) (cB f body)) :
    Tr d d (cN (f+1) (.forIn (.ident nm q) iter body fp ip)) := by tr_steps

theorem tr_brk {p} (hd : d > 0) : Tr d d (cN (f+1) (.brk p)) := by
  intro s hs
  refine .inl ⟨s, ?_, hs⟩
  rw [brk_ok]; exact ⟨by omega, rfl⟩

theorem tr_cont {p} (hd : d > 0) : Tr d d (cN (f+1) (.cont p)) := by
  intro s hs
  refine .inl ⟨s, ?_, hs⟩
  rw [cont_ok]; exact ⟨by omega, rfl⟩

theorem tr_nodes_nil : Tr d d (cL (f+1) []) := by tr_steps
theorem tr_nodes_cons {n r} (h1 : Tr d d (cN f n)) (h2 : Tr d d (cL f r)) : Tr d d (cL (f+1) (n :: r)) := by
  tr_steps
theorem tr_opt_none : Tr d d (cO (f+1) none) := by tr_steps
theorem tr_opt_some {n} (h : Tr d d (cN f n)) : Tr d d (cO (f+1) (some n)) := by tr_steps
theorem tr_optBlock_none : Tr d d (cB (f+1) none) := by tr_steps
theorem tr_optBlock_some {b} (h : Tr d d (cL f b)) : Tr d d (cB (f+1) (some b)) := by tr_steps
theorem tr_map_nil : Tr d d (cM (f+1) []) := by tr_steps
theorem tr_map_cons {k v r} (hk : isMapKeyLit k = false) (h1 : Tr d d (cN f k)) (h2 : Tr d d (cN f v))
    (h3 : Tr d d (cM f r)) : Tr d d (cM (f+1) ((k, v) :: r)) := by
  simp only [checkMap, hk, Bool.false_eq_true, if_false]
  tr_steps
theorem tr_ifs_nil : Tr d d (cI (f+1) []) := by tr_steps
theorem tr_ifs_cons {c b p r} (h1 : Tr d d (cN f c)) (h2 : Tr d d (cB f b)) (h3 : Tr d d (cI f r)) :
    Tr d d (cI (f+1) ((c, b, p) :: r)) := by tr_steps

end

end Platypus.CheckProofs
