import Platypus.Proofs.SignalMono
import Platypus.Proofs.SignalIndep
/-!
C14, effects-prefix theorem, part 4: the relation between the run interrupted at poll `k` (the
"K-run") and a run whose signal fires later or never (the "L-run"), and its calculus.

Both runs start in the same state.  Either they have the same result, or (`Div`) the K-run has
observed the signal (`k ≤ polls`), has ended *ok* (or ran out of fuel) and its trace is a suffix
(newest-first lists) of the trace of every end state of the L-run.
-/
namespace Platypus.SignalProofs
open Platypus Platypus.MachineProofs

/-- `r` ends in state `s` (successfully or with a script error) -/
def Ends {α} (r : Res α) (s : St) : Prop := (∃ a, r = .ok a s) ∨ (∃ e, r = .err e s)

theorem Ends.ok {α} {a : α} {s s' : St} (h : Ends (.ok a s) s') : s = s' := by
  rcases h with ⟨_, h⟩ | ⟨_, h⟩ <;> cases h; rfl
theorem Ends.err {α} {e : PlErr} {s s' : St} (h : Ends (.err e s : Res α) s') : s = s' := by
  rcases h with ⟨_, h⟩ | ⟨_, h⟩ <;> cases h; rfl
theorem not_ends_fuel {α} {s : St} : ¬ Ends (.fuel : Res α) s := by
  rintro (⟨_, h⟩ | ⟨_, h⟩) <;> cases h
theorem not_ends_panic {α} {m : String} {s : St} : ¬ Ends (.panic m : Res α) s := by
  rintro (⟨_, h⟩ | ⟨_, h⟩) <;> cases h
theorem not_ends_need {α} {q : Bytes} {s : St} : ¬ Ends (.need q : Res α) s := by
  rintro (⟨_, h⟩ | ⟨_, h⟩) <;> cases h

theorem MonoR.ends {α} {s s' : St} {r : Res α} (h : MonoR s r) (he : Ends r s') :
    s.world.trace <:+ s'.world.trace := by
  rcases he with ⟨_, rfl⟩ | ⟨_, rfl⟩ <;> exact h

section
variable (k : Nat)

/-- the K-run has stopped after observing the signal; the L-run, wherever it ends, has at least
    the K-run's effects -/
def Div {α β} (rK : Res α) (rL : Res β) : Prop :=
  rK = .fuel ∨ ∃ a sK, rK = .ok a sK ∧ k ≤ sK.world.polls ∧
    ∀ sL, Ends rL sL → sK.world.trace <:+ sL.world.trace

/-- same result, or the K-run stopped early -/
def R {α} (rK rL : Res α) : Prop := rK = rL ∨ Div k rK rL

def Rel2 {α} (mK mL : EM α) : Prop := ∀ s, R k (mK s) (mL s)

/-- a computation started after the observation: no event, no error -/
def QuietR {α} (s : St) (r : Res α) : Prop :=
  r = .fuel ∨ ∃ a s', r = .ok a s' ∧ k ≤ s'.world.polls ∧ s'.world.trace = s.world.trace

def Quiet {α} (m : EM α) : Prop := ∀ s, k ≤ s.world.polls → QuietR k s (m s)

variable {k}

theorem Div.step {α β γ δ} {rK : Res α} {rL : Res β} {rK' : Res γ} {rL' : Res δ} (h : Div k rK rL)
    (hK : rK = .fuel → rK' = .fuel)
    (hK2 : ∀ a sK, rK = .ok a sK → k ≤ sK.world.polls → QuietR k sK rK')
    (hL : ∀ sL', Ends rL' sL' → ∃ sL, Ends rL sL ∧ sL.world.trace <:+ sL'.world.trace) :
    Div k rK' rL' := by
  rcases h with h | ⟨a, sK, h1, h2, h3⟩
  · exact .inl (hK h)
  · rcases hK2 a sK h1 h2 with hq | ⟨b, sK', hq1, hq2, hq3⟩
    · exact .inl hq
    · refine .inr ⟨b, sK', hq1, hq2, fun sL' he => ?_⟩
      obtain ⟨sL, he1, he2⟩ := hL sL' he
      rw [hq3]
      exact (h3 sL he1).trans he2

theorem R.refl {α} (r : Res α) : R k r r := .inl rfl

theorem Rel2.refl {α} (m : EM α) : Rel2 k m m := fun _ => .inl rfl
theorem Rel2.of_eq {α} {mK mL : EM α} (h : mK = mL) : Rel2 k mK mL := h ▸ Rel2.refl _

theorem Rel2.bind_same {α β} {m : EM α} {kK kL : α → EM β} (hk : ∀ a, Rel2 k (kK a) (kL a)) :
    Rel2 k (m >>= kK) (m >>= kL) := by
  intro s
  simp only [bind_apply]
  cases m s with
  | ok a s' => exact hk a s'
  | err e s' => exact .inl rfl
  | panic m => exact .inl rfl
  | fuel => exact .inl rfl
  | need q => exact .inl rfl

theorem Rel2.panic_bind {α β} (m : String) (kK kL : α → EM β) :
    Rel2 k (panicE m >>= kK) (panicE m >>= kL) := fun _ => .inl rfl

theorem Rel2.bind_congr {α β} {mK mL : EM α} {kK kL : α → EM β} (heq : mK = mL)
    (hk : ∀ a, Rel2 k (kK a) (kL a)) : Rel2 k (mK >>= kK) (mL >>= kL) := by
  subst heq
  exact Rel2.bind_same hk

theorem Rel2.bind {α β} {mK mL : EM α} {kK kL : α → EM β} (hm : Rel2 k mK mL)
    (hk : ∀ a, Rel2 k (kK a) (kL a)) (hq : ∀ a, Quiet k (kK a)) (hmono : ∀ a, MonoM (kL a)) :
    Rel2 k (mK >>= kK) (mL >>= kL) := by
  intro s
  simp only [bind_apply]
  rcases hm s with h | h
  · rw [h]
    cases mL s with
    | ok a s' => exact hk a s'
    | err e s' => exact .inl rfl
    | panic m => exact .inl rfl
    | fuel => exact .inl rfl
    | need q => exact .inl rfl
  · refine .inr (h.step ?_ ?_ ?_)
    · intro h1; rw [h1]; rfl
    · intro a sK h1 h2; rw [h1]; exact hq a sK h2
    · intro sL' he
      cases hL : mL s with
      | ok a sL =>
        rw [hL] at he
        exact ⟨sL, .inl ⟨a, rfl⟩, (hmono a sL).ends he⟩
      | err e sL =>
        rw [hL] at he
        exact ⟨sL, .inr ⟨e, rfl⟩, by rw [he.err]; exact List.suffix_refl _⟩
      | panic m => rw [hL] at he; exact absurd he not_ends_panic
      | fuel => rw [hL] at he; exact absurd he not_ends_fuel
      | need q => rw [hL] at he; exact absurd he not_ends_need

theorem Rel2.ite {α} (c : Prop) [Decidable c] {A1 A2 B1 B2 : EM α} (h1 : Rel2 k A1 B1) (h2 : Rel2 k A2 B2) :
    Rel2 k (if c then A1 else A2) (if c then B1 else B2) := by
  split
  · exact h1
  · exact h2

theorem Rel2.finally {α} {mK mL : EM α} (h : Rel2 k mK mL) :
    Rel2 k (mK.finally popSt) (mL.finally popSt) := by
  intro s
  simp only [finally_apply]
  rcases h s with h | h
  · rw [h]; exact .inl rfl
  · refine .inr (h.step ?_ ?_ ?_)
    · intro h1; rw [h1]
    · intro a sK h1 h2; rw [h1]; exact .inr ⟨a, popSt sK, rfl, h2, rfl⟩
    · intro sL' he
      cases hL : mL s with
      | ok a sL =>
        rw [hL] at he
        exact ⟨sL, .inl ⟨a, rfl⟩, by rw [← he.ok]; exact List.suffix_refl _⟩
      | err e sL =>
        rw [hL] at he
        exact ⟨sL, .inr ⟨e, rfl⟩, by rw [← he.err]; exact List.suffix_refl _⟩
      | panic m => rw [hL] at he; exact absurd he not_ends_panic
      | fuel => rw [hL] at he; exact absurd he not_ends_fuel
      | need q => rw [hL] at he; exact absurd he not_ends_need

/-! ### quiet computations -/
theorem Quiet.pure {α} (a : α) : Quiet k (Pure.pure a : EM α) :=
  fun s hs => .inr ⟨a, s, rfl, hs, rfl⟩
theorem Quiet.modTask (g : Task → Task) : Quiet k (Platypus.modTask g) :=
  fun _ hs => .inr ⟨(), _, rfl, hs, rfl⟩
theorem Quiet.popScope : Quiet k Platypus.popScope := Quiet.modTask _
theorem Quiet.pushScope : Quiet k Platypus.pushScope := Quiet.modTask _
theorem Quiet.clearScope : Quiet k Platypus.clearScope := Quiet.modTask _
theorem Quiet.outOfFuel {α} : Quiet k (Platypus.outOfFuel : EM α) := fun _ _ => .inl rfl

theorem Quiet.bind {α β} {m : EM α} {f : α → EM β} (hm : Quiet k m) (hf : ∀ a, Quiet k (f a)) :
    Quiet k (m >>= f) := by
  intro s hs
  simp only [bind_apply]
  rcases hm s hs with h | ⟨a, s', h1, h2, h3⟩
  · rw [h]; exact .inl rfl
  · rw [h1]
    rcases hf a s' h2 with h | ⟨b, s'', h4, h5, h6⟩
    · exact .inl h
    · exact .inr ⟨b, s'', h4, h5, h6.trans h3⟩

theorem Quiet.finally {α} {m : EM α} (hm : Quiet k m) : Quiet k (m.finally popSt) := by
  intro s hs
  simp only [finally_apply]
  rcases hm s hs with h | ⟨a, s', h1, h2, h3⟩
  · rw [h]; exact .inl rfl
  · rw [h1]; exact .inr ⟨a, popSt s', rfl, h2, h3⟩

end

/-! ### the poll under the two signals -/
section
variable {env : Env} {k : Nat} {later : Option Nat}

theorem pollSt_trace (env : Env) (s : St) : (pollSt env s).world.trace = s.world.trace := by
  unfold pollSt; split <;> rfl
theorem pollSt_polls_le (env : Env) (s : St) : s.world.polls ≤ (pollSt env s).world.polls := by
  unfold pollSt; split
  · exact Nat.le_succ _
  · exact Nat.le_refl _

/-- once the signal has fired, every poll of the K-run reports true -/
theorem pollB_fired (s : St) (h : k ≤ s.world.polls) : pollB (withSig env (some k)) s = true := by
  unfold pollB
  cases he : s.task.exit
  · have : k ≤ s.world.polls + 1 := Nat.le_succ_of_le h
    simp [this]
  · simp

/-- the two polls agree, or the K-run observes the signal and the L-run does not -/
theorem poll_cases (hl : ∀ k', later = some k' → k ≤ k') (s : St) :
    (pollB (withSig env (some k)) s = pollB (withSig env later) s ∧
      pollSt (withSig env (some k)) s = pollSt (withSig env later) s) ∨
    (pollB (withSig env (some k)) s = true ∧ pollB (withSig env later) s = false ∧
      k ≤ (pollSt (withSig env (some k)) s).world.polls) := by
  unfold pollB pollSt pollB
  cases he : s.task.exit
  · simp only [Bool.not_false, withSig_hasSignal, Bool.and_self, if_true, withSig_sigK]
    by_cases hk : k ≤ s.world.polls + 1
    · cases later with
      | none => right; simp [hk]
      | some k' =>
        by_cases hk' : k' ≤ s.world.polls + 1
        · left; simp [hk, hk']
        · right; simp [hk, hk']
    · cases later with
      | none => left; simp [hk]
      | some k' =>
        have : ¬ k' ≤ s.world.polls + 1 := fun h => hk (Nat.le_trans (hl k' rfl) h)
        left; simp [hk, this]
  · left; simp

variable (hl : ∀ k', later = some k' → k ≤ k')
include hl

/-- the poll at a loop head -/
theorem Rel2.poll {α} (a : α) {KK KL : EM α} (hK : Rel2 k KK KL) (hm : MonoM KL) :
    Rel2 k (procExit (withSig env (some k)) >>= fun x => if x = true then pure a else KK)
      (procExit (withSig env later) >>= fun x => if x = true then pure a else KL) := by
  intro s
  simp only [bind_apply, procExit_apply, rbind_ok]
  rcases poll_cases (env := env) hl s with ⟨h1, h2⟩ | ⟨h1, h2, h3⟩
  · rw [h1, h2]
    cases pollB (withSig env later) s
    · simpa using hK _
    · exact .inl rfl
  · rw [h1, h2]
    simp only [if_true, pure_apply]
    refine .inr (.inr ⟨a, _, rfl, h3, fun sL he => ?_⟩)
    rw [pollSt_trace, ← pollSt_trace (withSig env later) s]
    exact (hm _).ends (by simpa using he)

/-- the poll at a loop head, with the monotonicity of the whole L-side -/
theorem Rel2.poll' {α} (a : α) {KK KL : EM α} (hK : Rel2 k KK KL)
    (hm : MonoM (procExit (withSig env later) >>= fun x => if x = true then pure a else KL)) :
    Rel2 k (procExit (withSig env (some k)) >>= fun x => if x = true then pure a else KK)
      (procExit (withSig env later) >>= fun x => if x = true then pure a else KL) := by
  intro s
  have hw := hm s
  simp only [bind_apply, procExit_apply, rbind_ok] at hw ⊢
  rcases poll_cases (env := env) hl s with ⟨h1, h2⟩ | ⟨h1, h2, h3⟩
  · rw [h1, h2]
    cases pollB (withSig env later) s
    · simpa using hK _
    · exact .inl rfl
  · rw [h1]
    simp only [if_true, pure_apply]
    refine .inr (.inr ⟨a, _, rfl, h3, fun sL he => ?_⟩)
    rw [pollSt_trace]
    exact hw.ends he

/-- the poll between statements and after a loop body -/
theorem Rel2.stmtRet {α} (a : α) {KK KL : EM α} (hK : Rel2 k KK KL) (hm : MonoM KL) :
    Rel2 k (stmtReturn (withSig env (some k)) >>= fun x => if x = true then pure a else KK)
      (stmtReturn (withSig env later) >>= fun x => if x = true then pure a else KL) := by
  intro s
  simp only [bind_apply, stmtReturn_apply, rbind_ok]
  rcases poll_cases (env := env) hl s with ⟨h1, h2⟩ | ⟨h1, h2, h3⟩
  · rw [h1, h2]
    cases (pollB (withSig env later) s || (s.task.brk || s.task.cont))
    · simpa using hK _
    · exact .inl rfl
  · rw [h1, h2]
    simp only [Bool.true_or, if_true, pure_apply, Bool.false_or]
    refine .inr (.inr ⟨a, _, rfl, h3, fun sL he => ?_⟩)
    rw [pollSt_trace, ← pollSt_trace (withSig env later) s]
    cases hbc : (s.task.brk || s.task.cont)
    · rw [hbc] at he
      exact (hm _).ends (by simpa using he)
    · rw [hbc] at he
      simp only [if_true, pure_apply] at he
      rw [he.ok]
      exact List.suffix_refl _

end
end Platypus.SignalProofs
