import Platypus.Proofs.Scope
/-!
The v1 expression evaluator and the scope stack (helper file for `Properties/C03Scope.lean`).

`SFree e`: the expression `e` is *statement-free* — no `if`/`for`/`for-in`/`break`/`continue` node
occurs in an evaluated position inside it (what the grammar guarantees for every expression).

`eouter_all`: on a statement-free expression every function of the evaluator (`evalNode`,
`evalList`, …, `evalCall`, `builtin` — including `use()`, which runs the callee in a fresh task and
restores the caller's) ends, on success *and* on error, with a scope stack of the same depth in which
every scope but the innermost binds the same names: the only change an expression can make to the
stack is `scopeSet` (an assignment).  (Errors matter because `set_measurement` and `printf` swallow
the error of their first argument.)
-/
namespace Platypus.ScopeProofs
open Platypus Platypus.MachineProofs

/-- statement-free expressions -/
inductive SFree : Node → Prop
  | ident (n p) : SFree (.ident n p)
  | strLit (v p) : SFree (.strLit v p)
  | intLit (v p) : SFree (.intLit v p)
  | floatLit (v p) : SFree (.floatLit v p)
  | boolLit (v p) : SFree (.boolLit v p)
  | nilLit (p) : SFree (.nilLit p)
  | attr (o a p) : SFree (.attr o a p)
  | list {xs} (lb rb) : (∀ x ∈ xs, SFree x) → SFree (.list xs lb rb)
  | map {kvs : List (Node × Node)} (lb rb) : (∀ kv ∈ kvs, SFree kv.1) → (∀ kv ∈ kvs, SFree kv.2) → SFree (.map kvs lb rb)
  | paren {e} (lp rp) : SFree e → SFree (.paren e lp rp)
  | index (obj) {idx} (lbs rbs) : (∀ x ∈ idx, SFree x) → SFree (.index obj idx lbs rbs)
  | unary (op) {e} (p) : SFree e → SFree (.unary op e p)
  | arith (op) {l r} (p) : SFree l → SFree r → SFree (.arith op l r p)
  | cond (op) {l r} (p) : SFree l → SFree r → SFree (.cond op l r p)
  | inE {l r} (p) : SFree l → SFree r → SFree (.inE l r p)
  | assign (op) {lhs rhs} (p) : (∀ x ∈ lhs, SFree x) → (∀ x ∈ rhs, SFree x) → SFree (.assign op lhs rhs p)
  | call (name) {args} (np lp rp site) : (∀ x ∈ args, SFree x) → SFree (.call name args np lp rp site)
  | slice {obj st en sp} (c2 lb rb) : SFree obj → (∀ e, st = some e → SFree e) → (∀ e, en = some e → SFree e) →
      (∀ e, sp = some e → SFree e) → SFree (.slice obj st en sp c2 lb rb)

theorem SFree.not_stmt {e : Node} (h : SFree e) : isStmt e = false := by
  cases h <;> rfl

/-- every run of `m` that ends in a state (success or error) keeps the scope stack up to the innermost scope -/
def AllM {α} (m : EM α) : Prop := ∀ s, AllRel OuterEq s (m s)

theorem AllM.outer {α} {m : EM α} (h : AllM m) : OuterM m := fun s => (h s).ok

theorem AllRel.trans {α} {s0 s : St} {r : Res α} (h0 : OuterEq s0.task.scopes s.task.scopes)
    (h : AllRel OuterEq s r) : AllRel OuterEq s0 r := by
  cases r <;> first | exact OuterEq.trans h0 h | trivial

theorem AllM.pure {α} (a : α) : AllM (Pure.pure a : EM α) := fun _ => OuterEq.refl _
theorem AllM.getS : AllM Platypus.getS := fun _ => OuterEq.refl _
theorem AllM.modTask (g : Task → Task) (h : ∀ t, OuterEq t.scopes (g t).scopes) :
    AllM (Platypus.modTask g) := fun s => h s.task
theorem AllM.modWorld (g : World → World) : AllM (Platypus.modWorld g) := fun _ => OuterEq.refl _
theorem AllM.runErr {α} (p : Pos) (m : String) : AllM (Platypus.runErr p m : EM α) := fun _ => OuterEq.refl _
theorem AllM.panicE {α} (m : String) : AllM (Platypus.panicE m : EM α) := fun _ => trivial
theorem AllM.needE {α} (q : Bytes) : AllM (Platypus.needE q : EM α) := fun _ => trivial
theorem AllM.outOfFuel {α} : AllM (Platypus.outOfFuel : EM α) := fun _ => trivial
theorem AllM.setVarb (k : Bytes) (v : TV) : AllM (Platypus.setVarb k v) := fun _ => OuterEq.scopeSet _ _ _
theorem AllM.ask (env : Env) (q : Bytes) : AllM (Platypus.ask env q) := by
  intro s; unfold Platypus.ask; split
  · exact OuterEq.refl _
  · trivial

theorem AllM.bind {α β} {m : EM α} {k : α → EM β} (hm : AllM m) (hk : ∀ a, AllM (k a)) :
    AllM (m >>= k) := by
  intro s
  rw [bind_apply]
  have h1 := hm s
  cases h : m s with
  | ok a s' => rw [h] at h1; exact AllRel.trans h1 (hk a s')
  | err e s' => rw [h] at h1; exact h1
  | panic m => trivial
  | fuel => trivial
  | need q => trivial

theorem AllM.map {α β} {m : EM α} (g : α → β) (hm : AllM m) : AllM (g <$> m) := by
  intro s
  have h1 := hm s
  show AllRel OuterEq s (EM.bind m _ s)
  unfold EM.bind
  cases h : m s <;> rw [h] at h1 <;> first | exact h1 | trivial

theorem AllM.castToString (env : Env) (v : Val) : AllM (Platypus.castToString env v) := by
  cases v <;> simp only [Platypus.castToString] <;>
    first | exact AllM.pure _ | exact AllM.bind (AllM.ask _ _) fun _ => AllM.pure _

set_option hygiene false in
/-- discharge a statement-freeness side goal from the hypotheses in the context -/
macro "scope_sfree" : tactic => `(tactic| first
  | assumption
  | (intro x hx; apply_assumption; simp [hx]; done)
  | (apply_assumption <;> first | rfl | (simp; done)))

set_option hygiene false in
/-- one step of the syntax-directed proof that a `do` block keeps the outer scopes (success and
    error); induction hypotheses are looked up under the reserved names `ih1` … `ih9` -/
macro "scope_all_step" : tactic => `(tactic| first
  | with_reducible exact AllM.pure _
  | with_reducible exact AllM.getS
  | with_reducible exact AllM.runErr _ _
  | with_reducible exact AllM.panicE _
  | with_reducible exact AllM.needE _
  | with_reducible exact AllM.outOfFuel
  | with_reducible exact AllM.setVarb _ _
  | with_reducible exact AllM.modWorld _
  | with_reducible exact AllM.ask _ _
  | with_reducible exact AllM.castToString _ _
  | with_reducible assumption
  | (with_reducible refine AllM.modTask _ (fun t => ?_); exact OuterEq.refl _)
  | (with_reducible apply ih1; scope_sfree)
  | (with_reducible apply ih2; scope_sfree)
  | (with_reducible apply ih3 <;> scope_sfree)
  | (with_reducible apply ih4; scope_sfree)
  | (with_reducible apply ih5 <;> scope_sfree)
  | (with_reducible apply ih6 <;> scope_sfree)
  | (with_reducible apply ih7; scope_sfree)
  | (with_reducible apply ih8; scope_sfree)
  | with_reducible apply ih9
  | with_reducible refine AllM.bind ?_ (fun _ => ?_)
  | with_reducible refine AllM.map _ ?_
  | split)

macro "scope_allm" : tactic => `(tactic| repeat' scope_all_step)

theorem AllM.conv2str (env : Env) (x : TV) : AllM (Platypus.conv2str env x) := by
  unfold Platypus.conv2str
  scope_allm

/-- the evaluator functions keep the outer scopes on statement-free expressions, at fuel `f` -/
structure EOuter (env : Env) (f : Nat) : Prop where
  node : ∀ n, SFree n → AllM (evalNode env f n)
  list : ∀ l, (∀ x ∈ l, SFree x) → AllM (evalList env f l)
  mapLit : ∀ kvs acc, (∀ kv ∈ kvs, SFree kv.1) → (∀ kv ∈ kvs, SFree kv.2) → AllM (evalMapLit env f kvs acc)
  search : ∀ cur idx, (∀ x ∈ idx, SFree x) → AllM (searchLM env f cur idx)
  change : ∀ cur idx val, (∀ x ∈ idx, SFree x) → AllM (changeLM env f cur idx val)
  slice : ∀ obj st en sp, SFree obj → (∀ e, st = some e → SFree e) → (∀ e, en = some e → SFree e) →
    (∀ e, sp = some e → SFree e) → AllM (evalSlice env f obj st en sp)
  assign : ∀ op lhs rhs p, (∀ x ∈ lhs, SFree x) → (∀ x ∈ rhs, SFree x) → AllM (evalAssign env f op lhs rhs p)
  call : ∀ name args np site, (∀ x ∈ args, SFree x) → AllM (evalCall env f name args np site)
  builtin : ∀ fn name args np site, (∀ x ∈ args, SFree x) → AllM (builtin env f fn name args np site)

theorem eouter_zero (env : Env) : EOuter env 0 := by
  refine ⟨?_, ?_, ?_, ?_, ?_, ?_, ?_, ?_, ?_⟩ <;> intros
  · rw [evalNode]; exact AllM.outOfFuel
  · rw [evalList]; exact AllM.outOfFuel
  · rw [evalMapLit]; exact AllM.outOfFuel
  · rw [searchLM]; exact AllM.outOfFuel
  · rw [changeLM]; exact AllM.outOfFuel
  · rw [evalSlice]; exact AllM.outOfFuel
  · rw [evalAssign]; exact AllM.outOfFuel
  · rw [evalCall]; exact AllM.outOfFuel
  · rw [builtin]; exact AllM.outOfFuel

section
variable {env : Env} {f : Nat}

theorem evalNode_all_step (ih : EOuter env f) (n : Node) (hn : SFree n) : AllM (evalNode env (f+1) n) := by
  have ih1 := ih.node; have ih2 := ih.list; have ih3 := ih.mapLit; have ih4 := ih.search
  have ih5 := ih.slice; have ih6 := ih.assign; have ih7 := ih.call
  cases hn <;> simp only [evalNode] <;> scope_allm

theorem evalList_all_step (ih : EOuter env f) (l : List Node) (hl : ∀ x ∈ l, SFree x) :
    AllM (evalList env (f+1) l) := by
  have ih1 := ih.node; have ih2 := ih.list
  cases l <;> simp only [evalList] <;> scope_allm

theorem evalMapLit_all_step (ih : EOuter env f) (kvs : List (Node × Node)) (acc : List (Bytes × Val))
    (hk : ∀ kv ∈ kvs, SFree kv.1) (hv : ∀ kv ∈ kvs, SFree kv.2) : AllM (evalMapLit env (f+1) kvs acc) := by
  have ih1 := ih.node; have ih3 := ih.mapLit
  cases kvs with
  | nil => simp only [evalMapLit]; scope_allm
  | cons kv r =>
    obtain ⟨k, v⟩ := kv
    have hk1 : SFree k := hk (k, v) (by simp)
    have hk2 : SFree v := hv (k, v) (by simp)
    have hk3 : ∀ kv ∈ r, SFree kv.1 := fun kv h => hk kv (by simp [h])
    have hk4 : ∀ kv ∈ r, SFree kv.2 := fun kv h => hv kv (by simp [h])
    simp only [evalMapLit]; scope_allm

theorem searchLM_all_step (ih : EOuter env f) (cur : Val) (idx : List Node) (hi : ∀ x ∈ idx, SFree x) :
    AllM (searchLM env (f+1) cur idx) := by
  have ih1 := ih.node; have ih4 := ih.search
  cases idx <;> simp only [searchLM] <;> scope_allm

theorem changeLM_all_step (ih : EOuter env f) (cur : Val) (idx : List Node) (val : TV)
    (hi : ∀ x ∈ idx, SFree x) : AllM (changeLM env (f+1) cur idx val) := by
  have ih1 := ih.node; have ih4 := ih.change
  cases idx <;> simp only [changeLM] <;> scope_allm

theorem evalSlice_all_step (ih : EOuter env f) (obj : Node) (st en sp : Option Node) (ho : SFree obj)
    (hst : ∀ e, st = some e → SFree e) (hen : ∀ e, en = some e → SFree e) (hsp : ∀ e, sp = some e → SFree e) :
    AllM (evalSlice env (f+1) obj st en sp) := by
  have ih1 := ih.node
  rw [evalSlice.eq_def]; simp only []
  scope_allm
  all_goals (apply ih1; first | exact hst _ rfl | exact hen _ rfl | exact hsp _ rfl)

theorem evalAssign_all_step (ih : EOuter env f) (op : AsOp) (lhs rhs : List Node) (p : Pos)
    (hl : ∀ x ∈ lhs, SFree x) (hr : ∀ x ∈ rhs, SFree x) : AllM (evalAssign env (f+1) op lhs rhs p) := by
  have ih1 := ih.node; have ih4 := ih.search; have ih8 := ih.change
  rw [evalAssign.eq_def]; simp only []
  split
  · rename_i l r
    have hl' : SFree l := hl l (by simp)
    have hr' : SFree r := hr r (by simp)
    refine AllM.bind (ih1 r hr') (fun rv => ?_)
    cases hl' <;> simp only [] <;> scope_allm
  · scope_allm

theorem AllM.app {α} {m : EM α} (h : AllM m) (s : St) : AllRel OuterEq s (m s) := h s

theorem evalCall_all_step (ih : EOuter env f) (name : Bytes) (args : List Node) (np : Pos) (site : Nat)
    (ha : ∀ x ∈ args, SFree x) : AllM (evalCall env (f+1) name args np site) := by
  intro s
  simp only [evalCall]
  split
  · exact OuterEq.refl _
  · cases hfn : Fn.ofName name with
    | none => trivial
    | some fn =>
      simp only []
      have h := ih.builtin fn name args np site ha s
      generalize builtin env f fn name args np site s = r at h ⊢
      cases r <;> first | exact h | trivial

theorem put_all {sp : Bytes → TV → EM Unit} (h : ∀ k x, AllM (sp k x)) :
    ∀ l : List (Bytes × Val), AllM (builtin.put sp l) := by
  intro l
  induction l with
  | nil => simp only [builtin.put]; exact AllM.pure _
  | cons kv r ih =>
    obtain ⟨ck, cv⟩ := kv
    simp only [builtin.put]
    exact AllM.bind (h _ _) fun _ => ih

theorem builtin_all_step (ih : EOuter env f) (fn : Fn) (name : Bytes) (args : List Node) (np : Pos) (site : Nat)
    (ha : ∀ x ∈ args, SFree x) : AllM (builtin env (f+1) fn name args np site) := by
  have ih1 := ih.node; have ih2 := ih.list
  have ih9 := fun x => AllM.conv2str env x
  cases fn
  case addKey =>
    rw [builtin.eq_def]; simp only []; scope_allm
    rename_i k e _
    intro s
    dsimp only
    have h := ih.node e (ha e (by simp)) s
    generalize evalNode env f e s = r at h ⊢
    cases r <;> first | exact h | trivial
  case setMeasurement =>
    rw [builtin.eq_def]; simp only []
    split
    · rename_i a0 rest
      split
      · scope_allm
      · intro s
        dsimp only
        have h := ih.node a0 (ha a0 (by simp)) s
        generalize evalNode env f a0 s = r at h ⊢
        cases r <;> simp only []
        · repeat' split
          all_goals exact h
        · exact h
        all_goals trivial
    · scope_allm
  case use =>
    rw [builtin.eq_def]; simp only []; scope_allm
    rename_i cname stmts _
    intro s
    dsimp only
    generalize runStmts env (evalNode env f) f stmts { task := { name := cname, scopes := [[]] }, world := s.world } = r
    cases r <;> first | exact OuterEq.refl _ | trivial
  case printf =>
    rw [builtin.eq_def]; simp only []
    split
    · rename_i a0 rest
      intro s
      dsimp only
      have h := ih.node a0 (ha a0 (by simp)) s
      generalize evalNode env f a0 s = r at h ⊢
      cases r <;> simp only []
      · split
        · split
          · exact h
          · refine AllRel.trans h (AllM.app ?_ _)
            scope_allm
        · exact h
      · exact h
      all_goals trivial
    · scope_allm
  case grok =>
    rw [builtin.eq_def]; simp only []; scope_allm
    refine put_all (fun k x => ?_) _
    scope_allm
  all_goals (rw [builtin.eq_def]; simp only []; scope_allm)

theorem eouter_succ (ih : EOuter env f) : EOuter env (f+1) :=
  ⟨evalNode_all_step ih, evalList_all_step ih, evalMapLit_all_step ih, searchLM_all_step ih,
    changeLM_all_step ih, evalSlice_all_step ih, evalAssign_all_step ih, evalCall_all_step ih,
    builtin_all_step ih⟩

end

theorem eouter_all (env : Env) : ∀ f, EOuter env f
  | 0 => eouter_zero env
  | f+1 => eouter_succ (eouter_all env f)

end Platypus.ScopeProofs
