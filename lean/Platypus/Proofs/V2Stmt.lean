import Platypus.Proofs.V2Expr
/-!
Agreement of the two interpreters on simple statements (assignments, probe calls) and on the
statement machine (blocks, if/elif/else, for, for-in, break, continue).
-/
set_option linter.unusedSimpArgs false
namespace Platypus.V2Agree
open Platypus Platypus.V2 Platypus.MachineProofs Platypus.PanicProofs

variable {env : Env} {pt : Point} {BL BR BL1 BR1 : Prop}

def RT {α β} : α → β → St → Prop := fun _ _ _ => True

/-- the right side of a single assignment -/
theorem rhsVals_one {f : Nat} (ih : IH env pt f) (g : Nat) (e first : Node) (s : St) (he : SharedE e) :
    SimM pt (f ≥ g + 2) (g ≥ 2 * f + 2) (fun a b _ => b = [a] ∧ TagNil a) (evalNode env f e) (rhsVals env g [e] first 1 []) s := by
  cases g with
  | zero => rw [rhsVals]; exact SimM.fuelR _ _
  | succ g =>
    simp only [rhsVals]
    refine SimM.bind_r (ih.node g e s he) fun a b s1 hab => ?_
    refine SimM.getS_r ?_
    rw [hab.1]
    simp only [List.nil_append]
    cases g with
    | zero => rw [rhsVals]; exact SimM.fuelR _ _
    | succ g => simp only [rhsVals]; exact SimM.pure ⟨rfl, hab.2⟩

theorem setVarb_eq {name : Bytes} (hn : name ≠ underscore) (v : TV) : setVarb name v = setVar name v := by
  have hk : normKey name = name := by unfold normKey; rw [if_neg hn]
  unfold setVarb setVar
  rw [hk]

theorem valueOf_ident (g : Nat) (name : Bytes) (p : Pos) (s : St) :
    valueOf env (g+2) (.ident name p) s =
      match getVar s name with
      | some v => .ok v { s with task := { s.task with regs := [v] } }
      | none => .err (PlErr.new s.task.name p "name-not-defined") s := by
  simp only [valueOf, runExpr, bind_apply, getS_apply, rbind_ok]
  cases getVar s name with
  | none => rfl
  | some v => rfl

/-- assigning to a variable -/
theorem assignVar_sim (g : Nat) {name : Bytes} (p : Pos) (hn : name ≠ underscore) (v : TV) (hv : TagNil v) (s : St) :
    SimM pt BL (g ≥ 1) RT (setVarb name v >>= fun _ => (pure v : EM TV)) (assignTo env g (.ident name p) v) s := by
  cases g with
  | zero => rw [assignTo]; exact SimM.fuelR _ _
  | succ g =>
    simp only [assignTo]
    rw [setVarb_eq hn]
    exact SimM.modTask_pure rfl trivial (scOK_set name hv)

theorem simple_sim (hpt : NoKeys pt) (hpr : PrRegistered env) (f g : Nat) (n : Node) (s : St) (hn : Simple n) :
    SimM pt (f ≥ g + 3) (g ≥ 2 * f + 2) RT (evalNode env f n) (runExpr env g n) s := by
  have ihA := ih_all (env := env) hpt hpr
  cases hn
  case expr he => exact ((ihA f).node g n s he).mono fun _ _ _ _ => trivial
  case assignVar name e op p ap hname he =>
    cases f with
    | zero => rw [evalNode]; exact SimM.fuelL _ _
    | succ f =>
    cases f with
    | zero => simp only [evalNode]; rw [evalAssign]; exact SimM.fuelL _ _
    | succ f =>
    cases g with
    | zero => rw [runExpr]; exact SimM.fuelR _ _
    | succ g =>
    cases g with
    | zero => simp only [runExpr]; rw [assign2]; exact SimM.fuelR _ _
    | succ g =>
    simp only [evalNode, runExpr, evalAssign, assign2]
    refine SimM.bind (rhsVals_one (ihA f) g e e s he) fun rv vals s1 hv => ?_
    obtain ⟨rfl, hrv⟩ := hv
    simp only [List.length_cons, List.length_nil, ne_eq, not_true_eq_false, if_false]
    cases g with
    | zero => rw [assignAll]; exact SimM.fuelR _ _
    | succ g =>
    simp only [assignAll]
    cases hop : op.arith with
    | none =>
      simp only []
      cases g with
      | zero => rw [assignTo]; exact SimM.fuelR_bind _ _ _
      | succ g =>
        simp only [assignTo, assignAll]
        rw [setVarb_eq hname]
        exact SimM.modTask_bind rfl (SimM.pure trivial) (scOK_set name hrv)
    | some aop =>
      simp only [List.length_nil, List.isEmpty_nil, Bool.not_true]
      simp only [Nat.zero_add, ne_eq, not_true_eq_false, Bool.false_eq_true, or_self, if_false]
      refine SimM.getS_l ?_
      rw [getKey_proj hpt s1 hname]
      cases g with
      | zero => rw [valueOf]; exact SimM.fuelR_bind _ _ _
      | succ g =>
      cases g with
      | zero => simp only [valueOf]; rw [runExpr]; exact fun _ => Sim.fuelR (by bnd)
      | succ g =>
      intro hs1
      rw [bind_apply, valueOf_ident]
      cases hgv : getVar s1 name with
      | none => exact Sim.undef rfl
      | some lv =>
        simp only [rbind_ok]
        cases hv : arith aop lv rv with
        | error m => exact Sim.err' rfl rfl
        | ok v =>
          have h0 : SimM pt (f + 1 + 1 ≥ g + 1 + 1 + 1 + 1 + 1 + 3) (g + 1 + 1 + 1 + 1 + 1 ≥ 2 * (f + 1 + 1) + 2) RT _ _ _ :=
            (assignVar_sim (env := env) (BL := True) (g+1) p hname v (arith_nn hv).tagNil
              { s1 with task := { s1.task with regs := [lv] } }).w
          exact h0 hs1
  case assignIdx name idx e p lbs rbs ap hname hidx he =>
    cases f with
    | zero => rw [evalNode]; exact SimM.fuelL _ _
    | succ f =>
    cases f with
    | zero => simp only [evalNode]; rw [evalAssign]; exact SimM.fuelL _ _
    | succ f =>
    cases g with
    | zero => rw [runExpr]; exact SimM.fuelR _ _
    | succ g =>
    cases g with
    | zero => simp only [runExpr]; rw [assign2]; exact SimM.fuelR _ _
    | succ g =>
    simp only [evalNode, runExpr, evalAssign, assign2]
    refine SimM.bind (rhsVals_one (ihA f) g e e s he) fun rv vals s1 hv => ?_
    obtain ⟨rfl, hrv⟩ := hv
    simp only [List.length_cons, List.length_nil, ne_eq, not_true_eq_false, if_false]
    cases g with
    | zero => rw [assignAll]; exact SimM.fuelR _ _
    | succ g =>
    simp only [assignAll, AsOp.arith]
    cases g with
    | zero => rw [assignTo]; exact SimM.fuelR_bind _ _ _
    | succ g =>
    simp only [assignTo, assignAll]
    refine SimM.bind_r (R := RT) ?_ (fun a b s' _ => SimM.pure trivial)
    refine SimM.getS ?_
    rw [getKey_proj hpt s1 hname]
    cases hgv : getVar s1 name with
    | none => exact SimM.runErr _ _ _
    | some base => exact ((ihA f).change g base.v idx rv s1 hidx).w
  case probe name args np lp rp site hp hargs =>
    cases f with
    | zero => rw [evalNode]; exact SimM.fuelL _ _
    | succ f =>
    simp only [evalNode]
    cases g with
    | zero => rw [runExpr]; exact SimM.fuelR _ _
    | succ g =>
    cases f with
    | zero => rw [evalCall]; exact SimM.fuelL _ _
    | succ f =>
    cases f with
    | zero =>
      obtain ⟨fn, hof, hfn, -, -, -⟩ := ofName_probe hp
      intro hs
      simp only [evalCall, hof]
      split
      · simp only [runExpr, bind_apply, retSet, modTask_apply, rbind_ok]
        rename_i h
        have h' : env.fns.contains name = false := by simpa using h
        simp only [h', Bool.not_false, if_true, pure_apply]
        exact Sim.ok' rfl ⟨trivial, hs⟩
      · rw [builtin]; exact Sim.fuelL (by bnd)
    | succ f =>
      exact (call_sim ((ihA f).list f (Nat.le_refl _)) g name args np lp rp site s hp hargs).mono fun _ _ _ _ => trivial

/-! ### the statement machine -/

theorem pollB_proj (s : St) : pollB env (proj pt s) = pollB env s := rfl

theorem pollSt_proj (s : St) : pollSt env (proj pt s) = proj pt (pollSt env s) := by
  by_cases h : (!s.task.exit && env.hasSignal) = true
  · have h' : (!(proj pt s).task.exit && env.hasSignal) = true := h
    unfold pollSt
    rw [if_pos h, if_pos h']
    rfl
  · have h' : ¬ (!(proj pt s).task.exit && env.hasSignal) = true := h
    unfold pollSt
    rw [if_neg h, if_neg h']

theorem SimM.procExit_bind {γ δ} {R : γ → δ → St → Prop} {k1 : Bool → EM γ} {k2 : Bool → EM δ} {s : St}
    (h : ∀ b, SimM pt BL BR R (k1 b) (k2 b) (pollSt env s)) :
    SimM pt BL BR R (procExit env >>= k1) (procExit env >>= k2) s := by
  intro hs
  rw [bind_apply, bind_apply, procExit_apply, procExit_apply, pollB_proj, pollSt_proj, rbind_ok, rbind_ok]
  exact h _ (by unfold ScopesOK; rw [pollSt_scopes]; exact hs)

theorem SimM.stmtReturn_bind {γ δ} {R : γ → δ → St → Prop} {k1 : Bool → EM γ} {k2 : Bool → EM δ} {s : St}
    (h : ∀ b, SimM pt BL BR R (k1 b) (k2 b) (pollSt env s)) :
    SimM pt BL BR R (stmtReturn env >>= k1) (stmtReturn env >>= k2) s := by
  intro hs
  rw [bind_apply, bind_apply, stmtReturn_apply, stmtReturn_apply, pollB_proj, pollSt_proj, rbind_ok, rbind_ok]
  exact h _ (by unfold ScopesOK; rw [pollSt_scopes]; exact hs)

theorem SimM.pushScope_bind {γ δ} {R : γ → δ → St → Prop} {k1 : Unit → EM γ} {k2 : Unit → EM δ} {s : St}
    (h : SimM pt BL BR R (k1 ()) (k2 ()) { s with task := { s.task with scopes := [] :: s.task.scopes } }) :
    SimM pt BL BR R (pushScope >>= k1) (pushScope >>= k2) s :=
  SimM.modTask_bind (g := fun t => { t with scopes := [] :: t.scopes }) rfl h

theorem SimM.popScope_bind {γ δ} {R : γ → δ → St → Prop} {k1 : Unit → EM γ} {k2 : Unit → EM δ} {s : St}
    (h : SimM pt BL BR R (k1 ()) (k2 ()) { s with task := { s.task with scopes := s.task.scopes.tail } }) :
    SimM pt BL BR R (popScope >>= k1) (popScope >>= k2) s :=
  SimM.modTask_bind (g := fun t => { t with scopes := t.scopes.tail }) rfl h

theorem SimM.popScope {R : Unit → Unit → St → Prop} {s : St}
    (h : R () () { s with task := { s.task with scopes := s.task.scopes.tail } }) :
    SimM pt BL BR R popScope popScope s :=
  SimM.modTask (g := fun t => { t with scopes := t.scopes.tail }) rfl h

theorem SimM.clearScope_bind {γ δ} {R : γ → δ → St → Prop} {k1 : Unit → EM γ} {k2 : Unit → EM δ} {s : St}
    (h : SimM pt BL BR R (k1 ()) (k2 ()) { s with task := { s.task with scopes := match s.task.scopes with | [] => [] | _ :: r => [] :: r } }) :
    SimM pt BL BR R (clearScope >>= k1) (clearScope >>= k2) s :=
  SimM.modTask_bind (g := fun t => { t with scopes := match t.scopes with | [] => [] | _ :: r => [] :: r }) rfl h

section machine
variable (env) (pt) (fe : Nat)

/-- the contracts of the machine functions at v1 machine fuel `fm` (evaluator fuel `fe`, any v2 fuel) -/
structure IHM (fm : Nat) : Prop where
  stmt : ∀ g n s, SharedS n → SimM pt (fe ≥ g + 3 ∧ fm ≥ g + 1) (g ≥ fm + 2 * fe + 2) RT (runStmt env (evalNode env fe) fm n) (runExpr env g n) s
  stmts : ∀ g ns s, SharedL ns → SimM pt (fe ≥ g + 3 ∧ fm ≥ g + 1) (g ≥ fm + 2 * fe + 2) RT (runStmts env (evalNode env fe) fm ns) (stmts2 env g ns) s
  ifs : ∀ g (ifs : List (Node × Option (List Node) × Pos)) els s, (∀ c, c ∈ ifs → SharedE c.1) →
    (∀ c, c ∈ ifs → ∀ b, c.2.1 = some b → SharedL b) → (∀ b, els = some b → SharedL b) →
    SimM pt (fe ≥ g + 3 ∧ fm ≥ g + 1) (g ≥ fm + 2 * fe + 2) RT (runIfs env (evalNode env fe) fm ifs els) (ifs2 env g ifs els) s
  forL : ∀ g c l body s, (∀ x, c = some x → SharedE x) → (∀ x, l = some x → Simple x) →
    (∀ b, body = some b → SharedL b) →
    SimM pt (fe ≥ g + 3 ∧ fm ≥ g + 1) (g ≥ fm + 2 * fe + 2) RT (forLoop env (evalNode env fe) fm c l body) (for2 env g c l body) s
  forIn : ∀ g name p it ip body s, name ≠ underscore → (∀ b, body = some b → SharedL b) →
    SimM pt (fe ≥ g + 3 ∧ fm ≥ g + 1) (g ≥ fm + 2 * fe + 2) RT (forIn env (evalNode env fe) fm (.ident name p) it ip body) (forIn2 env g (.ident name p) it ip body) s
  forInStr : ∀ g name p rs body s, name ≠ underscore → (∀ b, body = some b → SharedL b) →
    SimM pt (fe ≥ g + 3 ∧ fm ≥ g + 1) (g ≥ fm + 2 * fe + 2) RT (forInStr env (evalNode env fe) fm (.ident name p) rs body) (forInStr2 env g (.ident name p) rs body) s
  forInItems : ∀ g name p ip items live body s, name ≠ underscore → (∀ b, body = some b → SharedL b) →
    (∀ x, x ∈ items → TagNil x) →
    SimM pt (fe ≥ g + 3 ∧ fm ≥ g + 1) (g ≥ fm + 2 * fe + 2) RT (forInItems env (evalNode env fe) fm (.ident name p) ip items live body)
      (forInItems2 env g (.ident name p) ip items live body) s

end machine

section
variable {fe fm : Nat}

theorem runStmt_simple (ev : Node → EM TV) {n : Node} (hn : Simple n) : runStmt env ev (fm+1) n = ev n := by
  cases hn
  case expr he => cases he <;> simp only [runStmt]
  all_goals simp only [runStmt]

theorem stmtSimple_sim (hpt : NoKeys pt) (hpr : PrRegistered env) (fm' g : Nat) (n : Node) (s : St) (hn : Simple n) :
    SimM pt (fe ≥ g + 3 ∧ fm' ≥ g + 1) (g ≥ fm' + 2 * fe + 2) RT (runStmt env (evalNode env fe) fm' n) (runExpr env g n) s := by
  cases fm' with
  | zero => rw [runStmt]; exact SimM.fuelL _ _
  | succ k => rw [runStmt_simple _ hn]; exact (simple_sim hpt hpr fe g n s hn).w

theorem stmtValue_sim (hpt : NoKeys pt) (hpr : PrRegistered env) (fm' g : Nat) (e : Node) (s : St) (he : SharedE e) :
    SimM pt (fe ≥ g + 3 ∧ fm' ≥ g + 1) (g ≥ fm' + 2 * fe + 2) (RE e) (runStmt env (evalNode env fe) fm' e) (valueOf env g e) s := by
  cases fm' with
  | zero => rw [runStmt]; exact SimM.fuelL _ _
  | succ k => rw [runStmt_simple _ (.expr he)]; exact (value_sim (ih_all hpt hpr fe) g e s he).w

end

section
variable {fe fm : Nat}

theorem runStmt_step (hpt : NoKeys pt) (hpr : PrRegistered env) (ih : IHM env pt fe fm) (g : Nat) (n : Node) (s : St)
    (hn : SharedS n) : SimM pt (fe ≥ g + 3 ∧ fm + 1 ≥ g + 1) (g ≥ fm + 1 + 2 * fe + 2) RT (runStmt env (evalNode env fe) (fm+1) n) (runExpr env g n) s := by
  cases hn
  case simple hs => exact stmtSimple_sim hpt hpr (fm+1) g n s hs
  case ifelse ifs els p hc hb he =>
    cases g with
    | zero => rw [runExpr]; exact SimM.fuelR _ _
    | succ g =>
    simp only [runStmt, runExpr]
    refine SimM.finally (R := RT) ?_ (fun _ _ _ _ => trivial)
    exact SimM.pushScope_bind (ih.ifs g ifs els _ hc hb he).w
  case forS ini cnd lp body p hi hc hl hb =>
    cases g with
    | zero => rw [runExpr]; exact SimM.fuelR _ _
    | succ g =>
    simp only [runStmt, runExpr]
    refine SimM.finally (R := RT) ?_ (fun _ _ _ _ => trivial)
    refine SimM.pushScope_bind ?_
    cases ini with
    | none =>
      simp only []
      exact (ih.forL g cnd lp body _ hc hl hb).w
    | some i =>
      simp only []
      refine SimM.bind (stmtSimple_sim hpt hpr fm g i _ (hi i rfl)) fun _ _ s1 _ => ?_
      exact (ih.forL g cnd lp body s1 hc hl hb).w
  case forIn name iter body p fp ip hname hiter hb =>
    cases g with
    | zero => rw [runExpr]; exact SimM.fuelR _ _
    | succ g =>
    simp only [runStmt, runExpr]
    refine SimM.finally (R := RT) ?_ (fun _ _ _ _ => trivial)
    refine SimM.pushScope_bind ?_
    refine SimM.bind (stmtValue_sim hpt hpr fm g iter _ hiter) fun it it' s1 hit => ?_
    obtain ⟨rfl, -⟩ := hit
    refine SimM.finally (R := RT) ?_ (fun _ _ _ _ => trivial)
    refine SimM.pushScope_bind ?_
    exact (ih.forIn g name p it _ body _ hname hb).w
  case brk p =>
    cases g with
    | zero => rw [runExpr]; exact SimM.fuelR _ _
    | succ g =>
    simp only [runStmt, runExpr]
    exact SimM.modTask_pure rfl trivial
  case cont p =>
    cases g with
    | zero => rw [runExpr]; exact SimM.fuelR _ _
    | succ g =>
    simp only [runStmt, runExpr]
    exact SimM.modTask_pure rfl trivial
end

section
variable {fe fm : Nat}

theorem runStmts_step (ih : IHM env pt fe fm) (g : Nat) (ns : List Node) (s : St)
    (hns : SharedL ns) : SimM pt (fe ≥ g + 3 ∧ fm + 1 ≥ g + 1) (g ≥ fm + 1 + 2 * fe + 2) RT (runStmts env (evalNode env fe) (fm+1) ns) (stmts2 env g ns) s := by
  cases g with
  | zero => rw [stmts2]; exact SimM.fuelR _ _
  | succ g =>
  cases ns with
  | nil => simp only [runStmts, stmts2]; exact SimM.pure trivial
  | cons n rest =>
    intro hs
    have hs' : ScopesOK (pollSt env s) := by unfold ScopesOK; rw [pollSt_scopes]; exact hs
    simp only [runStmts, stmts2]
    rw [stmtReturn_apply, stmtReturn_apply, pollB_proj, pollSt_proj]
    simp only [proj_brk, proj_cont]
    cases hb : (pollB env s || (s.task.brk || s.task.cont))
    · simp only []
      have h0 : SimM pt (fe ≥ g + 1 + 3 ∧ fm + 1 ≥ g + 1 + 1) (g + 1 ≥ fm + 1 + 2 * fe + 2) RT _ _ _ :=
        (ih.stmt g n (pollSt env s) (hns n List.mem_cons_self)).w
      have h := h0 hs'
      revert h
      generalize runStmt env (evalNode env fe) fm n (proj pt (pollSt env s)) = r1
      generalize runExpr env g n (pollSt env s) = r2
      intro h
      cases h with
      | ok h =>
        rename_i s''
        have h1 : SimM pt (fe ≥ g + 1 + 3 ∧ fm + 1 ≥ g + 1 + 1) (g + 1 ≥ fm + 1 + 2 * fe + 2) RT _ _ s'' :=
          (ih.stmts g rest s'' (fun x hx => hns x (List.mem_cons_of_mem _ hx))).w
        exact h1 h.2
      | err => exact Sim.err' rfl rfl
      | panic => exact .panic
      | need => exact .need
      | fuelL h => exact .fuelL h
      | fuelR h => exact .fuelR h
      | fuelB => exact .fuelB
      | undef h => exact .undef h
    · exact Sim.ok' rfl ⟨trivial, hs'⟩
end

section
variable {fe fm : Nat}

/-- an `if`/`else` block: own scope -/
theorem ifBlock_sim (ih : IHM env pt fe fm) (g : Nat) (b : List Node) (s : St) (hb : SharedL b) :
    SimM pt (fe ≥ g + 3 ∧ fm ≥ g + 1) (g ≥ fm + 2 * fe + 2) RT (do pushScope; runStmts env (evalNode env fe) fm b; popScope; pure voidTV)
      (do pushScope; stmts2 env g b; popScope) s := by
  refine SimM.pushScope_bind ?_
  refine SimM.bind (ih.stmts g b _ hb) fun _ _ s1 _ => ?_
  exact SimM.modTask_pure (g := fun t => { t with scopes := t.scopes.tail }) rfl trivial

/-- a loop body block -/
theorem loopBlock_sim (ih : IHM env pt fe fm) (g : Nat) (b : List Node) (s : St) (hb : SharedL b) :
    SimM pt (fe ≥ g + 3 ∧ fm ≥ g + 1) (g ≥ fm + 2 * fe + 2) RT (do pushScope; runStmts env (evalNode env fe) fm b; popScope)
      (do pushScope; stmts2 env g b; popScope) s := by
  refine SimM.pushScope_bind ?_
  refine SimM.bind (ih.stmts g b _ hb) fun _ _ s1 _ => ?_
  exact SimM.popScope trivial

theorem runIfs_step (hpt : NoKeys pt) (hpr : PrRegistered env) (ih : IHM env pt fe fm) (g : Nat)
    (ifs : List (Node × Option (List Node) × Pos)) (els : Option (List Node)) (s : St)
    (hc : ∀ c, c ∈ ifs → SharedE c.1) (hb : ∀ c, c ∈ ifs → ∀ b, c.2.1 = some b → SharedL b)
    (he : ∀ b, els = some b → SharedL b) :
    SimM pt (fe ≥ g + 3 ∧ fm + 1 ≥ g + 1) (g ≥ fm + 1 + 2 * fe + 2) RT (runIfs env (evalNode env fe) (fm+1) ifs els) (ifs2 env g ifs els) s := by
  cases g with
  | zero => rw [ifs2]; exact SimM.fuelR _ _
  | succ g =>
  cases ifs with
  | nil =>
    simp only [runIfs, ifs2]
    cases els with
    | none => exact SimM.pure trivial
    | some b => exact (ifBlock_sim ih g b s (he b rfl)).w
  | cons c rest =>
    obtain ⟨cn, blk, cp⟩ := c
    simp only [runIfs, ifs2]
    refine SimM.bind (stmtValue_sim hpt hpr fm g cn s (hc _ List.mem_cons_self)) fun v v' s1 hv => ?_
    obtain ⟨rfl, -⟩ := hv
    refine SimM.getS ?_
    by_cases hct : condTrue s1.world.heap v = true
    · have hct' : condTrue (proj pt s1).world.heap v = true := hct
      rw [if_pos hct, if_pos hct']
      cases blk with
      | none => exact SimM.pure trivial
      | some b => exact (ifBlock_sim ih g b s1 (hb _ List.mem_cons_self b rfl)).w
    · have hct' : ¬ condTrue (proj pt s1).world.heap v = true := hct
      rw [if_neg hct, if_neg hct']
      exact (ih.ifs g rest els s1 (fun x hx => hc x (List.mem_cons_of_mem _ hx))
        (fun x hx => hb x (List.mem_cons_of_mem _ hx)) he).w
end

section
variable {fe fm : Nat}

/-- the end of a loop iteration: break, continue, exit test, then the rest `k` -/
theorem loopTail_sim {k1 : EM TV} {k2 : EM Unit} (hk : ∀ s', SimM pt BL BR RT k1 k2 s') (s : St) :
    SimM pt BL BR RT
      (getS >>= fun s =>
        if s.task.brk = true then (modTask (fun t => { t with brk := false }) >>= fun _ => pure voidTV)
        else if s.task.cont = true then
          (modTask (fun t => { t with cont := false }) >>= fun _ =>
            stmtReturn env >>= fun r => if r = true then pure voidTV else k1)
        else (stmtReturn env >>= fun r => if r = true then pure voidTV else k1))
      (getS >>= fun s =>
        if s.task.brk = true then (modTask (fun t => { t with brk := false }) >>= fun _ => pure ())
        else if s.task.cont = true then
          (modTask (fun t => { t with cont := false }) >>= fun _ =>
            stmtReturn env >>= fun r => if r = true then pure () else k2)
        else (stmtReturn env >>= fun r => if r = true then pure () else k2)) s := by
  refine SimM.getS ?_
  have tail : ∀ s', SimM pt BL BR RT (stmtReturn env >>= fun r => if r = true then pure voidTV else k1)
      (stmtReturn env >>= fun r => if r = true then pure () else k2) s' := by
    intro s'
    refine SimM.stmtReturn_bind fun r => ?_
    cases r
    · simp only [Bool.false_eq_true, if_false]; exact hk _
    · simp only [if_true]; exact SimM.pure trivial
  by_cases hbrk : s.task.brk = true
  · have hbrk' : (proj pt s).task.brk = true := hbrk
    rw [if_pos hbrk, if_pos hbrk']
    exact SimM.modTask_bind rfl (SimM.pure trivial)
  · have hbrk' : ¬ (proj pt s).task.brk = true := hbrk
    rw [if_neg hbrk, if_neg hbrk']
    by_cases hc : s.task.cont = true
    · have hc' : (proj pt s).task.cont = true := hc
      rw [if_pos hc, if_pos hc']
      exact SimM.modTask_bind rfl (tail _)
    · have hc' : ¬ (proj pt s).task.cont = true := hc
      rw [if_neg hc, if_neg hc']
      exact tail _

theorem forLoop_step (hpt : NoKeys pt) (hpr : PrRegistered env) (ih : IHM env pt fe fm) (g : Nat)
    (c l : Option Node) (body : Option (List Node)) (s : St)
    (hc : ∀ x, c = some x → SharedE x) (hl : ∀ x, l = some x → Simple x) (hb : ∀ b, body = some b → SharedL b) :
    SimM pt (fe ≥ g + 3 ∧ fm + 1 ≥ g + 1) (g ≥ fm + 1 + 2 * fe + 2) RT (forLoop env (evalNode env fe) (fm+1) c l body) (for2 env g c l body) s := by
  cases g with
  | zero => rw [for2]; exact SimM.fuelR _ _
  | succ g =>
    simp only [forLoop, for2]
    refine SimM.procExit_bind fun b => ?_
    cases b
    case true => simp only [if_true]; exact SimM.pure trivial
    simp only [Bool.false_eq_true, if_false]
    have hrest : ∀ s', SimM pt (fe ≥ g + 1 + 3 ∧ fm + 1 ≥ g + 1 + 1) (g + 1 ≥ fm + 1 + 2 * fe + 2) RT
        (match l with
          | some ln => do
            let _ ← runStmt env (evalNode env fe) fm ln
            forLoop env (evalNode env fe) fm c l body
          | none => forLoop env (evalNode env fe) fm c l body)
        (match l with
          | some ln => do
            runExpr env g ln
            for2 env g c l body
          | none => for2 env g c l body) s' := by
      intro s'
      cases l with
      | none => exact (ih.forL g c none body s' hc hl hb).w
      | some ln =>
        simp only []
        refine SimM.bind (stmtSimple_sim hpt hpr fm g ln s' (hl ln rfl)) fun _ _ s1 _ => ?_
        exact (ih.forL g c (some ln) body s1 hc hl hb).w
    refine SimM.bind (R := fun a b _ => a = b) ?_ fun go go' s1 hgo => ?_
    · cases c with
      | none => exact SimM.pure rfl
      | some cn =>
        simp only []
        refine SimM.bind (stmtValue_sim hpt hpr fm g cn _ (hc cn rfl)) fun v v' s1 hv => ?_
        obtain ⟨rfl, -⟩ := hv
        refine SimM.getS ?_
        exact SimM.pure rfl
    subst hgo
    cases go
    case false => simp only [Bool.not_false, if_true]; exact SimM.pure trivial
    simp only [Bool.not_true, Bool.false_eq_true, if_false]
    cases body with
    | none => exact loopTail_sim hrest s1
    | some b =>
      simp only []
      refine SimM.pushScope_bind ?_
      refine SimM.bind (ih.stmts g b _ (hb b rfl)) fun _ _ s2 _ => ?_
      refine SimM.popScope_bind ?_
      exact loopTail_sim hrest _
end

section
variable {fe fm : Nat}

theorem forIn_step (ih : IHM env pt fe fm) (g : Nat) (name : Bytes) (p : Pos) (it : TV) (ip : Pos)
    (body : Option (List Node)) (s : St) (hname : name ≠ underscore) (hb : ∀ b, body = some b → SharedL b) :
    SimM pt (fe ≥ g + 3 ∧ fm + 1 ≥ g + 1) (g ≥ fm + 1 + 2 * fe + 2) RT (forIn env (evalNode env fe) (fm+1) (.ident name p) it ip body)
      (forIn2 env g (.ident name p) it ip body) s := by
  cases g with
  | zero => rw [forIn2]; exact SimM.fuelR _ _
  | succ g =>
    simp only [forIn, forIn2]
    obtain ⟨iv, itt⟩ := it
    cases itt <;> simp only [] <;> first
      | exact SimM.runErr _ _ _
      | skip
    · -- str
      cases iv <;> simp only [] <;> first
        | exact SimM.runErr _ _ _
        | exact (ih.forInStr g name p _ body s hname hb).w
    · -- list
      refine SimM.getS ?_
      cases iv <;> simp only [] <;> first
        | exact SimM.runErr _ _ _
        | skip
      rename_i a
      simp only [proj_heap]
      cases hg : s.world.heap.get? a with
      | none => exact SimM.runErr _ _ _
      | some o =>
        cases o with
        | map kvs => exact SimM.runErr _ _ _
        | list xs => exact (ih.forInItems g name p ip [] _ body s hname hb (fun _ h => nomatch h)).w
    · -- map
      refine SimM.getS ?_
      cases iv <;> simp only [] <;> first
        | exact SimM.runErr _ _ _
        | skip
      rename_i a
      simp only [proj_heap, proj_mapIters]
      cases hg : s.world.heap.get? a with
      | none => exact SimM.runErr _ _ _
      | some o =>
        cases o with
        | list xs => exact SimM.runErr _ _ _
        | map kvs =>
          simp only []
          refine SimM.modWorld_bind rfl ?_
          refine (ih.forInItems g name p ip _ _ body _ hname hb (fun x hx => ?_)).w
          obtain ⟨k, _, rfl⟩ := List.mem_map.1 hx
          exact tagNil_str k

theorem forInStr_step (ih : IHM env pt fe fm) (g : Nat) (name : Bytes) (p : Pos) (rs : List Bytes)
    (body : Option (List Node)) (s : St) (hname : name ≠ underscore) (hb : ∀ b, body = some b → SharedL b) :
    SimM pt (fe ≥ g + 3 ∧ fm + 1 ≥ g + 1) (g ≥ fm + 1 + 2 * fe + 2) RT (forInStr env (evalNode env fe) (fm+1) (.ident name p) rs body)
      (forInStr2 env g (.ident name p) rs body) s := by
  cases g with
  | zero => rw [forInStr2]; exact SimM.fuelR _ _
  | succ g =>
  cases rs with
  | nil => simp only [forInStr, forInStr2]; exact SimM.pure trivial
  | cons r rest =>
    simp only [forInStr, forInStr2]
    rw [setVarb_eq hname]
    refine SimM.modTask_bind (g := fun t => { t with scopes := scopeSet t.scopes name ⟨.str r, .str⟩ }) rfl ?_
      (scOK_set name (tagNil_str r))
    have hrest : ∀ s', SimM pt (fe ≥ g + 1 + 3 ∧ fm + 1 ≥ g + 1 + 1) (g + 1 ≥ fm + 1 + 2 * fe + 2) RT
        (forInStr env (evalNode env fe) fm (Node.ident name p) rest body)
        (forInStr2 env g (Node.ident name p) rest body) s' := fun s' => (ih.forInStr g name p rest body s' hname hb).w
    cases body with
    | none =>
      simp only []
      refine SimM.clearScope_bind ?_
      exact loopTail_sim hrest _
    | some b =>
      simp only []
      refine SimM.bind (ih.stmts g b _ (hb b rfl)) fun _ _ s2 _ => ?_
      refine SimM.clearScope_bind ?_
      exact loopTail_sim hrest _

theorem forInItems_step (ih : IHM env pt fe fm) (g : Nat) (name : Bytes) (p : Pos) (ip : Pos) (items : List TV)
    (live : Option (Nat × Nat × Nat)) (body : Option (List Node)) (s : St) (hname : name ≠ underscore)
    (hb : ∀ b, body = some b → SharedL b) (hitems : ∀ x, x ∈ items → TagNil x) :
    SimM pt (fe ≥ g + 3 ∧ fm + 1 ≥ g + 1) (g ≥ fm + 1 + 2 * fe + 2) RT (forInItems env (evalNode env fe) (fm+1) (.ident name p) ip items live body)
      (forInItems2 env g (.ident name p) ip items live body) s := by
  cases g with
  | zero => rw [forInItems2]; exact SimM.fuelR _ _
  | succ g =>
    simp only [forInItems, forInItems2]
    refine SimM.bind (R := fun a b _ => a = b ∧ ∀ x it lv, a = some (x, it, lv) → TagNil x ∧ ∀ y, y ∈ it → TagNil y)
      ?_ fun next next' s1 hnext => ?_
    · cases live with
      | none =>
        simp only []
        cases items with
        | nil => exact SimM.pure ⟨rfl, fun _ _ _ h => nomatch h⟩
        | cons x r =>
          refine SimM.pure ⟨rfl, fun _ _ _ h => ?_⟩
          cases h
          exact ⟨hitems _ List.mem_cons_self, fun y hy => hitems y (List.mem_cons_of_mem _ hy)⟩
      | some l =>
        obtain ⟨a, i, n⟩ := l
        simp only []
        by_cases hin : i < n
        · rw [if_pos hin, if_pos hin]
          refine SimM.getS ?_
          refine SimM.pure ⟨rfl, fun _ _ _ h => ?_⟩
          cases h
          exact ⟨tagNil_detect _ _, fun _ h => nomatch h⟩
        · rw [if_neg hin, if_neg hin]
          exact SimM.pure ⟨rfl, fun _ _ _ h => nomatch h⟩
    obtain ⟨hnext, hnx⟩ := hnext
    subst hnext
    cases next with
    | none => exact SimM.pure trivial
    | some nx =>
      obtain ⟨x, items', live'⟩ := nx
      obtain ⟨hxt, hits⟩ := hnx x items' live' rfl
      simp only []
      refine SimM.clearScope_bind ?_
      by_cases hx : x.t = DType.invalid
      · rw [if_pos hx, if_pos hx]; exact SimM.runErr _ _ _
      rw [if_neg hx, if_neg hx]
      rw [setVarb_eq hname]
      refine SimM.modTask_bind (g := fun t => { t with scopes := scopeSet t.scopes name x }) rfl ?_ (scOK_set name hxt)
      have hrest : ∀ s', SimM pt (fe ≥ g + 1 + 3 ∧ fm + 1 ≥ g + 1 + 1) (g + 1 ≥ fm + 1 + 2 * fe + 2) RT
          (forInItems env (evalNode env fe) fm (Node.ident name p) ip items' live' body)
          (forInItems2 env g (Node.ident name p) ip items' live' body) s' :=
        fun s' => (ih.forInItems g name p ip items' live' body s' hname hb hits).w
      cases body with
      | none => exact loopTail_sim hrest _
      | some b =>
        simp only []
        refine SimM.bind (ih.stmts g b _ (hb b rfl)) fun _ _ s2 _ => ?_
        exact loopTail_sim hrest _

theorem ihm_all (hpt : NoKeys pt) (hpr : PrRegistered env) (fe : Nat) : ∀ fm, IHM env pt fe fm := by
  intro fm
  induction fm with
  | zero =>
    refine ⟨?_, ?_, ?_, ?_, ?_, ?_, ?_⟩
    · intro g n s _; rw [runStmt]; exact SimM.fuelL _ _
    · intro g ns s _; rw [runStmts]; exact SimM.fuelL _ _
    · intro g ifs els s _ _ _; rw [runIfs]; exact SimM.fuelL _ _
    · intro g c l body s _ _ _; rw [forLoop]; exact SimM.fuelL _ _
    · intro g name p it ip body s _ _; rw [forIn]; exact SimM.fuelL _ _
    · intro g name p rs body s _ _; rw [forInStr]; exact SimM.fuelL _ _
    · intro g name p ip items live body s _ _ _; rw [forInItems]; exact SimM.fuelL _ _
  | succ fm ih =>
    exact ⟨runStmt_step hpt hpr ih, runStmts_step ih, runIfs_step hpt hpr ih, forLoop_step hpt hpr ih,
      forIn_step ih, forInStr_step ih, forInItems_step ih⟩
end

end Platypus.V2Agree
