import Platypus.Spec.PosOrder
import Platypus.Proofs.ParsePosFacts
/-!
# C17 (tree part) helper, part 5: the source-order invariant and its building blocks

`Good r t`: every position stored in `t` is smaller than the offset of every item of `r` (`Bef`: the
tree was built from tokens before the leftover `r`), and `t` is `sourceOrdered`.  `Aft ts t`: every
position of `t` is the offset of an item of `ts` (from `AllOk`).  One constructor lemma per node kind.
-/
set_option linter.unusedSimpArgs false
set_option linter.unusedVariables false
namespace Platypus.ParsePos
open Platypus.Lex (Tok Item)
open Platypus.Parse

/-- `p` is before every item of `r` -/
def Lt (p : Nat) (r : List Item) : Prop := ∀ k ∈ r, p < k.pos
def Bef (r : List Item) (t : PP) : Prop := ∀ q ∈ t.allPos, Lt q r
def Good (r : List Item) (t : PP) : Prop := Bef r t ∧ t.sourceOrdered
def GoodL (r : List Item) (xs : List PP) : Prop := ∀ x ∈ xs, Good r x
def GoodO (r : List Item) (x : Option PP) : Prop := ∀ y, x = some y → Good r y
def GoodKV (r : List Item) (xs : List (PP × PP)) : Prop := ∀ kv ∈ xs, Good r kv.1 ∧ Good r kv.2
/-- every position of `t` is the offset of an item of `ts` -/
def Aft (ts : List Item) (t : PP) : Prop := ∀ q ∈ t.allPos, ∃ j ∈ ts, j.pos = q

theorem PP.allPos_eq (t : PP) : t.allPos = t.ownFacts.map (·.1) ++ t.children.flatMap PP.allPos := by
  have : PP.allPos = fun t => t.posFacts.map (·.1) := rfl
  rw [this]
  show List.map _ t.posFacts = _
  rw [PP.posFacts_eq]
  simp [List.map_flatMap]

theorem so_iff {t : PP} : t.sourceOrdered ↔ t.orderOk ∧ ∀ c ∈ t.children, c.sourceOrdered := by
  unfold PP.sourceOrdered
  rw [PP.nodes_eq]
  simp only [List.mem_cons, List.mem_flatMap]
  constructor
  · intro h
    exact ⟨h t (Or.inl rfl), fun c hc n hn => h n (Or.inr ⟨c, hc, hn⟩)⟩
  · rintro ⟨h1, h2⟩ n (rfl | ⟨c, hc, hn⟩)
    · exact h1
    · exact h2 c hc n hn

theorem bef_iff {r : List Item} {t : PP} :
    Bef r t ↔ (∀ pk ∈ t.ownFacts, Lt pk.1 r) ∧ ∀ c ∈ t.children, Bef r c := by
  unfold Bef
  rw [PP.allPos_eq]
  simp only [List.mem_append, List.mem_map, List.mem_flatMap]
  constructor
  · intro h
    exact ⟨fun pk hpk => h _ (Or.inl ⟨pk, hpk, rfl⟩), fun c hc q hq => h q (Or.inr ⟨c, hc, hq⟩)⟩
  · rintro ⟨h1, h2⟩ q (⟨pk, hpk, rfl⟩ | ⟨c, hc, hq⟩)
    · exact h1 pk hpk
    · exact h2 c hc q hq

theorem good_iff {r : List Item} {t : PP} :
    Good r t ↔ (∀ pk ∈ t.ownFacts, Lt pk.1 r) ∧ t.orderOk ∧ ∀ c ∈ t.children, Good r c := by
  unfold Good
  rw [bef_iff, so_iff]
  constructor
  · rintro ⟨⟨a, b⟩, c, d⟩
    exact ⟨a, c, fun x hx => ⟨b x hx, d x hx⟩⟩
  · rintro ⟨a, c, d⟩
    exact ⟨⟨a, fun x hx => (d x hx).1⟩, c, fun x hx => (d x hx).2⟩

theorem Lt.mono {p : Nat} {r r' : List Item} (h : Lt p r) (hs : r' <:+ r) : Lt p r' :=
  fun k hk => h k (hs.subset hk)
theorem Good.mono {r r' : List Item} {t : PP} (h : Good r t) (hs : r' <:+ r) : Good r' t :=
  ⟨fun q hq => (h.1 q hq).mono hs, h.2⟩
theorem GoodL.mono {r r' : List Item} {xs : List PP} (h : GoodL r xs) (hs : r' <:+ r) : GoodL r' xs :=
  fun x hx => (h x hx).mono hs
theorem GoodO.mono {r r' : List Item} {x : Option PP} (h : GoodO r x) (hs : r' <:+ r) : GoodO r' x :=
  fun y hy => (h y hy).mono hs
theorem GoodKV.mono {r r' : List Item} {xs : List (PP × PP)} (h : GoodKV r xs) (hs : r' <:+ r) :
    GoodKV r' xs :=
  fun kv hkv => ⟨(h kv hkv).1.mono hs, (h kv hkv).2.mono hs⟩

theorem GoodL.nil {r} : GoodL r [] := by intro x hx; cases hx
theorem GoodL.append {r a b} (ha : GoodL r a) (hb : GoodL r b) : GoodL r (a ++ b) := by
  intro x hx; rcases List.mem_append.1 hx with h | h
  · exact ha x h
  · exact hb x h
theorem GoodL.single {r x} (h : Good r x) : GoodL r [x] := by
  intro y hy; simp at hy; subst hy; exact h
theorem GoodL.snoc {r a x} (ha : GoodL r a) (h : Good r x) : GoodL r (a ++ [x]) :=
  ha.append (GoodL.single h)
theorem GoodO.none {r} : GoodO r none := by intro y hy; cases hy
theorem GoodO.some {r x} (h : Good r x) : GoodO r (some x) := by
  intro y hy; cases hy; exact h
theorem GoodO.toList {r x} (h : GoodO r x) : GoodL r x.toList := by
  intro y hy; cases x with
  | none => simp at hy
  | some z => simp at hy; subst hy; exact h _ rfl
theorem GoodKV.nil {r} : GoodKV r [] := by intro x hx; cases hx
theorem GoodKV.snoc {r a k v} (ha : GoodKV r a) (hk : Good r k) (hv : Good r v) :
    GoodKV r (a ++ [(k, v)]) := by
  intro x hx; rcases List.mem_append.1 hx with h | h
  · exact ha x h
  · simp at h; subst h; exact ⟨hk, hv⟩

/-! ### positions of a tree come from the items it was parsed from -/

theorem aft_of_allOk {ts : List Item} {t : PP} (h : AllOk ts t) : Aft ts t := by
  intro q hq
  simp only [PP.allPos, PP.posFacts, List.mem_map, List.mem_flatMap] at hq
  obtain ⟨pk, ⟨n, hn, hpk⟩, rfl⟩ := hq
  obtain ⟨j, hj, h1, _⟩ := (h n hn).1 pk hpk
  exact ⟨j, hj, h1⟩

theorem Aft.mono {ts ts' : List Item} {t : PP} (h : Aft ts t) (hs : ts <:+ ts') : Aft ts' t := by
  intro q hq
  obtain ⟨j, hj, h1⟩ := h q hq
  exact ⟨j, hs.subset hj, h1⟩

/-- under increasing offsets, the head of `ts` is before everything after it -/
theorem hp_lt_all {ts0 ts r : List Item} (h0 : Sorted ts0) (hs : ts <:+ ts0) (hr : r <:+ ts.drop 1) :
    Lt (hp ts) r :=
  fun k hk => hp_lt h0 hs hr ⟨k, hk, rfl, rfl⟩

/-- … and before every position of a tree parsed from what is after it -/
theorem hp_lt_aft {ts0 ts r : List Item} {t : PP} (h0 : Sorted ts0) (hs : ts <:+ ts0)
    (hr : r <:+ ts.drop 1) (ha : Aft r t) : ∀ q ∈ t.allPos, hp ts < q := by
  intro q hq
  obtain ⟨j, hj, rfl⟩ := ha q hq
  exact hp_lt h0 hs hr ⟨j, hj, rfl, rfl⟩

theorem lt_of_in {p q : Nat} {k : Tok} {r : List Item} (h : Lt p r) (hq : In r q k) : p < q := by
  obtain ⟨j, hj, rfl, _⟩ := hq
  exact h j hj

theorem mem_allPosL {xs : List PP} {q : Nat} : q ∈ allPosL xs ↔ ∃ x ∈ xs, q ∈ x.allPos := by
  simp [allPosL, List.mem_flatMap]
theorem mem_allPosO {x : Option PP} {q : Nat} : q ∈ allPosO x ↔ ∃ y, x = some y ∧ q ∈ y.allPos := by
  cases x <;> simp [allPosO]
theorem mem_allPosKV {xs : List (PP × PP)} {q : Nat} :
    q ∈ allPosKV xs ↔ ∃ kv ∈ xs, q ∈ kv.1.allPos ∨ q ∈ kv.2.allPos := by
  simp [allPosKV, List.mem_flatMap]

/-! ### one constructor lemma per node kind -/

theorem good_ident {r q v p} (h : Lt p r) : Good r (.ident q v p) :=
  good_iff.2 ⟨by simpa [PP.ownFacts] using h, trivial, by simp [PP.children]⟩
theorem good_num {r n v p k} (h : Lt p r) : Good r (.num n v p k) :=
  good_iff.2 ⟨by simpa [PP.ownFacts] using h, trivial, by simp [PP.children]⟩
theorem good_str {r m v p} (h : Lt p r) : Good r (.str m v p) :=
  good_iff.2 ⟨by simpa [PP.ownFacts] using h, trivial, by simp [PP.children]⟩
theorem good_bool {r b p} (h : Lt p r) : Good r (.bool b p) :=
  good_iff.2 ⟨by simpa [PP.ownFacts] using h, trivial, by simp [PP.children]⟩
theorem good_nil {r p k} (h : Lt p r) : Good r (.nil p k) :=
  good_iff.2 ⟨by simpa [PP.ownFacts] using h, trivial, by simp [PP.children]⟩
theorem good_brk {r p} (h : Lt p r) : Good r (.brk p) :=
  good_iff.2 ⟨by simpa [PP.ownFacts] using h, trivial, by simp [PP.children]⟩
theorem good_cont {r p} (h : Lt p r) : Good r (.cont p) :=
  good_iff.2 ⟨by simpa [PP.ownFacts] using h, trivial, by simp [PP.children]⟩

theorem good_list {r xs lb rb} (hx : GoodL r xs) (h1 : Lt lb r) (h2 : Lt rb r)
    (ho : ∀ q ∈ allPosL xs, lb < q ∧ q < rb) : Good r (.list xs lb rb) :=
  good_iff.2 ⟨by simpa [PP.ownFacts] using ⟨h1, h2⟩, ho, by simp only [PP.children]; exact hx⟩

theorem good_map {r kvs lb rb} (hx : GoodKV r kvs) (h1 : Lt lb r) (h2 : Lt rb r)
    (ho : ∀ q ∈ allPosKV kvs, lb < q ∧ q < rb) : Good r (.map kvs lb rb) :=
  good_iff.2 ⟨by simpa [PP.ownFacts] using ⟨h1, h2⟩, ho, by
    intro c hc
    simp only [PP.children, List.mem_flatMap, List.mem_cons, List.not_mem_nil, or_false] at hc
    obtain ⟨kv, hkv, rfl | rfl⟩ := hc
    · exact (hx kv hkv).1
    · exact (hx kv hkv).2⟩

theorem good_paren {r e lp rp} (hx : Good r e) (h1 : Lt lp r) (h2 : Lt rp r)
    (ho : ∀ q ∈ e.allPos, lp < q ∧ q < rp) : Good r (.paren e lp rp) :=
  good_iff.2 ⟨by simpa [PP.ownFacts] using ⟨h1, h2⟩, ho, GoodL.single hx⟩

theorem good_attr {r o a p} (ho : Good r o) (ha : Good r a)
    (hord : ∀ q ∈ o.allPos, ∀ q' ∈ a.allPos, q < q') : Good r (.attr o a p) :=
  good_iff.2 ⟨by simp [PP.ownFacts], hord, by simpa [PP.children] using ⟨ho, ha⟩⟩

theorem good_index {r obj idx lbs rbs} (hx : GoodL r idx) (ho : ∀ o, obj = some o → Lt o.2.2 r)
    (hl : ∀ p ∈ lbs, Lt p r) (hr : ∀ p ∈ rbs, Lt p r) : Good r (.index obj idx lbs rbs) := by
  refine good_iff.2 ⟨?_, trivial, by simp only [PP.children]; exact hx⟩
  intro pk hpk
  simp only [PP.ownFacts, List.mem_append, List.mem_map] at hpk
  rcases hpk with (h | ⟨p, hp, rfl⟩) | ⟨p, hp, rfl⟩
  · cases obj with
    | none => simp at h
    | some o => simp at h; subst h; exact ho o rfl
  · exact hl p hp
  · exact hr p hp

theorem good_unary {r op e p} (hx : Good r e) (h : Lt p r) (ho : ∀ q ∈ e.allPos, p < q) :
    Good r (.unary op e p) :=
  good_iff.2 ⟨by simpa [PP.ownFacts] using h, ho, GoodL.single hx⟩

theorem good_bin {r op l rr p} (hl : Good r l) (hr : Good r rr) (h : Lt p r)
    (h1 : ∀ q ∈ l.allPos, q < p) (h2 : ∀ q ∈ rr.allPos, p < q) : Good r (.bin op l rr p) :=
  good_iff.2 ⟨by simpa [PP.ownFacts] using h, ⟨h1, h2⟩, by simpa [PP.children] using ⟨hl, hr⟩⟩

theorem good_assign {r op l rr p} (hl : GoodL r l) (hr : GoodL r rr) (h : Lt p r)
    (h1 : ∀ q ∈ allPosL l, q < p) (h2 : ∀ q ∈ allPosL rr, p < q) : Good r (.assign op l rr p) :=
  good_iff.2 ⟨by simpa [PP.ownFacts] using h, ⟨h1, h2⟩, hl.append hr⟩

theorem good_call {r q v args np lp rp} (hx : GoodL r args) (h0 : Lt np r) (h1 : Lt lp r) (h2 : Lt rp r)
    (ho : ∀ q ∈ allPosL args, lp < q ∧ q < rp) : Good r (.call q v args np lp rp) :=
  good_iff.2 ⟨by simpa [PP.ownFacts] using ⟨h0, h1, h2⟩, ho, by simp only [PP.children]; exact hx⟩

theorem good_slice {r o a b c c2 lb rb} (ho : Good r o) (ha : GoodO r a) (hb : GoodO r b) (hc : GoodO r c)
    (h1 : Lt lb r) (h2 : Lt rb r) (hord1 : ∀ q ∈ o.allPos, q < lb)
    (hord2 : ∀ q ∈ allPosO a ++ allPosO b ++ allPosO c, lb < q ∧ q < rb) :
    Good r (.slice o a b c c2 lb rb) :=
  good_iff.2 ⟨by simpa [PP.ownFacts] using ⟨h1, h2⟩, ⟨hord1, hord2⟩,
    (GoodL.single ho).append ((ha.toList.append hb.toList).append hc.toList)⟩

/-- what `parsePosElifs` accumulates -/
def GoodIfs (r : List Item) (ifs : List (Nat × PP × List PP)) : Prop :=
  ∀ e ∈ ifs, Lt e.1 r ∧ Good r e.2.1 ∧ GoodL r e.2.2

theorem GoodIfs.mono {r r' ifs} (h : GoodIfs r ifs) (hs : r' <:+ r) : GoodIfs r' ifs :=
  fun e he => ⟨(h e he).1.mono hs, (h e he).2.1.mono hs, (h e he).2.2.mono hs⟩
theorem GoodIfs.single {r p c b} (hp : Lt p r) (hc : Good r c) (hb : GoodL r b) : GoodIfs r [(p, c, b)] := by
  intro e he; simp at he; subst he; exact ⟨hp, hc, hb⟩
theorem GoodIfs.snoc {r ifs p c b} (h : GoodIfs r ifs) (hp : Lt p r) (hc : Good r c) (hb : GoodL r b) :
    GoodIfs r (ifs ++ [(p, c, b)]) := by
  intro e he; rcases List.mem_append.1 he with h' | h'
  · exact h e h'
  · simp at h'; subst h'; exact ⟨hp, hc, hb⟩

theorem ifsFacts_fst {ifs : List (Nat × PP × List PP)} {pk : Nat × Tok} (h : pk ∈ ifsFacts ifs) :
    ∃ e ∈ ifs, e.1 = pk.1 := by
  cases ifs with
  | nil => simp [ifsFacts] at h
  | cons e r =>
    simp only [ifsFacts, List.mem_cons, List.mem_map] at h
    rcases h with rfl | ⟨x, hx, rfl⟩
    · exact ⟨e, by simp, rfl⟩
    · exact ⟨x, by simp [hx], rfl⟩

theorem good_ifelse {r ifs els} (hi : GoodIfs r ifs) (he : ∀ e, els = some e → Lt e.1 r ∧ GoodL r e.2) :
    Good r (.ifelse ifs els) := by
  refine good_iff.2 ⟨?_, trivial, ?_⟩
  · intro pk hpk
    simp only [PP.ownFacts, List.mem_append] at hpk
    rcases hpk with h | h
    · obtain ⟨e, hE, h1⟩ := ifsFacts_fst h
      exact h1 ▸ (hi e hE).1
    · cases els with
      | none => simp at h
      | some e => simp at h; subst h; exact (he e rfl).1
  · intro c hc
    simp only [PP.children, List.mem_append, List.mem_flatMap, List.mem_cons] at hc
    rcases hc with ⟨e, hE, rfl | h⟩ | h
    · exact (hi e hE).2.1
    · exact (hi e hE).2.2 c h
    · cases els with
      | none => simp at h
      | some e => exact (he e rfl).2 c h

theorem good_forS {r i c l b p} (hi : GoodO r i) (hc : GoodO r c) (hl : GoodO r l) (hb : GoodL r b)
    (h : Lt p r) (ho : ∀ q ∈ allPosO i ++ allPosO c ++ allPosO l ++ allPosL b, p < q) :
    Good r (.forS i c l b p) :=
  good_iff.2 ⟨by simpa [PP.ownFacts] using h, ho, ((hi.toList.append hc.toList).append hl.toList).append hb⟩

theorem good_forIn {r v it b fp ip} (hv : Good r v) (hit : Good r it) (hb : GoodL r b)
    (h1 : Lt fp r) (h2 : Lt ip r) (ho : (∀ q ∈ v.allPos, q < ip) ∧ (∀ q ∈ it.allPos, ip < q)) :
    Good r (.forIn v it b fp ip) :=
  good_iff.2 ⟨by simpa [PP.ownFacts] using ⟨h1, h2⟩, ho, by
    intro c hc
    simp only [PP.children, List.mem_cons] at hc
    rcases hc with rfl | rfl | h
    · exact hv
    · exact hit
    · exact hb c h⟩

/-! ### the constructor functions -/

theorem good_mkUnaryP {r op} {i : Item} {e} (hi : Lt i.pos r) (he : Good r e)
    (hgt : ∀ q ∈ e.allPos, i.pos < q) : Good r (mkUnaryP op i e) := by
  cases op <;> cases e <;> simp only [mkUnaryP] <;>
    first
      | exact good_unary he hi hgt
      | exact good_num hi

theorem good_mkBinP {r op p l rr e} (h : mkBinP op p l rr = some e) (hl : Good r l) (hr : Good r rr)
    (hp : Lt p r) (h1 : ∀ q ∈ l.allPos, q < p) (h2 : ∀ q ∈ rr.allPos, p < q) : Good r e := by
  have : e = .bin op l rr p := by
    unfold mkBinP at h
    split at h <;> (try split at h) <;> simp_all
  subst this
  exact good_bin hl hr hp h1 h2

theorem good_mkSliceP {r o a b c c2 lb rb s} (h : mkSliceP o a b c c2 lb rb = some s) (ho : Good r o)
    (ha : GoodO r a) (hb : GoodO r b) (hc : GoodO r c) (h1 : Lt lb r) (h2 : Lt rb r)
    (hord1 : ∀ q ∈ o.allPos, q < lb)
    (hord2 : ∀ q ∈ allPosO a ++ allPosO b ++ allPosO c, lb < q ∧ q < rb) : Good r s := by
  unfold mkSliceP at h
  split at h
  · cases h
  · cases h; exact good_slice ho ha hb hc h1 h2 hord1 hord2

theorem good_mkForInP {r fp e body st} (h : mkForInP fp e body = some st) (he : Good r e)
    (hb : GoodL r body) (hf : Lt fp r) : Good r st := by
  unfold mkForInP at h
  split at h
  · rename_i q v p it ip
    have hn := good_iff.1 he
    have hip : Lt ip r := by simpa [PP.ownFacts] using hn.1
    have hv : Good r (.ident q v p) := hn.2.2 _ (by simp [PP.children])
    have hit : Good r it := hn.2.2 _ (by simp [PP.children])
    split at h <;> first | (cases h; exact good_forIn hv hit hb hf hip hn.2.1) | cases h
  · cases h

end Platypus.ParsePos
