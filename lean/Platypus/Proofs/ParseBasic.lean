import Platypus.Spec.Layout
/-!
# C06 helper lemmas, part 1: tokens, line-end skipping, one-step unfoldings

Nothing here depends on the spelling relations except `Eols`/`IsSep`/`IsSem`.
Conventions used by all C06 proof files:
  * "enough fuel" statements are of the form `∀ F, bound ≤ F → parseX F … = some …`; continuations are
    passed in the same form, so no monotonicity-in-fuel lemma is needed;
  * the bound is `4 * ts.length` (+ small constants) for everything below statements.
-/
namespace Platypus.Parse
open Platypus.Lex (Tok Item)

/-! ### token classes -/

/-- the tokens an expression can start with -/
def exprStart : Tok → Bool
  | .ID | .QUOTED_STRING | .DOT | .NUMBER | .TRUE | .FALSE | .NIL | .NULL | .STRING | .MULTILINE_STRING
  | .LEFT_BRACKET | .LEFT_BRACE | .LEFT_PAREN | .ADD | .SUB | .NOT => true
  | _ => false

/-- the tokens a primary expression can start with -/
def primStart : Tok → Bool
  | .ID | .QUOTED_STRING | .DOT | .NUMBER | .TRUE | .FALSE | .NIL | .NULL | .STRING | .MULTILINE_STRING
  | .LEFT_BRACKET | .LEFT_BRACE | .LEFT_PAREN => true
  | _ => false

/-- not a postfix opener (`[`, `.`, `(`) -/
def noPost : Tok → Bool
  | .LEFT_BRACKET | .DOT | .LEFT_PAREN => false
  | _ => true

/-- a token that ends an expression at every precedence level -/
def stop1 (t : Tok) : Bool := noPost t && (binOf t).isNone

theorem primStart_exprStart {t : Tok} (h : primStart t = true) : exprStart t = true := by
  cases t <;> simp_all [primStart, exprStart]

theorem primStart_unOf {t : Tok} (h : primStart t = true) : unOf t = none := by
  cases t <;> simp_all [primStart, unOf]

theorem exprStart_ne {t : Tok} (h : exprStart t = true) :
    t ≠ .EOL ∧ t ≠ .COLON ∧ t ≠ .RIGHT_BRACKET ∧ t ≠ .RIGHT_PAREN ∧ t ≠ .RIGHT_BRACE ∧ t ≠ .SEMICOLON
    ∧ t ≠ .COMMA ∧ t ≠ .EOF ∧ t ≠ .IF ∧ t ≠ .FOR ∧ t ≠ .BREAK ∧ t ≠ .CONTINUE ∧ t ≠ .EQ
    ∧ t ≠ .ELIF ∧ t ≠ .ELSE := by
  cases t <;> simp_all [exprStart]

theorem stop1_noPost {t : Tok} (h : stop1 t = true) : noPost t = true := by
  simp [stop1] at h; exact h.1
theorem stop1_binOf {t : Tok} (h : stop1 t = true) : binOf t = none := by
  simp [stop1] at h; exact h.2

theorem binOf_opTok (op : BOp) : binOf (opTok op) = some (lvl op, op) := by cases op <;> rfl
theorem noPost_opTok (op : BOp) : noPost (opTok op) = true := by cases op <;> rfl
theorem unOf_unTok (op : UnOp) : unOf (unTok op) = some op := by cases op <;> rfl
theorem exprStart_unTok (op : UnOp) : exprStart (unTok op) = true := by cases op <;> rfl
theorem asgOf_asgTok {op : AsgOp} (h : op ≠ .eq) : asgOf (asgTok op) = some op := by
  cases op <;> first | rfl | exact absurd rfl h
theorem asgTok_ne_eq {op : AsgOp} (h : op ≠ .eq) : asgTok op ≠ .EQ := by
  cases op <;> first | exact absurd rfl h | (intro h'; cases h')
theorem stop1_asgTok (op : AsgOp) : stop1 (asgTok op) = true := by cases op <;> rfl
theorem stmtEnd_opTok (op : BOp) : stmtEnd (opTok op) = false := by cases op <;> rfl
theorem stmtEnd_asgTok (op : AsgOp) : stmtEnd (asgTok op) = false := by cases op <;> rfl
theorem lvl_pos (op : BOp) : 1 ≤ lvl op := by cases op <;> simp [lvl]
theorem lvl_le6 (op : BOp) : lvl op ≤ 6 := by cases op <;> simp [lvl]
theorem level_pos (t : PT) : 1 ≤ level t := by
  unfold level; split <;> first | exact lvl_pos _ | omega
theorem binOf_le6 {t : Tok} {p q} (h : binOf t = some (p, q)) : p ≤ 6 := by
  cases t <;> simp [binOf] at h <;> omega
theorem binOf_lvl {t : Tok} {p q} (h : binOf t = some (p, q)) : p = lvl q := by
  cases t <;> simp [binOf] at h <;> (obtain ⟨rfl, rfl⟩ := h; rfl)

theorem identTok_prim (q : Bool) : primStart (identTok q) = true := by cases q <;> rfl

/-! ### `tk`, `skipE`, `skipSep`, `expect` -/

@[simp] theorem tk_cons (i : Item) (r : List Item) : tk (i :: r) = i.typ := rfl
@[simp] theorem tk_nil : tk [] = .EOF := rfl

theorem tk_append_of_ne {ts : List Item} (h : ts ≠ []) (rest : List Item) : tk (ts ++ rest) = tk ts := by
  cases ts with
  | nil => exact absurd rfl h
  | cons i r => rfl

theorem skipE_of_ne {xs : List Item} (h : tk xs ≠ .EOL) : skipE xs = xs := by
  cases xs with
  | nil => rfl
  | cons i r => simp [skipE]; intro h'; exact absurd h' h

theorem skipE_eols {e : List Item} (he : Eols e) (xs : List Item) : skipE (e ++ xs) = skipE xs := by
  induction e with
  | nil => rfl
  | cons i r ih =>
    have h1 : i.typ = .EOL := he i (by simp)
    have h2 : Eols r := fun j hj => he j (by simp [hj])
    simp [skipE, h1, ih h2]

theorem skipE_eols_ne {e : List Item} (he : Eols e) {xs : List Item} (h : tk xs ≠ .EOL) :
    skipE (e ++ xs) = xs := by rw [skipE_eols he, skipE_of_ne h]

/-- a property of `EOL` and of the head of `xs` holds of the head of `e ++ xs` -/
theorem tk_eols {e : List Item} (he : Eols e) {xs : List Item} (P : Tok → Prop) (hE : P .EOL) (hx : P (tk xs)) :
    P (tk (e ++ xs)) := by
  cases e with
  | nil => exact hx
  | cons i r => have h1 : i.typ = .EOL := he i (by simp); simp [h1, hE]

theorem stop1_eols {e : List Item} (he : Eols e) {xs : List Item} (hx : stop1 (tk xs) = true) :
    stop1 (tk (e ++ xs)) = true := tk_eols he (fun t => stop1 t = true) rfl hx

theorem skipSep_of_ne {xs : List Item} (h1 : tk xs ≠ .SEMICOLON) (h2 : tk xs ≠ .EOL) : skipSep xs = xs := by
  cases xs with
  | nil => rfl
  | cons i r =>
    simp only [tk_cons] at h1 h2
    simp [skipSep, h1, h2]

theorem skipSep_run {sp : List Item} (h : ∀ i ∈ sp, i.typ = .SEMICOLON ∨ i.typ = .EOL) (xs : List Item) :
    skipSep (sp ++ xs) = skipSep xs := by
  induction sp with
  | nil => rfl
  | cons i r ih =>
    have h1 := h i (by simp)
    have h2 : ∀ j ∈ r, j.typ = .SEMICOLON ∨ j.typ = .EOL := fun j hj => h j (by simp [hj])
    simp [skipSep, h1, ih h2]

theorem skipSep_run_ne {sp : List Item} (h : ∀ i ∈ sp, i.typ = .SEMICOLON ∨ i.typ = .EOL) {xs : List Item}
    (h1 : tk xs ≠ .SEMICOLON) (h2 : tk xs ≠ .EOL) : skipSep (sp ++ xs) = xs := by
  rw [skipSep_run h, skipSep_of_ne h1 h2]

@[simp] theorem expect_cons (t : Tok) (i : Item) (r : List Item) :
    expect t (i :: r) = if i.typ = t then some r else none := rfl

/-! ### constructor functions -/

theorem mkUnary_of_not_folds {op : UnOp} {x : PT} (h : ¬ folds op x) : mkUnary op x = .unary op x := by
  cases op <;> cases x <;> simp_all [folds, mkUnary]

theorem sliceBase_level {t : PT} (h : sliceBase t) : level t = 8 := by
  cases t <;> simp_all [sliceBase, level]
  next n v => cases n <;> simp_all
theorem attrObj_level {t : PT} (h : attrObj t) : level t = 8 := by
  cases t <;> simp_all [attrObj, level]
theorem attrArg_level {t : PT} (h : attrArg t) : level t = 8 := by
  cases t <;> simp_all [attrArg, level]

/-! ### the stopping behaviour of the loops -/

/-- `parseBinRest` stops at a token that is not a binary operator of level `≥ m` -/
theorem binRest_stop {m : Nat} {rest : List Item} (h : ∀ p q, binOf (tk rest) = some (p, q) → p < m) (t : PT) :
    ∀ F, 1 ≤ F → parseBinRest F m t rest = some (t, rest) := by
  intro F hF
  obtain ⟨F, rfl⟩ : ∃ F', F = F' + 1 := ⟨F - 1, by omega⟩
  cases rest with
  | nil => simp [parseBinRest]
  | cons i r =>
    simp only [parseBinRest]
    cases hb : binOf i.typ with
    | none => rfl
    | some pq =>
      obtain ⟨p, q⟩ := pq
      have := h p q (by simpa using hb)
      simp; omega

theorem sliceChain_stop {rest : List Item} (h : tk rest ≠ .LEFT_BRACKET) (t : PT) :
    ∀ F, 1 ≤ F → parseSliceChain F t rest = some (t, rest) := by
  intro F hF
  obtain ⟨F, rfl⟩ : ∃ F', F = F' + 1 := ⟨F - 1, by omega⟩
  simp [parseSliceChain, h]

theorem attrChain_stop {rest : List Item} (h : tk rest ≠ .DOT) (t : PT) :
    ∀ F, 1 ≤ F → parseAttrChain F t rest = some (t, rest) := by
  intro F hF
  obtain ⟨F, rfl⟩ : ∃ F', F = F' + 1 := ⟨F - 1, by omega⟩
  simp [parseAttrChain, h]

theorem indexChain_stop {rest : List Item} (h : tk rest ≠ .LEFT_BRACKET) (acc : List PT) :
    ∀ F, 1 ≤ F → parseIndexChain F acc rest = some (acc, rest) := by
  intro F hF
  obtain ⟨F, rfl⟩ : ∃ F', F = F' + 1 := ⟨F - 1, by omega⟩
  simp [parseIndexChain, h]

theorem afterIdent_stop {rest : List Item} (h : noPost (tk rest) = true) (q : Bool) (v : Bytes) :
    ∀ F, 1 ≤ F → parseAfterIdent F q v rest = some (.ident q v, rest) := by
  intro F hF
  obtain ⟨F, rfl⟩ : ∃ F', F = F' + 1 := ⟨F - 1, by omega⟩
  simp only [parseAfterIdent]
  generalize tk rest = t at h
  cases t <;> simp_all [noPost]

theorem noPost_ne {t : Tok} (h : noPost t = true) : t ≠ .LEFT_BRACKET ∧ t ≠ .DOT ∧ t ≠ .LEFT_PAREN := by
  cases t <;> simp_all [noPost]

/-! ### one-step unfoldings in the shapes the proofs use -/

theorem parseUnary_prim {ts : List Item} (h : unOf (tk ts) = none) (F : Nat) :
    parseUnary (F + 1) ts = parsePrimary F ts := by
  cases ts with
  | nil => cases F <;> simp [parseUnary, parsePrimary]
  | cons i r => simp only [tk_cons] at h; simp [parseUnary, h]

theorem parseUnary_op {i : Item} {op : UnOp} (h : unOf i.typ = some op) {F : Nat} {r r' : List Item} {e : PT}
    (hu : parseUnary F r = some (e, r')) :
    parseUnary (F + 1) (i :: r) = some (mkUnary op e, r') := by
  simp [parseUnary, h, hu]

/-- `parseExpr` from its two phases -/
theorem parseExpr_of {F m : Nat} {xs r : List Item} {l : PT} {res : PT × List Item}
    (hu : parseUnary F xs = some (l, r)) (hb : parseBinRest F m l r = some res) :
    parseExpr (F + 1) m xs = some res := by
  simp [parseExpr, hu, hb]

/-- the operator step of `parseBinRest` -/
theorem parseBinRest_step {F m p : Nat} {i : Item} {op : BOp} {l rhs e : PT} {rest r2 : List Item}
    (hb : binOf i.typ = some (p, op)) (hp : m ≤ p)
    (he : parseExpr F (p + 1) (skipE rest) = some (rhs, r2)) (hm : mkBin op l rhs = some e) :
    parseBinRest (F + 1) m l (i :: rest) = parseBinRest F m e r2 := by
  simp [parseBinRest, hb, hp, he, hm]

/-- the block-first attempt of `parseForRest` -/
def asBlock (F : Nat) (r1 : List Item) : Option (List PT × List Item) :=
  if tk r1 = .LEFT_BRACE then
    match parseBlock F r1 with
    | some (b, r2) => if stmtEnd (tk r2) then some (b, r2) else none
    | none => none
  else none

theorem asBlock_of_ne {r1 : List Item} (h : tk r1 ≠ .LEFT_BRACE) (F : Nat) : asBlock F r1 = none := by
  simp [asBlock, h]

theorem parseStmt_simple {ts : List Item} (h : exprStart (tk ts) = true) (F : Nat) :
    parseStmt (F + 1) ts = parseSimple F ts := by
  cases ts with
  | nil => simp [exprStart] at h
  | cons i r =>
    simp only [tk_cons] at h
    simp only [parseStmt]
    generalize i.typ = t at h
    cases t <;> simp_all [exprStart]

end Platypus.Parse
