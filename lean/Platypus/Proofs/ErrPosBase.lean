import Platypus.Model.Eval
/-!
Where run-time errors point (C01 third sentence, C17 run-time clause), part 1: the positions a tree
designates, the shape of an error chain, and a Hoare-style rule set for "if this computation fails,
its error chain is located".

`posOf n` lists every position the node `n` designates: the stored token positions of `n` and of
all its sub-nodes (but not the `ElsePos` field of an if statement, which no error ever uses and which
is the literal 0:0:0 when there is no else), and `Node.start` of each of them (`ast.NodeStartPos`, which for `l op r` is the
start of `l`: again a stored position of the sub-tree, see `ErrPosStart.lean`).
-/
namespace Platypus.ErrPos
open Platypus

mutual
def posOf : Node → List Pos
  | .ident _ p => [p]
  | .strLit _ p => [p]
  | .intLit _ p => [p]
  | .floatLit _ p => [p]
  | .boolLit _ p => [p]
  | .nilLit p => [p]
  | .brk p => [p]
  | .cont p => [p]
  | .list xs lb rb => Node.start (.list xs lb rb) :: lb :: rb :: posOfL xs
  | .map kvs lb rb => Node.start (.map kvs lb rb) :: lb :: rb :: posOfKV kvs
  | .paren e lp rp => Node.start (.paren e lp rp) :: lp :: rp :: posOf e
  | .attr o a p => Node.start (.attr o a p) :: p :: (posOfO o ++ posOfO a)
  | .index obj idx lbs rbs =>
    Node.start (.index obj idx lbs rbs) :: ((match obj with | some (_, p) => [p] | none => []) ++ lbs ++ rbs ++ posOfL idx)
  | .unary op e p => Node.start (.unary op e p) :: p :: posOf e
  | .arith op l r p => Node.start (.arith op l r p) :: p :: (posOf l ++ posOf r)
  | .cond op l r p => Node.start (.cond op l r p) :: p :: (posOf l ++ posOf r)
  | .inE l r p => Node.start (.inE l r p) :: p :: (posOf l ++ posOf r)
  | .assign op lhs rhs p => Node.start (.assign op lhs rhs p) :: p :: (posOfL lhs ++ posOfL rhs)
  | .call name args np lp rp site => Node.start (.call name args np lp rp site) :: np :: lp :: rp :: posOfL args
  | .slice o a b c c2 lb rb =>
    Node.start (.slice o a b c c2 lb rb) :: lb :: rb :: (posOf o ++ (posOfO a ++ (posOfO b ++ posOfO c)))
  | .ifelse ifs els ep => Node.start (.ifelse ifs els ep) :: (posOfIfs ifs ++ posOfOB els)
  | .forS i c l b p => Node.start (.forS i c l b p) :: p :: (posOfO i ++ (posOfO c ++ (posOfO l ++ posOfOB b)))
  | .forIn v it b fp ip => Node.start (.forIn v it b fp ip) :: fp :: ip :: (posOf v ++ (posOf it ++ posOfOB b))
def posOfL : List Node → List Pos
  | [] => []
  | x :: r => posOf x ++ posOfL r
def posOfO : Option Node → List Pos
  | none => []
  | some x => posOf x
def posOfKV : List (Node × Node) → List Pos
  | [] => []
  | (k, v) :: r => posOf k ++ (posOf v ++ posOfKV r)
def posOfOB : Option (List Node) → List Pos
  | none => []
  | some b => posOfL b
def posOfIfs : List (Node × Option (List Node) × Pos) → List Pos
  | [] => []
  | (c, b, p) :: r => p :: (posOf c ++ (posOfOB b ++ posOfIfs r))
end

/-- `p` is a position designated by `n` -/
def In (n : Node) : Pos → Prop := fun p => p ∈ posOf n
def InL (l : List Node) : Pos → Prop := fun p => p ∈ posOfL l
def InO (o : Option Node) : Pos → Prop := fun p => p ∈ posOfO o
def InOB (o : Option (List Node)) : Pos → Prop := fun p => p ∈ posOfOB o

theorem start_in (n : Node) : In n (Node.start n) := by
  cases n <;> simp only [In, posOf] <;> first | exact List.mem_cons_self | exact List.mem_singleton.2 rfl

theorem inL_of_mem {l : List Node} {x : Node} (hx : x ∈ l) {p : Pos} (hp : In x p) : InL l p := by
  induction l with
  | nil => cases hx
  | cons y r ih =>
    simp only [InL, posOfL, List.mem_append]
    rcases List.mem_cons.1 hx with h | h
    · subst h; exact Or.inl hp
    · exact Or.inr (ih h)

theorem inL_cons_head {x : Node} {r : List Node} {p : Pos} (hp : In x p) : InL (x :: r) p :=
  inL_of_mem (List.mem_cons_self) hp
theorem inL_cons_tail {x : Node} {r : List Node} {p : Pos} (hp : InL r p) : InL (x :: r) p := by
  simp only [InL, posOfL, List.mem_append]; exact Or.inr hp

/-- An error chain as the run-time builds it: the root cause first, then one link per enclosing
    call site, outward.  Every link names a script and a position designated by that script's
    tree: `P` says where the running script's links may point; the links of a script reached through
    `use()` point into the statements bound to that call site. -/
inductive Located (env : Env) : Bytes → (Pos → Prop) → List (Bytes × Pos) → Prop
  | here {name : Bytes} {P : Pos → Prop} {p : Pos} : P p → Located env name P [(name, p)]
  | wrap {name : Bytes} {P : Pos → Prop} {c : List (Bytes × Pos)} {p : Pos} :
      Located env name P c → P p → Located env name P (c ++ [(name, p)])
  | used {name : Bytes} {P : Pos → Prop} {c : List (Bytes × Pos)} {p : Pos} {site : Nat}
      {cname : Bytes} {cstmts : List Node} :
      env.bound site = some (cname, cstmts) → Located env cname (InL cstmts) c → P p →
      Located env name P (c ++ [(name, p)])

theorem Located.mono {env : Env} {name : Bytes} {P Q : Pos → Prop} {c : List (Bytes × Pos)}
    (h : Located env name P c) (hpq : ∀ p, P p → Q p) : Located env name Q c := by
  induction h with
  | here hp => exact .here (hpq _ hp)
  | wrap _ hp ih => exact .wrap (ih hpq) (hpq _ hp)
  | used hb hc hp _ => exact .used hb hc (hpq _ hp)

theorem Located.ne_nil {env : Env} {name : Bytes} {P : Pos → Prop} {c : List (Bytes × Pos)}
    (h : Located env name P c) : c ≠ [] := by
  cases h <;> simp

/-- the outermost (last) link names the running script at a position `P` allows -/
theorem Located.last {env : Env} {name : Bytes} {P : Pos → Prop} {c : List (Bytes × Pos)}
    (h : Located env name P c) : ∃ pre p, c = pre ++ [(name, p)] ∧ P p := by
  cases h with
  | here hp => exact ⟨[], _, rfl, hp⟩
  | wrap _ hp => exact ⟨_, _, rfl, hp⟩
  | used _ _ hp => exact ⟨_, _, rfl, hp⟩

/-- the root cause (first link) names the running script or a script bound to a use() site -/
theorem Located.first {env : Env} {name : Bytes} {P : Pos → Prop} {c : List (Bytes × Pos)}
    (h : Located env name P c) :
    ∃ file p rest, c = (file, p) :: rest ∧
      ((file = name ∧ P p) ∨ ∃ site stmts, env.bound site = some (file, stmts) ∧ InL stmts p) := by
  induction h with
  | here hp => exact ⟨_, _, [], rfl, Or.inl ⟨rfl, hp⟩⟩
  | wrap _ _ ih =>
    obtain ⟨file, p, rest, hc, hor⟩ := ih
    exact ⟨file, p, rest ++ [_], by rw [hc]; rfl, hor⟩
  | @used name P c p site cname cstmts hb _ _ ih =>
    obtain ⟨file, q, rest, hc, hor⟩ := ih
    refine ⟨file, q, rest ++ [_], by rw [hc]; rfl, Or.inr ?_⟩
    rcases hor with ⟨hf, hq⟩ | h
    · exact ⟨site, cstmts, hf ▸ hb, hq⟩
    · exact h

/-- postcondition: the task's name is kept; a failure carries a located chain -/
def PostE (env : Env) (name : Bytes) (P : Pos → Prop) {α : Type} : Res α → Prop
  | .ok _ s' => s'.task.name = name
  | .err e s' => s'.task.name = name ∧ Located env name P e.chain
  | _ => True

def TrE (env : Env) {α : Type} (s : St) (m : EM α) (P : Pos → Prop) : Prop :=
  PostE env s.task.name P (m s)

variable {env : Env}

theorem PostE.mono {name : Bytes} {P Q : Pos → Prop} {α : Type} {r : Res α}
    (h : PostE env name P r) (hpq : ∀ p, P p → Q p) : PostE env name Q r := by
  cases r <;> simp only [PostE] at h ⊢
  · exact h
  · exact ⟨h.1, h.2.mono hpq⟩

theorem TrE.mono {α : Type} {s : St} {m : EM α} {P Q : Pos → Prop} (h : TrE env s m P)
    (hpq : ∀ p, P p → Q p) : TrE env s m Q := PostE.mono h hpq

theorem TrE.bind {α β : Type} {s : St} {m : EM α} {k : α → EM β} {P : Pos → Prop}
    (hm : TrE env s m P) (hk : ∀ a s', s'.task.name = s.task.name → TrE env s' (k a) P) :
    TrE env s (m >>= k) P := by
  show PostE env s.task.name P (EM.bind m k s)
  unfold TrE at hm
  unfold EM.bind
  cases hr : m s with
  | ok a s' =>
    rw [hr] at hm
    have := hk a s' hm
    unfold TrE at this
    rw [hm] at this
    exact this
  | err e s' => rw [hr] at hm; exact hm
  | panic _ => trivial
  | fuel => trivial
  | need _ => trivial

theorem TrE.pure {α : Type} {s : St} {a : α} {P : Pos → Prop} : TrE env s (Pure.pure a : EM α) P := by
  show s.task.name = s.task.name; rfl

theorem TrE.runErr {α : Type} {s : St} {P : Pos → Prop} {p : Pos} {msg : String} (hp : P p) :
    TrE env s (runErr p msg : EM α) P :=
  ⟨rfl, .here hp⟩

theorem TrE.fuel {α : Type} {s : St} {P : Pos → Prop} : TrE env s (outOfFuel : EM α) P := trivial
theorem TrE.panic {α : Type} {s : St} {P : Pos → Prop} {m : String} : TrE env s (panicE m : EM α) P := trivial
theorem TrE.need {α : Type} {s : St} {P : Pos → Prop} {q : Bytes} : TrE env s (needE q : EM α) P := trivial

theorem TrE.getS {β : Type} {s : St} {k : St → EM β} {P : Pos → Prop} (h : TrE env s (k s) P) :
    TrE env s (getS >>= k) P := h

theorem TrE.modTask {s : St} {t : Task → Task} {P : Pos → Prop} (ht : (t s.task).name = s.task.name) :
    TrE env s (modTask t) P := ht
theorem TrE.modWorld {s : St} {t : World → World} {P : Pos → Prop} : TrE env s (modWorld t) P := by
  show s.task.name = s.task.name; rfl

theorem TrE.map {α β : Type} {s : St} {m : EM α} {g : α → β} {P : Pos → Prop} (h : TrE env s m P) :
    TrE env s (g <$> m) P :=
  TrE.bind h fun _ _ _ => TrE.pure

theorem TrE.askE {s : St} {q : Bytes} {P : Pos → Prop} : TrE env s (Platypus.ask env q) P := by
  unfold TrE Platypus.ask
  split
  · show s.task.name = s.task.name; rfl
  · trivial

theorem TrE.finally {α : Type} {s : St} {m : EM α} {fin : St → St} {P : Pos → Prop}
    (h : TrE env s m P) (hf : ∀ s', (fin s').task.name = s'.task.name) : TrE env s (m.finally fin) P := by
  unfold TrE at h ⊢
  unfold EM.finally
  cases hr : m s with
  | ok a s' => rw [hr] at h; exact (hf s').trans h
  | err e s' => rw [hr] at h; exact ⟨(hf s').trans h.1, h.2⟩
  | panic _ => trivial
  | fuel => trivial
  | need _ => trivial


/-- the same for every start state: neither the rules nor the postcondition look at the state -/
def EOK (env : Env) {α : Type} (m : EM α) (P : Pos → Prop) : Prop := ∀ s, TrE env s m P

theorem EOK.mono {α : Type} {m : EM α} {P Q : Pos → Prop} (h : EOK env m P) (hpq : ∀ p, P p → Q p) :
    EOK env m Q := fun s => (h s).mono hpq
theorem EOK.bind {α β : Type} {m : EM α} {k : α → EM β} {P : Pos → Prop}
    (hm : EOK env m P) (hk : ∀ a, EOK env (k a) P) : EOK env (m >>= k) P :=
  fun s => TrE.bind (hm s) fun a s' _ => hk a s'
theorem EOK.pure {α : Type} {a : α} {P : Pos → Prop} : EOK env (Pure.pure a : EM α) P := fun _ => TrE.pure
theorem EOK.runErr {α : Type} {P : Pos → Prop} {p : Pos} {msg : String} (hp : P p) :
    EOK env (runErr p msg : EM α) P := fun _ => TrE.runErr hp
theorem EOK.fuel {α : Type} {P : Pos → Prop} : EOK env (outOfFuel : EM α) P := fun _ => TrE.fuel
theorem EOK.panic {α : Type} {P : Pos → Prop} {m : String} : EOK env (panicE m : EM α) P := fun _ => TrE.panic
theorem EOK.need {α : Type} {P : Pos → Prop} {q : Bytes} : EOK env (needE q : EM α) P := fun _ => TrE.need
theorem EOK.getS {P : Pos → Prop} : EOK env getS P := fun s => (rfl : s.task.name = s.task.name)
theorem EOK.modTask {t : Task → Task} {P : Pos → Prop} (ht : ∀ x, (t x).name = x.name) :
    EOK env (modTask t) P := fun s => TrE.modTask (ht s.task)
theorem EOK.modWorld {t : World → World} {P : Pos → Prop} : EOK env (modWorld t) P := fun _ => TrE.modWorld
theorem EOK.map {α β : Type} {m : EM α} {g : α → β} {P : Pos → Prop} (h : EOK env m P) :
    EOK env (g <$> m) P := fun s => TrE.map (h s)
theorem EOK.askE {q : Bytes} {P : Pos → Prop} : EOK env (Platypus.ask env q) P := fun _ => TrE.askE
theorem EOK.finally {α : Type} {m : EM α} {fin : St → St} {P : Pos → Prop}
    (h : EOK env m P) (hf : ∀ s', (fin s').task.name = s'.task.name) : EOK env (m.finally fin) P :=
  fun s => TrE.finally (h s) hf
theorem EOK.pushScope {P : Pos → Prop} : EOK env pushScope P := EOK.modTask fun _ => rfl
theorem EOK.popScope {P : Pos → Prop} : EOK env popScope P := EOK.modTask fun _ => rfl
theorem EOK.clearScope {P : Pos → Prop} : EOK env clearScope P := EOK.modTask fun _ => rfl
theorem EOK.setVarb {k : Bytes} {v : TV} {P : Pos → Prop} : EOK env (setVarb k v) P := EOK.modTask fun _ => rfl

theorem EOK.procExit {P : Pos → Prop} : EOK env (procExit env) P := by
  intro s
  unfold TrE Platypus.procExit
  split <;> exact (rfl : s.task.name = s.task.name)

theorem EOK.stmtReturn {P : Pos → Prop} : EOK env (stmtReturn env) P := by
  intro s
  have h := EOK.procExit (env := env) (P := P) s
  unfold TrE at h ⊢
  unfold Platypus.stmtReturn
  cases hr : Platypus.procExit env s with
  | ok b s' => cases b <;> (rw [hr] at h; exact h)
  | err e s' => rw [hr] at h; exact h
  | panic _ => trivial
  | fuel => trivial
  | need _ => trivial

/-- one proof step on an `EOK` goal; leaves position-membership goals of `runErr` for later -/
macro "eok_step" : tactic => `(tactic| first
  | exact EOK.pure | exact EOK.fuel | exact EOK.panic | exact EOK.need | exact EOK.askE
  | exact EOK.modWorld | exact EOK.getS | exact EOK.pushScope | exact EOK.popScope
  | exact EOK.clearScope | exact EOK.setVarb | exact EOK.procExit | exact EOK.stmtReturn
  | (refine EOK.modTask ?_; intro _; rfl)
  | assumption
  | refine EOK.bind ?_ ?_
  | refine EOK.map ?_
  | intro _
  | refine EOK.runErr ?_)

end Platypus.ErrPos
