import Platypus.Model.EvalV2
import Platypus.Proofs.Machine
import Platypus.Proofs.Assoc
/-!
Definitions for C18 (agreement of the v2 interpreter with the reference semantics):
the shared language (`SharedE` expressions, `Simple` simple statements, `SharedS` statements),
the state correspondence `Rel`, and the result correspondence `Sim` ("the two results agree,
unless one of the runs ran out of fuel or v2 reported an undefined name").
-/
namespace Platypus.V2Agree
open Platypus Platypus.V2 Platypus.MachineProofs

/-! ### the shared language -/

/-- the name `_` is an alias of `message` in v1 (`normKey`) and an ordinary name in v2 -/
abbrev underscore : Bytes := [95]

/-- the shared expression language -/
inductive SharedE : Node → Prop
  | intLit (v p) : SharedE (.intLit v p)
  | floatLit (v p) : SharedE (.floatLit v p)
  | boolLit (v p) : SharedE (.boolLit v p)
  | strLit (v p) : SharedE (.strLit v p)
  | nilLit (p) : SharedE (.nilLit p)
  | ident {name} (p) : name ≠ underscore → SharedE (.ident name p)
  | paren {e} (lp rp) : SharedE e → SharedE (.paren e lp rp)
  | unary {e} (op p) : SharedE e → SharedE (.unary op e p)
  | arith {l r} (op p) : SharedE l → SharedE r → SharedE (.arith op l r p)
  | cond {l r} (op p) : SharedE l → SharedE r → SharedE (.cond op l r p)
  | inE {l r} (p) : SharedE l → SharedE r → SharedE (.inE l r p)
  | list {xs} (lb rb) : (∀ x, x ∈ xs → SharedE x) → SharedE (.list xs lb rb)
  | map {kvs : List (Node × Node)} (lb rb) : (∀ kv, kv ∈ kvs → SharedE kv.1) → (∀ kv, kv ∈ kvs → SharedE kv.2) →
      SharedE (.map kvs lb rb)
  /-- `x[i][j]…` on a variable -/
  | index {name idx} (p lbs rbs) : name ≠ underscore → (∀ x, x ∈ idx → SharedE x) →
      SharedE (.index (some (name, p)) idx lbs rbs)
  /-- `obj[a:b:c]` -/
  | slice {obj st en sp} (c2 lb rb) : SharedE obj →
      (∀ e, st = some e → SharedE e) → (∀ e, en = some e → SharedE e) → (∀ e, sp = some e → SharedE e) →
      SharedE (.slice obj st en sp c2 lb rb)
  /-- the probe `pr(x, …)`: records its arguments and returns the first -/
  | callPr {args} (np lp rp site) : args ≠ [] → (∀ x, x ∈ args → SharedE x) →
      SharedE (.call (B "pr") args np lp rp site)

/-- the probes that exist on both sides -/
def isProbe (name : Bytes) : Prop := name = B "p" ∨ name = B "pr" ∨ name = B "void"

/-- simple statements: expression statements, `x = e`, `x op= e`, `x[i]… = e`, probe calls -/
inductive Simple : Node → Prop
  | expr {e} : SharedE e → Simple e
  | assignVar {name e} (op p ap) : name ≠ underscore → SharedE e → Simple (.assign op [.ident name p] [e] ap)
  | assignIdx {name idx e} (p lbs rbs ap) : name ≠ underscore → (∀ x, x ∈ idx → SharedE x) → SharedE e →
      Simple (.assign .eq [.index (some (name, p)) idx lbs rbs] [e] ap)
  | probe {name args} (np lp rp site) : isProbe name → (∀ x, x ∈ args → SharedE x) →
      Simple (.call name args np lp rp site)

/-- the shared statement language -/
inductive SharedS : Node → Prop
  | simple {n} : Simple n → SharedS n
  | ifelse {ifs : List (Node × Option (List Node) × Pos)} {els : Option (List Node)} (p) :
      (∀ c, c ∈ ifs → SharedE c.1) →
      (∀ c, c ∈ ifs → ∀ b, c.2.1 = some b → ∀ n, n ∈ b → SharedS n) →
      (∀ b, els = some b → ∀ n, n ∈ b → SharedS n) →
      SharedS (.ifelse ifs els p)
  | forS {ini cnd lp : Option Node} {body : Option (List Node)} (p) :
      (∀ i, ini = some i → Simple i) → (∀ c, cnd = some c → SharedE c) → (∀ l, lp = some l → Simple l) →
      (∀ b, body = some b → ∀ n, n ∈ b → SharedS n) →
      SharedS (.forS ini cnd lp body p)
  | forIn {name iter} {body : Option (List Node)} (p fp ip) : name ≠ underscore → SharedE iter →
      (∀ b, body = some b → ∀ n, n ∈ b → SharedS n) →
      SharedS (.forIn (.ident name p) iter body fp ip)
  | brk (p) : SharedS (.brk p)
  | cont (p) : SharedS (.cont p)

def SharedL (ss : List Node) : Prop := ∀ n, n ∈ ss → SharedS n

/-! ### the tagging invariant -/

/-- a value is nil-valued exactly when its tag is `nil` or `invalid`.  (v1 decides "slice bound
    omitted" by the value, v2 by the tag.)  Every value the shared language computes has this
    property, provided the values of the variables have it; a void value `⟨nil, void⟩` — which v1
    can only store through `x = f()` with `f` returning nothing, an error in v2 — does not. -/
def TagNil (x : TV) : Prop := x.v = .nil ↔ (x.t = .invalid ∨ x.t = .nil)

abbrev Scopes := List (List (Bytes × TV))

def ScOK (scs : Scopes) : Prop := ∀ sc, sc ∈ scs → ∀ kv, kv ∈ sc → TagNil kv.2

/-- every variable holds a `TagNil` value -/
def ScopesOK (s : St) : Prop := ScOK s.task.scopes

/-! ### the state correspondence -/

/-- a point without readable keys (v2 has no point) -/
def NoKeys (pt : Point) : Prop := ∀ k, pt.get k = none

/-- `Rel pt s1 s2`: the v1 state `s1` corresponds to the v2 state `s2`: same task name, scopes and
    flags, same heap, poll count, map-iteration count and trace; the v1 registers are empty (they
    are between calls), the v2 registers are arbitrary (they hold the last value); the v1 point is
    `pt`, the v2 "point" is irrelevant. -/
structure Rel (pt : Point) (s1 s2 : St) : Prop where
  name : s1.task.name = s2.task.name
  scopes : s1.task.scopes = s2.task.scopes
  brk : s1.task.brk = s2.task.brk
  cont : s1.task.cont = s2.task.cont
  exit : s1.task.exit = s2.task.exit
  regs : s1.task.regs = []
  heap : s1.world.heap = s2.world.heap
  polls : s1.world.polls = s2.world.polls
  mapIters : s1.world.mapIters = s2.world.mapIters
  trace : s1.world.trace = s2.world.trace
  point : s1.world.pt = pt

/-- the v1 state corresponding to a v2 state -/
def proj (pt : Point) (s : St) : St :=
  { task := { s.task with regs := [] }, world := { s.world with pt := pt } }

theorem rel_iff (pt : Point) (s1 s2 : St) : Rel pt s1 s2 ↔ s1 = proj pt s2 := by
  constructor
  · intro h
    obtain ⟨⟨n1, sc1, b1, c1, e1, r1⟩, ⟨h1, p1, po1, mi1, t1⟩⟩ := s1
    obtain ⟨h1, h2, h3, h4, h5, h6, h7, h8, h9, h10, h11⟩ := h
    simp only at h1 h2 h3 h4 h5 h6 h7 h8 h9 h10 h11
    subst h1 h2 h3 h4 h5 h6 h7 h8 h9 h10 h11
    rfl
  · rintro rfl
    exact ⟨rfl, rfl, rfl, rfl, rfl, rfl, rfl, rfl, rfl, rfl, rfl⟩

/-! ### the result correspondence -/

/-- the error class of v2's "undefined name" -/
def undefMsg : String := "name-not-defined"

/-- `Sim pt BL BR R r1 r2`: the v1 result `r1` and the v2 result `r2` agree — same kind of result, the
    same error (position chain and class), corresponding states, values related by `R` — unless one
    of the runs ran out of fuel, or v2 stopped with an undefined-name error (documented difference).
    `BL` ("v1 has enough fuel, given v2's") and `BR` ("v2 has enough fuel, given v1's") bound the fuel
    alternatives: v1 alone runs out of fuel only if `¬BL`, v2 alone only if `¬BR`. -/
inductive Sim {α β} (pt : Point) (BL BR : Prop) (R : α → β → St → Prop) : Res α → Res β → Prop
  | ok {a b s} : R a b s → Sim pt BL BR R (.ok a (proj pt s)) (.ok b s)
  | err {e s} : Sim pt BL BR R (.err e (proj pt s)) (.err e s)
  | panic {m} : Sim pt BL BR R (.panic m) (.panic m)
  | need {q} : Sim pt BL BR R (.need q) (.need q)
  | fuelL {r} : ¬BL → Sim pt BL BR R .fuel r
  | fuelR {r} : ¬BR → Sim pt BL BR R r .fuel
  | fuelB : Sim pt BL BR R .fuel .fuel
  | undef {r e s} : e.msg = undefMsg → Sim pt BL BR R r (.err e s)

/-- pointwise on computations, started in corresponding states whose variables are well tagged
    (`ScopesOK`); the invariant holds again in the final state -/
def SimM {α β} (pt : Point) (BL BR : Prop) (R : α → β → St → Prop) (m1 : EM α) (m2 : EM β) (s : St) : Prop :=
  ScopesOK s → Sim pt BL BR (fun a b s' => R a b s' ∧ ScopesOK s') (m1 (proj pt s)) (m2 s)

/-- discharges the fuel side conditions (linear arithmetic on the fuels) -/
macro "bnd" : tactic => `(tactic| first | omega | (intro h; omega) | (intros; trivial) | (intros; simp_all; omega))

end Platypus.V2Agree
