import Platypus.Proofs.ElabDefs
/-!
# Front end, helper 2: every function of the position-carrying parser returns grammar-shaped trees

`ShInv f`: at fuel `f`, the expression-level functions return `exprOk` trees (given `exprOk`
accumulators), the statement-level functions return `stmtOk` trees.  Induction on the fuel, one step
lemma per function (the same skeleton as `ParsePosFacts.lean`).
-/
set_option linter.unusedSimpArgs false
set_option linter.unusedVariables false
namespace Platypus.FrontEnd
open Platypus.Lex (Tok Item)
open Platypus.Parse Platypus.ParsePos

def EL (xs : List PP) : Prop := ∀ x ∈ xs, exprOk x = true
def EO (x : Option PP) : Prop := ∀ y, x = some y → exprOk y = true
def EKV (xs : List (PP × PP)) : Prop := ∀ kv ∈ xs, exprOk kv.1 = true ∧ exprOk kv.2 = true
def SL (xs : List PP) : Prop := ∀ x ∈ xs, stmtOk x = true
def IfsP (xs : List (Nat × PP × List PP)) : Prop := ∀ e ∈ xs, exprOk e.2.1 = true ∧ SL e.2.2

theorem EL.nil : EL [] := by intro x hx; cases hx
theorem EL.single {x} (h : exprOk x = true) : EL [x] := by intro y hy; simp at hy; subst hy; exact h
theorem EL.snoc {a x} (ha : EL a) (h : exprOk x = true) : EL (a ++ [x]) := by
  intro y hy; rcases List.mem_append.1 hy with h' | h'
  · exact ha y h'
  · simp at h'; subst h'; exact h
theorem EO.none : EO none := by intro y hy; cases hy
theorem EO.some {x} (h : exprOk x = true) : EO (some x) := by intro y hy; cases hy; exact h
theorem EKV.nil : EKV [] := by intro x hx; cases hx
theorem EKV.snoc {a k v} (ha : EKV a) (hk : exprOk k = true) (hv : exprOk v = true) : EKV (a ++ [(k, v)]) := by
  intro y hy; rcases List.mem_append.1 hy with h' | h'
  · exact ha y h'
  · simp at h'; subst h'; exact ⟨hk, hv⟩
theorem SL.nil : SL [] := by intro x hx; cases hx
theorem SL.single {x} (h : stmtOk x = true) : SL [x] := by intro y hy; simp at hy; subst hy; exact h
theorem SL.snoc {a x} (ha : SL a) (h : stmtOk x = true) : SL (a ++ [x]) := by
  intro y hy; rcases List.mem_append.1 hy with h' | h'
  · exact ha y h'
  · simp at h'; subst h'; exact h
theorem IfsP.single {p c b} (hc : exprOk c = true) (hb : SL b) : IfsP [(p, c, b)] := by
  intro e he; simp at he; subst he; exact ⟨hc, hb⟩
theorem IfsP.snoc {a p c b} (ha : IfsP a) (hc : exprOk c = true) (hb : SL b) : IfsP (a ++ [(p, c, b)]) := by
  intro e he; rcases List.mem_append.1 he with h' | h'
  · exact ha e h'
  · simp at h'; subst h'; exact ⟨hc, hb⟩

/-! ### node constructors -/

theorem e_list {xs lb rb} (h : EL xs) : exprOk (.list xs lb rb) = true := by
  simp only [exprOk]; exact exprOkL_iff.2 h
theorem e_map {kvs lb rb} (h : EKV kvs) : exprOk (.map kvs lb rb) = true := by
  simp only [exprOk]; exact exprOkKV_iff.2 h
theorem e_index {o xs lbs rbs} (h : EL xs) : exprOk (.index o xs lbs rbs) = true := by
  simp only [exprOk]; exact exprOkL_iff.2 h
theorem e_call {q v xs np lp rp} (h : EL xs) : exprOk (.call q v xs np lp rp) = true := by
  simp only [exprOk]; exact exprOkL_iff.2 h
theorem e_assign {op l r p} (hl : EL l) (hr : EL r) : exprOk (.assign op l r p) = true := by
  simp only [exprOk, Bool.and_eq_true]; exact ⟨exprOkL_iff.2 hl, exprOkL_iff.2 hr⟩
theorem e_attr {o a p} (ho : exprOk o = true) (ha : exprOk a = true) : exprOk (.attr o a p) = true := by
  simp only [exprOk, Bool.and_eq_true]; exact ⟨ho, ha⟩
theorem e_bin {op l r p} (hl : exprOk l = true) (hr : exprOk r = true) : exprOk (.bin op l r p) = true := by
  simp only [exprOk, Bool.and_eq_true]; exact ⟨hl, hr⟩
theorem e_slice {o a b c c2 lb rb} (ho : exprOk o = true) (ha : EO a) (hb : EO b) (hc : EO c) :
    exprOk (.slice o a b c c2 lb rb) = true := by
  simp only [exprOk, Bool.and_eq_true]
  exact ⟨⟨⟨ho, exprOkO_iff.2 ha⟩, exprOkO_iff.2 hb⟩, exprOkO_iff.2 hc⟩
theorem s_forS {i c l b p} (hi : EO i) (hc : EO c) (hl : EO l) (hb : SL b) : stmtOk (.forS i c l b p) = true := by
  simp only [stmtOk, Bool.and_eq_true]
  exact ⟨⟨⟨exprOkO_iff.2 hi, exprOkO_iff.2 hc⟩, exprOkO_iff.2 hl⟩, stmtOkL_iff.2 hb⟩
theorem s_ifelse {ifs els} (hi : IfsP ifs) (he : ∀ e, els = some e → SL e.2) : stmtOk (.ifelse ifs els) = true := by
  simp only [stmtOk, Bool.and_eq_true]
  refine ⟨ifsOk_iff.2 fun e h => ⟨(hi e h).1, stmtOkL_iff.2 (hi e h).2⟩, ?_⟩
  cases els with
  | none => rfl
  | some e => obtain ⟨p, b⟩ := e; simp only [elsOk]; exact stmtOkL_iff.2 (he _ rfl)

theorem e_mkUnaryP {op} {i : Item} {e} (he : exprOk e = true) : exprOk (mkUnaryP op i e) = true := by
  cases op <;> cases e <;> simp only [mkUnaryP] <;> first | rfl | (simpa only [exprOk] using he)

theorem e_mkBinP {op p l r e} (h : mkBinP op p l r = some e) (hl : exprOk l = true) (hr : exprOk r = true) :
    exprOk e = true := by
  have : e = .bin op l r p := by
    unfold mkBinP at h
    split at h <;> (try split at h) <;> simp_all
  subst this
  exact e_bin hl hr

theorem e_mkSliceP {o a b c c2 lb rb s} (h : mkSliceP o a b c c2 lb rb = some s) (ho : exprOk o = true)
    (ha : EO a) (hb : EO b) (hc : EO c) : exprOk s = true := by
  unfold mkSliceP at h
  split at h
  · cases h
  · cases h; exact e_slice ho ha hb hc

theorem s_mkForInP {fp e body st} (h : mkForInP fp e body = some st) (he : exprOk e = true) (hb : SL body) :
    stmtOk st = true := by
  unfold mkForInP at h
  split at h
  · rename_i q v p it ip
    simp only [exprOk, Bool.and_eq_true] at he
    split at h <;> first
      | (cases h; done)
      | (cases h; simp only [stmtOk, exprOk, Bool.and_eq_true]; exact ⟨⟨trivial, he.2⟩, stmtOkL_iff.2 hb⟩)
  · cases h

/-! ### the invariant -/

structure ShInv (f : Nat) : Prop where
  expr : ∀ mp ts t r, parsePosExpr f mp ts = some (t, r) → exprOk t = true
  binRest : ∀ mp l ts t r, exprOk l = true → parsePosBinRest f mp l ts = some (t, r) → exprOk t = true
  unary : ∀ ts t r, parsePosUnary f ts = some (t, r) → exprOk t = true
  primary : ∀ ts t r, parsePosPrimary f ts = some (t, r) → exprOk t = true
  afterIdent : ∀ q v p r t r', parsePosAfterIdent f q v p r = some (t, r') → exprOk t = true
  indexChain : ∀ acc lbs rbs ts res r, EL acc → parsePosIndexChain f acc lbs rbs ts = some (res, r) → EL res.1
  attrChain : ∀ obj ts t r, exprOk obj = true → parsePosAttrChain f obj ts = some (t, r) → exprOk t = true
  attrY : ∀ ts t r, parsePosAttrY f ts = some (t, r) → exprOk t = true
  attrYIdx : ∀ nm r t r', parsePosAttrYIdx f nm r = some (t, r') → exprOk t = true
  sliceChain : ∀ obj ts t r, exprOk obj = true → parsePosSliceChain f obj ts = some (t, r) → exprOk t = true
  sliceBody : ∀ st ts res r, EO st → parsePosSliceBody f st ts = some (res, r) →
    EO res.1 ∧ EO res.2.1 ∧ EO res.2.2.1
  args : ∀ acc ts res r, EL acc → parsePosArgs f acc ts = some (res, r) → EL res.1
  listElems : ∀ acc ts res r, EL acc → parsePosListElems f acc ts = some (res, r) → EL res.1
  mapElems : ∀ acc ts res r, EKV acc → parsePosMapElems f acc ts = some (res, r) → EKV res.1
  commaParams : ∀ acc ts res r, EL acc → parsePosCommaParams f acc ts = some (res, r) → EL res
  simple : ∀ ts t r, parsePosSimple f ts = some (t, r) → exprOk t = true
  block : ∀ ts b r, parsePosBlock f ts = some (b, r) → SL b
  stmts : ∀ ts b r, parsePosStmts f ts = some (b, r) → SL b
  stmtsTail : ∀ acc ts b r, SL acc → parsePosStmtsTail f acc ts = some (b, r) → SL b
  stmtsAfterSep : ∀ acc ts b r, SL acc → parsePosStmtsAfterSep f acc ts = some (b, r) → SL b
  stmt : ∀ ts t r, parsePosStmt f ts = some (t, r) → stmtOk t = true
  elifs : ∀ acc ts t r, IfsP acc → parsePosElifs f acc ts = some (t, r) → stmtOk t = true
  for_ : ∀ fp ts t r, parsePosFor f fp ts = some (t, r) → stmtOk t = true
  forRest : ∀ fp init ts t r, EO init → parsePosForRest f fp init ts = some (t, r) → stmtOk t = true

theorem shInv_zero : ShInv 0 := by
  constructor <;> intros <;> simp_all [parsePosExpr, parsePosBinRest, parsePosUnary, parsePosPrimary,
    parsePosAfterIdent, parsePosIndexChain, parsePosAttrChain, parsePosAttrY, parsePosAttrYIdx, parsePosSliceChain,
    parsePosSliceBody, parsePosArgs, parsePosListElems, parsePosMapElems, parsePosCommaParams, parsePosSimple,
    parsePosBlock, parsePosStmts, parsePosStmtsTail, parsePosStmtsAfterSep, parsePosStmt, parsePosElifs,
    parsePosFor, parsePosForRest]

theorem sh_expr {f} (ih : ShInv f) : ∀ mp ts t r, parsePosExpr (f+1) mp ts = some (t, r) → exprOk t = true := by
  intro mp ts t r h
  simp only [parsePosExpr] at h
  rcases hu : parsePosUnary f ts with _ | ⟨l, r1⟩ <;> simp only [hu, reduceCtorEq] at h
  exact ih.binRest mp l r1 t r (ih.unary ts l r1 hu) h

theorem sh_binRest {f} (ih : ShInv f) : ∀ mp l ts t r, exprOk l = true →
    parsePosBinRest (f+1) mp l ts = some (t, r) → exprOk t = true := by
  intro mp l ts t r hl h
  simp only [parsePosBinRest] at h
  cases ts with
  | nil => cases h; exact hl
  | cons i rest =>
    dsimp only at h
    rcases hb : binOf i.typ with _ | ⟨p, op⟩ <;> simp only [hb] at h
    · cases h; exact hl
    · split at h
      · rcases he : parsePosExpr f (p + 1) (skipE rest) with _ | ⟨rhs, r2⟩ <;> simp only [he, reduceCtorEq] at h
        have o1 := ih.expr (p+1) (skipE rest) rhs r2 he
        rcases hm : mkBinP op i.pos l rhs with _ | e <;> simp only [hm, reduceCtorEq] at h
        exact ih.binRest mp e r2 t r (e_mkBinP hm hl o1) h
      · cases h; exact hl

theorem sh_unary {f} (ih : ShInv f) : ∀ ts t r, parsePosUnary (f+1) ts = some (t, r) → exprOk t = true := by
  intro ts t r h
  simp only [parsePosUnary] at h
  cases ts with
  | nil => cases h
  | cons i rest =>
    dsimp only at h
    rcases hb : unOf i.typ with _ | op <;> simp only [hb] at h
    · exact ih.primary _ t r h
    · rcases he : parsePosUnary f rest with _ | ⟨e, r1⟩ <;> simp only [he, reduceCtorEq] at h
      have o1 := ih.unary rest e r1 he
      cases h
      exact e_mkUnaryP o1

theorem sh_primary {f} (ih : ShInv f) : ∀ ts t r, parsePosPrimary (f+1) ts = some (t, r) → exprOk t = true := by
  intro ts t r h
  cases ts with
  | nil => simp [parsePosPrimary] at h
  | cons i rest =>
    simp only [parsePosPrimary] at h
    cases ht : i.typ <;> simp only [ht, reduceCtorEq] at h
    case ID => exact ih.afterIdent _ _ _ _ t r h
    case QUOTED_STRING =>
      split at h
      · exact ih.afterIdent _ _ _ _ t r h
      · cases h
    case DOT =>
      rcases h1 : expect .LEFT_BRACKET rest with _ | r1 <;> simp only [h1, reduceCtorEq] at h
      rcases h2 : parsePosExpr f 1 (skipE r1) with _ | ⟨e, r2⟩ <;> simp only [h2, reduceCtorEq] at h
      rcases h3 : expect .RIGHT_BRACKET (skipE r2) with _ | r3 <;> simp only [h3, reduceCtorEq] at h
      rcases h4 : parsePosIndexChain f [e] [hp rest] [hp (skipE r2)] r3 with _ | ⟨ic, r4⟩ <;>
        simp only [h4, reduceCtorEq] at h
      have o2 := ih.expr 1 (skipE r1) e r2 h2
      have o4 := ih.indexChain [e] _ _ r3 ic r4 (EL.single o2) h4
      exact ih.attrChain _ r4 t r (e_index o4) h
    case NUMBER => exact ih.sliceChain _ rest t r rfl h
    case TRUE => exact ih.sliceChain _ rest t r rfl h
    case FALSE => exact ih.sliceChain _ rest t r rfl h
    case NIL => exact ih.sliceChain _ rest t r rfl h
    case NULL => exact ih.sliceChain _ rest t r rfl h
    case STRING =>
      split at h
      · exact ih.sliceChain _ rest t r rfl h
      · cases h
    case MULTILINE_STRING =>
      split at h
      · exact ih.sliceChain _ rest t r rfl h
      · cases h
    case LEFT_BRACKET =>
      split at h
      · exact ih.sliceChain _ _ t r (e_list EL.nil) h
      · rcases h1 : parsePosListElems f [] (skipE rest) with _ | ⟨xr, r2⟩ <;> simp only [h1, reduceCtorEq] at h
        have o1 := ih.listElems [] (skipE rest) xr r2 EL.nil h1
        exact ih.sliceChain _ r2 t r (e_list o1) h
    case LEFT_BRACE =>
      split at h
      · cases h; exact e_map EKV.nil
      · rcases h1 : parsePosMapElems f [] (skipE rest) with _ | ⟨kr, r2⟩ <;> simp only [h1, reduceCtorEq] at h
        have o1 := ih.mapElems [] (skipE rest) kr r2 EKV.nil h1
        cases h
        exact e_map o1
    case LEFT_PAREN =>
      rcases h2 : parsePosExpr f 1 (skipE rest) with _ | ⟨e, r2⟩ <;> simp only [h2, reduceCtorEq] at h
      rcases h3 : expect .RIGHT_PAREN (skipE r2) with _ | r3 <;> simp only [h3, reduceCtorEq] at h
      have o2 := ih.expr 1 (skipE rest) e r2 h2
      cases h
      simpa only [exprOk] using o2

theorem sh_slice {f} (ih : ShInv f) {tb : List Item} {obj : PP} {st : Option PP}
    {sl : Option PP × Option PP × Option PP × Bool × Nat} {r2 : List Item} {s : PP} {lb : Nat}
    (ho : exprOk obj = true) (hst : EO st) (h1 : parsePosSliceBody f st tb = some (sl, r2))
    (h2 : mkSliceP obj sl.1 sl.2.1 sl.2.2.1 sl.2.2.2.1 lb sl.2.2.2.2 = some s) : exprOk s = true := by
  obtain ⟨oa, ob, oc⟩ := ih.sliceBody st tb sl r2 hst h1
  exact e_mkSliceP h2 ho oa ob oc

theorem sh_afterIdent {f} (ih : ShInv f) : ∀ q v p r t r',
    parsePosAfterIdent (f+1) q v p r = some (t, r') → exprOk t = true := by
  intro q v p r t r' h
  simp only [parsePosAfterIdent] at h
  cases ht : tk r <;> simp only [ht] at h
  case LEFT_PAREN =>
    split at h
    · exact ih.sliceChain _ _ t r' (e_call EL.nil) h
    · rcases h1 : parsePosArgs f [] (skipE (r.drop 1)) with _ | ⟨ar, r2⟩ <;> simp only [h1, reduceCtorEq] at h
      have o1 := ih.args [] _ ar r2 EL.nil h1
      exact ih.sliceChain _ r2 t r' (e_call o1) h
  case LEFT_BRACKET =>
    split at h
    · rcases h1 : parsePosSliceBody f none (skipE (r.drop 1)) with _ | ⟨sl, r2⟩ <;>
        simp only [h1, reduceCtorEq] at h
      rcases h2 : mkSliceP (.ident q v p) sl.1 sl.2.1 sl.2.2.1 sl.2.2.2.1 (hp r) sl.2.2.2.2 with _ | s <;>
        simp only [h2, reduceCtorEq] at h
      exact ih.sliceChain s r2 t r' (sh_slice ih rfl EO.none h1 h2) h
    · rcases hx : parsePosExpr f 1 (skipE (r.drop 1)) with _ | ⟨e, r2⟩ <;> simp only [hx, reduceCtorEq] at h
      have ox := ih.expr 1 _ e r2 hx
      split at h
      · rcases h1 : parsePosSliceBody f (some e) r2 with _ | ⟨sl, r3⟩ <;> simp only [h1, reduceCtorEq] at h
        rcases h2 : mkSliceP (.ident q v p) sl.1 sl.2.1 sl.2.2.1 sl.2.2.2.1 (hp r) sl.2.2.2.2 with _ | s <;>
          simp only [h2, reduceCtorEq] at h
        exact ih.sliceChain s r3 t r' (sh_slice ih rfl (EO.some ox) h1 h2) h
      · rcases h3 : expect .RIGHT_BRACKET (skipE r2) with _ | r3 <;> simp only [h3, reduceCtorEq] at h
        rcases h4 : parsePosIndexChain f [e] [hp r] [hp (skipE r2)] r3 with _ | ⟨ic, r4⟩ <;>
          simp only [h4, reduceCtorEq] at h
        have o4 := ih.indexChain [e] _ _ r3 ic r4 (EL.single ox) h4
        exact ih.attrChain _ r4 t r' (e_index o4) h
  case DOT => exact ih.attrChain _ r t r' rfl h
  all_goals (cases h; rfl)

theorem sh_indexChain {f} (ih : ShInv f) : ∀ acc lbs rbs ts res r, EL acc →
    parsePosIndexChain (f+1) acc lbs rbs ts = some (res, r) → EL res.1 := by
  intro acc lbs rbs ts res r ha h
  simp only [parsePosIndexChain] at h
  split at h
  · rcases h2 : parsePosExpr f 1 (skipE (ts.drop 1)) with _ | ⟨e, r2⟩ <;> simp only [h2, reduceCtorEq] at h
    rcases h3 : expect .RIGHT_BRACKET (skipE r2) with _ | r3 <;> simp only [h3, reduceCtorEq] at h
    have o2 := ih.expr 1 _ e r2 h2
    exact ih.indexChain _ _ _ r3 res r (ha.snoc o2) h
  · cases h; exact ha

theorem sh_attrChain {f} (ih : ShInv f) : ∀ obj ts t r, exprOk obj = true →
    parsePosAttrChain (f+1) obj ts = some (t, r) → exprOk t = true := by
  intro obj ts t r ho h
  simp only [parsePosAttrChain] at h
  split at h
  · rcases h2 : parsePosAttrY f (ts.drop 1) with _ | ⟨y, r1⟩ <;> simp only [h2, reduceCtorEq] at h
    have o2 := ih.attrY _ y r1 h2
    exact ih.attrChain _ r1 t r (e_attr ho o2) h
  · cases h; exact ho

theorem sh_attrY {f} (ih : ShInv f) : ∀ ts t r, parsePosAttrY (f+1) ts = some (t, r) → exprOk t = true := by
  intro ts t r h
  cases ts with
  | nil => simp [parsePosAttrY] at h
  | cons i rest =>
    simp only [parsePosAttrY] at h
    cases ht : i.typ <;> simp only [ht, reduceCtorEq] at h
    case ID => exact ih.attrYIdx _ rest t r h
    case QUOTED_STRING =>
      split at h
      · exact ih.attrYIdx _ rest t r h
      · cases h
    case DOT =>
      split at h
      · exact ih.attrYIdx _ rest t r h
      · cases h

theorem sh_attrYIdx {f} (ih : ShInv f) : ∀ nm r t r',
    parsePosAttrYIdx (f+1) nm r = some (t, r') → exprOk t = true := by
  intro nm r t r' h
  simp only [parsePosAttrYIdx] at h
  split at h
  · rcases h4 : parsePosIndexChain f [] [] [] r with _ | ⟨ic, r2⟩ <;> simp only [h4, reduceCtorEq] at h
    have o4 := ih.indexChain [] [] [] r ic r2 EL.nil h4
    cases h
    exact e_index o4
  · rcases nm with _ | ⟨q, v, p⟩ <;> simp only [reduceCtorEq] at h
    cases h
    rfl

theorem sh_sliceChain {f} (ih : ShInv f) : ∀ obj ts t r, exprOk obj = true →
    parsePosSliceChain (f+1) obj ts = some (t, r) → exprOk t = true := by
  intro obj ts t r ho h
  simp only [parsePosSliceChain] at h
  split at h
  · split at h
    · rcases h1 : parsePosSliceBody f none (skipE (ts.drop 1)) with _ | ⟨sl, r2⟩ <;>
        simp only [h1, reduceCtorEq] at h
      rcases h2 : mkSliceP obj sl.1 sl.2.1 sl.2.2.1 sl.2.2.2.1 (hp ts) sl.2.2.2.2 with _ | s <;>
        simp only [h2, reduceCtorEq] at h
      exact ih.sliceChain s r2 t r (sh_slice ih ho EO.none h1 h2) h
    · rcases hx : parsePosExpr f 1 (skipE (ts.drop 1)) with _ | ⟨e, r2⟩ <;> simp only [hx, reduceCtorEq] at h
      have ox := ih.expr 1 _ e r2 hx
      rcases h1 : parsePosSliceBody f (some e) r2 with _ | ⟨sl, r3⟩ <;> simp only [h1, reduceCtorEq] at h
      rcases h2 : mkSliceP obj sl.1 sl.2.1 sl.2.2.1 sl.2.2.2.1 (hp ts) sl.2.2.2.2 with _ | s <;>
        simp only [h2, reduceCtorEq] at h
      exact ih.sliceChain s r3 t r (sh_slice ih ho (EO.some ox) h1 h2) h
  · cases h; exact ho

theorem sh_sliceBody {f} (ih : ShInv f) : ∀ st ts res r, EO st →
    parsePosSliceBody (f+1) st ts = some (res, r) → EO res.1 ∧ EO res.2.1 ∧ EO res.2.2.1 := by
  intro st ts res r hst h
  simp only [parsePosSliceBody] at h
  rcases h0 : expect .COLON ts with _ | r0 <;> simp only [h0, reduceCtorEq] at h
  have tail : ∀ (stop : Option PP) (r2 : List Item), EO stop →
      (if tk r2 = Tok.COLON then
        if tk (skipE (List.drop 1 r2)) = Tok.RIGHT_BRACKET then
          some ((st, stop, none, true, hp (skipE (List.drop 1 r2))), List.drop 1 (skipE (List.drop 1 r2)))
        else
          match parsePosExpr f 1 (skipE (List.drop 1 r2)) with
          | some (e, r4) =>
            match expect Tok.RIGHT_BRACKET r4 with
            | some r5 => some ((st, stop, some e, true, hp r4), r5)
            | none => none
          | none => none
      else
        match expect Tok.RIGHT_BRACKET r2 with
        | some r3 => some ((st, stop, none, false, hp r2), r3)
        | none => none) = some (res, r) →
      EO res.1 ∧ EO res.2.1 ∧ EO res.2.2.1 := by
    intro stop r2 ostop h
    split at h
    · split at h
      · cases h
        exact ⟨hst, ostop, EO.none⟩
      · rcases h3 : parsePosExpr f 1 (skipE (r2.drop 1)) with _ | ⟨e', r4⟩ <;> simp only [h3, reduceCtorEq] at h
        rcases h5 : expect .RIGHT_BRACKET r4 with _ | r5 <;> simp only [h5, reduceCtorEq] at h
        have o3 := ih.expr 1 _ e' r4 h3
        cases h
        exact ⟨hst, ostop, EO.some o3⟩
    · rcases h5 : expect .RIGHT_BRACKET r2 with _ | r3 <;> simp only [h5, reduceCtorEq] at h
      cases h
      exact ⟨hst, ostop, EO.none⟩
  by_cases hc : (decide (tk (skipE r0) = Tok.COLON) || decide (tk (skipE r0) = Tok.RIGHT_BRACKET)) = true
  · simp only [hc, ↓reduceIte] at h
    exact tail none (skipE r0) EO.none h
  · simp only [hc, Bool.false_eq_true, ↓reduceIte] at h
    rcases h2 : parsePosExpr f 1 (skipE r0) with _ | ⟨e, r2⟩ <;> simp only [h2, reduceCtorEq] at h
    have o2 := ih.expr 1 _ e r2 h2
    exact tail (some e) r2 (EO.some o2) h

theorem sh_args {f} (ih : ShInv f) : ∀ acc ts res r, EL acc →
    parsePosArgs (f+1) acc ts = some (res, r) → EL res.1 := by
  intro acc ts res r ha h
  simp only [parsePosArgs] at h
  rcases h1 : parsePosExpr f 1 ts with _ | ⟨e, r1⟩ <;> simp only [h1, reduceCtorEq] at h
  have o1 := ih.expr 1 ts e r1 h1
  have tail : ∀ (arg : PP) (r' : List Item), exprOk arg = true →
      (if tk r' = Tok.COMMA then
        if tk (skipE (List.drop 1 r')) = Tok.RIGHT_PAREN then
          some ((acc ++ [arg], hp (skipE (List.drop 1 r'))), List.drop 1 (skipE (List.drop 1 r')))
        else parsePosArgs f (acc ++ [arg]) (skipE (List.drop 1 r'))
      else
        match expect Tok.RIGHT_PAREN (skipE r') with
        | some r3 => some ((acc ++ [arg], hp (skipE r')), r3)
        | none => none) = some (res, r) →
      EL res.1 := by
    intro arg r' oa h
    split at h
    · split at h
      · cases h
        exact ha.snoc oa
      · exact ih.args _ _ res r (ha.snoc oa) h
    · rcases h5 : expect .RIGHT_PAREN (skipE r') with _ | r3 <;> simp only [h5, reduceCtorEq] at h
      cases h
      exact ha.snoc oa
  cases e
  case ident q v p =>
    simp only at h
    by_cases hq : tk r1 = Tok.EQ
    · simp only [hq, ↓reduceIte] at h
      rcases h2 : parsePosExpr f 1 (skipE (r1.drop 1)) with _ | ⟨v', r2⟩ <;> simp only [h2, reduceCtorEq] at h
      have o2 := ih.expr 1 _ v' r2 h2
      exact tail _ r2 (e_assign (EL.single o1) (EL.single o2)) h
    · simp only [hq, ↓reduceIte] at h
      exact tail _ r1 o1 h
  all_goals (simp only at h; exact tail _ r1 o1 h)

theorem sh_listElems {f} (ih : ShInv f) : ∀ acc ts res r, EL acc →
    parsePosListElems (f+1) acc ts = some (res, r) → EL res.1 := by
  intro acc ts res r ha h
  simp only [parsePosListElems] at h
  rcases h1 : parsePosExpr f 1 ts with _ | ⟨e, r1⟩ <;> simp only [h1, reduceCtorEq] at h
  have o1 := ih.expr 1 ts e r1 h1
  split at h
  · cases h
    exact ha.snoc o1
  · split at h
    · split at h
      · cases h
        exact ha.snoc o1
      · exact ih.listElems _ _ res r (ha.snoc o1) h
    · cases h

theorem sh_mapElems {f} (ih : ShInv f) : ∀ acc ts res r, EKV acc →
    parsePosMapElems (f+1) acc ts = some (res, r) → EKV res.1 := by
  intro acc ts res r ha h
  simp only [parsePosMapElems] at h
  rcases h1 : parsePosExpr f 1 ts with _ | ⟨k, r1⟩ <;> simp only [h1, reduceCtorEq] at h
  have o1 := ih.expr 1 ts k r1 h1
  rcases h2 : expect .COLON r1 with _ | r2 <;> simp only [h2, reduceCtorEq] at h
  rcases h3 : parsePosExpr f 1 (skipE r2) with _ | ⟨v, r3⟩ <;> simp only [h3, reduceCtorEq] at h
  have o3 := ih.expr 1 _ v r3 h3
  split at h
  · split at h
    · cases h
      exact ha.snoc o1 o3
    · exact ih.mapElems _ _ res r (ha.snoc o1 o3) h
  · rcases h5 : expect .RIGHT_BRACE (skipE r3) with _ | r4 <;> simp only [h5, reduceCtorEq] at h
    cases h
    exact ha.snoc o1 o3

theorem sh_commaParams {f} (ih : ShInv f) : ∀ acc ts res r, EL acc →
    parsePosCommaParams (f+1) acc ts = some (res, r) → EL res := by
  intro acc ts res r ha h
  simp only [parsePosCommaParams] at h
  rcases h1 : parsePosExpr f 1 ts with _ | ⟨e, r1⟩ <;> simp only [h1, reduceCtorEq] at h
  have o1 := ih.expr 1 ts e r1 h1
  split at h
  · exact ih.commaParams _ _ res r (ha.snoc o1) h
  · cases h; exact ha.snoc o1

theorem sh_simple {f} (ih : ShInv f) : ∀ ts t r, parsePosSimple (f+1) ts = some (t, r) → exprOk t = true := by
  intro ts t r h
  simp only [parsePosSimple] at h
  rcases h1 : parsePosCommaParams f [] ts with _ | ⟨es, r1⟩ <;> simp only [h1, reduceCtorEq] at h
  have o1 := ih.commaParams [] ts es r1 EL.nil h1
  split at h
  · rcases h2 : parsePosCommaParams f [] (skipE (r1.drop 1)) with _ | ⟨rs, r2⟩ <;>
      simp only [h2, reduceCtorEq] at h
    have o2 := ih.commaParams [] _ rs r2 EL.nil h2
    cases h
    exact e_assign o1 o2
  · rcases ha : asgOf (tk r1) with _ | op <;> simp only [ha] at h
    · rcases es with _ | ⟨e, _ | ⟨e2, es⟩⟩ <;> simp only [reduceCtorEq] at h
      cases h
      exact o1 _ (by simp)
    · rcases es with _ | ⟨e, _ | ⟨e2, es⟩⟩ <;> simp only [reduceCtorEq] at h
      rcases h3 : parsePosExpr f 1 (skipE (r1.drop 1)) with _ | ⟨v, r2⟩ <;> simp only [h3, reduceCtorEq] at h
      have o3 := ih.expr 1 _ v r2 h3
      cases h
      exact e_assign (EL.single (o1 e (by simp))) (EL.single o3)

theorem sh_block {f} (ih : ShInv f) : ∀ ts b r, parsePosBlock (f+1) ts = some (b, r) → SL b := by
  intro ts b r h
  simp only [parsePosBlock] at h
  rcases h0 : expect .LEFT_BRACE ts with _ | r0 <;> simp only [h0, reduceCtorEq] at h
  split at h
  · cases h; exact SL.nil
  · rcases h1 : parsePosStmts f (skipE r0) with _ | ⟨ss, r2⟩ <;> simp only [h1, reduceCtorEq] at h
    rcases h2 : expect .RIGHT_BRACE r2 with _ | r3 <;> simp only [h2, reduceCtorEq] at h
    have o1 := ih.stmts _ ss r2 h1
    cases h; exact o1

theorem sh_stmts {f} (ih : ShInv f) : ∀ ts b r, parsePosStmts (f+1) ts = some (b, r) → SL b := by
  intro ts b r h
  simp only [parsePosStmts] at h
  split at h
  · exact ih.stmtsAfterSep [] _ b r SL.nil h
  · rcases h1 : parsePosStmt f ts with _ | ⟨s, r1⟩ <;> simp only [h1, reduceCtorEq] at h
    have o1 := ih.stmt ts s r1 h1
    exact ih.stmtsTail [s] r1 b r (SL.single o1) h

theorem sh_stmtsTail {f} (ih : ShInv f) : ∀ acc ts b r, SL acc →
    parsePosStmtsTail (f+1) acc ts = some (b, r) → SL b := by
  intro acc ts b r ha h
  simp only [parsePosStmtsTail] at h
  split at h
  · exact ih.stmtsAfterSep acc _ b r ha h
  · cases h; exact ha

theorem sh_stmtsAfterSep {f} (ih : ShInv f) : ∀ acc ts b r, SL acc →
    parsePosStmtsAfterSep (f+1) acc ts = some (b, r) → SL b := by
  intro acc ts b r ha h
  simp only [parsePosStmtsAfterSep] at h
  split at h
  · cases h; exact ha
  · rcases h1 : parsePosStmt f ts with _ | ⟨s, r1⟩ <;> simp only [h1, reduceCtorEq] at h
    have o1 := ih.stmt ts s r1 h1
    exact ih.stmtsTail _ r1 b r (ha.snoc o1) h

theorem sh_stmt {f} (ih : ShInv f) : ∀ ts t r, parsePosStmt (f+1) ts = some (t, r) → stmtOk t = true := by
  intro ts t r h
  cases ts with
  | nil => simp [parsePosStmt] at h
  | cons i rest =>
    simp only [parsePosStmt] at h
    cases ht : i.typ <;> simp only [ht] at h
    case IF =>
      rcases h1 : parsePosExpr f 1 rest with _ | ⟨c, r1⟩ <;> simp only [h1, reduceCtorEq] at h
      rcases h2 : parsePosBlock f r1 with _ | ⟨b, r2⟩ <;> simp only [h2, reduceCtorEq] at h
      have o1 := ih.expr 1 rest c r1 h1
      have o2 := ih.block r1 b r2 h2
      exact ih.elifs _ r2 t r (IfsP.single o1 o2) h
    case FOR => exact ih.for_ i.pos rest t r h
    case BREAK => cases h; rfl
    case CONTINUE => cases h; rfl
    all_goals exact stmtOk_of_exprOk (ih.simple _ t r h)

theorem sh_elifs {f} (ih : ShInv f) : ∀ acc ts t r, IfsP acc →
    parsePosElifs (f+1) acc ts = some (t, r) → stmtOk t = true := by
  intro acc ts t r ha h
  simp only [parsePosElifs] at h
  split at h
  · rcases h1 : parsePosExpr f 1 (ts.drop 1) with _ | ⟨c, r1⟩ <;> simp only [h1, reduceCtorEq] at h
    rcases h2 : parsePosBlock f r1 with _ | ⟨b, r2⟩ <;> simp only [h2, reduceCtorEq] at h
    have o1 := ih.expr 1 _ c r1 h1
    have o2 := ih.block r1 b r2 h2
    exact ih.elifs _ r2 t r (ha.snoc o1 o2) h
  · split at h
    · rcases h2 : parsePosBlock f (ts.drop 1) with _ | ⟨b, r2⟩ <;> simp only [h2, reduceCtorEq] at h
      have o2 := ih.block _ b r2 h2
      cases h
      exact s_ifelse ha (by intro e he; cases he; exact o2)
    · cases h; exact s_ifelse ha (by intro e he; cases he)

theorem sh_for {f} (ih : ShInv f) : ∀ fp ts t r, parsePosFor (f+1) fp ts = some (t, r) → stmtOk t = true := by
  intro fp ts t r h
  simp only [parsePosFor] at h
  split at h
  · exact ih.forRest fp none _ t r EO.none h
  · rcases h1 : parsePosSimple f ts with _ | ⟨s, r1⟩ <;> simp only [h1, reduceCtorEq] at h
    have o1 := ih.simple ts s r1 h1
    split at h
    · rcases h2 : parsePosBlock f r1 with _ | ⟨b, r2⟩ <;> simp only [h2, reduceCtorEq] at h
      have o2 := ih.block r1 b r2 h2
      rcases h3 : mkForInP fp s b with _ | st <;> simp only [h3, reduceCtorEq] at h
      cases h
      exact s_mkForInP h3 o1 o2
    · rcases h2 : expect .SEMICOLON r1 with _ | r2 <;> simp only [h2, reduceCtorEq] at h
      exact ih.forRest fp (some s) r2 t r (EO.some o1) h

theorem sh_forRest {f} (ih : ShInv f) : ∀ fp init ts t r, EO init →
    parsePosForRest (f+1) fp init ts = some (t, r) → stmtOk t = true := by
  intro fp init ts t r hi h
  simp only [parsePosForRest] at h
  have tail : ∀ (cond : Option PP) (r0 : List Item), EO cond →
      (match expect Tok.SEMICOLON r0 with
        | none => none
        | some r1 =>
          match
            if tk r1 = Tok.LEFT_BRACE then
              match parsePosBlock f r1 with
              | some (b, r2) => if stmtEnd (tk r2) = true then some (b, r2) else none
              | none => none
            else none with
          | some (b, r2) => some (PP.forS init cond none b fp, r2)
          | none =>
            match parsePosSimple f r1 with
            | some (l, r2) =>
              match parsePosBlock f r2 with
              | some (b, r3) => some (PP.forS init cond (some l) b fp, r3)
              | none => none
            | none => none) = some (t, r) → stmtOk t = true := by
    intro cond r0 oc h
    rcases h1 : expect .SEMICOLON r0 with _ | r1 <;> simp only [h1, reduceCtorEq] at h
    have rest : (match parsePosSimple f r1 with
          | some (l, r2) =>
            match parsePosBlock f r2 with
            | some (b, r3) => some (PP.forS init cond (some l) b fp, r3)
            | none => none
          | none => none) = some (t, r) → stmtOk t = true := by
      intro h
      rcases h2 : parsePosSimple f r1 with _ | ⟨l, r2⟩ <;> simp only [h2, reduceCtorEq] at h
      rcases h3 : parsePosBlock f r2 with _ | ⟨b, r3⟩ <;> simp only [h3, reduceCtorEq] at h
      have o2 := ih.simple r1 l r2 h2
      have o3 := ih.block r2 b r3 h3
      cases h
      exact s_forS hi oc (EO.some o2) o3
    by_cases hb : tk r1 = Tok.LEFT_BRACE
    · simp only [hb, ↓reduceIte] at h
      rcases h2 : parsePosBlock f r1 with _ | ⟨b, r2⟩ <;> simp only [h2] at h
      · exact rest h
      · by_cases he : stmtEnd (tk r2) = true
        · simp only [he, ↓reduceIte] at h
          have o2 := ih.block r1 b r2 h2
          cases h
          exact s_forS hi oc EO.none o2
        · simp only [he, Bool.false_eq_true, ↓reduceIte] at h
          exact rest h
    · simp only [hb, ↓reduceIte] at h
      exact rest h
  by_cases hsc : tk ts = Tok.SEMICOLON
  · simp only [hsc, ↓reduceIte] at h
    exact tail none ts EO.none h
  · simp only [hsc, ↓reduceIte] at h
    rcases h1 : parsePosExpr f 1 ts with _ | ⟨c, r1⟩ <;> simp only [h1, reduceCtorEq] at h
    have o1 := ih.expr 1 ts c r1 h1
    exact tail (some c) r1 (EO.some o1) h

theorem shInv : ∀ f, ShInv f
  | 0 => shInv_zero
  | f+1 =>
    have ih := shInv f
    { expr := sh_expr ih, binRest := sh_binRest ih, unary := sh_unary ih, primary := sh_primary ih
      afterIdent := sh_afterIdent ih, indexChain := sh_indexChain ih, attrChain := sh_attrChain ih
      attrY := sh_attrY ih, attrYIdx := sh_attrYIdx ih, sliceChain := sh_sliceChain ih
      sliceBody := sh_sliceBody ih, args := sh_args ih, listElems := sh_listElems ih
      mapElems := sh_mapElems ih, commaParams := sh_commaParams ih, simple := sh_simple ih
      block := sh_block ih, stmts := sh_stmts ih, stmtsTail := sh_stmtsTail ih
      stmtsAfterSep := sh_stmtsAfterSep ih, stmt := sh_stmt ih, elifs := sh_elifs ih
      for_ := sh_for ih, forRest := sh_forRest ih }

/-- statement nodes occur only in statement position in every tree the parser returns -/
theorem parsePosItems_shape {its : List Item} {tps : List PP} (h : parsePosItems its = some tps) :
    ∀ p ∈ tps, stmtOk p = true := by
  simp only [parsePosItems] at h
  split at h
  · cases h
  · split at h
    · split at h
      · cases h; intro tp htp; cases htp
      · cases h
    · rcases h1 : parsePosStmts (16 * (its.filter fun i => decide (i.typ ≠ .COMMENT)).length + 64)
          (skipE (its.filter fun i => decide (i.typ ≠ .COMMENT))) with _ | ⟨ss, r⟩ <;>
        simp only [h1, reduceCtorEq] at h
      split at h
      · cases h
        exact (shInv _).stmts _ _ r h1
      · cases h

end Platypus.FrontEnd
