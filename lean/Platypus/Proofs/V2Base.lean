import Platypus.Proofs.V2Defs
/-!
A small relational logic for `Sim`/`SimM`: two computations, the v1 one started in `proj pt s`
and the v2 one in `s`, step in lock step.
-/
namespace Platypus.V2Agree
open Platypus Platypus.V2 Platypus.MachineProofs

variable {pt : Point} {BL BR BL1 BR1 : Prop} {α β γ δ : Type}

/-! ### `proj` -/
@[simp] theorem proj_name (s : St) : (proj pt s).task.name = s.task.name := rfl
@[simp] theorem proj_scopes (s : St) : (proj pt s).task.scopes = s.task.scopes := rfl
@[simp] theorem proj_brk (s : St) : (proj pt s).task.brk = s.task.brk := rfl
@[simp] theorem proj_cont (s : St) : (proj pt s).task.cont = s.task.cont := rfl
@[simp] theorem proj_exit (s : St) : (proj pt s).task.exit = s.task.exit := rfl
@[simp] theorem proj_regs (s : St) : (proj pt s).task.regs = [] := rfl
@[simp] theorem proj_heap (s : St) : (proj pt s).world.heap = s.world.heap := rfl
@[simp] theorem proj_polls (s : St) : (proj pt s).world.polls = s.world.polls := rfl
@[simp] theorem proj_mapIters (s : St) : (proj pt s).world.mapIters = s.world.mapIters := rfl
@[simp] theorem proj_trace (s : St) : (proj pt s).world.trace = s.world.trace := rfl
@[simp] theorem proj_pt (s : St) : (proj pt s).world.pt = pt := rfl

theorem getKey_proj (hpt : NoKeys pt) (s : St) {name : Bytes} (hn : name ≠ underscore) :
    getKey (proj pt s) name = getVar s name := by
  have hk : normKey name = name := by unfold normKey; rw [if_neg hn]
  unfold getKey getVar
  simp only [hk, proj_scopes, proj_pt, hpt name]
  cases scopeGet s.task.scopes name <;> rfl

/-! ### results -/
theorem Sim.ok' {R : α → β → St → Prop} {a : α} {b : β} {s1 s : St} (hs : s1 = proj pt s) (h : R a b s) :
    Sim pt BL BR R (.ok a s1) (.ok b s) := by subst hs; exact .ok h

theorem Sim.err' {R : α → β → St → Prop} {e1 e2 : PlErr} {s1 s : St} (hs : s1 = proj pt s) (he : e1 = e2) :
    Sim pt BL BR R (.err e1 s1 : Res α) (.err e2 s : Res β) := by subst hs; subst he; exact .err

theorem Sim.weaken {R : α → β → St → Prop} {r1 : Res α} {r2 : Res β} (h : Sim pt BL1 BR1 R r1 r2)
    (hL : BL → BL1) (hR : BR → BR1) : Sim pt BL BR R r1 r2 := by
  cases h with
  | ok h => exact .ok h
  | err => exact .err
  | panic => exact .panic
  | need => exact .need
  | fuelL h => exact .fuelL fun b => h (hL b)
  | fuelR h => exact .fuelR fun b => h (hR b)
  | fuelB => exact .fuelB
  | undef h => exact .undef h

theorem Sim.mono {R R' : α → β → St → Prop} {r1 : Res α} {r2 : Res β} (h : Sim pt BL BR R r1 r2)
    (hR : ∀ a b s, R a b s → R' a b s) : Sim pt BL BR R' r1 r2 := by
  cases h with
  | ok h => exact .ok (hR _ _ _ h)
  | err => exact .err
  | panic => exact .panic
  | need => exact .need
  | fuelL h => exact .fuelL h
  | fuelR h => exact .fuelR h
  | fuelB => exact .fuelB
  | undef h => exact .undef h

theorem Sim.rbind {R : α → β → St → Prop} {R' : γ → δ → St → Prop} {r1 : Res α} {r2 : Res β}
    {k1 : α → EM γ} {k2 : β → EM δ} (h : Sim pt BL BR R r1 r2)
    (hk : ∀ a b s, R a b s → Sim pt BL BR R' (k1 a (proj pt s)) (k2 b s)) :
    Sim pt BL BR R' (rbind r1 k1) (rbind r2 k2) := by
  cases h with
  | ok h => exact hk _ _ _ h
  | err => exact .err
  | panic => exact .panic
  | need => exact .need
  | fuelL h => exact .fuelL h
  | fuelR h => exact .fuelR h
  | fuelB => exact .fuelB
  | undef h => exact .undef h

/-! ### the tagging invariant -/
theorem scOK_push {scs : Scopes} (h : ScOK scs) : ScOK ([] :: scs) := by
  intro sc hsc kv hkv
  rcases List.mem_cons.1 hsc with rfl | hsc
  · cases hkv
  · exact h sc hsc kv hkv

theorem scOK_tail {scs : Scopes} (h : ScOK scs) : ScOK scs.tail :=
  fun sc hsc => h sc (List.mem_of_mem_tail hsc)

theorem scOK_clear {scs : Scopes} (h : ScOK scs) : ScOK (match (generalizing := false) scs with | [] => [] | _ :: r => [] :: r) := by
  cases scs with
  | nil => exact h
  | cons x r => exact scOK_push (scOK_tail (scs := x :: r) h)

theorem mem_aset' {β} {k : Bytes} {v : β} {m : List (Bytes × β)} {kv : Bytes × β} (h : kv ∈ aset k v m) :
    kv = (k, v) ∨ kv ∈ m := by
  induction m with
  | nil => simp [aset] at h; exact .inl h
  | cons p r ih =>
    obtain ⟨a, b⟩ := p
    rw [aset_cons] at h
    split at h
    · rcases List.mem_cons.1 h with h | h
      · exact .inl h
      · exact .inr (List.mem_cons_of_mem _ h)
    · rcases List.mem_cons.1 h with h | h
      · exact .inr (h ▸ List.mem_cons_self)
      · rcases ih h with h | h
        · exact .inl h
        · exact .inr (List.mem_cons_of_mem _ h)

theorem scOK_update {scs : Scopes} (k : Bytes) {v : TV} (hv : TagNil v) (h : ScOK scs) : ScOK (scopeUpdate scs k v) := by
  induction scs with
  | nil => exact h
  | cons sc rest ih =>
    have hrest : ScOK rest := fun x hx => h x (List.mem_cons_of_mem _ hx)
    unfold scopeUpdate
    split
    · intro x hx kv hkv
      rcases List.mem_cons.1 hx with rfl | hx
      · rcases mem_aset' hkv with rfl | hkv
        · exact hv
        · exact h sc List.mem_cons_self kv hkv
      · exact hrest x hx kv hkv
    · intro x hx kv hkv
      rcases List.mem_cons.1 hx with rfl | hx
      · exact h _ List.mem_cons_self kv hkv
      · exact ih hrest x hx kv hkv

theorem scOK_set {scs : Scopes} (k : Bytes) {v : TV} (hv : TagNil v) (h : ScOK scs) : ScOK (scopeSet scs k v) := by
  unfold scopeSet
  split
  · exact scOK_update k hv h
  · cases scs with
    | nil => exact h
    | cons sc rest =>
      intro x hx kv hkv
      rcases List.mem_cons.1 hx with rfl | hx
      · rcases mem_aset' hkv with rfl | hkv
        · exact hv
        · exact h sc List.mem_cons_self kv hkv
      · exact h x (List.mem_cons_of_mem _ hx) kv hkv

theorem scOK_get {scs : Scopes} {k : Bytes} {v : TV} (h : ScOK scs) (hg : scopeGet scs k = some v) : TagNil v := by
  induction scs with
  | nil => cases hg
  | cons sc rest ih =>
    unfold scopeGet at hg
    cases hl : alookup k sc with
    | some w =>
      rw [hl] at hg
      simp only [Option.some.injEq] at hg
      subst hg
      exact h sc List.mem_cons_self (k, w) (mem_of_alookup hl)
    | none =>
      rw [hl] at hg
      exact ih (fun x hx => h x (List.mem_cons_of_mem _ hx)) hg

theorem tagNil_detect (h : Heap) (v : Val) : TagNil (detect h v) := by
  cases v <;> simp [detect, TagNil]
  split <;> simp

theorem tagNil_nil : TagNil nilTV := by simp [TagNil, nilTV]
theorem tagNil_str (b : Bytes) : TagNil ⟨.str b, .str⟩ := by simp [TagNil]

/-- discharges "the scopes are still well tagged" for state changes that keep, push, pop or clear scopes -/
macro "scp" : tactic =>
  `(tactic| first | exact id | exact scOK_push | exact scOK_tail | exact scOK_clear)

/-! ### computations -/
theorem SimM.bind {R : α → β → St → Prop} {R' : γ → δ → St → Prop} {m1 : EM α} {m2 : EM β}
    {k1 : α → EM γ} {k2 : β → EM δ} {s : St} (h : SimM pt BL1 BR1 R m1 m2 s)
    (hk : ∀ a b s', R a b s' → SimM pt BL BR R' (k1 a) (k2 b) s')
    (hL : BL → BL1 := by bnd) (hR : BR → BR1 := by bnd) : SimM pt BL BR R' (m1 >>= k1) (m2 >>= k2) s := by
  intro hs
  rw [bind_apply, bind_apply]
  exact Sim.rbind (Sim.weaken (h hs) hL hR) fun a b s' h' => hk a b s' h'.1 h'.2

/-- change the fuel bounds -/
theorem SimM.w {R : α → β → St → Prop} {m1 : EM α} {m2 : EM β} {s : St} (h : SimM pt BL1 BR1 R m1 m2 s)
    (hL : BL → BL1 := by bnd) (hR : BR → BR1 := by bnd) : SimM pt BL BR R m1 m2 s :=
  fun hs => Sim.weaken (h hs) hL hR

/-- use the invariant of the start state -/
theorem SimM.withInv {R : α → β → St → Prop} {m1 : EM α} {m2 : EM β} {s : St}
    (h : ScopesOK s → SimM pt BL BR R m1 m2 s) : SimM pt BL BR R m1 m2 s := fun hs => h hs hs

theorem rbind_pure (r : Res α) : rbind r (fun a => (Pure.pure a : EM α)) = r := by cases r <;> rfl

/-- only v2 continues (v1's continuation is `pure`) -/
theorem SimM.bind_r {R : α → β → St → Prop} {R' : α → δ → St → Prop} {m1 : EM α} {m2 : EM β}
    {k2 : β → EM δ} {s : St} (h : SimM pt BL1 BR1 R m1 m2 s)
    (hk : ∀ a b s', R a b s' → SimM pt BL BR R' (Pure.pure a) (k2 b) s')
    (hL : BL → BL1 := by bnd) (hR : BR → BR1 := by bnd) : SimM pt BL BR R' m1 (m2 >>= k2) s := by
  intro hs
  rw [bind_apply]
  have := Sim.rbind (k1 := fun a => (Pure.pure a : EM α)) (Sim.weaken (h hs) hL hR)
    fun a b s' h' => hk a b s' h'.1 h'.2
  rwa [rbind_pure] at this

theorem SimM.mono {R R' : α → β → St → Prop} {m1 : EM α} {m2 : EM β} {s : St} (h : SimM pt BL1 BR1 R m1 m2 s)
    (hR : ∀ a b s, R a b s → R' a b s) (hL : BL → BL1 := by bnd) (hR' : BR → BR1 := by bnd) :
    SimM pt BL BR R' m1 m2 s :=
  fun hs => Sim.mono (Sim.weaken (h hs) hL hR') fun a b s h => ⟨hR a b s h.1, h.2⟩

/-- the postcondition may use the invariant of the final state -/
theorem SimM.mono' {R R' : α → β → St → Prop} {m1 : EM α} {m2 : EM β} {s : St} (h : SimM pt BL1 BR1 R m1 m2 s)
    (hR : ∀ a b s, ScopesOK s → R a b s → R' a b s) (hL : BL → BL1 := by bnd) (hR' : BR → BR1 := by bnd) :
    SimM pt BL BR R' m1 m2 s :=
  fun hs => Sim.mono (Sim.weaken (h hs) hL hR') fun a b s h => ⟨hR a b s h.2 h.1, h.2⟩

theorem SimM.pure {R : α → β → St → Prop} {a : α} {b : β} {s : St} (h : R a b s) :
    SimM pt BL BR R (Pure.pure a) (Pure.pure b) s := fun hs => Sim.ok ⟨h, hs⟩

theorem SimM.runErr {R : α → β → St → Prop} (p : Pos) (m : String) (s : St) :
    SimM pt BL BR R (Platypus.runErr p m) (Platypus.runErr p m) s := fun _ => Sim.err

theorem SimM.undef {R : α → β → St → Prop} (m1 : EM α) (p : Pos) (s : St) :
    SimM pt BL BR R m1 (Platypus.runErr p "name-not-defined") s := fun _ => Sim.undef rfl

theorem SimM.panicE {R : α → β → St → Prop} (m : String) (s : St) :
    SimM pt BL BR R (Platypus.panicE m) (Platypus.panicE m) s := fun _ => Sim.panic

theorem SimM.needE {R : α → β → St → Prop} (q : Bytes) (s : St) :
    SimM pt BL BR R (Platypus.needE q) (Platypus.needE q) s := fun _ => Sim.need

theorem SimM.fuelL {R : α → β → St → Prop} (m2 : EM β) (s : St) (h : ¬BL := by bnd) :
    SimM pt BL BR R outOfFuel m2 s := fun _ => Sim.fuelL h
theorem SimM.fuelR {R : α → β → St → Prop} (m1 : EM α) (s : St) (h : ¬BR := by bnd) :
    SimM pt BL BR R m1 outOfFuel s := fun _ => Sim.fuelR h
theorem SimM.fuelB {R : α → β → St → Prop} (s : St) : SimM pt BL BR R (outOfFuel : EM α) (outOfFuel : EM β) s :=
  fun _ => Sim.fuelB

theorem SimM.getS_l {R : γ → δ → St → Prop} {k1 : St → EM γ} {m2 : EM δ} {s : St}
    (h : SimM pt BL BR R (k1 (proj pt s)) m2 s) : SimM pt BL BR R (getS >>= k1) m2 s := by
  intro hs; rw [bind_apply]; exact h hs

theorem SimM.getS_r {R : γ → δ → St → Prop} {m1 : EM γ} {k2 : St → EM δ} {s : St}
    (h : SimM pt BL BR R m1 (k2 s) s) : SimM pt BL BR R m1 (getS >>= k2) s := by
  intro hs; rw [bind_apply]; exact h hs

theorem SimM.getS {R : γ → δ → St → Prop} {k1 : St → EM γ} {k2 : St → EM δ} {s : St}
    (h : SimM pt BL BR R (k1 (proj pt s)) (k2 s) s) : SimM pt BL BR R (getS >>= k1) (getS >>= k2) s :=
  SimM.getS_l (SimM.getS_r h)

/-- both sides change the state, compatibly -/
theorem SimM.modify {R : Unit → Unit → St → Prop} {t1 t2 : St → St} {s : St}
    (ht : t1 (proj pt s) = proj pt (t2 s)) (hsc : ScopesOK s → ScopesOK (t2 s)) (h : R () () (t2 s)) :
    SimM pt BL BR R (modifyS t1) (modifyS t2) s :=
  fun hs => Sim.ok' ht ⟨h, hsc hs⟩

theorem SimM.modify_bind {R : γ → δ → St → Prop} {t1 t2 : St → St} {k1 : Unit → EM γ} {k2 : Unit → EM δ}
    {s : St} (ht : t1 (proj pt s) = proj pt (t2 s)) (hsc : ScopesOK s → ScopesOK (t2 s))
    (h : SimM pt BL BR R (k1 ()) (k2 ()) (t2 s)) :
    SimM pt BL BR R (modifyS t1 >>= k1) (modifyS t2 >>= k2) s := by
  intro hs
  rw [bind_apply, bind_apply, modifyS_apply, modifyS_apply, ht]; exact h (hsc hs)

/-- only v2 changes the state (its registers) -/
theorem SimM.modify_r {R : γ → δ → St → Prop} {t2 : St → St} {m1 : EM γ} {k2 : Unit → EM δ} {s : St}
    (ht : proj pt (t2 s) = proj pt s) (hsc : ScopesOK s → ScopesOK (t2 s)) (h : SimM pt BL BR R m1 (k2 ()) (t2 s)) :
    SimM pt BL BR R m1 (modifyS t2 >>= k2) s := by
  intro hs
  have := h (hsc hs)
  rw [bind_apply, modifyS_apply, ← ht]; exact this

/-- v1 returns `a`, v2 leaves `a` in the registers -/
theorem SimM.ret {R : α → Unit → St → Prop} {a : α} {vs : List TV} {s : St}
    (h : R a () { s with task := { s.task with regs := vs } }) : SimM pt BL BR R (Pure.pure a) (retSet vs) s :=
  fun hs => Sim.ok' rfl ⟨h, hs⟩

theorem SimM.retSet_bind {R : γ → δ → St → Prop} {vs : List TV} {m1 : EM γ} {k2 : Unit → EM δ} {s : St}
    (h : SimM pt BL BR R m1 (k2 ()) { s with task := { s.task with regs := vs } }) :
    SimM pt BL BR R m1 (retSet vs >>= k2) s :=
  SimM.modify_r (t2 := fun s => { s with task := { s.task with regs := vs } }) rfl id h

theorem SimM.modWorld_bind {R : γ → δ → St → Prop} {g : World → World} {k1 : Unit → EM γ} {k2 : Unit → EM δ}
    {s : St} (hg : g { s.world with pt := pt } = { g s.world with pt := pt })
    (h : SimM pt BL BR R (k1 ()) (k2 ()) { s with world := g s.world }) :
    SimM pt BL BR R (modWorld g >>= k1) (modWorld g >>= k2) s := by
  refine SimM.modify_bind (t1 := fun s => { s with world := g s.world })
    (t2 := fun s => { s with world := g s.world }) ?_ id h
  show ({ task := _, world := g { s.world with pt := pt } } : St) = _
  rw [hg]; rfl

theorem SimM.modWorld_pure {R : α → Unit → St → Prop} {g : World → World} {a : α} {s : St}
    (hg : g { s.world with pt := pt } = { g s.world with pt := pt })
    (h : R a () { s with world := g s.world }) :
    SimM pt BL BR R (modWorld g >>= fun _ => Pure.pure a) (modWorld g) s := by
  intro hs
  rw [bind_apply, modWorld_apply, modWorld_apply, rbind_ok]
  refine Sim.ok' ?_ ⟨h, hs⟩
  show ({ task := _, world := g { s.world with pt := pt } } : St) = _
  rw [hg]; rfl

theorem SimM.modTask_pure {R : α → Unit → St → Prop} {g : Task → Task} {a : α} {s : St}
    (hg : g { s.task with regs := [] } = { g s.task with regs := [] })
    (h : R a () { s with task := g s.task })
    (hsc : ScOK s.task.scopes → ScOK (g s.task).scopes := by scp) :
    SimM pt BL BR R (modTask g >>= fun _ => Pure.pure a) (modTask g) s := by
  intro hs
  rw [bind_apply, modTask_apply, modTask_apply, rbind_ok]
  refine Sim.ok' ?_ ⟨h, hsc hs⟩
  show ({ task := g { s.task with regs := [] }, world := _ } : St) = _
  rw [hg]; rfl

theorem SimM.fuelR_bind {R : α → δ → St → Prop} (m1 : EM α) (k2 : β → EM δ) (s : St) (h : ¬BR := by bnd) :
    SimM pt BL BR R m1 (outOfFuel >>= k2) s := fun _ => Sim.fuelR h

theorem SimM.fuelL_bind {R : γ → β → St → Prop} (m2 : EM β) (k1 : α → EM γ) (s : St) (h : ¬BL := by bnd) :
    SimM pt BL BR R (outOfFuel >>= k1) m2 s := fun _ => Sim.fuelL h

theorem SimM.modTask_bind {R : γ → δ → St → Prop} {g : Task → Task} {k1 : Unit → EM γ} {k2 : Unit → EM δ}
    {s : St} (hg : g { s.task with regs := [] } = { g s.task with regs := [] })
    (h : SimM pt BL BR R (k1 ()) (k2 ()) { s with task := g s.task })
    (hsc : ScOK s.task.scopes → ScOK (g s.task).scopes := by scp) :
    SimM pt BL BR R (modTask g >>= k1) (modTask g >>= k2) s := by
  refine SimM.modify_bind (t1 := fun s => { s with task := g s.task })
    (t2 := fun s => { s with task := g s.task }) ?_ hsc h
  show ({ task := g { s.task with regs := [] }, world := _ } : St) = _
  rw [hg]; rfl

theorem SimM.modTask {R : Unit → Unit → St → Prop} {g : Task → Task} {s : St}
    (hg : g { s.task with regs := [] } = { g s.task with regs := [] })
    (h : R () () { s with task := g s.task })
    (hsc : ScOK s.task.scopes → ScOK (g s.task).scopes := by scp) : SimM pt BL BR R (modTask g) (modTask g) s := by
  refine SimM.modify (t1 := fun s => { s with task := g s.task })
    (t2 := fun s => { s with task := g s.task }) ?_ hsc h
  show ({ task := g { s.task with regs := [] }, world := _ } : St) = _
  rw [hg]; rfl

/-- `defer`red scope pop on both sides -/
def finR (r : Res α) : Res α :=
  match r with | .ok a s' => .ok a (popSt s') | .err e s' => .err e (popSt s') | r => r

theorem Sim.finally {R R' : α → β → St → Prop} {r1 : Res α} {r2 : Res β} (h : Sim pt BL BR R r1 r2)
    (hR : ∀ a b s', R a b s' → R' a b (popSt s')) : Sim pt BL BR R' (finR r1) (finR r2) := by
  cases h with
  | ok h => exact Sim.ok' rfl (hR _ _ _ h)
  | err => exact Sim.err' rfl rfl
  | panic => exact .panic
  | need => exact .need
  | fuelL h => exact .fuelL h
  | fuelR h => exact .fuelR h
  | fuelB => exact .fuelB
  | undef h => exact .undef h

theorem SimM.finally {R R' : α → β → St → Prop} {m1 : EM α} {m2 : EM β} {s : St} (h : SimM pt BL1 BR1 R m1 m2 s)
    (hR : ∀ a b s', R a b s' → R' a b (popSt s')) (hL : BL → BL1 := by bnd) (hR' : BR → BR1 := by bnd) :
    SimM pt BL BR R' (m1.finally popSt) (m2.finally popSt) s :=
  fun hs => Sim.finally (Sim.weaken (h hs) hL hR') fun a b s' h' => ⟨hR a b s' h'.1, scOK_tail h'.2⟩

end Platypus.V2Agree
