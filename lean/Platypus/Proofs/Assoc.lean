import Platypus.Model.Basic
/-!
A small theory of the association-list helpers `alookup`, `aerase`, `aset` (Platypus/Model/Basic.lean).

`alookup` reads the first binding, `aset` overwrites the first binding (or appends), `aerase` drops
every binding of the key; hence the read-after-write lemmas hold without any duplicate-freeness
assumption.  Key-duplicate-freeness is `(m.map (·.1)).Nodup`.
-/
namespace Platypus

variable {β : Type _}

/-! ### unfolding -/

@[simp] theorem alookup_nil (k : Bytes) : alookup k ([] : List (Bytes × β)) = none := rfl

theorem alookup_cons (k k' : Bytes) (v : β) (r : List (Bytes × β)) :
    alookup k ((k', v) :: r) = if k' = k then some v else alookup k r := rfl

@[simp] theorem aerase_nil (k : Bytes) : aerase k ([] : List (Bytes × β)) = [] := rfl

theorem aerase_cons (k k' : Bytes) (v : β) (r : List (Bytes × β)) :
    aerase k ((k', v) :: r) = if k' = k then aerase k r else (k', v) :: aerase k r := rfl

@[simp] theorem aset_nil (k : Bytes) (v : β) : aset k v ([] : List (Bytes × β)) = [(k, v)] := rfl

theorem aset_cons (k k' : Bytes) (v v' : β) (r : List (Bytes × β)) :
    aset k v ((k', v') :: r) = if k' = k then (k, v) :: r else (k', v') :: aset k v r := rfl

/-! ### read after write / erase -/

/-- reading after `aset`: the written key yields the new value, every other key is untouched -/
theorem alookup_aset (k k' : Bytes) (v : β) (m : List (Bytes × β)) :
    alookup k (aset k' v m) = if k' = k then some v else alookup k m := by
  induction m with
  | nil => simp [alookup_cons]
  | cons p r ih =>
    obtain ⟨a, b⟩ := p
    simp only [aset_cons]
    by_cases h1 : a = k'
    · subst h1
      by_cases h2 : a = k <;> simp [alookup_cons, h2]
    · by_cases h2 : k' = k
      · subst h2; simp [alookup_cons, h1, ih]
      · simp only [if_neg h1, alookup_cons, ih, if_neg h2]

@[simp] theorem alookup_aset_same (k : Bytes) (v : β) (m : List (Bytes × β)) :
    alookup k (aset k v m) = some v := by
  simp [alookup_aset]

theorem alookup_aset_other {k k' : Bytes} (h : k' ≠ k) (v : β) (m : List (Bytes × β)) :
    alookup k (aset k' v m) = alookup k m := by
  simp [alookup_aset, h]

/-- reading after `aerase`: the erased key is gone, every other key is untouched -/
theorem alookup_aerase (k k' : Bytes) (m : List (Bytes × β)) :
    alookup k (aerase k' m) = if k' = k then none else alookup k m := by
  induction m with
  | nil => simp
  | cons p r ih =>
    obtain ⟨a, b⟩ := p
    simp only [aerase_cons]
    by_cases h1 : a = k'
    · subst h1
      by_cases h2 : a = k
      · subst h2; simpa using ih
      · simp [ih, h2, alookup_cons]
    · by_cases h2 : k' = k
      · subst h2; simp [alookup_cons, h1, ih]
      · simp only [if_neg h1, alookup_cons, ih, if_neg h2]

@[simp] theorem alookup_aerase_same (k : Bytes) (m : List (Bytes × β)) :
    alookup k (aerase k m) = none := by
  simp [alookup_aerase]

theorem alookup_aerase_other {k k' : Bytes} (h : k' ≠ k) (m : List (Bytes × β)) :
    alookup k (aerase k' m) = alookup k m := by
  simp [alookup_aerase, h]

/-- whatever is read after an erase was there before -/
theorem alookup_aerase_some {k k' : Bytes} {v : β} {m : List (Bytes × β)}
    (h : alookup k (aerase k' m) = some v) : k' ≠ k ∧ alookup k m = some v := by
  rw [alookup_aerase] at h
  by_cases hk : k' = k
  · simp [hk] at h
  · simp [hk] at h; exact ⟨hk, h⟩

/-! ### keys -/

theorem alookup_eq_none_iff (k : Bytes) (m : List (Bytes × β)) :
    alookup k m = none ↔ k ∉ m.map (·.1) := by
  induction m with
  | nil => simp
  | cons p r ih =>
    obtain ⟨a, b⟩ := p
    by_cases h : a = k
    · simp [alookup_cons, h]
    · have h' : ¬ k = a := fun e => h e.symm
      simp [alookup_cons, h, h', ih]

theorem alookup_isSome_iff (k : Bytes) (m : List (Bytes × β)) :
    (alookup k m).isSome ↔ k ∈ m.map (·.1) := by
  cases h : alookup k m with
  | none => simpa using (alookup_eq_none_iff k m).1 h
  | some v =>
    have : ¬ alookup k m = none := by simp [h]
    rw [alookup_eq_none_iff] at this
    simpa using Classical.not_not.1 this

theorem mem_of_alookup {k : Bytes} {v : β} {m : List (Bytes × β)} (h : alookup k m = some v) :
    (k, v) ∈ m := by
  induction m with
  | nil => simp at h
  | cons p r ih =>
    obtain ⟨a, b⟩ := p
    rw [alookup_cons] at h
    by_cases hk : a = k
    · simp [hk] at h; simp [hk, h]
    · simp [hk] at h; exact List.mem_cons_of_mem _ (ih h)

theorem mem_keys_of_alookup {k : Bytes} {v : β} {m : List (Bytes × β)} (h : alookup k m = some v) :
    k ∈ m.map (·.1) :=
  List.mem_map.2 ⟨(k, v), mem_of_alookup h, rfl⟩

/-- on a key-duplicate-free list every binding is the one `alookup` finds -/
theorem alookup_of_mem {k : Bytes} {v : β} {m : List (Bytes × β)} (hnd : (m.map (·.1)).Nodup)
    (h : (k, v) ∈ m) : alookup k m = some v := by
  induction m with
  | nil => simp at h
  | cons p r ih =>
    obtain ⟨a, b⟩ := p
    simp only [List.map_cons, List.nodup_cons] at hnd
    rw [alookup_cons]
    rcases List.mem_cons.1 h with e | h'
    · cases e; simp
    · have hne : a ≠ k := by
        intro e; subst e
        exact hnd.1 (List.mem_map.2 ⟨(a, v), h', rfl⟩)
      simp [hne, ih hnd.2 h']

theorem keys_aset (k : Bytes) (v : β) (m : List (Bytes × β)) :
    (aset k v m).map (·.1) = if k ∈ m.map (·.1) then m.map (·.1) else m.map (·.1) ++ [k] := by
  induction m with
  | nil => simp
  | cons p r ih =>
    obtain ⟨a, b⟩ := p
    simp only [aset_cons]
    by_cases h1 : a = k
    · subst h1; simp
    · have h1' : ¬ k = a := fun e => h1 e.symm
      simp only [if_neg h1, List.map_cons, ih, List.mem_cons, h1', false_or]
      split <;> simp

theorem mem_keys_aset (a k : Bytes) (v : β) (m : List (Bytes × β)) :
    a ∈ (aset k v m).map (·.1) ↔ a = k ∨ a ∈ m.map (·.1) := by
  rw [keys_aset]
  split
  · constructor
    · exact Or.inr
    · rintro (e | h)
      · subst e; assumption
      · exact h
  · simp [or_comm]

theorem aerase_sublist (k : Bytes) (m : List (Bytes × β)) : (aerase k m).Sublist m := by
  induction m with
  | nil => simp
  | cons p r ih =>
    obtain ⟨a, b⟩ := p
    simp only [aerase_cons]
    split
    · exact ih.cons _
    · exact ih.cons_cons _

theorem mem_keys_aerase (a k : Bytes) (m : List (Bytes × β)) :
    a ∈ (aerase k m).map (·.1) ↔ a ≠ k ∧ a ∈ m.map (·.1) := by
  rw [← alookup_isSome_iff, ← alookup_isSome_iff, alookup_aerase]
  by_cases h : k = a
  · subst h; simp
  · have h' : ¬ a = k := fun e => h e.symm
    simp [h, h']

/-! ### duplicate-freeness is preserved -/

theorem nodup_aset {m : List (Bytes × β)} (k : Bytes) (v : β) (h : (m.map (·.1)).Nodup) :
    ((aset k v m).map (·.1)).Nodup := by
  rw [keys_aset]
  split
  · exact h
  · rename_i hk
    rw [List.nodup_append]
    refine ⟨h, by simp, ?_⟩
    intro a ha b hb
    simp at hb; subst hb
    intro e; subst e; exact hk ha

theorem nodup_aerase {m : List (Bytes × β)} (k : Bytes) (h : (m.map (·.1)).Nodup) :
    ((aerase k m).map (·.1)).Nodup :=
  List.Pairwise.sublist ((aerase_sublist k m).map _) h

/-! ### maps over the values -/

theorem alookup_map (f : β → γ) (k : Bytes) (m : List (Bytes × β)) :
    alookup k (m.map fun p => (p.1, f p.2)) = (alookup k m).map f := by
  induction m with
  | nil => simp
  | cons p r ih =>
    obtain ⟨a, b⟩ := p
    simp only [List.map_cons, alookup_cons, ih]
    split <;> simp

theorem keys_map (f : β → γ) (m : List (Bytes × β)) :
    (m.map fun p => (p.1, f p.2)).map (·.1) = m.map (·.1) := by
  simp [List.map_map, Function.comp_def]

/-- overwriting twice is overwriting once -/
@[simp] theorem aset_aset_same (k : Bytes) (v w : β) (m : List (Bytes × β)) :
    aset k v (aset k w m) = aset k v m := by
  induction m with
  | nil => simp [aset_cons]
  | cons p r ih =>
    obtain ⟨a, b⟩ := p
    by_cases h : a = k
    · simp [aset_cons, h]
    · simp [aset_cons, h, ih]

/-! ### `filterMap` on the values -/

theorem keys_filterMap_sublist (g : β → Option γ) (m : List (Bytes × β)) :
    ((m.filterMap fun p => (g p.2).map fun c => (p.1, c)).map (·.1)).Sublist (m.map (·.1)) := by
  induction m with
  | nil => simp
  | cons p r ih =>
    obtain ⟨a, b⟩ := p
    cases hg : g b with
    | none => simpa [List.filterMap_cons, hg] using ih.cons a
    | some c => simpa [List.filterMap_cons, hg] using ih.cons_cons a

theorem nodup_filterMap (g : β → Option γ) {m : List (Bytes × β)} (h : (m.map (·.1)).Nodup) :
    ((m.filterMap fun p => (g p.2).map fun c => (p.1, c)).map (·.1)).Nodup :=
  List.Pairwise.sublist (keys_filterMap_sublist g m) h

theorem alookup_filterMap (g : β → Option γ) (k : Bytes) {m : List (Bytes × β)}
    (h : (m.map (·.1)).Nodup) :
    alookup k (m.filterMap fun p => (g p.2).map fun c => (p.1, c)) = (alookup k m).bind g := by
  induction m with
  | nil => simp
  | cons p r ih =>
    obtain ⟨a, b⟩ := p
    simp only [List.map_cons, List.nodup_cons] at h
    cases hg : g b with
    | none =>
      simp only [List.filterMap_cons, hg, Option.map_none, alookup_cons]
      by_cases e : a = k
      · subst e
        have : a ∉ (r.filterMap fun p => (g p.2).map fun c => (p.1, c)).map (·.1) :=
          fun hm => h.1 ((keys_filterMap_sublist g r).subset hm)
        simpa [hg] using (alookup_eq_none_iff _ _).2 this
      · simp [e, ih h.2]
    | some c =>
      simp only [List.filterMap_cons, hg, Option.map_some, alookup_cons]
      by_cases e : a = k
      · simp [e, hg]
      · simp [e, ih h.2]

/-! ### folding `aset` over a list of keys -/

theorem alookup_foldl_aset {α : Type _} (c : β) (k : Bytes) (l : List (Bytes × α)) (m : List (Bytes × β)) :
    alookup k (l.foldl (fun acc p => aset p.1 c acc) m)
      = if k ∈ l.map (·.1) then some c else alookup k m := by
  induction l generalizing m with
  | nil => simp
  | cons p r ih =>
    obtain ⟨a, b⟩ := p
    simp only [List.foldl_cons, ih, List.map_cons, List.mem_cons, alookup_aset]
    by_cases h1 : k ∈ r.map (·.1)
    · simp [h1]
    · by_cases h2 : a = k
      · subst h2; simp
      · have h2' : ¬ k = a := fun e => h2 e.symm
        simp [h1, h2, h2']

theorem nodup_foldl_aset {α : Type _} (c : β) (l : List (Bytes × α)) (m : List (Bytes × β))
    (h : (m.map (·.1)).Nodup) :
    ((l.foldl (fun acc p => aset p.1 c acc) m).map (·.1)).Nodup := by
  induction l generalizing m with
  | nil => simpa using h
  | cons p r ih =>
    simp only [List.foldl_cons]
    exact ih _ (nodup_aset _ _ h)

end Platypus
