import Platypus.Spec.LnColSpec
namespace Platypus.LnCol

theorem trail_nil : trail [] = 0 := rfl

theorem trail_append_one (q : Bytes) (c : UInt8) :
    trail (q ++ [c]) = if c = NL then 0 else trail q + 1 := by
  unfold trail
  simp [List.reverse_append, List.takeWhile_cons]
  split <;> simp_all

/-- scan from the left equals a right-to-left characterisation. We prove it via snoc induction. -/
theorem scan_append_one (i : Nat) (q : Bytes) (c : UInt8) (acc : Nat × Nat) :
    scan i (q ++ [c]) acc =
      let r := scan i q acc
      if c = NL then (i + q.length + 1, r.2 + 1) else r := by
  induction q generalizing i acc with
  | nil => obtain ⟨b, l⟩ := acc; simp [scan]
  | cons d ds ih =>
    obtain ⟨b, l⟩ := acc
    simp only [List.cons_append, scan]
    split
    · rw [ih]; simp; split <;> simp; omega
    · rw [ih]; simp; split <;> simp; omega

theorem snoc_induction {P : Bytes → Prop} (h0 : P []) (h1 : ∀ q c, P q → P (q ++ [c])) : ∀ q, P q := by
  intro q
  have : ∀ r : Bytes, P r.reverse := by
    intro r; induction r with
    | nil => simpa using h0
    | cons c r ih => simpa using h1 _ c ih
  simpa using this q.reverse

theorem scan_spec (q : Bytes) :
    scan 0 q (0, 1) = (q.length - trail q, 1 + q.count NL) := by
  induction q using snoc_induction with
  | h0 => simp [scan, trail]
  | h1 q c ih =>
    rw [scan_append_one, ih, trail_append_one]
    simp
    split
    · subst_vars; simp; omega
    · rename_i h
      have : trail q ≤ q.length := by
        unfold trail; have := (List.takeWhile_sublist (l := q.reverse) (· ≠ NL)).length_le; simpa using this
      simp [h]
end Platypus.LnCol

namespace Platypus.LnCol
end Platypus.LnCol

namespace Platypus.LnCol

theorem bsearch_split (ls : Array Nat) (p k : Nat) (hk2 : k ≤ ls.size)
    (hlo : ∀ i, i < k → ls[i]! ≤ p) (hhi : ∀ i, k ≤ i → i < ls.size → p < ls[i]!) :
    ∀ start stop, start < k → k ≤ stop → stop ≤ ls.size → bsearch ls p start stop = some (k-1) := by
  intro start stop
  induction h : stop - start using Nat.strongRecOn generalizing start stop with
  | _ n ih =>
    intro h1 h2 h3
    unfold bsearch
    have hlt : start < stop := by omega
    simp only [hlt, ↓reduceDIte]
    split
    · rename_i hp
      -- pos < ls[m]  ⇒ m ≥ k
      have hm : k ≤ start + (stop - start) / 2 := by
        apply Classical.byContradiction; intro hc
        have := hlo (start + (stop - start) / 2) (by omega); omega
      exact ih _ (by omega) start _ rfl h1 hm (by omega)
    · rename_i hp
      have hm : start + (stop - start) / 2 < k := by
        apply Classical.byContradiction; intro hc
        have := hhi (start + (stop - start) / 2) (by omega) (by omega); omega
      split
      · rename_i he
        congr 1; omega
      · rename_i he
        split
        · rename_i hq
          have : k ≤ start + (stop - start) / 2 + 1 := by
            apply Classical.byContradiction; intro hc
            have := hlo (start + (stop - start) / 2 + 1) (by omega); omega
          congr 1; omega
        · rename_i hq
          have : start + (stop - start) / 2 + 1 < k := by
            apply Classical.byContradiction; intro hc
            have := hhi (start + (stop - start) / 2 + 1) (by omega) (by omega); omega
          exact ih _ (by omega) _ _ rfl this h2 h3

end Platypus.LnCol

namespace Platypus.LnCol

theorem lsf_append (i : Nat) (a b : Bytes) :
    lineStartsFrom i (a ++ b) = lineStartsFrom i a ++ lineStartsFrom (i + a.length) b := by
  induction a generalizing i with
  | nil => simp [lineStartsFrom]
  | cons c cs ih =>
    simp only [List.cons_append, lineStartsFrom, List.length_cons]
    split <;> simp [ih] <;> congr 1 <;> omega

theorem lsf_bounds (i : Nat) (a : Bytes) : ∀ x ∈ lineStartsFrom i a, i < x ∧ x ≤ i + a.length := by
  induction a generalizing i with
  | nil => simp [lineStartsFrom]
  | cons c cs ih =>
    intro x hx
    simp only [lineStartsFrom] at hx
    split at hx
    · simp at hx
      rcases hx with rfl | hx
      · simp
      · have := ih _ x hx; simp only [List.length_cons]; omega
    · have := ih _ x hx; simp only [List.length_cons]; omega

theorem lsf_length (i : Nat) (a : Bytes) : (lineStartsFrom i a).length = a.count NL := by
  induction a generalizing i with
  | nil => simp [lineStartsFrom]
  | cons c cs ih =>
    simp only [lineStartsFrom]
    split
    · rename_i h; simp [ih, h]
    · rename_i h; simp [ih, List.count_cons]; intro h2; exact absurd h2 h

/-- last line start of a prefix = its length minus the bytes after its last newline -/
theorem ls_last (pre : Bytes) :
    (lineStarts pre)[pre.count NL]! = pre.length - trail pre := by
  induction pre using snoc_induction with
  | h0 => simp [lineStarts, lineStartsFrom, trail]
  | h1 q c ih =>
    have hlen : (lineStarts q).length = q.count NL + 1 := by simp [lineStarts, lsf_length]
    unfold lineStarts at *
    rw [lsf_append, trail_append_one]
    by_cases h : c = NL
    · subst h
      simp [lineStartsFrom, List.count_append]
      rw [List.getElem?_append_right (by simp [lsf_length])]
      simp [lsf_length]
    · have hc : ¬ (c == NL) = true := by simpa using h
      have htr : trail q ≤ q.length := by
        unfold trail; have := (List.takeWhile_sublist (l := q.reverse) (· ≠ NL)).length_le; simpa using this
      simp [lineStartsFrom, h, List.count_append] at ih ⊢
      rw [ih]

end Platypus.LnCol
