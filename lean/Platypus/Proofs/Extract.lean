import Platypus.Model.Check
import Platypus.Proofs.Point
import Platypus.Proofs.PanicBytes
import Platypus.Proofs.Check
/-!
Helper definitions and lemmas for C12 (extraction builtins).

`builtin` (Model/Eval.lean) writes to the point through the *local* helper `setPt` and returns
through the local helper `ret`; neither has a name outside `builtin`.  They are restated here
(`C12.setPt`, `C12.retSt`) together with the lemmas that characterise them, and `builtin` is
unfolded once per extraction function into an equation over these names (`*_eq`).
-/
namespace Platypus.C12
open Platypus

/-! ### the vocabulary of the contracts -/

/-- the state after `ret x`: `x` is appended to the return registers (at most 6 registers) -/
def retSt (x : TV) (s : St) : St :=
  { s with task := { s.task with regs := if s.task.regs.length < 6 then s.task.regs ++ [x] else s.task.regs } }

/-- the state with the point replaced; task, heap, trace, polls, mapIters are those of `s` -/
def withPt (s : St) (pt : Point) : St := { s with world := { s.world with pt := pt } }

/-- the index of the point knows `key` as a tag -/
def isTagKey (pt : Point) (key : Bytes) : Bool :=
  match alookup key pt.idx with | some (_, true) => true | _ => false

/-- `builtin`'s local `setPt` (funcs.addKey2PtWithVal): `Point.set` under the normalised key; the
    text form of the value is computed (possibly by an engine) only for list/map values and for
    keys that are tags -/
def setPt (env : Env) (key : Bytes) (x : TV) : EM Unit := do
  let cs ← (match x.t with
    | .list | .map => conv2str env x
    | _ => pure none)
  let s ← getS
  let key := normKey key
  let cs ← (if isTagKey s.world.pt key then conv2str env x else pure cs)
  modWorld fun w => { w with pt := w.pt.set key x cs }

/-- store the captures one after the other (`builtin`'s local `put`) -/
def putAll (env : Env) : List (Bytes × Val) → EM Unit
  | [] => pure ()
  | (ck, cv) :: r => do setPt env ck (detect [] cv); putAll env r

/-- the trim_space flag of a grok call: absent = true, a bool literal = its value -/
def trimFlag : List Node → Option Bool
  | [] => some true
  | [.boolLit b _] => some b
  | _ => none

/-- the query a grok call puts to the pattern engine: compiled site `q`, flag, subject text -/
def grokQuery (q : Bytes) (tr : Bool) (val : Bytes) : Bytes :=
  B "grokrun:" ++ q ++ [58] ++ (if tr then [116] else [102]) ++ [58] ++ hexOf val

/-- the question xml puts to the XPath engine: the XPath literal and the document text -/
def xmlQuery (xp c : Bytes) : Bytes := B "xml:" ++ hexOf xp ++ [58] ++ hexOf c
/-- the question sql_cover puts to the SQL engine -/
def sqlQuery (c : Bytes) : Bytes := B "sql:" ++ hexOf c
/-- the question datetime puts to the time engine: the rendered subject value, precision, layout -/
def dateQuery (h : Heap) (v : Val) (prec fmts : Bytes) : Bytes :=
  B "datefmt:" ++ renderV h v ++ [58] ++ hexOf prec ++ [58] ++ hexOf fmts
/-- the question default_time puts to the time engine: the zone argument and the subject text -/
def timeQuery (z c : Bytes) : Bytes := B "timestamp:" ++ hexOf z ++ [58] ++ hexOf c

variable (env : Env)

/-! ### the engines never change the state -/

theorem ask_state {q : Bytes} {s s' : St} {r : Bytes} (h : ask env q s = .ok r s') : s' = s := by
  unfold ask at h
  split at h <;> simp at h
  exact h.2.symm

theorem ask_some {q a : Bytes} (h : env.oracle q = some a) (s : St) : ask env q s = .ok a s := by
  simp [ask, h]

theorem castToString_state {v : Val} {s s' : St} {r : Bytes} (h : castToString env v s = .ok r s') : s' = s := by
  cases v <;> simp only [castToString, pure, EM.pure, bind, EM.bind] at h
  case float =>
    split at h <;> simp at h
    rename_i hq
    rw [← h.2]; exact ask_state env hq
  all_goals (simp at h; exact h.2.symm)

/-- `Conv2String` only reads the state (and may ask the float/JSON engine) -/
theorem conv2str_state {x : TV} {s s' : St} {r : Option Bytes} (h : conv2str env x s = .ok r s') : s' = s := by
  obtain ⟨v, t⟩ := x
  cases t <;> simp only [conv2str, Functor.map, bind, EM.bind, pure, EM.pure, getS] at h
  case invalid | void | nil => simp at h; exact h.2.symm
  case list | map =>
    split at h <;> simp at h
    rename_i hq
    rw [← h.2]; exact ask_state env hq
  all_goals
    split at h <;> simp [EM.pure] at h
    rename_i hq
    rw [← h.2]; exact castToString_state env hq

/-- the string form of a string is itself; no engine is consulted -/
theorem conv2str_str (b : Bytes) (s : St) : conv2str env ⟨.str b, .str⟩ s = .ok (some b) s := by
  simp [conv2str, castToString, Functor.map, EM.bind, pure, EM.pure]

theorem conv2str_int (i : Int) (s : St) : conv2str env ⟨.int i, .int⟩ s = .ok (some (decInt i)) s := by
  simp [conv2str, castToString, Functor.map, EM.bind, pure, EM.pure]

theorem conv2str_bool (b : Bool) (s : St) :
    conv2str env ⟨.bool b, .bool⟩ s = .ok (some (if b then B "true" else B "false")) s := by
  simp [conv2str, castToString, Functor.map, EM.bind, pure, EM.pure]

/-! ### `setPt` -/

/-- for a non-tag key the text form is irrelevant unless the value is a list or map -/
theorem set_cs_irrelevant (pt : Point) (key : Bytes) (x : TV) (cs cs' : Option Bytes)
    (hk : isTagKey pt key = false) (hx : x.t ≠ .list ∧ x.t ≠ .map) :
    pt.set key x cs = pt.set key x cs' := by
  obtain ⟨v, t⟩ := x
  unfold isTagKey at hk
  unfold Point.set
  cases hi : alookup key pt.idx with
  | none => cases t <;> simp_all
  | some p =>
    obtain ⟨t0, b⟩ := p
    cases b with
    | true => simp [hi] at hk
    | false => cases t <;> simp_all

theorem listmap_cs_state {x : TV} {s s1 : St} {cs : Option Bytes}
    (h : (match x.t with | .list | .map => conv2str env x | _ => pure none) s = .ok cs s1) : s1 = s := by
  obtain ⟨v, t⟩ := x
  cases t
  case list | map => exact conv2str_state env h
  all_goals (simp [pure, EM.pure] at h; exact h.2.symm)

theorem tag_cs_state {x : TV} {c : Bool} {cs0 cs : Option Bytes} {s s1 : St}
    (h : (if c then conv2str env x else pure cs0) s = .ok cs s1) : s1 = s := by
  cases c
  · simp [pure, EM.pure] at h; exact h.2.symm
  · exact conv2str_state env h

/-- `setPt` changes nothing but the point, and the point by one `Point.set` under the normalised key -/
theorem setPt_ok {key : Bytes} {x : TV} {s s' : St} (h : setPt env key x s = .ok () s') :
    ∃ cs, s' = withPt s (s.world.pt.set (normKey key) x cs) := by
  simp only [setPt, bind, EM.bind, getS, modWorld, modifyS] at h
  split at h <;> try (simp at h)
  rename_i cs s1 h1
  have e1 : s1 = s := listmap_cs_state env h1
  subst e1
  split at h <;> try (simp at h)
  rename_i cs2 s2 h2
  have e2 : s2 = s1 := tag_cs_state env h2
  subst e2
  exact ⟨cs2, h.symm⟩

/-- storing a string never needs an engine: a field gets the string, a tag gets it as its text -/
theorem setPt_str (key b : Bytes) (s : St) :
    setPt env key ⟨.str b, .str⟩ s = .ok () (withPt s (s.world.pt.set (normKey key) ⟨.str b, .str⟩ (some b))) := by
  simp only [setPt, bind, EM.bind, getS, modWorld, modifyS, pure, EM.pure]
  cases ht : isTagKey s.world.pt (normKey key)
  · simp [withPt, EM.pure]
    exact set_cs_irrelevant _ _ ⟨.str b, .str⟩ _ _ ht (by simp)
  · simp [conv2str_str, withPt]

/-- storing a scalar under a key that is not a tag never needs an engine -/
theorem setPt_field (key : Bytes) (x : TV) (s : St)
    (hk : isTagKey s.world.pt (normKey key) = false) (hx : x.t ≠ .list ∧ x.t ≠ .map) :
    setPt env key x s = .ok () (withPt s (s.world.pt.set (normKey key) x none)) := by
  simp only [setPt, bind, EM.bind, getS, modWorld, modifyS, pure]
  obtain ⟨v, t⟩ := x
  cases t <;> simp_all [withPt, EM.pure]

/-! ### `builtin`, unfolded once per extraction function -/

theorem trimFlag_some {rest : List Node} {tr : Bool} (h : trimFlag rest = some tr) :
    (rest = [] ∧ tr = true) ∨ ∃ p, rest = [.boolLit tr p] := by
  cases rest with
  | nil => left; simp [trimFlag] at h; exact ⟨rfl, h⟩
  | cons a r =>
    cases r with
    | nil =>
      cases a <;> simp [trimFlag] at h
      right; exact ⟨_, by rw [h]⟩
    | cons b r' => cases a <;> simp [trimFlag] at h

/-- `builtin`'s local `put` over the restated `setPt` is `putAll` -/
theorem put_eq (kvs : List (Bytes × Val)) : builtin.put (setPt env) kvs = putAll env kvs := by
  induction kvs with
  | nil => rfl
  | cons kv r ih => obtain ⟨ck, cv⟩ := kv; simp only [builtin.put, putAll, ih]

/-- the subject text of grok, xml, default_time and sql_cover: absent subject = no text -/
def subjectText (env : Env) (k : Bytes) : EM (Option Bytes) := do
  let s ← getS
  match getKey s k with
  | none => pure none
  | some v => conv2str env v

theorem xml_eq (f : Nat) (name : Bytes) (kn fn : Node) (k fld xp : Bytes) (p2 np : Pos) (site : Nat)
    (hk : getKeyName kn = .ok k) (hf : getKeyName fn = .ok fld) :
    builtin env (f+1) .xml name [kn, .strLit xp p2, fn] np site = (do
        match (← subjectText env k) with
        | none => pure ()
        | some c =>
          let a ← ask env (xmlQuery xp c)
          let (ok, payload) := splitAnswer a
          if ok then setPt env fld ⟨.str (unhex payload), .str⟩ else pure ()) := by
  simp only [builtin, hk, hf]
  rfl

theorem sqlCover_eq (f : Nat) (name : Bytes) (kn : Node) (k : Bytes) (np : Pos) (site : Nat)
    (hk : getKeyName kn = .ok k) :
    builtin env (f+1) .sqlCover name [kn] np site = (do
        match (← subjectText env k) with
        | none => pure ()
        | some c =>
          let a ← ask env (sqlQuery c)
          let (ok, payload) := splitAnswer a
          if ok then setPt env k ⟨.str (unhex payload), .str⟩ else pure ()) := by
  simp only [builtin, hk]
  rfl

theorem datetime_eq (f : Nat) (name : Bytes) (kn : Node) (k prec fmts : Bytes) (p2 p3 np : Pos) (site : Nat)
    (hk : getKeyName kn = .ok k) :
    builtin env (f+1) .datetime name [kn, .strLit prec p2, .strLit fmts p3] np site = (do
        let s ← getS
        match getKey s k with
        | none => pure ()
        | some v =>
          let a ← ask env (dateQuery s.world.heap v.v prec fmts)
          let (ok, payload) := splitAnswer a
          if ok then setPt env k ⟨.str (unhex payload), .str⟩ else runErr np "datefmt") := by
  simp only [builtin, hk]
  rfl

/-- the time-zone argument of default_time: absent = the default zone (empty name) -/
def tzArg : List Node → Option Bytes
  | [] => some []
  | (.strLit z _) :: _ => some z
  | _ => none

theorem defaultTime_eq (f : Nat) (name : Bytes) (kn : Node) (rest : List Node) (k z : Bytes) (np : Pos) (site : Nat)
    (hk : getKeyName kn = .ok k) (hz : tzArg rest = some z) :
    builtin env (f+1) .defaultTime name (kn :: rest) np site = (do
        match (← subjectText env k) with
        | none => pure ()
        | some c =>
          let a ← ask env (timeQuery z c)
          let (ok, payload) := splitAnswer a
          if ok then
            modWorld fun w => { w with pt := { (w.pt.delete (normKey k)) with time := (takeDec (unhex payload)).1 } }
          else setPt env (B "pl_msg") ⟨.str (B "time convert failed: " ++ unhex payload), .str⟩) := by
  cases rest with
  | nil =>
    simp [tzArg] at hz; subst hz
    simp only [builtin, hk]
    rfl
  | cons a r =>
    cases a <;> simp [tzArg] at hz
    subst hz
    simp only [builtin, hk]
    rfl

theorem grok_eq (f : Nat) (name : Bytes) (kn pat : Node) (rest : List Node) (k q : Bytes) (tr : Bool) (np : Pos) (site : Nat)
    (hq : env.grok site = some q) (hk : getKeyName kn = .ok k) (ht : trimFlag rest = some tr) :
    builtin env (f+1) .grok name (kn :: pat :: rest) np site = (do
        match (← subjectText env k) with
        | none => modifyS (retSt ⟨.bool false, .bool⟩)
        | some val =>
          let a ← ask env (grokQuery q tr val)
          let (ok, payload) := splitAnswer a
          if !ok then modifyS (retSt ⟨.bool false, .bool⟩) else
          match unrender 4000 [] (unhex payload) with
          | some (.ref 0, [Obj.map kvs], _) => do
            putAll env (sortKeys kvs)
            modifyS (retSt ⟨.bool true, .bool⟩)
          | _ => needE (B "unmodelled:grok-answer")) := by
  rcases trimFlag_some ht with ⟨rfl, rfl⟩ | ⟨p, rfl⟩
  · simp only [builtin, hk, hq, ← put_eq]
    rfl
  · simp only [builtin, hk, hq, ← put_eq]
    rfl

/-! ### storing the captures -/

theorem detect_empty_scalar (cv : Val) : (detect [] cv).t ≠ .list ∧ (detect [] cv).t ≠ .map := by
  cases cv <;> simp [detect, Heap.get?]

/-- `Point.set` never changes which keys are tags -/
theorem isTagKey_set (pt : Point) (k k' : Bytes) (x : TV) (cs : Option Bytes) :
    isTagKey (pt.set k x cs) k' = isTagKey pt k' := by
  cases ht : isTagKey pt k
  · have h : ∀ t, alookup k pt.idx ≠ some (t, true) := by
      intro t e; simp [isTagKey, e] at ht
    obtain ⟨v, t, e, _⟩ := Point.set_field_cases pt k x cs h
    rw [e]
    unfold isTagKey
    by_cases hk : k' = k
    · subst hk
      simp only [alookup_aset_same]
    · simp only [alookup_aset_other (Ne.symm hk)]
  · have : ∃ t, alookup k pt.idx = some (t, true) := by
      unfold isTagKey at ht
      cases hi : alookup k pt.idx with
      | none => simp [hi] at ht
      | some p => obtain ⟨t0, b⟩ := p; cases b
                  · simp [hi] at ht
                  · exact ⟨t0, rfl⟩
    obtain ⟨t, h⟩ := this
    rcases Point.set_tag_cases pt k x cs h with e | ⟨s, e⟩ | e <;> rw [e] <;> rfl

/-- the captures stored as plain fields, one `Point.set` per capture, in the given order -/
def storeFields (pt : Point) (kvs : List (Bytes × Val)) : Point :=
  kvs.foldl (fun pt kv => pt.set (normKey kv.1) (detect [] kv.2) none) pt

theorem isTagKey_storeFields (kvs : List (Bytes × Val)) (pt : Point) (k' : Bytes) :
    isTagKey (storeFields pt kvs) k' = isTagKey pt k' := by
  induction kvs generalizing pt with
  | nil => rfl
  | cons kv r ih => simp only [storeFields, List.foldl_cons] at ih ⊢; rw [ih, isTagKey_set]

/-- storing captures changes nothing but the point -/
theorem putAll_ok {kvs : List (Bytes × Val)} {s s' : St} (h : putAll env kvs s = .ok () s') :
    ∃ pt', s' = withPt s pt' := by
  induction kvs generalizing s with
  | nil => simp [putAll, pure, EM.pure] at h; exact ⟨s.world.pt, by rw [← h]; rfl⟩
  | cons kv r ih =>
    obtain ⟨ck, cv⟩ := kv
    simp only [putAll, bind, EM.bind] at h
    split at h <;> try (simp at h)
    rename_i s1 h1
    obtain ⟨cs, e1⟩ := setPt_ok env h1
    obtain ⟨pt', e2⟩ := ih h
    exact ⟨pt', by rw [e2, e1]; rfl⟩

/-- when no capture key is a tag of the point, the captures are stored without consulting any
    engine: one `Point.set` per capture with the engine's value and type -/
theorem putAll_fields (kvs : List (Bytes × Val)) (s : St)
    (h : ∀ kv ∈ kvs, isTagKey s.world.pt (normKey kv.1) = false) :
    putAll env kvs s = .ok () (withPt s (storeFields s.world.pt kvs)) := by
  induction kvs generalizing s with
  | nil => rfl
  | cons kv r ih =>
    obtain ⟨ck, cv⟩ := kv
    simp only [putAll, bind, EM.bind]
    rw [setPt_field env ck (detect [] cv) s (h _ (List.mem_cons_self ..)) (detect_empty_scalar cv)]
    simp only []
    rw [ih]
    · rfl
    · intro kv hkv
      show isTagKey (s.world.pt.set _ _ _) _ = false
      rw [isTagKey_set]
      exact h kv (List.mem_cons_of_mem _ hkv)

theorem mem_insertKey {β} (x kv : Bytes × β) (m : List (Bytes × β)) : x ∈ insertKey kv m ↔ x = kv ∨ x ∈ m := by
  induction m with
  | nil => simp [insertKey]
  | cons y r ih =>
    simp only [insertKey]
    split
    · simp
    · simp only [List.mem_cons, ih]
      constructor
      · rintro (h | h | h) <;> simp [h]
      · rintro (h | h | h) <;> simp [h]

/-- sorting by key keeps exactly the captures -/
theorem mem_sortKeys {β} (x : Bytes × β) (m : List (Bytes × β)) : x ∈ sortKeys m ↔ x ∈ m := by
  induction m with
  | nil => simp [sortKeys]
  | cons y r ih =>
    have : sortKeys (y :: r) = insertKey y (sortKeys r) := rfl
    rw [this, mem_insertKey, ih]; simp

/-! ### the failure note's key -/

theorem B_pl_msg : B "pl_msg" = [112, 108, 95, 109, 115, 103] := by
  show bytesOf "pl_msg" = _
  rw [show "pl_msg" = String.ofList ['p','l','_','m','s','g'] from rfl, PanicProofs.bytesOf_ofList]
  decide

theorem normKey_pl_msg : normKey (B "pl_msg") = B "pl_msg" := by
  rw [B_pl_msg]; decide

/-! ## load time: pattern scopes of the check pass -/

section scopes
open Platypus.CheckProofs

/-- the innermost pattern scope (empty when the stack is empty) -/
def innermost (s : CheckSt) : List (Bytes × Bytes) := s.pats.head?.getD []

/-- from `s` to `s'` the pattern scopes changed at most by new definitions in the innermost scope -/
structure Grows (s s' : CheckSt) : Prop where
  outer : s'.pats.tail = s.pats.tail
  inner : ∃ added, innermost s' = added ++ innermost s
  nonempty : s.pats ≠ [] → s'.pats ≠ []

theorem Grows.of_pats_eq {s s' : CheckSt} (h : s'.pats = s.pats) : Grows s s' :=
  ⟨by rw [h], ⟨[], by simp [innermost, h]⟩, by rw [h]; exact id⟩

theorem Grows.refl (s : CheckSt) : Grows s s := .of_pats_eq rfl

theorem Grows.trans {s s1 s2 : CheckSt} (h1 : Grows s s1) (h2 : Grows s1 s2) : Grows s s2 := by
  obtain ⟨a1, e1⟩ := h1.inner
  obtain ⟨a2, e2⟩ := h2.inner
  exact ⟨h2.outer.trans h1.outer, ⟨a2 ++ a1, by rw [e2, e1, List.append_assoc]⟩, fun h => h2.nonempty (h1.nonempty h)⟩

/-- a block: push a scope, run something that only grows the innermost scope, pop -/
theorem Grows.block {s0 s1 : CheckSt} {p : List (List (Bytes × Bytes))} (h : Grows s0 s1) (e : s0.pats = [] :: p) :
    s1.pats.tail = p := by rw [h.outer, e]; rfl

def PatsInv (fcheck : CallInfo → Option (CM Unit)) : Prop :=
  ∀ c chk s s', fcheck c = some chk → chk s = .ok () s' → Grows s s'

variable {file : Bytes} {registered : Bytes → Bool} {fcheck : CallInfo → Option (CM Unit)}

variable (file registered fcheck) in
def GrowAll (f : Nat) : Prop :=
  (∀ n s s', checkNode file registered fcheck f n s = .ok () s' → Grows s s') ∧
  (∀ n s s', checkNodes file registered fcheck f n s = .ok () s' → Grows s s') ∧
  (∀ n s s', checkOpt file registered fcheck f n s = .ok () s' → Grows s s') ∧
  (∀ n s s', checkOptBlock file registered fcheck f n s = .ok () s' → Grows s s') ∧
  (∀ n s s', checkMap file registered fcheck f n s = .ok () s' → Grows s s') ∧
  (∀ n s s', checkIfs file registered fcheck f n s = .ok () s' → Grows s s')

def isBlock : Node → Bool
  | .ifelse _ _ _ | .forS _ _ _ _ _ | .forIn _ _ _ _ _ => true
  | _ => false

theorem block_restores_aux {f : Nat} (G : GrowAll file registered fcheck f) {n : Node} {s s' : CheckSt}
    (hb : isBlock n = true) (h : checkNode file registered fcheck (f+1) n s = .ok () s') : s'.pats = s.pats := by
  obtain ⟨ihn, ihl, iho, ihb, ihm, ihi⟩ := G
  cases n <;> simp [isBlock] at hb
  case ifelse =>
    chk_inv at h
    obtain ⟨s1, h1, s2, h2, rfl⟩ := h
    have g1 := ihi _ _ _ h1
    have g2 := ihb _ _ _ h2
    show s2.pats.tail.tail = s.pats
    rw [g2.block rfl, g1.block rfl]
  case forS =>
    chk_inv at h
    obtain ⟨s1, h1, s2, h2, s3, h3, s4, h4, rfl⟩ := h
    have g1 := iho _ _ _ h1
    have g2 := iho _ _ _ h2
    have g3 := ihb _ _ _ h3
    have g4 := iho _ _ _ h4
    have e3 := g3.block rfl
    have g := (g1.trans g2).trans ((Grows.of_pats_eq (s := s2) e3).trans g4)
    exact g.block rfl
  case forIn var _ _ _ _ =>
    cases var <;> chk_inv at h
    obtain ⟨s1, h1, s2, h2, rfl⟩ := h
    have g1 := ihn _ _ _ h1
    have g2 := ihb _ _ _ h2
    show s2.pats.tail.tail = s.pats
    rw [g2.block rfl, g1.block rfl]

theorem growAll (H : PatsInv fcheck) : ∀ f, GrowAll file registered fcheck f := by
  intro f
  induction f with
  | zero =>
    simp [GrowAll, checkNode, checkNodes, checkOpt, checkOptBlock, checkMap, checkIfs, cFuel_ok]
  | succ f ih =>
    obtain ⟨ihn, ihl, iho, ihb, ihm, ihi⟩ := ih
    unfold GrowAll
    refine ⟨?_, ?_, ?_, ?_, ?_, ?_⟩
    · intro n s s' h
      cases n
      case call =>
        rw [call_ok] at h
        obtain ⟨_, s1, h1, chk, hc, h2⟩ := h
        exact (ihl _ _ _ h1).trans (H _ _ _ _ hc h2)
      case list => rw [list_ok] at h; exact ihl _ _ _ h
      case brk => rw [brk_ok] at h; rw [h.2]; exact .refl _
      case cont => rw [cont_ok] at h; rw [h.2]; exact .refl _
      case forIn => exact .of_pats_eq (block_restores_aux ⟨ihn, ihl, iho, ihb, ihm, ihi⟩ rfl h)
      case ifelse => exact .of_pats_eq (block_restores_aux ⟨ihn, ihl, iho, ihb, ihm, ihi⟩ rfl h)
      case forS => exact .of_pats_eq (block_restores_aux ⟨ihn, ihl, iho, ihb, ihm, ihi⟩ rfl h)
      all_goals
        chk_inv at h
        grind [Grows.trans, Grows.refl]
    · intro n s s' h
      cases n <;> chk_inv at h <;> grind [Grows.trans, Grows.refl]
    · intro n s s' h
      cases n <;> chk_inv at h <;> grind [Grows.trans, Grows.refl]
    · intro n s s' h
      cases n <;> chk_inv at h <;> grind [Grows.trans, Grows.refl]
    · intro n s s' h
      rcases n with _ | ⟨⟨k, v⟩, r⟩
      · chk_inv at h; grind [Grows.trans, Grows.refl]
      · rw [map_cons_ok] at h; grind [Grows.trans, Grows.refl]
    · intro n s s' h
      rcases n with _ | ⟨⟨c, b, p⟩, r⟩ <;> chk_inv at h 
      · grind [Grows.trans, Grows.refl]
      · obtain ⟨s1, h1, s2, h2, h3⟩ := h
        have g1 := ihn _ _ _ h1
        have g2 := ihb _ _ _ h2
        have g3 := ihi _ _ _ h3
        exact g1.trans ((Grows.of_pats_eq (s := s1) (g2.block rfl)).trans g3)

section
variable (H : PatsInv fcheck) {f : Nat} {s s' : CheckSt}
include H
theorem grows_node {n} (h : checkNode file registered fcheck f n s = .ok () s') : Grows s s' :=
  (growAll H f).1 n s s' h
theorem grows_nodes {n} (h : checkNodes file registered fcheck f n s = .ok () s') : Grows s s' :=
  (growAll H f).2.1 n s s' h
theorem block_restores {n} (hb : isBlock n = true) (h : checkNode file registered fcheck f n s = .ok () s') :
    s'.pats = s.pats := by
  cases f with
  | zero => chk_inv at h
  | succ f => exact block_restores_aux (growAll H f) hb h
end

/-! ### visible definitions -/

theorem visiblePats_eq (s : CheckSt) :
    visiblePats s = (s.pats.tail.reverse.map List.reverse).flatten ++ (innermost s).reverse := by
  unfold visiblePats innermost
  cases s.pats with
  | nil => rfl
  | cons sc rest => simp

theorem Grows.visible {s s' : CheckSt} (h : Grows s s') :
    ∃ added, innermost s' = added ++ innermost s ∧ visiblePats s' = visiblePats s ++ added.reverse := by
  obtain ⟨a, e⟩ := h.inner
  refine ⟨a, e, ?_⟩
  rw [visiblePats_eq s', visiblePats_eq s, h.outer, e, List.reverse_append, List.append_assoc]

/-! ### the builtin checkers -/

theorem delta_grows (d : Delta) (s : CheckSt) : Grows s (d.apply s) := by
  cases d with
  | nop => exact .refl _
  | addGrok site q => exact .of_pats_eq rfl
  | addRef site => exact .of_pats_eq rfl
  | addPat alias pat =>
    obtain ⟨pats, loops, callRef, grok⟩ := s
    cases pats with
    | nil => exact ⟨rfl, ⟨[(alias, pat)], rfl⟩, fun h => absurd rfl h⟩
    | cons sc rest => exact ⟨rfl, ⟨[(alias, pat)], rfl⟩, fun _ => List.cons_ne_nil _ _⟩

/-- the builtin checkers change the pattern scopes only by declaring into the innermost scope -/
theorem builtinCheck_patsInv (oracle : Bytes → Option Bytes) (file : Bytes) :
    PatsInv (fun c => some (builtinCheck oracle file c)) := by
  intro c chk s s' hc h
  have : chk = builtinCheck oracle file c := (Option.some.inj hc).symm
  subst this
  unfold builtinCheck at h
  cases hd : builtinCheckD oracle file c s with
  | ok d => rw [hd] at h; simp at h; rw [← h]; exact delta_grows d s
  | err e => rw [hd] at h; simp at h
  | need q => rw [hd] at h; simp at h

/-! ### the decisions on `grok` and `add_pattern` calls -/

/-- what the check pass stores for a grok site: the visible definitions and the pattern -/
def siteQuery (defs : List (Bytes × Bytes)) (pat : Bytes) : Bytes := encodeDefs defs ++ [58] ++ hexOf pat

/-- the load-time decision on a well-shaped grok call, as a function of the engine's answer -/
theorem grok_check_eq (oracle : Bytes → Option Bytes) (file name : Bytes) (kn : Node) (pat : Bytes) (p : Pos)
    (rest : List Node) (np : Pos) (site : Nat) (s : CheckSt) (tr : Bool)
    (hfn : Fn.ofName name = some .grok) (hkn : keyNameOk kn = true) (ht : trimFlag rest = some tr) :
    builtinCheckD oracle file ⟨name, kn :: .strLit pat p :: rest, np, site⟩ s =
      match oracle (B "grokcompile:" ++ siteQuery (visiblePats s) pat) with
      | none => .need (B "grokcompile:" ++ siteQuery (visiblePats s) pat)
      | some a => if (splitAnswer a).1 then .ok (.addGrok site (siteQuery (visiblePats s) pat))
                  else .err (PlErr.new file np "pattern") := by
  rcases trimFlag_some ht with ⟨rfl, rfl⟩ | ⟨p', rfl⟩
  · simp only [builtinCheckD, hfn]
    simp [hkn, siteQuery, isBoolLit, bind, pure]
    cases oracle (B "grokcompile:" ++ (encodeDefs (visiblePats s) ++ 58 :: hexOf pat)) <;> simp
  · simp only [builtinCheckD, hfn]
    simp [hkn, siteQuery, isBoolLit, bind, pure]
    cases oracle (B "grokcompile:" ++ (encodeDefs (visiblePats s) ++ 58 :: hexOf pat)) <;> simp

/-- shape of an accepted grok call -/
theorem grok_check_shape (oracle : Bytes → Option Bytes) (file : Bytes) (c : CallInfo) (s : CheckSt) (d : Delta)
    (hfn : Fn.ofName c.name = some .grok) (h : builtinCheckD oracle file c s = .ok d) :
    ∃ kn pat p rest tr, c.args = kn :: .strLit pat p :: rest ∧ keyNameOk kn = true ∧ trimFlag rest = some tr := by
  obtain ⟨name, args, np, site⟩ := c
  simp only [builtinCheckD, hfn] at h
  match args, h with
  | [], h => simp at h
  | [_], h => simp at h
  | _ :: _ :: _ :: _ :: _, h => simp at h
  | [kn, pt], h =>
    simp at h
    cases hk : keyNameOk kn
    · simp [hk] at h
    · cases pt <;> simp [hk] at h
      exact ⟨_, _, _, _, true, rfl, hk, rfl⟩
  | [kn, pt, fl], h =>
    simp at h
    cases fl <;> simp [isBoolLit] at h
    cases hk : keyNameOk kn
    · simp [hk] at h
    · cases pt <;> simp [hk] at h
      exact ⟨_, _, _, _, _, rfl, hk, rfl⟩


/-- the load-time decision on an `add_pattern(alias, pattern)` call with two string literals -/
theorem addPattern_check_eq (oracle : Bytes → Option Bytes) (file name : Bytes) (alias pat : Bytes) (p1 p2 : Pos)
    (np : Pos) (site : Nat) (s : CheckSt) (hfn : Fn.ofName name = some .addPattern) :
    builtinCheckD oracle file ⟨name, [.strLit alias p1, .strLit pat p2], np, site⟩ s =
      match oracle (B "grokdenorm:" ++ siteQuery (visiblePats s) pat) with
      | none => .need (B "grokdenorm:" ++ siteQuery (visiblePats s) pat)
      | some a => if (splitAnswer a).1 then .ok (.addPat alias pat)
                  else .err (PlErr.new file np "pattern") := by
  simp only [builtinCheckD, hfn]
  simp [siteQuery, bind, pure]
  cases oracle (B "grokdenorm:" ++ (encodeDefs (visiblePats s) ++ 58 :: hexOf pat)) <;> simp

end scopes

end Platypus.C12

