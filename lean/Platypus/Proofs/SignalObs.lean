import Platypus.Proofs.SignalKeep
import Platypus.Proofs.SignalMachine
/-!
C14, part 8: no error after the observation.  In the run interrupted at poll `k`, every script
error is raised in a state whose poll counter is still below `k`: every evaluation is preceded by
a poll of its own task that did not fire, and signal-free expressions do not poll.
-/
namespace Platypus.SignalProofs
open Platypus Platypus.MachineProofs Platypus.Sem

section
variable (k : Nat)

/-- an error, if any, was raised before the observation -/
def EL {α} (r : Res α) : Prop := ∀ e s', r = .err e s' → s'.world.polls < k

/-- contract "from any state" -/
def AnyC {α} (m : EM α) : Prop := ∀ s, EL k (m s)
/-- contract "from a state before the observation" -/
def LowC {α} (m : EM α) : Prop := ∀ s, s.world.polls < k → EL k (m s)
/-- …and a successful end is still before the observation -/
def KeepLow {α} (m : EM α) : Prop :=
  ∀ s, s.world.polls < k → EL k (m s) ∧ ∀ a s', m s = .ok a s' → s'.world.polls < k

variable {k}

theorem AnyC.toLow {α} {m : EM α} (h : AnyC k m) : LowC k m := fun s _ => h s
theorem KeepLow.toLow {α} {m : EM α} (h : KeepLow k m) : LowC k m := fun s hs => (h s hs).1

theorem KeepM.keepLow {α} {m : EM α} (h : KeepM m) : KeepLow k m := by
  intro s hs
  have h1 := h s
  refine ⟨?_, ?_⟩
  · intro e s' he; rw [he] at h1; have : s'.world.polls = s.world.polls := h1; omega
  · intro a s' he; rw [he] at h1; have : s'.world.polls = s.world.polls := h1; omega

theorem AnyC.pure {α} (a : α) : AnyC k (Pure.pure a : EM α) := by
  intro s e s' h; cases h
theorem AnyC.modTask (g : Task → Task) : AnyC k (Platypus.modTask g) := by
  intro s e s' h; cases h
theorem AnyC.outOfFuel {α} : AnyC k (Platypus.outOfFuel : EM α) := by
  intro s e s' h; cases h
theorem LowC.runErr {α} (p : Pos) (m : String) : LowC k (Platypus.runErr p m : EM α) := by
  intro s hs e s' h; cases h; exact hs
theorem LowC.panicE {α} (m : String) : LowC k (Platypus.panicE m : EM α) := by
  intro s hs e s' h; cases h

theorem LowC.panic_bind {α β} (m : String) (f : α → EM β) : LowC k (Platypus.panicE m >>= f) := by
  intro s hs e s' h
  rw [bind_apply] at h
  cases h

theorem AnyC.bind {α β} {m : EM α} {f : α → EM β} (hm : AnyC k m) (hf : ∀ a, AnyC k (f a)) :
    AnyC k (m >>= f) := by
  intro s e s' h
  rw [bind_apply] at h
  cases hr : m s with
  | ok a s1 => rw [hr] at h; exact hf a s1 e s' h
  | err e1 s1 => rw [hr] at h; cases h; exact hm s _ _ hr
  | panic m => rw [hr] at h; cases h
  | fuel => rw [hr] at h; cases h
  | need q => rw [hr] at h; cases h

theorem LowC.bind_any {α β} {m : EM α} {f : α → EM β} (hm : LowC k m) (hf : ∀ a, AnyC k (f a)) :
    LowC k (m >>= f) := by
  intro s hs e s' h
  rw [bind_apply] at h
  cases hr : m s with
  | ok a s1 => rw [hr] at h; exact hf a s1 e s' h
  | err e1 s1 => rw [hr] at h; cases h; exact hm s hs _ _ hr
  | panic m => rw [hr] at h; cases h
  | fuel => rw [hr] at h; cases h
  | need q => rw [hr] at h; cases h

theorem LowC.bind_keep {α β} {m : EM α} {f : α → EM β} (hm : KeepLow k m) (hf : ∀ a, LowC k (f a)) :
    LowC k (m >>= f) := by
  intro s hs e s' h
  rw [bind_apply] at h
  cases hr : m s with
  | ok a s1 => rw [hr] at h; exact hf a s1 ((hm s hs).2 a s1 hr) e s' h
  | err e1 s1 => rw [hr] at h; cases h; exact (hm s hs).1 _ _ hr
  | panic m => rw [hr] at h; cases h
  | fuel => rw [hr] at h; cases h
  | need q => rw [hr] at h; cases h

theorem KeepLow.bind {α β} {m : EM α} {f : α → EM β} (hm : KeepLow k m) (hf : ∀ a, KeepLow k (f a)) :
    KeepLow k (m >>= f) := by
  intro s hs
  refine ⟨LowC.bind_keep hm (fun a => (hf a).toLow) s hs, ?_⟩
  intro b s' h
  rw [bind_apply] at h
  cases hr : m s with
  | ok a s1 => rw [hr] at h; exact ((hf a) s1 ((hm s hs).2 a s1 hr)).2 b s' h
  | err e1 s1 => rw [hr] at h; cases h
  | panic m => rw [hr] at h; cases h
  | fuel => rw [hr] at h; cases h
  | need q => rw [hr] at h; cases h

theorem AnyC.finally {α} {m : EM α} (hm : AnyC k m) : AnyC k (m.finally popSt) := by
  intro s e s' h
  rw [finally_apply] at h
  cases hr : m s with
  | ok a s1 => rw [hr] at h; cases h
  | err e1 s1 => rw [hr] at h; cases h; exact (hm s _ _ hr : s1.world.polls < k)
  | panic m => rw [hr] at h; cases h
  | fuel => rw [hr] at h; cases h
  | need q => rw [hr] at h; cases h

theorem LowC.finally {α} {m : EM α} (hm : LowC k m) : LowC k (m.finally popSt) := by
  intro s hs e s' h
  rw [finally_apply] at h
  cases hr : m s with
  | ok a s1 => rw [hr] at h; cases h
  | err e1 s1 => rw [hr] at h; cases h; exact (hm s hs _ _ hr : s1.world.polls < k)
  | panic m => rw [hr] at h; cases h
  | fuel => rw [hr] at h; cases h
  | need q => rw [hr] at h; cases h

end

section
variable {env : Env} {k : Nat}

/-- a poll of the K-run that does not report true leaves the poll counter below `k` -/
theorem pollSt_low (s : St) (h : pollB (withSig env (some k)) s = false) :
    (pollSt (withSig env (some k)) s).world.polls < k := by
  unfold pollB at h
  unfold pollSt pollB
  cases he : s.task.exit
  · simp only [he, Bool.not_false, withSig_hasSignal, Bool.and_self, if_true, withSig_sigK, decide_eq_false_iff_not] at h ⊢
    omega
  · simp [he] at h

theorem AnyC.poll {α} (a : α) {K : EM α} (hK : LowC k K) :
    AnyC k (procExit (withSig env (some k)) >>= fun x => if x = true then Pure.pure a else K) := by
  intro s e s' h
  simp only [bind_apply, procExit_apply, rbind_ok] at h
  cases hp : pollB (withSig env (some k)) s
  · rw [hp] at h
    exact hK _ (pollSt_low s hp) e s' (by simpa using h)
  · rw [hp] at h; simp only [if_true, pure_apply] at h; cases h

theorem AnyC.stmtRet {α} (a : α) {K : EM α} (hK : LowC k K) :
    AnyC k (stmtReturn (withSig env (some k)) >>= fun x => if x = true then Pure.pure a else K) := by
  intro s e s' h
  simp only [bind_apply, stmtReturn_apply, rbind_ok] at h
  cases hp : pollB (withSig env (some k)) s
  · rw [hp] at h
    cases hbc : (s.task.brk || s.task.cont)
    · rw [hbc] at h
      exact hK _ (pollSt_low s hp) e s' (by simpa using h)
    · rw [hbc] at h; simp only [Bool.or_true, if_true, pure_apply] at h; cases h
  · rw [hp] at h; simp only [Bool.true_or, if_true, pure_apply] at h; cases h

theorem AnyC.tail {K : EM TV} (hK : LowC k K) : AnyC k (loopTail (withSig env (some k)) K) := by
  unfold loopTail
  refine AnyC.bind (fun s e s' h => by cases h) fun s => ?_
  simp only []
  split
  · exact AnyC.bind (AnyC.modTask _) fun _ => AnyC.pure _
  · split
    · exact AnyC.bind (AnyC.modTask _) fun _ => AnyC.stmtRet voidTV hK
    · exact AnyC.stmtRet voidTV hK

/-! ### the machine -/
variable {ev : Node → EM TV}

/-- the hypotheses on the evaluator of the K-run -/
structure EvObs (k : Nat) (ev : Node → EM TV) : Prop where
  keep : ∀ n, SF n → KeepM (ev n)
  use : ∀ args np lp rp site, LowC k (ev (.call (B "use") args np lp rp site))

structure MObs (env : Env) (k : Nat) (ev : Node → EM TV) (g : Nat) : Prop where
  stmt : ∀ n, StmtOk n → LowC k (runStmt (withSig env (some k)) ev g n)
  stmts : ∀ l, StmtsOk l → AnyC k (runStmts (withSig env (some k)) ev g l)
  ifs : ∀ ifs els, (∀ x ∈ ifs, SF x.1) → (∀ x ∈ ifs, BlockOk x.2.1) → BlockOk els →
    LowC k (runIfs (withSig env (some k)) ev g ifs els)
  loop : ∀ c l body, OptSF c → OptSF l → BlockOk body → AnyC k (forLoop (withSig env (some k)) ev g c l body)
  forIn : ∀ var it pos body, BlockOk body → LowC k (Platypus.forIn (withSig env (some k)) ev g var it pos body)
  forStr : ∀ var rs body, BlockOk body → AnyC k (forInStr (withSig env (some k)) ev g var rs body)
  forItems : ∀ var pos items live body, BlockOk body →
    LowC k (forInItems (withSig env (some k)) ev g var pos items live body)

theorem mobs_zero : MObs env k ev 0 := by
  refine ⟨?_, ?_, ?_, ?_, ?_, ?_, ?_⟩ <;> intros
  · rw [runStmt]; exact AnyC.outOfFuel.toLow
  · rw [runStmts]; exact AnyC.outOfFuel
  · rw [runIfs]; exact AnyC.outOfFuel.toLow
  · rw [forLoop]; exact AnyC.outOfFuel
  · rw [Platypus.forIn]; exact AnyC.outOfFuel.toLow
  · rw [forInStr]; exact AnyC.outOfFuel
  · rw [forInItems]; exact AnyC.outOfFuel.toLow

/-- a signal-free node in statement position does not poll -/
theorem runStmt_sf_keep (hev : EvObs k ev) (g : Nat) (n : Node) (h : SF n) :
    KeepM (runStmt (withSig env (some k)) ev g n) := by
  cases g with
  | zero => simp only [runStmt]; exact KeepM.outOfFuel
  | succ g =>
    cases h <;> simp only [runStmt] <;>
      first
      | exact KeepM.bind (KeepM.modTask _) fun _ => KeepM.pure _
      | exact hev.keep _ (by constructor <;> assumption)

theorem runStmts_obs_step {g : Nat} (ih : MObs env k ev g) (l : List Node) (hl : StmtsOk l) :
    AnyC k (runStmts (withSig env (some k)) ev (g+1) l) := by
  cases l with
  | nil => simp only [runStmts]; exact AnyC.pure _
  | cons n rest =>
    intro s e s' h
    simp only [runStmts, stmtReturn_apply] at h
    cases hp : pollB (withSig env (some k)) s
    · rw [hp] at h
      cases hbc : (s.task.brk || s.task.cont)
      · rw [hbc] at h
        simp only [Bool.or_self] at h
        have h1 := ih.stmt n (hl n (by simp)) _ (pollSt_low s hp)
        cases hr : runStmt (withSig env (some k)) ev g n (pollSt (withSig env (some k)) s) with
        | ok a s1 => rw [hr] at h; exact ih.stmts rest (fun x hx => hl x (by simp [hx])) s1 e s' h
        | err e1 s1 => rw [hr] at h; cases h; exact (h1 _ _ hr : s1.world.polls < k)
        | panic m => rw [hr] at h; cases h
        | fuel => rw [hr] at h; cases h
        | need q => rw [hr] at h; cases h
      · rw [hbc] at h; simp only [Bool.or_true] at h; cases h
    · rw [hp] at h; simp only [Bool.true_or] at h; cases h

theorem block_obs {g : Nat} (ih : MObs env k ev g) (b : List Node) (hb : StmtsOk b)
    {K : EM TV} (hK : AnyC k K) :
    AnyC k (do pushScope; runStmts (withSig env (some k)) ev g b; popScope; K) :=
  AnyC.bind (AnyC.modTask _) fun _ => AnyC.bind (ih.stmts b hb) fun _ => AnyC.bind (AnyC.modTask _) fun _ => hK

theorem runIfs_obs_step (hev : EvObs k ev) {g : Nat} (ih : MObs env k ev g)
    (ifs : List (Node × Option (List Node) × Pos)) (els : Option (List Node))
    (h1 : ∀ x ∈ ifs, SF x.1) (h2 : ∀ x ∈ ifs, BlockOk x.2.1) (h3 : BlockOk els) :
    LowC k (runIfs (withSig env (some k)) ev (g+1) ifs els) := by
  cases ifs with
  | nil =>
    simp only [runIfs]
    cases els with
    | none => exact (AnyC.pure _).toLow
    | some b => exact (block_obs ih b (h3 b rfl) (AnyC.pure _)).toLow
  | cons x rest =>
    obtain ⟨c, blk, p⟩ := x
    have hc : SF c := h1 (c, blk, p) (by simp)
    simp only [runIfs]
    refine LowC.bind_keep (runStmt_sf_keep hev g c hc).keepLow fun v => ?_
    refine LowC.bind_keep (KeepM.getS).keepLow fun s => ?_
    split
    · cases blk with
      | none => exact (AnyC.pure _).toLow
      | some b => exact (block_obs ih b (h2 (c, some b, p) (by simp) b rfl) (AnyC.pure _)).toLow
    · exact ih.ifs rest els (fun x hx => h1 x (by simp [hx])) (fun x hx => h2 x (by simp [hx])) h3

theorem forLoop_obs_step (hev : EvObs k ev) {g : Nat} (ih : MObs env k ev g)
    (c l : Option Node) (body : Option (List Node)) (hc : OptSF c) (hl2 : OptSF l) (hb : BlockOk body) :
    AnyC k (forLoop (withSig env (some k)) ev (g+1) c l body) := by
  have hK : LowC k
      (match (generalizing := false) l with
        | some ln => do let _ ← runStmt (withSig env (some k)) ev g ln; forLoop (withSig env (some k)) ev g c l body
        | none => forLoop (withSig env (some k)) ev g c l body) := by
    cases l with
    | none => exact (ih.loop c none body hc hl2 hb).toLow
    | some ln =>
      exact LowC.bind_keep (runStmt_sf_keep hev g ln (hl2 ln rfl)).keepLow fun _ =>
        (ih.loop c (some ln) body hc hl2 hb).toLow
  have hT := AnyC.tail (env := env) hK
  simp only [forLoop]
  refine AnyC.poll voidTV ?_
  refine LowC.bind_keep (m := match c with
      | some cn => do
        let v ← runStmt (withSig env (some k)) ev g cn
        let s ← getS
        pure (condTrue s.world.heap v)
      | none => pure true) ?_ fun go => ?_
  · cases c with
    | none => exact (KeepM.pure _).keepLow
    | some cn =>
      exact (KeepM.bind (runStmt_sf_keep hev g cn (hc cn rfl)) fun _ => KeepM.bind KeepM.getS fun _ => KeepM.pure _).keepLow
  split
  · exact (AnyC.pure _).toLow
  · cases body with
    | none => exact hT.toLow
    | some b => exact (block_obs ih b (hb b rfl) hT).toLow

theorem forInStr_obs_step {g : Nat} (ih : MObs env k ev g)
    (var : Node) (rs : List Bytes) (body : Option (List Node)) (hb : BlockOk body) :
    AnyC k (forInStr (withSig env (some k)) ev (g+1) var rs body) := by
  cases rs with
  | nil => simp only [forInStr]; exact AnyC.pure _
  | cons r rest =>
    have hT := AnyC.tail (env := env) (ih.forStr var rest body hb).toLow
    cases var
    case ident name p =>
      simp only [forInStr]
      cases body with
      | none => exact AnyC.bind (AnyC.modTask _) fun _ => AnyC.bind (AnyC.modTask _) fun _ => hT
      | some b =>
        exact AnyC.bind (AnyC.modTask _) fun _ => AnyC.bind (ih.stmts b (hb b rfl)) fun _ =>
          AnyC.bind (AnyC.modTask _) fun _ => hT
    all_goals
      simp only [forInStr]
      exact AnyC.pure _

theorem forInItems_obs_step {g : Nat} (ih : MObs env k ev g)
    (var : Node) (pos : Pos) (items : List TV) (live : Option (Nat × Nat × Nat)) (body : Option (List Node))
    (hb : BlockOk body) :
    LowC k (forInItems (withSig env (some k)) ev (g+1) var pos items live body) := by
  have hnext : KeepM (match live with
      | some (a, i, n) =>
        if i < n then do
          let st ← getS
          let x := match st.world.heap.get? a with
            | some (.list xs) => xs.getD i .nil
            | _ => .nil
          pure (some (detect st.world.heap x, ([] : List TV), some (a, i + 1, n)))
        else pure none
      | none => match items with
        | [] => pure none
        | x :: r => pure (some (x, r, none))) := by
    keep
  cases var
  case ident name p =>
    simp only [forInItems]
    refine LowC.bind_keep hnext.keepLow fun next => ?_
    cases next with
    | none => exact (AnyC.pure _).toLow
    | some t =>
      obtain ⟨x, items', live'⟩ := t
      have hT := AnyC.tail (env := env) (ih.forItems (.ident name p) pos items' live' body hb)
      refine LowC.bind_keep (KeepM.clearScope).keepLow fun _ => ?_
      split
      · exact LowC.runErr _ _
      · refine LowC.bind_keep (KeepM.setVarb _ _).keepLow fun _ => ?_
        cases body with
        | none => exact hT.toLow
        | some b => exact (AnyC.bind (ih.stmts b (hb b rfl)) fun _ => hT).toLow
  all_goals
    simp only [forInItems]
    refine LowC.bind_keep hnext.keepLow fun next => ?_
    cases next with
    | none => exact (AnyC.pure _).toLow
    | some t =>
      obtain ⟨x, items', live'⟩ := t
      refine LowC.bind_keep (KeepM.clearScope).keepLow fun _ => ?_
      split
      · exact LowC.runErr _ _
      · exact LowC.panic_bind _ _

theorem forIn_obs_step {g : Nat} (ih : MObs env k ev g)
    (var : Node) (it : TV) (pos : Pos) (body : Option (List Node)) (hb : BlockOk body) :
    LowC k (Platypus.forIn (withSig env (some k)) ev (g+1) var it pos body) := by
  obtain ⟨v, t⟩ := it
  cases t <;> simp only [Platypus.forIn, withSig_mapOrder] <;> try exact LowC.runErr _ _
  · -- str
    cases v <;> simp only [] <;> first | exact LowC.runErr _ _ | exact (ih.forStr _ _ _ hb).toLow
  · -- list
    refine LowC.bind_keep (KeepM.getS).keepLow fun st => ?_
    cases v <;> simp only [] <;> try exact LowC.runErr _ _
    rename_i a
    cases h : st.world.heap.get? a with
    | none => exact LowC.runErr _ _
    | some o => cases o <;> simp only [] <;> first | exact LowC.runErr _ _ | exact ih.forItems _ _ _ _ _ hb
  · -- map
    refine LowC.bind_keep (KeepM.getS).keepLow fun st => ?_
    cases v <;> simp only [] <;> try exact LowC.runErr _ _
    rename_i a
    cases h : st.world.heap.get? a with
    | none => exact LowC.runErr _ _
    | some o =>
      cases o <;> simp only [] <;>
        first
        | exact LowC.runErr _ _
        | (refine LowC.bind_keep (KeepM.keepLow (KeepM.modWorld _ ?_)) fun _ => ih.forItems _ _ _ _ _ hb; intro w; rfl)

theorem runStmt_obs_step (hev : EvObs k ev) {g : Nat} (ih : MObs env k ev g) (n : Node) (hn : StmtOk n) :
    LowC k (runStmt (withSig env (some k)) ev (g+1) n) := by
  cases hn
  case ifelse ifs els p h1 h2 h3 =>
    simp only [runStmt]
    exact LowC.finally (LowC.bind_keep (KeepM.pushScope).keepLow fun _ => ih.ifs ifs els h1 h2 h3)
  case forS a b c body p h1 h2 h3 h4 =>
    simp only [runStmt]
    refine LowC.finally (LowC.bind_keep (KeepM.pushScope).keepLow fun _ => ?_)
    cases a with
    | none => exact (ih.loop b c body h2 h3 h4).toLow
    | some i =>
      exact LowC.bind_keep (runStmt_sf_keep hev g i (h1 i rfl)).keepLow fun _ => (ih.loop b c body h2 h3 h4).toLow
  case forIn v it body fp ip h1 h2 =>
    simp only [runStmt]
    exact LowC.finally (LowC.bind_keep (KeepM.pushScope).keepLow fun _ =>
      LowC.bind_keep (runStmt_sf_keep hev g it h1).keepLow fun itv =>
        LowC.finally (LowC.bind_keep (KeepM.pushScope).keepLow fun _ => ih.forIn v itv _ body h2))
  case use args np lp rp site =>
    simp only [runStmt]
    exact hev.use args np lp rp site
  case expr h =>
    exact (runStmt_sf_keep hev (g+1) n h).keepLow.toLow

theorem mobs_succ (hev : EvObs k ev) {g : Nat} (ih : MObs env k ev g) : MObs env k ev (g+1) :=
  ⟨runStmt_obs_step hev ih, runStmts_obs_step ih, runIfs_obs_step hev ih, forLoop_obs_step hev ih,
    forIn_obs_step ih, forInStr_obs_step ih, forInItems_obs_step ih⟩

theorem mobs_all (hev : EvObs k ev) : ∀ g, MObs env k ev g
  | 0 => mobs_zero
  | g+1 => mobs_succ hev (mobs_all hev g)

end

/-! ### the real evaluator -/
section
variable {env : Env} {k : Nat}
variable (hB : ∀ site c cs, env.bound site = some (c, cs) → StmtsOk cs)
include hB

theorem builtin_use_obs {f : Nat} (ih : ∀ g, MObs env k (evalNode (withSig env (some k)) f) g)
    (name : Bytes) (args : List Node) (np : Pos) (site : Nat) :
    LowC k (builtin (withSig env (some k)) (f+1) .use name args np site) := by
  rw [builtin.eq_def]
  simp only [withSig_bound]
  split
  · split
    · exact (AnyC.pure _).toLow
    · rename_i cname stmts hb
      intro s hs e s' h
      have h1 := (ih f).stmts stmts (hB _ _ _ hb) { task := { name := cname, scopes := [[]] }, world := s.world }
      dsimp only at h
      cases hr : runStmts (withSig env (some k)) (evalNode (withSig env (some k)) f) f stmts
        { task := { name := cname, scopes := [[]] }, world := s.world } with
      | ok a s1 => rw [hr] at h; cases h
      | err e1 s1 => rw [hr] at h; cases h; exact (h1 _ _ hr : s1.world.polls < k)
      | panic m => rw [hr] at h; cases h
      | fuel => rw [hr] at h; cases h
      | need q => rw [hr] at h; cases h
  · exact LowC.runErr _ _
  · exact LowC.runErr _ _

omit hB in
theorem evalCall_use_obs {f : Nat} (args : List Node) (np : Pos) (site : Nat)
    (hb : LowC k (builtin (withSig env (some k)) f .use (B "use") args np site)) :
    LowC k (evalCall (withSig env (some k)) (f+1) (B "use") args np site) := by
  intro s hs e s' h
  simp only [evalCall, withSig_fns, ofName_use] at h
  split at h
  · cases h
  · have h1 := hb s hs
    cases hr : builtin (withSig env (some k)) f .use (B "use") args np site s with
    | ok a s1 => rw [hr] at h; cases h
    | err e1 s1 => rw [hr] at h; cases h; exact (h1 _ _ hr : s1.world.polls < k)
    | panic m => rw [hr] at h; cases h
    | fuel => rw [hr] at h; cases h
    | need q => rw [hr] at h; cases h

theorem evobs_all (F : Nat) : EvObs k (evalNode (withSig env (some k)) F) := by
  induction F using Nat.strongRecOn with
  | _ F ih =>
    refine ⟨fun n h => evalNode_sigFree_keep env (some k) F n h, ?_⟩
    intro args np lp rp site
    match F, ih with
    | 0, _ => simp only [evalNode]; exact AnyC.outOfFuel.toLow
    | 1, _ => simp only [evalNode, evalCall]; exact AnyC.outOfFuel.toLow
    | 2, _ =>
      simp only [evalNode]
      refine evalCall_use_obs args np site ?_
      simp only [builtin]
      exact AnyC.outOfFuel.toLow
    | f+3, ih =>
      simp only [evalNode]
      exact evalCall_use_obs args np site
        (builtin_use_obs hB (fun g => mobs_all (ih f (by omega)) g) _ args np site)

/-- in the run interrupted at poll `k`, a script error is raised before the observation -/
theorem runStmts_error_before_observation (F g : Nat) (stmts : List Node) (h : StmtsOk stmts) (s : St)
    (e : PlErr) (s' : St)
    (he : runStmts (withSig env (some k)) (evalNode (withSig env (some k)) F) g stmts s = .err e s') :
    s'.world.polls < k :=
  (mobs_all (evobs_all hB F) g).stmts stmts h s e s' he

end
end Platypus.SignalProofs
