import Platypus.Proofs.LiteralUtf8
import Platypus.Proofs.LexerCover
/-!
The lexer on a string-shaped spelling (C07): fuel-free runs of the state machine (`Steps`), the
scans of the `.rawString`, `.multiline` and `.str`/`.escape`/`.escDigits` states described by pure
functions on the remaining bytes, and the item stream of `lexAll`.
-/
namespace Platypus.Lit
open Platypus Platypus.Lex Platypus.Utf8 Platypus.Unq

/-! ### fuel-free runs -/

inductive Steps : L → L → Prop
  | refl (l : L) : Steps l l
  | step {l l' : L} : l.item = none → Steps (Lex.step l) l' → Steps l l'

theorem Steps.trans {a b c : L} (h1 : Steps a b) (h2 : Steps b c) : Steps a c := by
  induction h1 with
  | refl => exact h2
  | step hn _ ih => exact Steps.step hn (ih h2)

theorem Steps.one {l : L} (h : l.item = none) : Steps l (Lex.step l) := Steps.step h (Steps.refl _)

theorem steps_loop {l l' : L} (h : Steps l l') (hs : l'.item.isSome = true) :
    ∀ f, (nextItemLoop f l).item.isSome = true → nextItemLoop f l = l' := by
  induction h with
  | refl l =>
    intro f _
    cases f with
    | zero => rfl
    | succ f => simp [nextItemLoop, hs]
  | step hn _ ih =>
    intro f hf
    cases f with
    | zero => simp [nextItemLoop, hn] at hf
    | succ f =>
      simp only [nextItemLoop, hn, Option.isSome_none, Bool.false_eq_true, if_false] at hf ⊢
      exact ih hs f hf

/-- inside a string-shaped literal that started at offset 0 of a fresh lexer -/
structure In (s : Bytes) (st : LState) (p : Nat) (so bo : Rune) (l : L) : Prop where
  input : l.input = s
  state : l.state = st
  pos : l.pos = p
  start : l.start = 0
  item : l.item = none
  paren : l.paren = 0
  brace : l.brace = 0
  bracket : l.bracket = 0
  so : l.stringOpen = so
  bo : l.backquoteOpen = bo
  pend : l.pendErr = false

/-- the token `s[0, p)` of type `t` has just been scanned -/
structure Emitted (s : Bytes) (t : Tok) (p : Nat) (l : L) : Prop where
  input : l.input = s
  state : l.state = .statements
  pos : l.pos = p
  start : l.start = p
  item : l.item = some ⟨t, 0, s.take p⟩
  paren : l.paren = 0
  brace : l.brace = 0
  bracket : l.bracket = 0

def Errored (l : L) : Prop := ∃ it, l.item = some it ∧ it.typ = .ERROR

theorem runeAt_of_drop (s : Bytes) (p : Nat) (u : Bytes) (h : s.drop p = u) :
    runeAt s p = if u = [] then (eof, 0) else (((decodeRune u).1 : Nat), (decodeRune u).2) := by
  unfold runeAt
  subst h
  by_cases hp : p ≥ s.length
  · rw [if_pos hp, if_pos (by simpa using hp)]
  · rw [if_neg hp, if_neg (by simpa using hp)]

/-- the rune at a position where the rest of the input is valid UTF-8 -/
theorem runeAt_cases (s : Bytes) (p : Nat) (u : Bytes) (hu : s.drop p = u) (hv : Valid u) :
    (u = [] ∧ (runeAt s p).1 = eof ∧ (runeAt s p).2 = 0) ∨
    (∃ c r, u = c :: r ∧ c.toNat < 0x80 ∧ (runeAt s p).1 = (c.toNat : Int) ∧ (runeAt s p).2 = 1 ∧ Valid r) ∨
    (∃ (w r : Nat), 2 ≤ w ∧ w ≤ 4 ∧ w ≤ u.length ∧ (runeAt s p).2 = w ∧ (runeAt s p).1 = (r : Int) ∧ 0x80 ≤ r ∧
      r ≤ 0x10FFFF ∧ ¬ (0xD800 ≤ r ∧ r < 0xE000) ∧ (∀ b ∈ u.take w, 0x80 ≤ b.toNat) ∧
      encodeRune r = u.take w ∧ Valid (u.drop w)) := by
  have h := runeAt_of_drop s p u hu
  rcases rune_cases u hv with rfl | ⟨c, r, rfl, hc, hd, hr⟩ | ⟨w, h1, h2, h3, h4, h5, h6, h7, h8, h9, h10⟩
  · left
    simp only [if_true] at h
    exact ⟨rfl, by simp [h], by simp [h]⟩
  · right; left
    rw [if_neg (by simp), hd] at h
    exact ⟨c, r, rfl, hc, by simp [h], by simp [h], hr⟩
  · right; right
    have hne : u ≠ [] := by intro h; subst h; simp at h3; omega
    rw [if_neg hne] at h
    exact ⟨w, (decodeRune u).1, h1, h2, h3, by simp [h, h4], by simp [h], h5, h6, h7, h8, h9, h10⟩

/-- the rune `next` reads at a position where the rest of the input is valid UTF-8 -/
theorem rw_cases (l : L) (u : Bytes) (hu : l.input.drop l.pos = u) (hv : Valid u) :
    (u = [] ∧ rAt l = eof ∧ wAt l = 0) ∨
    (∃ c r, u = c :: r ∧ c.toNat < 0x80 ∧ rAt l = (c.toNat : Int) ∧ wAt l = 1 ∧ Valid r) ∨
    (∃ (w r : Nat), 2 ≤ w ∧ w ≤ 4 ∧ w ≤ u.length ∧ wAt l = w ∧ rAt l = (r : Int) ∧ 0x80 ≤ r ∧
      r ≤ 0x10FFFF ∧ ¬ (0xD800 ≤ r ∧ r < 0xE000) ∧ (∀ b ∈ u.take w, 0x80 ≤ b.toNat) ∧
      encodeRune r = u.take w ∧ Valid (u.drop w)) :=
  runeAt_cases l.input l.pos u hu hv

theorem drop_succ_of_drop {s : Bytes} {p : Nat} {c : UInt8} {r : Bytes} (h : s.drop p = c :: r) :
    s.drop (p + 1) = r := by
  have : s.drop (p + 1) = (s.drop p).drop 1 := by rw [List.drop_drop]
  rw [this, h]; rfl

theorem drop_add_of_drop {s : Bytes} {p : Nat} {u : Bytes} (h : s.drop p = u) (w : Nat) :
    s.drop (p + w) = u.drop w := by
  rw [← h, List.drop_drop]

theorem lt_len_of_drop {s : Bytes} {p : Nat} {c : UInt8} {r : Bytes} (h : s.drop p = c :: r) :
    p + 1 + r.length = s.length := by
  have := congrArg List.length h
  simp at this
  omega

/-! ### back-quoted identifiers: the `.rawString` scan -/

/-- index of the first occurrence -/
def findB (c : UInt8) : Bytes → Option Nat
  | [] => none
  | x :: r => if x == c then some 0 else (findB c r).map (· + 1)

theorem findB_skip (c : UInt8) : ∀ (w : Nat) (u : Bytes), w ≤ u.length → (∀ b ∈ u.take w, b ≠ c) →
    findB c u = (findB c (u.drop w)).map (· + w)
  | 0, u, _, _ => by simp
  | w+1, [], h, _ => by simp at h
  | w+1, x :: r, h, hb => by
    have hx : x ≠ c := hb x (by simp)
    have ih := findB_skip c w r (by simpa using h) (fun b hb' => hb b (by simp [hb']))
    simp only [findB, beq_iff_eq, hx, if_false, List.drop_succ_cons, ih, Option.map_map]
    congr 1

theorem step_raw_eq (l : L) (hs : l.state = .rawString) : Lex.step l =
    if rAt l == Lex.runeError && (nx l).width == 1 then errorf (nx l) "invalid UTF-8 rune"
    else if rAt l == eof then errorf (nx l) "unterminated raw string"
    else if rAt l == l.backquoteOpen then { emit (nx l) .QUOTED_STRING with state := .statements }
    else nx l := by
  simp only [Lex.step, hs, next_eq']

theorem raw_scan (s : Bytes) (so : Rune) : ∀ (n : Nat) (u : Bytes), u.length = n → Valid u →
    ∀ (p : Nat) (l : L), s.drop p = u → In s .rawString p so 96 l →
    ∃ l', Steps l l' ∧ (match findB 96 u with
      | some i => Emitted s .QUOTED_STRING (p + i + 1) l'
      | none => Errored l') := by
  intro n
  induction n using Nat.strongRecOn with
  | _ n ih =>
    intro u hn hv p l hu hin
    obtain ⟨h1, h2, h3, h4, h5, h6, h7, h8, h9, h10, h11⟩ := hin
    have hstep := step_raw_eq l h2
    rcases rw_cases l u (by rw [h1, h3]; exact hu) hv with ⟨rfl, hr, hw⟩ |
      ⟨c, r, rfl, hc, hr, hw, hvr⟩ | ⟨w, r, hw1, hw2, hw3, hw, hr, hr1, hr2, hr3, hb, _, hvr⟩
    · refine ⟨Lex.step l, Steps.one h5, ?_⟩
      simp only [findB]
      rw [hstep, hr]
      simp [Errored, eof, Lex.runeError]
    · by_cases hc96 : c = 96
      · subst hc96
        refine ⟨Lex.step l, Steps.one h5, ?_⟩
        simp only [findB, beq_self_eq_true, if_true]
        rw [hstep, hr, h10]
        simp [eof, Lex.runeError]
        exact ⟨h1, rfl, by simp [h3, hw], by simp [h3, hw], by simp [h1, h3, h4, hw, slice], h6, h7, h8⟩
      · have hcn : (c.toNat : Int) ≠ 96 := by
          intro h; apply hc96; apply UInt8.toNat_inj.1; simp; omega
        have hs' : Lex.step l = nx l := by
          rw [hstep, hr, h10]
          simp [eof, Lex.runeError, hcn]
          intro h; romega
        obtain ⟨l', hl', hres⟩ := ih r.length (by simp at hn; omega) r rfl hvr (p + 1) (nx l)
          (drop_succ_of_drop hu) ⟨h1, h2, by simp [h3, hw], h4, h5, h6, h7, h8, h9, h10, h11⟩
        refine ⟨l', Steps.step h5 (hs' ▸ hl'), ?_⟩
        simp only [findB, beq_iff_eq, hc96, if_false]
        cases hf : findB 96 r with
        | none => simpa [hf] using hres
        | some i =>
          rw [hf] at hres
          simp only [Option.map_some] at hres ⊢
          have : p + (i + 1) + 1 = p + 1 + i + 1 := by omega
          rw [this]; exact hres
    · have hs' : Lex.step l = nx l := by
        rw [hstep, hr, h10]
        simp [eof, Lex.runeError, hw]
        rw [if_neg (by romega), if_neg (by romega)]
      obtain ⟨l', hl', hres⟩ := ih (u.drop w).length (by simp; omega) (u.drop w) rfl hvr (p + w) (nx l)
        (drop_add_of_drop hu w) ⟨h1, h2, by simp [h3, hw], h4, h5, h6, h7, h8, h9, h10, h11⟩
      refine ⟨l', Steps.step h5 (hs' ▸ hl'), ?_⟩
      rw [findB_skip 96 w u hw3 (fun b hb' h96 => by have := hb b hb'; rw [h96] at this; simp at this)]
      cases hf : findB 96 (u.drop w) with
      | none => simpa [hf] using hres
      | some i =>
        rw [hf] at hres
        simp only [Option.map_some] at hres ⊢
        have : p + (i + w) + 1 = p + w + i + 1 := by omega
        rw [this]; exact hres


/-! ### the first step: the opening quote -/

theorem step_stmt_bq (l : L) (hs : l.state = .statements) (hp : hasPrefixAt l.input l.pos 35 = false)
    (hr : rAt l = 96) : Lex.step l = { nx l with backquoteOpen := 96, state := .rawString } := by
  simp only [Lex.step, hs, next_eq', peek_rAt, hp, hr]
  simp [isSpaceNotEOL, isDigit]

theorem step_stmt_q (l : L) (q : Rune) (hq : q = 34 ∨ q = 39) (hs : l.state = .statements)
    (hp : hasPrefixAt l.input l.pos 35 = false)
    (hr : rAt l = q) : Lex.step l =
      if rAt (nx l) == q then
        (if rAt (nx (nx l)) == q then { nx (nx (nx l)) with stringOpen := q, state := .multiline }
         else emit (nx (nx l)) .STRING)
      else { nx l with stringOpen := q, state := .str } := by
  simp only [Lex.step, hs, next_eq', peek_rAt, hp, hr]
  rcases hq with rfl | rfl <;> simp [isSpaceNotEOL, isDigit]


/-! ### triple-quoted strings: the `.multiline` scan -/

def headIs (q : UInt8) : Bytes → Bool
  | c :: _ => c == q
  | [] => false

def tripleHead (q : UInt8) : Bytes → Bool
  | a :: b :: r => a == q && b == q && headIs q r
  | _ => false

/-- index of the first three consecutive bytes `q` (the quote the string opened with) -/
def closeIdx (q : UInt8) : Bytes → Option Nat
  | [] => none
  | a :: r => if tripleHead q (a :: r) then some 0 else (closeIdx q r).map (· + 1)

theorem tripleHead_of_not (q x : UInt8) (r : Bytes) (hx : (x == q) = false) : tripleHead q (x :: r) = false := by
  cases r <;> simp [tripleHead, hx]

theorem closeIdx_skip (q : UInt8) : ∀ (w : Nat) (u : Bytes), w ≤ u.length → (∀ b ∈ u.take w, (b == q) = false) →
    closeIdx q u = (closeIdx q (u.drop w)).map (· + w)
  | 0, u, _, _ => by simp
  | w+1, [], h, _ => by simp at h
  | w+1, x :: r, h, hb => by
    have hx : (x == q) = false := hb x (by simp)
    have ih := closeIdx_skip q w r (by simpa using h) (fun b hb' => hb b (by simp [hb']))
    simp only [closeIdx, tripleHead_of_not q x r hx, Bool.false_eq_true, if_false, List.drop_succ_cons, ih,
      Option.map_map]
    congr 1

/-- is the next rune the (ASCII) byte `qb`? -/
theorem peekQ (l : L) (u : Bytes) (qb : UInt8) (hq : qb.toNat < 0x80) (hu : l.input.drop l.pos = u) (hv : Valid u) :
    (rAt l == (qb.toNat : Int)) = headIs qb u ∧
    (headIs qb u = true → ∃ r, u = qb :: r ∧ wAt l = 1 ∧ Valid r) ∧
    (headIs qb u = false → u ≠ [] → 1 ≤ wAt l ∧ wAt l ≤ u.length ∧ (∀ b ∈ u.take (wAt l), (b == qb) = false) ∧
      Valid (u.drop (wAt l))) := by
  rcases rw_cases l u hu hv with ⟨rfl, hr, hw⟩ |
      ⟨c, r, rfl, hc, hr, hw, hvr⟩ | ⟨w, r, hw1, hw2, hw3, hw, hr, hr1, hr2, hr3, hb, _, hvr⟩
  · refine ⟨?_, by simp [headIs], by simp⟩
    rw [hr]; simp [headIs, eof]
  · refine ⟨?_, ?_, ?_⟩
    · rw [hr]; simp only [headIs]
      rw [Bool.eq_iff_iff]; simp [← UInt8.toNat_inj]; romega
    · intro h
      simp only [headIs, beq_iff_eq] at h
      exact ⟨r, by rw [h], hw, hvr⟩
    · intro h _
      rw [hw]
      exact ⟨by omega, by simp, by simpa [headIs] using h, by simpa using hvr⟩
  · have hne : u ≠ [] := by intro h; subst h; simp at hw3; omega
    obtain ⟨c, r', rfl⟩ := List.exists_cons_of_ne_nil hne
    have hc : 0x80 ≤ c.toNat := hb c (by
      obtain ⟨w', rfl⟩ := Nat.exists_eq_succ_of_ne_zero (by omega : w ≠ 0)
      simp)
    have hcq : (c == qb) = false := by simp [← UInt8.toNat_inj]; omega
    refine ⟨?_, by simp [headIs, hcq], ?_⟩
    · rw [hr]; simp only [headIs, hcq]
      simp; romega
    · intro _ _
      rw [hw]
      refine ⟨by omega, hw3, fun b hb' => ?_, hvr⟩
      have := hb b hb'
      simp [← UInt8.toNat_inj]; omega

theorem step_ml_eq (l : L) (hs : l.state = .multiline) : Lex.step l =
    if rAt l == eof then { errorf (nx l) "unterminated multiline string" with state := .done }
    else if rAt l == l.stringOpen then
      if rAt (nx l) == l.stringOpen then
        if rAt (nx (nx l)) == l.stringOpen then
          { emit (nx (nx (nx l))) .MULTILINE_STRING with state := .statements }
        else nx (nx l)
      else nx l
    else nx l := by
  simp only [Lex.step, hs, next_eq', peek_rAt]

theorem map_add_emitted {s : Bytes} {t : Tok} {p k : Nat} {l' : L} {o : Option Nat}
    (h : match o with | some i => Emitted s t (p + k + i + 3) l' | none => Errored l') :
    match o.map (· + k) with | some i => Emitted s t (p + i + 3) l' | none => Errored l' := by
  cases o with
  | none => exact h
  | some i =>
    simp only [Option.map_some] at h ⊢
    have : p + (i + k) + 3 = p + k + i + 3 := by omega
    rw [this]; exact h

/-- the `.multiline` scan of a string opened with the (ASCII) quote `qb`: it ends just after the
    first three consecutive `qb` -/
theorem ml_scan (s : Bytes) (qb : UInt8) (hqb : qb.toNat < 0x80) (bo : Rune) :
    ∀ (n : Nat) (u : Bytes), u.length = n → Valid u →
    ∀ (p : Nat) (l : L), s.drop p = u → In s .multiline p (qb.toNat : Int) bo l →
    ∃ l', Steps l l' ∧ (match closeIdx qb u with
      | some i => Emitted s .MULTILINE_STRING (p + i + 3) l'
      | none => Errored l') := by
  intro n
  induction n using Nat.strongRecOn with
  | _ n ih =>
    intro u hn hv p l hu hin
    obtain ⟨h1, h2, h3, h4, h5, h6, h7, h8, h9, h10, h11⟩ := hin
    have hstep := step_ml_eq l h2
    rw [h9] at hstep
    have hul : l.input.drop l.pos = u := by rw [h1, h3]; exact hu
    obtain ⟨hq1, hq1t, hq1f⟩ := peekQ l u qb hqb hul hv
    by_cases hnil : u = []
    · subst hnil
      refine ⟨Lex.step l, Steps.one h5, ?_⟩
      have hr : rAt l = eof := (rAt_eof_iff l).2 (by
        have := congrArg List.length hu; simp at this; rw [h1, h3]; omega)
      rw [hstep, hr]
      simp [closeIdx, Errored]
    have hne : (rAt l == eof) = false := by
      have : ¬ rAt l = eof := by
        intro h
        have := (rAt_eof_iff l).1 h
        apply hnil; rw [← hu, ← h1, ← h3]; exact List.drop_eq_nil_of_le this
      simpa using this
    -- advancing over `w` bytes none of which starts a closing delimiter
    have adv : ∀ (l1 : L) (w : Nat), Lex.step l = l1 → In s .multiline (p + w) (qb.toNat : Int) bo l1 → 1 ≤ w →
        w ≤ u.length → Valid (u.drop w) → closeIdx qb u = (closeIdx qb (u.drop w)).map (· + w) →
        ∃ l', Steps l l' ∧ (match closeIdx qb u with
          | some i => Emitted s .MULTILINE_STRING (p + i + 3) l'
          | none => Errored l') := by
      intro l1 w hs1 hin1 hw1 hw2 hvd hci
      obtain ⟨l', hl', hres⟩ := ih (u.drop w).length (by simp; omega) (u.drop w) rfl hvd (p + w) l1
        (drop_add_of_drop hu w) hin1
      refine ⟨l', Steps.step h5 (hs1 ▸ hl'), ?_⟩
      rw [hci]
      exact map_add_emitted hres
    cases hh : headIs qb u with
    | false =>
      obtain ⟨hw1, hw2, hb, hvd⟩ := hq1f hh hnil
      refine adv (nx l) (wAt l) ?_ ⟨h1, h2, by simp [h3], h4, h5, h6, h7, h8, h9, h10, h11⟩ hw1 hw2 hvd
        (closeIdx_skip qb _ u hw2 hb)
      rw [hstep, hne, hq1, hh]; simp
    | true =>
      obtain ⟨r, rfl, hw, hvr⟩ := hq1t hh
      have hul2 : (nx l).input.drop (nx l).pos = r := by
        simp only [nx_input, nx_pos, hw, h1, h3]; exact drop_succ_of_drop hu
      obtain ⟨hq2, hq2t, hq2f⟩ := peekQ (nx l) r qb hqb hul2 hvr
      cases hh2 : headIs qb r with
      | false =>
        refine adv (nx l) 1 ?_ ⟨h1, h2, by simp [h3, hw], h4, h5, h6, h7, h8, h9, h10, h11⟩ (by omega) (by simp)
          (by simpa using hvr) ?_
        · rw [hstep, hne, hq1, hh, hq2, hh2]; simp
        · have : tripleHead qb (qb :: r) = false := by
            cases r with
            | nil => rfl
            | cons c2 r2 => simp [tripleHead, headIs] at hh2 ⊢; simp [hh2]
          simp [closeIdx, this]
      | true =>
        obtain ⟨r2, rfl, hw2, hvr2⟩ := hq2t hh2
        have hul3 : (nx (nx l)).input.drop (nx (nx l)).pos = r2 := by
          simp only [nx_input, nx_pos, hw, hw2, h1, h3]
          exact drop_succ_of_drop (drop_succ_of_drop hu)
        obtain ⟨hq3, hq3t, hq3f⟩ := peekQ (nx (nx l)) r2 qb hqb hul3 hvr2
        cases hh3 : headIs qb r2 with
        | false =>
          refine adv (nx (nx l)) 2 ?_ ⟨h1, h2, by simp [h3, hw, hw2], h4, h5, h6, h7, h8, h9, h10, h11⟩ (by omega)
            (by simp) (by simpa using hvr2) ?_
          · rw [hstep, hne, hq1, hh, hq2, hh2, hq3, hh3]; simp
          · have t1 : tripleHead qb (qb :: qb :: r2) = false := by simp [tripleHead, hh3]
            have t2 : tripleHead qb (qb :: r2) = false := by
              cases r2 with
              | nil => rfl
              | cons c3 r3 => simp [tripleHead, headIs] at hh3 ⊢; simp [hh3]
            simp [closeIdx, t1, t2, Option.map_map]
            congr 1
        | true =>
          refine ⟨Lex.step l, Steps.one h5, ?_⟩
          have t1 : tripleHead qb (qb :: qb :: r2) = true := by simp [tripleHead, hh3]
          simp only [closeIdx, t1, if_true]
          rw [hstep, hne, hq1, hh, hq2, hh2, hq3, hh3]
          simp only [Bool.false_eq_true, if_false, if_true]
          obtain ⟨r3, rfl, hw3, hvr3⟩ := hq3t hh3
          exact ⟨h1, rfl, by simp [h3, hw, hw2, hw3], by simp [h3, hw, hw2, hw3],
            by simp [h1, h3, h4, hw, hw2, hw3, slice], h6, h7, h8⟩


/-! ### one-line strings: the `.str` / `.escape` / `.escDigits` scan -/

/-- the digit loop of `lexEscape`: `n` more digits in `base`, then the range check -/
def lexDigits : Nat → Nat → Nat → Nat → Bytes → Bool
  | 0, _, max, x, _ => !(x > max || (0xD800 ≤ x && x < 0xE000))
  | _+1, _, _, _, [] => false
  | n+1, base, max, x, c :: r =>
    match unhexB c with
    | some d => if d < base then lexDigits n base max (x * base + d) r else false
    | none => false

def simpleEsc (q e : UInt8) : Bool :=
  e == 97 || e == 98 || e == 102 || e == 110 || e == 114 || e == 116 || e == 118 || e == 92 || e == q || e == 0

/-- what `lexString`/`lexEscape` accept from a position inside a one-line literal with quote `q`:
    the number of bytes up to and including the closing quote; none = an error item -/
def lexStr : Nat → UInt8 → Bytes → Option Nat
  | 0, _, _ => none
  | _+1, _, [] => none
  | f+1, q, c :: rest =>
    if c ≥ 0x80 then (lexStr f q ((c :: rest).drop (decodeRune (c :: rest)).2)).map (· + (decodeRune (c :: rest)).2)
    else if c == 92 then
      match rest with
      | [] => none
      | e :: r =>
        if simpleEsc q e then (lexStr f q r).map (· + 2)
        else if 48 ≤ e && e ≤ 55 then
          (if lexDigits 3 8 255 0 (e :: r) then (lexStr f q ((e :: r).drop 3)).map (· + 4) else none)
        else if e == 120 || e == 88 then
          (if lexDigits 2 16 255 0 r then (lexStr f q (r.drop 2)).map (· + 4) else none)
        else if e == 117 then
          (if lexDigits 4 16 0x10FFFF 0 r then (lexStr f q (r.drop 4)).map (· + 6) else none)
        else if e == 85 then
          (if lexDigits 8 16 0x10FFFF 0 r then (lexStr f q (r.drop 8)).map (· + 10) else none)
        else none
    else if c == 10 then none
    else if c == q then some 1
    else (lexStr f q rest).map (· + 1)

set_option maxRecDepth 100000 in
theorem digitVal_ascii_nat : ∀ n : Nat, n < 128 → digitVal (n : Int) = (unhexB (UInt8.ofNat n)).getD 16 := by
  decide

theorem digitVal_ascii (c : UInt8) (hc : c.toNat < 128) : digitVal (c.toNat : Int) = (unhexB c).getD 16 := by
  have := digitVal_ascii_nat c.toNat hc
  simpa using this

theorem digitVal_hi (r : Nat) (h : 0x80 ≤ r) : digitVal (r : Int) = 16 := by
  unfold digitVal
  rw [if_neg (by simp; omega), if_neg (by simp; omega), if_neg (by simp; omega)]

theorem unhexB_hi (c : UInt8) (h : 0x80 ≤ c.toNat) : unhexB c = none := by
  unfold unhexB
  rw [if_neg (by simp [UInt8.le_iff_toNat_le]; omega), if_neg (by simp [UInt8.le_iff_toNat_le]; omega),
    if_neg (by simp [UInt8.le_iff_toNat_le]; omega)]

theorem unhexB_lt (c : UInt8) (d : Nat) (h : unhexB c = some d) : d < 16 := by
  unfold unhexB at h
  simp only [UInt8.le_iff_toNat_le, Bool.and_eq_true, decide_eq_true_eq] at h
  repeat' split at h
  all_goals simp at h
  all_goals (simp at *; omega)


theorem step_escD0_eq (l : L) (base max x : Nat) (ch : Rune) (hs : l.state = .escDigits 0 base max x ch) :
    Lex.step l =
      { (if ch != eof then
          backup (if x > max || (0xD800 ≤ x && x < 0xE000) then errorf l "escape sequence is an invalid Unicode code point" else l)
         else (if x > max || (0xD800 ≤ x && x < 0xE000) then errorf l "escape sequence is an invalid Unicode code point" else l))
        with state := .str } := by
  simp only [Lex.step, hs]

theorem step_escDS_eq (l : L) (n base max x : Nat) (ch : Rune) (hs : l.state = .escDigits (n+1) base max x ch) :
    Lex.step l =
      if digitVal ch ≥ base then
        { errorf l (if ch == eof then "escape sequence not terminated" else "illegal character in escape sequence") with state := .str }
      else { nx l with state := .escDigits n base max (x * base + digitVal ch) (rAt l) } := by
  simp only [Lex.step, hs, next_eq']

/-- inside the digit loop; the look-ahead rune was read at `p0` -/
structure InD (s : Bytes) (n base max x : Nat) (p0 : Nat) (q : Rune) (l : L) : Prop where
  input : l.input = s
  state : l.state = .escDigits n base max x (runeAt s p0).1
  pos : l.pos = p0 + (runeAt s p0).2
  width : l.width = (runeAt s p0).2
  start : l.start = 0
  item : l.item = none
  paren : l.paren = 0
  brace : l.brace = 0
  bracket : l.bracket = 0
  so : l.stringOpen = q
  bo : l.backquoteOpen = 0
  pend : l.pendErr = false

theorem digits_scan (s : Bytes) (q : Rune) (base max : Nat) (hb : base ≤ 16) : ∀ (n x : Nat) (u : Bytes), Valid u →
    ∀ (p0 : Nat) (l : L), s.drop p0 = u → InD s n base max x p0 q l →
    ∃ l', Steps l l' ∧ (if lexDigits n base max x u then In s .str (p0 + n) q 0 l' ∧ n ≤ u.length ∧ Valid (u.drop n)
      else Errored l') := by
  intro n
  induction n with
  | zero =>
    intro x u hv p0 l hu hin
    obtain ⟨h1, h2, h3, hwd, h4, h5, h6, h7, h8, h9, h10, h11⟩ := hin
    have hstep := step_escD0_eq l base max x _ h2
    refine ⟨Lex.step l, Steps.one h5, ?_⟩
    by_cases hbad : (decide (x > max) || (decide (0xD800 ≤ x) && decide (x < 0xE000))) = true
    · rw [if_neg (by simp only [lexDigits, hbad]; simp)]
      rw [hstep, if_pos hbad]
      split <;> exact ⟨_, rfl, rfl⟩
    · have hbad' : (decide (x > max) || (decide (0xD800 ≤ x) && decide (x < 0xE000))) = false := by
        simpa using hbad
      rw [if_pos (by simp only [lexDigits, hbad']; simp)]
      rw [hstep, if_neg hbad]
      refine ⟨?_, by simp, by simpa using hv⟩
      by_cases he : (runeAt s p0).1 = eof
      · have hw0 := runeAt_width_of_eof s p0 he
        rw [he]
        simp only [bne_self_eq_false, Bool.false_eq_true, if_false]
        exact ⟨h1, rfl, by simp [h3, hw0], h4, h5, h6, h7, h8, h9, h10, h11⟩
      · rw [if_pos (by simpa using he)]
        exact ⟨h1, rfl, by simp [h3, hwd], h4, h5, h6, h7, h8, h9, h10, h11⟩
  | succ n ih =>
    intro x u hv p0 l hu hin
    obtain ⟨h1, h2, h3, hwd, h4, h5, h6, h7, h8, h9, h10, h11⟩ := hin
    have hstep := step_escDS_eq l n base max x _ h2
    have herr : digitVal (runeAt s p0).1 ≥ base → Errored (Lex.step l) := by
      intro h
      rw [hstep, if_pos h]
      exact ⟨_, rfl, rfl⟩
    rcases runeAt_cases s p0 u hu hv with ⟨rfl, hr, hw⟩ |
      ⟨c, r, rfl, hc, hr, hw, hvr⟩ | ⟨w, r, hw1, hw2, hw3, hw, hr, hr1, hr2, hr3, hbs, _, hvr⟩
    · refine ⟨Lex.step l, Steps.one h5, ?_⟩
      simp only [lexDigits, Bool.false_eq_true, if_false]
      apply herr; rw [hr, digitVal_eof]; omega
    · have hdv := digitVal_ascii c hc
      cases hx : unhexB c with
      | none =>
        refine ⟨Lex.step l, Steps.one h5, ?_⟩
        simp only [lexDigits, hx, Bool.false_eq_true, if_false]
        apply herr; rw [hr, hdv, hx]; simp; omega
      | some d =>
        by_cases hd : d < base
        · have hdv' : digitVal (runeAt s p0).1 = d := by rw [hr, hdv, hx]; rfl
          have hs' : Lex.step l = { nx l with state := .escDigits n base max (x * base + d) (rAt l) } := by
            rw [hstep, if_neg (by omega), hdv']
          have hpos : l.pos = p0 + 1 := by rw [h3, hw]
          have hrl : rAt l = (runeAt s (p0 + 1)).1 := by simp [rAt, h1, hpos]
          have hwl : wAt l = (runeAt s (p0 + 1)).2 := by simp [wAt, h1, hpos]
          obtain ⟨l', hl', hres⟩ := ih (x * base + d) r hvr (p0 + 1)
            { nx l with state := .escDigits n base max (x * base + d) (rAt l) } (drop_succ_of_drop hu)
            ⟨h1, by simp [hrl], by simp [hpos, hwl], by simp [hwl], h4, h5, h6, h7, h8, h9, h10, h11⟩
          refine ⟨l', Steps.step h5 (hs' ▸ hl'), ?_⟩
          simp only [lexDigits, hx, hd, if_true]
          split
          · rename_i ht
            rw [if_pos ht] at hres
            have : p0 + (n + 1) = p0 + 1 + n := by omega
            rw [this]
            exact ⟨hres.1, by simp; omega, by simpa using hres.2.2⟩
          · rename_i ht
            rw [if_neg ht] at hres
            exact hres
        · refine ⟨Lex.step l, Steps.one h5, ?_⟩
          simp only [lexDigits, hx, hd, Bool.false_eq_true, if_false]
          apply herr; rw [hr, hdv, hx]; simp; omega
    · refine ⟨Lex.step l, Steps.one h5, ?_⟩
      have hne : u ≠ [] := by intro h; subst h; simp at hw3; omega
      obtain ⟨c, r', rfl⟩ := List.exists_cons_of_ne_nil hne
      have hc : 0x80 ≤ c.toNat := hbs c (by
        obtain ⟨w', rfl⟩ := Nat.exists_eq_succ_of_ne_zero (by omega : w ≠ 0)
        simp)
      simp only [lexDigits, unhexB_hi c hc, Bool.false_eq_true, if_false]
      apply herr; rw [hr, digitVal_hi r hr1]; omega


theorem step_str_eq (l : L) (hs : l.state = .str) (hp : l.pendErr = false) : Lex.step l =
    if rAt l == 92 then { nx l with state := .escape }
    else if rAt l == Lex.runeError && wAt l == 1 then { nx l with pendErr := true }
    else if rAt l == eof || rAt l == 10 then
      { errorf (nx l) "unterminated quoted string" with state := .done, pendErr := false }
    else if rAt l == l.stringOpen then { emit (nx l) .STRING with state := .statements, pendErr := false }
    else nx l := by
  simp only [Lex.step, hs, next_eq', hp, nx_width, Bool.false_eq_true, if_false]

theorem step_escape_eq (l : L) (hs : l.state = .escape) : Lex.step l =
    if (rAt l == 97 || rAt l == 98 || rAt l == 102 || rAt l == 110 || rAt l == 114 || rAt l == 116 ||
        rAt l == 118 || rAt l == 92 || rAt l == l.stringOpen || rAt l == l.backquoteOpen) then
      { nx l with state := .str }
    else if 48 ≤ rAt l && rAt l ≤ 55 then { nx l with state := .escDigits 3 8 255 0 (rAt l) }
    else if rAt l == 120 || rAt l == 88 then { nx (nx l) with state := .escDigits 2 16 255 0 (rAt (nx l)) }
    else if rAt l == 117 then { nx (nx l) with state := .escDigits 4 16 0x10FFFF 0 (rAt (nx l)) }
    else if rAt l == 85 then { nx (nx l) with state := .escDigits 8 16 0x10FFFF 0 (rAt (nx l)) }
    else if rAt l == eof then { errorf (nx l) "escape sequence not terminated" with state := .str }
    else { errorf (nx l) "unknown escape sequence" with state := .str } := by
  simp only [Lex.step, hs, next_eq']

theorem simple_byte (e qb : UInt8) :
    ((e.toNat : Int) == 97 || (e.toNat : Int) == 98 || (e.toNat : Int) == 102 || (e.toNat : Int) == 110 ||
      (e.toNat : Int) == 114 || (e.toNat : Int) == 116 || (e.toNat : Int) == 118 || (e.toNat : Int) == 92 ||
      (e.toNat : Int) == (qb.toNat : Int) || (e.toNat : Int) == 0) = simpleEsc qb e := by
  rw [Bool.eq_iff_iff]
  simp [simpleEsc, ← UInt8.toNat_inj]
  omega

theorem byte_beq (e : UInt8) (k : UInt8) : ((e.toNat : Int) == (k.toNat : Int)) = (e == k) := by
  rw [Bool.eq_iff_iff]
  simp [← UInt8.toNat_inj]
  omega

theorem x_byte (e : UInt8) : ((e.toNat : Int) == 120 || (e.toNat : Int) == 88) = (e == 120 || e == 88) := by
  rw [Bool.eq_iff_iff]
  simp [← UInt8.toNat_inj]
  omega

theorem u_byte (e : UInt8) : ((e.toNat : Int) == 117) = (e == 117) := by
  rw [Bool.eq_iff_iff]
  simp [← UInt8.toNat_inj]
  omega

theorem U_byte (e : UInt8) : ((e.toNat : Int) == 85) = (e == 85) := by
  rw [Bool.eq_iff_iff]
  simp [← UInt8.toNat_inj]
  omega

theorem oct_byte (e : UInt8) : (decide (48 ≤ (e.toNat : Int)) && decide ((e.toNat : Int) ≤ 55)) = (decide (48 ≤ e) && decide (e ≤ 55)) := by
  rw [Bool.eq_iff_iff]
  simp [UInt8.le_iff_toNat_le]
  omega


theorem wAt_eq_decode (l : L) (u : Bytes) (hu : l.input.drop l.pos = u) (hne : u ≠ []) :
    wAt l = (decodeRune u).2 := by
  have := runeAt_of_drop l.input l.pos u hu
  rw [if_neg hne] at this
  simp [wAt, this]

theorem simpleEsc_hi (qb e : UInt8) (hq : qb.toNat < 0x80) (he : 0x80 ≤ e.toNat) : simpleEsc qb e = false := by
  simp [simpleEsc, ← UInt8.toNat_inj]
  omega

theorem str_scan (s : Bytes) (qb : UInt8) (hq : qb = 34 ∨ qb = 39) : ∀ (n : Nat) (u : Bytes), u.length = n → Valid u →
    ∀ (f : Nat), n < f → ∀ (p : Nat) (l : L), s.drop p = u → In s .str p (qb.toNat : Int) 0 l →
    ∃ l', Steps l l' ∧ (match lexStr f qb u with
      | some k => Emitted s .STRING (p + k) l'
      | none => Errored l') := by
  intro n
  induction n using Nat.strongRecOn with
  | _ n ih =>
    intro u hn hv f hf p l hu hin
    obtain ⟨f, rfl⟩ : ∃ f', f = f' + 1 := ⟨f - 1, by omega⟩
    obtain ⟨h1, h2, h3, h4, h5, h6, h7, h8, h9, h10, h11⟩ := hin
    have hstep := step_str_eq l h2 h11
    have hqn : qb.toNat = 34 ∨ qb.toNat = 39 := by rcases hq with rfl | rfl <;> simp
    have hul : l.input.drop l.pos = u := by rw [h1, h3]; exact hu
    -- continuing the scan from a later position
    have cont : ∀ (l1 : L) (k : Nat) (u1 : Bytes), Steps l l1 → In s .str (p + k) (qb.toNat : Int) 0 l1 →
        s.drop (p + k) = u1 → u1.length < n → Valid u1 →
        ∃ l', Steps l l' ∧ (match (lexStr f qb u1).map (· + k) with
          | some j => Emitted s .STRING (p + j) l'
          | none => Errored l') := by
      intro l1 k u1 hst hin1 hu1 hlen hv1
      obtain ⟨l', hl', hres⟩ := ih u1.length hlen u1 rfl hv1 f (by omega) (p + k) l1 hu1 hin1
      refine ⟨l', hst.trans hl', ?_⟩
      cases hls : lexStr f qb u1 with
      | none => rw [hls] at hres; exact hres
      | some j =>
        rw [hls] at hres
        simp only [Option.map_some]
        have : p + (j + k) = p + k + j := by omega
        rw [this]; exact hres
    rcases rw_cases l u hul hv with ⟨rfl, hr, hw⟩ |
      ⟨c, r, rfl, hc, hr, hw, hvr⟩ | ⟨w, r, hw1, hw2, hw3, hw, hr, hr1, hr2, hr3, hbs, _, hvr⟩
    · refine ⟨Lex.step l, Steps.one h5, ?_⟩
      rw [hstep, hr]
      simp [lexStr, eof, Lex.runeError, Errored]
    · -- an ASCII byte
      have hqlt : qb.toNat < 0x80 := by omega
      by_cases hc92 : c = 92
      · subst hc92
        have hs1 : Lex.step l = { nx l with state := .escape } := by rw [hstep, hr]; simp
        generalize hl1def : ({ nx l with state := .escape } : L) = l1 at hs1
        have e1 : l1.input = s := by subst hl1def; exact h1
        have e2 : l1.pos = p + 1 := by subst hl1def; simp [h3, hw]
        have e3 : l1.state = .escape := by subst hl1def; rfl
        have e4 : l1.start = 0 := by subst hl1def; exact h4
        have e5 : l1.item = none := by subst hl1def; exact h5
        have e6 : l1.paren = 0 := by subst hl1def; exact h6
        have e7 : l1.brace = 0 := by subst hl1def; exact h7
        have e8 : l1.bracket = 0 := by subst hl1def; exact h8
        have e9 : l1.stringOpen = (qb.toNat : Int) := by subst hl1def; exact h9
        have e10 : l1.backquoteOpen = 0 := by subst hl1def; exact h10
        have e11 : l1.pendErr = false := by subst hl1def; exact h11
        have hl1 : Steps l l1 := hs1 ▸ Steps.one h5
        have hstep1 := step_escape_eq l1 e3
        have hul1 : l1.input.drop l1.pos = r := by rw [e1, e2]; exact drop_succ_of_drop hu
        have hra : rAt l1 = (runeAt s (p + 1)).1 := by unfold rAt; rw [e1, e2]
        have hwa : wAt l1 = (runeAt s (p + 1)).2 := by unfold wAt; rw [e1, e2]
        -- the digit loop followed by the rest of the scan
        have digs : ∀ (l2 : L) (nd base max p0 k : Nat) (ud : Bytes), base ≤ 16 → Lex.step l1 = l2 →
            InD s nd base max 0 p0 (qb.toNat : Int) l2 → s.drop p0 = ud → Valid ud → ud.length < n →
            p0 + nd = p + k →
            ∃ l', Steps l l' ∧ (match (if lexDigits nd base max 0 ud then (lexStr f qb (ud.drop nd)).map (· + k) else none) with
              | some j => Emitted s .STRING (p + j) l'
              | none => Errored l') := by
          intro l2 nd base max p0 k ud hb hs2 hind hud hvd hlen hpk
          obtain ⟨l3, hl3, hres⟩ := digits_scan s (qb.toNat : Int) base max hb nd 0 ud hvd p0 l2 hud hind
          have hl13 : Steps l l3 := hl1.trans (Steps.step e5 (hs2 ▸ hl3))
          by_cases hld : lexDigits nd base max 0 ud = true
          · rw [if_pos hld] at hres ⊢
            obtain ⟨hin3, hnd, hvd3⟩ := hres
            rw [hpk] at hin3
            exact cont l3 k (ud.drop nd) hl13 hin3 (by rw [← hpk]; exact drop_add_of_drop hud nd)
              (by simp; omega) hvd3
          · rw [if_neg hld] at hres ⊢
            exact ⟨l3, hl13, hres⟩
        rcases rw_cases l1 r hul1 hvr with ⟨rfl, hr1, hw1⟩ |
          ⟨e, r2, rfl, he, hr1, hw1, hvr2⟩ | ⟨w, rr, hw1, hw2, hw3, hww, hr1, hrr1, hrr2, hrr3, hbs, _, hvr2⟩
        · refine ⟨Lex.step l1, hl1.trans (Steps.one e5), ?_⟩
          have hqe : ¬ ((-1 : Int) = (qb.toNat : Int)) := by omega
          rw [hstep1, hr1, e9, e10]
          simp [lexStr, eof, Errored, hqe]
        · have hpos2 : (nx l1).pos = p + 2 := by simp [e2, hw1]
          have hr2 : rAt (nx l1) = (runeAt s (p + 2)).1 := by
            show (runeAt (nx l1).input (nx l1).pos).1 = _
            rw [nx_input, nx_pos, e1, e2, hw1]
          have hw2 : wAt (nx l1) = (runeAt s (p + 2)).2 := by
            show (runeAt (nx l1).input (nx l1).pos).2 = _
            rw [nx_input, nx_pos, e1, e2, hw1]
          have hdrop2 : s.drop (p + 2) = r2 := drop_succ_of_drop (drop_succ_of_drop hu)
          have hlen2 : r2.length < n := by simp at hn; omega
          rw [hr1, e9, e10, simple_byte e qb, oct_byte e, x_byte e, u_byte e, U_byte e] at hstep1
          by_cases hsimp : simpleEsc qb e = true
          · have hls : lexStr (f + 1) qb (92 :: e :: r2) = (lexStr f qb r2).map (· + 2) := by
              simp [lexStr, hsimp]
            rw [hls]
            rw [if_pos hsimp] at hstep1
            refine cont (Lex.step l1) 2 r2 (hl1.trans (Steps.one e5)) ?_ hdrop2 hlen2 hvr2
            rw [hstep1]
            exact ⟨e1, rfl, hpos2, e4, e5, e6, e7, e8, e9, e10, e11⟩
          rw [if_neg hsimp] at hstep1
          by_cases hoct : (decide (48 ≤ e) && decide (e ≤ 55)) = true
          · have hls : lexStr (f + 1) qb (92 :: e :: r2) =
                if lexDigits 3 8 255 0 (e :: r2) then (lexStr f qb ((e :: r2).drop 3)).map (· + 4) else none := by
              simp [lexStr, hsimp, hoct]
            rw [hls]
            rw [if_pos hoct] at hstep1
            refine digs _ 3 8 255 (p + 1) 4 (e :: r2) (by omega) hstep1 ?_ (drop_succ_of_drop hu) hvr
              (by simp at hn ⊢; omega) (by omega)
            refine ⟨e1, ?_, ?_, ?_, e4, e5, e6, e7, e8, e9, e10, e11⟩
            · show LState.escDigits 3 8 255 0 (e.toNat : Int) = _
              rw [← hr1, hra]
            · show (nx l1).pos = _
              rw [nx_pos, e2, hwa]
            · show (nx l1).width = _
              rw [nx_width, hwa]
          rw [if_neg hoct] at hstep1
          have hind2 : ∀ nd max, InD s nd 16 max 0 (p + 2) (qb.toNat : Int)
              { nx (nx l1) with state := .escDigits nd 16 max 0 (rAt (nx l1)) } := by
            intro nd max
            refine ⟨e1, ?_, ?_, ?_, e4, e5, e6, e7, e8, e9, e10, e11⟩
            · show LState.escDigits nd 16 max 0 (rAt (nx l1)) = _
              rw [hr2]
            · show (nx (nx l1)).pos = _
              rw [nx_pos, hpos2, hw2]
            · show (nx (nx l1)).width = _
              rw [nx_width, hw2]
          by_cases hx : (e == 120 || e == 88) = true
          · have hls : lexStr (f + 1) qb (92 :: e :: r2) =
                if lexDigits 2 16 255 0 r2 then (lexStr f qb (r2.drop 2)).map (· + 4) else none := by
              simp only [lexStr]
              rw [if_neg (by decide), if_pos (by decide), if_neg hsimp, if_neg hoct, if_pos hx]
            rw [hls]
            rw [if_pos hx] at hstep1
            exact digs _ 2 16 255 (p + 2) 4 r2 (by omega) hstep1 (hind2 _ _) hdrop2 hvr2 hlen2 (by omega)
          rw [if_neg hx] at hstep1
          by_cases hu4 : (e == 117) = true
          · have hls : lexStr (f + 1) qb (92 :: e :: r2) =
                if lexDigits 4 16 0x10FFFF 0 r2 then (lexStr f qb (r2.drop 4)).map (· + 6) else none := by
              simp only [lexStr]
              rw [if_neg (by decide), if_pos (by decide), if_neg hsimp, if_neg hoct, if_neg hx, if_pos hu4]
            rw [hls]
            rw [if_pos hu4] at hstep1
            exact digs _ 4 16 0x10FFFF (p + 2) 6 r2 (by omega) hstep1 (hind2 _ _) hdrop2 hvr2 hlen2 (by omega)
          rw [if_neg hu4] at hstep1
          by_cases hu8 : (e == 85) = true
          · have hls : lexStr (f + 1) qb (92 :: e :: r2) =
                if lexDigits 8 16 0x10FFFF 0 r2 then (lexStr f qb (r2.drop 8)).map (· + 10) else none := by
              simp only [lexStr]
              rw [if_neg (by decide), if_pos (by decide), if_neg hsimp, if_neg hoct, if_neg hx, if_neg hu4,
                if_pos hu8]
            rw [hls]
            rw [if_pos hu8] at hstep1
            exact digs _ 8 16 0x10FFFF (p + 2) 10 r2 (by omega) hstep1 (hind2 _ _) hdrop2 hvr2 hlen2 (by omega)
          rw [if_neg hu8] at hstep1
          have hls : lexStr (f + 1) qb (92 :: e :: r2) = none := by
            simp only [lexStr]
            rw [if_neg (by decide), if_pos (by decide), if_neg hsimp, if_neg hoct, if_neg hx, if_neg hu4,
              if_neg hu8]
          rw [hls]
          refine ⟨Lex.step l1, hl1.trans (Steps.one e5), ?_⟩
          show Errored (Lex.step l1)
          rw [hstep1]
          split <;> exact ⟨_, rfl, rfl⟩
        · -- a multi-byte rune after the backslash
          have hne : r ≠ [] := by intro h; subst h; simp at hw3; omega
          obtain ⟨e, r2, rfl⟩ := List.exists_cons_of_ne_nil hne
          have he : 0x80 ≤ e.toNat := hbs e (by
            obtain ⟨w', rfl⟩ := Nat.exists_eq_succ_of_ne_zero (by omega : w ≠ 0)
            simp)
          have hls : lexStr (f + 1) qb (92 :: e :: r2) = none := by
            simp only [lexStr]
            rw [if_neg (by decide), if_pos (by decide), if_neg (by rw [simpleEsc_hi qb e hqlt he]; simp),
              if_neg (by simp [UInt8.le_iff_toNat_le]; omega), if_neg (by simp [← UInt8.toNat_inj]; omega),
              if_neg (by simp [← UInt8.toNat_inj]; omega), if_neg (by simp [← UInt8.toNat_inj]; omega)]
          rw [hls]
          refine ⟨Lex.step l1, hl1.trans (Steps.one e5), ?_⟩
          show Errored (Lex.step l1)
          rw [hstep1, hr1, e9, e10]
          rw [if_neg (by simp; romega), if_neg (by simp; romega), if_neg (by simp; romega),
            if_neg (by simp; romega), if_neg (by simp; romega)]
          split <;> exact ⟨_, rfl, rfl⟩
      · have hc92n : c.toNat ≠ 92 := by
          intro h; apply hc92; apply UInt8.toNat_inj.1; simp [h]
        have hls : lexStr (f + 1) qb (c :: r) =
            if c == 10 then none else if c == qb then some 1 else (lexStr f qb r).map (· + 1) := by
          simp only [lexStr]
          rw [if_neg (by simp [UInt8.le_iff_toNat_le]; omega), if_neg (by simp [hc92])]
        rw [hls]
        rw [hr, if_neg (by simp; romega), if_neg (by simp [Lex.runeError]; romega), h9] at hstep
        by_cases hc10 : c = 10
        · subst hc10
          refine ⟨Lex.step l, Steps.one h5, ?_⟩
          rw [if_pos (by decide)]
          show Errored (Lex.step l)
          rw [hstep, if_pos (by decide)]
          exact ⟨_, rfl, rfl⟩
        have hc10n : c.toNat ≠ 10 := by
          intro h; apply hc10; apply UInt8.toNat_inj.1; simp [h]
        rw [if_neg (by simp [eof]; romega)] at hstep
        rw [if_neg (by simp [hc10])]
        by_cases hcq : c = qb
        · subst hcq
          refine ⟨Lex.step l, Steps.one h5, ?_⟩
          rw [if_pos (by simp)]
          show Emitted s .STRING (p + 1) (Lex.step l)
          rw [hstep, if_pos (by simp)]
          exact ⟨h1, rfl, by simp [h3, hw], by simp [h3, hw], by simp [h1, h3, h4, hw, slice], h6, h7, h8⟩
        have hcqn : c.toNat ≠ qb.toNat := by
          intro h; apply hcq; exact UInt8.toNat_inj.1 h
        rw [if_neg (by simp; romega)] at hstep
        rw [if_neg (by simp [hcq])]
        exact cont (Lex.step l) 1 r (Steps.one h5)
          (by rw [hstep]; exact ⟨h1, h2, by simp [h3, hw], h4, h5, h6, h7, h8, h9, h10, h11⟩)
          (drop_succ_of_drop hu) (by simp at hn; omega) hvr
    · have hne : u ≠ [] := by intro h; subst h; simp at hw3; omega
      obtain ⟨c, r', rfl⟩ := List.exists_cons_of_ne_nil hne
      have hc : 0x80 ≤ c.toNat := hbs c (by
        obtain ⟨w', rfl⟩ := Nat.exists_eq_succ_of_ne_zero (by omega : w ≠ 0)
        simp)
      have hwd := wAt_eq_decode l _ hul hne
      have hls : lexStr (f + 1) qb (c :: r') = (lexStr f qb ((c :: r').drop w)).map (· + w) := by
        simp only [lexStr]
        rw [if_pos (by simp [UInt8.le_iff_toNat_le]; omega), ← hwd, hw]
      rw [hls]
      have hin1 : In s .str (p + w) (qb.toNat : Int) 0 (Lex.step l) := by
        rw [hstep, hr, if_neg (by simp; romega), if_neg (by simp [hw]; omega), if_neg (by simp [eof]; romega), h9,
          if_neg (by simp; romega)]
        exact ⟨h1, h2, by simp [h3, hw], h4, h5, h6, h7, h8, h9, h10, h11⟩
      exact cont (Lex.step l) w _ (Steps.one h5) hin1 (drop_add_of_drop hu w) (by simp at hn ⊢; omega) hvr


/-! ### the first item of a string-shaped spelling -/

/-- type and length of the first token, none = an error item -/
def firstTok (s : Bytes) : Option (Tok × Nat) :=
  match s with
  | [] => none
  | q :: r0 =>
    if q == 96 then (findB 96 r0).map fun i => (Tok.QUOTED_STRING, i + 2)
    else if headIs q r0 then
      (if headIs q (r0.drop 1) then (closeIdx q (r0.drop 2)).map fun i => (Tok.MULTILINE_STRING, i + 6)
       else some (Tok.STRING, 2))
    else (lexStr (r0.length + 1) q r0).map fun k => (Tok.STRING, k + 1)

theorem peekEq (l : L) (u : Bytes) (qb : UInt8) (hq : qb.toNat < 0x80) (hu : l.input.drop l.pos = u) (hv : Valid u) :
    (rAt l == (qb.toNat : Int)) = headIs qb u ∧
    (headIs qb u = true → ∃ r, u = qb :: r ∧ wAt l = 1 ∧ Valid r) := by
  rcases rw_cases l u hu hv with ⟨rfl, hr, hw⟩ |
      ⟨c, r, rfl, hc, hr, hw, hvr⟩ | ⟨w, r, hw1, hw2, hw3, hw, hr, hr1, hr2, hr3, hb, _, hvr⟩
  · refine ⟨?_, by simp [headIs]⟩
    rw [hr]; simp [headIs, eof]
  · refine ⟨?_, ?_⟩
    · rw [hr]; simp only [headIs]
      rw [Bool.eq_iff_iff]; simp [← UInt8.toNat_inj]; romega
    · intro h
      simp only [headIs, beq_iff_eq] at h
      exact ⟨r, by rw [h], hw, hvr⟩
  · have hne : u ≠ [] := by intro h; subst h; simp at hw3; omega
    obtain ⟨c, r', rfl⟩ := List.exists_cons_of_ne_nil hne
    have hc : 0x80 ≤ c.toNat := hb c (by
      obtain ⟨w', rfl⟩ := Nat.exists_eq_succ_of_ne_zero (by omega : w ≠ 0)
      simp)
    have hcq : (c == qb) = false := by simp [← UInt8.toNat_inj]; omega
    refine ⟨?_, by simp [headIs, hcq]⟩
    rw [hr]; simp only [headIs, hcq]
    simp; romega

theorem first_item (s : Bytes) (hv : Valid s) (c0 : UInt8) (r0 : Bytes) (hs : s = c0 :: r0)
    (hq : c0 = 34 ∨ c0 = 39 ∨ c0 = 96) :
    ∃ l', Steps (Lex.step { input := s }) l' ∧ (match firstTok s with
      | some (t, p) => Emitted s t p l'
      | none => Errored l') := by
  generalize hl0 : ({ input := s } : L) = l0
  have e1 : l0.input = s := by subst hl0; rfl
  have e2 : l0.pos = 0 := by subst hl0; rfl
  have e3 : l0.state = .statements := by subst hl0; rfl
  have e4 : l0.start = 0 := by subst hl0; rfl
  have e5 : l0.item = none := by subst hl0; rfl
  have e6 : l0.paren = 0 := by subst hl0; rfl
  have e7 : l0.brace = 0 := by subst hl0; rfl
  have e8 : l0.bracket = 0 := by subst hl0; rfl
  have e9 : l0.stringOpen = 0 := by subst hl0; rfl
  have e10 : l0.backquoteOpen = 0 := by subst hl0; rfl
  have e11 : l0.pendErr = false := by subst hl0; rfl
  have hc0 : c0.toNat = 34 ∨ c0.toNat = 39 ∨ c0.toNat = 96 := by
    rcases hq with rfl | rfl | rfl <;> simp
  have hpre : hasPrefixAt l0.input l0.pos 35 = false := by
    rw [e1, e2, hs]
    simp [hasPrefixAt, ← UInt8.toNat_inj]; omega
  have hul : l0.input.drop l0.pos = c0 :: r0 := by rw [e1, e2, hs]; rfl
  rw [hs] at hv
  rcases rw_cases l0 (c0 :: r0) hul hv with ⟨h, _, _⟩ |
      ⟨c, r, hcr, hc, hr, hw, hvr⟩ | ⟨w, r, hw1, hw2, hw3, hw, hr, hr1, hr2, hr3, hb, _, hvr⟩
  · cases h
  · injection hcr with hcc hrr
    subst hcc hrr
    have hd1 : s.drop 1 = r0 := by rw [hs]; rfl
    have hp1 : (nx l0).pos = 1 := by simp [e2, hw]
    by_cases h96 : c0 = 96
    · subst h96
      have hstep := step_stmt_bq l0 e3 hpre (by rw [hr]; rfl)
      have hin : In s .rawString 1 0 96 (Lex.step l0) := by
        rw [hstep]; exact ⟨e1, rfl, hp1, e4, e5, e6, e7, e8, e9, rfl, e11⟩
      obtain ⟨l', hl', hres⟩ := raw_scan s 0 r0.length r0 rfl hvr 1 _ hd1 hin
      refine ⟨l', hl', ?_⟩
      rw [hs]
      simp only [firstTok, beq_self_eq_true, if_true]
      cases hf : findB 96 r0 with
      | none => rw [hf] at hres; exact hres
      | some i =>
        rw [hf] at hres
        simp only [Option.map_some]
        have : i + 2 = 1 + i + 1 := by omega
        rw [this, ← hs]; exact hres
    · have hq' : c0 = 34 ∨ c0 = 39 := by
        rcases hq with h | h | h
        · exact Or.inl h
        · exact Or.inr h
        · exact absurd h h96
      have hqn : (c0.toNat : Int) = 34 ∨ (c0.toNat : Int) = 39 := by
        rcases hq' with rfl | rfl <;> simp
      have hqlt : c0.toNat < 0x80 := hc
      have hstep := step_stmt_q l0 (c0.toNat : Int) hqn e3 hpre hr
      have hul1 : (nx l0).input.drop (nx l0).pos = r0 := by rw [nx_input, e1, hp1]; exact hd1
      obtain ⟨hpk1, hpk1t⟩ := peekEq (nx l0) r0 c0 hqlt hul1 hvr
      have hft : firstTok s = if headIs c0 r0 then
          (if headIs c0 (r0.drop 1) then (closeIdx c0 (r0.drop 2)).map fun i => (Tok.MULTILINE_STRING, i + 6)
           else some (Tok.STRING, 2))
          else (lexStr (r0.length + 1) c0 r0).map fun k => (Tok.STRING, k + 1) := by
        rw [hs]; simp only [firstTok]; rw [if_neg (by simp [h96])]
      rw [hft]
      rw [hpk1] at hstep
      cases hh1 : headIs c0 r0 with
      | false =>
        rw [hh1] at hstep
        simp only [Bool.false_eq_true, if_false] at hstep ⊢
        have hin : In s .str 1 (c0.toNat : Int) 0 (Lex.step l0) := by
          rw [hstep]; exact ⟨e1, rfl, hp1, e4, e5, e6, e7, e8, rfl, e10, e11⟩
        obtain ⟨l', hl', hres⟩ := str_scan s c0 hq' r0.length r0 rfl hvr (r0.length + 1) (by omega) 1 _ hd1 hin
        refine ⟨l', hl', ?_⟩
        cases hf : lexStr (r0.length + 1) c0 r0 with
        | none => rw [hf] at hres; exact hres
        | some k =>
          rw [hf] at hres
          simp only [Option.map_some]
          have : k + 1 = 1 + k := by omega
          rw [this]; exact hres
      | true =>
        obtain ⟨r1, rfl, hw1, hvr1⟩ := hpk1t hh1
        rw [hh1] at hstep
        simp only [if_true] at hstep ⊢
        have hp2 : (nx (nx l0)).pos = 2 := by simp [e2, hw, hw1]
        have hd2 : s.drop 2 = r1 := by rw [hs]; rfl
        have hul2 : (nx (nx l0)).input.drop (nx (nx l0)).pos = r1 := by
          rw [nx_input, nx_input, e1, hp2]; exact hd2
        obtain ⟨hpk2, hpk2t⟩ := peekEq (nx (nx l0)) r1 c0 hqlt hul2 hvr1
        rw [hpk2] at hstep
        simp only [List.drop_succ_cons, List.drop_zero]
        cases hh2 : headIs c0 r1 with
        | false =>
          rw [hh2] at hstep
          simp only [Bool.false_eq_true, if_false] at hstep ⊢
          refine ⟨Lex.step l0, Steps.refl _, ?_⟩
          rw [hstep]
          exact ⟨e1, e3, hp2, hp2, by simp [e1, e2, e4, hw, hw1, slice], e6, e7, e8⟩
        | true =>
          obtain ⟨r2, rfl, hw2, hvr2⟩ := hpk2t hh2
          rw [hh2] at hstep
          simp only [if_true] at hstep ⊢
          have hp3 : (nx (nx (nx l0))).pos = 3 := by simp [e2, hw, hw1, hw2]
          have hd3 : s.drop 3 = r2 := by rw [hs]; rfl
          have hin : In s .multiline 3 (c0.toNat : Int) 0 (Lex.step l0) := by
            rw [hstep]; exact ⟨e1, rfl, hp3, e4, e5, e6, e7, e8, rfl, e10, e11⟩
          obtain ⟨l', hl', hres⟩ := ml_scan s c0 hqlt 0 r2.length r2 rfl hvr2 3 _ hd3 hin
          refine ⟨l', hl', ?_⟩
          simp only [List.drop_succ_cons, List.drop_zero]
          cases hf : closeIdx c0 r2 with
          | none => rw [hf] at hres; exact hres
          | some i =>
            rw [hf] at hres
            simp only [Option.map_some]
            have : i + 6 = 3 + i + 3 := by omega
            rw [this]; exact hres
  · exfalso
    have := hb c0 (by
      obtain ⟨w', rfl⟩ := Nat.exists_eq_succ_of_ne_zero (by omega : w ≠ 0)
      simp)
    omega


/-! ### the item stream -/

theorem with_item_none (l : L) (h : l.item = none) : { l with item := none } = l := by
  cases l; simp at h; subst h; rfl

theorem loop_of_isSome (f : Nat) (l : L) (h : l.item.isSome = true) : nextItemLoop f l = l := by
  cases f <;> simp [nextItemLoop, h]

theorem nextItem_unfold (l : L) (hst : l.state ≠ .done) :
    nextItem l =
      ((nextItemLoop (4 * (l.input.length - l.pos) + 16) (Lex.step { l with item := none })).item.getD
        ⟨.ERROR, (nextItemLoop (4 * (l.input.length - l.pos) + 16) (Lex.step { l with item := none })).start,
          "fuel".toUTF8.toList⟩,
       nextItemLoop (4 * (l.input.length - l.pos) + 16) (Lex.step { l with item := none })) := by
  unfold nextItem
  simp only
  rw [if_neg hst]

theorem nextItem_eq (input : Bytes) (l : L) (hi : l.input = input) (hst : l.state = .statements)
    (hitem : l.item = none) (hsp : l.start = l.pos) (hp : l.pos ≤ input.length) (l' : L) (it : Item)
    (h : Steps (Lex.step l) l') (hs : l'.item = some it) : nextItem l = (it, l') := by
  obtain ⟨⟨_, it', hit', _⟩, h2⟩ := nextItem_res input l hi hst hsp hp
  have key : (nextItem l).2 = nextItemLoop (4 * (l.input.length - l.pos) + 16) (Lex.step l) := by
    rw [nextItem_unfold l (by rw [hst]; simp), with_item_none l hitem]
  have hl' : (nextItem l).2 = l' := by
    rw [key]
    exact steps_loop h (by simp [hs]) _ (by rw [← key, hit']; rfl)
  have hit : (nextItem l).1 = it := by
    rw [hl', hs] at h2
    injection h2 with h2
    exact h2.symm
  exact Prod.ext hit hl'

theorem step_stmt_eof (l : L) (hs : l.state = .statements) (hlen : l.input.length ≤ l.pos)
    (h6 : l.paren = 0) (h7 : l.brace = 0) (h8 : l.bracket = 0) :
    ∃ it, (Lex.step l).item = some it ∧ it.typ = .EOF := by
  have he : rAt l = eof := (rAt_eof_iff l).2 hlen
  have hpre : hasPrefixAt l.input l.pos 35 = false := by
    have : l.input[l.pos]? = none := List.getElem?_eq_none hlen
    simp [hasPrefixAt, this]
  simp only [Lex.step, hs, next_eq', peek_rAt, hpre, he]
  simp [eof, isSpaceNotEOL, isDigit, isAlpha, isUTF8, h6, h7, h8]

theorem nextItem_eof (l : L) (hs : l.state = .statements) (hlen : l.input.length ≤ l.pos)
    (h6 : l.paren = 0) (h7 : l.brace = 0) (h8 : l.bracket = 0) : (nextItem l).1.typ = .EOF := by
  obtain ⟨it, hit, ht⟩ := step_stmt_eof { l with item := none } hs hlen h6 h7 h8
  rw [nextItem_unfold l (by rw [hs]; simp)]
  rw [loop_of_isSome _ _ (by rw [hit]; rfl)]
  simp only [hit, Option.getD_some, ht]

theorem firstTok_typ (s : Bytes) (t : Tok) (p : Nat) (h : firstTok s = some (t, p)) :
    t = .QUOTED_STRING ∨ t = .STRING ∨ t = .MULTILINE_STRING := by
  unfold firstTok at h
  split at h
  · cases h
  · split at h
    · simp only [Option.map_eq_some_iff, Prod.mk.injEq] at h
      obtain ⟨_, _, h, _⟩ := h
      exact Or.inl h.symm
    · split at h
      · split at h
        · simp only [Option.map_eq_some_iff, Prod.mk.injEq] at h
          obtain ⟨_, _, h, _⟩ := h
          exact Or.inr (Or.inr h.symm)
        · simp only [Option.some.injEq, Prod.mk.injEq] at h
          exact Or.inr (Or.inl h.1.symm)
      · simp only [Option.map_eq_some_iff, Prod.mk.injEq] at h
        obtain ⟨_, _, h, _⟩ := h
        exact Or.inr (Or.inl h.symm)

/-- the item stream of a valid string-shaped spelling -/
theorem lexAll_shape (s : Bytes) (hv : Valid s) (c0 : UInt8) (r0 : Bytes) (hs : s = c0 :: r0)
    (hq : c0 = 34 ∨ c0 = 39 ∨ c0 = 96) :
    match firstTok s with
    | none => ∃ it, it.typ = .ERROR ∧ lexAll s = [it]
    | some (t, p) => p ≤ s.length ∧
        (p = s.length → ∃ e, e.typ = .EOF ∧ lexAll s = [⟨t, 0, s⟩, e]) ∧
        (p < s.length → ∃ rest, lexAll s = ⟨t, 0, s.take p⟩ :: rest) := by
  obtain ⟨l', hl', hres⟩ := first_item s hv c0 r0 hs hq
  cases hft : firstTok s with
  | none =>
    rw [hft] at hres
    obtain ⟨it, hit, hty⟩ := hres
    have hni := nextItem_eq s { input := s } rfl rfl rfl rfl (Nat.zero_le _) l' it hl' hit
    refine ⟨it, hty, ?_⟩
    unfold lexAll
    simp [items, hni, hty]
  | some tp =>
    obtain ⟨t, p⟩ := tp
    rw [hft] at hres
    simp only at hres ⊢
    obtain ⟨g1, g2, g3, g4, g5, g6, g7, g8⟩ := hres
    have hni := nextItem_eq s { input := s } rfl rfl rfl rfl (Nat.zero_le _) l' _ hl' g5
    have htt := firstTok_typ s t p hft
    have ht1 : t ≠ .EOF := by rcases htt with h | h | h <;> rw [h] <;> simp
    have ht2 : t ≠ .ERROR := by rcases htt with h | h | h <;> rw [h] <;> simp
    have hple : p ≤ s.length := by
      have := (nextItem_res s { input := s } rfl rfl rfl (Nat.zero_le _)).1
      rw [hni] at this
      obtain ⟨_, it, hit, hr⟩ := this
      simp only at hit hr
      rcases hr with ⟨_, _, _, _, _, h, _⟩ | ⟨h, _⟩ | ⟨h, _⟩
      · rw [g3] at h; exact h
      · rw [g5] at hit; injection hit with hit; rw [← hit] at h; exact absurd h ht1
      · rw [g5] at hit; injection hit with hit; rw [← hit] at h; exact absurd h ht2
    have hitems : lexAll s = ⟨t, 0, s.take p⟩ :: items (s.length + 1) l' := by
      unfold lexAll
      simp [items, hni, ht1, ht2]
    refine ⟨hple, ?_, ?_⟩
    · intro hp
      have hne := nextItem_eof l' g2 (by rw [g1, g3]; omega) g6 g7 g8
      refine ⟨(nextItem l').1, hne, ?_⟩
      rw [hitems, hp, List.take_length]
      simp [items, hne]
    · intro _
      exact ⟨_, hitems⟩

end Platypus.Lit
