import Platypus.Proofs.ElabPos
/-!
# Front end, helper 11: stored offsets are item offsets; `mkPos`; else-less `if`
-/
set_option linter.unusedVariables false
namespace Platypus.FrontEnd
open Platypus Platypus.Elab Platypus.ParsePos Platypus.Parse
open Platypus.Lex (Tok Item)

/-! ### `mkPos` -/

/-- on an offset inside the text (`≤` its length) the position cache answers, with the line and
    column of the specification `LnCol.spec` -/
theorem mkPos_spec (src : Bytes) (q : Nat) (h : q ≤ src.length) :
    mkPos src q = ⟨q, (1 + (src.take q).count LnCol.NL : Nat), (1 + LnCol.trail (src.take q) : Nat)⟩ := by
  unfold mkPos
  rw [LnCol.cache_correct]
  unfold LnCol.spec
  have : ¬ ((q : Int) < 0 ∨ (q : Int) > (src.length : Int)) := by omega
  simp only [this, ↓reduceIte, Int.toNat_natCast]

/-- … and in terms of `LnCol.spec` itself -/
theorem mkPos_eq_spec (src : Bytes) (q : Nat) (h : q ≤ src.length) :
    ∃ lc, LnCol.spec src q = some lc ∧ LnCol.cacheLnCol src q = some lc ∧ mkPos src q = ⟨q, lc.ln, lc.col⟩ := by
  have hs : LnCol.spec src q = some ⟨1 + (src.take q).count LnCol.NL, 1 + LnCol.trail (src.take q)⟩ := by
    unfold LnCol.spec
    have : ¬ ((q : Int) < 0 ∨ (q : Int) > (src.length : Int)) := by omega
    simp only [this, ↓reduceIte, Int.toNat_natCast]
  refine ⟨_, hs, by rw [LnCol.cache_correct]; exact hs, ?_⟩
  rw [mkPos_spec src q h]

/-- outside the text the cache fails and the position is `Pos.invalid` -/
theorem mkPos_outside (src : Bytes) (q : Nat) (h : src.length < q) : mkPos src q = Pos.invalid := by
  unfold mkPos
  rw [LnCol.cache_correct]
  unfold LnCol.spec
  have : ((q : Int) < 0 ∨ (q : Int) > (src.length : Int)) := by omega
  simp only [this, ↓reduceIte]

/-! ### else-less `if` -/

def AllZero (l : List Pos) : Prop := ∀ P ∈ l, P = (⟨0, 0, 0⟩ : Pos)

theorem AllZero.nil : AllZero [] := by intro P h; cases h
theorem AllZero.append {a b} (ha : AllZero a) (hb : AllZero b) : AllZero (a ++ b) := by
  intro P h; rcases List.mem_append.1 h with h | h
  · exact ha P h
  · exact hb P h

theorem elseLess_numNode {c neg v p x} (h : numNode c neg v p = some x) : elseLess x = [] := by
  unfold numNode at h
  split at h
  · cases h; rfl
  · split at h
    · cases h; rfl
    · cases h
  · cases h

theorem elseLess_mkBinNode (op l r p) : elseLess (mkBinNode op l r p) = elseLess l ++ elseLess r := by
  cases op <;> simp only [mkBinNode, elseLess]

mutual
theorem toNode_elseLessAux (c : Cfg) : ∀ (p : PP) (n : Nat) (x : Node) (n' : Nat),
    toNode c p n = some (x, n') → AllZero (elseLess x)
  | .ident q v p, n, x, n', h => by
    obtain ⟨nm, _, rfl, _⟩ := toNode_ident_inv h; exact AllZero.nil
  | .num neg v p k, n, x, n', h => by
    obtain ⟨h1, _⟩ := toNode_num_inv h; rw [elseLess_numNode h1]; exact AllZero.nil
  | .str m v p, n, x, n', h => by
    obtain ⟨b, _, rfl, _⟩ := toNode_str_inv h; exact AllZero.nil
  | .bool b p, n, x, n', h => by
    obtain ⟨rfl, _⟩ := toNode_bool_inv h; exact AllZero.nil
  | .nil p k, n, x, n', h => by
    obtain ⟨rfl, _⟩ := toNode_nil_inv h; exact AllZero.nil
  | .list xs lb rb, n, x, n', h => by
    obtain ⟨ys, h1, rfl⟩ := toNode_list_inv h
    simp only [elseLess]; exact toNodes_elseLessAux c xs n ys n' h1
  | .map kvs lb rb, n, x, n', h => by
    obtain ⟨ys, h1, rfl⟩ := toNode_map_inv h
    simp only [elseLess]; exact toNodeKV_elseLessAux c kvs n ys n' h1
  | .paren e lp rp, n, x, n', h => by
    obtain ⟨y, h1, rfl⟩ := toNode_paren_inv h
    simp only [elseLess]; exact toNode_elseLessAux c e n y n' h1
  | .attr o a p, n, x, n', h => by
    obtain ⟨y, n1, z, h1, h2, rfl⟩ := toNode_attr_inv h
    simp only [elseLess, elseLessO]
    exact (toNode_elseLessAux c o n y n1 h1).append (toNode_elseLessAux c a n1 z n' h2)
  | .index obj idx lbs rbs, n, x, n', h => by
    obtain ⟨o, ys, _, h1, rfl⟩ := toNode_index_inv h
    simp only [elseLess]; exact toNodes_elseLessAux c idx n ys n' h1
  | .unary op e p, n, x, n', h => by
    obtain ⟨y, h1, rfl⟩ := toNode_unary_inv h
    simp only [elseLess]; exact toNode_elseLessAux c e n y n' h1
  | .bin op l r p, n, x, n', h => by
    obtain ⟨y, n1, z, h1, h2, rfl⟩ := toNode_bin_inv h
    rw [elseLess_mkBinNode]
    exact (toNode_elseLessAux c l n y n1 h1).append (toNode_elseLessAux c r n1 z n' h2)
  | .assign op l r p, n, x, n', h => by
    obtain ⟨ys, n1, zs, h1, h2, rfl⟩ := toNode_assign_inv h
    simp only [elseLess]
    exact (toNodes_elseLessAux c l n ys n1 h1).append (toNodes_elseLessAux c r n1 zs n' h2)
  | .call q v args np lp rp, n, x, n', h => by
    obtain ⟨nm, ys, _, h1, rfl⟩ := toNode_call_inv h
    simp only [elseLess]
    exact toNodes_elseLessAux c args (n+1) ys n' h1
  | .slice o a b s c2 lb rb, n, x, n', h => by
    obtain ⟨y, n1, a', n2, b', n3, s', h0, h1, h2, h3, rfl⟩ := toNode_slice_inv h
    simp only [elseLess]
    exact (toNode_elseLessAux c o n y n1 h0).append ((toNodeO_elseLessAux c a n1 a' n2 h1).append
      ((toNodeO_elseLessAux c b n2 b' n3 h2).append (toNodeO_elseLessAux c s n3 s' n' h3)))
  | .ifelse ifs none, n, x, n', h => by
    obtain ⟨is, h1, rfl⟩ := toNode_ifelse_none_inv h
    simp only [elseLess, elsLess, elseLessOB, List.nil_append]
    have : AllZero [(⟨0, 0, 0⟩ : Pos)] := by intro P hP; simpa using hP
    exact this.append (toNodeIfs_elseLessAux c ifs n is n' h1)
  | .ifelse ifs (some (ep, b)), n, x, n', h => by
    obtain ⟨is, n1, bs, h1, h2, rfl⟩ := toNode_ifelse_some_inv h
    simp only [elseLess, elsLess, elseLessOB, List.nil_append]
    exact (toNodes_elseLessAux c b n1 bs n' h2).append (toNodeIfs_elseLessAux c ifs n is n1 h1)
  | .forS i cd l b p, n, x, n', h => by
    obtain ⟨i', n1, c', n2, l', n3, b', h0, h1, h2, h3, rfl⟩ := toNode_forS_inv h
    simp only [elseLess, elseLessOB]
    exact (toNodeO_elseLessAux c i n i' n1 h0).append ((toNodeO_elseLessAux c cd n1 c' n2 h1).append
      ((toNodeO_elseLessAux c l n2 l' n3 h2).append (toNodes_elseLessAux c b n3 b' n' h3)))
  | .forIn v it b fp ip, n, x, n', h => by
    obtain ⟨v', n1, it', n2, b', h0, h1, h2, rfl⟩ := toNode_forIn_inv h
    simp only [elseLess, elseLessOB]
    exact (toNode_elseLessAux c v n v' n1 h0).append ((toNode_elseLessAux c it n1 it' n2 h1).append
      (toNodes_elseLessAux c b n2 b' n' h2))
  | .brk p, n, x, n', h => by obtain ⟨rfl, _⟩ := toNode_brk_inv h; exact AllZero.nil
  | .cont p, n, x, n', h => by obtain ⟨rfl, _⟩ := toNode_cont_inv h; exact AllZero.nil

theorem toNodes_elseLessAux (c : Cfg) : ∀ (ps : List PP) (n : Nat) (xs : List Node) (n' : Nat),
    toNodes c ps n = some (xs, n') → AllZero (elseLessL xs)
  | [], n, xs, n', h => by
    obtain ⟨rfl, _⟩ := toNodes_nil_inv h; exact AllZero.nil
  | p :: r, n, xs, n', h => by
    obtain ⟨y, n1, ys, h1, h2, rfl⟩ := toNodes_cons_inv h
    simp only [elseLessL]
    exact (toNode_elseLessAux c p n y n1 h1).append (toNodes_elseLessAux c r n1 ys n' h2)

theorem toNodeO_elseLessAux (c : Cfg) : ∀ (o : Option PP) (n : Nat) (o' : Option Node) (n' : Nat),
    toNodeO c o n = some (o', n') → AllZero (elseLessO o')
  | none, n, o', n', h => by
    obtain ⟨rfl, _⟩ := toNodeO_none_inv h; exact AllZero.nil
  | some p, n, o', n', h => by
    obtain ⟨y, h1, rfl⟩ := toNodeO_some_inv h
    simp only [elseLessO]
    exact toNode_elseLessAux c p n y n' h1

theorem toNodeKV_elseLessAux (c : Cfg) : ∀ (kvs : List (PP × PP)) (n : Nat) (xs : List (Node × Node)) (n' : Nat),
    toNodeKV c kvs n = some (xs, n') → AllZero (elseLessKV xs)
  | [], n, xs, n', h => by
    obtain ⟨rfl, _⟩ := toNodeKV_nil_inv h; exact AllZero.nil
  | (k, v) :: r, n, xs, n', h => by
    obtain ⟨k', n1, v', n2, ys, h1, h2, h3, rfl⟩ := toNodeKV_cons_inv h
    simp only [elseLessKV]
    exact (toNode_elseLessAux c k n k' n1 h1).append ((toNode_elseLessAux c v n1 v' n2 h2).append
      (toNodeKV_elseLessAux c r n2 ys n' h3))

theorem toNodeIfs_elseLessAux (c : Cfg) : ∀ (ifs : List (Nat × PP × List PP)) (n : Nat)
    (xs : List (Node × Option (List Node) × Pos)) (n' : Nat),
    toNodeIfs c ifs n = some (xs, n') → AllZero (elseLessIfs xs)
  | [], n, xs, n', h => by
    obtain ⟨rfl, _⟩ := toNodeIfs_nil_inv h; exact AllZero.nil
  | (p, cd, b) :: r, n, xs, n', h => by
    obtain ⟨c', n1, b', n2, ys, h1, h2, h3, rfl⟩ := toNodeIfs_cons_inv h
    simp only [elseLessIfs, elseLessOB]
    exact (toNode_elseLessAux c cd n c' n1 h1).append ((toNodes_elseLessAux c b n1 b' n2 h2).append
      (toNodeIfs_elseLessAux c r n2 ys n' h3))
end

/-! ### every stored offset of a parser tree is an item offset -/

theorem own_in {its : List Item} {t : PP} (h : AllOk its t) {q : Nat} {k : Tok}
    (hq : (q, k) ∈ t.ownFacts) : PIn its q :=
  PIn.of_In ((allOk_iff.1 h).1.1 _ hq)

theorem pin_append {its : List Item} {a b : List Nat} (ha : ∀ q ∈ a, PIn its q) (hb : ∀ q ∈ b, PIn its q) :
    ∀ q ∈ a ++ b, PIn its q := by
  intro q hq; rcases List.mem_append.1 hq with h | h
  · exact ha q h
  · exact hb q h

theorem pin_nil {its : List Item} : ∀ q ∈ ([] : List Nat), PIn its q := by intro q hq; cases hq

theorem pin_cons {its : List Item} {a : Nat} {l : List Nat} (ha : PIn its a) (hl : ∀ q ∈ l, PIn its q) :
    ∀ q ∈ a :: l, PIn its q := by
  intro q hq; rcases List.mem_cons.1 hq with rfl | h
  · exact ha
  · exact hl q h

theorem ifsFacts_mem {ifs : List (Nat × PP × List PP)} {e} (he : e ∈ ifs) : ∃ k, (e.1, k) ∈ ifsFacts ifs := by
  cases ifs with
  | nil => cases he
  | cons a r =>
    rcases List.mem_cons.1 he with rfl | h
    · exact ⟨.IF, by simp [ifsFacts]⟩
    · exact ⟨.ELIF, by simp only [ifsFacts, List.mem_cons, List.mem_map]; exact Or.inr ⟨e, h, rfl⟩⟩

mutual
theorem posOf_in (its : List Item) : ∀ (t : PP), AllOk its t → AOk its t → ∀ q ∈ posOf t, PIn its q
  | .ident qd v p, h, ha => by
    simp only [posOf]; exact pin_cons (own_in h (k := identTok qd) (by simp [PP.ownFacts])) pin_nil
  | .num neg v p k, h, ha => by
    simp only [posOf]; exact pin_cons (own_in h (k := k) (by simp [PP.ownFacts])) pin_nil
  | .str m v p, h, ha => by
    simp only [posOf]
    exact pin_cons (own_in h (k := if m then .MULTILINE_STRING else .STRING) (by simp [PP.ownFacts])) pin_nil
  | .bool b p, h, ha => by
    simp only [posOf]
    exact pin_cons (own_in h (k := if b then .TRUE else .FALSE) (by simp [PP.ownFacts])) pin_nil
  | .nil p k, h, ha => by
    simp only [posOf]; exact pin_cons (own_in h (k := k) (by simp [PP.ownFacts])) pin_nil
  | .list xs lb rb, h, ha => by
    simp only [posOf]
    exact pin_cons (own_in h (k := .LEFT_BRACKET) (by simp [PP.ownFacts]))
      (pin_cons (own_in h (k := .RIGHT_BRACKET) (by simp [PP.ownFacts]))
        (posOfL_in its xs (fun x hx => (allOk_iff.1 h).2 x hx) (fun x hx => (aOk_iff.1 ha).2 x hx)))
  | .map kvs lb rb, h, ha => by
    simp only [posOf]
    exact pin_cons (own_in h (k := .LEFT_BRACE) (by simp [PP.ownFacts]))
      (pin_cons (own_in h (k := .RIGHT_BRACE) (by simp [PP.ownFacts]))
        (posOfKV_in its kvs
          (fun kv hkv => ⟨(allOk_iff.1 h).2 kv.1 (by
              simp only [PP.children, List.mem_flatMap]; exact ⟨kv, hkv, by simp⟩),
            (allOk_iff.1 h).2 kv.2 (by
              simp only [PP.children, List.mem_flatMap]; exact ⟨kv, hkv, by simp⟩)⟩)
          (fun kv hkv => ⟨(aOk_iff.1 ha).2 kv.1 (by
              simp only [PP.children, List.mem_flatMap]; exact ⟨kv, hkv, by simp⟩),
            (aOk_iff.1 ha).2 kv.2 (by
              simp only [PP.children, List.mem_flatMap]; exact ⟨kv, hkv, by simp⟩)⟩)))
  | .paren e lp rp, h, ha => by
    simp only [posOf]
    exact pin_cons (own_in h (k := .LEFT_PAREN) (by simp [PP.ownFacts]))
      (pin_cons (own_in h (k := .RIGHT_PAREN) (by simp [PP.ownFacts]))
        (posOf_in its e ((allOk_iff.1 h).2 e (by simp [PP.children])) ((aOk_iff.1 ha).2 e (by simp [PP.children]))))
  | .attr o a p, h, ha => by
    simp only [posOf]
    exact pin_cons (aOk_iff.1 ha).1
      (pin_append
        (posOf_in its o ((allOk_iff.1 h).2 o (by simp [PP.children])) ((aOk_iff.1 ha).2 o (by simp [PP.children])))
        (posOf_in its a ((allOk_iff.1 h).2 a (by simp [PP.children])) ((aOk_iff.1 ha).2 a (by simp [PP.children]))))
  | .index obj idx lbs rbs, h, ha => by
    simp only [posOf]
    refine pin_append ?_ (pin_append ?_ (pin_append ?_
      (posOfL_in its idx (fun x hx => (allOk_iff.1 h).2 x hx) (fun x hx => (aOk_iff.1 ha).2 x hx))))
    · intro q hq
      rcases obj with _ | ⟨qd, v, p⟩
      · cases hq
      · simp only [objOff, List.mem_singleton] at hq
        subst hq
        exact own_in h (k := identTok qd) (by simp [PP.ownFacts])
    · intro q hq
      exact own_in h (k := .LEFT_BRACKET) (by
        simp only [PP.ownFacts, List.mem_append, List.mem_map]; exact Or.inl (Or.inr ⟨q, hq, rfl⟩))
    · intro q hq
      exact own_in h (k := .RIGHT_BRACKET) (by
        simp only [PP.ownFacts, List.mem_append, List.mem_map]; exact Or.inr ⟨q, hq, rfl⟩)
  | .unary op e p, h, ha => by
    simp only [posOf]
    exact pin_cons (own_in h (k := unTok op) (by simp [PP.ownFacts]))
      (posOf_in its e ((allOk_iff.1 h).2 e (by simp [PP.children])) ((aOk_iff.1 ha).2 e (by simp [PP.children])))
  | .bin op l r p, h, ha => by
    simp only [posOf]
    exact pin_cons (own_in h (k := opTok op) (by simp [PP.ownFacts]))
      (pin_append
        (posOf_in its l ((allOk_iff.1 h).2 l (by simp [PP.children])) ((aOk_iff.1 ha).2 l (by simp [PP.children])))
        (posOf_in its r ((allOk_iff.1 h).2 r (by simp [PP.children])) ((aOk_iff.1 ha).2 r (by simp [PP.children]))))
  | .assign op l r p, h, ha => by
    simp only [posOf]
    exact pin_cons (own_in h (k := asgTok op) (by simp [PP.ownFacts]))
      (pin_append
        (posOfL_in its l (fun x hx => (allOk_iff.1 h).2 x (by simp [PP.children, hx]))
          (fun x hx => (aOk_iff.1 ha).2 x (by simp [PP.children, hx])))
        (posOfL_in its r (fun x hx => (allOk_iff.1 h).2 x (by simp [PP.children, hx]))
          (fun x hx => (aOk_iff.1 ha).2 x (by simp [PP.children, hx]))))
  | .call qd v args np lp rp, h, ha => by
    simp only [posOf]
    exact pin_cons (own_in h (k := identTok qd) (by simp [PP.ownFacts]))
      (pin_cons (own_in h (k := .LEFT_PAREN) (by simp [PP.ownFacts]))
        (pin_cons (own_in h (k := .RIGHT_PAREN) (by simp [PP.ownFacts]))
          (posOfL_in its args (fun x hx => (allOk_iff.1 h).2 x hx) (fun x hx => (aOk_iff.1 ha).2 x hx))))
  | .slice o a b s c2 lb rb, h, ha => by
    simp only [posOf]
    exact pin_cons (own_in h (k := .LEFT_BRACKET) (by simp [PP.ownFacts]))
      (pin_cons (own_in h (k := .RIGHT_BRACKET) (by simp [PP.ownFacts]))
        (pin_append
          (posOf_in its o ((allOk_iff.1 h).2 o (by simp [PP.children])) ((aOk_iff.1 ha).2 o (by simp [PP.children])))
          (pin_append
            (posOfO_in its a (fun y hy => (allOk_iff.1 h).2 y (by subst hy; simp [PP.children]))
              (fun y hy => (aOk_iff.1 ha).2 y (by subst hy; simp [PP.children])))
            (pin_append
              (posOfO_in its b (fun y hy => (allOk_iff.1 h).2 y (by subst hy; simp [PP.children]))
                (fun y hy => (aOk_iff.1 ha).2 y (by subst hy; simp [PP.children])))
              (posOfO_in its s (fun y hy => (allOk_iff.1 h).2 y (by subst hy; simp [PP.children]))
                (fun y hy => (aOk_iff.1 ha).2 y (by subst hy; simp [PP.children])))))))
  | .ifelse ifs els, h, ha => by
    simp only [posOf]
    refine pin_append ?_ (posOfIfs_in its ifs ?_ ?_ ?_)
    · rcases els with _ | ⟨ep, b⟩
      · exact pin_nil
      · simp only [posOfEls]
        exact pin_cons (own_in h (k := .ELSE) (by simp [PP.ownFacts]))
          (posOfL_in its b (fun x hx => (allOk_iff.1 h).2 x (by simp [PP.children, hx]))
            (fun x hx => (aOk_iff.1 ha).2 x (by simp [PP.children, hx])))
    · intro e he
      obtain ⟨k, hk⟩ := ifsFacts_mem he
      exact own_in h (k := k) (by simp only [PP.ownFacts, List.mem_append]; exact Or.inl hk)
    · intro e he
      exact ⟨(allOk_iff.1 h).2 e.2.1 (by
          simp only [PP.children, List.mem_append, List.mem_flatMap]; exact Or.inl ⟨e, he, by simp⟩),
        fun x hx => (allOk_iff.1 h).2 x (by
          simp only [PP.children, List.mem_append, List.mem_flatMap]; exact Or.inl ⟨e, he, by simp [hx]⟩)⟩
    · intro e he
      exact ⟨(aOk_iff.1 ha).2 e.2.1 (by
          simp only [PP.children, List.mem_append, List.mem_flatMap]; exact Or.inl ⟨e, he, by simp⟩),
        fun x hx => (aOk_iff.1 ha).2 x (by
          simp only [PP.children, List.mem_append, List.mem_flatMap]; exact Or.inl ⟨e, he, by simp [hx]⟩)⟩
  | .forS i c l b p, h, ha => by
    simp only [posOf]
    exact pin_cons (own_in h (k := .FOR) (by simp [PP.ownFacts]))
      (pin_append
        (posOfO_in its i (fun y hy => (allOk_iff.1 h).2 y (by subst hy; simp [PP.children]))
          (fun y hy => (aOk_iff.1 ha).2 y (by subst hy; simp [PP.children])))
        (pin_append
          (posOfO_in its c (fun y hy => (allOk_iff.1 h).2 y (by subst hy; simp [PP.children]))
            (fun y hy => (aOk_iff.1 ha).2 y (by subst hy; simp [PP.children])))
          (pin_append
            (posOfO_in its l (fun y hy => (allOk_iff.1 h).2 y (by subst hy; simp [PP.children]))
              (fun y hy => (aOk_iff.1 ha).2 y (by subst hy; simp [PP.children])))
            (posOfL_in its b (fun x hx => (allOk_iff.1 h).2 x (by simp [PP.children, hx]))
              (fun x hx => (aOk_iff.1 ha).2 x (by simp [PP.children, hx]))))))
  | .forIn v it b fp ip, h, ha => by
    simp only [posOf]
    exact pin_cons (own_in h (k := .FOR) (by simp [PP.ownFacts]))
      (pin_cons (own_in h (k := .IN) (by simp [PP.ownFacts]))
        (pin_append
          (posOf_in its v ((allOk_iff.1 h).2 v (by simp [PP.children])) ((aOk_iff.1 ha).2 v (by simp [PP.children])))
          (pin_append
            (posOf_in its it ((allOk_iff.1 h).2 it (by simp [PP.children]))
              ((aOk_iff.1 ha).2 it (by simp [PP.children])))
            (posOfL_in its b (fun x hx => (allOk_iff.1 h).2 x (by simp [PP.children, hx]))
              (fun x hx => (aOk_iff.1 ha).2 x (by simp [PP.children, hx]))))))
  | .brk p, h, ha => by
    simp only [posOf]; exact pin_cons (own_in h (k := .BREAK) (by simp [PP.ownFacts])) pin_nil
  | .cont p, h, ha => by
    simp only [posOf]; exact pin_cons (own_in h (k := .CONTINUE) (by simp [PP.ownFacts])) pin_nil

theorem posOfL_in (its : List Item) : ∀ (xs : List PP), AllOkL its xs → AOkL its xs → ∀ q ∈ posOfL xs, PIn its q
  | [], _, _ => by simp only [posOfL]; exact pin_nil
  | x :: r, h, ha => by
    simp only [posOfL]
    exact pin_append (posOf_in its x (h x (by simp)) (ha x (by simp)))
      (posOfL_in its r (fun y hy => h y (by simp [hy])) (fun y hy => ha y (by simp [hy])))

theorem posOfO_in (its : List Item) : ∀ (o : Option PP), AllOkO its o → AOkO its o → ∀ q ∈ posOfO o, PIn its q
  | none, _, _ => by simp only [posOfO]; exact pin_nil
  | some x, h, ha => by
    simp only [posOfO]
    exact posOf_in its x (h x rfl) (ha x rfl)

theorem posOfKV_in (its : List Item) : ∀ (kvs : List (PP × PP)), AllOkKV its kvs → AOkKV its kvs →
    ∀ q ∈ posOfKV kvs, PIn its q
  | [], _, _ => by simp only [posOfKV]; exact pin_nil
  | (k, v) :: r, h, ha => by
    simp only [posOfKV]
    exact pin_append (posOf_in its k (h (k, v) (by simp)).1 (ha (k, v) (by simp)).1)
      (pin_append (posOf_in its v (h (k, v) (by simp)).2 (ha (k, v) (by simp)).2)
        (posOfKV_in its r (fun y hy => h y (by simp [hy])) (fun y hy => ha y (by simp [hy]))))

theorem posOfIfs_in (its : List Item) : ∀ (ifs : List (Nat × PP × List PP)),
    (∀ e ∈ ifs, PIn its e.1) → (∀ e ∈ ifs, AllOk its e.2.1 ∧ AllOkL its e.2.2) → AIfs its ifs →
    ∀ q ∈ posOfIfs ifs, PIn its q
  | [], _, _, _ => by simp only [posOfIfs]; exact pin_nil
  | (p, c, b) :: r, hp, h, ha => by
    simp only [posOfIfs]
    exact pin_cons (hp (p, c, b) (by simp))
      (pin_append (posOf_in its c (h (p, c, b) (by simp)).1 (ha (p, c, b) (by simp)).1)
        (pin_append (posOfL_in its b (h (p, c, b) (by simp)).2 (ha (p, c, b) (by simp)).2)
          (posOfIfs_in its r (fun y hy => hp y (by simp [hy])) (fun y hy => h y (by simp [hy]))
            (fun y hy => ha y (by simp [hy])))))
end

/-- every offset stored in a tree the parser returns is the offset of an item of the input -/
theorem parsePosItems_posOf {its : List Item} {tps : List PP} (h : parsePosItems its = some tps) :
    ∀ q ∈ posOfL tps, ∃ i ∈ its, i.pos = q :=
  posOfL_in its tps (parsePosItems_ok h) (parsePosItems_attr h)

end Platypus.FrontEnd
