import Platypus.Spec.BindSpec
/-!
Helper lemmas for C19 (call-argument binding): the parameter-definition loop against `wf`, the
argument loop `passLoop` in closed form, `requiredOk`, and the structure of well-formed lists.
-/
namespace Platypus.Bind

/-! ## `checkDef` = `wf` -/

/-- the ordering part of `wf`, relative to "an optional parameter has been seen" -/
def shape (optional : Bool) (ps : List Param) : Bool :=
  if optional then ps.all isOpt
  else
    let rest := ps.dropWhile isReq
    rest.all isOpt || (match rest with | [p] => isVar p | _ => false)

theorem shape_cons_false (p : Param) (rest : List Param) :
    shape false (p :: rest) =
      if p.variadic then (!p.hasDefault && rest.isEmpty)
      else if p.hasDefault then shape true rest else shape false rest := by
  rcases p with ⟨nm, d, v⟩
  cases d <;> cases v <;> cases rest <;> simp [shape, isReq, isOpt, isVar]

theorem shape_cons_true (p : Param) (rest : List Param) :
    shape true (p :: rest) = (p.hasDefault && !p.variadic && shape true rest) := by
  simp [shape, isOpt]

theorem defLoop_nil_like (rest : List Param) (i n : Nat) (o v : Bool) (names : List Bytes)
    (h : rest = []) : defLoop rest i n o v names = true := by
  subst h; rfl

theorem defLoop_iff (ps : List Param) : ∀ (i : Nat) (optional : Bool) (names : List Bytes),
    defLoop ps i (i + ps.length) optional false names = true ↔
      ((∀ p ∈ ps, validName p.name = true) ∧ (ps.map (·.name)).Nodup ∧
        (∀ p ∈ ps, p.name ∉ names) ∧ shape optional ps = true) := by
  induction ps with
  | nil => intro i o names; simp [defLoop, shape]
  | cons p rest ih =>
    intro i o names
    have hlen : i + (p :: rest).length = (i + 1) + rest.length := by simp; omega
    rw [hlen]
    unfold defLoop
    by_cases hv : validName p.name = true
    · by_cases hc : p.name ∈ names
      · simp [hv, hc]
      · simp only [hv, Bool.not_true, Bool.false_eq_true, if_false, List.contains_iff_mem, hc]
        have ih' := ih (i + 1) (o || p.hasDefault) (p.name :: names)
        cases o
        · -- no optional seen yet
          rw [shape_cons_false]
          by_cases hvar : p.variadic = true
          · by_cases hd : p.hasDefault = true
            · simp [hvar, hd]
            · simp only [Bool.not_eq_true] at hd
              cases rest with
              | nil => simp [hvar, hd, defLoop, hv, hc]
              | cons q rest' =>
                simp only [hvar, hd, Bool.or_false, Bool.false_eq_true, if_false, if_true,
                  List.length_cons, List.isEmpty_cons, Bool.and_false, Bool.not_false]
                rw [if_pos (by omega)]
                simp
          · simp only [Bool.not_eq_true] at hvar
            simp only [hvar, Bool.false_eq_true, if_false, Bool.and_false]
            simp only [Bool.false_or] at ih' ⊢
            rw [ih']
            cases hd : p.hasDefault <;>
              simp [List.mem_cons, hv, hc] <;> grind
        · -- an optional parameter has been seen
          rw [shape_cons_true]
          by_cases hd : p.hasDefault = true
          · by_cases hvar : p.variadic = true
            · simp [hvar, hd]
            · simp only [Bool.not_eq_true] at hvar
              simp only [Bool.true_or] at ih'
              simp only [hd, hvar, Bool.not_true, Bool.false_and, Bool.false_eq_true, if_false,
                Bool.or_true]
              rw [ih']
              simp [List.mem_cons, hv, hc] <;> grind
          · simp only [Bool.not_eq_true] at hd
            simp [hd]
    · simp [hv]

theorem checkDef_eq_wf (ps : List Param) : checkDef ps = wf ps := by
  rw [Bool.eq_iff_iff]
  have := defLoop_iff ps 0 false []
  simp only [Nat.zero_add] at this
  unfold checkDef
  rw [this]
  simp only [wf, shape]
  generalize List.dropWhile isReq ps = r
  rcases r with _ | ⟨a, _ | ⟨b, r⟩⟩ <;> simp [and_assoc]

/-! ## `findParam` -/

theorem findParam_some {ps : List Param} {n : Bytes} {i : Nat} (h : findParam ps n = some i) :
    ∃ hi : i < ps.length, ps[i].name = n := by
  unfold findParam at h
  rw [List.findIdx?_eq_some_iff_getElem] at h
  obtain ⟨hi, hp, _⟩ := h
  exact ⟨hi, by simpa using hp⟩

theorem findParam_self {ps : List Param} (hnd : (ps.map (·.name)).Nodup) {i : Nat}
    (hi : i < ps.length) : findParam ps ps[i].name = some i := by
  unfold findParam
  rw [List.findIdx?_eq_some_iff_getElem]
  refine ⟨hi, by simp, ?_⟩
  intro j hji
  have := (List.pairwise_iff_getElem.mp hnd) j i (by simp; omega) (by simpa using hi) hji
  simpa using this

theorem findParam_eq_some_iff {ps : List Param} (hnd : (ps.map (·.name)).Nodup) {n : Bytes}
    {i : Nat} (hi : i < ps.length) : findParam ps n = some i ↔ n = ps[i].name := by
  constructor
  · intro h
    obtain ⟨_, h'⟩ := findParam_some h
    exact h'.symm
  · intro h; subst h; exact findParam_self hnd hi

/-- two names found at the same index are the same name -/
theorem findParam_inj {ps : List Param} {n m : Bytes} {i : Nat}
    (h1 : findParam ps n = some i) (h2 : findParam ps m = some i) : n = m := by
  obtain ⟨_, a⟩ := findParam_some h1
  obtain ⟨_, b⟩ := findParam_some h2
  rw [← a, ← b]

/-! ## the argument loop in closed form -/

/-- the positional phase: write the expressions at consecutive indices -/
def setPos : List (Option Nat) → Nat → List Nat → List (Option Nat)
  | acc, _, [] => acc
  | acc, idx, e :: es => setPos (acc.set idx (some e)) (idx + 1) es

/-- the named phase -/
def namedFold (ps : List Param) : List (Bytes × Nat) → List (Option Nat) → Option (List (Option Nat))
  | [], acc => some acc
  | (n, e) :: nm, acc =>
    match findParam ps n with
    | none => none
    | some pi =>
      if (acc.getD pi none).isSome then none else namedFold ps nm (acc.set pi (some e))

theorem afterPositionals_named (n : Bytes) (e : Nat) (r : List Arg) :
    afterPositionals (.named n e :: r) = .named n e :: r := by
  simp [afterPositionals]

theorem positionals_named (n : Bytes) (e : Nat) (r : List Arg) :
    positionals (.named n e :: r) = [] := by
  simp [positionals]

theorem afterPositionals_cases (args : List Arg) :
    afterPositionals args = [] ∨ ∃ n e r, afterPositionals args = .named n e :: r := by
  induction args with
  | nil => left; simp [afterPositionals]
  | cons a rest ih =>
    cases a with
    | pos e => simpa [afterPositionals] using ih
    | named n e => right; exact ⟨n, e, rest, afterPositionals_named n e rest⟩

theorem length_split (args : List Arg) :
    args.length = (positionals args).length + (afterPositionals args).length := by
  induction args with
  | nil => simp [afterPositionals, positionals]
  | cons a rest ih =>
    cases a with
    | pos e => simp [afterPositionals, positionals, ih]; omega
    | named n e => simp [afterPositionals, positionals]

theorem passLoop_pos (ps : List Param) (varb : Bool) : ∀ (args : List Arg) (idx : Nat)
    (acc : List (Option Nat)),
    passLoop ps varb args idx false acc =
      passLoop ps varb (afterPositionals args) (idx + (positionals args).length) false
        (setPos acc idx (positionals args)) := by
  intro args
  induction args with
  | nil => intro idx acc; simp [afterPositionals, positionals, setPos]
  | cons a rest ih =>
    intro idx acc
    cases a with
    | pos e =>
      simp only [afterPositionals, positionals, setPos, List.length_cons]
      rw [passLoop]
      simp only [Bool.false_eq_true, if_false]
      rw [ih]
      congr 1; omega
    | named n e => simp [afterPositionals, positionals, setPos]

theorem passLoop_named (ps : List Param) : ∀ (rest : List Arg) (idx : Nat)
    (acc : List (Option Nat)),
    passLoop ps false rest idx true acc = (namedOnly rest).bind (fun nm => namedFold ps nm acc) := by
  intro rest
  induction rest with
  | nil => intro idx acc; simp [passLoop, namedOnly, namedFold]
  | cons a r ih =>
    intro idx acc
    cases a with
    | pos e => simp [passLoop, namedOnly]
    | named n e =>
      rw [passLoop]
      simp only [Bool.false_eq_true, if_false, namedOnly]
      cases hf : findParam ps n with
      | none => cases namedOnly r <;> simp [namedFold, hf]
      | some pi =>
        simp only []
        by_cases hs : (acc.getD pi none).isSome = true
        · rw [if_pos hs]; rw [List.getD_eq_getElem?_getD] at hs
          cases namedOnly r <;> simp [namedFold, hf, hs]
        · rw [if_neg hs, ih]; rw [List.getD_eq_getElem?_getD] at hs
          cases namedOnly r <;> simp [namedFold, hf, hs]

theorem passLoop_first_named (ps : List Param) (varb : Bool) (n : Bytes) (e : Nat) (r : List Arg)
    (idx : Nat) (acc : List (Option Nat)) :
    passLoop ps varb (.named n e :: r) idx false acc
      = passLoop ps varb (.named n e :: r) idx true acc := by
  rw [passLoop, passLoop]

/-- no variadic parameter: positional phase then named phase -/
theorem passLoop_plain (ps : List Param) (args : List Arg) (acc : List (Option Nat)) :
    passLoop ps false args 0 false acc =
      (namedOnly (afterPositionals args)).bind
        (fun nm => namedFold ps nm (setPos acc 0 (positionals args))) := by
  rw [passLoop_pos]
  rcases afterPositionals_cases args with h | ⟨n, e, r, h⟩
  · rw [h]; simp [passLoop, namedOnly, namedFold]
  · rw [h, passLoop_first_named, passLoop_named]

/-- trailing variadic parameter: only positional arguments -/
theorem passLoop_variadic (ps : List Param) (args : List Arg) (acc : List (Option Nat)) :
    passLoop ps true args 0 false acc =
      if afterPositionals args = [] then some (setPos acc 0 (positionals args)) else none := by
  rw [passLoop_pos]
  rcases afterPositionals_cases args with h | ⟨n, e, r, h⟩
  · rw [h]; simp [passLoop]
  · rw [h]; simp [passLoop]

theorem setPos_closed : ∀ (es : List Nat) (pre : List (Option Nat)) (j : Nat), es.length ≤ j →
    setPos (pre ++ List.replicate j none) pre.length es
      = pre ++ es.map some ++ List.replicate (j - es.length) none := by
  intro es
  induction es with
  | nil => intro pre j _; simp [setPos]
  | cons e es ih =>
    intro pre j hj
    obtain ⟨j', rfl⟩ : ∃ j', j = j' + 1 := ⟨j - 1, by simp at hj; omega⟩
    have hset : (pre ++ List.replicate (j' + 1) none).set pre.length (some e)
        = (pre ++ [some e]) ++ List.replicate j' none := by
      simp [List.replicate_succ]
    rw [setPos, hset]
    have := ih (pre ++ [some e]) j' (by simp at hj; omega)
    simp only [List.length_append, List.length_cons, List.length_nil] at this
    rw [this]
    simp

theorem setPos_replicate (es : List Nat) (j : Nat) (h : es.length ≤ j) :
    setPos (List.replicate j none) 0 es = es.map some ++ List.replicate (j - es.length) none := by
  simpa using setPos_closed es [] j h

theorem getD_posAcc (es : List Nat) (j i : Nat) :
    (es.map some ++ List.replicate j (none : Option Nat)).getD i none = es[i]? := by
  rw [List.getD_eq_getElem?_getD, List.getElem?_append]
  by_cases h : i < es.length
  · simp [h]
  · have : es[i]? = none := by simp; omega
    rw [this]
    simp [h, List.getElem?_replicate]
    split <;> rfl

/-! ## the named phase against the declarative conditions -/

/-- acceptance condition of the named phase, relative to the accumulator -/
def NamedOk (ps : List Param) (nm : List (Bytes × Nat)) (acc : List (Option Nat)) : Prop :=
  (nm.map (·.1)).Nodup ∧ ∀ p ∈ nm, ∃ i, findParam ps p.1 = some i ∧ acc.getD i none = none

theorem getD_set_self {acc : List (Option Nat)} {i : Nat} (h : i < acc.length) (v : Option Nat) :
    (acc.set i v).getD i none = v := by
  simp [List.getD_eq_getElem?_getD, h]

theorem getD_set_ne {acc : List (Option Nat)} {i j : Nat} (h : i ≠ j) (v : Option Nat) :
    (acc.set i v).getD j none = acc.getD j none := by
  simp [List.getD_eq_getElem?_getD, h]

theorem namedFold_isSome (ps : List Param) : ∀ (nm : List (Bytes × Nat)) (acc : List (Option Nat)),
    ps.length ≤ acc.length → ((namedFold ps nm acc).isSome = true ↔ NamedOk ps nm acc) := by
  intro nm
  induction nm with
  | nil => intro acc _; simp [namedFold, NamedOk]
  | cons hd nm ih =>
    intro acc hlen
    obtain ⟨n, e⟩ := hd
    rw [namedFold]
    cases hf : findParam ps n with
    | none =>
      simp only [Option.isSome_none, Bool.false_eq_true, false_iff]
      rintro ⟨_, h⟩
      obtain ⟨i, hi, _⟩ := h (n, e) (by simp)
      simp [hf] at hi
    | some pi =>
      simp only []
      obtain ⟨hpi, _⟩ := findParam_some hf
      by_cases hs : (acc.getD pi none).isSome = true
      · rw [if_pos hs]
        simp only [Option.isSome_none, Bool.false_eq_true, false_iff]
        rintro ⟨_, h⟩
        obtain ⟨i, hi, hnone⟩ := h (n, e) (by simp)
        simp only [hf, Option.some.injEq] at hi
        subst hi
        rw [hnone] at hs
        simp at hs
      · rw [if_neg hs, ih _ (by simpa using hlen)]
        have hnone : acc.getD pi none = none := by
          cases h : acc.getD pi none with
          | none => rfl
          | some v => rw [h] at hs; simp at hs
        unfold NamedOk
        simp only [List.map_cons, List.nodup_cons, List.mem_cons, forall_eq_or_imp]
        constructor
        · rintro ⟨hnd, hall⟩
          refine ⟨⟨?_, hnd⟩, ⟨pi, hf, hnone⟩, ?_⟩
          · intro hmem
            obtain ⟨q, hq, hqn⟩ := List.mem_map.mp hmem
            obtain ⟨i, hi, hget⟩ := hall q hq
            have hqn : q.1 = n := hqn
            rw [hqn, hf] at hi
            simp only [Option.some.injEq] at hi
            subst hi
            rw [getD_set_self (by omega)] at hget
            simp at hget
          · intro q hq
            obtain ⟨i, hi, hget⟩ := hall q hq
            refine ⟨i, hi, ?_⟩
            by_cases hip : pi = i
            · subst hip
              rw [getD_set_self (by omega)] at hget
              simp at hget
            · rwa [getD_set_ne hip] at hget
        · rintro ⟨⟨hnot, hnd⟩, _, hall⟩
          refine ⟨hnd, ?_⟩
          intro q hq
          obtain ⟨i, hi, hget⟩ := hall q hq
          refine ⟨i, hi, ?_⟩
          have hip : pi ≠ i := by
            intro h; subst h
            have := findParam_inj hf hi
            exact hnot (List.mem_map.mpr ⟨q, hq, this.symm⟩)
          rwa [getD_set_ne hip]

theorem namedFold_some (ps : List Param) : ∀ (nm : List (Bytes × Nat)) (acc acc' : List (Option Nat)),
    ps.length ≤ acc.length → namedFold ps nm acc = some acc' →
    acc'.length = acc.length ∧
      ∀ i, acc'.getD i none =
        ((nm.find? (fun p => findParam ps p.1 == some i)).map (·.2)).or (acc.getD i none) := by
  intro nm
  induction nm with
  | nil => intro acc acc' _ h; simp [namedFold] at h; subst h; simp
  | cons hd nm ih =>
    intro acc acc' hlen h
    obtain ⟨n, e⟩ := hd
    have hok : NamedOk ps ((n, e) :: nm) acc := (namedFold_isSome ps _ acc hlen).mp (by simp [h])
    rw [namedFold] at h
    cases hf : findParam ps n with
    | none => simp [hf] at h
    | some pi =>
      simp only [hf] at h
      obtain ⟨hpi, _⟩ := findParam_some hf
      by_cases hs : (acc.getD pi none).isSome = true
      · rw [if_pos hs] at h; cases h
      · rw [if_neg hs] at h
        have hlen' : ps.length ≤ (acc.set pi (some e)).length := by simpa using hlen
        obtain ⟨hl, hget⟩ := ih _ _ hlen' h
        have hok' : NamedOk ps nm (acc.set pi (some e)) :=
          (namedFold_isSome ps _ _ hlen').mp (by simp [h])
        refine ⟨by simpa using hl, ?_⟩
        intro i
        rw [hget i, List.find?_cons]
        by_cases hip : pi = i
        · subst hip
          have hnone : nm.find? (fun p => findParam ps p.1 == some pi) = none := by
            rw [List.find?_eq_none]
            intro q hq hqi
            obtain ⟨j, hj, hget'⟩ := hok'.2 q hq
            simp only [beq_iff_eq] at hqi
            rw [hqi] at hj
            simp only [Option.some.injEq] at hj
            subst hj
            rw [getD_set_self (by omega)] at hget'
            simp at hget'
          rw [hnone, getD_set_self (by omega)]
          simp [hf]
        · have : (findParam ps n == some i) = false := by
            simp [hf, hip]
          simp only [this]
          rw [getD_set_ne hip]

/-! ## `requiredOk` -/

/-- no required parameter after the leading block of required parameters -/
def ReqFirst (ps : List Param) : Prop := ∀ p ∈ ps.dropWhile isReq, isReq p = false

theorem requiredOk_iff : ∀ (ps : List Param) (acc : List (Option Nat)), ReqFirst ps →
    (requiredOk ps acc = true ↔
      ∀ i (h : i < ps.length), isReq ps[i] = true → (acc.getD i none).isSome = true) := by
  intro ps
  induction ps with
  | nil => intro acc _; simp [requiredOk]
  | cons p rest ih =>
    intro acc hrf
    by_cases hp : isReq p = true
    · have hp' : (!p.hasDefault && !p.variadic) = true := hp
      have hrf' : ReqFirst rest := by
        unfold ReqFirst at hrf ⊢
        simpa [List.dropWhile_cons, hp] using hrf
      rcases acc with _ | ⟨_ | v, accRest⟩
      · simp only [requiredOk, hp', if_true, Bool.false_eq_true, false_iff]
        intro h
        have := h 0 (by simp) (by simpa using hp)
        simp at this
      · simp only [requiredOk, hp', if_true, Bool.false_eq_true, false_iff]
        intro h
        have := h 0 (by simp) (by simpa using hp)
        simp at this
      · simp only [requiredOk, hp', if_true]
        rw [ih accRest hrf']
        constructor
        · intro h i hi hreq
          cases i with
          | zero => simp
          | succ i =>
            have := h i (by simpa using hi) (by simpa using hreq)
            simpa using this
        · intro h i hi hreq
          have := h (i + 1) (by simpa using hi) (by simpa using hreq)
          simpa using this
    · have hp' : ¬ (!p.hasDefault && !p.variadic) = true := hp
      have : requiredOk (p :: rest) acc = true := by
        cases acc <;> simp [requiredOk, hp']
      rw [this]
      simp only [true_iff]
      intro i hi hreq
      exfalso
      have hall : ∀ q ∈ p :: rest, isReq q = false := by
        unfold ReqFirst at hrf
        simpa [List.dropWhile_cons, hp] using hrf
      have := hall _ (List.getElem_mem hi)
      rw [this] at hreq
      exact Bool.false_ne_true hreq

/-! ## structure of well-formed lists -/

theorem wf_nodup {ps : List Param} (h : wf ps = true) : (ps.map (·.name)).Nodup := by
  simp only [wf, Bool.and_eq_true, decide_eq_true_eq] at h
  exact h.1.2

theorem mem_takeWhile_isReq {ps : List Param} {p : Param} (h : p ∈ ps.takeWhile isReq) :
    isReq p = true := by
  induction ps with
  | nil => simp at h
  | cons q rest ih =>
    rw [List.takeWhile_cons] at h
    split at h
    · rcases List.mem_cons.mp h with rfl | h'
      · assumption
      · exact ih h'
    · simp at h

/-- a well-formed list is either variadic-free with all required parameters first, or a block of
    required parameters followed by one variadic parameter -/
theorem wf_cases {ps : List Param} (h : wf ps = true) :
    ((∀ p ∈ ps, p.variadic = false) ∧ (∀ p, ps.getLast? = some p → p.variadic = false) ∧
        ReqFirst ps) ∨
    (∃ reqs v, ps = reqs ++ [v] ∧ (∀ p ∈ reqs, isReq p = true) ∧ isVar v = true) := by
  simp only [wf, Bool.and_eq_true, Bool.or_eq_true, List.all_eq_true] at h
  obtain ⟨_, hshape⟩ := h
  have hsplit : ps.takeWhile isReq ++ ps.dropWhile isReq = ps := List.takeWhile_append_dropWhile
  rcases hshape with hopt | hvar
  · left
    have hnv : ∀ p ∈ ps, p.variadic = false := by
      intro p hp
      rw [← hsplit] at hp
      rcases List.mem_append.mp hp with hp | hp
      · have := mem_takeWhile_isReq hp
        simp [isReq] at this; exact this.2
      · have := hopt p hp
        simp [isOpt] at this; exact this.2
    refine ⟨hnv, ?_, ?_⟩
    · intro p hp
      exact hnv p (List.mem_of_getLast? hp)
    · intro p hp
      have := hopt p hp
      simp only [isOpt, Bool.and_eq_true, Bool.not_eq_true'] at this
      simp [isReq, this.1]
  · right
    generalize hr : ps.dropWhile isReq = r at hvar hsplit
    rcases r with _ | ⟨v, _ | ⟨b, r⟩⟩
    · simp at hvar
    · refine ⟨ps.takeWhile isReq, v, hsplit.symm, fun p hp => mem_takeWhile_isReq hp, ?_⟩
      simpa using hvar
    · simp at hvar

theorem reqFirst_of_reqs_var {reqs : List Param} {v : Param} (hreqs : ∀ p ∈ reqs, isReq p = true)
    (hv : isVar v = true) : ReqFirst (reqs ++ [v]) := by
  induction reqs with
  | nil =>
    have : isReq v = false := by
      simp only [isVar, Bool.and_eq_true] at hv
      simp [isReq, hv.1]
    intro p hp
    simp [this] at hp
    subst hp; exact this
  | cons q rest ih =>
    have hq := hreqs q (by simp)
    unfold ReqFirst
    simp only [List.cons_append, List.dropWhile_cons, hq, if_true]
    exact ih (fun p hp => hreqs p (by simp [hp]))

/-! ## `mapM` in `Option` -/

theorem mapM_some_of_forall {α β : Type} (f : α → Option β) (g : α → β) :
    ∀ (l : List α), (∀ x ∈ l, f x = some (g x)) → l.mapM f = some (l.map g) := by
  intro l
  induction l with
  | nil => intro _; simp
  | cons a l ih =>
    intro h
    rw [List.mapM_cons, h a (by simp), ih (fun x hx => h x (by simp [hx]))]
    rfl

theorem mapM_none_of_exists {α β : Type} (f : α → Option β) :
    ∀ (l : List α), (∃ x ∈ l, f x = none) → l.mapM f = none := by
  intro l
  induction l with
  | nil => intro h; simp at h
  | cons a l ih =>
    intro h
    rw [List.mapM_cons]
    cases hfa : f a with
    | none => rfl
    | some b =>
      obtain ⟨x, hx, hfx⟩ := h
      rcases List.mem_cons.mp hx with rfl | hx'
      · rw [hfa] at hfx; cases hfx
      · rw [ih ⟨x, hx', hfx⟩]; rfl

/-! ## the specification in projection form -/

def got' (ps : List Param) (nm : List (Bytes × Nat)) (posi : List Nat) (i : Nat) : Option Got :=
  if i < posi.length then posi[i]?.map Got.value
  else match nm.find? (fun q => q.1 == (ps.getD i default).name) with
    | some q => some (.value q.2)
    | none => if (ps.getD i default).hasDefault then some .default else none

def badName (ps : List Param) (k : Nat) (q : Bytes × Nat) : Bool :=
  match findParam ps q.1 with
  | none => true
  | some i => decide (i < k)

def bindPlain' (ps : List Param) (args : List Arg) : Option (List Got) :=
  match namedOnly (afterPositionals args) with
  | none => none
  | some nm =>
    if args.length > ps.length then none
    else if !(nm.map (·.1)).Nodup then none
    else if nm.any (badName ps (positionals args).length) then none
    else (List.range ps.length).mapM (got' ps nm (positionals args))

theorem bindPlain_eq (ps : List Param) (args : List Arg) :
    bindSpec.bindPlain ps args = bindPlain' ps args := by
  unfold bindSpec.bindPlain bindPlain'
  cases namedOnly (afterPositionals args) with
  | none => rfl
  | some nm =>
    simp only []
    congr 2
    congr 1
    congr 1
    funext i
    unfold got'
    split
    · rfl
    · cases List.find? (fun q => q.1 == (ps.getD i default).name) nm with
      | none => rfl
      | some q => rfl

/-! ## `checkPass` by the kind of the last parameter -/

def finish (ps : List Param) (acc : List (Option Nat)) : Option (List (Option Nat)) :=
  if requiredOk ps acc then some acc else none

theorem checkPass_of_not_variadic (ps : List Param) (args : List Arg)
    (h : ∀ p, ps.getLast? = some p → p.variadic = false) :
    checkPass ps args =
      if args.length > ps.length then none
      else (passLoop ps false args 0 false
        (List.replicate (max args.length ps.length) none)).bind (finish ps) := by
  unfold checkPass
  cases hl : ps.getLast? with
  | none =>
    by_cases hlen : args.length > ps.length
    · simp [hlen]
    · simp only [hlen, Bool.not_false, Bool.true_and, decide_false, Bool.false_eq_true, if_false]
      cases passLoop ps false args 0 false (List.replicate (max args.length ps.length) none) <;> rfl
  | some p =>
    have hp := h p hl
    by_cases hlen : args.length > ps.length
    · simp [hlen, hp]
    · simp only [hp, hlen, Bool.not_false, Bool.true_and, decide_false, Bool.false_eq_true, if_false]
      cases passLoop ps false args 0 false (List.replicate (max args.length ps.length) none) <;> rfl

theorem checkPass_of_variadic (ps : List Param) (args : List Arg) (v : Param)
    (h : ps.getLast? = some v) (hvar : v.variadic = true) :
    checkPass ps args =
      (passLoop ps true args 0 false
        (List.replicate (max args.length ps.length) none)).bind (finish ps) := by
  unfold checkPass
  simp only [h, hvar, Bool.not_true, Bool.false_and, Bool.false_eq_true, if_false]
  cases passLoop ps true args 0 false (List.replicate (max args.length ps.length) none) <;> rfl

theorem getParam_nonvar (ps : List Param) (norm : List (Option Nat)) (i : Nat)
    (hi : i < ps.length) (hn : i < norm.length) (hv : (ps.getD i default).variadic = false) :
    getParam ps norm i =
      match norm.getD i none with
      | some e => .value e
      | none => if (ps.getD i default).hasDefault then .default else .error := by
  unfold getParam
  rw [if_neg (by omega)]
  simp only [hv, Bool.false_eq_true, if_false]
  cases norm.getD i none <;> rfl

theorem posAcc_none_iff (es : List Nat) (j i : Nat) :
    (es.map some ++ List.replicate j (none : Option Nat)).getD i none = none ↔ es.length ≤ i := by
  rw [getD_posAcc]; simp

theorem namedOk_pos_iff (ps : List Param) (nm : List (Bytes × Nat)) (es : List Nat) (j : Nat) :
    NamedOk ps nm (es.map some ++ List.replicate j none) ↔
      ((nm.map (·.1)).Nodup ∧ nm.any (badName ps es.length) = false) := by
  unfold NamedOk
  apply and_congr Iff.rfl
  rw [List.any_eq_false]
  constructor
  · intro h q hq
    obtain ⟨i, hi, hg⟩ := h q hq
    rw [posAcc_none_iff] at hg
    unfold badName
    rw [hi]
    simp; omega
  · intro h q hq
    have := h q hq
    unfold badName at this
    cases hf : findParam ps q.1 with
    | none => simp [hf] at this
    | some i =>
      refine ⟨i, rfl, ?_⟩
      rw [posAcc_none_iff]
      simp [hf] at this
      omega

/-! ## binding without a variadic parameter -/

/-- the accumulator after both phases, pointwise -/
theorem plain_point (ps : List Param) (hnd : (ps.map (·.name)).Nodup) (nm : List (Bytes × Nat))
    (es : List Nat) (j : Nat) (acc' : List (Option Nat)) (hj : ps.length ≤ es.length + j)
    (hfold : namedFold ps nm (es.map some ++ List.replicate j none) = some acc')
    (i : Nat) (hi : i < ps.length) :
    acc'.getD i none =
      if i < es.length then es[i]?
      else (nm.find? (fun q => q.1 == (ps.getD i default).name)).map (·.2) := by
  have hlen1 : ps.length ≤ (es.map some ++ List.replicate j (none : Option Nat)).length := by
    simpa using hj
  obtain ⟨_, hget⟩ := namedFold_some ps nm _ acc' hlen1 hfold
  have hok : NamedOk ps nm _ := (namedFold_isSome ps nm _ hlen1).mp (by simp [hfold])
  rw [hget i, getD_posAcc]
  have hgd : ps.getD i default = ps[i] := by simp [List.getD_eq_getElem?_getD, hi]
  have hpred : (fun (q : Bytes × Nat) => findParam ps q.1 == some i)
      = (fun q => q.1 == (ps.getD i default).name) := by
    funext q
    rw [Bool.eq_iff_iff, hgd]
    simp [findParam_eq_some_iff hnd hi]
  by_cases hik : i < es.length
  · rw [if_pos hik]
    have hnone : nm.find? (fun q => findParam ps q.1 == some i) = none := by
      rw [List.find?_eq_none]
      intro q hq hqi
      obtain ⟨i', hi', hg⟩ := hok.2 q hq
      rw [posAcc_none_iff] at hg
      simp only [beq_iff_eq] at hqi
      rw [hqi] at hi'
      simp only [Option.some.injEq] at hi'
      omega
    rw [hnone]; rfl
  · rw [if_neg hik, hpred]
    have : es[i]? = none := by simp; omega
    rw [this]
    simp

theorem implBind_plain (ps : List Param) (hnd : (ps.map (·.name)).Nodup)
    (hnv : ∀ p ∈ ps, p.variadic = false) (hrf : ReqFirst ps) (args : List Arg) :
    implBind ps args = bindSpec.bindPlain ps args := by
  rw [bindPlain_eq]
  unfold implBind
  rw [checkPass_of_not_variadic ps args (fun p hp => hnv p (List.mem_of_getLast? hp))]
  unfold bindPlain'
  by_cases hlen : args.length > ps.length
  · rw [if_pos hlen]
    cases namedOnly (afterPositionals args) <;> simp [hlen]
  · rw [if_neg hlen]
    have hmax : max args.length ps.length = ps.length := by omega
    have hk : (positionals args).length ≤ ps.length := by
      have := length_split args; omega
    rw [hmax, passLoop_plain, setPos_replicate _ _ hk]
    cases hnm : namedOnly (afterPositionals args) with
    | none => rfl
    | some nm =>
      simp only [Option.bind_some, if_neg hlen]
      generalize hes : positionals args = es at *
      have hlen1 : ps.length ≤ (es.map some ++ List.replicate (ps.length - es.length)
          (none : Option Nat)).length := by simp; omega
      cases hfold : namedFold ps nm (es.map some ++ List.replicate (ps.length - es.length) none) with
      | none =>
        have hnok : ¬ NamedOk ps nm (es.map some ++ List.replicate (ps.length - es.length) none) := by
          intro hok
          have := (namedFold_isSome ps nm _ hlen1).mpr hok
          simp [hfold] at this
        rw [namedOk_pos_iff] at hnok
        simp only [Option.bind_none, Option.map_none]
        by_cases hnd' : (nm.map (·.1)).Nodup
        · have hany : nm.any (badName ps es.length) = true := by
            cases h : nm.any (badName ps es.length) with
            | true => rfl
            | false => exact absurd ⟨hnd', h⟩ hnok
          simp [hnd', hany]
        · simp [hnd']
      | some acc' =>
        have hok : NamedOk ps nm _ := (namedFold_isSome ps nm _ hlen1).mp (by simp [hfold])
        rw [namedOk_pos_iff] at hok
        obtain ⟨hnd', hany⟩ := hok
        obtain ⟨hl', _⟩ := namedFold_some ps nm _ acc' hlen1 hfold
        have hl'' : acc'.length = ps.length := by rw [hl']; simp; omega
        have hpt := plain_point ps hnd nm es (ps.length - es.length) acc' (by omega) hfold
        simp only [Option.bind_some, hnd', hany, decide_true, Bool.not_true, Bool.false_eq_true,
          if_false]
        have hmem : ∀ i (hi : i < ps.length), ps.getD i default ∈ ps := by
          intro i hi
          have : ps.getD i default = ps[i] := by simp [List.getD_eq_getElem?_getD, hi]
          rw [this]; exact List.getElem_mem hi
        by_cases hreq : requiredOk ps acc' = true
        · simp only [finish, hreq, if_true, Option.map_some]
          symm
          apply mapM_some_of_forall
          intro i hi
          have hi : i < ps.length := by simpa using hi
          rw [getParam_nonvar ps acc' i hi (by omega) (hnv _ (hmem i hi)), hpt i hi]
          unfold got'
          by_cases hik : i < es.length
          · rw [if_pos hik, if_pos hik]
            simp [List.getElem?_eq_getElem hik]
          · rw [if_neg hik, if_neg hik]
            cases hfind : nm.find? (fun q => q.1 == (ps.getD i default).name) with
            | some q => rfl
            | none =>
              simp only [Option.map_none]
              have hreq' := (requiredOk_iff ps acc' hrf).mp hreq i hi
              cases hd : (ps.getD i default).hasDefault with
              | true => rfl
              | false =>
                exfalso
                have hgd : ps.getD i default = ps[i] := by simp [List.getD_eq_getElem?_getD, hi]
                have hv := hnv _ (hmem i hi)
                rw [hgd] at hd hv
                have := hreq' (by simp [isReq, hd, hv])
                rw [hpt i hi, if_neg hik, hfind] at this
                simp at this
        · simp only [finish, hreq, Bool.false_eq_true, if_false, Option.map_none]
          symm
          apply mapM_none_of_exists
          have hex : ∃ i, ∃ h : i < ps.length, isReq ps[i] = true ∧
              (acc'.getD i none).isSome = false := by
            apply Classical.byContradiction
            intro hno
            apply hreq
            rw [requiredOk_iff ps acc' hrf]
            intro i hi hr
            cases hs : (acc'.getD i none).isSome with
            | true => rfl
            | false => exact absurd ⟨i, hi, hr, hs⟩ hno
          obtain ⟨i, hi, hr, hs⟩ := hex
          refine ⟨i, by simpa using hi, ?_⟩
          have hgd : ps.getD i default = ps[i] := by simp [List.getD_eq_getElem?_getD, hi]
          rw [hpt i hi] at hs
          unfold got'
          by_cases hik : i < es.length
          · rw [if_pos hik] at hs
            simp [List.getElem?_eq_getElem hik] at hs
          · rw [if_neg hik] at hs ⊢
            cases hfind : nm.find? (fun q => q.1 == (ps.getD i default).name) with
            | some q => rw [hfind] at hs; simp at hs
            | none =>
              simp only [isReq, Bool.and_eq_true, Bool.not_eq_true'] at hr
              rw [hgd, hr.1]
              rfl

/-! ## binding with a trailing variadic parameter -/

def isPos : Arg → Bool
  | .pos _ => true
  | .named _ _ => false

def bindVar' (ps : List Param) (args : List Arg) : Option (List Got) :=
  if args.all isPos && decide (args.length ≥ ps.length - 1) then
    some (((positionals args).take (ps.length - 1)).map Got.value
      ++ [Got.list ((positionals args).drop (ps.length - 1))])
  else none

theorem bindSpec_variadic (ps : List Param) (args : List Arg) (v : Param)
    (h : ps.getLast? = some v) (hv : v.variadic = true) : bindSpec ps args = bindVar' ps args := by
  unfold bindSpec bindVar'
  simp only [h, hv, if_true]
  have hp : ∀ (f : Arg → Bool), (∀ a, f a = isPos a) → args.all f = args.all isPos := by
    intro f hf
    have : f = isPos := funext hf
    rw [this]
  rw [hp _ (by intro a; cases a <;> rfl)]

theorem bindSpec_plain (ps : List Param) (args : List Arg)
    (h : ∀ p, ps.getLast? = some p → p.variadic = false) :
    bindSpec ps args = bindSpec.bindPlain ps args := by
  unfold bindSpec
  cases hl : ps.getLast? with
  | none => rfl
  | some p => simp [h p hl]

theorem all_isPos_iff (args : List Arg) : args.all isPos = true ↔ afterPositionals args = [] := by
  induction args with
  | nil => simp [afterPositionals]
  | cons a rest ih =>
    cases a with
    | pos e => simpa [afterPositionals, isPos] using ih
    | named n e => simp [afterPositionals, isPos]

theorem implBind_variadic (reqs : List Param) (v : Param) (hreqs : ∀ p ∈ reqs, isReq p = true)
    (hv : isVar v = true) (args : List Arg) :
    implBind (reqs ++ [v]) args = bindSpec (reqs ++ [v]) args := by
  have hvv : v.variadic = true := by
    simp only [isVar, Bool.and_eq_true] at hv; exact hv.1
  have hvr : isReq v = false := by simp [isReq, hvv]
  have hlast : (reqs ++ [v]).getLast? = some v := by simp
  rw [bindSpec_variadic _ args v hlast hvv]
  unfold implBind
  rw [checkPass_of_variadic _ args v hlast hvv, passLoop_variadic]
  unfold bindVar'
  have hrf : ReqFirst (reqs ++ [v]) := reqFirst_of_reqs_var hreqs hv
  generalize hps : reqs ++ [v] = ps at *
  have hn : ps.length = reqs.length + 1 := by rw [← hps]; simp
  by_cases hall : afterPositionals args = []
  · have hall' : args.all isPos = true := (all_isPos_iff args).mpr hall
    have hk : args.length = (positionals args).length := by
      have := length_split args; rw [hall] at this; simpa using this
    rw [if_pos hall, hall', hk]
    generalize positionals args = es
    rw [setPos_replicate _ _ (by omega)]
    generalize hacc : es.map some ++ List.replicate (max es.length ps.length - es.length)
      (none : Option Nat) = acc
    have haccLen : acc.length = max es.length ps.length := by rw [← hacc]; simp; omega
    have hgetD : ∀ i, acc.getD i none = es[i]? := by
      intro i; rw [← hacc, getD_posAcc]
    have hpsLt : ∀ i (h : i < reqs.length), ps.getD i default = reqs[i] := by
      intro i h
      rw [← hps]
      simp [List.getD_eq_getElem?_getD, List.getElem?_append_left h, h]
    have hpsLast : ps.getD reqs.length default = v := by
      rw [← hps]
      simp [List.getD_eq_getElem?_getD]
    have hreqIff : requiredOk ps acc = true ↔ reqs.length ≤ es.length := by
      rw [requiredOk_iff ps acc hrf]
      constructor
      · intro h
        apply Classical.byContradiction
        intro hlt
        have hlt : es.length < reqs.length := by omega
        have h1 := hpsLt es.length hlt
        have hlt' : es.length < ps.length := by omega
        have h2 : ps.getD es.length default = ps[es.length] := by
          simp [List.getD_eq_getElem?_getD, hlt']
        have := h es.length hlt' (by rw [← h2, h1]; exact hreqs _ (List.getElem_mem hlt))
        rw [hgetD] at this
        simp at this
      · intro hle i hi hr
        have hi' : i < reqs.length := by
          apply Classical.byContradiction
          intro hge
          have hieq : i = reqs.length := by omega
          subst hieq
          have h2 : ps.getD reqs.length default = ps[reqs.length] := by
            simp [List.getD_eq_getElem?_getD, hi]
          rw [← h2, hpsLast, hvr] at hr
          exact Bool.false_ne_true hr
        rw [hgetD]
        have : i < es.length := by omega
        simp [List.getElem?_eq_getElem this]
    by_cases hle : reqs.length ≤ es.length
    · have hreq : requiredOk ps acc = true := hreqIff.mpr hle
      have hdec : decide (es.length ≥ ps.length - 1) = true := by
        simp only [decide_eq_true_eq]; omega
      simp only [Option.bind_some, finish, hreq, if_true, Option.map_some, hdec, Bool.and_true]
      rw [hn, List.range_succ, List.map_append]
      simp only [Nat.add_sub_cancel, List.map_cons, List.map_nil]
      congr 1
      congr 1
      · -- the required parameters
        apply List.ext_getElem
        · simp; omega
        · intro i h1 h2
          have hi : i < reqs.length := by simpa using h1
          have hie : i < es.length := by omega
          have hnv : (ps.getD i default).variadic = false := by
            rw [hpsLt i hi]
            have := hreqs _ (List.getElem_mem hi)
            simp only [isReq, Bool.and_eq_true, Bool.not_eq_true'] at this
            exact this.2
          simp only [List.getElem_map, List.getElem_range, List.getElem_take]
          rw [getParam_nonvar ps acc i (by omega) (by omega) hnv, hgetD,
            List.getElem?_eq_getElem hie]
      · -- the variadic parameter
        congr 1
        unfold getParam
        rw [if_neg (by omega)]
        simp only [hpsLast, hvv, if_true, hgetD]
        by_cases heq : reqs.length = es.length
        · have h1 : es[reqs.length]? = none := by simp; omega
          have h2 : es.drop reqs.length = [] := by simp; omega
          rw [h1, h2]
        · have hlt : reqs.length < es.length := by omega
          have hacc' : acc = es.map some := by
            rw [← hacc]
            have : max es.length ps.length - es.length = 0 := by omega
            rw [this]; simp
          rw [List.getElem?_eq_getElem hlt, hacc']
          simp [← List.map_drop]
    · have hreq : ¬ requiredOk ps acc = true := fun h => hle (hreqIff.mp h)
      have hdec : decide (es.length ≥ ps.length - 1) = false := by
        simp only [decide_eq_false_iff_not]; omega
      simp [finish, hreq]
      omega
  · have hall' : ¬ args.all isPos = true := fun h => hall ((all_isPos_iff args).mp h)
    rw [if_neg hall]
    simp [hall']

/-! ## rejections, directly from the model -/

/-- a named argument is fatal when the list is variadic or the name is unknown -/
theorem passLoop_named_reject (ps : List Param) (varb : Bool) (n : Bytes) (e : Nat)
    (h : varb = true ∨ findParam ps n = none) : ∀ (args : List Arg) (idx : Nat) (ns : Bool)
    (acc : List (Option Nat)), Arg.named n e ∈ args → passLoop ps varb args idx ns acc = none := by
  intro args
  induction args with
  | nil => intro _ _ _ hm; simp at hm
  | cons a rest ih =>
    intro idx ns acc hm
    cases a with
    | pos e' =>
      have hm' : Arg.named n e ∈ rest := by simpa using hm
      rw [passLoop]
      split
      · rfl
      · exact ih _ _ _ hm'
    | named n' e' =>
      rw [passLoop]
      by_cases hvb : varb = true
      · rw [if_pos hvb]
      · rw [if_neg hvb]
        rcases List.mem_cons.mp hm with heq | hm'
        · injection heq with h1 h2
          subst h1
          rcases h with h | h
          · exact absurd h hvb
          · rw [h]
        · split
          · rfl
          · split
            · rfl
            · exact ih _ _ _ hm'

theorem checkPass_named_reject (ps : List Param) (args : List Arg) (n : Bytes) (e : Nat)
    (hm : Arg.named n e ∈ args)
    (h : (∃ p, ps.getLast? = some p ∧ p.variadic = true) ∨ findParam ps n = none) :
    checkPass ps args = none := by
  unfold checkPass
  cases hl : ps.getLast? with
  | none =>
    have hf : findParam ps n = none := by
      rcases h with ⟨p, hp, _⟩ | h
      · rw [hl] at hp; cases hp
      · exact h
    dsimp only
    rw [passLoop_named_reject ps false n e (Or.inr hf) args 0 false _ hm]
    split <;> rfl
  | some p =>
    have hor : p.variadic = true ∨ findParam ps n = none := by
      rcases h with ⟨q, hq, hv⟩ | h
      · rw [hl] at hq; cases hq; exact Or.inl hv
      · exact Or.inr h
    dsimp only
    rw [passLoop_named_reject ps p.variadic n e hor args 0 false _ hm]
    split <;> rfl

theorem checkPass_too_many (ps : List Param) (args : List Arg)
    (h : ∀ p, ps.getLast? = some p → p.variadic = false) (hlen : args.length > ps.length) :
    checkPass ps args = none := by
  rw [checkPass_of_not_variadic ps args h, if_pos hlen]

/-! ## the two cases together -/

theorem implBind_eq_bindSpec (ps : List Param) (hwf : wf ps = true) (args : List Arg) :
    implBind ps args = bindSpec ps args := by
  rcases wf_cases hwf with ⟨hnv, hlast, hrf⟩ | ⟨reqs, v, rfl, hreqs, hv⟩
  · rw [bindSpec_plain ps args hlast]
    exact implBind_plain ps (wf_nodup hwf) hnv hrf args
  · exact implBind_variadic reqs v hreqs hv args

end Platypus.Bind
