import Platypus.Proofs.ErrPosBase
/-!
`ast.NodeStartPos` returns a stored token position of the node (or the invalid marker), hence every
position a tree designates (`posOf`) is a stored token position of the tree or the invalid marker.
-/
namespace Platypus.ErrPos
open Platypus

mutual
/-- the token positions stored in a node and its sub-nodes -/
def storedOf : Node → List Pos
  | .ident _ p => [p]
  | .strLit _ p => [p]
  | .intLit _ p => [p]
  | .floatLit _ p => [p]
  | .boolLit _ p => [p]
  | .nilLit p => [p]
  | .brk p => [p]
  | .cont p => [p]
  | .list xs lb rb => lb :: rb :: storedOfL xs
  | .map kvs lb rb => lb :: rb :: storedOfKV kvs
  | .paren e lp rp => lp :: rp :: storedOf e
  | .attr o a p => p :: (storedOfO o ++ storedOfO a)
  | .index obj idx lbs rbs =>
    (match obj with | some (_, p) => [p] | none => []) ++ lbs ++ rbs ++ storedOfL idx
  | .unary _ e p => p :: storedOf e
  | .arith _ l r p => p :: (storedOf l ++ storedOf r)
  | .cond _ l r p => p :: (storedOf l ++ storedOf r)
  | .inE l r p => p :: (storedOf l ++ storedOf r)
  | .assign _ lhs rhs p => p :: (storedOfL lhs ++ storedOfL rhs)
  | .call _ args np lp rp _ => np :: lp :: rp :: storedOfL args
  | .slice o a b c _ lb rb => lb :: rb :: (storedOf o ++ (storedOfO a ++ (storedOfO b ++ storedOfO c)))
  | .ifelse ifs els _ => storedOfIfs ifs ++ storedOfOB els
  | .forS i c l b p => p :: (storedOfO i ++ (storedOfO c ++ (storedOfO l ++ storedOfOB b)))
  | .forIn v it b fp ip => fp :: ip :: (storedOf v ++ (storedOf it ++ storedOfOB b))
def storedOfL : List Node → List Pos
  | [] => []
  | x :: r => storedOf x ++ storedOfL r
def storedOfO : Option Node → List Pos
  | none => []
  | some x => storedOf x
def storedOfKV : List (Node × Node) → List Pos
  | [] => []
  | (k, v) :: r => storedOf k ++ (storedOf v ++ storedOfKV r)
def storedOfOB : Option (List Node) → List Pos
  | none => []
  | some b => storedOfL b
def storedOfIfs : List (Node × Option (List Node) × Pos) → List Pos
  | [] => []
  | (c, b, p) :: r => p :: (storedOf c ++ (storedOfOB b ++ storedOfIfs r))
end

/-- a stored token position, or the marker `-1:-1` -/
def StoredOrInvalid (l : List Pos) (p : Pos) : Prop := p ∈ l ∨ p = Pos.invalid

theorem startPos_stored : ∀ (f : Nat) (n : Node), StoredOrInvalid (storedOf n) (startPos f n)
  | 0, _ => Or.inr (by simp only [startPos])
  | f+1, n => by
    cases n
    case arith op l r p =>
      simp only [startPos, storedOf]
      rcases startPos_stored f l with h | h
      · exact Or.inl (List.mem_cons_of_mem _ (List.mem_append_left _ h))
      · exact Or.inr h
    case cond op l r p =>
      simp only [startPos, storedOf]
      rcases startPos_stored f l with h | h
      · exact Or.inl (List.mem_cons_of_mem _ (List.mem_append_left _ h))
      · exact Or.inr h
    case inE l r p =>
      simp only [startPos, storedOf]
      rcases startPos_stored f l with h | h
      · exact Or.inl (List.mem_cons_of_mem _ (List.mem_append_left _ h))
      · exact Or.inr h
    case assign op lhs rhs p =>
      cases lhs with
      | nil => exact Or.inr (by simp only [startPos])
      | cons l rest =>
        simp only [startPos, storedOf, storedOfL]
        rcases startPos_stored f l with h | h
        · exact Or.inl (List.mem_cons_of_mem _ (List.mem_append_left _ (List.mem_append_left _ h)))
        · exact Or.inr h
    case index obj idx lbs rbs =>
      cases obj with
      | some np => obtain ⟨nm, p⟩ := np; exact Or.inl (by simp [startPos, storedOf])
      | none =>
        cases lbs with
        | nil => exact Or.inr (by simp [startPos])
        | cons b bs => exact Or.inl (by simp [startPos, storedOf])
    case ifelse ifs els ep =>
      cases ifs with
      | nil => exact Or.inr (by simp only [startPos])
      | cons x r => obtain ⟨c, b, p⟩ := x; exact Or.inl (by simp [startPos, storedOf, storedOfIfs])
    all_goals exact Or.inl (by simp [startPos, storedOf])

theorem start_stored (n : Node) : StoredOrInvalid (storedOf n) (Node.start n) := startPos_stored 10000 n

theorem soi_mono {l l' : List Pos} {p : Pos} (h : StoredOrInvalid l p) (hl : ∀ q ∈ l, q ∈ l') :
    StoredOrInvalid l' p := h.elim (fun hm => Or.inl (hl p hm)) Or.inr

mutual
theorem posOf_stored : ∀ (n : Node) (p : Pos), p ∈ posOf n → StoredOrInvalid (storedOf n) p
  | .ident _ _, p, h | .strLit _ _, p, h | .intLit _ _, p, h | .floatLit _ _, p, h
  | .boolLit _ _, p, h | .nilLit _, p, h | .brk _, p, h | .cont _, p, h => Or.inl (by simpa [posOf, storedOf] using h)
  | .list xs lb rb, p, h => by
    simp only [posOf, List.mem_cons] at h
    rcases h with h | h | h | h
    · exact h ▸ start_stored _
    · exact Or.inl (by simp [storedOf, h])
    · exact Or.inl (by simp [storedOf, h])
    · exact soi_mono (posOfL_stored xs p h) (by intro q hq; simp [storedOf, hq])
  | .map kvs lb rb, p, h => by
    simp only [posOf, List.mem_cons] at h
    rcases h with h | h | h | h
    · exact h ▸ start_stored _
    · exact Or.inl (by simp [storedOf, h])
    · exact Or.inl (by simp [storedOf, h])
    · exact soi_mono (posOfKV_stored kvs p h) (by intro q hq; simp [storedOf, hq])
  | .paren e lp rp, p, h => by
    simp only [posOf, List.mem_cons] at h
    rcases h with h | h | h | h
    · exact h ▸ start_stored _
    · exact Or.inl (by simp [storedOf, h])
    · exact Or.inl (by simp [storedOf, h])
    · exact soi_mono (posOf_stored e p h) (by intro q hq; simp [storedOf, hq])
  | .attr o a q, p, h => by
    simp only [posOf, List.mem_cons, List.mem_append] at h
    rcases h with h | h | h | h
    · exact h ▸ start_stored _
    · exact Or.inl (by simp [storedOf, h])
    · exact soi_mono (posOfO_stored o p h) (by intro q hq; simp [storedOf, hq])
    · exact soi_mono (posOfO_stored a p h) (by intro q hq; simp [storedOf, hq])
  | .index obj idx lbs rbs, p, h => by
    simp only [posOf, List.mem_cons, List.mem_append] at h
    rcases h with h | ((h | h) | h) | h
    · exact h ▸ start_stored _
    · exact Or.inl (by simp only [storedOf, List.mem_append]; exact Or.inl (Or.inl (Or.inl h)))
    · exact Or.inl (by simp [storedOf, h])
    · exact Or.inl (by simp [storedOf, h])
    · exact soi_mono (posOfL_stored idx p h) (by intro q hq; simp [storedOf, hq])
  | .unary _ e q, p, h => by
    simp only [posOf, List.mem_cons] at h
    rcases h with h | h | h
    · exact h ▸ start_stored _
    · exact Or.inl (by simp [storedOf, h])
    · exact soi_mono (posOf_stored e p h) (by intro q hq; simp [storedOf, hq])
  | .arith _ l r q, p, h => by
    simp only [posOf, List.mem_cons, List.mem_append] at h
    rcases h with h | h | h | h
    · exact h ▸ start_stored _
    · exact Or.inl (by simp [storedOf, h])
    · exact soi_mono (posOf_stored l p h) (by intro q hq; simp [storedOf, hq])
    · exact soi_mono (posOf_stored r p h) (by intro q hq; simp [storedOf, hq])
  | .cond _ l r q, p, h => by
    simp only [posOf, List.mem_cons, List.mem_append] at h
    rcases h with h | h | h | h
    · exact h ▸ start_stored _
    · exact Or.inl (by simp [storedOf, h])
    · exact soi_mono (posOf_stored l p h) (by intro q hq; simp [storedOf, hq])
    · exact soi_mono (posOf_stored r p h) (by intro q hq; simp [storedOf, hq])
  | .inE l r q, p, h => by
    simp only [posOf, List.mem_cons, List.mem_append] at h
    rcases h with h | h | h | h
    · exact h ▸ start_stored _
    · exact Or.inl (by simp [storedOf, h])
    · exact soi_mono (posOf_stored l p h) (by intro q hq; simp [storedOf, hq])
    · exact soi_mono (posOf_stored r p h) (by intro q hq; simp [storedOf, hq])
  | .assign _ lhs rhs q, p, h => by
    simp only [posOf, List.mem_cons, List.mem_append] at h
    rcases h with h | h | h | h
    · exact h ▸ start_stored _
    · exact Or.inl (by simp [storedOf, h])
    · exact soi_mono (posOfL_stored lhs p h) (by intro q hq; simp [storedOf, hq])
    · exact soi_mono (posOfL_stored rhs p h) (by intro q hq; simp [storedOf, hq])
  | .call _ args np lp rp _, p, h => by
    simp only [posOf, List.mem_cons] at h
    rcases h with h | h | h | h | h
    · exact h ▸ start_stored _
    · exact Or.inl (by simp [storedOf, h])
    · exact Or.inl (by simp [storedOf, h])
    · exact Or.inl (by simp [storedOf, h])
    · exact soi_mono (posOfL_stored args p h) (by intro q hq; simp [storedOf, hq])
  | .slice o a b c _ lb rb, p, h => by
    simp only [posOf, List.mem_cons, List.mem_append] at h
    rcases h with h | h | h | h | h | h | h
    · exact h ▸ start_stored _
    · exact Or.inl (by simp [storedOf, h])
    · exact Or.inl (by simp [storedOf, h])
    · exact soi_mono (posOf_stored o p h) (by intro q hq; simp [storedOf, hq])
    · exact soi_mono (posOfO_stored a p h) (by intro q hq; simp [storedOf, hq])
    · exact soi_mono (posOfO_stored b p h) (by intro q hq; simp [storedOf, hq])
    · exact soi_mono (posOfO_stored c p h) (by intro q hq; simp [storedOf, hq])
  | .ifelse ifs els ep, p, h => by
    simp only [posOf, List.mem_cons, List.mem_append] at h
    rcases h with h | h | h
    · exact h ▸ start_stored _
    · exact soi_mono (posOfIfs_stored ifs p h) (by intro q hq; simp [storedOf, hq])
    · exact soi_mono (posOfOB_stored els p h) (by intro q hq; simp [storedOf, hq])
  | .forS i c l b q, p, h => by
    simp only [posOf, List.mem_cons, List.mem_append] at h
    rcases h with h | h | h | h | h | h
    · exact h ▸ start_stored _
    · exact Or.inl (by simp [storedOf, h])
    · exact soi_mono (posOfO_stored i p h) (by intro q hq; simp [storedOf, hq])
    · exact soi_mono (posOfO_stored c p h) (by intro q hq; simp [storedOf, hq])
    · exact soi_mono (posOfO_stored l p h) (by intro q hq; simp [storedOf, hq])
    · exact soi_mono (posOfOB_stored b p h) (by intro q hq; simp [storedOf, hq])
  | .forIn v it b fp ip, p, h => by
    simp only [posOf, List.mem_cons, List.mem_append] at h
    rcases h with h | h | h | h | h | h
    · exact h ▸ start_stored _
    · exact Or.inl (by simp [storedOf, h])
    · exact Or.inl (by simp [storedOf, h])
    · exact soi_mono (posOf_stored v p h) (by intro q hq; simp [storedOf, hq])
    · exact soi_mono (posOf_stored it p h) (by intro q hq; simp [storedOf, hq])
    · exact soi_mono (posOfOB_stored b p h) (by intro q hq; simp [storedOf, hq])
theorem posOfL_stored : ∀ (l : List Node) (p : Pos), p ∈ posOfL l → StoredOrInvalid (storedOfL l) p
  | [], p, h => by simp [posOfL] at h
  | x :: r, p, h => by
    simp only [posOfL, List.mem_append] at h
    rcases h with h | h
    · exact soi_mono (posOf_stored x p h) (by intro q hq; simp [storedOfL, hq])
    · exact soi_mono (posOfL_stored r p h) (by intro q hq; simp [storedOfL, hq])
theorem posOfO_stored : ∀ (o : Option Node) (p : Pos), p ∈ posOfO o → StoredOrInvalid (storedOfO o) p
  | none, p, h => by simp [posOfO] at h
  | some x, p, h => by simpa only [storedOfO] using posOf_stored x p (by simpa only [posOfO] using h)
theorem posOfKV_stored : ∀ (l : List (Node × Node)) (p : Pos), p ∈ posOfKV l → StoredOrInvalid (storedOfKV l) p
  | [], p, h => by simp [posOfKV] at h
  | (k, v) :: r, p, h => by
    simp only [posOfKV, List.mem_append] at h
    rcases h with h | h | h
    · exact soi_mono (posOf_stored k p h) (by intro q hq; simp [storedOfKV, hq])
    · exact soi_mono (posOf_stored v p h) (by intro q hq; simp [storedOfKV, hq])
    · exact soi_mono (posOfKV_stored r p h) (by intro q hq; simp [storedOfKV, hq])
theorem posOfOB_stored : ∀ (o : Option (List Node)) (p : Pos), p ∈ posOfOB o → StoredOrInvalid (storedOfOB o) p
  | none, p, h => by simp [posOfOB] at h
  | some b, p, h => by simpa only [storedOfOB] using posOfL_stored b p (by simpa only [posOfOB] using h)
theorem posOfIfs_stored : ∀ (l : List (Node × Option (List Node) × Pos)) (p : Pos),
    p ∈ posOfIfs l → StoredOrInvalid (storedOfIfs l) p
  | [], p, h => by simp [posOfIfs] at h
  | (c, b, q) :: r, p, h => by
    simp only [posOfIfs, List.mem_cons, List.mem_append] at h
    rcases h with h | h | h | h
    · exact Or.inl (by simp [storedOfIfs, h])
    · exact soi_mono (posOf_stored c p h) (by intro q hq; simp [storedOfIfs, hq])
    · exact soi_mono (posOfOB_stored b p h) (by intro q hq; simp [storedOfIfs, hq])
    · exact soi_mono (posOfIfs_stored r p h) (by intro q hq; simp [storedOfIfs, hq])
end

theorem mem_posOfL {l : List Node} {p : Pos} (h : p ∈ posOfL l) : ∃ n ∈ l, p ∈ posOf n := by
  induction l with
  | nil => simp [posOfL] at h
  | cons x r ih =>
    simp only [posOfL, List.mem_append] at h
    rcases h with h | h
    · exact ⟨x, List.mem_cons_self, h⟩
    · obtain ⟨n, hn, hp⟩ := ih h
      exact ⟨n, List.mem_cons_of_mem _ hn, hp⟩


theorem located_single_script {env : Env} (hb : ∀ site, env.bound site = none) {name : Bytes}
    {P : Pos → Prop} {c : List (Bytes × Pos)} (hl : Located env name P c) :
    ∀ link ∈ c, link.1 = name ∧ P link.2 := by
  induction hl with
  | here hp => intro link hm; rw [List.mem_singleton.1 hm]; exact ⟨rfl, hp⟩
  | wrap _ hp ih =>
    intro link hm
    rcases List.mem_append.1 hm with hm | hm
    · exact ih link hm
    · rw [List.mem_singleton.1 hm]; exact ⟨rfl, hp⟩
  | used hbound _ _ _ => rw [hb] at hbound; cases hbound


end Platypus.ErrPos
