import Platypus.Proofs.V2Base
import Platypus.Proofs.PanicBytes
/-!
Agreement of the two expression evaluators on the shared expression language: at every fuel `f`
of the v1 evaluator (and every fuel of the v2 one), by induction on `f`.
-/
set_option linter.unusedSimpArgs false
namespace Platypus.V2Agree
open Platypus Platypus.V2 Platypus.MachineProofs Platypus.PanicProofs

/-- a value that is neither nil-valued nor of nil or invalid type -/
def NN (a : TV) : Prop := a.v ≠ .nil ∧ a.t ≠ .invalid ∧ a.t ≠ .nil

theorem NN.tagNil {a : TV} (h : NN a) : TagNil a := by
  unfold TagNil
  constructor
  · intro e; exact absurd e h.1
  · rintro (e | e)
    · exact absurd e h.2.1
    · exact absurd e h.2.2

/-- v1 returns `a`; v2 leaves exactly `a` in the registers; `a` is well tagged -/
def RV (_e : Node) : TV → Unit → St → Prop := fun a _ s' => s'.task.regs = [a] ∧ TagNil a
/-- both return the same value -/
def RE (_e : Node) : TV → TV → St → Prop := fun a b _ => a = b ∧ TagNil a

theorem unop_nn {h : Heap} {op : UOp} {x r : TV} (hr : unop h op x = .ok r) : NN r := by
  unfold unop at hr
  repeat' split at hr
  all_goals first
    | (cases hr; exact ⟨by simp, by simp, by simp⟩)
    | simp at hr

theorem arith_nn {op : AOp} {l r v : TV} (hv : arith op l r = .ok v) : NN v := by
  unfold arith at hv
  repeat' split at hv
  all_goals first
    | (cases hv; exact ⟨by simp, by simp, by simp⟩)
    | simp at hv

theorem condOp_nn {h : Heap} {op : COp} {l r v : TV} (hv : condOp h op l r = .ok v) : NN v := by
  unfold condOp at hv
  repeat' split at hv
  all_goals first
    | (cases hv; exact ⟨by simp, by simp, by simp⟩)
    | simp at hv

theorem inOp_nn {h : Heap} {l r v : TV} (hv : inOp h l r = .ok v) : NN v := by
  unfold inOp at hv
  repeat' split at hv
  all_goals first
    | (cases hv; exact ⟨by simp, by simp, by simp⟩)
    | simp at hv

variable {env : Env} {pt : Point} {BL BR BL1 BR1 : Prop}

theorem sim_getRet {e : Node} {P : St → Prop} {r1 : Res TV} {r2 : Res Unit} (p : Pos)
    (h : Sim pt BL BR (fun a b s' => RV e a b s' ∧ P s') r1 r2) :
    Sim pt BL BR (fun a b s' => RE e a b s' ∧ P s') r1 (rbind r2 (fun _ => getRet p)) := by
  cases h with
  | ok h =>
    rename_i a b s
    have : getRet p s = .ok a s := by simp [getRet, h.1.1]
    rw [rbind_ok, this]
    exact .ok ⟨⟨rfl, h.1.2⟩, h.2⟩
  | err => exact .err
  | panic => exact .panic
  | need => exact .need
  | fuelL h => exact .fuelL h
  | fuelR h => exact .fuelR h
  | fuelB => exact .fuelB
  | undef h => exact .undef h

theorem SimM.getRet_bind {γ δ} {R' : γ → δ → St → Prop} {e : Node} {m1 : EM TV} {m2 : EM Unit}
    {k1 : TV → EM γ} {k2 : TV → EM δ} {s : St} (p : Pos) (h : SimM pt BL1 BR1 (RV e) m1 m2 s)
    (hk : ∀ a s', TagNil a → SimM pt BL BR R' (k1 a) (k2 a) s')
    (hL : BL → BL1 := by bnd) (hR : BR → BR1 := by bnd) :
    SimM pt BL BR R' (m1 >>= k1) (m2 >>= fun _ => getRet p >>= k2) s := by
  refine SimM.bind h (fun a b s' hab => ?_) hL hR
  have : getRet p s' = .ok a s' := by simp [getRet, hab.1]
  intro hs
  rw [bind_apply, this, rbind_ok]
  exact hk a s' hab.2 hs

theorem B_multi : B "multi" = [109, 117, 108, 116, 105] := by
  show bytesOf "multi" = _
  rw [show "multi" = String.ofList ['m','u','l','t','i'] from rfl, bytesOf_ofList]
  decide

theorem ofName_probe {name : Bytes} (hp : isProbe name) :
    ∃ fn, Fn.ofName name = some fn ∧ (fn = .p ∨ fn = .pr ∨ fn = .void) ∧ (fn = .pr ↔ name = B "pr") ∧
      name ≠ B "len" ∧ name ≠ B "multi" := by
  rcases hp with rfl | rfl | rfl
  · exact ⟨.p, by rw [ofName_eq, B_p]; rfl, .inl rfl, by rw [B_p, B_pr]; simp, by rw [B_p, B_len]; simp, by rw [B_p, B_multi]; simp⟩
  · exact ⟨.pr, by rw [ofName_eq, B_pr]; rfl, .inr (.inl rfl), by simp, by rw [B_pr, B_len]; simp, by rw [B_pr, B_multi]; simp⟩
  · exact ⟨.void, by rw [ofName_eq, B_void]; rfl, .inr (.inr rfl), by rw [B_void, B_pr]; simp, by rw [B_void, B_len]; simp, by rw [B_void, B_multi]; simp⟩

/-- the value of a probe call: `pr(x, …)` yields `x` in both interpreters -/
def RC (env : Env) (name : Bytes) (args : List Node) : TV → Unit → St → Prop :=
  fun a _ s' => name = B "pr" → args ≠ [] → env.fns.contains name = true → s'.task.regs = [a] ∧ TagNil a

theorem call_sim {f : Nat}
    (hl : ∀ g xs s, (∀ x, x ∈ xs → SharedE x) →
      SimM pt (f ≥ g + 2) (g ≥ 2 * f + 1) (fun a b _ => a = b ∧ a.length = xs.length ∧ ∀ v, v ∈ a → TagNil v) (evalList env f xs) (valuesOf env g xs) s)
    (g : Nat) (name : Bytes) (args : List Node) (np lp rp : Pos) (site : Nat) (s : St)
    (hp : isProbe name) (hargs : ∀ x, x ∈ args → SharedE x) :
    SimM pt (f ≥ g + 1) (g ≥ 2 * f + 2) (RC env name args) (evalCall env (f+2) name args np site)
      (runExpr env (g+1) (.call name args np lp rp site)) s := by
  intro hs
  simp only [runExpr, bind_apply, retSet, modTask_apply, rbind_ok]
  by_cases hreg : env.fns.contains name = true
  · obtain ⟨fn, hof, hfn, hpr, hlen, hmulti⟩ := ofName_probe hp
    simp only [evalCall, hreg, hof]
    cases g with
    | zero => rw [call2]; simp only [Bool.not_true, Bool.false_eq_true, if_false]; exact Sim.fuelR (by bnd)
    | succ g =>
    have h0 : SimM pt (f ≥ g + 1 + 1) (g + 1 ≥ 2 * f + 2) _ _ _ _ :=
      (hl g args { s with task := { s.task with regs := [] } } hargs).w
    have h := h0 hs
    rw [show proj pt { s with task := { s.task with regs := [] } } = proj pt s from rfl] at h
    simp only [Bool.not_true, Bool.false_eq_true, if_false, call2, bind_apply]
    rcases hfn with rfl | rfl | rfl
    all_goals
      rw [builtin.eq_def]
      simp only [bind_apply]
      revert h
      generalize evalList env f args (proj pt s) = r1
      generalize valuesOf env g args _ = r2
      intro h
      cases h with
      | ok h =>
        obtain ⟨⟨rfl, hvs, htag⟩, hs'⟩ := h
        rename_i vs s'
        first
          | (have hn : name ≠ B "pr" := fun h => by have := hpr.2 h; cases this
             simp [bind_apply, getS_apply, modWorld_apply, hlen, hn, hmulti, modTask_apply, retSet, pure_apply]
             exact Sim.ok' rfl ⟨fun h => absurd h hn, hs'⟩)
          | (have hn : name = B "pr" := hpr.1 rfl
             subst hn
             cases vs with
             | nil =>
               simp [bind_apply, getS_apply, modWorld_apply, B_pr, B_len, B_multi, modTask_apply, retSet, pure_apply]
               refine Sim.ok' rfl ⟨?_, hs'⟩
               intro _ ha
               exact absurd (List.length_eq_zero_iff.1 hvs.symm) ha
             | cons v r =>
               simp [bind_apply, getS_apply, modWorld_apply, B_pr, B_len, B_multi, modTask_apply, retSet, pure_apply]
               exact Sim.ok' rfl ⟨fun _ _ _ => ⟨rfl, htag v List.mem_cons_self⟩, hs'⟩)
      | err => exact Sim.err' rfl rfl
      | panic => exact .panic
      | need => exact .need
      | fuelL h => exact .fuelL h
      | fuelR h => exact .fuelR h
      | fuelB => exact .fuelB
      | undef h => exact .undef h
  · have hreg' : env.fns.contains name = false := by simpa using hreg
    simp only [evalCall, hreg', Bool.not_false, if_true, pure_apply]
    exact Sim.ok' rfl ⟨fun _ _ h => (by rw [hreg'] at h; cases h), hs⟩

/-- the contracts of the mutually recursive evaluator functions at v1 fuel `f` (any v2 fuel) -/
structure IH (env : Env) (pt : Point) (f : Nat) : Prop where
  node : ∀ g e s, SharedE e → SimM pt (f ≥ g + 3) (g ≥ 2 * f) (RV e) (evalNode env f e) (runExpr env g e) s
  list : ∀ f', f' ≤ f → ∀ g xs s, (∀ x, x ∈ xs → SharedE x) →
    SimM pt (f' ≥ g + 2) (g ≥ 2 * f' + 1) (fun a b _ => a = b ∧ a.length = xs.length ∧ ∀ v, v ∈ a → TagNil v) (evalList env f' xs) (valuesOf env g xs) s
  mapLit : ∀ g (kvs : List (Node × Node)) acc s, (∀ kv, kv ∈ kvs → SharedE kv.1) → (∀ kv, kv ∈ kvs → SharedE kv.2) →
    SimM pt (f ≥ g + 2) (g ≥ 2 * f + 1) (fun a b _ => a = b) (evalMapLit env f kvs acc) (mapLit env g kvs acc) s
  search : ∀ g cur idx s, (∀ x, x ∈ idx → SharedE x) →
    SimM pt (f ≥ g + 2) (g ≥ 2 * f + 1) (fun a b _ => b = some a ∧ TagNil a) (searchLM env f cur idx) (searchLM2 env g cur idx) s
  change : ∀ g cur idx val s, (∀ x, x ∈ idx → SharedE x) →
    SimM pt (f ≥ g + 2) (g ≥ 2 * f + 1) (fun _ _ _ => True) (changeLM env f cur idx val) (changeLM2 env g cur idx val) s
  slice : ∀ g obj st en sp s, SharedE obj →
    (∀ e, st = some e → SharedE e) → (∀ e, en = some e → SharedE e) → (∀ e, sp = some e → SharedE e) →
    SimM pt (f ≥ g + 2) (g ≥ 2 * f + 1) (fun a _ s' => s'.task.regs = [a] ∧ NN a) (evalSlice env f obj st en sp) (slice2 env g obj st en sp) s

section
variable {f : Nat}

theorem value_sim (ih : IH env pt f) (g : Nat) (e : Node) (s : St) (he : SharedE e) :
    SimM pt (f ≥ g + 2) (g ≥ 2 * f + 1) (RE e) (evalNode env f e) (valueOf env g e) s := by
  cases g with
  | zero => rw [valueOf]; exact SimM.fuelR _ _
  | succ g =>
    rw [valueOf]
    intro hs
    rw [bind_apply]
    exact sim_getRet _ (Sim.weaken (ih.node g e s he hs) (by bnd) (by bnd))

theorem evalNode_step (hpt : NoKeys pt) (hprReg : env.fns.contains (B "pr") = true) (ih : IH env pt f) (g : Nat) (e : Node) (s : St) (he : SharedE e) :
    SimM pt (f + 1 ≥ g + 3) (g ≥ 2 * (f + 1)) (RV e) (evalNode env (f+1) e) (runExpr env g e) s := by
  cases g with
  | zero => rw [runExpr]; exact SimM.fuelR _ _
  | succ g =>
  cases he
  case intLit v p => simp only [evalNode, runExpr]; exact SimM.ret ⟨rfl, by simp [TagNil]⟩
  case floatLit v p => simp only [evalNode, runExpr]; exact SimM.ret ⟨rfl, by simp [TagNil]⟩
  case boolLit v p => simp only [evalNode, runExpr]; exact SimM.ret ⟨rfl, by simp [TagNil]⟩
  case strLit v p => simp only [evalNode, runExpr]; exact SimM.ret ⟨rfl, by simp [TagNil]⟩
  case nilLit p => simp only [evalNode, runExpr]; exact SimM.ret ⟨rfl, tagNil_nil⟩
  case ident name p hn =>
    simp only [evalNode, runExpr]
    refine SimM.withInv fun hs => ?_
    refine SimM.getS ?_
    rw [getKey_proj hpt s hn]
    cases hv : getVar s name with
    | none => exact SimM.undef _ _ _
    | some v => exact SimM.ret ⟨rfl, scOK_get hs hv⟩
  case paren e lp rp he =>
    simp only [evalNode, runExpr]
    exact (ih.node g e s he).mono fun a b s' h => h
  case unary e op p he =>
    simp only [evalNode, runExpr]
    refine SimM.bind (value_sim ih g e s he) fun a b s1 hab => ?_
    obtain ⟨rfl, _⟩ := hab
    refine SimM.getS ?_
    simp only [proj_heap]
    cases hr : unop s1.world.heap op a with
    | ok r => exact SimM.ret ⟨rfl, (unop_nn hr).tagNil⟩
    | error m => exact SimM.runErr _ _ _
  case arith l r op p hl hr =>
    simp only [evalNode, runExpr]
    refine SimM.bind (value_sim ih g l s hl) fun a b s1 hab => ?_
    obtain ⟨rfl, _⟩ := hab
    refine SimM.bind (value_sim ih g r s1 hr) fun b b' s2 hb => ?_
    obtain ⟨rfl, _⟩ := hb
    cases hv : arith op a b with
    | ok v => exact SimM.ret ⟨rfl, (arith_nn hv).tagNil⟩
    | error m => exact SimM.runErr _ _ _
  case cond l r op p hl hr =>
    simp only [evalNode, runExpr]
    refine SimM.bind (value_sim ih g l s hl) fun a b s1 hab => ?_
    obtain ⟨rfl, _⟩ := hab
    by_cases h1 : a.t = .bool ∧ op = .or ∧ a.v.toBool = true
    · rw [if_pos h1, if_pos h1]
      exact SimM.ret ⟨rfl, by simp [TagNil]⟩
    rw [if_neg h1, if_neg h1]
    by_cases h2 : a.t = .bool ∧ op = .and ∧ (!a.v.toBool) = true
    · rw [if_pos h2, if_pos h2]
      exact SimM.ret ⟨rfl, by simp [TagNil]⟩
    rw [if_neg h2, if_neg h2]
    refine SimM.bind (value_sim ih g r s1 hr) fun b b' s2 hb => ?_
    obtain ⟨rfl, _⟩ := hb
    refine SimM.getS ?_
    simp only [proj_heap]
    cases hv : condOp s2.world.heap op a b with
    | ok v => exact SimM.ret ⟨rfl, (condOp_nn hv).tagNil⟩
    | error m => exact SimM.runErr _ _ _
  case inE l r p hl hr =>
    simp only [evalNode, runExpr]
    refine SimM.bind (value_sim ih g l s hl) fun a b s1 hab => ?_
    obtain ⟨rfl, _⟩ := hab
    refine SimM.getRet_bind _ (ih.node g r s1 hr) fun b s2 _ => ?_
    refine SimM.getS ?_
    simp only [proj_heap]
    cases hv : inOp s2.world.heap a b with
    | ok v => exact SimM.ret ⟨rfl, (inOp_nn hv).tagNil⟩
    | error m => exact SimM.runErr _ _ _
  case list xs lb rb hxs =>
    simp only [evalNode, runExpr]
    refine SimM.bind (ih.list f (Nat.le_refl _) g xs s hxs) fun vs vs' s1 hvs => ?_
    obtain ⟨rfl, -⟩ := hvs
    refine SimM.getS ?_
    simp only [proj_heap, Heap.alloc]
    refine SimM.modWorld_bind rfl ?_
    exact SimM.ret ⟨rfl, by simp [TagNil]⟩
  case map kvs lb rb hk hv =>
    simp only [evalNode, runExpr]
    refine SimM.bind (ih.mapLit g kvs [] s hk hv) fun m m' s1 hm => ?_
    subst hm
    refine SimM.getS ?_
    simp only [proj_heap, Heap.alloc]
    refine SimM.modWorld_bind rfl ?_
    exact SimM.ret ⟨rfl, by simp [TagNil]⟩
  case slice obj st en sp c2 lb rb h1 h2 h3 h4 =>
    simp only [evalNode, runExpr]
    exact (ih.slice g obj st en sp s h1 h2 h3 h4).mono fun a b s' h => ⟨h.1, h.2.tagNil⟩
  case index name idx p lbs rbs hn hidx =>
    simp only [evalNode, runExpr]
    refine SimM.getS ?_
    rw [getKey_proj hpt s hn]
    cases hv : getVar s name with
    | none => exact SimM.runErr _ _ _
    | some v =>
      obtain ⟨vv, vt⟩ := v
      simp only [proj_heap]
      have key : ∀ a, SimM pt (f + 1 ≥ g + 1 + 3) (g + 1 ≥ 2 * (f + 1)) (RV (Node.index (some (name, p)) idx lbs rbs)) (searchLM env f (Val.ref a) idx)
          (do let r ← searchLM2 env g (Val.ref a) idx
              match r with
                | some x => retSet [x]
                | none => pure ()) s := by
        intro a
        refine SimM.bind_r (ih.search g (.ref a) idx s hidx) fun x r s1 hr => ?_
        obtain ⟨rfl, ht⟩ := hr
        exact SimM.ret ⟨rfl, ht⟩
      cases vt <;> cases vv <;> simp only [] <;> first
        | exact SimM.runErr _ _ _
        | (rename_i a
           cases hg : s.world.heap.get? a with
           | none => exact SimM.runErr _ _ _
           | some o => cases o <;> first | exact key a | exact SimM.runErr _ _ _)
  case callPr args np lp rp site hne hargs =>
    simp only [evalNode]
    cases f with
    | zero => rw [evalCall]; exact SimM.fuelL _ _
    | succ f1 =>
    cases f1 with
    | zero =>
      intro _
      simp only [evalCall, hprReg, builtin]
      have : Fn.ofName (B "pr") = some .pr := by rw [ofName_eq, B_pr]; rfl
      simp only [this]
      exact Sim.fuelL (by bnd)
    | succ f2 =>
      refine (call_sim (ih.list f2 (by omega)) g (B "pr") args np lp rp site s (.inr (.inl rfl)) hargs).mono
        fun a b s' h => h rfl hne hprReg
theorem evalList_step (ih : IH env pt f) (f' : Nat) (hf : f' ≤ f + 1) (g : Nat) (xs : List Node) (s : St)
    (hxs : ∀ x, x ∈ xs → SharedE x) :
    SimM pt (f' ≥ g + 2) (g ≥ 2 * f' + 1) (fun a b _ => a = b ∧ a.length = xs.length ∧ ∀ v, v ∈ a → TagNil v) (evalList env f' xs) (valuesOf env g xs) s := by
  by_cases hlt : f' ≤ f
  · exact (ih.list f' hlt g xs s hxs).w
  have : f' = f + 1 := by omega
  subst this
  cases g with
  | zero => rw [valuesOf]; exact SimM.fuelR _ _
  | succ g =>
  cases xs with
  | nil => simp only [evalList, valuesOf]; exact SimM.pure ⟨rfl, rfl, fun _ h => nomatch h⟩
  | cons x r =>
    simp only [evalList, valuesOf]
    refine SimM.bind (value_sim ih g x s (hxs x List.mem_cons_self)) fun a b s1 hab => ?_
    obtain ⟨rfl, hta⟩ := hab
    refine SimM.bind (ih.list f (Nat.le_refl _) g r s1 fun y hy => hxs y (List.mem_cons_of_mem _ hy)) fun vs vs' s2 hvs => ?_
    obtain ⟨rfl, hlen, htag⟩ := hvs
    refine SimM.pure ⟨rfl, by simp [hlen], fun v hv => ?_⟩
    rcases List.mem_cons.1 hv with rfl | hv
    · exact hta
    · exact htag v hv

theorem evalMapLit_step (ih : IH env pt f) (g : Nat) (kvs : List (Node × Node)) (acc : List (Bytes × Val)) (s : St)
    (hk : ∀ kv, kv ∈ kvs → SharedE kv.1) (hv : ∀ kv, kv ∈ kvs → SharedE kv.2) :
    SimM pt (f + 1 ≥ g + 2) (g ≥ 2 * (f + 1) + 1) (fun a b _ => a = b) (evalMapLit env (f+1) kvs acc) (mapLit env g kvs acc) s := by
  cases g with
  | zero => rw [mapLit]; exact SimM.fuelR _ _
  | succ g =>
  cases kvs with
  | nil => simp only [evalMapLit, mapLit]; exact SimM.pure rfl
  | cons kv r =>
    obtain ⟨k, v⟩ := kv
    simp only [evalMapLit, mapLit]
    refine SimM.bind (value_sim ih g k s (hk _ List.mem_cons_self)) fun a b s1 hab => ?_
    obtain ⟨rfl, _⟩ := hab
    cases hkv : a.v <;> simp only [] <;> first
      | exact SimM.runErr _ _ _
      | skip
    refine SimM.bind (value_sim ih g v s1 (hv _ List.mem_cons_self)) fun b b' s2 hb => ?_
    obtain ⟨rfl, _⟩ := hb
    cases hvt : b.t <;> simp only [] <;> first
      | exact SimM.runErr _ _ _
      | exact (ih.mapLit g r _ s2 (fun y hy => hk y (List.mem_cons_of_mem _ hy)) (fun y hy => hv y (List.mem_cons_of_mem _ hy))).w

theorem searchLM_step (ih : IH env pt f) (g : Nat) (cur : Val) (idx : List Node) (s : St)
    (hidx : ∀ x, x ∈ idx → SharedE x) :
    SimM pt (f + 1 ≥ g + 2) (g ≥ 2 * (f + 1) + 1) (fun a b _ => b = some a ∧ TagNil a) (searchLM env (f+1) cur idx) (searchLM2 env g cur idx) s := by
  cases g with
  | zero => rw [searchLM2]; exact SimM.fuelR _ _
  | succ g =>
  cases idx with
  | nil =>
    simp only [searchLM, searchLM2]
    refine SimM.getS ?_
    exact SimM.pure ⟨rfl, tagNil_detect _ _⟩
  | cons i r =>
    have hr : ∀ x, x ∈ r → SharedE x := fun y hy => hidx y (List.mem_cons_of_mem _ hy)
    simp only [searchLM, searchLM2]
    refine SimM.bind (value_sim ih g i s (hidx _ List.mem_cons_self)) fun k k' s1 hk => ?_
    obtain ⟨rfl, _⟩ := hk
    refine SimM.getS ?_
    simp only [proj_heap]
    cases cur <;> simp only [] <;> first
      | exact SimM.runErr _ _ _
      | skip
    rename_i a
    cases hg : s1.world.heap.get? a with
    | none => exact SimM.runErr _ _ _
    | some o =>
      cases o with
      | list xs =>
        simp only []
        by_cases hkt : k.t ≠ .int
        · rw [if_pos hkt, if_pos hkt]; exact SimM.runErr _ _ _
        rw [if_neg hkt, if_neg hkt]
        cases hj : listIndex xs.length k.v.toI64 with
        | none => exact SimM.runErr _ _ _
        | some j => exact (ih.search g _ r s1 hr).w
      | map kvs =>
        simp only []
        by_cases hkt : k.t ≠ .str
        · rw [if_pos hkt, if_pos hkt]; exact SimM.runErr _ _ _
        rw [if_neg hkt, if_neg hkt]
        cases hkv : k.v <;> simp only [] <;> first
          | exact SimM.panicE _ _
          | skip
        rename_i key
        cases hl : alookup key kvs with
        | none => exact SimM.pure ⟨rfl, tagNil_nil⟩
        | some v => exact (ih.search g _ r s1 hr).w

theorem changeLM_step (ih : IH env pt f) (g : Nat) (cur : Val) (idx : List Node) (val : TV) (s : St)
    (hidx : ∀ x, x ∈ idx → SharedE x) :
    SimM pt (f + 1 ≥ g + 2) (g ≥ 2 * (f + 1) + 1) (fun _ _ _ => True) (changeLM env (f+1) cur idx val) (changeLM2 env g cur idx val) s := by
  cases g with
  | zero => rw [changeLM2]; exact SimM.fuelR _ _
  | succ g =>
  cases idx with
  | nil =>
    simp only [changeLM, changeLM2]
    exact SimM.pure trivial
  | cons i r =>
    have hr : ∀ x, x ∈ r → SharedE x := fun y hy => hidx y (List.mem_cons_of_mem _ hy)
    simp only [changeLM, changeLM2]
    refine SimM.bind (value_sim ih g i s (hidx _ List.mem_cons_self)) fun k k' s1 hk => ?_
    obtain ⟨rfl, _⟩ := hk
    refine SimM.getS ?_
    simp only [proj_heap]
    cases cur <;> simp only [] <;> first
      | exact SimM.runErr _ _ _
      | skip
    rename_i a
    cases hg : s1.world.heap.get? a with
    | none => exact SimM.runErr _ _ _
    | some o =>
      cases o with
      | list xs =>
        simp only []
        by_cases hkt : k.t ≠ .int
        · rw [if_pos hkt, if_pos hkt]; exact SimM.runErr _ _ _
        rw [if_neg hkt, if_neg hkt]
        cases hj : listIndex xs.length k.v.toI64 with
        | none => exact SimM.runErr _ _ _
        | some j =>
          simp only []
          cases hre : r.isEmpty
          · exact (ih.change g _ r val s1 hr).w
          · exact SimM.modWorld_pure rfl trivial
      | map kvs =>
        simp only []
        by_cases hkt : k.t ≠ .str
        · rw [if_pos hkt, if_pos hkt]; exact SimM.runErr _ _ _
        rw [if_neg hkt, if_neg hkt]
        cases hkv : k.v <;> simp only [] <;> first
          | exact SimM.panicE _ _
          | skip
        rename_i key
        cases hre : r.isEmpty
        · simp only [Bool.false_eq_true, if_false]
          cases hl : alookup key kvs with
          | none => exact SimM.runErr _ _ _
          | some v => exact (ih.change g _ r val s1 hr).w
        · exact SimM.modWorld_pure rfl trivial

theorem map_apply' {α β} (g : α → β) (m : EM α) (s : St) :
    (g <$> m) s = rbind (m s) (fun a => pure (g a)) := by
  show EM.bind m _ s = _
  unfold EM.bind
  cases m s <;> rfl

theorem optValue_sim (ih : IH env pt f) (g : Nat) (st : Option Node) (s : St)
    (h1 : ∀ e, st = some e → SharedE e) :
    SimM pt (f ≥ g + 2) (g ≥ 2 * f + 1) (fun a b _ => a = b ∧ ∀ tv, a = some tv → TagNil tv)
      (match (generalizing := false) st with | some e => some <$> evalNode env f e | none => pure none)
      (match (generalizing := false) st with | some e => some <$> valueOf env g e | none => pure none) s := by
  cases st with
  | none => exact SimM.pure ⟨rfl, fun _ h => nomatch h⟩
  | some e =>
    simp only []
    intro hs
    rw [map_apply', map_apply']
    refine Sim.rbind (value_sim ih g e s (h1 e rfl) hs) fun a b s1 hab => ?_
    obtain ⟨⟨rfl, hn⟩, hs1⟩ := hab
    exact Sim.ok ⟨⟨rfl, fun tv h => by cases h; exact hn⟩, hs1⟩

/-- a slice bound: v1 decides "omitted" by the value, v2 by the tag; they agree on well-tagged values -/
theorem bound_sim (x : Option TV) (p : Pos) (what : String) (s : St) (hx : ∀ tv, x = some tv → TagNil tv) :
    SimM pt BL BR (fun a b _ => a = b)
      (match (generalizing := false) x with
        | none => (pure none : EM (Option Int))
        | some tv =>
          if tv.v = Val.nil then pure none
          else if tv.t ≠ DType.int then runErr p (what ++ "-not-int") else pure (some tv.v.toI64))
      (match (generalizing := false) x with
        | none => (pure none : EM (Option Int))
        | some tv =>
          if tv.t = .invalid || tv.t = .nil then pure none
          else if tv.t ≠ DType.int then runErr p (what ++ "-not-int") else pure (some tv.v.toI64)) s := by
  cases x with
  | none => exact SimM.pure rfl
  | some tv =>
    have h := hx tv rfl
    simp only []
    by_cases hv : tv.v = Val.nil
    · have hc : (decide (tv.t = DType.invalid) || decide (tv.t = DType.nil)) = true := by
        rcases h.1 hv with e | e <;> simp [e]
      rw [if_pos hv, if_pos hc]
      exact SimM.pure rfl
    · have hc : ¬ (decide (tv.t = DType.invalid) || decide (tv.t = DType.nil)) = true := by
        intro hc
        simp only [Bool.or_eq_true, decide_eq_true_eq] at hc
        exact hv (h.2 hc)
      rw [if_neg hv, if_neg hc]
      by_cases ht : tv.t ≠ DType.int
      · rw [if_pos ht]; exact SimM.runErr _ _ _
      · rw [if_neg ht]; exact SimM.pure rfl

theorem evalSlice_step (ih : IH env pt f) (g : Nat) (obj : Node) (st en sp : Option Node) (s : St)
    (ho : SharedE obj)
    (h1 : ∀ e, st = some e → SharedE e) (h2 : ∀ e, en = some e → SharedE e) (h3 : ∀ e, sp = some e → SharedE e)
    :
    SimM pt (f + 1 ≥ g + 2) (g ≥ 2 * (f + 1) + 1) (fun a _ s' => s'.task.regs = [a] ∧ NN a) (evalSlice env (f+1) obj st en sp) (slice2 env g obj st en sp) s := by
  cases g with
  | zero => rw [slice2]; exact SimM.fuelR _ _
  | succ g =>
    simp only [evalSlice, slice2]
    refine SimM.bind (value_sim ih g obj s ho) fun o o' s1 hab => ?_
    obtain ⟨rfl, -⟩ := hab
    refine SimM.bind (optValue_sim ih g st s1 h1) fun sv sv' s2 hsv => ?_
    obtain ⟨rfl, hsv⟩ := hsv
    refine SimM.bind (optValue_sim ih g en s2 h2) fun ev ev' s3 hev => ?_
    obtain ⟨rfl, hev⟩ := hev
    refine SimM.bind (optValue_sim ih g sp s3 h3) fun pv pv' s4 hpv => ?_
    obtain ⟨rfl, hpv⟩ := hpv
    refine SimM.getS ?_
    simp only [proj_heap]
    obtain ⟨ov, ot⟩ := o
    cases ot <;> cases ov <;> simp only [] <;> first
      | exact SimM.runErr _ _ _
      | exact SimM.panicE _ _
      | skip
    · rename_i b
      by_cases hlen : ((List.length b : Nat) : Int) ≥ 4611686018427387904
      · rw [if_pos hlen, if_pos hlen]; exact SimM.fuelB _
      rw [if_neg hlen, if_neg hlen]
      refine SimM.bind (bound_sim pv _ _ s4 hpv) fun stepI stepI' s5 h => ?_
      subst h
      by_cases hz : stepI = some 0
      · rw [if_pos hz, if_pos hz]; exact SimM.runErr _ _ _
      rw [if_neg hz, if_neg hz]
      refine SimM.bind (bound_sim sv _ _ s5 hsv) fun startI startI' s6 h => ?_
      subst h
      refine SimM.bind (bound_sim ev _ _ s6 hev) fun endI endI' s7 h => ?_
      subst h
      exact SimM.ret ⟨rfl, by simp, by simp, by simp⟩
    · rename_i a
      cases hg : s4.world.heap.get? a with
      | none => exact SimM.panicE _ _
      | some ob =>
        cases ob with
        | map kvs => exact SimM.panicE _ _
        | list xs =>
          simp only []
          by_cases hlen : ((List.length xs : Nat) : Int) ≥ 4611686018427387904
          · rw [if_pos hlen, if_pos hlen]; exact SimM.fuelB _
          rw [if_neg hlen, if_neg hlen]
          refine SimM.bind (bound_sim pv _ _ s4 hpv) fun stepI stepI' s5 h => ?_
          subst h
          by_cases hz : stepI = some 0
          · rw [if_pos hz, if_pos hz]; exact SimM.runErr _ _ _
          rw [if_neg hz, if_neg hz]
          refine SimM.bind (bound_sim sv _ _ s5 hsv) fun startI startI' s6 h => ?_
          subst h
          refine SimM.bind (bound_sim ev _ _ s6 hev) fun endI endI' s7 h => ?_
          subst h
          split
          · exact SimM.panicE _ _
          · refine SimM.modWorld_bind rfl ?_
            exact SimM.ret ⟨rfl, by simp, by simp, by simp⟩

end

/-- `pr` is registered in the function table (otherwise a call `pr(x)` yields no value) -/
def PrRegistered (env : Env) : Prop := env.fns.contains (B "pr") = true

theorem ih_all (hpt : NoKeys pt) (hpr : PrRegistered env) : ∀ f, IH env pt f := by
  intro f
  induction f with
  | zero =>
    refine ⟨?_, ?_, ?_, ?_, ?_, ?_⟩
    · intro g e s _; rw [evalNode]; exact SimM.fuelL _ _
    · intro f' hf g xs s _
      have : f' = 0 := by omega
      subst this
      rw [evalList]; exact SimM.fuelL _ _
    · intro g kvs acc s _ _; rw [evalMapLit]; exact SimM.fuelL _ _
    · intro g cur idx s _; rw [searchLM]; exact SimM.fuelL _ _
    · intro g cur idx val s _; rw [changeLM]; exact SimM.fuelL _ _
    · intro g obj st en sp s _ _ _ _; rw [evalSlice]; exact SimM.fuelL _ _
  | succ f ih =>
    exact ⟨evalNode_step hpt hpr ih, evalList_step ih, evalMapLit_step ih, searchLM_step ih, changeLM_step ih,
      evalSlice_step ih⟩

end Platypus.V2Agree
