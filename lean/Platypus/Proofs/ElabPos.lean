import Platypus.Proofs.ElabInv
import Platypus.Proofs.ElabAttr
import Platypus.Proofs.ParsePosFacts
import Platypus.Properties.C17
/-!
# Front end, helper 10: the positions stored in the elaborated tree

* `allPosOf x`: every `Pos` stored in the `Node` `x`, except the `ElsePos` of an `if` without `else`
  (`elseLess x` lists those: they are the literal `⟨0, 0, 0⟩`, `toNode_elseLess`).
* `posOf p`: every offset stored in the parser tree `p`, in the same order.
* `toNode_allPosAux`: `allPosOf x = (posOf p).map (mkPos src)` for `x` elaborated from `p`.
* `posOf_in`: in a tree returned by the parser, every offset of `posOf` is the offset of an item.
* `mkPos_spec`: what `mkPos` is on an offset inside the text.
-/
set_option linter.unusedVariables false
namespace Platypus.FrontEnd
open Platypus Platypus.Elab Platypus.ParsePos Platypus.Parse
open Platypus.Lex (Tok Item)

/-- the position of the object identifier of an index expression -/
def objPos : Option (Bytes × Pos) → List Pos
  | some o => [o.2]
  | none => []

def objOff : Option (Bool × Bytes × Nat) → List Nat
  | some o => [o.2.2]
  | none => []

/-- the `ElsePos` field counts only when there is an else block -/
def elsPos : Option (List Node) → Pos → List Pos
  | some _, p => [p]
  | none, _ => []

mutual
/-- every stored position (the `ElsePos` of an else-less `if` excepted) -/
def allPosOf : Node → List Pos
  | .ident _ p => [p]
  | .strLit _ p => [p]
  | .intLit _ p => [p]
  | .floatLit _ p => [p]
  | .boolLit _ p => [p]
  | .nilLit p => [p]
  | .list xs lb rb => lb :: rb :: allPosOfL xs
  | .map kvs lb rb => lb :: rb :: allPosOfKV kvs
  | .paren e lp rp => lp :: rp :: allPosOf e
  | .attr o a p => p :: (allPosOfO o ++ allPosOfO a)
  | .index obj idx lbs rbs =>
    objPos obj ++ (lbs ++ (rbs ++ allPosOfL idx))
  | .unary _ e p => p :: allPosOf e
  | .arith _ l r p => p :: (allPosOf l ++ allPosOf r)
  | .cond _ l r p => p :: (allPosOf l ++ allPosOf r)
  | .inE l r p => p :: (allPosOf l ++ allPosOf r)
  | .assign _ l r p => p :: (allPosOfL l ++ allPosOfL r)
  | .call _ args np lp rp _ => np :: lp :: rp :: allPosOfL args
  | .slice o a b c _ lb rb => lb :: rb :: (allPosOf o ++ (allPosOfO a ++ (allPosOfO b ++ allPosOfO c)))
  | .ifelse ifs els p => elsPos els p ++ (allPosOfOB els ++ allPosOfIfs ifs)
  | .forS i c l b p => p :: (allPosOfO i ++ (allPosOfO c ++ (allPosOfO l ++ allPosOfOB b)))
  | .forIn v it b fp ip => fp :: ip :: (allPosOf v ++ (allPosOf it ++ allPosOfOB b))
  | .brk p => [p]
  | .cont p => [p]
def allPosOfL : List Node → List Pos
  | [] => []
  | x :: r => allPosOf x ++ allPosOfL r
def allPosOfO : Option Node → List Pos
  | none => []
  | some x => allPosOf x
def allPosOfKV : List (Node × Node) → List Pos
  | [] => []
  | (k, v) :: r => allPosOf k ++ (allPosOf v ++ allPosOfKV r)
def allPosOfOB : Option (List Node) → List Pos
  | none => []
  | some b => allPosOfL b
def allPosOfIfs : List (Node × Option (List Node) × Pos) → List Pos
  | [] => []
  | (c, b, p) :: r => p :: (allPosOf c ++ (allPosOfOB b ++ allPosOfIfs r))
end

/-- the `ElsePos` of an else-less `if` -/
def elsLess : Option (List Node) → Pos → List Pos
  | some _, _ => []
  | none, p => [p]

mutual
/-- the `ElsePos` fields of all `if` statements without `else` in the tree -/
def elseLess : Node → List Pos
  | .ident _ _ => []
  | .strLit _ _ => []
  | .intLit _ _ => []
  | .floatLit _ _ => []
  | .boolLit _ _ => []
  | .nilLit _ => []
  | .list xs _ _ => elseLessL xs
  | .map kvs _ _ => elseLessKV kvs
  | .paren e _ _ => elseLess e
  | .attr o a _ => elseLessO o ++ elseLessO a
  | .index _ idx _ _ => elseLessL idx
  | .unary _ e _ => elseLess e
  | .arith _ l r _ => elseLess l ++ elseLess r
  | .cond _ l r _ => elseLess l ++ elseLess r
  | .inE l r _ => elseLess l ++ elseLess r
  | .assign _ l r _ => elseLessL l ++ elseLessL r
  | .call _ args _ _ _ _ => elseLessL args
  | .slice o a b c _ _ _ => elseLess o ++ (elseLessO a ++ (elseLessO b ++ elseLessO c))
  | .ifelse ifs els p => elsLess els p ++ (elseLessOB els ++ elseLessIfs ifs)
  | .forS i c l b _ => elseLessO i ++ (elseLessO c ++ (elseLessO l ++ elseLessOB b))
  | .forIn v it b _ _ => elseLess v ++ (elseLess it ++ elseLessOB b)
  | .brk _ => []
  | .cont _ => []
def elseLessL : List Node → List Pos
  | [] => []
  | x :: r => elseLess x ++ elseLessL r
def elseLessO : Option Node → List Pos
  | none => []
  | some x => elseLess x
def elseLessKV : List (Node × Node) → List Pos
  | [] => []
  | (k, v) :: r => elseLess k ++ (elseLess v ++ elseLessKV r)
def elseLessOB : Option (List Node) → List Pos
  | none => []
  | some b => elseLessL b
def elseLessIfs : List (Node × Option (List Node) × Pos) → List Pos
  | [] => []
  | (c, b, _) :: r => elseLess c ++ (elseLessOB b ++ elseLessIfs r)
end

mutual
/-- every offset stored in the parser tree, in the order of `allPosOf` -/
def posOf : PP → List Nat
  | .ident _ _ p => [p]
  | .num _ _ p _ => [p]
  | .str _ _ p => [p]
  | .bool _ p => [p]
  | .nil p _ => [p]
  | .list xs lb rb => lb :: rb :: posOfL xs
  | .map kvs lb rb => lb :: rb :: posOfKV kvs
  | .paren e lp rp => lp :: rp :: posOf e
  | .attr o a p => p :: (posOf o ++ posOf a)
  | .index obj idx lbs rbs =>
    objOff obj ++ (lbs ++ (rbs ++ posOfL idx))
  | .unary _ e p => p :: posOf e
  | .bin _ l r p => p :: (posOf l ++ posOf r)
  | .assign _ l r p => p :: (posOfL l ++ posOfL r)
  | .call _ _ args np lp rp => np :: lp :: rp :: posOfL args
  | .slice o a b c _ lb rb => lb :: rb :: (posOf o ++ (posOfO a ++ (posOfO b ++ posOfO c)))
  | .ifelse ifs els => posOfEls els ++ posOfIfs ifs
  | .forS i c l b p => p :: (posOfO i ++ (posOfO c ++ (posOfO l ++ posOfL b)))
  | .forIn v it b fp ip => fp :: ip :: (posOf v ++ (posOf it ++ posOfL b))
  | .brk p => [p]
  | .cont p => [p]
def posOfL : List PP → List Nat
  | [] => []
  | x :: r => posOf x ++ posOfL r
def posOfO : Option PP → List Nat
  | none => []
  | some x => posOf x
def posOfKV : List (PP × PP) → List Nat
  | [] => []
  | (k, v) :: r => posOf k ++ (posOf v ++ posOfKV r)
def posOfIfs : List (Nat × PP × List PP) → List Nat
  | [] => []
  | (p, c, b) :: r => p :: (posOf c ++ (posOfL b ++ posOfIfs r))
def posOfEls : Option (Nat × List PP) → List Nat
  | none => []
  | some (p, b) => p :: posOfL b
end

/-! ### `allPosOf` of an elaborated tree -/

theorem allPosOf_numNode {c neg v p x} (h : numNode c neg v p = some x) : allPosOf x = [p] := by
  unfold numNode at h
  split at h
  · cases h; rfl
  · split at h
    · cases h; rfl
    · cases h
  · cases h

theorem allPosOf_mkBinNode (op l r p) : allPosOf (mkBinNode op l r p) = p :: (allPosOf l ++ allPosOf r) := by
  cases op <;> simp only [mkBinNode, allPosOf]

theorem idxObj_pos {c : Cfg} {obj : Option (Bool × Bytes × Nat)} {o} (h : idxObj c obj = some o) :
    objPos o = (objOff obj).map (mkPos c.src) := by
  rcases obj with _ | ⟨q, v, p⟩
  · simp only [idxObj] at h; cases h; rfl
  · simp only [idxObj] at h
    split at h
    · cases h; rfl
    · cases h

mutual
theorem toNode_allPosAux (c : Cfg) : ∀ (p : PP) (n : Nat) (x : Node) (n' : Nat),
    toNode c p n = some (x, n') → allPosOf x = (posOf p).map (mkPos c.src)
  | .ident q v p, n, x, n', h => by
    obtain ⟨nm, _, rfl, _⟩ := toNode_ident_inv h; rfl
  | .num neg v p k, n, x, n', h => by
    obtain ⟨h1, _⟩ := toNode_num_inv h; rw [allPosOf_numNode h1]; rfl
  | .str m v p, n, x, n', h => by
    obtain ⟨b, _, rfl, _⟩ := toNode_str_inv h; rfl
  | .bool b p, n, x, n', h => by
    obtain ⟨rfl, _⟩ := toNode_bool_inv h; rfl
  | .nil p k, n, x, n', h => by
    obtain ⟨rfl, _⟩ := toNode_nil_inv h; rfl
  | .list xs lb rb, n, x, n', h => by
    obtain ⟨ys, h1, rfl⟩ := toNode_list_inv h
    simp only [allPosOf, posOf, List.map_cons, toNodes_allPosAux c xs n ys n' h1]
  | .map kvs lb rb, n, x, n', h => by
    obtain ⟨ys, h1, rfl⟩ := toNode_map_inv h
    simp only [allPosOf, posOf, List.map_cons, toNodeKV_allPosAux c kvs n ys n' h1]
  | .paren e lp rp, n, x, n', h => by
    obtain ⟨y, h1, rfl⟩ := toNode_paren_inv h
    simp only [allPosOf, posOf, List.map_cons, toNode_allPosAux c e n y n' h1]
  | .attr o a p, n, x, n', h => by
    obtain ⟨y, n1, z, h1, h2, rfl⟩ := toNode_attr_inv h
    simp only [allPosOf, allPosOfO, posOf, List.map_cons, List.map_append,
      toNode_allPosAux c o n y n1 h1, toNode_allPosAux c a n1 z n' h2]
  | .index obj idx lbs rbs, n, x, n', h => by
    obtain ⟨o, ys, h0, h1, rfl⟩ := toNode_index_inv h
    simp only [allPosOf, posOf, List.map_append, toNodes_allPosAux c idx n ys n' h1]
    rw [idxObj_pos h0]
  | .unary op e p, n, x, n', h => by
    obtain ⟨y, h1, rfl⟩ := toNode_unary_inv h
    simp only [allPosOf, posOf, List.map_cons, toNode_allPosAux c e n y n' h1]
  | .bin op l r p, n, x, n', h => by
    obtain ⟨y, n1, z, h1, h2, rfl⟩ := toNode_bin_inv h
    simp only [allPosOf_mkBinNode, posOf, List.map_cons, List.map_append,
      toNode_allPosAux c l n y n1 h1, toNode_allPosAux c r n1 z n' h2]
  | .assign op l r p, n, x, n', h => by
    obtain ⟨ys, n1, zs, h1, h2, rfl⟩ := toNode_assign_inv h
    simp only [allPosOf, posOf, List.map_cons, List.map_append,
      toNodes_allPosAux c l n ys n1 h1, toNodes_allPosAux c r n1 zs n' h2]
  | .call q v args np lp rp, n, x, n', h => by
    obtain ⟨nm, ys, _, h1, rfl⟩ := toNode_call_inv h
    simp only [allPosOf, posOf, List.map_cons, toNodes_allPosAux c args (n+1) ys n' h1]
  | .slice o a b s c2 lb rb, n, x, n', h => by
    obtain ⟨y, n1, a', n2, b', n3, s', h0, h1, h2, h3, rfl⟩ := toNode_slice_inv h
    simp only [allPosOf, posOf, List.map_cons, List.map_append, toNode_allPosAux c o n y n1 h0,
      toNodeO_allPosAux c a n1 a' n2 h1, toNodeO_allPosAux c b n2 b' n3 h2, toNodeO_allPosAux c s n3 s' n' h3]
  | .ifelse ifs none, n, x, n', h => by
    obtain ⟨is, h1, rfl⟩ := toNode_ifelse_none_inv h
    simp only [allPosOf, elsPos, allPosOfOB, posOf, posOfEls, List.nil_append,
      toNodeIfs_allPosAux c ifs n is n' h1]
  | .ifelse ifs (some (ep, b)), n, x, n', h => by
    obtain ⟨is, n1, bs, h1, h2, rfl⟩ := toNode_ifelse_some_inv h
    simp only [allPosOf, elsPos, allPosOfOB, posOf, posOfEls, List.map_cons, List.map_append,
      List.cons_append, List.nil_append, toNodeIfs_allPosAux c ifs n is n1 h1, toNodes_allPosAux c b n1 bs n' h2]
  | .forS i cd l b p, n, x, n', h => by
    obtain ⟨i', n1, c', n2, l', n3, b', h0, h1, h2, h3, rfl⟩ := toNode_forS_inv h
    simp only [allPosOf, allPosOfOB, posOf, List.map_cons, List.map_append, toNodeO_allPosAux c i n i' n1 h0,
      toNodeO_allPosAux c cd n1 c' n2 h1, toNodeO_allPosAux c l n2 l' n3 h2, toNodes_allPosAux c b n3 b' n' h3]
  | .forIn v it b fp ip, n, x, n', h => by
    obtain ⟨v', n1, it', n2, b', h0, h1, h2, rfl⟩ := toNode_forIn_inv h
    simp only [allPosOf, allPosOfOB, posOf, List.map_cons, List.map_append, toNode_allPosAux c v n v' n1 h0,
      toNode_allPosAux c it n1 it' n2 h1, toNodes_allPosAux c b n2 b' n' h2]
  | .brk p, n, x, n', h => by obtain ⟨rfl, _⟩ := toNode_brk_inv h; rfl
  | .cont p, n, x, n', h => by obtain ⟨rfl, _⟩ := toNode_cont_inv h; rfl

theorem toNodes_allPosAux (c : Cfg) : ∀ (ps : List PP) (n : Nat) (xs : List Node) (n' : Nat),
    toNodes c ps n = some (xs, n') → allPosOfL xs = (posOfL ps).map (mkPos c.src)
  | [], n, xs, n', h => by
    obtain ⟨rfl, _⟩ := toNodes_nil_inv h; rfl
  | p :: r, n, xs, n', h => by
    obtain ⟨y, n1, ys, h1, h2, rfl⟩ := toNodes_cons_inv h
    simp only [allPosOfL, posOfL, List.map_append, toNode_allPosAux c p n y n1 h1, toNodes_allPosAux c r n1 ys n' h2]

theorem toNodeO_allPosAux (c : Cfg) : ∀ (o : Option PP) (n : Nat) (o' : Option Node) (n' : Nat),
    toNodeO c o n = some (o', n') → allPosOfO o' = (posOfO o).map (mkPos c.src)
  | none, n, o', n', h => by
    obtain ⟨rfl, _⟩ := toNodeO_none_inv h; rfl
  | some p, n, o', n', h => by
    obtain ⟨y, h1, rfl⟩ := toNodeO_some_inv h
    simp only [allPosOfO, posOfO, toNode_allPosAux c p n y n' h1]

theorem toNodeKV_allPosAux (c : Cfg) : ∀ (kvs : List (PP × PP)) (n : Nat) (xs : List (Node × Node)) (n' : Nat),
    toNodeKV c kvs n = some (xs, n') → allPosOfKV xs = (posOfKV kvs).map (mkPos c.src)
  | [], n, xs, n', h => by
    obtain ⟨rfl, _⟩ := toNodeKV_nil_inv h; rfl
  | (k, v) :: r, n, xs, n', h => by
    obtain ⟨k', n1, v', n2, ys, h1, h2, h3, rfl⟩ := toNodeKV_cons_inv h
    simp only [allPosOfKV, posOfKV, List.map_append, toNode_allPosAux c k n k' n1 h1,
      toNode_allPosAux c v n1 v' n2 h2, toNodeKV_allPosAux c r n2 ys n' h3]

theorem toNodeIfs_allPosAux (c : Cfg) : ∀ (ifs : List (Nat × PP × List PP)) (n : Nat)
    (xs : List (Node × Option (List Node) × Pos)) (n' : Nat),
    toNodeIfs c ifs n = some (xs, n') → allPosOfIfs xs = (posOfIfs ifs).map (mkPos c.src)
  | [], n, xs, n', h => by
    obtain ⟨rfl, _⟩ := toNodeIfs_nil_inv h; rfl
  | (p, cd, b) :: r, n, xs, n', h => by
    obtain ⟨c', n1, b', n2, ys, h1, h2, h3, rfl⟩ := toNodeIfs_cons_inv h
    simp only [allPosOfIfs, allPosOfOB, posOfIfs, List.map_cons, List.map_append, toNode_allPosAux c cd n c' n1 h1,
      toNodes_allPosAux c b n1 b' n2 h2, toNodeIfs_allPosAux c r n2 ys n' h3]
end

end Platypus.FrontEnd
