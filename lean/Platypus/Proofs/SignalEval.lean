import Platypus.Proofs.SignalMachine
/-!
C14, effects-prefix theorem, part 6: the two evaluators `evalNode (withSig env (some k)) f` and
`evalNode (withSig env later) f` satisfy the hypotheses of the machine lockstep: a `use(…)`
statement runs the callee's statements on the machine at lower fuel.
-/
namespace Platypus.SignalProofs
open Platypus Platypus.MachineProofs

section
variable {k : Nat}

/-- a wrapper around a result that keeps the world of end states and the kind of result -/
theorem R.wrap {α β} {rK rL : Res α} (W : Res α → Res β)
    (hok : ∀ a s, ∃ b s', W (.ok a s) = .ok b s' ∧ s'.world = s.world)
    (herr : ∀ e s, ∃ e' s', W (.err e s) = .err e' s' ∧ s'.world = s.world)
    (hp : ∀ m, W (.panic m) = .panic m) (hf : W .fuel = .fuel) (hn : ∀ q, W (.need q) = .need q)
    (h : R k rK rL) : R k (W rK) (W rL) := by
  rcases h with h | h
  · rw [h]; exact .inl rfl
  · refine .inr (h.step ?_ ?_ ?_)
    · intro e; rw [e, hf]
    · intro a sK e hk
      obtain ⟨b, s', h1, h2⟩ := hok a sK
      rw [e, h1]
      exact .inr ⟨b, s', rfl, by rw [h2]; exact hk, by rw [h2]⟩
    · intro sL' he
      cases hL : rL with
      | ok a sL =>
        obtain ⟨b, s', h1, h2⟩ := hok a sL
        rw [hL, h1] at he
        exact ⟨sL, .inl ⟨a, rfl⟩, by rw [← he.ok, h2]; exact List.suffix_refl _⟩
      | err e sL =>
        obtain ⟨b, s', h1, h2⟩ := herr e sL
        rw [hL, h1] at he
        exact ⟨sL, .inr ⟨e, rfl⟩, by rw [← he.err, h2]; exact List.suffix_refl _⟩
      | panic m => rw [hL, hp] at he; exact absurd he not_ends_panic
      | fuel => rw [hL, hf] at he; exact absurd he not_ends_fuel
      | need q => rw [hL, hn] at he; exact absurd he not_ends_need

end

section
variable {env : Env} {k : Nat} {later : Option Nat}
variable (hl : ∀ k', later = some k' → k ≤ k')
variable (hB : ∀ site c cs, env.bound site = some (c, cs) → StmtsOk cs)
include hl hB

omit hl in
/-- the builtin `use` under the two signals, given the lockstep of the machine at fuel `f` -/
theorem builtin_use_rel {f : Nat} (ih : ∀ g, MRel env k later (evalNode (withSig env (some k)) f) (evalNode (withSig env later) f) g)
    (name : Bytes) (args : List Node) (np : Pos) (site : Nat) :
    Rel2 k (builtin (withSig env (some k)) (f+1) .use name args np site)
      (builtin (withSig env later) (f+1) .use name args np site) := by
  rw [builtin.eq_def, builtin.eq_def]
  simp only [withSig_bound]
  split
  · split
    · exact Rel2.refl _
    · rename_i cname stmts hb
      intro s
      have h := (ih f).stmts stmts (hB _ _ _ hb) { task := { name := cname, scopes := [[]] }, world := s.world }
      dsimp only
      generalize runStmts (withSig env (some k)) (evalNode (withSig env (some k)) f) f stmts
        { task := { name := cname, scopes := [[]] }, world := s.world } = rK at h ⊢
      generalize runStmts (withSig env later) (evalNode (withSig env later) f) f stmts
        { task := { name := cname, scopes := [[]] }, world := s.world } = rL at h ⊢
      refine R.wrap (fun r : Res Unit => match r with
        | .ok _ s' => (.ok () { task := s.task, world := s'.world } : Res Unit)
        | .err e s' => .err (e.append s.task.name np) { task := s.task, world := s'.world }
        | .panic m => .panic m
        | .fuel => .fuel
        | .need q => .need q) ?_ ?_ ?_ ?_ ?_ h
      · intro a s'; exact ⟨_, _, rfl, rfl⟩
      · intro e s'; exact ⟨_, _, rfl, rfl⟩
      · intro m; rfl
      · rfl
      · intro q; rfl
  · exact Rel2.refl _
  · exact Rel2.refl _

omit hl hB in
theorem evalCall_use_rel {f : Nat} (args : List Node) (np : Pos) (site : Nat)
    (hb : Rel2 k (builtin (withSig env (some k)) f .use (B "use") args np site)
      (builtin (withSig env later) f .use (B "use") args np site)) :
    Rel2 k (evalCall (withSig env (some k)) (f+1) (B "use") args np site)
      (evalCall (withSig env later) (f+1) (B "use") args np site) := by
  intro s
  simp only [evalCall, withSig_fns, ofName_use]
  split
  · exact .inl rfl
  · have h := hb s
    generalize builtin (withSig env (some k)) f .use (B "use") args np site s = rK at h ⊢
    generalize builtin (withSig env later) f .use (B "use") args np site s = rL at h ⊢
    refine R.wrap (fun r : Res Unit => match r with
      | .ok _ s' => (.ok (match s'.task.regs with | x :: _ => x | [] => voidTV)
          { s' with task := { s'.task with regs := [] } } : Res TV)
      | .err e s' => .err e { s' with task := { s'.task with regs := [] } }
      | .panic m => .panic m
      | .fuel => .fuel
      | .need q => .need q) ?_ ?_ ?_ ?_ ?_ h
    · intro a s'; exact ⟨_, _, rfl, rfl⟩
    · intro e s'; exact ⟨_, _, rfl, rfl⟩
    · intro m; rfl
    · rfl
    · intro q; rfl

/-- the evaluators of the two runs satisfy the hypotheses of the machine lockstep, at every fuel -/
theorem evrel_all (F : Nat) :
    EvRel k (evalNode (withSig env (some k)) F) (evalNode (withSig env later) F) := by
  induction F using Nat.strongRecOn with
  | _ F ih =>
    refine ⟨fun n h => evalNode_sigFree env (some k) later F n h, ?_, (emono_all (withSig env later) F).node⟩
    intro args np lp rp site
    match F, ih with
    | 0, _ => simp only [evalNode]; exact Rel2.refl _
    | 1, _ => simp only [evalNode, evalCall]; exact Rel2.refl _
    | 2, _ =>
      simp only [evalNode]
      refine evalCall_use_rel args np site ?_
      simp only [builtin]
      exact Rel2.refl _
    | f+3, ih =>
      simp only [evalNode]
      exact evalCall_use_rel args np site
        (builtin_use_rel hB (fun g => mrel_all hl (ih f (by omega)) g) _ args np site)

/-- lockstep of a block of statements over the real evaluator -/
theorem runStmts_lockstep (F g : Nat) (stmts : List Node) (h : StmtsOk stmts) :
    Rel2 k (runStmts (withSig env (some k)) (evalNode (withSig env (some k)) F) g stmts)
      (runStmts (withSig env later) (evalNode (withSig env later) F) g stmts) :=
  (mrel_all hl (evrel_all hl hB F) g).stmts stmts h

end
end Platypus.SignalProofs
