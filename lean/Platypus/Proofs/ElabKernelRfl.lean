import Lean
/-!
# Front end, helper 12: `kernel_rfl`

`Node` and `PP` are nested inductive types without `DecidableEq` (the deriving handler does not
apply), so `decide +kernel` cannot state "this script elaborates to exactly this tree"; and `rfl`
fails in the elaborator because the position cache's binary search is defined by well-founded
recursion (irreducible for the elaborator, not for the kernel).  `kernel_rfl` closes a goal `a = b`
with the proof term `Eq.refl a` *without* asking the elaborator whether `a` and `b` are
definitionally equal: the check is done by the kernel when the theorem is added to the environment
(a wrong right-hand side is rejected there with "declaration type mismatch").  Nothing is assumed: the result is an ordinary kernel-checked proof term.
-/
open Lean Elab Tactic Meta in
/-- close `a = b` with `Eq.refl a`, leaving the definitional-equality check to the kernel -/
elab "kernel_rfl" : tactic => do
  let g ← getMainGoal
  let t ← instantiateMVars (← g.getType)
  let some (_, lhs, _) := t.eq? | throwError "kernel_rfl: the goal is not an equation"
  g.assign (← mkEqRefl lhs)
