import Platypus.Proofs.SignalV2Machine
/-!
C14 for the v2 interpreter, part 4: no error after the observation.  In the run interrupted at poll
`k`, every script error is raised in a state whose poll counter is still below `k`: every
evaluation is preceded by a poll of the task that did not fire, and expressions without statement
nodes do not poll.
-/
namespace Platypus.SignalV2
open Platypus Platypus.V2 Platypus.MachineProofs Platypus.SignalProofs Platypus.Sem

section
variable {env : Env} {k : Nat}

theorem AnyC.tail2 {K : EM Unit} (hK : LowC k K) : AnyC k (loopTail2 (withSig env (some k)) K) := by
  unfold loopTail2
  refine AnyC.bind (fun s e s' h => by cases h) fun s => ?_
  simp only []
  split
  · exact AnyC.bind (AnyC.modTask _) fun _ => AnyC.pure _
  · split
    · exact AnyC.bind (AnyC.modTask _) fun _ => AnyC.stmtRet () hK
    · exact AnyC.stmtRet () hK

structure MObs2 (env : Env) (k : Nat) (g : Nat) : Prop where
  stmt : ∀ n, StmtOk2 n → LowC k (runExpr (withSig env (some k)) g n)
  stmts : ∀ l, StmtsOk2 l → AnyC k (stmts2 (withSig env (some k)) g l)
  ifs : ∀ ifs els, (∀ x ∈ ifs, SF2 x.1) → (∀ x ∈ ifs, BlockOk2 x.2.1) → BlockOk2 els →
    LowC k (ifs2 (withSig env (some k)) g ifs els)
  loop : ∀ c l body, OptSF2 c → OptSF2 l → BlockOk2 body → AnyC k (for2 (withSig env (some k)) g c l body)
  forIn : ∀ var it pos body, BlockOk2 body → LowC k (forIn2 (withSig env (some k)) g var it pos body)
  forStr : ∀ var rs body, BlockOk2 body → AnyC k (forInStr2 (withSig env (some k)) g var rs body)
  forItems : ∀ var pos items live body, BlockOk2 body →
    LowC k (forInItems2 (withSig env (some k)) g var pos items live body)

theorem mobs2_zero : MObs2 env k 0 := by
  refine ⟨?_, ?_, ?_, ?_, ?_, ?_, ?_⟩ <;> intros
  · rw [runExpr]; exact AnyC.outOfFuel.toLow
  · rw [V2.stmts2]; exact AnyC.outOfFuel
  · rw [ifs2]; exact AnyC.outOfFuel.toLow
  · rw [for2]; exact AnyC.outOfFuel
  · rw [forIn2]; exact AnyC.outOfFuel.toLow
  · rw [forInStr2]; exact AnyC.outOfFuel
  · rw [forInItems2]; exact AnyC.outOfFuel.toLow

theorem stmts2_obs_step {g : Nat} (ih : MObs2 env k g) (l : List Node) (hl : StmtsOk2 l) :
    AnyC k (V2.stmts2 (withSig env (some k)) (g+1) l) := by
  cases l with
  | nil => simp only [V2.stmts2]; exact AnyC.pure _
  | cons n rest =>
    intro s e s' h
    simp only [V2.stmts2, stmtReturn_apply] at h
    cases hp : pollB (withSig env (some k)) s
    · rw [hp] at h
      cases hbc : (s.task.brk || s.task.cont)
      · rw [hbc] at h
        simp only [Bool.or_self] at h
        have h1 := ih.stmt n (hl n (by simp)) _ (pollSt_low s hp)
        cases hr : runExpr (withSig env (some k)) g n (pollSt (withSig env (some k)) s) with
        | ok a s1 => rw [hr] at h; exact ih.stmts rest (fun x hx => hl x (by simp [hx])) s1 e s' h
        | err e1 s1 => rw [hr] at h; cases h; exact (h1 _ _ hr : s1.world.polls < k)
        | panic m => rw [hr] at h; cases h
        | fuel => rw [hr] at h; cases h
        | need q => rw [hr] at h; cases h
      · rw [hbc] at h; simp only [Bool.or_true] at h; cases h
    · rw [hp] at h; simp only [Bool.true_or] at h; cases h

theorem block2_obs {g : Nat} (ih : MObs2 env k g) (b : List Node) (hb : StmtsOk2 b)
    {K : EM Unit} (hK : AnyC k K) :
    AnyC k (do pushScope; V2.stmts2 (withSig env (some k)) g b; popScope; K) :=
  AnyC.bind (AnyC.modTask _) fun _ => AnyC.bind (ih.stmts b hb) fun _ => AnyC.bind (AnyC.modTask _) fun _ => hK

theorem block2_obs' {g : Nat} (ih : MObs2 env k g) (b : List Node) (hb : StmtsOk2 b) :
    AnyC k (do pushScope; V2.stmts2 (withSig env (some k)) g b; popScope) :=
  AnyC.bind (AnyC.modTask _) fun _ => AnyC.bind (ih.stmts b hb) fun _ => AnyC.modTask _

theorem ifs2_obs_step {g : Nat} (ih : MObs2 env k g)
    (ifs : List (Node × Option (List Node) × Pos)) (els : Option (List Node))
    (h1 : ∀ x ∈ ifs, SF2 x.1) (h2 : ∀ x ∈ ifs, BlockOk2 x.2.1) (h3 : BlockOk2 els) :
    LowC k (ifs2 (withSig env (some k)) (g+1) ifs els) := by
  cases ifs with
  | nil =>
    simp only [ifs2]
    cases els with
    | none => exact (AnyC.pure _).toLow
    | some b => exact (block2_obs' ih b (h3 b rfl)).toLow
  | cons x rest =>
    obtain ⟨c, blk, p⟩ := x
    have hc : SF2 c := h1 (c, blk, p) (by simp)
    simp only [ifs2]
    refine LowC.bind_keep (valueOf_sf_keep env (some k) g c hc).keepLow fun v => ?_
    refine LowC.bind_keep (KeepM.getS).keepLow fun s => ?_
    split
    · cases blk with
      | none => exact (AnyC.pure _).toLow
      | some b => exact (block2_obs' ih b (h2 (c, some b, p) (by simp) b rfl)).toLow
    · exact ih.ifs rest els (fun x hx => h1 x (by simp [hx])) (fun x hx => h2 x (by simp [hx])) h3

theorem for2_obs_step {g : Nat} (ih : MObs2 env k g)
    (c l : Option Node) (body : Option (List Node)) (hc : OptSF2 c) (hl2 : OptSF2 l) (hb : BlockOk2 body) :
    AnyC k (for2 (withSig env (some k)) (g+1) c l body) := by
  have hK : LowC k
      (match (generalizing := false) l with
        | some ln => do runExpr (withSig env (some k)) g ln; for2 (withSig env (some k)) g c l body
        | none => for2 (withSig env (some k)) g c l body) := by
    cases l with
    | none => exact (ih.loop c none body hc hl2 hb).toLow
    | some ln =>
      exact LowC.bind_keep (runExpr_sf_keep env (some k) g ln (hl2 ln rfl)).keepLow fun _ =>
        (ih.loop c (some ln) body hc hl2 hb).toLow
  have hT := AnyC.tail2 (env := env) hK
  simp only [for2]
  refine AnyC.poll () ?_
  refine LowC.bind_keep (m := match c with
      | some cn => do
        let v ← valueOf (withSig env (some k)) g cn
        let s ← getS
        pure (condTrue s.world.heap v)
      | none => pure true) ?_ fun go => ?_
  · cases c with
    | none => exact (KeepM.pure _).keepLow
    | some cn =>
      exact (KeepM.bind (valueOf_sf_keep env (some k) g cn (hc cn rfl)) fun _ =>
        KeepM.bind KeepM.getS fun _ => KeepM.pure _).keepLow
  split
  · exact (AnyC.pure _).toLow
  · cases body with
    | none => exact hT.toLow
    | some b => exact (block2_obs ih b (hb b rfl) hT).toLow

theorem forInStr2_obs_step {g : Nat} (ih : MObs2 env k g)
    (var : Node) (rs : List Bytes) (body : Option (List Node)) (hb : BlockOk2 body) :
    AnyC k (forInStr2 (withSig env (some k)) (g+1) var rs body) := by
  cases rs with
  | nil => simp only [forInStr2]; exact AnyC.pure _
  | cons r rest =>
    have hT := AnyC.tail2 (env := env) (ih.forStr var rest body hb).toLow
    cases var
    case ident name p =>
      simp only [forInStr2]
      cases body with
      | none => exact AnyC.bind (AnyC.modTask _) fun _ => AnyC.bind (AnyC.modTask _) fun _ => hT
      | some b =>
        exact AnyC.bind (AnyC.modTask _) fun _ => AnyC.bind (ih.stmts b (hb b rfl)) fun _ =>
          AnyC.bind (AnyC.modTask _) fun _ => hT
    all_goals
      simp only [forInStr2]
      exact AnyC.pure _

theorem forInItems2_obs_step {g : Nat} (ih : MObs2 env k g)
    (var : Node) (pos : Pos) (items : List TV) (live : Option (Nat × Nat × Nat)) (body : Option (List Node))
    (hb : BlockOk2 body) :
    LowC k (forInItems2 (withSig env (some k)) (g+1) var pos items live body) := by
  have hnext : KeepM (match live with
      | some (a, i, n) =>
        if i < n then do
          let st ← getS
          let x := match st.world.heap.get? a with
            | some (.list xs) => xs.getD i .nil
            | _ => .nil
          pure (some (detect st.world.heap x, ([] : List TV), some (a, i + 1, n)))
        else pure none
      | none => match items with
        | [] => pure none
        | x :: r => pure (some (x, r, none))) := by
    keep
  cases var
  case ident name p =>
    simp only [forInItems2]
    refine LowC.bind_keep hnext.keepLow fun next => ?_
    cases next with
    | none => exact (AnyC.pure _).toLow
    | some t =>
      obtain ⟨x, items', live'⟩ := t
      have hT := AnyC.tail2 (env := env) (ih.forItems (.ident name p) pos items' live' body hb)
      refine LowC.bind_keep (KeepM.clearScope).keepLow fun _ => ?_
      split
      · exact LowC.runErr _ _
      · refine LowC.bind_keep (KeepM.setVar _ _).keepLow fun _ => ?_
        cases body with
        | none => exact hT.toLow
        | some b => exact (AnyC.bind (ih.stmts b (hb b rfl)) fun _ => hT).toLow
  all_goals
    simp only [forInItems2]
    refine LowC.bind_keep hnext.keepLow fun next => ?_
    cases next with
    | none => exact (AnyC.pure _).toLow
    | some t =>
      obtain ⟨x, items', live'⟩ := t
      refine LowC.bind_keep (KeepM.clearScope).keepLow fun _ => ?_
      split
      · exact LowC.runErr _ _
      · exact LowC.panic_bind _ _

theorem forIn2_obs_step {g : Nat} (ih : MObs2 env k g)
    (var : Node) (it : TV) (pos : Pos) (body : Option (List Node)) (hb : BlockOk2 body) :
    LowC k (forIn2 (withSig env (some k)) (g+1) var it pos body) := by
  obtain ⟨v, t⟩ := it
  cases t <;> simp only [forIn2, withSig_mapOrder] <;> try exact LowC.runErr _ _
  · -- str
    cases v <;> simp only [] <;> first | exact LowC.runErr _ _ | exact (ih.forStr _ _ _ hb).toLow
  · -- list
    refine LowC.bind_keep (KeepM.getS).keepLow fun st => ?_
    cases v <;> simp only [] <;> try exact LowC.runErr _ _
    rename_i a
    cases h : st.world.heap.get? a with
    | none => exact LowC.runErr _ _
    | some o => cases o <;> simp only [] <;> first | exact LowC.runErr _ _ | exact ih.forItems _ _ _ _ _ hb
  · -- map
    refine LowC.bind_keep (KeepM.getS).keepLow fun st => ?_
    cases v <;> simp only [] <;> try exact LowC.runErr _ _
    rename_i a
    cases h : st.world.heap.get? a with
    | none => exact LowC.runErr _ _
    | some o =>
      cases o <;> simp only [] <;>
        first
        | exact LowC.runErr _ _
        | (refine LowC.bind_keep (KeepM.keepLow (KeepM.modWorld _ ?_)) fun _ => ih.forItems _ _ _ _ _ hb; intro w; rfl)

theorem runExpr_obs_step {g : Nat} (ih : MObs2 env k g) (n : Node) (hn : StmtOk2 n) :
    LowC k (runExpr (withSig env (some k)) (g+1) n) := by
  cases hn
  case ifelse ifs els p h1 h2 h3 =>
    simp only [runExpr]
    exact LowC.finally (LowC.bind_keep (KeepM.pushScope).keepLow fun _ => ih.ifs ifs els h1 h2 h3)
  case forS a b c body p h1 h2 h3 h4 =>
    simp only [runExpr]
    refine LowC.finally (LowC.bind_keep (KeepM.pushScope).keepLow fun _ => ?_)
    cases a with
    | none => exact (ih.loop b c body h2 h3 h4).toLow
    | some i =>
      exact LowC.bind_keep (runExpr_sf_keep env (some k) g i (h1 i rfl)).keepLow fun _ =>
        (ih.loop b c body h2 h3 h4).toLow
  case forIn v it body fp ip h1 h2 =>
    simp only [runExpr]
    exact LowC.finally (LowC.bind_keep (KeepM.pushScope).keepLow fun _ =>
      LowC.bind_keep (valueOf_sf_keep env (some k) g it h1).keepLow fun itv =>
        LowC.finally (LowC.bind_keep (KeepM.pushScope).keepLow fun _ => ih.forIn v itv _ body h2))
  case expr h =>
    exact (runExpr_sf_keep env (some k) (g+1) n h).keepLow.toLow

theorem mobs2_succ {g : Nat} (ih : MObs2 env k g) : MObs2 env k (g+1) :=
  ⟨runExpr_obs_step ih, stmts2_obs_step ih, ifs2_obs_step ih, for2_obs_step ih,
    forIn2_obs_step ih, forInStr2_obs_step ih, forInItems2_obs_step ih⟩

theorem mobs2_all : ∀ g, MObs2 env k g
  | 0 => mobs2_zero
  | g+1 => mobs2_succ (mobs2_all g)

/-- in the v2 run interrupted at poll `k`, a script error is raised before the observation -/
theorem stmts2_error_before_observation (g : Nat) (stmts : List Node) (h : StmtsOk2 stmts) (s : St)
    (e : PlErr) (s' : St) (he : V2.stmts2 (withSig env (some k)) g stmts s = .err e s') :
    s'.world.polls < k :=
  (mobs2_all g).stmts stmts h s e s' he

end
end Platypus.SignalV2
