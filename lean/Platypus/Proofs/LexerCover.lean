import Platypus.Proofs.LexerInv
/-!
From single steps to `nextItem`, `items` and `lexAll`: the fuel of both loops suffices and the item
stream covers the source.
-/
namespace Platypus.Lex

/-! ### `nextItemLoop` / `nextItem` -/

theorem loop_res (input : Bytes) (cur : Nat) : ∀ (f : Nat) (l : L),
    (Good input cur l ∧ mu l < f) ∨ Res input cur l → Res input cur (nextItemLoop f l)
  | 0, l, h => by
    rcases h with ⟨_, h⟩ | h
    · omega
    · exact h
  | f+1, l, h => by
    simp only [nextItemLoop]
    rcases h with ⟨g, hm⟩ | h
    · rw [if_neg (by simp [g.item_none])]
      apply loop_res input cur f (step l)
      rcases step_next input cur l g with ⟨g', hm'⟩ | r
      · exact Or.inl ⟨g', by omega⟩
      · exact Or.inr r
    · obtain ⟨_, it, hit, _⟩ := h
      rw [if_pos (by simp [hit])]
      exact ⟨‹_›, it, hit, ‹_›⟩

/-- a `NextItem` call from the statement state with nothing pending scans an item: the loop fuel is
    not exhausted -/
theorem nextItem_res (input : Bytes) (l : L) (hi : l.input = input) (hs : l.state = .statements)
    (hsp : l.start = l.pos) (hp : l.pos ≤ input.length) :
    Res input l.pos (nextItem l).2 ∧ (nextItem l).2.item = some (nextItem l).1 := by
  have g : Good input l.pos { l with item := none } :=
    ⟨hi, rfl, by simp [hsp], by simp [hsp], hp, by simp only [hsp]; exact Blanks.refl _ _, by simp [StInv, hs, hsp]⟩
  have hmu : mu { l with item := none } = 3 * (l.input.length - l.pos) + 1 := by
    simp [mu, effPos, stC, hs]
  have hr : Res input l.pos (nextItemLoop (4 * (l.input.length - l.pos) + 16) (step { l with item := none })) := by
    apply loop_res
    rcases step_next input l.pos _ g with ⟨g', hm'⟩ | r
    · exact Or.inl ⟨g', by omega⟩
    · exact Or.inr r
  unfold nextItem
  simp only
  rw [if_neg (by show ¬ l.state = _; rw [hs]; simp)]
  obtain ⟨h1, it, hit, h2⟩ := hr
  exact ⟨⟨h1, it, hit, h2⟩, by rw [hit]; rfl⟩

/-! ### the item stream -/

/-- as `C05.CoversFrom` (with the additional fact that an `ERROR` is not the fuel marker) -/
def Covers (input : Bytes) : Nat → List Item → Prop
  | _, [] => False
  | cur, [it] =>
    (it.typ = .EOF ∧ it.pos = input.length ∧ cur ≤ it.pos ∧
      ((input.drop cur).take (it.pos - cur)).all isBlankByte = true) ∨
    (it.typ = .ERROR ∧ cur ≤ it.pos ∧ it.pos ≤ input.length ∧ it.val.length ≠ 4)
  | cur, it :: rest =>
    it.typ ≠ .EOF ∧ it.typ ≠ .ERROR ∧
    cur ≤ it.pos ∧ ((input.drop cur).take (it.pos - cur)).all isBlankByte = true ∧
    it.val ≠ [] ∧ (input.drop it.pos).take it.val.length = it.val ∧
    Covers input (it.pos + it.val.length) rest

theorem slice_length (s : Bytes) (a b : Nat) (hb : b ≤ s.length) : (slice s a b).length = b - a := by
  simp only [slice, List.length_take, List.length_drop]; omega

theorem items_covers (input : Bytes) : ∀ (f : Nat) (l : L), l.input = input → l.state = .statements →
    l.start = l.pos → l.pos ≤ input.length → input.length + 2 ≤ f + l.pos →
    Covers input l.pos (items f l)
  | 0, l, _, _, _, hp, hf => by omega
  | f+1, l, hi, hs, hsp, hp, hf => by
    obtain ⟨⟨h1, it, hit, h2⟩, hit'⟩ := nextItem_res input l hi hs hsp hp
    simp only [items]
    generalize nextItem l = ni at h1 hit h2 hit'
    obtain ⟨it', l'⟩ := ni
    simp only at h1 hit h2 hit' ⊢
    have : it' = it := by rw [hit] at hit'; injection hit' with h; exact h.symm
    subst this
    rcases h2 with ⟨t1, t2, c1, c2, c3, c4, c5, c6, c7⟩ | ⟨t, c1, c2, c3⟩ | ⟨t, c1, c2, c3⟩
    · rw [if_neg (by simp [t1, t2])]
      have ih := items_covers input f l' h1 c7 c6 c4 (by omega)
      have hlen : it'.val.length = l'.pos - it'.pos := by rw [c5]; exact slice_length _ _ _ c4
      have hnext : it'.pos + it'.val.length = l'.pos := by omega
      cases hrest : items f l' with
      | nil => rw [hrest] at ih; exact ih.elim
      | cons a as =>
        rw [hrest] at ih
        refine ⟨t1, t2, c1, Blanks_all input _ _ c1 c2, ?_, ?_, ?_⟩
        · intro h; rw [h] at hlen; simp at hlen; omega
        · rw [hlen, c5]; rfl
        · rw [hnext]; exact ih
    · rw [if_pos (by simp [t])]
      exact Or.inl ⟨t, c1, c2, Blanks_all input _ _ c2 c3⟩
    · rw [if_pos (by simp [t])]
      exact Or.inr ⟨t, c1, c2, c3⟩

theorem lexAll_covers (input : Bytes) : Covers input 0 (lexAll input) := by
  unfold lexAll
  exact items_covers input _ { input := input } rfl rfl rfl (Nat.zero_le _) (by simp)

/-! ### consequences of `Covers` -/

theorem covers_last (input : Bytes) : ∀ (items : List Item) (cur : Nat), Covers input cur items →
    ∃ l, items.getLast? = some l ∧ (l.typ = .EOF ∨ l.typ = .ERROR)
  | [], _, h => h.elim
  | [it], _, h => by
    refine ⟨it, rfl, ?_⟩
    rcases h with h | h
    · exact Or.inl h.1
    · exact Or.inr h.1
  | it :: a :: as, cur, h => by
    obtain ⟨l, hl, ht⟩ := covers_last input (a :: as) _ h.2.2.2.2.2.2
    exact ⟨l, by rw [List.getLast?_cons_cons]; exact hl, ht⟩

theorem covers_error_len (input : Bytes) : ∀ (items : List Item) (cur : Nat), Covers input cur items →
    ∀ it ∈ items, it.typ = .ERROR → it.val.length ≠ 4
  | [], _, h => h.elim
  | [it], _, h => by
    intro x hx ht
    simp only [List.mem_singleton] at hx
    subst hx
    rcases h with h | h
    · rw [h.1] at ht; cases ht
    · exact h.2.2.2
  | it :: a :: as, cur, h => by
    intro x hx ht
    rcases List.mem_cons.1 hx with rfl | hx
    · exact absurd ht h.2.1
    · exact covers_error_len input (a :: as) _ h.2.2.2.2.2.2 x hx ht

theorem covers_pos_le (input : Bytes) : ∀ (items : List Item) (cur : Nat), Covers input cur items →
    ∀ it ∈ items, it.pos ≤ input.length
  | [], _, h => h.elim
  | [it], _, h => by
    intro x hx
    simp only [List.mem_singleton] at hx
    subst hx
    rcases h with h | h
    · rw [h.2.1]; exact Nat.le_refl _
    · exact h.2.2.1
  | it :: a :: as, cur, h => by
    intro x hx
    rcases List.mem_cons.1 hx with rfl | hx
    · have h5 := h.2.2.2.2.1
      have h6 := h.2.2.2.2.2.1
      apply Nat.le_of_not_lt
      intro hlt
      apply h5
      rw [← h6, List.drop_eq_nil_of_le (by omega)]
      simp
    · exact covers_pos_le input (a :: as) _ h.2.2.2.2.2.2 x hx

end Platypus.Lex
