import Platypus.Proofs.UnposMachine
/-!
# Layout independence, helper 6: the v2 interpreter

`VSim env f`: every function of the v2 interpreter at fuel `f`, on a tree and on the position-free
tree, gives similar computations.  (The v2 interpreter never reads `env.bound`.)
-/
set_option linter.unusedVariables false
set_option linter.unusedSimpArgs false
namespace Platypus.LayoutSemantics
open Platypus Platypus.FrontEnd Platypus.MachineProofs Platypus.V2

/-- similarity of the v2 interpreter functions at fuel `f` -/
structure VSim (env : Env) (f : Nat) : Prop where
  expr : ∀ n, Sim (runExpr env f n) (runExpr (unposEnv env) f (unpos n))
  value : ∀ n, Sim (valueOf env f n) (valueOf (unposEnv env) f (unpos n))
  values : ∀ l, Sim (valuesOf env f l) (valuesOf (unposEnv env) f (unposL l))
  mapLit : ∀ kvs acc, Sim (mapLit env f kvs acc) (mapLit (unposEnv env) f (unposKV kvs) acc)
  search : ∀ cur idx, Sim (searchLM2 env f cur idx) (searchLM2 (unposEnv env) f cur (unposL idx))
  change : ∀ cur idx val, Sim (changeLM2 env f cur idx val) (changeLM2 (unposEnv env) f cur (unposL idx) val)
  slice : ∀ obj st en sp, Sim (slice2 env f obj st en sp)
    (slice2 (unposEnv env) f (unpos obj) (unposO st) (unposO en) (unposO sp))
  rhs : ∀ rest first first' k acc, Sim (rhsVals env f rest first k acc)
    (rhsVals (unposEnv env) f (unposL rest) first' k acc)
  assignTo : ∀ e v, Sim (assignTo env f e v) (assignTo (unposEnv env) f (unpos e) v)
  assignAll : ∀ op lhs vals p p', Sim (assignAll env f op lhs vals p)
    (assignAll (unposEnv env) f op (unposL lhs) vals p')
  assign : ∀ op lhs rhs p p', Sim (assign2 env f op lhs rhs p)
    (assign2 (unposEnv env) f op (unposL lhs) (unposL rhs) p')
  call : ∀ name args np np', Sim (call2 env f name args np) (call2 (unposEnv env) f name (unposL args) np')
  stmts : ∀ l, Sim (stmts2 env f l) (stmts2 (unposEnv env) f (unposL l))
  ifs : ∀ ifs els, Sim (ifs2 env f ifs els) (ifs2 (unposEnv env) f (unposIfs ifs) (unposOB els))
  loop : ∀ c l body, Sim (for2 env f c l body) (for2 (unposEnv env) f (unposO c) (unposO l) (unposOB body))
  forIn : ∀ var it pos pos' body, Sim (forIn2 env f var it pos body)
    (forIn2 (unposEnv env) f (unpos var) it pos' (unposOB body))
  forStr : ∀ var rs body, Sim (forInStr2 env f var rs body)
    (forInStr2 (unposEnv env) f (unpos var) rs (unposOB body))
  forItems : ∀ var pos pos' items live body, Sim (forInItems2 env f var pos items live body)
    (forInItems2 (unposEnv env) f (unpos var) pos' items live (unposOB body))

theorem vsim_zero (env : Env) : VSim env 0 := by
  refine ⟨?_, ?_, ?_, ?_, ?_, ?_, ?_, ?_, ?_, ?_, ?_, ?_, ?_, ?_, ?_, ?_, ?_, ?_⟩ <;> intros <;> intro s
  · simp only [runExpr]; exact True.intro
  · simp only [valueOf]; exact True.intro
  · simp only [valuesOf]; exact True.intro
  · simp only [V2.mapLit]; exact True.intro
  · simp only [searchLM2]; exact True.intro
  · simp only [changeLM2]; exact True.intro
  · simp only [slice2]; exact True.intro
  · simp only [rhsVals]; exact True.intro
  · simp only [V2.assignTo]; exact True.intro
  · simp only [V2.assignAll]; exact True.intro
  · simp only [assign2]; exact True.intro
  · simp only [call2]; exact True.intro
  · simp only [stmts2]; exact True.intro
  · simp only [ifs2]; exact True.intro
  · simp only [for2]; exact True.intro
  · simp only [forIn2]; exact True.intro
  · simp only [forInStr2]; exact True.intro
  · simp only [forInItems2]; exact True.intro

theorem sim_getRet (p p' : Pos) : Sim (getRet p) (getRet p') := by
  intro s
  unfold getRet
  split
  · exact ResSim.refl _
  · exact ⟨ErrSim.new _ _ _ _, rfl⟩
  · exact ⟨ErrSim.new _ _ _ _, rfl⟩

section
variable {env : Env} {f : Nat}

theorem runExpr_sim_step (ih : VSim env f) (n : Node) :
    Sim (runExpr env (f+1) n) (runExpr (unposEnv env) (f+1) (unpos n)) := by
  have h1 := ih.expr
  have h2 := ih.value
  have h3 := ih.values
  have h4 := ih.mapLit
  have h5 := ih.search
  have h6 := ih.slice
  have h7 := ih.assign
  have h8 := ih.call
  have h9 := ih.ifs
  have h10 := ih.loop
  have h11 := ih.forIn
  have hg := sim_getRet
  cases n
  case index obj idx lbs rbs =>
    cases obj <;> simp only [runExpr, unpos, Option.map] <;> sim_tac
  case forS i c l b p =>
    cases i <;> simp only [runExpr, unpos, unposO] <;> sim_tac
  case call name args np lp rp site =>
    simp only [runExpr, unpos]
    rw [show (unposEnv env).fns = env.fns from rfl]
    sim_tac
  all_goals
    simp only [runExpr, unpos]
    sim_tac

theorem valueOf_sim_step (ih : VSim env f) (n : Node) :
    Sim (valueOf env (f+1) n) (valueOf (unposEnv env) (f+1) (unpos n)) := by
  have h1 := ih.expr
  have hg := sim_getRet
  simp only [valueOf]
  sim_tac

theorem valuesOf_sim_step (ih : VSim env f) (l : List Node) :
    Sim (valuesOf env (f+1) l) (valuesOf (unposEnv env) (f+1) (unposL l)) := by
  have h1 := ih.value
  have h2 := ih.values
  cases l <;> simp only [valuesOf, unposL] <;> sim_tac

theorem mapLit_sim_step (ih : VSim env f) (kvs : List (Node × Node)) (acc : List (Bytes × Val)) :
    Sim (V2.mapLit env (f+1) kvs acc) (V2.mapLit (unposEnv env) (f+1) (unposKV kvs) acc) := by
  have h1 := ih.value
  have h2 := ih.mapLit
  cases kvs with
  | nil => simp only [V2.mapLit, unposKV]; sim_tac
  | cons kv r =>
    obtain ⟨k, v⟩ := kv
    simp only [V2.mapLit, unposKV]
    sim_tac

theorem searchLM2_sim_step (ih : VSim env f) (cur : Val) (idx : List Node) :
    Sim (searchLM2 env (f+1) cur idx) (searchLM2 (unposEnv env) (f+1) cur (unposL idx)) := by
  have h1 := ih.value
  have h2 := ih.search
  cases idx <;> simp only [searchLM2, unposL] <;> sim_tac

theorem changeLM2_sim_step (ih : VSim env f) (cur : Val) (idx : List Node) (val : TV) :
    Sim (changeLM2 env (f+1) cur idx val) (changeLM2 (unposEnv env) (f+1) cur (unposL idx) val) := by
  have h1 := ih.value
  have h2 := ih.change
  cases idx <;> simp only [changeLM2, unposL, unposL_isEmpty] <;> sim_tac

theorem slice2_sim_step (ih : VSim env f) (obj : Node) (st en sp : Option Node) :
    Sim (slice2 env (f+1) obj st en sp)
      (slice2 (unposEnv env) (f+1) (unpos obj) (unposO st) (unposO en) (unposO sp)) := by
  have h1 := ih.value
  cases st <;> cases en <;> cases sp <;> simp only [slice2, unposO, Option.map] <;> sim_tac

theorem rhsVals_sim_step (ih : VSim env f) (rest : List Node) (first first' : Node) (k : Nat) (acc : List TV) :
    Sim (rhsVals env (f+1) rest first k acc) (rhsVals (unposEnv env) (f+1) (unposL rest) first' k acc) := by
  have h1 := ih.expr
  have h2 := fun r acc => ih.rhs r first first' k acc
  cases rest <;> simp only [rhsVals, unposL] <;> sim_tac

theorem assignTo_sim_step (ih : VSim env f) (e : Node) (v : TV) :
    Sim (V2.assignTo env (f+1) e v) (V2.assignTo (unposEnv env) (f+1) (unpos e) v) := by
  have h1 := ih.change
  cases e
  case index obj idx lbs rbs =>
    cases obj <;> simp only [V2.assignTo, unpos, Option.map] <;> sim_tac
  all_goals
    simp only [V2.assignTo, unpos]
    sim_tac

theorem assignAll_sim_step (ih : VSim env f) (op : AsOp) (lhs : List Node) (vals : List TV) (p p' : Pos) :
    Sim (V2.assignAll env (f+1) op lhs vals p) (V2.assignAll (unposEnv env) (f+1) op (unposL lhs) vals p') := by
  have h1 := ih.assignTo
  have h2 := ih.assignAll
  have h3 := ih.value
  cases lhs <;> cases vals <;> simp only [V2.assignAll, unposL, unposL_isEmpty] <;> sim_tac

theorem assign2_sim_step (ih : VSim env f) (op : AsOp) (lhs rhs : List Node) (p p' : Pos) :
    Sim (assign2 env (f+1) op lhs rhs p) (assign2 (unposEnv env) (f+1) op (unposL lhs) (unposL rhs) p') := by
  have h1 := ih.rhs
  have h2 := ih.assignAll
  cases rhs <;> simp only [assign2, unposL, unposL_isEmpty, unposL_length] <;> sim_tac

theorem call2_sim_step (ih : VSim env f) (name : Bytes) (args : List Node) (np np' : Pos) :
    Sim (call2 env (f+1) name args np) (call2 (unposEnv env) (f+1) name (unposL args) np') := by
  have h1 := ih.values
  simp only [call2]
  sim_tac

theorem stmts2_sim_step (ih : VSim env f) (l : List Node) :
    Sim (stmts2 env (f+1) l) (stmts2 (unposEnv env) (f+1) (unposL l)) := by
  cases l with
  | nil => simp only [stmts2, unposL]; exact Sim.refl _
  | cons n rest =>
    intro s
    simp only [stmts2, unposL, stmtReturn_apply, pollB_unposEnv, pollSt_unposEnv]
    cases (pollB env s || (s.task.brk || s.task.cont)) with
    | true => exact ResSim.refl _
    | false =>
      simp only []
      sim_res ih.expr n (pollSt env s)
      · exact ih.stmts rest s'
      · exact ⟨he, rfl⟩

theorem ifs2_sim_step (ih : VSim env f) (ifs : List (Node × Option (List Node) × Pos)) (els : Option (List Node)) :
    Sim (ifs2 env (f+1) ifs els) (ifs2 (unposEnv env) (f+1) (unposIfs ifs) (unposOB els)) := by
  have h1 := ih.value
  have h2 := ih.stmts
  cases ifs with
  | nil => cases els <;> simp only [ifs2, unposIfs, unposOB] <;> sim_tac
  | cons x rest =>
    obtain ⟨c, blk, p⟩ := x
    have h3 := ih.ifs rest els
    cases blk <;> simp only [ifs2, unposIfs, unposOB] <;> sim_tac

theorem for2_sim_step (ih : VSim env f) (c l : Option Node) (body : Option (List Node)) :
    Sim (for2 env (f+1) c l body) (for2 (unposEnv env) (f+1) (unposO c) (unposO l) (unposOB body)) := by
  have h1 := ih.expr
  have h2 := ih.stmts
  have h3 := ih.loop c l body
  have h4 := ih.value
  cases c <;> cases l <;> cases body <;>
    simp only [for2, unposO, unposOB, procExit_unposEnv, stmtReturn_unposEnv] <;> sim_tac

theorem forIn2_sim_step (ih : VSim env f) (var : Node) (it : TV) (pos pos' : Pos) (body : Option (List Node)) :
    Sim (forIn2 env (f+1) var it pos body) (forIn2 (unposEnv env) (f+1) (unpos var) it pos' (unposOB body)) := by
  have h1 := ih.forStr
  have h2 := ih.forItems
  simp only [forIn2, unposEnv_mapOrder]
  sim_tac

theorem forInStr2_sim_step (ih : VSim env f) (var : Node) (rs : List Bytes) (body : Option (List Node)) :
    Sim (forInStr2 env (f+1) var rs body) (forInStr2 (unposEnv env) (f+1) (unpos var) rs (unposOB body)) := by
  have h1 := ih.stmts
  cases rs with
  | nil => simp only [forInStr2]; exact Sim.refl _
  | cons r rest =>
    have h2 := ih.forStr var rest body
    cases var <;> cases body <;> simp only [forInStr2, unpos, unposOB, stmtReturn_unposEnv] at h2 ⊢ <;> sim_tac

set_option maxHeartbeats 800000 in
theorem forInItems2_sim_step (ih : VSim env f) (var : Node) (pos pos' : Pos) (items : List TV)
    (live : Option (Nat × Nat × Nat)) (body : Option (List Node)) :
    Sim (forInItems2 env (f+1) var pos items live body)
      (forInItems2 (unposEnv env) (f+1) (unpos var) pos' items live (unposOB body)) := by
  have h1 := ih.stmts
  have h2 := fun items live => ih.forItems var pos pos' items live body
  cases var <;> cases body <;> simp only [forInItems2, unpos, unposOB, stmtReturn_unposEnv] at h2 ⊢ <;> sim_tac

theorem vsim_succ (ih : VSim env f) : VSim env (f+1) :=
  ⟨runExpr_sim_step ih, valueOf_sim_step ih, valuesOf_sim_step ih, mapLit_sim_step ih, searchLM2_sim_step ih,
    changeLM2_sim_step ih, slice2_sim_step ih, rhsVals_sim_step ih, assignTo_sim_step ih, assignAll_sim_step ih,
    assign2_sim_step ih, call2_sim_step ih, stmts2_sim_step ih, ifs2_sim_step ih, for2_sim_step ih,
    forIn2_sim_step ih, forInStr2_sim_step ih, forInItems2_sim_step ih⟩

end

theorem vsim_all (env : Env) : ∀ f, VSim env f
  | 0 => vsim_zero env
  | f+1 => vsim_succ (vsim_all env f)

/-- a v2 run and the run of the position-free script in the position-free environment -/
theorem runScript2_unpos (env : Env) (fuel : Nat) (name : Bytes) (ns : List Node) (w : World) :
    ResSim (runScript2 env fuel name ns w) (runScript2 (unposEnv env) fuel name (ns.map unpos) w) := by
  rw [← unposL_eq_map]
  exact (vsim_all env fuel).stmts ns _

/-- v2 runs of the same script up to positions, in the same environment up to positions -/
theorem runScript2_sim (env env' : Env) (h : EnvSim env env') (fuel : Nat) (name : Bytes) (ns ns' : List Node)
    (hs : ns.map unpos = ns'.map unpos) (w : World) :
    ResSim (runScript2 env fuel name ns w) (runScript2 env' fuel name ns' w) := by
  refine (runScript2_unpos env fuel name ns w).trans ?_
  rw [h.unposEnv_eq, hs]
  exact (runScript2_unpos env' fuel name ns' w).symm

end Platypus.LayoutSemantics
