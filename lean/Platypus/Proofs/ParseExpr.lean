import Platypus.Proofs.ParseBasic
/-!
# C06 helper lemmas, part 2: expressions

`PEok t ts` packages what the parser does on a spelling `ts` of the expression `t` followed by an
arbitrary continuation `rest`; one lemma per constructor of the spelling relations proves it from
the same facts about the parts, and `pe_ok` etc. tie the knot by recursion on the derivations.
-/
namespace Platypus.Parse
open Platypus.Lex (Tok Item)

/-- what `parsePrimary` goes on to do once it has read a primary `t` -/
def primK (F : Nat) (t : PT) (rest : List Item) : Option (PT × List Item) :=
  match t with
  | .ident q v => parseAfterIdent F q v rest
  | .index _ _ => parseAttrChain F t rest
  | .attr _ _ => parseAttrChain F t rest
  | .paren _ => some (t, rest)
  | .map _ => some (t, rest)
  | _ => parseSliceChain F t rest

/-- an index or attribute expression is not followed by `[` (it would be part of it) -/
def PostOK (t : PT) (rest : List Item) : Prop :=
  match t with
  | .index _ _ => tk rest ≠ .LEFT_BRACKET
  | .attr _ _ => tk rest ≠ .LEFT_BRACKET
  | _ => True

theorem primK_stop {t : PT} {rest : List Item} (h : noPost (tk rest) = true) :
    ∀ F, 1 ≤ F → primK F t rest = some (t, rest) := by
  intro F hF
  obtain ⟨h1, h2, h3⟩ := noPost_ne h
  cases t <;> simp only [primK] <;>
    first
    | exact afterIdent_stop h _ _ F hF
    | exact attrChain_stop h2 _ F hF
    | exact sliceChain_stop h1 _ F hF
    | rfl

theorem postOK_of_noPost {t : PT} {rest : List Item} (h : noPost (tk rest) = true) : PostOK t rest := by
  obtain ⟨h1, _, _⟩ := noPost_ne h
  cases t <;> simp [PostOK, h1]

/-- the behaviour of the parser on a spelling `ts` of the expression `t` -/
structure PEok (t : PT) (ts : List Item) : Prop where
  start : ∀ rest, exprStart (tk (ts ++ rest)) = true
  pstart : level t = 8 → ∀ rest, primStart (tk (ts ++ rest)) = true
  /-- `parseExpr` at a level `m ≤ level t` reads `ts` and goes on with the operator loop -/
  expr : ∀ m rest f res, m ≤ level t → noPost (tk rest) = true →
    (∀ p q, binOf (tk rest) = some (p, q) → p ≤ level t) →
    (∀ F, f ≤ F → parseBinRest F m t rest = some res) →
    ∀ F, f + 4 * ts.length ≤ F → parseExpr F m (ts ++ rest) = some res
  unary : 7 ≤ level t → ∀ rest, noPost (tk rest) = true →
    ∀ F, 4 * ts.length ≤ F → parseUnary F (ts ++ rest) = some (t, rest)
  /-- `parsePrimary` reads `ts` and goes on with the postfix chain that fits `t` -/
  prim : level t = 8 → ∀ rest f res, PostOK t rest → (∀ F, f ≤ F → primK F t rest = some res) →
    ∀ F, f + 4 * ts.length ≤ F + 2 → parsePrimary F (ts ++ rest) = some res
  attrY : attrArg t → ∀ rest, tk rest ≠ .LEFT_BRACKET →
    ∀ F, 4 * ts.length + 2 ≤ F → parseAttrY F (ts ++ rest) = some (t, rest)
  /-- `parseForRest`'s block-first attempt fails on an expression that is not followed by a statement end -/
  brace : ∀ rest, stmtEnd (tk rest) = false → ∀ F, 4 * ts.length ≤ F → asBlock F (ts ++ rest) = none

theorem binRest_fuel_pos {f m : Nat} {t : PT} {rest : List Item} {res : PT × List Item}
    (hK : ∀ F, f ≤ F → parseBinRest F m t rest = some res) : 1 ≤ f := by
  rcases Nat.eq_zero_or_pos f with h | h
  · subst h
    have := hK 0 (Nat.le_refl _)
    simp [parseBinRest] at this
  · exact h

theorem len_of_start {ts : List Item} (h : exprStart (tk (ts ++ [])) = true) : 1 ≤ ts.length := by
  cases ts with
  | nil => simp [exprStart] at h
  | cons i r => simp

theorem PEok.len {t ts} (h : PEok t ts) : 1 ≤ ts.length := len_of_start (h.start [])

/-- the final form at level 1: the expression is read and the parser stops -/
theorem PEok.fin {t ts} (h : PEok t ts) {rest : List Item} (hs : stop1 (tk rest) = true) :
    ∀ F, 4 * ts.length + 1 ≤ F → parseExpr F 1 (ts ++ rest) = some (t, rest) := by
  intro F hF
  have hb := stop1_binOf hs
  exact h.expr 1 rest 1 _ (level_pos t) (stop1_noPost hs) (by simp [hb])
    (binRest_stop (by simp [hb]) t) F (by omega)

/-- constructor for operands of level 7 (prefix operators, negative number literals) -/
theorem PEok.ofUnary {t ts} (_hl : level t = 7) (_hlen : 1 ≤ ts.length)
    (start : ∀ rest, exprStart (tk (ts ++ rest)) = true)
    (unary : ∀ rest, noPost (tk rest) = true →
      ∀ F, 4 * ts.length ≤ F → parseUnary F (ts ++ rest) = some (t, rest))
    (brace : ∀ rest, stmtEnd (tk rest) = false → ∀ F, 4 * ts.length ≤ F → asBlock F (ts ++ rest) = none) :
    PEok t ts where
  start := start
  pstart h := by omega
  expr m rest f res _ hnp _ hK F hF := by
    have hf := binRest_fuel_pos hK
    obtain ⟨F, rfl⟩ : ∃ F', F = F' + 1 := ⟨F - 1, by omega⟩
    exact parseExpr_of (unary rest hnp F (by omega)) (hK F (by omega))
  unary _ := unary
  prim h := by omega
  attrY h := by have := attrArg_level h; omega
  brace := brace

/-- constructor for primaries -/
theorem PEok.ofPrim {t ts} (_hl : level t = 8)
    (hs : ∀ rest, primStart (tk (ts ++ rest)) = true)
    (prim : ∀ rest f res, PostOK t rest → (∀ F, f ≤ F → primK F t rest = some res) →
      ∀ F, f + 4 * ts.length ≤ F + 2 → parsePrimary F (ts ++ rest) = some res)
    (attrY : attrArg t → ∀ rest, tk rest ≠ .LEFT_BRACKET →
      ∀ F, 4 * ts.length + 2 ≤ F → parseAttrY F (ts ++ rest) = some (t, rest))
    (brace : ∀ rest, stmtEnd (tk rest) = false → ∀ F, 4 * ts.length ≤ F → asBlock F (ts ++ rest) = none) :
    PEok t ts := by
  have hlen : 1 ≤ ts.length := len_of_start (primStart_exprStart (hs []))
  have hun : ∀ rest, noPost (tk rest) = true →
      ∀ F, 4 * ts.length ≤ F → parseUnary F (ts ++ rest) = some (t, rest) := by
    intro rest hnp F hF
    obtain ⟨F, rfl⟩ : ∃ F', F = F' + 1 := ⟨F - 1, by omega⟩
    rw [parseUnary_prim (primStart_unOf (hs rest))]
    exact prim rest 1 _ (postOK_of_noPost hnp) (primK_stop hnp) F (by omega)
  exact {
    start := fun rest => primStart_exprStart (hs rest)
    pstart := fun _ => hs
    expr := by
      intro m rest f res _ hnp _ hK F hF
      have hf := binRest_fuel_pos hK
      obtain ⟨F, rfl⟩ : ∃ F', F = F' + 1 := ⟨F - 1, by omega⟩
      exact parseExpr_of (hun rest hnp F (by omega)) (hK F (by omega))
    unary := fun _ => hun
    prim := fun _ => prim
    attrY := attrY
    brace := brace }

/-! ### atoms -/

/-- one-token primaries other than identifiers -/
theorem pe_atom {t : PT} {i : Item} (hl : level t = 8) (hs : primStart i.typ = true)
    (hk : ∀ F rest, parsePrimary (F + 1) (i :: rest) = primK F t rest)
    (hna : ¬ attrArg t) (hb : i.typ ≠ .LEFT_BRACE) : PEok t [i] := by
  apply PEok.ofPrim hl
  · intro rest; simpa using hs
  · intro rest f res _ hK F hF
    obtain ⟨F, rfl⟩ : ∃ F', F = F' + 1 := ⟨F - 1, by simp at hF; omega⟩
    simp only [List.cons_append, List.nil_append, hk]
    exact hK F (by simp at hF; omega)
  · intro h; exact absurd h hna
  · intro rest _ F _; exact asBlock_of_ne (by simpa using hb) F

theorem pe_num (v p) : PEok (.num false v) [⟨.NUMBER, p, v⟩] :=
  pe_atom rfl rfl (fun _ _ => rfl) (by simp [attrArg]) (by simp)
theorem pe_boolT (p s) : PEok (.bool true) [⟨.TRUE, p, s⟩] :=
  pe_atom rfl rfl (fun _ _ => rfl) (by simp [attrArg]) (by simp)
theorem pe_boolF (p s) : PEok (.bool false) [⟨.FALSE, p, s⟩] :=
  pe_atom rfl rfl (fun _ _ => rfl) (by simp [attrArg]) (by simp)
theorem pe_nil (p s) : PEok .nil [⟨.NIL, p, s⟩] :=
  pe_atom rfl rfl (fun _ _ => rfl) (by simp [attrArg]) (by simp)
theorem pe_null (p s) : PEok .nil [⟨.NULL, p, s⟩] :=
  pe_atom rfl rfl (fun _ _ => rfl) (by simp [attrArg]) (by simp)
theorem pe_str (m v p) (h : strOK m v = true) :
    PEok (.str m v) [⟨if m then .MULTILINE_STRING else .STRING, p, v⟩] := by
  cases m
  · exact pe_atom rfl rfl (fun _ _ => by simp [parsePrimary, h, primK]) (by simp [attrArg]) (by simp)
  · exact pe_atom rfl rfl (fun _ _ => by simp [parsePrimary, h, primK]) (by simp [attrArg]) (by simp)

theorem pe_ident (q v p) (hok : identOK q v) : PEok (.ident q v) [⟨identTok q, p, v⟩] := by
  have hk : ∀ F rest, parsePrimary (F + 1) (⟨identTok q, p, v⟩ :: rest) = parseAfterIdent F q v rest := by
    intro F rest
    cases q
    · simp [parsePrimary, identTok]
    · have h := hok rfl
      simp [parsePrimary, identTok, h]
  apply PEok.ofPrim rfl
  · intro rest; simpa using identTok_prim q
  · intro rest f res _ hK F hF
    obtain ⟨F, rfl⟩ : ∃ F', F = F' + 1 := ⟨F - 1, by simp at hF; omega⟩
    simp only [List.cons_append, List.nil_append, hk]
    exact hK F (by simp at hF; omega)
  · intro _ rest hlb F hF
    obtain ⟨F, rfl⟩ : ∃ F', F = F' + 2 := ⟨F - 2, by simp at hF; omega⟩
    cases q
    · simp [parseAttrY, parseAttrYIdx, identTok, hlb]
    · have h := hok rfl
      simp [parseAttrY, parseAttrYIdx, identTok, hlb, h]
  · intro rest _ F _
    exact asBlock_of_ne (by cases q <;> simp [identTok]) F

/-! ### prefix operators -/

theorem pe_numNeg (v p p' s) : PEok (.num true v) [⟨.SUB, p, s⟩, ⟨.NUMBER, p', v⟩] := by
  apply PEok.ofUnary rfl (by simp)
  · intro rest; rfl
  · intro rest hnp F hF
    obtain ⟨F, rfl⟩ : ∃ F', F = F' + 4 := ⟨F - 4, by simp at hF; omega⟩
    have h1 : parseUnary (F + 3) (⟨.NUMBER, p', v⟩ :: rest) = some (.num false v, rest) := by
      rw [parseUnary_prim rfl]
      show parseSliceChain (F + 1) (.num false v) rest = _
      exact sliceChain_stop (noPost_ne hnp).1 _ (F + 1) (by omega)
    exact parseUnary_op (op := .neg) rfl h1
  · intro rest _ F _; exact asBlock_of_ne (by simp) F

theorem pe_unary {op x ts p s} (hx : 7 ≤ level x) (hf : ¬ folds op x) (ih : PEok x ts) :
    PEok (.unary op x) (⟨unTok op, p, s⟩ :: ts) := by
  apply PEok.ofUnary rfl (by simp)
  · intro rest; simpa using exprStart_unTok op
  · intro rest hnp F hF
    obtain ⟨F, rfl⟩ : ∃ F', F = F' + 1 := ⟨F - 1, by simp at hF; omega⟩
    have h1 := ih.unary hx rest hnp F (by simp at hF; omega)
    rw [List.cons_append, parseUnary_op (unOf_unTok op) h1, mkUnary_of_not_folds hf]
  · intro rest _ F _
    exact asBlock_of_ne (by cases op <;> simp [unTok]) F

/-! ### binary operators: the precedence core -/

theorem pe_bin {op l r t1 t2 e p s} (hl : lvl op ≤ level l) (hr : lvl op < level r)
    (hmk : mkBin op l r = some (.bin op l r)) (he : Eols e) (ihl : PEok l t1) (ihr : PEok r t2) :
    PEok (.bin op l r) (t1 ++ [⟨opTok op, p, s⟩] ++ e ++ t2) where
  start rest := by simpa [List.append_assoc] using ihl.start _
  pstart h := by simp only [level] at h; have := lvl_le6 op; omega
  expr m rest f res hm hnp hle hK F hF := by
    simp only [level] at hm hle
    simp only [List.append_assoc, List.cons_append, List.nil_append]
    simp only [List.length_append, List.length_cons, List.length_nil] at hF
    refine ihl.expr m _ (f + 4 * t2.length + 2) res (by omega) (by simpa using noPost_opTok op)
      (by intro p q h; simp [binOf_opTok] at h; omega) ?_ F (by omega)
    intro F1 hF1
    obtain ⟨F1, rfl⟩ : ∃ F', F1 = F' + 1 := ⟨F1 - 1, by omega⟩
    have hne : tk (t2 ++ rest) ≠ .EOL := (exprStart_ne (ihr.start rest)).1
    have h2 : parseExpr F1 (lvl op + 1) (skipE (e ++ (t2 ++ rest))) = some (r, rest) := by
      rw [skipE_eols_ne he hne]
      exact ihr.expr (lvl op + 1) rest 1 _ (by omega) hnp (by intro p q h; have := hle p q h; omega)
        (binRest_stop (by intro p q h; have := hle p q h; omega) r) F1 (by omega)
    rw [parseBinRest_step (binOf_opTok op) hm h2 hmk]
    exact hK F1 (by omega)
  unary h := by simp only [level] at h; have := lvl_le6 op; omega
  prim h := by simp only [level] at h; have := lvl_le6 op; omega
  attrY h := by simp [attrArg] at h
  brace rest hr F hF := by
    simp only [List.append_assoc, List.cons_append, List.nil_append]
    simp only [List.length_append, List.length_cons, List.length_nil] at hF
    exact ihl.brace _ (by simpa using stmtEnd_opTok op) F (by omega)

/-! ### parentheses -/

theorem pe_paren {p s p' s' e1 e2 x ts} (h1 : Eols e1) (h2 : Eols e2) (ih : PEok x ts) :
    PEok (.paren x) ([⟨.LEFT_PAREN, p, s⟩] ++ e1 ++ ts ++ e2 ++ [⟨.RIGHT_PAREN, p', s'⟩]) := by
  apply PEok.ofPrim rfl
  · intro rest; rfl
  · intro rest f res _ hK F hF
    simp only [List.append_assoc, List.cons_append, List.nil_append]
    simp only [List.length_append, List.length_cons, List.length_nil] at hF
    obtain ⟨F, rfl⟩ : ∃ F', F = F' + 1 := ⟨F - 1, by omega⟩
    have hres : some (PT.paren x, rest) = some res := hK f (Nat.le_refl _)
    have hne : tk (ts ++ (e2 ++ ⟨.RIGHT_PAREN, p', s'⟩ :: rest)) ≠ .EOL := (exprStart_ne (ih.start _)).1
    have hx := ih.fin (rest := e2 ++ ⟨.RIGHT_PAREN, p', s'⟩ :: rest) (stop1_eols h2 rfl) F (by omega)
    simp [parsePrimary, skipE_eols_ne h1 hne, hx, skipE_eols_ne h2 (xs := ⟨.RIGHT_PAREN, p', s'⟩ :: rest) (by simp)]
    simpa using hres
  · intro h; simp [attrArg] at h
  · intro rest _ F _; exact asBlock_of_ne (by simp) F

/-! ### attribute chains -/

theorem parsePrimary_ident {q v p} (hok : identOK q v) (F : Nat) (rest : List Item) :
    parsePrimary (F + 1) (⟨identTok q, p, v⟩ :: rest) = parseAfterIdent F q v rest := by
  cases q
  · simp [parsePrimary, identTok]
  · have h := hok rfl
    simp [parsePrimary, identTok, h]

theorem attrChain_step {F : Nat} {o y : PT} {i : Item} {xs r : List Item} (hi : i.typ = .DOT)
    (hy : parseAttrY F xs = some (y, r)) :
    parseAttrChain (F + 1) o (i :: xs) = parseAttrChain F (.attr o y) r := by
  simp [parseAttrChain, hi, hy]

/-- after an attribute object, `. y` is read and the attribute chain goes on -/
theorem primK_dot {o y : PT} {i : Item} {xs r : List Item} {n f : Nat} {res : PT × List Item}
    (ho : attrObj o) (hi : i.typ = .DOT)
    (hy : ∀ F, n ≤ F → parseAttrY F xs = some (y, r))
    (hK : ∀ F, f ≤ F → parseAttrChain F (.attr o y) r = some res) :
    ∀ F, n + f + 2 ≤ F → primK F o (i :: xs) = some res := by
  intro F hF
  obtain ⟨F, rfl⟩ : ∃ F', F = F' + 2 := ⟨F - 2, by omega⟩
  cases o <;> simp only [attrObj] at ho
  · simp only [primK, parseAfterIdent, tk_cons, hi]
    rw [attrChain_step hi (hy F (by omega))]
    exact hK F (by omega)
  · simp only [primK]
    rw [attrChain_step hi (hy (F + 1) (by omega))]
    exact hK (F + 1) (by omega)
  · simp only [primK]
    rw [attrChain_step hi (hy (F + 1) (by omega))]
    exact hK (F + 1) (by omega)

theorem postOK_attrObj_dot {o : PT} {i : Item} {xs : List Item} (hi : i.typ = .DOT) : PostOK o (i :: xs) := by
  cases o <;> simp [PostOK, hi]

theorem pe_attr {o y t1 t2 p s} (ho : attrObj o) (hy : attrArg y) (ih1 : PEok o t1) (ih2 : PEok y t2) :
    PEok (.attr o y) (t1 ++ [⟨.DOT, p, s⟩] ++ t2) := by
  apply PEok.ofPrim rfl
  · intro rest; simpa [List.append_assoc] using ih1.pstart (attrObj_level ho) _
  · intro rest f res hpost hK F hF
    simp only [List.append_assoc, List.cons_append, List.nil_append]
    simp only [List.length_append, List.length_cons, List.length_nil] at hF
    have hlb : tk rest ≠ .LEFT_BRACKET := hpost
    refine ih1.prim (attrObj_level ho) _ ((4 * t2.length + 2) + f + 2) res (postOK_attrObj_dot rfl) ?_ F (by omega)
    exact primK_dot ho rfl (ih2.attrY hy rest hlb) hK
  · intro h; simp [attrArg] at h
  · intro rest _ F hF
    simp only [List.append_assoc, List.cons_append, List.nil_append]
    simp only [List.length_append, List.length_cons, List.length_nil] at hF
    exact ih1.brace _ rfl F (by omega)

/-! ### index chains -/

/-- an optional expression -/
def POok (o : Option PT) (ts : List Item) : Prop :=
  match o with
  | none => ts = []
  | some x => PEok x ts

structure PIok (idx : List PT) (ts : List Item) : Prop where
  chain : ∀ acc rest, tk rest ≠ .LEFT_BRACKET → ∀ F, 4 * ts.length + 1 ≤ F →
    parseIndexChain F acc (ts ++ rest) = some (acc ++ idx, rest)
  lb : idx ≠ [] → ∀ rest, tk (ts ++ rest) = .LEFT_BRACKET
  aft : idx ≠ [] → ∀ q v rest f res, tk rest ≠ .LEFT_BRACKET →
    (∀ F, f ≤ F → parseAttrChain F (.index (some (q, v)) idx) rest = some res) →
    ∀ F, f + 4 * ts.length ≤ F → parseAfterIdent F q v (ts ++ rest) = some res
  dot : idx ≠ [] → ∀ i : Item, i.typ = .DOT → ∀ rest f res, tk rest ≠ .LEFT_BRACKET →
    (∀ F, f ≤ F → parseAttrChain F (.index none idx) rest = some res) →
    ∀ F, f + 4 * ts.length ≤ F → parsePrimary F (i :: (ts ++ rest)) = some res

theorem pi_nil : PIok [] [] where
  chain acc rest h F hF := by simpa using indexChain_stop h acc F (by omega)
  lb h := absurd rfl h
  aft h := absurd rfl h
  dot h := absurd rfl h

theorem pi_cons {x rest' t tr e1 e2 p s p' s'} (h1 : Eols e1) (h2 : Eols e2) (ihx : PEok x t)
    (ihr : PIok rest' tr) :
    PIok (x :: rest') ([⟨.LEFT_BRACKET, p, s⟩] ++ e1 ++ t ++ e2 ++ [⟨.RIGHT_BRACKET, p', s'⟩] ++ tr) := by
  have hne : ∀ rest, tk (t ++ (e2 ++ ⟨.RIGHT_BRACKET, p', s'⟩ :: (tr ++ rest))) ≠ .EOL :=
    fun rest => (exprStart_ne (ihx.start _)).1
  have hnc : ∀ rest, tk (t ++ (e2 ++ ⟨.RIGHT_BRACKET, p', s'⟩ :: (tr ++ rest))) ≠ .COLON :=
    fun rest => (exprStart_ne (ihx.start _)).2.1
  have hx : ∀ rest F, 4 * t.length + 1 ≤ F →
      parseExpr F 1 (t ++ (e2 ++ ⟨.RIGHT_BRACKET, p', s'⟩ :: (tr ++ rest))) =
        some (x, e2 ++ ⟨.RIGHT_BRACKET, p', s'⟩ :: (tr ++ rest)) :=
    fun rest F hF => ihx.fin (stop1_eols h2 rfl) F hF
  have hsk : ∀ rest, skipE (e2 ++ ⟨.RIGHT_BRACKET, p', s'⟩ :: (tr ++ rest)) = ⟨.RIGHT_BRACKET, p', s'⟩ :: (tr ++ rest) :=
    fun rest => skipE_eols_ne h2 (by simp)
  have hc2 : ∀ rest, tk (e2 ++ ⟨.RIGHT_BRACKET, p', s'⟩ :: (tr ++ rest)) ≠ .COLON :=
    fun rest => tk_eols h2 (fun t => t ≠ .COLON) (by simp) (by simp)
  constructor
  · intro acc rest hlb F hF
    simp only [List.append_assoc, List.cons_append, List.nil_append]
    simp only [List.length_append, List.length_cons, List.length_nil] at hF
    obtain ⟨F, rfl⟩ : ∃ F', F = F' + 1 := ⟨F - 1, by omega⟩
    have := ihr.chain (acc ++ [x]) rest hlb F (by omega)
    simp [parseIndexChain, skipE_eols_ne h1 (hne rest), hx rest F (by omega), hsk, this]
  · intro _ rest; rfl
  · intro _ q v rest f res hlb hK F hF
    simp only [List.append_assoc, List.cons_append, List.nil_append]
    simp only [List.length_append, List.length_cons, List.length_nil] at hF
    obtain ⟨F, rfl⟩ : ∃ F', F = F' + 1 := ⟨F - 1, by omega⟩
    have := ihr.chain [x] rest hlb F (by omega)
    simp [parseAfterIdent, skipE_eols_ne h1 (hne rest), hnc, hc2, hx rest F (by omega), hsk, this]
    exact hK F (by omega)
  · intro _ i hi rest f res hlb hK F hF
    simp only [List.append_assoc, List.cons_append, List.nil_append]
    simp only [List.length_append, List.length_cons, List.length_nil] at hF
    obtain ⟨F, rfl⟩ : ∃ F', F = F' + 1 := ⟨F - 1, by omega⟩
    have := ihr.chain [x] rest hlb F (by omega)
    simp [parsePrimary, hi, skipE_eols_ne h1 (hne rest), hx rest F (by omega), hsk, this]
    exact hK F (by omega)

theorem pe_index {q v p idx ts} (hok : identOK q v) (hne : idx ≠ []) (ih : PIok idx ts) :
    PEok (.index (some (q, v)) idx) (⟨identTok q, p, v⟩ :: ts) := by
  apply PEok.ofPrim rfl
  · intro rest; simpa using identTok_prim q
  · intro rest f res hpost hK F hF
    simp only [List.length_cons] at hF
    obtain ⟨F, rfl⟩ : ∃ F', F = F' + 1 := ⟨F - 1, by omega⟩
    rw [List.cons_append, parsePrimary_ident hok]
    exact ih.aft hne q v rest f res hpost hK F (by omega)
  · intro _ rest hlb F hF
    simp only [List.length_cons] at hF
    obtain ⟨F, rfl⟩ : ∃ F', F = F' + 2 := ⟨F - 2, by omega⟩
    have h1 := ih.chain [] rest hlb F (by omega)
    have h2 := ih.lb hne rest
    cases q
    · simp [parseAttrY, parseAttrYIdx, identTok, h1, h2]
    · have h := hok rfl
      simp [parseAttrY, parseAttrYIdx, identTok, h1, h2, h]
  · intro rest _ F _
    exact asBlock_of_ne (by cases q <;> simp [identTok]) F

theorem pe_indexDot {p s idx ts} (hne : idx ≠ []) (ih : PIok idx ts) :
    PEok (.index none idx) (⟨.DOT, p, s⟩ :: ts) := by
  apply PEok.ofPrim rfl
  · intro rest; rfl
  · intro rest f res hpost hK F hF
    simp only [List.length_cons] at hF
    exact ih.dot hne _ rfl rest f res hpost hK F (by omega)
  · intro _ rest hlb F hF
    simp only [List.length_cons] at hF
    obtain ⟨F, rfl⟩ : ∃ F', F = F' + 2 := ⟨F - 2, by omega⟩
    have h1 := ih.chain [] rest hlb F (by omega)
    have h2 := ih.lb hne rest
    simp [parseAttrY, parseAttrYIdx, h1, h2]
  · intro rest _ F _
    exact asBlock_of_ne (by simp) F

/-! ### slices -/

theorem sliceBody2 {b : Option PT} {tb e2 : List Item} {p2 s2 p3 s3} (he2 : Eols e2) (hb : POok b tb)
    (start : Option PT) (rest : List Item) :
    ∀ F, 4 * tb.length + 2 ≤ F →
      parseSliceBody F start (⟨.COLON, p2, s2⟩ :: (e2 ++ (tb ++ ⟨.RIGHT_BRACKET, p3, s3⟩ :: rest))) =
        some ((start, b, none, false), rest) := by
  intro F hF
  obtain ⟨F, rfl⟩ : ∃ F', F = F' + 1 := ⟨F - 1, by omega⟩
  cases b with
  | none =>
    have : tb = [] := hb
    subst this
    simp [parseSliceBody, skipE_eols_ne he2 (xs := ⟨.RIGHT_BRACKET, p3, s3⟩ :: rest) (by simp)]
  | some x =>
    have hb' : PEok x tb := hb
    have hs := exprStart_ne (hb'.start (⟨.RIGHT_BRACKET, p3, s3⟩ :: rest))
    have hx := hb'.fin (rest := ⟨.RIGHT_BRACKET, p3, s3⟩ :: rest) rfl F (by omega)
    simp [parseSliceBody, skipE_eols_ne he2 hs.1, hs.2.1, hs.2.2.1, hx]

theorem sliceBody3 {b c : Option PT} {tb tc e2 e3 : List Item} {p2 s2 p3 s3 p4 s4} (he2 : Eols e2) (he3 : Eols e3)
    (hb : POok b tb) (hc : POok c tc) (start : Option PT) (rest : List Item) :
    ∀ F, 4 * tb.length + 4 * tc.length + 2 ≤ F →
      parseSliceBody F start (⟨.COLON, p2, s2⟩ :: (e2 ++ (tb ++ ⟨.COLON, p3, s3⟩ ::
          (e3 ++ (tc ++ ⟨.RIGHT_BRACKET, p4, s4⟩ :: rest))))) =
        some ((start, b, c, true), rest) := by
  intro F hF
  obtain ⟨F, rfl⟩ : ∃ F', F = F' + 1 := ⟨F - 1, by omega⟩
  cases c with
  | none =>
    have : tc = [] := hc
    subst this
    have f3 := skipE_eols_ne he3 (xs := ⟨.RIGHT_BRACKET, p4, s4⟩ :: rest) (by simp)
    cases b with
    | none =>
      have : tb = [] := hb
      subst this
      simp [parseSliceBody, f3,
        skipE_eols_ne he2 (xs := ⟨.COLON, p3, s3⟩ :: (e3 ++ ⟨.RIGHT_BRACKET, p4, s4⟩ :: rest)) (by simp)]
    | some x =>
      have hb' : PEok x tb := hb
      have hs := exprStart_ne (hb'.start (⟨.COLON, p3, s3⟩ :: (e3 ++ ⟨.RIGHT_BRACKET, p4, s4⟩ :: rest)))
      have hx := hb'.fin (rest := ⟨.COLON, p3, s3⟩ :: (e3 ++ ⟨.RIGHT_BRACKET, p4, s4⟩ :: rest)) rfl F (by omega)
      simp [parseSliceBody, f3, skipE_eols_ne he2 hs.1, hs.2.1, hs.2.2.1, hx]
  | some y =>
    have hc' : PEok y tc := hc
    have hs3 := exprStart_ne (hc'.start (⟨.RIGHT_BRACKET, p4, s4⟩ :: rest))
    have hy := hc'.fin (rest := ⟨.RIGHT_BRACKET, p4, s4⟩ :: rest) rfl F (by omega)
    have f3 := skipE_eols_ne he3 hs3.1
    cases b with
    | none =>
      have : tb = [] := hb
      subst this
      simp [parseSliceBody, f3, hs3.2.2.1, hy,
        skipE_eols_ne he2 (xs := ⟨.COLON, p3, s3⟩ :: (e3 ++ (tc ++ ⟨.RIGHT_BRACKET, p4, s4⟩ :: rest))) (by simp)]
    | some x =>
      have hb' : PEok x tb := hb
      have hs := exprStart_ne (hb'.start (⟨.COLON, p3, s3⟩ :: (e3 ++ (tc ++ ⟨.RIGHT_BRACKET, p4, s4⟩ :: rest))))
      have hx := hb'.fin (rest := ⟨.COLON, p3, s3⟩ :: (e3 ++ (tc ++ ⟨.RIGHT_BRACKET, p4, s4⟩ :: rest))) rfl F (by omega)
      simp [parseSliceBody, f3, hs3.2.2.1, hy, skipE_eols_ne he2 hs.1, hs.2.1, hs.2.2.1, hx]

theorem slice_front_chain {obj s : PT} {a : Option PT} {ta e1 body rest : List Item} {i : Item}
    {sl : Option PT × Option PT × Bool} {n f : Nat} {res : PT × List Item}
    (hi : i.typ = .LEFT_BRACKET) (he1 : Eols e1) (ha : POok a ta) (hcolon : tk body = .COLON)
    (hbody : ∀ start F, n ≤ F → parseSliceBody F start body = some ((start, sl), rest))
    (hmk : mkSlice obj a sl.1 sl.2.1 sl.2.2 = some s)
    (hK : ∀ F, f ≤ F → parseSliceChain F s rest = some res) :
    ∀ F, f + n + 4 * ta.length + 2 ≤ F → parseSliceChain F obj (i :: (e1 ++ (ta ++ body))) = some res := by
  intro F hF
  obtain ⟨F, rfl⟩ : ∃ F', F = F' + 1 := ⟨F - 1, by omega⟩
  have hce : tk body ≠ .EOL := by rw [hcolon]; simp
  cases a with
  | none =>
    have : ta = [] := ha
    subst this
    simp [parseSliceChain, hi, skipE_eols_ne he1 hce, hcolon, hbody none F (by omega), hmk]
    exact hK F (by omega)
  | some x =>
    have ha' : PEok x ta := ha
    have hs := exprStart_ne (ha'.start body)
    have hx := ha'.fin (rest := body) (by rw [hcolon]; rfl) F (by omega)
    simp [parseSliceChain, hi, skipE_eols_ne he1 hs.1, hs.2.1, hx, hbody (some x) F (by omega), hmk]
    exact hK F (by omega)

theorem slice_front_ident {q v} {s : PT} {a : Option PT} {ta e1 body rest : List Item} {i : Item}
    {sl : Option PT × Option PT × Bool} {n f : Nat} {res : PT × List Item}
    (hi : i.typ = .LEFT_BRACKET) (he1 : Eols e1) (ha : POok a ta) (hcolon : tk body = .COLON)
    (hbody : ∀ start F, n ≤ F → parseSliceBody F start body = some ((start, sl), rest))
    (hmk : mkSlice (.ident q v) a sl.1 sl.2.1 sl.2.2 = some s)
    (hK : ∀ F, f ≤ F → parseSliceChain F s rest = some res) :
    ∀ F, f + n + 4 * ta.length + 2 ≤ F → parseAfterIdent F q v (i :: (e1 ++ (ta ++ body))) = some res := by
  intro F hF
  obtain ⟨F, rfl⟩ : ∃ F', F = F' + 1 := ⟨F - 1, by omega⟩
  have hce : tk body ≠ .EOL := by rw [hcolon]; simp
  cases a with
  | none =>
    have : ta = [] := ha
    subst this
    simp [parseAfterIdent, hi, skipE_eols_ne he1 hce, hcolon, hbody none F (by omega), hmk]
    exact hK F (by omega)
  | some x =>
    have ha' : PEok x ta := ha
    have hs := exprStart_ne (ha'.start body)
    have hx := ha'.fin (rest := body) (by rw [hcolon]; rfl) F (by omega)
    simp [parseAfterIdent, hi, skipE_eols_ne he1 hs.1, hs.2.1, hx, hcolon, hbody (some x) F (by omega), hmk]
    exact hK F (by omega)

theorem primK_slice {obj s : PT} {a : Option PT} {ta e1 body rest : List Item} {i : Item}
    {sl : Option PT × Option PT × Bool} {n f : Nat} {res : PT × List Item}
    (hsb : sliceBase obj)
    (hi : i.typ = .LEFT_BRACKET) (he1 : Eols e1) (ha : POok a ta) (hcolon : tk body = .COLON)
    (hbody : ∀ start F, n ≤ F → parseSliceBody F start body = some ((start, sl), rest))
    (hmk : mkSlice obj a sl.1 sl.2.1 sl.2.2 = some s)
    (hK : ∀ F, f ≤ F → parseSliceChain F s rest = some res) :
    ∀ F, f + n + 4 * ta.length + 2 ≤ F → primK F obj (i :: (e1 ++ (ta ++ body))) = some res := by
  cases obj <;> simp only [sliceBase] at hsb <;> simp only [primK]
  case ident q v => exact slice_front_ident hi he1 ha hcolon hbody hmk hK
  all_goals exact slice_front_chain hi he1 ha hcolon hbody hmk hK

theorem postOK_sliceBase {obj : PT} (h : sliceBase obj) (rest : List Item) : PostOK obj rest := by
  cases obj <;> simp_all [sliceBase, PostOK]

theorem attrArg_not_sliceBase_step {t : PT} (h : attrArg t) : ∀ o a b c c2, t ≠ .slice o a b c c2 := by
  intro o a b c c2 he; subst he; simp [attrArg] at h

theorem pe_slice2 {obj a b t0 ta tb e1 e2 p1 s1 p2 s2 p3 s3} (hsb : sliceBase obj)
    (hmk : mkSlice obj a b none false = some (.slice obj a b none false))
    (he1 : Eols e1) (he2 : Eols e2) (ih0 : PEok obj t0) (iha : POok a ta) (ihb : POok b tb) :
    PEok (.slice obj a b none false)
      (t0 ++ [⟨.LEFT_BRACKET, p1, s1⟩] ++ e1 ++ ta ++ [⟨.COLON, p2, s2⟩] ++ e2 ++ tb ++ [⟨.RIGHT_BRACKET, p3, s3⟩]) := by
  apply PEok.ofPrim rfl
  · intro rest; simpa [List.append_assoc] using ih0.pstart (sliceBase_level hsb) _
  · intro rest f res _ hK F hF
    simp only [List.append_assoc, List.cons_append, List.nil_append]
    simp only [List.length_append, List.length_cons, List.length_nil] at hF
    refine ih0.prim (sliceBase_level hsb) _ (f + (4 * tb.length + 2) + 4 * ta.length + 2) res
      (postOK_sliceBase hsb _) ?_ F (by omega)
    exact primK_slice (sl := (b, none, false)) hsb rfl he1 iha rfl
      (fun start F hF => sliceBody2 he2 ihb start rest F hF) hmk hK
  · intro h; simp [attrArg] at h
  · intro rest _ F hF
    simp only [List.append_assoc, List.cons_append, List.nil_append]
    simp only [List.length_append, List.length_cons, List.length_nil] at hF
    exact ih0.brace _ rfl F (by omega)

theorem pe_slice3 {obj a b c t0 ta tb tc e1 e2 e3 p1 s1 p2 s2 p3 s3 p4 s4} (hsb : sliceBase obj)
    (hmk : mkSlice obj a b c true = some (.slice obj a b c true))
    (he1 : Eols e1) (he2 : Eols e2) (he3 : Eols e3) (ih0 : PEok obj t0) (iha : POok a ta) (ihb : POok b tb)
    (ihc : POok c tc) :
    PEok (.slice obj a b c true)
      (t0 ++ [⟨.LEFT_BRACKET, p1, s1⟩] ++ e1 ++ ta ++ [⟨.COLON, p2, s2⟩] ++ e2 ++ tb
        ++ [⟨.COLON, p3, s3⟩] ++ e3 ++ tc ++ [⟨.RIGHT_BRACKET, p4, s4⟩]) := by
  apply PEok.ofPrim rfl
  · intro rest; simpa [List.append_assoc] using ih0.pstart (sliceBase_level hsb) _
  · intro rest f res _ hK F hF
    simp only [List.append_assoc, List.cons_append, List.nil_append]
    simp only [List.length_append, List.length_cons, List.length_nil] at hF
    refine ih0.prim (sliceBase_level hsb) _ (f + (4 * tb.length + 4 * tc.length + 2) + 4 * ta.length + 2) res
      (postOK_sliceBase hsb _) ?_ F (by omega)
    exact primK_slice (sl := (b, c, true)) hsb rfl he1 iha rfl
      (fun start F hF => sliceBody3 he2 he3 ihb ihc start rest F hF) hmk hK
  · intro h; simp [attrArg] at h
  · intro rest _ F hF
    simp only [List.append_assoc, List.cons_append, List.nil_append]
    simp only [List.length_append, List.length_cons, List.length_nil] at hF
    exact ih0.brace _ rfl F (by omega)

/-! ### list literals -/

structure PLok (xs : List PT) (ts : List Item) : Prop where
  start : ∀ rest, exprStart (tk (ts ++ rest)) = true
  elems : ∀ acc rest F, 4 * ts.length + 1 ≤ F → parseListElems F acc (ts ++ rest) = some (acc ++ xs, rest)

theorem pl_last {x t e p s} (he : Eols e) (ih : PEok x t) :
    PLok [x] (t ++ e ++ [⟨.RIGHT_BRACKET, p, s⟩]) where
  start rest := by simpa [List.append_assoc] using ih.start _
  elems acc rest F hF := by
    simp only [List.append_assoc, List.cons_append, List.nil_append]
    simp only [List.length_append, List.length_cons, List.length_nil] at hF
    obtain ⟨F, rfl⟩ : ∃ F', F = F' + 1 := ⟨F - 1, by omega⟩
    have hx := ih.fin (rest := e ++ ⟨.RIGHT_BRACKET, p, s⟩ :: rest) (stop1_eols he rfl) F (by omega)
    simp [parseListElems, hx, skipE_eols_ne he (xs := ⟨.RIGHT_BRACKET, p, s⟩ :: rest) (by simp)]

theorem pl_lastComma {x t e1 e2 p s p' s'} (he1 : Eols e1) (he2 : Eols e2) (ih : PEok x t) :
    PLok [x] (t ++ e1 ++ [⟨.COMMA, p, s⟩] ++ e2 ++ [⟨.RIGHT_BRACKET, p', s'⟩]) where
  start rest := by simpa [List.append_assoc] using ih.start _
  elems acc rest F hF := by
    simp only [List.append_assoc, List.cons_append, List.nil_append]
    simp only [List.length_append, List.length_cons, List.length_nil] at hF
    obtain ⟨F, rfl⟩ : ∃ F', F = F' + 1 := ⟨F - 1, by omega⟩
    have hx := ih.fin (rest := e1 ++ ⟨.COMMA, p, s⟩ :: (e2 ++ ⟨.RIGHT_BRACKET, p', s'⟩ :: rest))
      (stop1_eols he1 rfl) F (by omega)
    simp [parseListElems, hx,
      skipE_eols_ne he1 (xs := ⟨.COMMA, p, s⟩ :: (e2 ++ ⟨.RIGHT_BRACKET, p', s'⟩ :: rest)) (by simp),
      skipE_eols_ne he2 (xs := ⟨.RIGHT_BRACKET, p', s'⟩ :: rest) (by simp)]

theorem pl_cons {x rest' t tr e1 e2 p s} (he1 : Eols e1) (he2 : Eols e2) (ih : PEok x t) (ihr : PLok rest' tr) :
    PLok (x :: rest') (t ++ e1 ++ [⟨.COMMA, p, s⟩] ++ e2 ++ tr) where
  start rest := by simpa [List.append_assoc] using ih.start _
  elems acc rest F hF := by
    simp only [List.append_assoc, List.cons_append, List.nil_append]
    simp only [List.length_append, List.length_cons, List.length_nil] at hF
    obtain ⟨F, rfl⟩ : ∃ F', F = F' + 1 := ⟨F - 1, by omega⟩
    have hx := ih.fin (rest := e1 ++ ⟨.COMMA, p, s⟩ :: (e2 ++ (tr ++ rest))) (stop1_eols he1 rfl) F (by omega)
    have hs := exprStart_ne (ihr.start rest)
    have hr := ihr.elems (acc ++ [x]) rest F (by omega)
    simp [parseListElems, hx,
      skipE_eols_ne he1 (xs := ⟨.COMMA, p, s⟩ :: (e2 ++ (tr ++ rest))) (by simp),
      skipE_eols_ne he2 hs.1, hs.2.2.1, hr]

theorem pe_listNil {p s p' s' e} (he : Eols e) :
    PEok (.list []) ([⟨.LEFT_BRACKET, p, s⟩] ++ e ++ [⟨.RIGHT_BRACKET, p', s'⟩]) := by
  apply PEok.ofPrim rfl
  · intro rest; rfl
  · intro rest f res _ hK F hF
    simp only [List.append_assoc, List.cons_append, List.nil_append]
    simp only [List.length_append, List.length_cons, List.length_nil] at hF
    obtain ⟨F, rfl⟩ : ∃ F', F = F' + 1 := ⟨F - 1, by omega⟩
    simp [parsePrimary, skipE_eols_ne he (xs := ⟨.RIGHT_BRACKET, p', s'⟩ :: rest) (by simp)]
    exact hK F (by omega)
  · intro h; simp [attrArg] at h
  · intro rest _ F _; exact asBlock_of_ne (by simp) F

theorem pe_list {p s e xs ts} (he : Eols e) (ih : PLok xs ts) :
    PEok (.list xs) ([⟨.LEFT_BRACKET, p, s⟩] ++ e ++ ts) := by
  apply PEok.ofPrim rfl
  · intro rest; rfl
  · intro rest f res _ hK F hF
    simp only [List.append_assoc, List.cons_append, List.nil_append]
    simp only [List.length_append, List.length_cons, List.length_nil] at hF
    obtain ⟨F, rfl⟩ : ∃ F', F = F' + 1 := ⟨F - 1, by omega⟩
    have hs := exprStart_ne (ih.start rest)
    have hx := ih.elems [] rest F (by omega)
    simp [parsePrimary, skipE_eols_ne he hs.1, hs.2.2.1, hx]
    exact hK F (by omega)
  · intro h; simp [attrArg] at h
  · intro rest _ F _; exact asBlock_of_ne (by simp) F

/-! ### comma lists and simple statements (used here for the block-first attempt on a map literal) -/

theorem parseCommaParams_one {F : Nat} {xs r : List Item} {e : PT} (acc : List PT)
    (he : parseExpr F 1 xs = some (e, r)) (hc : tk r ≠ .COMMA) :
    parseCommaParams (F + 1) acc xs = some (acc ++ [e], r) := by
  simp [parseCommaParams, he, hc]

theorem parseCommaParams_more {F : Nat} {xs r : List Item} {e : PT} (acc : List PT)
    (he : parseExpr F 1 xs = some (e, r)) (hc : tk r = .COMMA) :
    parseCommaParams (F + 1) acc xs = parseCommaParams F (acc ++ [e]) (skipE (r.drop 1)) := by
  simp [parseCommaParams, he, hc]

theorem parseSimple_expr {F : Nat} {xs r : List Item} {e : PT}
    (hc : parseCommaParams F [] xs = some ([e], r)) (h1 : tk r ≠ .EQ) (h2 : asgOf (tk r) = none) :
    parseSimple (F + 1) xs = some (e, r) := by
  simp [parseSimple, hc, h1, h2]

/-- the block-first attempt fails on `{ key : …` -/
theorem block_key {k : PT} {tks e rest' : List Item} {i : Item} {p s} (ih : PEok k tks) (hi : i.typ = .LEFT_BRACE)
    (he : Eols e) : ∀ F, 4 * tks.length + 6 ≤ F →
      parseBlock F (i :: (e ++ (tks ++ ⟨.COLON, p, s⟩ :: rest'))) = none := by
  intro F hF
  obtain ⟨F, rfl⟩ : ∃ F', F = F' + 5 := ⟨F - 5, by omega⟩
  have hst := ih.start (⟨.COLON, p, s⟩ :: rest')
  have hs := exprStart_ne hst
  have hx := ih.fin (rest := ⟨.COLON, p, s⟩ :: rest') rfl F (by omega)
  have h1 := parseCommaParams_one [] hx (by simp)
  have h2 := parseSimple_expr h1 (by simp) rfl
  have h3 : parseStmt (F + 3) (tks ++ ⟨.COLON, p, s⟩ :: rest') = some (k, ⟨.COLON, p, s⟩ :: rest') := by
    rw [parseStmt_simple hst]; exact h2
  have h4 : parseStmts (F + 4) (tks ++ ⟨.COLON, p, s⟩ :: rest') = some ([k], ⟨.COLON, p, s⟩ :: rest') := by
    simp [parseStmts, hs.2.2.2.2.2.1, h3, parseStmtsTail]
  simp [parseBlock, hi, skipE_eols_ne he hs.1, hs.2.2.2.2.1, h4]

/-! ### map literals -/

structure PMok (kvs : List (PT × PT)) (ts : List Item) : Prop where
  start : ∀ rest, exprStart (tk (ts ++ rest)) = true
  elems : ∀ acc rest F, 4 * ts.length + 1 ≤ F → parseMapElems F acc (ts ++ rest) = some (acc ++ kvs, rest)
  noblock : ∀ (i : Item) e rest, i.typ = .LEFT_BRACE → Eols e → ∀ F, 4 * ts.length ≤ F →
    parseBlock F (i :: (e ++ (ts ++ rest))) = none

theorem pm_last {k v tks tv e1 e2 p s p' s'} (he1 : Eols e1) (he2 : Eols e2) (ihk : PEok k tks) (ihv : PEok v tv) :
    PMok [(k, v)] (tks ++ [⟨.COLON, p, s⟩] ++ e1 ++ tv ++ e2 ++ [⟨.RIGHT_BRACE, p', s'⟩]) where
  start rest := by simpa [List.append_assoc] using ihk.start _
  elems acc rest F hF := by
    simp only [List.append_assoc, List.cons_append, List.nil_append]
    simp only [List.length_append, List.length_cons, List.length_nil] at hF
    obtain ⟨F, rfl⟩ : ∃ F', F = F' + 1 := ⟨F - 1, by omega⟩
    have hk := ihk.fin (rest := ⟨.COLON, p, s⟩ :: (e1 ++ (tv ++ (e2 ++ ⟨.RIGHT_BRACE, p', s'⟩ :: rest)))) rfl F (by omega)
    have hs := exprStart_ne (ihv.start (e2 ++ ⟨.RIGHT_BRACE, p', s'⟩ :: rest))
    have hv := ihv.fin (rest := e2 ++ ⟨.RIGHT_BRACE, p', s'⟩ :: rest) (stop1_eols he2 rfl) F (by omega)
    have hc : tk (e2 ++ ⟨.RIGHT_BRACE, p', s'⟩ :: rest) ≠ .COMMA := tk_eols he2 (fun t => t ≠ .COMMA) (by simp) (by simp)
    simp [parseMapElems, hk, skipE_eols_ne he1 hs.1, hv, hc,
      skipE_eols_ne he2 (xs := ⟨.RIGHT_BRACE, p', s'⟩ :: rest) (by simp)]
  noblock i e rest hi he F hF := by
    simp only [List.append_assoc, List.cons_append, List.nil_append]
    simp only [List.length_append, List.length_cons, List.length_nil] at hF
    have := ihv.len
    exact block_key ihk hi he F (by omega)

theorem pm_lastComma {k v tks tv e1 e2 p s p' s' p2 s2} (he1 : Eols e1) (he2 : Eols e2) (ihk : PEok k tks)
    (ihv : PEok v tv) :
    PMok [(k, v)] (tks ++ [⟨.COLON, p, s⟩] ++ e1 ++ tv ++ [⟨.COMMA, p2, s2⟩] ++ e2 ++ [⟨.RIGHT_BRACE, p', s'⟩]) where
  start rest := by simpa [List.append_assoc] using ihk.start _
  elems acc rest F hF := by
    simp only [List.append_assoc, List.cons_append, List.nil_append]
    simp only [List.length_append, List.length_cons, List.length_nil] at hF
    obtain ⟨F, rfl⟩ : ∃ F', F = F' + 1 := ⟨F - 1, by omega⟩
    have hk := ihk.fin (rest := ⟨.COLON, p, s⟩ :: (e1 ++ (tv ++ ⟨.COMMA, p2, s2⟩ :: (e2 ++ ⟨.RIGHT_BRACE, p', s'⟩ :: rest)))) rfl F (by omega)
    have hs := exprStart_ne (ihv.start (⟨.COMMA, p2, s2⟩ :: (e2 ++ ⟨.RIGHT_BRACE, p', s'⟩ :: rest)))
    have hv := ihv.fin (rest := ⟨.COMMA, p2, s2⟩ :: (e2 ++ ⟨.RIGHT_BRACE, p', s'⟩ :: rest)) rfl F (by omega)
    simp [parseMapElems, hk, skipE_eols_ne he1 hs.1, hv,
      skipE_eols_ne he2 (xs := ⟨.RIGHT_BRACE, p', s'⟩ :: rest) (by simp)]
  noblock i e rest hi he F hF := by
    simp only [List.append_assoc, List.cons_append, List.nil_append]
    simp only [List.length_append, List.length_cons, List.length_nil] at hF
    have := ihv.len
    exact block_key ihk hi he F (by omega)

theorem pm_cons {k v rest' tks tv tr e1 e2 p s p2 s2} (he1 : Eols e1) (he2 : Eols e2) (ihk : PEok k tks)
    (ihv : PEok v tv) (ihr : PMok rest' tr) :
    PMok ((k, v) :: rest') (tks ++ [⟨.COLON, p, s⟩] ++ e1 ++ tv ++ [⟨.COMMA, p2, s2⟩] ++ e2 ++ tr) where
  start rest := by simpa [List.append_assoc] using ihk.start _
  elems acc rest F hF := by
    simp only [List.append_assoc, List.cons_append, List.nil_append]
    simp only [List.length_append, List.length_cons, List.length_nil] at hF
    obtain ⟨F, rfl⟩ : ∃ F', F = F' + 1 := ⟨F - 1, by omega⟩
    have hk := ihk.fin (rest := ⟨.COLON, p, s⟩ :: (e1 ++ (tv ++ ⟨.COMMA, p2, s2⟩ :: (e2 ++ (tr ++ rest))))) rfl F (by omega)
    have hs := exprStart_ne (ihv.start (⟨.COMMA, p2, s2⟩ :: (e2 ++ (tr ++ rest))))
    have hv := ihv.fin (rest := ⟨.COMMA, p2, s2⟩ :: (e2 ++ (tr ++ rest))) rfl F (by omega)
    have hs2 := exprStart_ne (ihr.start rest)
    have hr := ihr.elems (acc ++ [(k, v)]) rest F (by omega)
    simp [parseMapElems, hk, skipE_eols_ne he1 hs.1, hv, skipE_eols_ne he2 hs2.1, hs2.2.2.2.2.1, hr]
  noblock i e rest hi he F hF := by
    simp only [List.append_assoc, List.cons_append, List.nil_append]
    simp only [List.length_append, List.length_cons, List.length_nil] at hF
    have := ihv.len
    exact block_key ihk hi he F (by omega)

theorem pe_mapNil {p s p' s' e} (he : Eols e) :
    PEok (.map []) ([⟨.LEFT_BRACE, p, s⟩] ++ e ++ [⟨.RIGHT_BRACE, p', s'⟩]) := by
  apply PEok.ofPrim rfl
  · intro rest; rfl
  · intro rest f res _ hK F hF
    simp only [List.append_assoc, List.cons_append, List.nil_append]
    simp only [List.length_append, List.length_cons, List.length_nil] at hF
    obtain ⟨F, rfl⟩ : ∃ F', F = F' + 1 := ⟨F - 1, by omega⟩
    have hres : some (PT.map [], rest) = some res := hK f (Nat.le_refl _)
    simp [parsePrimary, skipE_eols_ne he (xs := ⟨.RIGHT_BRACE, p', s'⟩ :: rest) (by simp)]
    simpa using hres
  · intro h; simp [attrArg] at h
  · intro rest hr F hF
    simp only [List.append_assoc, List.cons_append, List.nil_append]
    simp only [List.length_append, List.length_cons, List.length_nil] at hF
    obtain ⟨F, rfl⟩ : ∃ F', F = F' + 1 := ⟨F - 1, by omega⟩
    simp [asBlock, parseBlock, skipE_eols_ne he (xs := ⟨.RIGHT_BRACE, p', s'⟩ :: rest) (by simp), hr]

theorem pe_map {p s e kvs ts} (he : Eols e) (ih : PMok kvs ts) :
    PEok (.map kvs) ([⟨.LEFT_BRACE, p, s⟩] ++ e ++ ts) := by
  apply PEok.ofPrim rfl
  · intro rest; rfl
  · intro rest f res _ hK F hF
    simp only [List.append_assoc, List.cons_append, List.nil_append]
    simp only [List.length_append, List.length_cons, List.length_nil] at hF
    obtain ⟨F, rfl⟩ : ∃ F', F = F' + 1 := ⟨F - 1, by omega⟩
    have hres : some (PT.map kvs, rest) = some res := hK f (Nat.le_refl _)
    have hs := exprStart_ne (ih.start rest)
    have hx := ih.elems [] rest F (by omega)
    simp [parsePrimary, skipE_eols_ne he hs.1, hs.2.2.2.2.1, hx]
    simpa using hres
  · intro h; simp [attrArg] at h
  · intro rest _ F hF
    simp only [List.append_assoc, List.cons_append, List.nil_append]
    simp only [List.length_append, List.length_cons, List.length_nil] at hF
    have := ih.noblock ⟨.LEFT_BRACE, p, s⟩ e rest rfl he F (by omega)
    simp [asBlock, this]

/-! ### calls -/

/-- one call argument as `parseArgs` reads it -/
def argStep (F : Nat) (ts : List Item) : Option (PT × List Item) :=
  match parseExpr F 1 ts with
  | none => none
  | some (e, r) =>
    match e with
    | .ident _ _ =>
      if tk r = .EQ then
        match parseExpr F 1 (skipE (r.drop 1)) with
        | some (v, r') => some (.assign .eq [e] [v], r')
        | none => none
      else some (e, r)
    | _ => some (e, r)

theorem parseArgs_last {F : Nat} {acc : List PT} {ts r' r3 : List Item} {arg : PT}
    (ha : argStep F ts = some (arg, r')) (hc : tk r' ≠ .COMMA) (hx : expect .RIGHT_PAREN (skipE r') = some r3) :
    parseArgs (F + 1) acc ts = some (acc ++ [arg], r3) := by
  simp only [argStep] at ha
  simp only [parseArgs]
  split at ha
  · cases ha
  · rename_i e r he
    simp only [he]
    split at ha
    · split at ha
      · split at ha
        · rename_i v r'' hv
          cases ha
          simp_all
        · cases ha
      · cases ha; simp_all
    · cases ha
      simp_all

theorem parseArgs_lastComma {F : Nat} {acc : List PT} {ts r' : List Item} {arg : PT}
    (ha : argStep F ts = some (arg, r')) (hc : tk r' = .COMMA) (hx : tk (skipE (r'.drop 1)) = .RIGHT_PAREN) :
    parseArgs (F + 1) acc ts = some (acc ++ [arg], (skipE (r'.drop 1)).drop 1) := by
  simp only [argStep] at ha
  simp only [parseArgs]
  split at ha
  · cases ha
  · rename_i e r he
    simp only [he]
    split at ha
    · split at ha
      · split at ha
        · rename_i v r'' hv
          cases ha
          simp_all
        · cases ha
      · cases ha; simp_all
    · cases ha
      simp_all

theorem parseArgs_cons {F : Nat} {acc : List PT} {ts r' : List Item} {arg : PT}
    (ha : argStep F ts = some (arg, r')) (hc : tk r' = .COMMA) (hx : tk (skipE (r'.drop 1)) ≠ .RIGHT_PAREN) :
    parseArgs (F + 1) acc ts = parseArgs F (acc ++ [arg]) (skipE (r'.drop 1)) := by
  simp only [argStep] at ha
  simp only [parseArgs]
  split at ha
  · cases ha
  · rename_i e r he
    simp only [he]
    split at ha
    · split at ha
      · split at ha
        · rename_i v r'' hv
          cases ha
          simp_all
        · cases ha
      · cases ha; simp_all
    · cases ha
      simp_all

structure PArgok (a : PT) (t : List Item) : Prop where
  start : ∀ rest, exprStart (tk (t ++ rest)) = true
  len : 1 ≤ t.length
  step : ∀ rest, stop1 (tk rest) = true → tk rest ≠ .EQ → ∀ F, 4 * t.length + 1 ≤ F →
    argStep F (t ++ rest) = some (a, rest)

theorem parg_pos {x t} (ih : PEok x t) : PArgok x t where
  start := ih.start
  len := ih.len
  step rest hs heq F hF := by
    have hx := ih.fin hs F hF
    simp only [argStep, hx]
    cases x <;> simp [heq]

theorem parg_named {q v p p' s e x t} (hok : identOK q v) (he : Eols e) (ih : PEok x t) :
    PArgok (.assign .eq [.ident q v] [x]) ([⟨identTok q, p, v⟩, ⟨.EQ, p', s⟩] ++ e ++ t) where
  start rest := by simpa using primStart_exprStart (identTok_prim q)
  len := by simp
  step rest hs heq F hF := by
    simp only [List.append_assoc, List.cons_append, List.nil_append]
    simp only [List.length_append, List.length_cons, List.length_nil] at hF
    have h1 := (pe_ident q v p hok).fin (rest := ⟨.EQ, p', s⟩ :: (e ++ (t ++ rest))) rfl F (by simp; omega)
    have hne := (exprStart_ne (ih.start rest)).1
    have h2 := ih.fin hs F (by omega)
    simp only [List.cons_append, List.nil_append] at h1
    simp [argStep, h1, skipE_eols_ne he hne, h2]

structure PAok (args : List PT) (ts : List Item) : Prop where
  start : ∀ rest, exprStart (tk (ts ++ rest)) = true
  args : ∀ acc rest F, 4 * ts.length + 2 ≤ F → parseArgs F acc (ts ++ rest) = some (acc ++ args, rest)

theorem pa_last {a t e p s} (he : Eols e) (ih : PArgok a t) :
    PAok [a] (t ++ e ++ [⟨.RIGHT_PAREN, p, s⟩]) where
  start rest := by simpa [List.append_assoc] using ih.start _
  args acc rest F hF := by
    simp only [List.append_assoc, List.cons_append, List.nil_append]
    simp only [List.length_append, List.length_cons, List.length_nil] at hF
    obtain ⟨F, rfl⟩ : ∃ F', F = F' + 1 := ⟨F - 1, by omega⟩
    have ha := ih.step (e ++ ⟨.RIGHT_PAREN, p, s⟩ :: rest) (stop1_eols he rfl)
      (tk_eols he (fun t => t ≠ .EQ) (by simp) (by simp)) F (by omega)
    exact parseArgs_last ha (tk_eols he (fun t => t ≠ .COMMA) (by simp) (by simp))
      (by rw [skipE_eols_ne he (xs := ⟨.RIGHT_PAREN, p, s⟩ :: rest) (by simp)]; rfl)

theorem pa_lastComma {a t e p s p' s'} (he : Eols e) (ih : PArgok a t) :
    PAok [a] (t ++ [⟨.COMMA, p, s⟩] ++ e ++ [⟨.RIGHT_PAREN, p', s'⟩]) where
  start rest := by simpa [List.append_assoc] using ih.start _
  args acc rest F hF := by
    simp only [List.append_assoc, List.cons_append, List.nil_append]
    simp only [List.length_append, List.length_cons, List.length_nil] at hF
    obtain ⟨F, rfl⟩ : ∃ F', F = F' + 1 := ⟨F - 1, by omega⟩
    have ha := ih.step (⟨.COMMA, p, s⟩ :: (e ++ ⟨.RIGHT_PAREN, p', s'⟩ :: rest)) rfl (by simp) F (by omega)
    have hsk : skipE (e ++ ⟨.RIGHT_PAREN, p', s'⟩ :: rest) = ⟨.RIGHT_PAREN, p', s'⟩ :: rest :=
      skipE_eols_ne he (by simp)
    have := parseArgs_lastComma (acc := acc) ha rfl (by simp [hsk])
    simpa [hsk] using this

theorem pa_cons {a rest' t tr e p s} (he : Eols e) (ih : PArgok a t) (ihr : PAok rest' tr) :
    PAok (a :: rest') (t ++ [⟨.COMMA, p, s⟩] ++ e ++ tr) where
  start rest := by simpa [List.append_assoc] using ih.start _
  args acc rest F hF := by
    simp only [List.append_assoc, List.cons_append, List.nil_append]
    simp only [List.length_append, List.length_cons, List.length_nil] at hF
    obtain ⟨F, rfl⟩ : ∃ F', F = F' + 1 := ⟨F - 1, by omega⟩
    have ha := ih.step (⟨.COMMA, p, s⟩ :: (e ++ (tr ++ rest))) rfl (by simp) F (by omega)
    have hs := exprStart_ne (ihr.start rest)
    have hsk : skipE (e ++ (tr ++ rest)) = tr ++ rest := skipE_eols_ne he hs.1
    have := parseArgs_cons (acc := acc) ha rfl (by simpa [hsk] using hs.2.2.2.1)
    rw [this]
    have hr := ihr.args (acc ++ [a]) rest F (by have := ih.len; omega)
    simpa [hsk] using hr

theorem pe_callNil {q v p p1 s1 p2 s2 e} (hok : identOK q v) (he : Eols e) :
    PEok (.call q v []) ([⟨identTok q, p, v⟩, ⟨.LEFT_PAREN, p1, s1⟩] ++ e ++ [⟨.RIGHT_PAREN, p2, s2⟩]) := by
  apply PEok.ofPrim rfl
  · intro rest; simpa using identTok_prim q
  · intro rest f res _ hK F hF
    simp only [List.append_assoc, List.cons_append, List.nil_append]
    simp only [List.length_append, List.length_cons, List.length_nil] at hF
    obtain ⟨F, rfl⟩ : ∃ F', F = F' + 2 := ⟨F - 2, by omega⟩
    rw [parsePrimary_ident hok]
    simp [parseAfterIdent, skipE_eols_ne he (xs := ⟨.RIGHT_PAREN, p2, s2⟩ :: rest) (by simp)]
    exact hK F (by omega)
  · intro h; simp [attrArg] at h
  · intro rest _ F _
    exact asBlock_of_ne (by cases q <;> simp [identTok]) F

theorem pe_call {q v p p1 s1 e args ts} (hok : identOK q v) (he : Eols e) (ih : PAok args ts) :
    PEok (.call q v args) ([⟨identTok q, p, v⟩, ⟨.LEFT_PAREN, p1, s1⟩] ++ e ++ ts) := by
  apply PEok.ofPrim rfl
  · intro rest; simpa using identTok_prim q
  · intro rest f res _ hK F hF
    simp only [List.append_assoc, List.cons_append, List.nil_append]
    simp only [List.length_append, List.length_cons, List.length_nil] at hF
    obtain ⟨F, rfl⟩ : ∃ F', F = F' + 2 := ⟨F - 2, by omega⟩
    rw [parsePrimary_ident hok]
    have hs := exprStart_ne (ih.start rest)
    have hx := ih.args [] rest F (by omega)
    simp [parseAfterIdent, skipE_eols_ne he hs.1, hs.2.2.2.1, hx]
    exact hK F (by omega)
  · intro h; simp [attrArg] at h
  · intro rest _ F _
    exact asBlock_of_ne (by cases q <;> simp [identTok]) F

/-! ### `comma_params` -/

structure PCok (xs : List PT) (ts : List Item) : Prop where
  start : ∀ rest, exprStart (tk (ts ++ rest)) = true
  len : 1 ≤ ts.length
  params : ∀ acc rest, stop1 (tk rest) = true → tk rest ≠ .COMMA → ∀ F, 4 * ts.length + 2 ≤ F →
    parseCommaParams F acc (ts ++ rest) = some (acc ++ xs, rest)
  brace : ∀ rest, stmtEnd (tk rest) = false → ∀ F, 4 * ts.length ≤ F → asBlock F (ts ++ rest) = none

theorem pc_one {x t} (ih : PEok x t) : PCok [x] t where
  start := ih.start
  len := ih.len
  params acc rest hs hc F hF := by
    obtain ⟨F, rfl⟩ : ∃ F', F = F' + 1 := ⟨F - 1, by omega⟩
    exact parseCommaParams_one acc (ih.fin hs F (by omega)) hc
  brace := ih.brace

theorem pc_cons {x rest' t tr e p s} (he : Eols e) (ih : PEok x t) (ihr : PCok rest' tr) :
    PCok (x :: rest') (t ++ [⟨.COMMA, p, s⟩] ++ e ++ tr) where
  start rest := by simpa [List.append_assoc] using ih.start _
  len := by have := ih.len; simp; omega
  params acc rest hs hc F hF := by
    simp only [List.append_assoc, List.cons_append, List.nil_append]
    simp only [List.length_append, List.length_cons, List.length_nil] at hF
    obtain ⟨F, rfl⟩ : ∃ F', F = F' + 1 := ⟨F - 1, by omega⟩
    have hx := ih.fin (rest := ⟨.COMMA, p, s⟩ :: (e ++ (tr ++ rest))) rfl F (by omega)
    rw [parseCommaParams_more acc hx rfl]
    have hne := (exprStart_ne (ihr.start rest)).1
    have hr := ihr.params (acc ++ [x]) rest hs hc F (by omega)
    simpa [skipE_eols_ne he hne] using hr
  brace rest hr F hF := by
    simp only [List.append_assoc, List.cons_append, List.nil_append]
    simp only [List.length_append, List.length_cons, List.length_nil] at hF
    exact ih.brace _ rfl F (by omega)

/-! ### tying the knot: recursion on the spelling derivations -/

mutual

theorem pe_ok : {t : PT} → {ts : List Item} → PE t ts → PEok t ts
  | _, _, .ident q v p h => pe_ident q v p h
  | _, _, .num v p => pe_num v p
  | _, _, .numNeg v p p' s => pe_numNeg v p p' s
  | _, _, .str m v p h => pe_str m v p h
  | _, _, .boolT p s => pe_boolT p s
  | _, _, .boolF p s => pe_boolF p s
  | _, _, .nil p s => pe_nil p s
  | _, _, .null p s => pe_null p s
  | _, _, .listNil _ _ _ _ _ he => pe_listNil he
  | _, _, .list _ _ _ _ _ he h => pe_list he (pl_ok h)
  | _, _, .mapNil _ _ _ _ _ he => pe_mapNil he
  | _, _, .map _ _ _ _ _ he h => pe_map he (pm_ok h)
  | _, _, .paren _ _ _ _ _ _ _ _ h1 h2 h => pe_paren h1 h2 (pe_ok h)
  | _, _, .attr _ _ _ _ _ _ ho hy h1 h2 => pe_attr ho hy (pe_ok h1) (pe_ok h2)
  | _, _, .index _ _ _ _ _ hok hne h => pe_index hok hne (pi_ok h)
  | _, _, .indexDot _ _ _ _ hne h => pe_indexDot hne (pi_ok h)
  | _, _, .unary _ _ _ _ _ hx hf h => pe_unary hx hf (pe_ok h)
  | _, _, .bin _ _ _ _ _ _ _ _ hl hr hmk he h1 h2 => pe_bin hl hr hmk he (pe_ok h1) (pe_ok h2)
  | _, _, .callNil _ _ _ _ _ _ _ _ hok he => pe_callNil hok he
  | _, _, .call _ _ _ _ _ _ _ _ hok he h => pe_call hok he (pa_ok h)
  | _, _, .slice2 _ _ _ _ _ _ _ _ _ _ _ _ _ _ hsb hmk he1 he2 h0 ha hb =>
    pe_slice2 hsb hmk he1 he2 (pe_ok h0) (po_ok ha) (po_ok hb)
  | _, _, .slice3 _ _ _ _ _ _ _ _ _ _ _ _ _ _ _ _ _ _ _ hsb hmk he1 he2 he3 h0 ha hb hc =>
    pe_slice3 hsb hmk he1 he2 he3 (pe_ok h0) (po_ok ha) (po_ok hb) (po_ok hc)

theorem po_ok : {o : Option PT} → {ts : List Item} → PO o ts → POok o ts
  | _, _, .none => rfl
  | _, _, .some _ _ h => pe_ok h

theorem pi_ok : {idx : List PT} → {ts : List Item} → PI idx ts → PIok idx ts
  | _, _, .nil => pi_nil
  | _, _, .cons _ _ _ _ _ _ _ _ _ _ h1 h2 hx hr => pi_cons h1 h2 (pe_ok hx) (pi_ok hr)

theorem pl_ok : {xs : List PT} → {ts : List Item} → PL xs ts → PLok xs ts
  | _, _, .last _ _ _ _ _ he h => pl_last he (pe_ok h)
  | _, _, .lastComma _ _ _ _ _ _ _ _ he1 he2 h => pl_lastComma he1 he2 (pe_ok h)
  | _, _, .cons _ _ _ _ _ _ _ _ he1 he2 h hr => pl_cons he1 he2 (pe_ok h) (pl_ok hr)

theorem pm_ok : {kvs : List (PT × PT)} → {ts : List Item} → PM kvs ts → PMok kvs ts
  | _, _, .last _ _ _ _ _ _ _ _ _ _ he1 he2 hk hv => pm_last he1 he2 (pe_ok hk) (pe_ok hv)
  | _, _, .lastComma _ _ _ _ _ _ _ _ _ _ _ _ he1 he2 hk hv => pm_lastComma he1 he2 (pe_ok hk) (pe_ok hv)
  | _, _, .cons _ _ _ _ _ _ _ _ _ _ _ _ he1 he2 hk hv hr => pm_cons he1 he2 (pe_ok hk) (pe_ok hv) (pm_ok hr)

theorem parg_ok : {a : PT} → {ts : List Item} → PArg a ts → PArgok a ts
  | _, _, .pos _ _ h => parg_pos (pe_ok h)
  | _, _, .named _ _ _ _ _ _ _ _ hok he h => parg_named hok he (pe_ok h)

theorem pa_ok : {args : List PT} → {ts : List Item} → PA args ts → PAok args ts
  | _, _, .last _ _ _ _ _ he h => pa_last he (parg_ok h)
  | _, _, .lastComma _ _ _ _ _ _ _ he h => pa_lastComma he (parg_ok h)
  | _, _, .cons _ _ _ _ _ _ _ he h hr => pa_cons he (parg_ok h) (pa_ok hr)

end

theorem pc_ok : {xs : List PT} → {ts : List Item} → PC xs ts → PCok xs ts
  | _, _, .one _ _ h => pc_one (pe_ok h)
  | _, _, .cons _ _ _ _ _ _ _ he h hr => pc_cons he (pe_ok h) (pc_ok hr)

end Platypus.Parse
