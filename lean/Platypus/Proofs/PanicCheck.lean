import Platypus.Model.Check
namespace Platypus.PanicProofs
open Platypus

/-- argument counts the run-time code relies on (established by the `*Checking` functions) -/
def argsOk (c : CallInfo) : Bool :=
  match Fn.ofName c.name with
  | some .len | some .loadJson | some .trim | some .uppercase | some .urlDecode => decide (c.args.length ≥ 1)
  | some .grok => decide (c.args.length ≥ 2)
  | _ => true

theorem accepted_argsOk (oracle : Bytes → Option Bytes) (file : Bytes) (c : CallInfo) (s s' : CheckSt)
    (h : builtinCheck oracle file c s = .ok () s') : argsOk c = true := by
  unfold builtinCheck at h
  cases hd : builtinCheckD oracle file c s with
  | err e => rw [hd] at h; cases h
  | need q => rw [hd] at h; cases h
  | ok d =>
    clear h
    unfold argsOk
    cases hf : Fn.ofName c.name with
    | none => rfl
    | some fn =>
      cases fn
      case len =>
        simp only [builtinCheckD, hf] at hd
        split at hd
        · cases hd
        · simp only [decide_eq_true_eq]; omega
      case loadJson =>
        simp only [builtinCheckD, hf] at hd
        split at hd
        · cases hd
        · simp only [decide_eq_true_eq]; omega
      case uppercase =>
        simp only [builtinCheckD, hf] at hd
        split at hd
        · cases hd
        · simp only [decide_eq_true_eq]; omega
      case urlDecode =>
        simp only [builtinCheckD, hf] at hd
        split at hd
        · cases hd
        · simp only [decide_eq_true_eq]; omega
      case trim =>
        simp only [builtinCheckD, hf] at hd
        split at hd
        · cases hd
        · simp only [decide_eq_true_eq]; omega
      case grok =>
        simp only [builtinCheckD, hf] at hd
        split at hd
        · cases hd
        · simp only [decide_eq_true_eq]; omega
      all_goals rfl
end Platypus.PanicProofs

#print axioms Platypus.PanicProofs.accepted_argsOk
