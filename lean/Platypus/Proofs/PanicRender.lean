import Platypus.Proofs.PanicBase
/-!
C01 proof: reading a rendered value back only allocates.
-/
namespace Platypus.PanicProofs
open Platypus Platypus.C01

def Ext (h h' : Heap) : Prop := ∃ l, h' = h ++ l

theorem Ext.refl (h : Heap) : Ext h h := ⟨[], by simp⟩
theorem Ext.trans {a b c : Heap} (x : Ext a b) (y : Ext b c) : Ext a c := by
  obtain ⟨l, rfl⟩ := x
  obtain ⟨m, rfl⟩ := y
  exact ⟨l ++ m, by simp⟩
theorem Ext.alloc (h : Heap) (o : Obj) : Ext h (h.alloc o).1 := ⟨[o], rfl⟩
theorem Ext.heapLe {h h' : Heap} (x : Ext h h') : HeapLe h h' := by
  obtain ⟨l, rfl⟩ := x
  exact heapLe_append h l

theorem unrender_ext_all : ∀ n,
    (∀ h bs v h' rest, unrender n h bs = some (v, h', rest) → Ext h h') ∧
    (∀ h bs acc v h' rest, unrenderList n h bs acc = some (v, h', rest) → Ext h h') ∧
    (∀ h bs acc v h' rest, unrenderMap n h bs acc = some (v, h', rest) → Ext h h') := by
  intro n
  induction n with
  | zero =>
    refine ⟨?_, ?_, ?_⟩ <;> intros <;> simp_all [unrender, unrenderList, unrenderMap]
  | succ n ih =>
    obtain ⟨ih1, ih2, ih3⟩ := ih
    refine ⟨?_, ?_, ?_⟩
    · intro h bs v h' rest hu
      unfold unrender at hu
      split at hu
      all_goals try (simp only [Nat.succ_eq_add_one, Nat.add_right_cancel_iff] at *)
      all_goals try subst_vars
      all_goals first
        | (cases hu; done)
        | (simp only [Option.some.injEq, Prod.mk.injEq] at hu; obtain ⟨_, rfl, _⟩ := hu; exact Ext.refl _)
        | (split at hu; simp only [Option.some.injEq, Prod.mk.injEq] at hu; obtain ⟨_, rfl, _⟩ := hu
           exact Ext.refl _)
        | skip
      · split at hu
        · rename_i xs h1 r1 hl
          simp only [Heap.alloc, Option.some.injEq, Prod.mk.injEq] at hu
          obtain ⟨_, rfl, _⟩ := hu
          exact (ih2 _ _ _ _ _ _ hl).trans (Ext.alloc _ _)
        · cases hu
      · split at hu
        · rename_i xs h1 r1 hl
          simp only [Heap.alloc, Option.some.injEq, Prod.mk.injEq] at hu
          obtain ⟨_, rfl, _⟩ := hu
          exact (ih3 _ _ _ _ _ _ hl).trans (Ext.alloc _ _)
        · cases hu
    · intro h bs acc v h' rest hu
      unfold unrenderList at hu
      split at hu
      all_goals try (simp only [Nat.succ_eq_add_one, Nat.add_right_cancel_iff] at *)
      all_goals try subst_vars
      · cases hu
      · simp only [Option.some.injEq, Prod.mk.injEq] at hu; obtain ⟨_, rfl, _⟩ := hu; exact Ext.refl _
      · exact ih2 _ _ _ _ _ _ hu
      · split at hu
        · rename_i x h1 r1 hl
          exact (ih1 _ _ _ _ _ hl).trans (ih2 _ _ _ _ _ _ hu)
        · cases hu
    · intro h bs acc v h' rest hu
      unfold unrenderMap at hu
      split at hu
      all_goals try (simp only [Nat.succ_eq_add_one, Nat.add_right_cancel_iff] at *)
      all_goals try subst_vars
      · cases hu
      · simp only [Option.some.injEq, Prod.mk.injEq] at hu; obtain ⟨_, rfl, _⟩ := hu; exact Ext.refl _
      · exact ih3 _ _ _ _ _ _ hu
      · split at hu
        · split at hu
          · rename_i x h1 r1 hl
            exact (ih1 _ _ _ _ _ hl).trans (ih3 _ _ _ _ _ _ hu)
          · cases hu
        · cases hu

theorem unrender_heapLe {n : Nat} {h h' : Heap} {bs rest : Bytes} {v : Val}
    (hu : unrender n h bs = some (v, h', rest)) : HeapLe h h' :=
  ((unrender_ext_all n).1 _ _ _ _ _ hu).heapLe

end Platypus.PanicProofs
