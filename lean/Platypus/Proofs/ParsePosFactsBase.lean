import Platypus.Spec.PosFacts
/-!
# C17 (tree part) helper, part 3: the invariant of the position-carrying parser, and its building blocks

`AllOk ts0 t`: every node of `t` is `NodeOk` with respect to the item list `ts0` — its own stored
positions are offsets of items of `ts0` of the expected kinds (`In`), its attribute start is its
object's start, its shape fields are consistent, and (when the offsets of `ts0` increase) its
brackets are in order.  One constructor lemma per node kind, and the facts about `tk`, `hp`, `expect`,
`skipE`, suffixes that the step lemmas of `ParsePosFacts.lean` use.
-/
namespace Platypus.ParsePos
open Platypus.Lex (Tok Item)
open Platypus.Parse

/-- `p` is the offset of an item of `ts` of kind `k` -/
def In (ts : List Item) (p : Nat) (k : Tok) : Prop := ∃ i ∈ ts, i.pos = p ∧ i.typ = k

def NodeOk (ts0 : List Item) (n : PP) : Prop :=
  (∀ pk ∈ n.ownFacts, In ts0 pk.1 pk.2) ∧ n.attrOk ∧ n.shapeOk ∧ (Sorted ts0 → n.bracketOk)

def AllOk (ts0 : List Item) (t : PP) : Prop := ∀ n ∈ t.nodes, NodeOk ts0 n
def AllOkL (ts0 : List Item) (xs : List PP) : Prop := ∀ x ∈ xs, AllOk ts0 x
def AllOkO (ts0 : List Item) (x : Option PP) : Prop := ∀ y, x = some y → AllOk ts0 y
def AllOkKV (ts0 : List Item) (xs : List (PP × PP)) : Prop := ∀ kv ∈ xs, AllOk ts0 kv.1 ∧ AllOk ts0 kv.2

theorem allOk_iff {ts0 : List Item} {t : PP} :
    AllOk ts0 t ↔ NodeOk ts0 t ∧ ∀ c ∈ t.children, AllOk ts0 c := by
  unfold AllOk
  rw [PP.nodes_eq]
  simp only [List.mem_cons, List.mem_flatMap]
  constructor
  · intro h
    exact ⟨h t (Or.inl rfl), fun c hc n hn => h n (Or.inr ⟨c, hc, hn⟩)⟩
  · rintro ⟨h1, h2⟩ n (rfl | ⟨c, hc, hn⟩)
    · exact h1
    · exact h2 c hc n hn

theorem AllOkL.nil {ts0} : AllOkL ts0 [] := by intro x hx; cases hx
theorem AllOkL.append {ts0 a b} (ha : AllOkL ts0 a) (hb : AllOkL ts0 b) : AllOkL ts0 (a ++ b) := by
  intro x hx; rcases List.mem_append.1 hx with h | h
  · exact ha x h
  · exact hb x h
theorem AllOkL.single {ts0 x} (h : AllOk ts0 x) : AllOkL ts0 [x] := by
  intro y hy; simp at hy; subst hy; exact h
theorem AllOkL.snoc {ts0 a x} (ha : AllOkL ts0 a) (h : AllOk ts0 x) : AllOkL ts0 (a ++ [x]) :=
  ha.append (AllOkL.single h)
theorem AllOkO.none {ts0} : AllOkO ts0 none := by intro y hy; cases hy
theorem AllOkO.some {ts0 x} (h : AllOk ts0 x) : AllOkO ts0 (some x) := by
  intro y hy; cases hy; exact h
theorem AllOkO.toList {ts0 x} (h : AllOkO ts0 x) : AllOkL ts0 x.toList := by
  intro y hy; cases x with
  | none => simp at hy
  | some z => simp at hy; subst hy; exact h _ rfl
theorem AllOkKV.nil {ts0} : AllOkKV ts0 [] := by intro x hx; cases hx
theorem AllOkKV.snoc {ts0 a k v} (ha : AllOkKV ts0 a) (hk : AllOk ts0 k) (hv : AllOk ts0 v) :
    AllOkKV ts0 (a ++ [(k, v)]) := by
  intro x hx; rcases List.mem_append.1 hx with h | h
  · exact ha x h
  · simp at h; subst h; exact ⟨hk, hv⟩

/-! ### items, suffixes -/

theorem In.mono {r ts : List Item} {p k} (h : In r p k) (hs : r <:+ ts) : In ts p k := by
  obtain ⟨i, hi, h1, h2⟩ := h
  exact ⟨i, hs.subset hi, h1, h2⟩

theorem skipE_suffix (ts : List Item) : skipE ts <:+ ts := by
  induction ts with
  | nil => simp [skipE]
  | cons i r ih =>
    simp only [skipE]
    split
    · exact ih.trans (List.suffix_cons _ _)
    · exact List.suffix_refl _

theorem skipSep_suffix (ts : List Item) : skipSep ts <:+ ts := by
  induction ts with
  | nil => simp [skipSep]
  | cons i r ih =>
    simp only [skipSep]
    split
    · exact ih.trans (List.suffix_cons _ _)
    · exact List.suffix_refl _

theorem in_of_tk {ts : List Item} {k : Tok} (h : tk ts = k) (hk : k ≠ .EOF) : In ts (hp ts) k := by
  cases ts with
  | nil => exact absurd h.symm hk
  | cons i r => exact ⟨i, List.mem_cons_self, rfl, h⟩

theorem expect_eq {k : Tok} {ts r : List Item} (h : expect k ts = some r) :
    ∃ i, ts = i :: r ∧ i.typ = k := by
  cases ts with
  | nil => simp [expect] at h
  | cons i r' =>
    simp only [expect] at h
    split at h
    · cases h; exact ⟨i, rfl, by assumption⟩
    · cases h

theorem expect_suffix {k : Tok} {ts r : List Item} (h : expect k ts = some r) : r <:+ ts.drop 1 := by
  obtain ⟨i, rfl, _⟩ := expect_eq h
  exact List.suffix_refl _

theorem in_of_expect {k : Tok} {ts r : List Item} (h : expect k ts = some r) : In ts (hp ts) k := by
  obtain ⟨i, rfl, hk⟩ := expect_eq h
  exact ⟨i, List.mem_cons_self, rfl, hk⟩

theorem Sorted.suffix {ts ts0 : List Item} (h : Sorted ts0) (hs : ts <:+ ts0) : Sorted ts :=
  List.Pairwise.sublist hs.sublist h

/-- under increasing offsets, everything after the head of `ts` is at a larger offset -/
theorem hp_lt {ts0 ts r : List Item} {q k} (h0 : Sorted ts0) (hs : ts <:+ ts0) (hr : r <:+ ts.drop 1)
    (hq : In r q k) : hp ts < q := by
  cases ts with
  | nil =>
    obtain ⟨j, hj, _⟩ := hq
    have := hr.subset hj
    simp at this
  | cons i rest =>
    obtain ⟨j, hj, rfl, _⟩ := hq
    have hsort := h0.suffix hs
    have hj' : j ∈ rest := by simpa using hr.subset hj
    exact (List.pairwise_cons.1 hsort).1 j hj'

/-- goals `a <:+ b` from the suffix hypotheses in the context and `skipE`, `skipSep`, `drop` -/
macro "suff_step" : tactic => `(tactic| first
  | exact List.suffix_refl _
  | assumption
  | exact List.suffix_cons _ _
  | apply List.IsSuffix.trans (skipE_suffix _)
  | apply List.IsSuffix.trans (skipSep_suffix _)
  | apply List.IsSuffix.trans (List.drop_suffix _ _)
  | refine List.IsSuffix.trans (by assumption) ?_
  | (apply List.IsSuffix.trans (List.suffix_cons _ _); assumption))
macro "suff" : tactic => `(tactic| repeat suff_step)

/-! ### token tables -/

theorem unTok_of_unOf {t : Tok} {op : UnOp} (h : unOf t = some op) : unTok op = t := by
  cases t <;> simp [unOf] at h <;> subst h <;> rfl
theorem opTok_of_binOf {t : Tok} {p : Nat} {op : BOp} (h : binOf t = some (p, op)) : opTok op = t := by
  cases t <;> simp [binOf] at h <;> (obtain ⟨_, rfl⟩ := h; rfl)
theorem asgTok_of_asgOf {t : Tok} {op : AsgOp} (h : asgOf t = some op) : asgTok op = t := by
  cases t <;> simp [asgOf] at h <;> subst h <;> rfl
theorem asgOf_ne_eof {t : Tok} {op : AsgOp} (h : asgOf t = some op) : t ≠ .EOF := by
  intro h'; subst h'; simp [asgOf] at h

/-! ### one constructor lemma per node kind -/

theorem ok_ident {ts0 q v p} (h : In ts0 p (identTok q)) : AllOk ts0 (.ident q v p) :=
  allOk_iff.2 ⟨⟨by simpa [PP.ownFacts] using h, trivial, trivial, fun _ => trivial⟩, by simp [PP.children]⟩

theorem ok_num {ts0 n v p k} (h : In ts0 p k) (hk : k = .NUMBER ∨ k = .ADD ∨ k = .SUB) :
    AllOk ts0 (.num n v p k) :=
  allOk_iff.2 ⟨⟨by simpa [PP.ownFacts] using h, trivial, hk, fun _ => trivial⟩, by simp [PP.children]⟩

theorem ok_str {ts0 m v p} (h : In ts0 p (if m then .MULTILINE_STRING else .STRING)) :
    AllOk ts0 (.str m v p) :=
  allOk_iff.2 ⟨⟨by simpa [PP.ownFacts] using h, trivial, trivial, fun _ => trivial⟩, by simp [PP.children]⟩

theorem ok_bool {ts0 b p} (h : In ts0 p (if b then .TRUE else .FALSE)) : AllOk ts0 (.bool b p) :=
  allOk_iff.2 ⟨⟨by simpa [PP.ownFacts] using h, trivial, trivial, fun _ => trivial⟩, by simp [PP.children]⟩

theorem ok_nil {ts0 p k} (h : In ts0 p k) (hk : k = .NIL ∨ k = .NULL) : AllOk ts0 (.nil p k) :=
  allOk_iff.2 ⟨⟨by simpa [PP.ownFacts] using h, trivial, hk, fun _ => trivial⟩, by simp [PP.children]⟩

theorem ok_list {ts0 xs lb rb} (hx : AllOkL ts0 xs) (h1 : In ts0 lb .LEFT_BRACKET)
    (h2 : In ts0 rb .RIGHT_BRACKET) (h3 : Sorted ts0 → lb < rb) : AllOk ts0 (.list xs lb rb) :=
  allOk_iff.2 ⟨⟨by simpa [PP.ownFacts] using ⟨h1, h2⟩, trivial, trivial, h3⟩, by simp only [PP.children]; exact hx⟩

theorem ok_map {ts0 kvs lb rb} (hx : AllOkKV ts0 kvs) (h1 : In ts0 lb .LEFT_BRACE)
    (h2 : In ts0 rb .RIGHT_BRACE) (h3 : Sorted ts0 → lb < rb) : AllOk ts0 (.map kvs lb rb) :=
  allOk_iff.2 ⟨⟨by simpa [PP.ownFacts] using ⟨h1, h2⟩, trivial, trivial, h3⟩, by
    intro c hc
    simp only [PP.children, List.mem_flatMap, List.mem_cons, List.not_mem_nil, or_false] at hc
    obtain ⟨kv, hkv, rfl | rfl⟩ := hc
    · exact (hx kv hkv).1
    · exact (hx kv hkv).2⟩

theorem ok_paren {ts0 e lp rp} (hx : AllOk ts0 e) (h1 : In ts0 lp .LEFT_PAREN)
    (h2 : In ts0 rp .RIGHT_PAREN) (h3 : Sorted ts0 → lp < rp) : AllOk ts0 (.paren e lp rp) :=
  allOk_iff.2 ⟨⟨by simpa [PP.ownFacts] using ⟨h1, h2⟩, trivial, trivial, h3⟩, AllOkL.single hx⟩

theorem ok_attr {ts0 o a} (ho : AllOk ts0 o) (ha : AllOk ts0 a) : AllOk ts0 (.attr o a o.start) :=
  allOk_iff.2 ⟨⟨by simp [PP.ownFacts], rfl, trivial, fun _ => trivial⟩, by simpa [PP.children] using ⟨ho, ha⟩⟩

/-- what the index chain accumulates -/
def IdxOk (ts0 : List Item) (idx : List PP) (lbs rbs : List Nat) : Prop :=
  (∀ p ∈ lbs, In ts0 p .LEFT_BRACKET) ∧ (∀ p ∈ rbs, In ts0 p .RIGHT_BRACKET) ∧
  lbs.length = idx.length ∧ rbs.length = idx.length ∧ (Sorted ts0 → ∀ pr ∈ lbs.zip rbs, pr.1 < pr.2)

theorem IdxOk.nil {ts0} : IdxOk ts0 [] [] [] := by simp [IdxOk]

theorem IdxOk.snoc {ts0 idx lbs rbs e lb rb} (h : IdxOk ts0 idx lbs rbs) (h1 : In ts0 lb .LEFT_BRACKET)
    (h2 : In ts0 rb .RIGHT_BRACKET) (h3 : Sorted ts0 → lb < rb) :
    IdxOk ts0 (idx ++ [e]) (lbs ++ [lb]) (rbs ++ [rb]) := by
  obtain ⟨a, b, c, d, e'⟩ := h
  refine ⟨?_, ?_, by simp [c], by simp [d], ?_⟩
  · intro p hp; rcases List.mem_append.1 hp with h | h
    · exact a p h
    · simp at h; subst h; exact h1
  · intro p hp; rcases List.mem_append.1 hp with h | h
    · exact b p h
    · simp at h; subst h; exact h2
  · intro hs pr hpr
    rw [List.zip_append (by omega)] at hpr
    rcases List.mem_append.1 hpr with h | h
    · exact e' hs pr h
    · simp at h; subst h; exact h3 hs

theorem ok_index {ts0 obj idx lbs rbs} (hx : AllOkL ts0 idx) (hi : IdxOk ts0 idx lbs rbs)
    (ho : ∀ o, obj = some o → In ts0 o.2.2 (identTok o.1)) : AllOk ts0 (.index obj idx lbs rbs) := by
  obtain ⟨a, b, c, d, e⟩ := hi
  refine allOk_iff.2 ⟨⟨?_, trivial, ⟨c, d⟩, e⟩, by simp only [PP.children]; exact hx⟩
  intro pk hpk
  simp only [PP.ownFacts, List.mem_append, List.mem_map] at hpk
  rcases hpk with (h | ⟨p, hp, rfl⟩) | ⟨p, hp, rfl⟩
  · cases obj with
    | none => simp at h
    | some o => simp at h; subst h; exact ho o rfl
  · exact a p hp
  · exact b p hp

theorem ok_unary {ts0 op e p} (hx : AllOk ts0 e) (h : In ts0 p (unTok op)) : AllOk ts0 (.unary op e p) :=
  allOk_iff.2 ⟨⟨by simpa [PP.ownFacts] using h, trivial, trivial, fun _ => trivial⟩, AllOkL.single hx⟩

theorem ok_bin {ts0 op l r p} (hl : AllOk ts0 l) (hr : AllOk ts0 r) (h : In ts0 p (opTok op)) :
    AllOk ts0 (.bin op l r p) :=
  allOk_iff.2 ⟨⟨by simpa [PP.ownFacts] using h, trivial, trivial, fun _ => trivial⟩,
    by simpa [PP.children] using ⟨hl, hr⟩⟩

theorem ok_assign {ts0 op l r p} (hl : AllOkL ts0 l) (hr : AllOkL ts0 r) (h : In ts0 p (asgTok op)) :
    AllOk ts0 (.assign op l r p) :=
  allOk_iff.2 ⟨⟨by simpa [PP.ownFacts] using h, trivial, trivial, fun _ => trivial⟩, hl.append hr⟩

theorem ok_call {ts0 q v args np lp rp} (hx : AllOkL ts0 args) (h0 : In ts0 np (identTok q))
    (h1 : In ts0 lp .LEFT_PAREN) (h2 : In ts0 rp .RIGHT_PAREN) (h3 : Sorted ts0 → np < lp ∧ lp < rp) :
    AllOk ts0 (.call q v args np lp rp) :=
  allOk_iff.2 ⟨⟨by simpa [PP.ownFacts] using ⟨h0, h1, h2⟩, trivial, trivial, h3⟩,
    by simp only [PP.children]; exact hx⟩

theorem ok_slice {ts0 o a b c c2 lb rb} (ho : AllOk ts0 o) (ha : AllOkO ts0 a) (hb : AllOkO ts0 b)
    (hc : AllOkO ts0 c) (h1 : In ts0 lb .LEFT_BRACKET) (h2 : In ts0 rb .RIGHT_BRACKET)
    (h3 : Sorted ts0 → lb < rb) : AllOk ts0 (.slice o a b c c2 lb rb) :=
  allOk_iff.2 ⟨⟨by simpa [PP.ownFacts] using ⟨h1, h2⟩, trivial, trivial, h3⟩,
    (AllOkL.single ho).append ((ha.toList.append hb.toList).append hc.toList)⟩

/-- what `parsePosElifs` accumulates -/
def IfsOk (ts0 : List Item) (ifs : List (Nat × PP × List PP)) : Prop :=
  (∀ pk ∈ ifsFacts ifs, In ts0 pk.1 pk.2) ∧ ∀ e ∈ ifs, AllOk ts0 e.2.1 ∧ AllOkL ts0 e.2.2

theorem IfsOk.single {ts0 p c b} (hp : In ts0 p .IF) (hc : AllOk ts0 c) (hb : AllOkL ts0 b) :
    IfsOk ts0 [(p, c, b)] := by
  constructor
  · simpa [ifsFacts] using hp
  · intro e he; simp at he; subst he; exact ⟨hc, hb⟩

theorem IfsOk.snoc {ts0 ifs p c b} (h : IfsOk ts0 ifs) (hne : ifs ≠ []) (hp : In ts0 p .ELIF)
    (hc : AllOk ts0 c) (hb : AllOkL ts0 b) : IfsOk ts0 (ifs ++ [(p, c, b)]) := by
  constructor
  · cases ifs with
    | nil => exact absurd rfl hne
    | cons e r =>
      intro pk hpk
      simp only [List.cons_append, ifsFacts, List.map_append, List.mem_cons, List.mem_append, List.mem_map,
        List.map_cons, List.map_nil, List.not_mem_nil, or_false] at hpk
      rcases hpk with rfl | ⟨x, hx, rfl⟩ | rfl
      · exact h.1 _ (by simp [ifsFacts])
      · exact h.1 _ (by simp only [ifsFacts, List.mem_cons, List.mem_map]; exact Or.inr ⟨x, hx, rfl⟩)
      · exact hp
  · intro e he; rcases List.mem_append.1 he with h' | h'
    · exact h.2 e h'
    · simp at h'; subst h'; exact ⟨hc, hb⟩

theorem ok_ifelse {ts0 ifs els} (hi : IfsOk ts0 ifs)
    (he : ∀ e, els = some e → In ts0 e.1 .ELSE ∧ AllOkL ts0 e.2) : AllOk ts0 (.ifelse ifs els) := by
  refine allOk_iff.2 ⟨⟨?_, trivial, trivial, fun _ => trivial⟩, ?_⟩
  · intro pk hpk
    simp only [PP.ownFacts, List.mem_append] at hpk
    rcases hpk with h | h
    · exact hi.1 pk h
    · cases els with
      | none => simp at h
      | some e => simp at h; subst h; exact (he e rfl).1
  · intro c hc
    simp only [PP.children, List.mem_append, List.mem_flatMap, List.mem_cons] at hc
    rcases hc with ⟨e, hE, rfl | h⟩ | h
    · exact (hi.2 e hE).1
    · exact (hi.2 e hE).2 c h
    · cases els with
      | none => simp at h
      | some e => exact (he e rfl).2 c h

theorem ok_forS {ts0 i c l b p} (hi : AllOkO ts0 i) (hc : AllOkO ts0 c) (hl : AllOkO ts0 l)
    (hb : AllOkL ts0 b) (h : In ts0 p .FOR) : AllOk ts0 (.forS i c l b p) :=
  allOk_iff.2 ⟨⟨by simpa [PP.ownFacts] using h, trivial, trivial, fun _ => trivial⟩,
    ((hi.toList.append hc.toList).append hl.toList).append hb⟩

theorem ok_forIn {ts0 v it b fp ip} (hv : AllOk ts0 v) (hit : AllOk ts0 it) (hb : AllOkL ts0 b)
    (h1 : In ts0 fp .FOR) (h2 : In ts0 ip .IN) : AllOk ts0 (.forIn v it b fp ip) :=
  allOk_iff.2 ⟨⟨by simpa [PP.ownFacts] using ⟨h1, h2⟩, trivial, trivial, fun _ => trivial⟩, by
    intro c hc
    simp only [PP.children, List.mem_cons] at hc
    rcases hc with rfl | rfl | h
    · exact hv
    · exact hit
    · exact hb c h⟩

theorem ok_brk {ts0 p} (h : In ts0 p .BREAK) : AllOk ts0 (.brk p) :=
  allOk_iff.2 ⟨⟨by simpa [PP.ownFacts] using h, trivial, trivial, fun _ => trivial⟩, by simp [PP.children]⟩

theorem ok_cont {ts0 p} (h : In ts0 p .CONTINUE) : AllOk ts0 (.cont p) :=
  allOk_iff.2 ⟨⟨by simpa [PP.ownFacts] using h, trivial, trivial, fun _ => trivial⟩, by simp [PP.children]⟩

/-! ### the constructor functions -/

theorem ok_mkUnaryP {ts0 op} {i : Item} {e} (hop : unOf i.typ = some op) (hi : In ts0 i.pos i.typ)
    (he : AllOk ts0 e) : AllOk ts0 (mkUnaryP op i e) := by
  have hk := unTok_of_unOf hop
  cases op <;> cases e <;> simp only [mkUnaryP] <;>
    first
      | exact ok_unary he (hk ▸ hi)
      | exact ok_num hi (by rw [← hk]; simp [unTok])

theorem ok_mkBinP {ts0 op p l r e} (h : mkBinP op p l r = some e) (hl : AllOk ts0 l) (hr : AllOk ts0 r)
    (hp : In ts0 p (opTok op)) : AllOk ts0 e := by
  have : e = .bin op l r p := by
    unfold mkBinP at h
    split at h <;> (try split at h) <;> simp_all
  subst this
  exact ok_bin hl hr hp

theorem ok_mkSliceP {ts0 o a b c c2 lb rb s} (h : mkSliceP o a b c c2 lb rb = some s) (ho : AllOk ts0 o)
    (ha : AllOkO ts0 a) (hb : AllOkO ts0 b) (hc : AllOkO ts0 c) (h1 : In ts0 lb .LEFT_BRACKET)
    (h2 : In ts0 rb .RIGHT_BRACKET) (h3 : Sorted ts0 → lb < rb) : AllOk ts0 s := by
  unfold mkSliceP at h
  split at h
  · cases h
  · cases h; exact ok_slice ho ha hb hc h1 h2 h3

theorem ok_mkForInP {ts0 fp e body st} (h : mkForInP fp e body = some st) (he : AllOk ts0 e)
    (hb : AllOkL ts0 body) (hf : In ts0 fp .FOR) : AllOk ts0 st := by
  unfold mkForInP at h
  split at h
  · rename_i q v p it ip
    have hn := (allOk_iff.1 he)
    have hip : In ts0 ip .IN := by simpa [PP.ownFacts, opTok] using hn.1.1
    have hv : AllOk ts0 (.ident q v p) := hn.2 _ (by simp [PP.children])
    have hit : AllOk ts0 it := hn.2 _ (by simp [PP.children])
    split at h <;> first | (cases h; exact ok_forIn hv hit hb hf hip) | cases h
  · cases h

end Platypus.ParsePos
