import Platypus.Proofs.ErrPosBase
/-!
Where run-time errors point, part 2: the statement machine, for any expression evaluator whose
errors are located inside the node it evaluates.
-/
namespace Platypus.ErrPos
open Platypus

def InIfs (ifs : List (Node × Option (List Node) × Pos)) (els : Option (List Node)) : Pos → Prop :=
  fun p => p ∈ posOfIfs ifs ∨ InOB els p
def InLoop (c l : Option Node) (body : Option (List Node)) : Pos → Prop :=
  fun p => InO c p ∨ InO l p ∨ InOB body p
def InFor (iterPos : Pos) (body : Option (List Node)) : Pos → Prop :=
  fun p => p = iterPos ∨ InOB body p

/-- contract of an expression evaluator -/
def EvE (env : Env) (ev : Node → EM TV) : Prop := ∀ n, EOK env (ev n) (In n)

structure MIHE (env : Env) (ev : Node → EM TV) (g : Nat) : Prop where
  stmt : ∀ n, EOK env (runStmt env ev g n) (In n)
  stmts : ∀ l, EOK env (runStmts env ev g l) (InL l)
  ifs : ∀ ifs els, EOK env (runIfs env ev g ifs els) (InIfs ifs els)
  loop : ∀ c l body, EOK env (forLoop env ev g c l body) (InLoop c l body)
  forIn : ∀ var it pos body, EOK env (forIn env ev g var it pos body) (InFor pos body)
  forStr : ∀ var rs body, EOK env (forInStr env ev g var rs body) (InOB body)
  forItems : ∀ var pos items live body, EOK env (forInItems env ev g var pos items live body) (InFor pos body)

theorem mihe_zero (env : Env) (ev : Node → EM TV) : MIHE env ev 0 := by
  refine ⟨?_, ?_, ?_, ?_, ?_, ?_, ?_⟩ <;> intros
  · rw [runStmt]; exact EOK.fuel
  · rw [runStmts]; exact EOK.fuel
  · rw [runIfs]; exact EOK.fuel
  · rw [forLoop]; exact EOK.fuel
  · rw [Platypus.forIn]; exact EOK.fuel
  · rw [forInStr]; exact EOK.fuel
  · rw [forInItems]; exact EOK.fuel

section
variable {env : Env} {ev : Node → EM TV} {g : Nat}

theorem runStmts_stepE (ih : MIHE env ev g) (l : List Node) : EOK env (runStmts env ev (g+1) l) (InL l) := by
  cases l with
  | nil => simp only [runStmts]; exact EOK.pure
  | cons n rest =>
    intro s
    simp only [runStmts]
    unfold TrE
    dsimp only
    have h1 := EOK.stmtReturn (env := env) (P := InL (n :: rest)) s
    unfold TrE at h1
    cases hr : stmtReturn env s with
    | ok b s1 =>
      rw [hr] at h1
      cases b with
      | true => exact h1
      | false =>
        dsimp only
        have h2 := ih.stmt n s1
        unfold TrE at h2
        cases hr2 : runStmt env ev g n s1 with
        | ok v s2 =>
          rw [hr2] at h2
          have h3 := (ih.stmts rest).mono (Q := InL (n :: rest)) (fun p hp => inL_cons_tail hp) s2
          unfold TrE at h3
          have hn : s2.task.name = s.task.name := h2.trans h1
          rw [hn] at h3
          exact h3
        | err e s2 =>
          rw [hr2] at h2
          have hn : s1.task.name = s.task.name := h1
          rw [hn] at h2
          exact ⟨h2.1, h2.2.mono fun p hp => inL_cons_head hp⟩
        | panic m => trivial
        | fuel => trivial
        | need q => trivial
    | err e s1 => rw [hr] at h1; exact h1
    | panic m => trivial
    | fuel => trivial
    | need q => trivial


/-- `{ … }`: push, statements, pop, continuation -/
theorem eok_block (ih : MIHE env ev g) {b : List Node} {P : Pos → Prop} (hb : ∀ p, InL b p → P p)
    {K : EM TV} (hK : EOK env K P) :
    EOK env (do pushScope; runStmts env ev g b; popScope; K) P := by
  refine EOK.bind EOK.pushScope fun _ => ?_
  refine EOK.bind ((ih.stmts b).mono hb) fun _ => ?_
  exact EOK.bind EOK.popScope fun _ => hK

theorem runIfs_stepE (ih : MIHE env ev g) (ifs : List (Node × Option (List Node) × Pos))
    (els : Option (List Node)) : EOK env (runIfs env ev (g+1) ifs els) (InIfs ifs els) := by
  cases ifs with
  | nil =>
    rw [runIfs.eq_def]
    dsimp only
    split
    · exact eok_block ih (fun p hp => Or.inr hp) EOK.pure
    · exact EOK.pure
  | cons x rest =>
    obtain ⟨c, blk, q⟩ := x
    rw [runIfs.eq_def]
    dsimp only
    refine EOK.bind ((ih.stmt c).mono ?_) fun v => ?_
    · intro p hp; exact Or.inl (by simp only [posOfIfs, List.mem_cons, List.mem_append]; exact Or.inr (Or.inl hp))
    refine EOK.bind EOK.getS fun s1 => ?_
    split
    · split
      · refine eok_block ih ?_ EOK.pure
        intro p hp
        exact Or.inl (by simp only [posOfIfs, List.mem_cons, List.mem_append]; exact Or.inr (Or.inr (Or.inl hp)))
      · exact EOK.pure
    · refine (ih.ifs rest els).mono ?_
      intro p hp
      rcases hp with hp | hp
      · exact Or.inl (by simp only [posOfIfs, List.mem_cons, List.mem_append]; exact Or.inr (Or.inr (Or.inr hp)))
      · exact Or.inr hp

/-- the end of every loop iteration -/
def tailM (env : Env) (K : EM TV) : EM TV := do
  let s ← getS
  if s.task.brk = true then do
    modTask fun t => { t with brk := false }
    pure voidTV
  else if s.task.cont = true then do
    modTask fun t => { t with cont := false }
    let r ← stmtReturn env
    if r = true then pure voidTV else K
  else do
    let r ← stmtReturn env
    if r = true then pure voidTV else K

theorem eok_tail {K : EM TV} {P : Pos → Prop} (hK : EOK env K P) : EOK env (tailM env K) P := by
  unfold tailM
  refine EOK.bind EOK.getS fun s => ?_
  split
  · exact EOK.bind (EOK.modTask fun _ => rfl) fun _ => EOK.pure
  · split
    · refine EOK.bind (EOK.modTask fun _ => rfl) fun _ => ?_
      refine EOK.bind EOK.stmtReturn fun r => ?_
      split
      · exact EOK.pure
      · exact hK
    · refine EOK.bind EOK.stmtReturn fun r => ?_
      split
      · exact EOK.pure
      · exact hK

theorem forLoop_stepE (ih : MIHE env ev g) (c l : Option Node) (body : Option (List Node)) :
    EOK env (forLoop env ev (g+1) c l body) (InLoop c l body) := by
  rw [forLoop.eq_def]
  simp only []
  refine EOK.bind EOK.procExit fun r => ?_
  split
  · exact EOK.pure
  refine EOK.bind ?_ fun go => ?_
  · split
    · rename_i cn
      refine EOK.bind ((ih.stmt cn).mono fun p hp => Or.inl hp) fun v => ?_
      exact EOK.bind EOK.getS fun _ => EOK.pure
    · exact EOK.pure
  split
  · exact EOK.pure
  have hK : EOK env (match l with
      | some ln => do let _ ← runStmt env ev g ln; forLoop env ev g c l body
      | none => forLoop env ev g c l body) (InLoop c l body) := by
    split
    · rename_i ln
      refine EOK.bind ((ih.stmt ln).mono fun p hp => Or.inr (Or.inl hp)) fun v => ?_
      exact ih.loop c _ body
    · exact ih.loop c _ body
  split
  · exact eok_block ih (fun p hp => Or.inr (Or.inr hp)) (eok_tail hK)
  · exact eok_tail hK

theorem forInItems_stepE (ih : MIHE env ev g) (var : Node) (pos : Pos) (items : List TV)
    (live : Option (Nat × Nat × Nat)) (body : Option (List Node)) :
    EOK env (forInItems env ev (g+1) var pos items live body) (InFor pos body) := by
  rw [forInItems.eq_def]
  simp only []
  refine EOK.bind ?_ fun nx => ?_
  · split
    · split
      · exact EOK.bind EOK.getS fun _ => EOK.pure
      · exact EOK.pure
    · split <;> exact EOK.pure
  split
  · exact EOK.pure
  · rename_i x items' live'
    refine EOK.bind EOK.clearScope fun _ => ?_
    split
    · exact EOK.runErr (Or.inl rfl)
    · have hK := ih.forItems var pos items' live' body
      split
      · refine EOK.bind EOK.setVarb fun _ => ?_
        split
        · refine EOK.bind ((ih.stmts _).mono fun p hp => Or.inr hp) fun _ => ?_
          exact eok_tail hK
        · exact eok_tail hK
      · exact EOK.bind EOK.panic fun _ => by
          split
          · refine EOK.bind ((ih.stmts _).mono fun p hp => Or.inr hp) fun _ => ?_
            exact eok_tail hK
          · exact eok_tail hK

theorem forInStr_stepE (ih : MIHE env ev g) (var : Node) (rs : List Bytes) (body : Option (List Node)) :
    EOK env (forInStr env ev (g+1) var rs body) (InOB body) := by
  cases rs with
  | nil => simp only [forInStr]; exact EOK.pure
  | cons r rest =>
    rw [forInStr.eq_def]
    simp only []
    have hK := ih.forStr var rest body
    split
    · refine EOK.bind EOK.setVarb fun _ => ?_
      split
      · refine EOK.bind ((ih.stmts _).mono fun p hp => hp) fun _ => ?_
        exact EOK.bind EOK.clearScope fun _ => eok_tail hK
      · exact EOK.bind EOK.clearScope fun _ => eok_tail hK
    · exact EOK.pure

theorem forIn_stepE (ih : MIHE env ev g) (var : Node) (it : TV) (pos : Pos) (body : Option (List Node)) :
    EOK env (Platypus.forIn env ev (g+1) var it pos body) (InFor pos body) := by
  rw [Platypus.forIn.eq_def]
  simp only []
  split
  · split
    · exact (ih.forStr _ _ _).mono fun p hp => Or.inr hp
    · exact EOK.runErr (Or.inl rfl)
  · refine EOK.bind EOK.getS fun st => ?_
    split
    · split
      · exact EOK.bind EOK.modWorld fun _ => ih.forItems _ _ _ _ _
      · exact EOK.runErr (Or.inl rfl)
    · exact EOK.runErr (Or.inl rfl)
  · refine EOK.bind EOK.getS fun st => ?_
    split
    · split
      · exact ih.forItems _ _ _ _ _
      · exact EOK.runErr (Or.inl rfl)
    · exact EOK.runErr (Or.inl rfl)
  · exact EOK.runErr (Or.inl rfl)

theorem popSt_name (s' : St) : (popSt s').task.name = s'.task.name := rfl

theorem runStmt_stepE (hev : EvE env ev) (ih : MIHE env ev g) (n : Node) :
    EOK env (runStmt env ev (g+1) n) (In n) := by
  cases n
  case ifelse ifs els p =>
    simp only [runStmt]
    refine EOK.finally ?_ popSt_name
    refine EOK.bind EOK.pushScope fun _ => ?_
    refine (ih.ifs ifs els).mono ?_
    intro q hq
    simp only [In, posOf, List.mem_cons, List.mem_append]
    rcases hq with hq | hq
    · exact Or.inr (Or.inl hq)
    · exact Or.inr (Or.inr hq)
  case forS ini c l body p =>
    have hl : EOK env (forLoop env ev g c l body) (In (.forS ini c l body p)) := by
      refine (ih.loop c l body).mono ?_
      intro q hq
      simp only [In, posOf, List.mem_cons, List.mem_append]
      rcases hq with hq | hq | hq
      · exact Or.inr (Or.inr (Or.inr (Or.inl hq)))
      · exact Or.inr (Or.inr (Or.inr (Or.inr (Or.inl hq))))
      · exact Or.inr (Or.inr (Or.inr (Or.inr (Or.inr hq))))
    cases ini with
    | some i =>
      simp only [runStmt]
      refine EOK.finally ?_ popSt_name
      refine EOK.bind EOK.pushScope fun _ => ?_
      refine EOK.bind ((ih.stmt i).mono ?_) fun _ => hl
      intro q hq
      simp only [In, posOf, posOfO, List.mem_cons, List.mem_append]
      exact Or.inr (Or.inr (Or.inl hq))
    | none =>
      simp only [runStmt]
      refine EOK.finally ?_ popSt_name
      refine EOK.bind EOK.pushScope fun _ => ?_
      exact hl
  case forIn var iter body fp ip =>
    simp only [runStmt]
    refine EOK.finally ?_ popSt_name
    refine EOK.bind EOK.pushScope fun _ => ?_
    refine EOK.bind ((ih.stmt iter).mono ?_) fun it => ?_
    · intro q hq
      simp only [In, posOf, List.mem_cons, List.mem_append]
      exact Or.inr (Or.inr (Or.inr (Or.inr (Or.inl hq))))
    refine EOK.finally ?_ popSt_name
    refine EOK.bind EOK.pushScope fun _ => ?_
    refine (ih.forIn var it _ body).mono ?_
    intro q hq
    simp only [In, posOf, List.mem_cons, List.mem_append]
    rcases hq with hq | hq
    · subst hq; exact Or.inr (Or.inr (Or.inr (Or.inr (Or.inl (start_in iter)))))
    · exact Or.inr (Or.inr (Or.inr (Or.inr (Or.inr hq))))
  case brk p =>
    simp only [runStmt]
    exact EOK.bind (EOK.modTask fun _ => rfl) fun _ => EOK.pure
  case cont p =>
    simp only [runStmt]
    exact EOK.bind (EOK.modTask fun _ => rfl) fun _ => EOK.pure
  all_goals
    simp only [runStmt]
    exact hev _

theorem mihe_succ (hev : EvE env ev) (ih : MIHE env ev g) : MIHE env ev (g+1) :=
  ⟨runStmt_stepE hev ih, runStmts_stepE ih, runIfs_stepE ih, forLoop_stepE ih, forIn_stepE ih,
    forInStr_stepE ih, forInItems_stepE ih⟩

theorem mihe_all (hev : EvE env ev) : ∀ g, MIHE env ev g
  | 0 => mihe_zero env ev
  | g+1 => mihe_succ hev (mihe_all hev g)

end
end Platypus.ErrPos
