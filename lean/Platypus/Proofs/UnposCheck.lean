import Platypus.Proofs.UnposSim
/-!
# Layout independence, helper 7: the load-time check

The state of the check pass (`CheckSt`: pattern scopes, loop depth, `use()` sites, grok sites)
stores no position, so check states are related by equality; errors by `ErrSim`.
-/
set_option linter.unusedVariables false
set_option linter.unusedSimpArgs false
namespace Platypus.LayoutSemantics
open Platypus Platypus.FrontEnd

/-- equal check results up to the positions in the error -/
def CResSim {α} : CRes α → CRes α → Prop
  | .ok a s, .ok a' s' => a = a' ∧ s = s'
  | .err e, .err e' => ErrSim e e'
  | .fuel, .fuel => True
  | .need q, .need q' => q = q'
  | _, _ => False

theorem CResSim.refl {α} (r : CRes α) : CResSim r r := by
  cases r
  · exact ⟨rfl, rfl⟩
  · exact ErrSim.refl _
  · exact True.intro
  · exact rfl
theorem CResSim.symm {α} {r r' : CRes α} (h : CResSim r r') : CResSim r' r := by
  cases r <;> cases r' <;> first | exact h.elim | skip
  · exact ⟨h.1.symm, h.2.symm⟩
  · exact ErrSim.symm h
  · exact True.intro
  · exact Eq.symm h
theorem CResSim.trans {α} {a b c : CRes α} (h : CResSim a b) (h' : CResSim b c) : CResSim a c := by
  cases a <;> cases b <;> (first | exact h.elim | skip) <;> cases c <;> first | exact h'.elim | skip
  · exact ⟨h.1.trans h'.1, h.2.trans h'.2⟩
  · exact ErrSim.trans h h'
  · exact True.intro
  · exact Eq.trans h h'

theorem CResSim.cases {α} {r r' : CRes α} (h : CResSim r r') :
    (∃ a s, r = .ok a s ∧ r' = .ok a s) ∨
    (∃ e e', r = .err e ∧ r' = .err e' ∧ ErrSim e e') ∨
    (r = r' ∧ (∀ a s, r ≠ .ok a s) ∧ (∀ e, r ≠ .err e)) := by
  cases r <;> cases r' <;> first | exact h.elim | skip
  · obtain ⟨rfl, rfl⟩ := h
    exact .inl ⟨_, _, rfl, rfl⟩
  · exact .inr (.inl ⟨_, _, rfl, rfl, h⟩)
  · exact .inr (.inr ⟨rfl, (by intro _ _ h; cases h), (by intro _ h; cases h)⟩)
  · cases (h : _ = _)
    exact .inr (.inr ⟨rfl, (by intro _ _ h; cases h), (by intro _ h; cases h)⟩)

/-- check computations with similar results from every check state -/
def CSim {α} (m m' : CM α) : Prop := ∀ s, CResSim (m s) (m' s)

theorem CSim.refl {α} (m : CM α) : CSim m m := fun s => CResSim.refl _
theorem CSim.symm {α} {m m' : CM α} (h : CSim m m') : CSim m' m := fun s => (h s).symm
theorem CSim.trans {α} {a b c : CM α} (h : CSim a b) (h' : CSim b c) : CSim a c := fun s => (h s).trans (h' s)

def cbind {α β} : CRes α → (α → CM β) → CRes β
  | .ok a s, k => k a s
  | .err e, _ => .err e
  | .fuel, _ => .fuel
  | .need q, _ => .need q

theorem cbind_apply {α β} (m : CM α) (k : α → CM β) (s : CheckSt) : (m >>= k) s = cbind (m s) k := by
  show (match m s with | .ok a s' => k a s' | .err e => .err e | .fuel => .fuel | .need q => .need q) = _
  cases m s <;> rfl

theorem CSim.bind {α β} {m m' : CM α} {k k' : α → CM β} (hm : CSim m m') (hk : ∀ a, CSim (k a) (k' a)) :
    CSim (m >>= k) (m' >>= k') := by
  intro s
  simp only [cbind_apply]
  rcases (hm s).cases with ⟨a, s', h1, h2⟩ | ⟨e, e', h1, h2, he⟩ | ⟨h1, h2, h3⟩
  · rw [h1, h2]; exact hk a s'
  · rw [h1, h2]; exact he
  · rw [← h1]
    cases h : m s with
    | ok a s' => exact absurd h (h2 a s')
    | err e => exact absurd h (h3 e)
    | fuel => exact True.intro
    | need q => exact rfl

theorem CSim.cErr {α} (file : Bytes) (p p' : Pos) (msg : String) : CSim (cErr file p msg : CM α) (cErr file p' msg) :=
  fun s => ErrSim.new _ _ _ _

/-- structural decomposition of a `CSim` goal (see `sim_tac`) -/
syntax "csim_tac" : tactic
macro_rules
  | `(tactic| csim_tac) => `(tactic|
    first
    | (with_reducible exact CSim.refl _)
    | (with_reducible exact CSim.cErr _ _ _ _)
    | sim_hyp
    | (refine CSim.bind ?_ (fun _ => ?_) <;> csim_tac)
    | (split <;> csim_tac)
    | skip)

/-! ### the checkers of the registered functions -/

/-- equal decisions up to the positions in the error -/
def DResSim {α} : DRes α → DRes α → Prop
  | .ok a, .ok a' => a = a'
  | .err e, .err e' => ErrSim e e'
  | .need q, .need q' => q = q'
  | _, _ => False

theorem DResSim.refl {α} (r : DRes α) : DResSim r r := by
  cases r
  · exact rfl
  · exact ErrSim.refl _
  · exact rfl

theorem DResSim.errNew {α} (file : Bytes) (p p' : Pos) (m : String) :
    DResSim (.err (PlErr.new file p m) : DRes α) (.err (PlErr.new file p' m)) := ErrSim.new _ _ _ _

theorem keyNameOk_unpos (n : Node) : keyNameOk (unpos n) = keyNameOk n := by cases n <;> rfl
theorem isStrLit_unpos (n : Node) : isStrLit (unpos n) = isStrLit n := by cases n <;> rfl
theorem isBoolLit_unpos (n : Node) : isBoolLit (unpos n) = isBoolLit n := by cases n <;> rfl
theorem isMapKeyLit_unpos (n : Node) : isMapKeyLit (unpos n) = isMapKeyLit n := by cases n <;> rfl

theorem getD_unposL (l : List Node) (i : Nat) :
    (unposL l).getD i (.nilLit Pos.invalid) = unpos (l.getD i (.nilLit Pos.invalid)) := by
  induction l generalizing i with
  | nil => simp [unposL, unpos]
  | cons x r ih =>
    cases i with
    | zero => simp [unposL]
    | succ i => simpa [unposL] using ih i

theorem dres_ok_bind {α β} (a : α) (k : α → DRes β) : (DRes.ok a >>= k) = k a := rfl
theorem dres_need_bind {α β} (q : Bytes) (k : α → DRes β) : (DRes.need q >>= k) = .need q := rfl
theorem dres_err_bind {α β} (e : PlErr) (k : α → DRes β) : (DRes.err e >>= k) = .err e := rfl
theorem dres_pure {α} (a : α) : (pure a : DRes α) = .ok a := rfl

syntax "dsim_tac" : tactic
macro_rules
  | `(tactic| dsim_tac) => `(tactic|
    first
    | (with_reducible exact DResSim.refl _)
    | (with_reducible exact DResSim.errNew _ _ _ _)
    | (simp only [dres_ok_bind, dres_need_bind, dres_err_bind, dres_pure]; dsim_tac)
    | (split <;> dsim_tac)
    | skip)

/-- the decisions of the builtin checkers on an argument list and on the position-free list -/
theorem builtinCheckD_unpos (oracle : Bytes → Option Bytes) (file name : Bytes) (args : List Node) (np np' : Pos)
    (site : Nat) (s : CheckSt) :
    DResSim (builtinCheckD oracle file ⟨name, args, np, site⟩ s)
      (builtinCheckD oracle file ⟨name, unposL args, np', site⟩ s) := by
  simp only [builtinCheckD, getD_unposL, unposL_length, keyNameOk_unpos, isStrLit_unpos, isBoolLit_unpos]
  generalize args.getD 0 (Node.nilLit Pos.invalid) = x0
  generalize args.getD 1 (Node.nilLit Pos.invalid) = x1
  generalize args.getD 2 (Node.nilLit Pos.invalid) = x2
  generalize args.length = n
  cases Fn.ofName name with
  | none => exact DResSim.errNew _ _ _ _
  | some fn =>
    cases fn
    case rename => cases x1 <;> simp only [unpos] <;> dsim_tac
    case cast => cases x1 <;> simp only [unpos] <;> dsim_tac
    case grok => cases x1 <;> simp only [unpos] <;> dsim_tac
    case addPattern =>
      cases x0
      case strLit v p => cases x1 <;> simp only [unpos] <;> dsim_tac
      all_goals
        simp only [unpos]
        dsim_tac
    all_goals
      simp only []
      dsim_tac

theorem builtinCheck_unpos (oracle : Bytes → Option Bytes) (file name : Bytes) (args : List Node) (np np' : Pos)
    (site : Nat) :
    CSim (builtinCheck oracle file ⟨name, args, np, site⟩) (builtinCheck oracle file ⟨name, unposL args, np', site⟩) := by
  intro s
  have h := builtinCheckD_unpos oracle file name args np np' site s
  unfold builtinCheck
  revert h
  cases builtinCheckD oracle file ⟨name, args, np, site⟩ s <;>
    cases builtinCheckD oracle file ⟨name, unposL args, np', site⟩ s <;> intro h <;>
    first | exact h.elim | skip
  · cases (h : _ = _); exact ⟨rfl, rfl⟩
  · exact h
  · exact h

/-! ### the pass -/

/-- a table of function checkers that does not look at positions -/
def FcheckOk (fcheck : CallInfo → Option (CM Unit)) : Prop :=
  ∀ name args np np' site,
    match fcheck ⟨name, args, np, site⟩, fcheck ⟨name, unposL args, np', site⟩ with
    | none, none => True
    | some c, some c' => CSim c c'
    | _, _ => False

theorem fcheckOk_builtin (oracle : Bytes → Option Bytes) (file : Bytes) :
    FcheckOk (fun c => some (builtinCheck oracle file c)) :=
  fun name args np np' site => builtinCheck_unpos oracle file name args np np' site

/-- similarity of the functions of the check pass at fuel `f` -/
structure KSim (file : Bytes) (registered : Bytes → Bool) (fcheck : CallInfo → Option (CM Unit)) (f : Nat) : Prop where
  node : ∀ n, CSim (checkNode file registered fcheck f n) (checkNode file registered fcheck f (unpos n))
  nodes : ∀ l, CSim (checkNodes file registered fcheck f l) (checkNodes file registered fcheck f (unposL l))
  opt : ∀ o, CSim (checkOpt file registered fcheck f o) (checkOpt file registered fcheck f (unposO o))
  block : ∀ b, CSim (checkOptBlock file registered fcheck f b) (checkOptBlock file registered fcheck f (unposOB b))
  map : ∀ kvs, CSim (checkMap file registered fcheck f kvs) (checkMap file registered fcheck f (unposKV kvs))
  ifs : ∀ ifs, CSim (checkIfs file registered fcheck f ifs) (checkIfs file registered fcheck f (unposIfs ifs))

section
variable {file : Bytes} {registered : Bytes → Bool} {fcheck : CallInfo → Option (CM Unit)}

theorem ksim_zero : KSim file registered fcheck 0 := by
  refine ⟨?_, ?_, ?_, ?_, ?_, ?_⟩ <;> intros <;> intro s
  · simp only [checkNode]; exact True.intro
  · simp only [checkNodes]; exact True.intro
  · simp only [checkOpt]; exact True.intro
  · simp only [checkOptBlock]; exact True.intro
  · simp only [checkMap]; exact True.intro
  · simp only [checkIfs]; exact True.intro

variable {f : Nat}

theorem checkNode_sim_step (hf : FcheckOk fcheck) (ih : KSim file registered fcheck f) (n : Node) :
    CSim (checkNode file registered fcheck (f+1) n) (checkNode file registered fcheck (f+1) (unpos n)) := by
  have h1 := ih.node
  have h2 := ih.nodes
  have h3 := ih.opt
  have h4 := ih.block
  have h5 := ih.map
  have h6 := ih.ifs
  cases n
  case list xs lb rb =>
    simp only [checkNode, unpos]
    intro s
    dsimp only
    rcases (h2 xs s).cases with ⟨a, s', e1, e2⟩ | ⟨e, e', e1, e2, he⟩ | ⟨e1, e2, e3⟩
    · rw [e1, e2]; exact CResSim.refl _
    · rw [e1, e2]; exact he.append _ _ _
    · rw [← e1]
      cases h : checkNodes file registered fcheck f xs s with
      | ok a s' => exact absurd h (e2 a s')
      | err e => exact absurd h (e3 e)
      | fuel => exact True.intro
      | need q => exact rfl
  case call name args np lp rp site =>
    simp only [checkNode, unpos]
    split
    · csim_tac
    · intro s
      dsimp only
      rcases (h2 args s).cases with ⟨a, s', e1, e2⟩ | ⟨e, e', e1, e2, he⟩ | ⟨e1, e2, e3⟩
      · rw [e1, e2]
        simp only []
        have := hf name args np Pos.invalid site
        revert this
        cases fcheck ⟨name, args, np, site⟩ <;> cases fcheck ⟨name, unposL args, Pos.invalid, site⟩ <;>
          intro this <;> first | exact this.elim | skip
        · exact ErrSim.new _ _ _ _
        · exact this s'
      · rw [e1, e2]; exact he.append _ _ _
      · rw [← e1]
        cases h : checkNodes file registered fcheck f args s with
        | ok a s' => exact absurd h (e2 a s')
        | err e => exact absurd h (e3 e)
        | fuel => exact True.intro
        | need q => exact rfl
  case forIn v it b fp ip =>
    cases v <;> simp only [checkNode, unpos] <;> csim_tac
  all_goals
    simp only [checkNode, unpos]
    csim_tac

theorem checkNodes_sim_step (ih : KSim file registered fcheck f) (l : List Node) :
    CSim (checkNodes file registered fcheck (f+1) l) (checkNodes file registered fcheck (f+1) (unposL l)) := by
  have h1 := ih.node
  have h2 := ih.nodes
  cases l <;> simp only [checkNodes, unposL] <;> csim_tac

theorem checkOpt_sim_step (ih : KSim file registered fcheck f) (o : Option Node) :
    CSim (checkOpt file registered fcheck (f+1) o) (checkOpt file registered fcheck (f+1) (unposO o)) := by
  have h1 := ih.node
  cases o <;> simp only [checkOpt, unposO] <;> csim_tac

theorem checkOptBlock_sim_step (ih : KSim file registered fcheck f) (b : Option (List Node)) :
    CSim (checkOptBlock file registered fcheck (f+1) b) (checkOptBlock file registered fcheck (f+1) (unposOB b)) := by
  have h1 := ih.nodes
  cases b <;> simp only [checkOptBlock, unposOB] <;> csim_tac

theorem checkMap_sim_step (ih : KSim file registered fcheck f) (kvs : List (Node × Node)) :
    CSim (checkMap file registered fcheck (f+1) kvs) (checkMap file registered fcheck (f+1) (unposKV kvs)) := by
  have h1 := ih.node
  have h2 := ih.map
  cases kvs with
  | nil => simp only [checkMap, unposKV]; csim_tac
  | cons kv r =>
    obtain ⟨k, v⟩ := kv
    simp only [checkMap, unposKV, isMapKeyLit_unpos]
    csim_tac

theorem checkIfs_sim_step (ih : KSim file registered fcheck f) (ifs : List (Node × Option (List Node) × Pos)) :
    CSim (checkIfs file registered fcheck (f+1) ifs) (checkIfs file registered fcheck (f+1) (unposIfs ifs)) := by
  have h1 := ih.node
  have h2 := ih.block
  have h3 := ih.ifs
  cases ifs with
  | nil => simp only [checkIfs, unposIfs]; csim_tac
  | cons x r =>
    obtain ⟨c, b, p⟩ := x
    simp only [checkIfs, unposIfs]
    csim_tac

theorem ksim_succ (hf : FcheckOk fcheck) (ih : KSim file registered fcheck f) : KSim file registered fcheck (f+1) :=
  ⟨checkNode_sim_step hf ih, checkNodes_sim_step ih, checkOpt_sim_step ih, checkOptBlock_sim_step ih,
    checkMap_sim_step ih, checkIfs_sim_step ih⟩

theorem ksim_all (hf : FcheckOk fcheck) : ∀ f, KSim file registered fcheck f
  | 0 => ksim_zero
  | f+1 => ksim_succ hf (ksim_all hf f)

end

/-- the check of a script and of the position-free script -/
theorem checkScript_unpos (fuel : Nat) (oracle : Bytes → Option Bytes) (fns : List Bytes) (file : Bytes)
    (ns : List Node) :
    CResSim (checkScript fuel oracle fns file ns) (checkScript fuel oracle fns file (ns.map unpos)) := by
  rw [← unposL_eq_map]
  exact (ksim_all (fcheckOk_builtin oracle file) fuel).nodes ns _

/-- the check of the same script up to positions -/
theorem checkScript_sim (fuel : Nat) (oracle : Bytes → Option Bytes) (fns : List Bytes) (file : Bytes)
    (ns ns' : List Node) (hs : ns.map unpos = ns'.map unpos) :
    CResSim (checkScript fuel oracle fns file ns) (checkScript fuel oracle fns file ns') := by
  refine (checkScript_unpos fuel oracle fns file ns).trans ?_
  rw [hs]
  exact (checkScript_unpos fuel oracle fns file ns').symm

end Platypus.LayoutSemantics
