import Platypus.Proofs.PanicBase
/-!
C01 proof, part 2: every primitive state change of the interpreter preserves the invariant `GS`.
-/
namespace Platypus.PanicProofs
open Platypus Platypus.MachineProofs Platypus.C01

/-! ### generic ways to re-establish `GS` -/

/-- states with the same scopes, registers, heap and point -/
theorem GS.of_eq {s s' : St} (hs : GS s) (h1 : s'.task.scopes = s.task.scopes)
    (h2 : s'.task.regs = s.task.regs) (h3 : s'.world.heap = s.world.heap) (h4 : s'.world.pt = s.world.pt) :
    GS s' := by
  obtain ⟨a, b, c, d, e⟩ := hs
  exact ⟨by rw [h1, h3]; exact a, by rw [h2, h3]; exact b, by rw [h4]; exact c, by rw [h3]; exact d,
    by rw [h4]; exact e⟩

/-- replace the heap by a larger one -/
theorem GS.heap_change {s : St} (hs : GS s) {h' : Heap} (hle : HeapLe s.world.heap h') (hlo : HeapLo h') :
    GS { s with world := { s.world with heap := h' } } :=
  ⟨fun sc hsc kv hkv => (hs.scopes sc hsc kv hkv).mono hle, fun r hr => (hs.regs r hr).mono hle,
    hs.inv, hlo, hs.fields⟩

theorem GS.pt_change {s : St} (hs : GS s) {pt' : Point} (hi : C10.Inv pt')
    (hf : ∀ kv ∈ pt'.fields, valLo kv.2) : GS { s with world := { s.world with pt := pt' } } :=
  ⟨hs.scopes, hs.regs, hi, hs.heap, hf⟩

theorem GS.regs_change {s : St} (hs : GS s) {rs : List TV} (hr : ∀ r ∈ rs, GV s.world.heap r) :
    GS { s with task := { s.task with regs := rs } } :=
  ⟨hs.scopes, hr, hs.inv, hs.heap, hs.fields⟩

theorem GS.scopes_change {s : St} (hs : GS s) {scs : List (List (Bytes × TV))}
    (hr : ∀ sc ∈ scs, ∀ kv ∈ sc, GV s.world.heap kv.2) :
    GS { s with task := { s.task with scopes := scs } } :=
  ⟨hr, hs.regs, hs.inv, hs.heap, hs.fields⟩

/-- a fresh task on the same world -/
theorem GS.fresh {s : St} (hs : GS s) (name : Bytes) :
    GS { task := { name := name, scopes := [[]] }, world := s.world } :=
  ⟨by simp, by simp, hs.inv, hs.heap, hs.fields⟩

/-- back in the caller's task after the callee changed the world -/
theorem GS.back {s s' : St} (hs : GS s) (hs' : GS s') (hle : HeapLe s.world.heap s'.world.heap) :
    GS { task := s.task, world := s'.world } :=
  ⟨fun sc hsc kv hkv => (hs.scopes sc hsc kv hkv).mono hle, fun r hr => (hs.regs r hr).mono hle,
    hs'.inv, hs'.heap, hs'.fields⟩

/-! ### scopes -/
theorem scopeGet_mem {scs : List (List (Bytes × TV))} {k : Bytes} {v : TV} (h : scopeGet scs k = some v) :
    ∃ sc ∈ scs, (k, v) ∈ sc := by
  induction scs with
  | nil => simp [scopeGet] at h
  | cons sc rest ih =>
    unfold scopeGet at h
    split at h
    · rename_i w hw
      cases h
      exact ⟨sc, List.mem_cons_self, mem_of_alookup hw⟩
    · obtain ⟨sc', h1, h2⟩ := ih h
      exact ⟨sc', List.mem_cons_of_mem _ h1, h2⟩

theorem scopeUpdate_all {P : TV → Prop} {scs : List (List (Bytes × TV))} {k : Bytes} {v : TV}
    (h : ∀ sc ∈ scs, ∀ kv ∈ sc, P kv.2) (hv : P v) : ∀ sc ∈ scopeUpdate scs k v, ∀ kv ∈ sc, P kv.2 := by
  induction scs with
  | nil => simp [scopeUpdate]
  | cons sc rest ih =>
    unfold scopeUpdate
    split
    · intro sc' hsc'
      rcases List.mem_cons.1 hsc' with rfl | h'
      · exact all_aset (h sc List.mem_cons_self) hv
      · exact h sc' (List.mem_cons_of_mem _ h')
    · intro sc' hsc'
      rcases List.mem_cons.1 hsc' with rfl | h'
      · exact h _ List.mem_cons_self
      · exact ih (fun sc hsc => h sc (List.mem_cons_of_mem _ hsc)) sc' h'

theorem scopeSet_all {P : TV → Prop} {scs : List (List (Bytes × TV))} {k : Bytes} {v : TV}
    (h : ∀ sc ∈ scs, ∀ kv ∈ sc, P kv.2) (hv : P v) : ∀ sc ∈ scopeSet scs k v, ∀ kv ∈ sc, P kv.2 := by
  unfold scopeSet
  split
  · exact scopeUpdate_all h hv
  · cases scs with
    | nil => simp
    | cons sc rest =>
      intro sc' hsc'
      rcases List.mem_cons.1 hsc' with rfl | h'
      · exact all_aset (h sc List.mem_cons_self) hv
      · exact h sc' (List.mem_cons_of_mem _ h')

theorem GS.setVarb {s : St} (hs : GS s) {v : TV} (hv : GV s.world.heap v) (k : Bytes) :
    GS { s with task := { s.task with scopes := scopeSet s.task.scopes k v } } :=
  hs.scopes_change (scopeSet_all hs.scopes hv)

theorem GS.push {s : St} (hs : GS s) : GS { s with task := { s.task with scopes := [] :: s.task.scopes } } :=
  hs.scopes_change (by
    intro sc hsc
    rcases List.mem_cons.1 hsc with rfl | h
    · simp
    · exact hs.scopes sc h)

theorem GS.pop {s : St} (hs : GS s) : GS (popSt s) :=
  hs.scopes_change (fun sc hsc => hs.scopes sc (List.mem_of_mem_tail hsc))

theorem GS.clear {s : St} (hs : GS s) :
    GS { s with task := { s.task with scopes := match s.task.scopes with | [] => [] | _ :: r => [] :: r } } :=
  hs.scopes_change (by
    intro sc hsc
    split at hsc
    · simp at hsc
    · rename_i x r heq
      rcases List.mem_cons.1 hsc with rfl | h
      · simp
      · exact hs.scopes sc (by rw [heq]; exact List.mem_cons_of_mem _ h))

theorem GS.pollSt {s : St} (hs : GS s) (env : Env) : GS (pollSt env s) := by
  unfold MachineProofs.pollSt
  split
  · exact hs.of_eq rfl rfl rfl rfl
  · exact hs

theorem pollSt_heap (env : Env) (s : St) : (pollSt env s).world.heap = s.world.heap := by
  unfold MachineProofs.pollSt; split <;> rfl

/-! ### reading -/
theorem GS.get_point {s : St} (hs : GS s) {k : Bytes} {x : TV} (h : s.world.pt.get k = some x) :
    GV s.world.heap x := by
  rcases C10.get_sound _ hs.inv k x h with rfl | hf | ⟨b, rfl, _⟩
  · exact gv_nil _
  · have h1 := hs.inv.fieldsIdx k x.v hf
    have h2 := hs.inv.fieldsScalar k x.v hf
    have h3 := C10.read_back_field _ hs.inv k x.v hf
    rw [h] at h3
    have hx : x = ⟨x.v, C10.scalarType x.v⟩ := Option.some.inj h3
    have hlo : valLo x.v := hs.fields _ (mem_of_alookup hf)
    rw [hx]
    refine gv_scalar _ _ _ rfl hlo ?_ ?_ <;> cases x.v <;> simp [C10.scalarType]
  · exact gv_str _ b

theorem GS.getKey {s : St} (hs : GS s) {k : Bytes} {x : TV} (h : getKey s k = some x) :
    GV s.world.heap x := by
  unfold Platypus.getKey at h
  dsimp only at h
  split at h
  · rename_i v hv
    cases h
    obtain ⟨sc, h1, h2⟩ := scopeGet_mem hv
    exact hs.scopes sc h1 _ h2
  · exact hs.get_point h

/-! ### the point -/
theorem fields_set {pt : Point} {k : Bytes} {x : TV} {cs : Option Bytes}
    (hf : ∀ kv ∈ pt.fields, valLo kv.2) (hx : valLo x.v) : ∀ kv ∈ (pt.set k x cs).fields, valLo kv.2 := by
  by_cases htag : ∃ t, alookup k pt.idx = some (t, true)
  · obtain ⟨t, hi⟩ := htag
    rcases Point.set_tag_cases pt k x cs hi with e | ⟨s, e⟩ | e <;> rw [e] <;> exact hf
  · have hnt : ∀ t, alookup k pt.idx ≠ some (t, true) := fun t e => htag ⟨t, e⟩
    obtain ⟨v, t, e, hv⟩ := Point.set_field_cases pt k x cs hnt
    rw [e]
    refine all_aset hf ?_
    rcases hv with ⟨rfl, _⟩ | ⟨s, rfl, _⟩ | ⟨rfl, _⟩
    · trivial
    · trivial
    · exact hx

theorem fields_setTag {pt : Point} {k : Bytes} {cs : Option Bytes}
    (hf : ∀ kv ∈ pt.fields, valLo kv.2) : ∀ kv ∈ (pt.setTag k cs).fields, valLo kv.2 := by
  obtain ⟨s, hc⟩ := Point.setTag_cases pt k cs
  rcases hc with ⟨_, e⟩ | ⟨t, _, e⟩ | ⟨t, _, e⟩ <;> rw [e]
  · exact hf
  · exact hf
  · exact all_aerase hf

theorem fields_delete {pt : Point} {k : Bytes}
    (hf : ∀ kv ∈ pt.fields, valLo kv.2) : ∀ kv ∈ (pt.delete k).fields, valLo kv.2 := by
  unfold Point.delete
  split
  · exact hf
  · split
    · exact hf
    · exact all_aerase hf

theorem fields_rename {pt : Point} {to frm : Bytes}
    (hf : ∀ kv ∈ pt.fields, valLo kv.2) : ∀ kv ∈ (pt.rename to frm).fields, valLo kv.2 := by
  unfold Point.rename
  split
  · exact hf
  · split
    · exact hf
    · have hd := fields_delete (k := to) hf
      dsimp only
      split
      · split <;> exact hd
      · split
        · rename_i v hv
          exact all_aerase (all_aset hd (hd _ (mem_of_alookup hv)))
        · exact all_aerase hd

theorem GS.ptSet {s : St} (hs : GS s) (k : Bytes) {x : TV} (hx : C10.WellTagged x) (hlo : valLo x.v)
    (cs : Option Bytes) : GS { s with world := { s.world with pt := s.world.pt.set k x cs } } :=
  hs.pt_change (C10.set_inv _ hs.inv k x hx cs) (fields_set hs.fields hlo)

theorem GS.ptSetTag {s : St} (hs : GS s) (k : Bytes) (cs : Option Bytes) :
    GS { s with world := { s.world with pt := s.world.pt.setTag k cs } } :=
  hs.pt_change (C10.setTag_inv _ hs.inv k cs) (fields_setTag hs.fields)

theorem GS.ptDelete {s : St} (hs : GS s) (k : Bytes) :
    GS { s with world := { s.world with pt := s.world.pt.delete k } } :=
  hs.pt_change (C10.delete_inv _ hs.inv k) (fields_delete hs.fields)

theorem GS.ptRename {s : St} (hs : GS s) (to frm : Bytes) :
    GS { s with world := { s.world with pt := s.world.pt.rename to frm } } :=
  hs.pt_change (C10.rename_inv _ hs.inv to frm) (fields_rename hs.fields)

/-- only `meas`/`time` change -/
theorem GS.ptMeta {s : St} (hs : GS s) {pt' : Point} (h1 : pt'.tags = s.world.pt.tags)
    (h2 : pt'.fields = s.world.pt.fields) (h3 : pt'.idx = s.world.pt.idx) :
    GS { s with world := { s.world with pt := pt' } } := by
  refine hs.pt_change ?_ (by rw [h2]; exact hs.fields)
  obtain ⟨a, b, c, d, e, f, g⟩ := hs.inv
  exact ⟨by rw [h1, h3]; exact a, by rw [h2, h3]; exact b, by rw [h2]; exact c, by rw [h1]; exact d,
    by rw [h2]; exact e, by rw [h3]; exact f, by rw [h3]; exact g⟩

/-! ### registers -/
theorem GS.ret {s : St} (hs : GS s) {x : TV} (hx : GV s.world.heap x) :
    GS { s with task := { s.task with regs := if s.task.regs.length < 6 then s.task.regs ++ [x] else s.task.regs } } :=
  hs.regs_change (by
    split
    · intro r hr
      rcases List.mem_append.1 hr with h | h
      · exact hs.regs r h
      · simp at h; subst h; exact hx
    · exact hs.regs)

/-! ### basic monadic steps -/

/-- steps that leave the state alone -/
def Same (s : St) {α} : α → St → Prop := fun _ s' => s' = s

theorem tr_ask (env : Env) (q : Bytes) {s : St} (hs : GS s) : Tr s (ask env q) (Same s) := by
  unfold Tr; rw [ask_apply]
  split
  · exact ⟨hs, HeapLe.refl _, rfl⟩
  · trivial

/-- the answer comes from the oracle -/
theorem tr_ask' (env : Env) (q : Bytes) {s : St} (hs : GS s) :
    Tr s (ask env q) (fun a s' => s' = s ∧ env.oracle q = some a) := by
  unfold Tr; rw [ask_apply]
  split
  · rename_i a ha
    exact ⟨hs, HeapLe.refl _, rfl, ha⟩
  · trivial

theorem mem_insertKey {β} {kv x : Bytes × β} {m : List (Bytes × β)} (h : x ∈ insertKey kv m) :
    x = kv ∨ x ∈ m := by
  induction m with
  | nil => simp [insertKey] at h; exact .inl h
  | cons y r ih =>
    unfold insertKey at h
    split at h
    · rcases List.mem_cons.1 h with h | h
      · exact .inl h
      · exact .inr h
    · rcases List.mem_cons.1 h with h | h
      · exact .inr (h ▸ List.mem_cons_self)
      · rcases ih h with h | h
        · exact .inl h
        · exact .inr (List.mem_cons_of_mem _ h)

theorem mem_sortKeys {β} {x : Bytes × β} {m : List (Bytes × β)} (h : x ∈ sortKeys m) : x ∈ m := by
  induction m with
  | nil => simp [sortKeys] at h
  | cons y r ih =>
    simp only [sortKeys, List.foldr_cons] at h
    rcases mem_insertKey h with h | h
    · exact h ▸ List.mem_cons_self
    · exact List.mem_cons_of_mem _ (ih h)

theorem tr_castToString (env : Env) (v : Val) {s : St} (hs : GS s) :
    Tr s (castToString env v) (Same s) := by
  cases v <;> simp only [castToString]
  case float f =>
    refine (tr_ask env _ hs).bind ?_
    rintro a s' hs' _ rfl
    exact Tr.pure hs' rfl
  all_goals exact Tr.pure hs rfl

theorem tr_conv2str (env : Env) (x : TV) {s : St} (hs : GS s) :
    Tr s (conv2str env x) (Same s) := by
  unfold conv2str
  split
  case h_7 => exact Tr.pure hs rfl
  case h_8 => exact Tr.pure hs rfl
  case h_5 | h_6 =>
    refine Tr.getS ?_
    refine (tr_ask env _ hs).bind ?_
    rintro a s' hs' _ rfl
    exact Tr.pure hs' rfl
  all_goals
    refine (tr_castToString env _ hs).map ?_
    rintro a s' hs' _ rfl
    rfl

/-- `keyOf` of `builtin` -/
def keyOfM (n : Node) : EM Bytes :=
  match getKeyName n with
  | .ok k => pure k
  | .bad => runErr (Node.start n) "key-name"
  | .unmodelled => needE (B "unmodelled:keyname")

theorem tr_keyOf (n : Node) {s : St} (hs : GS s) : Tr s (keyOfM n) (Same s) := by
  unfold keyOfM
  split
  · exact Tr.pure hs rfl
  · exact Tr.runErr hs _ _
  · trivial

/-- `ret` of `builtin` -/
def retM (x : TV) : EM Unit :=
  modTask fun t => { t with regs := if t.regs.length < 6 then t.regs ++ [x] else t.regs }

theorem tr_ret {x : TV} {s : St} (hs : GS s) (hx : GV s.world.heap x) :
    Tr s (retM x) (fun _ _ => True) :=
  ⟨hs.ret hx, HeapLe.refl _, trivial⟩

/-- `setPt` of `builtin`; `cs0` is the first conversion (`match x.t with | .list | .map => conv2str env x | _ => pure none`,
    possibly already reduced) -/
def setPtK (env : Env) (key : Bytes) (x : TV) (cs0 : EM (Option Bytes)) : EM Unit := do
  let cs ← cs0
  let s ← getS
  let key := normKey key
  let isTag := match alookup key s.world.pt.idx with | some (_, true) => true | _ => false
  let cs ← (if isTag then conv2str env x else pure cs)
  modWorld fun w => { w with pt := w.pt.set key x cs }

theorem tr_setPt (env : Env) (key : Bytes) {x : TV} {cs0 : EM (Option Bytes)} {s : St} (hs : GS s)
    (hx : C10.WellTagged x) (hlo : valLo x.v) (h1 : ∀ s, GS s → Tr s cs0 (Same s)) :
    Tr s (setPtK env key x cs0) (fun _ s' => s'.world.heap = s.world.heap) := by
  unfold setPtK
  refine (h1 s hs).bind ?_
  rintro cs s' hs' _ rfl
  refine Tr.getS ?_
  have h2 : ∀ c : Bool, Tr s' (if c = true then conv2str env x else (Pure.pure cs : EM _)) (Same s') := by
    intro c
    split
    · exact tr_conv2str env x hs'
    · exact Tr.pure hs' rfl
  refine (h2 _).bind ?_
  rintro cs' s'' hs'' _ rfl
  exact ⟨hs''.ptSet _ hx hlo _, HeapLe.refl _, rfl⟩

/-- discharges the side condition of `tr_setPt` -/
macro "setpt_cs0" : tactic =>
  `(tactic| (intro s hs; first
    | exact Tr.pure hs rfl
    | (split <;> first | exact tr_conv2str _ _ hs | exact Tr.pure hs rfl)))

/-- `setPtTag` of `builtin` -/
def setPtTagM (env : Env) (key : Bytes) (x : TV) : EM Unit := do
  let cs ← conv2str env x
  modWorld fun w => { w with pt := w.pt.setTag (normKey key) cs }

theorem tr_setPtTag (env : Env) (key : Bytes) (x : TV) {s : St} (hs : GS s) :
    Tr s (setPtTagM env key x) (fun _ s' => s'.world.heap = s.world.heap) := by
  unfold setPtTagM
  refine (tr_conv2str env x hs).bind ?_
  rintro cs s' hs' _ rfl
  exact ⟨hs'.ptSetTag _ _, HeapLe.refl _, rfl⟩

theorem tr_procExit (env : Env) {s : St} (hs : GS s) :
    Tr s (procExit env) (fun _ _ => True) := by
  unfold Tr; rw [procExit_apply]
  exact ⟨hs.pollSt env, by rw [pollSt_heap]; exact HeapLe.refl _, trivial⟩

theorem tr_stmtReturn (env : Env) {s : St} (hs : GS s) :
    Tr s (stmtReturn env) (fun _ _ => True) := by
  unfold Tr; rw [stmtReturn_apply]
  exact ⟨hs.pollSt env, by rw [pollSt_heap]; exact HeapLe.refl _, trivial⟩

theorem tr_setVarb {s : St} (hs : GS s) (k : Bytes) {v : TV} (hv : GV s.world.heap v) :
    Tr s (setVarb k v) (fun _ _ => True) := ⟨hs.setVarb hv _, HeapLe.refl _, trivial⟩

theorem tr_pushScope {s : St} (hs : GS s) : Tr s pushScope (fun _ _ => True) :=
  ⟨hs.push, HeapLe.refl _, trivial⟩
theorem tr_popScope {s : St} (hs : GS s) : Tr s popScope (fun _ _ => True) :=
  ⟨hs.pop, HeapLe.refl _, trivial⟩
theorem tr_clearScope {s : St} (hs : GS s) : Tr s clearScope (fun _ _ => True) :=
  ⟨hs.clear, HeapLe.refl _, trivial⟩

theorem Tr.finally {α} {s : St} {m : EM α} {Q : α → St → Prop} (h : Tr s m Q)
    (hq : ∀ a s', Q a s' → Q a (popSt s')) : Tr s (m.finally popSt) Q := by
  unfold Tr at *
  rw [finally_apply]
  cases hr : m s with
  | ok a s' => rw [hr] at h; exact ⟨h.1.pop, h.2.1, hq a s' h.2.2⟩
  | err e s' => rw [hr] at h; exact ⟨h.1.pop, h.2⟩
  | panic m => rw [hr] at h; exact h
  | fuel => trivial
  | need q => trivial

end Platypus.PanicProofs
