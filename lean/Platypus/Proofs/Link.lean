import Platypus.Model.Link
import Platypus.Proofs.Assoc
/-!
Helper theory for C09 (the use() linker): graph facts about the least-fixed-point specification,
unfolding lemmas for `dfs`/`dfsUses`, the frame / soundness / completeness / memo-transparency lemmas
for the depth-first search, and the fold over the visiting order.

`GoodP` is a verbatim copy of `Platypus.C09.Good` (the properties file imports this one, so the
specification predicate is restated here; `C09.good_iff` identifies the two).
-/
namespace Platypus.Link
open Platypus

/-! ### specification side: good scripts, use edges, reachability -/

inductive GoodP (all : Scripts) : Bytes → Prop
  | mk (n : Bytes) (uses : List Use) :
      alookup n all = some (.ok uses) → (∀ u ∈ uses, GoodP all u.callee) → GoodP all n

def Edge (all : Scripts) (n c : Bytes) : Prop :=
  ∃ uses u, alookup n all = some (Status.ok uses) ∧ u ∈ uses ∧ u.callee = c

inductive Reach (all : Scripts) : Bytes → Bytes → Prop
  | refl (a : Bytes) : Reach all a a
  | head {a c b : Bytes} : Edge all a c → Reach all c b → Reach all a b

variable {all : Scripts}

theorem Reach.trans {a b c : Bytes} (h1 : Reach all a b) (h2 : Reach all b c) : Reach all a c := by
  induction h1 with
  | refl => exact h2
  | head he _ ih => exact Reach.head he (ih h2)

theorem Reach.tail {a b c : Bytes} (h1 : Reach all a b) (h2 : Edge all b c) : Reach all a c :=
  h1.trans (Reach.head h2 (Reach.refl c))

theorem GoodP.checked {n : Bytes} (h : GoodP all n) : ∃ uses, alookup n all = some (.ok uses) := by
  cases h with
  | mk _ uses hl _ => exact ⟨uses, hl⟩

theorem GoodP.uses {n : Bytes} {uses : List Use} (h : GoodP all n)
    (hl : alookup n all = some (.ok uses)) : ∀ u ∈ uses, GoodP all u.callee := by
  cases h with
  | mk _ uses' hl' hall =>
    rw [hl] at hl'
    cases hl'
    exact hall

theorem GoodP.edge {n c : Bytes} (h : GoodP all n) (he : Edge all n c) : GoodP all c := by
  obtain ⟨uses, u, hl, hu, hc⟩ := he
  subst hc
  exact h.uses hl u hu

theorem GoodP.acyclic {n : Bytes} (h : GoodP all n) : ∀ c, Edge all n c → ¬ Reach all c n := by
  induction h with
  | mk n uses hl _ ih =>
    intro c hec hr
    have hec' := hec
    obtain ⟨uses', u, hl', hu, hc⟩ := hec'
    rw [hl] at hl'
    cases hl'
    cases hr with
    | refl =>
      subst hc
      exact ih u hu _ hec (Reach.refl _)
    | head he hr' =>
      subst hc
      exact ih u hu _ he (hr'.tail hec)

/-! ### the facts about the on-path set that completeness needs -/

/-- nodup, all entries checked, every entry reaches the current node by at least one use edge,
    and the fuel suffices for the remaining depth -/
def PathOK (all : Scripts) (f : Nat) (onP : List Bytes) (name : Bytes) : Prop :=
  onP.Nodup ∧ (∀ p ∈ onP, ∃ uses, alookup p all = some (Status.ok uses)) ∧
  (∀ p ∈ onP, ∃ c, Edge all p c ∧ Reach all c name) ∧ all.length + 1 ≤ f + onP.length

theorem nodup_subset_length : ∀ (l1 l2 : List Bytes), l1.Nodup → l1 ⊆ l2 → l1.length ≤ l2.length := by
  intro l1
  induction l1 with
  | nil => intros; simp
  | cons a t ih =>
    intro l2 hnd hsub
    have ha : a ∈ l2 := hsub (List.mem_cons_self ..)
    rw [List.nodup_cons] at hnd
    have hsub' : t ⊆ l2.erase a := by
      intro x hx
      have hxa : x ≠ a := fun h => hnd.1 (h ▸ hx)
      exact (List.mem_erase_of_ne hxa).2 (hsub (List.mem_cons_of_mem _ hx))
    have := ih (l2.erase a) hnd.2 hsub'
    rw [List.length_erase_of_mem ha] at this
    have : 0 < l2.length := List.length_pos_of_mem ha
    simp only [List.length_cons]
    omega

theorem PathOK.notMem {f : Nat} {onP : List Bytes} {name : Bytes} (h : PathOK all f onP name)
    (hg : GoodP all name) : name ∉ onP := by
  intro hm
  obtain ⟨c, he, hr⟩ := h.2.2.1 name hm
  exact hg.acyclic c he hr

theorem PathOK.fuel {onP : List Bytes} {name : Bytes} {uses : List Use} (h : PathOK all 0 onP name)
    (hl : alookup name all = some (.ok uses)) (hm : name ∉ onP) : False := by
  obtain ⟨hnd, hch, _, hf⟩ := h
  have hsub : (name :: onP) ⊆ all.map (·.1) := by
    intro x hx
    rcases List.mem_cons.1 hx with rfl | hx
    · exact mem_keys_of_alookup hl
    · obtain ⟨us, hus⟩ := hch x hx
      exact mem_keys_of_alookup hus
  have := nodup_subset_length (name :: onP) (all.map (·.1)) (List.nodup_cons.2 ⟨hm, hnd⟩) hsub
  simp at this
  omega

theorem PathOK.child {f : Nat} {onP : List Bytes} {name : Bytes} {uses : List Use}
    (h : PathOK all (f+1) onP name) (hl : alookup name all = some (.ok uses)) (hm : name ∉ onP)
    {u : Use} (hu : u ∈ uses) : PathOK all f (name :: onP) u.callee := by
  obtain ⟨hnd, hch, hre, hf⟩ := h
  have he : Edge all name u.callee := ⟨uses, u, hl, hu, rfl⟩
  refine ⟨List.nodup_cons.2 ⟨hm, hnd⟩, ?_, ?_, ?_⟩
  · intro p hp
    rcases List.mem_cons.1 hp with rfl | hp
    · exact ⟨uses, hl⟩
    · exact hch p hp
  · intro p hp
    rcases List.mem_cons.1 hp with rfl | hp
    · exact ⟨u.callee, he, Reach.refl _⟩
    · obtain ⟨c, hc, hr⟩ := hre p hp
      exact ⟨c, hc, hr.tail he⟩
  · simp only [List.length_cons]; omega

/-! ### unfolding the model -/

def push (s : St) (name : Bytes) : St :=
  { s with path := s.path ++ [name], onPath := name :: s.onPath }

def pre (s : St) (u : Use) : St := if s.path.length = 1 then { s with rootPos := u.pos } else s

def addBind (s : St) (u : Use) : St := { s with bind := (u.site, u.callee) :: s.bind }

def addMemo (s : St) (name : Bytes) : St := { s with memo := name :: s.memo }

@[simp] theorem push_path (s : St) (n : Bytes) : (push s n).path = s.path ++ [n] := rfl
@[simp] theorem push_onPath (s : St) (n : Bytes) : (push s n).onPath = n :: s.onPath := rfl
@[simp] theorem push_memo (s : St) (n : Bytes) : (push s n).memo = s.memo := rfl
@[simp] theorem push_bind (s : St) (n : Bytes) : (push s n).bind = s.bind := rfl
@[simp] theorem push_rootPos (s : St) (n : Bytes) : (push s n).rootPos = s.rootPos := rfl

@[simp] theorem pre_path (s : St) (u : Use) : (pre s u).path = s.path := by unfold pre; split <;> rfl
@[simp] theorem pre_onPath (s : St) (u : Use) : (pre s u).onPath = s.onPath := by unfold pre; split <;> rfl
@[simp] theorem pre_memo (s : St) (u : Use) : (pre s u).memo = s.memo := by unfold pre; split <;> rfl
@[simp] theorem pre_bind (s : St) (u : Use) : (pre s u).bind = s.bind := by unfold pre; split <;> rfl
theorem pre_rootPos (s : St) (u : Use) (h : s.path.length ≠ 1) : (pre s u).rootPos = s.rootPos := by
  unfold pre; rw [if_neg h]
theorem pre_congr {s1 s2 : St} (u : Use) (hp : s1.path = s2.path) (hr : s1.rootPos = s2.rootPos) :
    (pre s1 u).rootPos = (pre s2 u).rootPos := by
  unfold pre; rw [hp]; split <;> simp [hr]

@[simp] theorem addBind_path (s : St) (u : Use) : (addBind s u).path = s.path := rfl
@[simp] theorem addBind_onPath (s : St) (u : Use) : (addBind s u).onPath = s.onPath := rfl
@[simp] theorem addBind_memo (s : St) (u : Use) : (addBind s u).memo = s.memo := rfl
@[simp] theorem addBind_bind (s : St) (u : Use) : (addBind s u).bind = (u.site, u.callee) :: s.bind := rfl
@[simp] theorem addBind_rootPos (s : St) (u : Use) : (addBind s u).rootPos = s.rootPos := rfl

@[simp] theorem addMemo_path (s : St) (n : Bytes) : (addMemo s n).path = s.path := rfl
@[simp] theorem addMemo_onPath (s : St) (n : Bytes) : (addMemo s n).onPath = s.onPath := rfl
@[simp] theorem addMemo_memo (s : St) (n : Bytes) : (addMemo s n).memo = n :: s.memo := rfl
@[simp] theorem addMemo_bind (s : St) (n : Bytes) : (addMemo s n).bind = s.bind := rfl
@[simp] theorem addMemo_rootPos (s : St) (n : Bytes) : (addMemo s n).rootPos = s.rootPos := rfl

@[simp] theorem pop_memo (s : St) : (pop s).memo = s.memo := by unfold pop; split <;> rfl
@[simp] theorem pop_bind (s : St) : (pop s).bind = s.bind := by unfold pop; split <;> rfl
@[simp] theorem pop_rootPos (s : St) : (pop s).rootPos = s.rootPos := by unfold pop; split <;> rfl
theorem pop_path (s : St) (p : List Bytes) (x : Bytes) (h : s.path = p ++ [x]) : (pop s).path = p := by
  unfold pop; simp [h]
theorem pop_onPath (s : St) (p : List Bytes) (x : Bytes) (o : List Bytes) (h : s.path = p ++ [x])
    (ho : s.onPath = x :: o) : (pop s).onPath = o := by
  unfold pop; simp [h, ho]

abbrev R := Except (PlErr × St) St

theorem dfsUses_nil (rec : Bytes → List Use → St → R) (name : Bytes) (s : St) :
    dfsUses all rec name [] s = .ok s := rfl

theorem dfsUses_cons (rec : Bytes → List Use → St → R) (name : Bytes) (u : Use) (rest : List Use) (s : St) :
    dfsUses all rec name (u :: rest) s =
      match alookup u.callee all with
      | none => .error (PlErr.new name u.pos "script-not-found", pre s u)
      | some (.bad e) => .error (e.append name u.pos, pre s u)
      | some (.ok cuses) =>
        match rec u.callee cuses (addBind (pre s u) u) with
        | .error (e, s') => .error (e.append name u.pos, s')
        | .ok s' => dfsUses all rec name rest s' := rfl

theorem dfs_zero (root name : Bytes) (uses : List Use) (s : St) :
    dfs 0 all root name uses s = .error (⟨[], "fuel"⟩, s) := rfl

theorem dfs_succ (f : Nat) (root name : Bytes) (uses : List Use) (s : St) :
    dfs (f+1) all root name uses s =
      if s.onPath.contains name then .error (PlErr.new root s.rootPos "circular-dependency", s)
      else if s.memo.contains name then .ok (pop (push s name))
      else match dfsUses all (fun c cu st => dfs f all root c cu st) name uses (push s name) with
        | .error e => .error e
        | .ok s' => .ok (pop (addMemo s' name)) := rfl

/-! ### frame: what a call leaves unchanged, and what only grows -/

structure FrameU (s s' : St) : Prop where
  path : s'.path = s.path
  onPath : s'.onPath = s.onPath
  rootPos : 2 ≤ s.path.length → s'.rootPos = s.rootPos
  memo : s.memo ⊆ s'.memo
  bind : s.bind ⊆ s'.bind

structure Frame (s s' : St) : Prop where
  path : s'.path = s.path
  onPath : s'.onPath = s.onPath
  rootPos : s.path ≠ [] → s'.rootPos = s.rootPos
  memo : s.memo ⊆ s'.memo
  bind : s.bind ⊆ s'.bind

def Grow (s s' : St) : Prop := s.memo ⊆ s'.memo ∧ s.bind ⊆ s'.bind

def RecFrame (rec : Bytes → List Use → St → R) : Prop :=
  ∀ c cu s, (∀ s', rec c cu s = .ok s' → Frame s s' ∧ c ∈ s'.memo) ∧
    (∀ e s', rec c cu s = .error (e, s') → Grow s s')

theorem dfsUses_frame {rec : Bytes → List Use → St → R} (hrec : RecFrame rec) (name : Bytes) :
    ∀ us s, (∀ s', dfsUses all rec name us s = .ok s' →
        FrameU s s' ∧ ∀ u ∈ us, u.callee ∈ s'.memo ∧ (u.site, u.callee) ∈ s'.bind) ∧
      (∀ e s', dfsUses all rec name us s = .error (e, s') → Grow s s') := by
  intro us
  induction us with
  | nil =>
    intro s
    rw [dfsUses_nil]
    refine ⟨?_, ?_⟩
    · intro s' h
      cases h
      exact ⟨⟨rfl, rfl, fun _ => rfl, fun _ h => h, fun _ h => h⟩, by simp⟩
    · intro e s' h; cases h
  | cons u rest ih =>
    intro s
    rw [dfsUses_cons]
    split
    · refine ⟨fun s' h => (by cases h), ?_⟩
      intro e s' h
      cases h
      exact ⟨by simp, by simp⟩
    · refine ⟨fun s' h => (by cases h), ?_⟩
      intro e s' h
      cases h
      exact ⟨by simp, by simp⟩
    · rename_i cuses hl
      split
      · rename_i e0 t hr
        refine ⟨fun s' h => (by cases h), ?_⟩
        intro e s' h
        cases h
        have := (hrec _ _ _).2 _ _ hr
        exact ⟨fun x hx => this.1 (by simpa using hx), fun x hx => this.2 (by simp [hx])⟩
      · rename_i t hr
        obtain ⟨hf, hm⟩ := (hrec _ _ _).1 _ hr
        obtain ⟨ih1, ih2⟩ := ih t
        have hmemo : s.memo ⊆ t.memo := fun x hx => hf.memo (by simpa using hx)
        have hbind : s.bind ⊆ t.bind := fun x hx => hf.bind (by simp [hx])
        refine ⟨?_, ?_⟩
        · intro s' h
          obtain ⟨hfu, hrest⟩ := ih1 s' h
          have hp : t.path = s.path := by simpa using hf.path
          refine ⟨⟨?_, ?_, ?_, ?_, ?_⟩, ?_⟩
          · rw [hfu.path, hp]
          · rw [hfu.onPath]; simpa using hf.onPath
          · intro h2
            rw [hfu.rootPos (by rw [hp]; exact h2)]
            have hne : s.path ≠ [] := by intro h0; rw [h0] at h2; simp at h2
            rw [hf.rootPos (by simpa using hne)]
            simp only [addBind_rootPos]
            exact pre_rootPos s u (by omega)
          · exact fun x hx => hfu.memo (hmemo hx)
          · exact fun x hx => hfu.bind (hbind hx)
          · intro u' hu'
            rcases List.mem_cons.1 hu' with rfl | hu'
            · exact ⟨hfu.memo hm, hfu.bind (hf.bind (by simp))⟩
            · exact hrest u' hu'
        · intro e s' h
          have := ih2 e s' h
          exact ⟨fun x hx => this.1 (hmemo hx), fun x hx => this.2 (hbind hx)⟩

theorem dfs_frame (root : Bytes) : ∀ f, RecFrame (fun c cu st => dfs f all root c cu st) := by
  intro f
  induction f with
  | zero =>
    intro name uses s
    simp only [dfs_zero]
    refine ⟨fun s' h => (by cases h), ?_⟩
    intro e s' h
    cases h
    exact ⟨fun _ h => h, fun _ h => h⟩
  | succ f ih =>
    intro name uses s
    simp only [dfs_succ]
    split
    · refine ⟨fun s' h => (by cases h), ?_⟩
      intro e s' h
      cases h
      exact ⟨fun _ h => h, fun _ h => h⟩
    · split
      · rename_i hm
        refine ⟨?_, fun e s' h => by cases h⟩
        intro s' h
        cases h
        refine ⟨⟨pop_path _ s.path name rfl, pop_onPath _ s.path name s.onPath rfl rfl, ?_, ?_, ?_⟩, ?_⟩
        · intro _; simp
        · simp
        · simp
        · simpa using hm
      · have hU := dfsUses_frame (all := all) ih name uses (push s name)
        split
        · rename_i e hr
          refine ⟨fun s' h => (by cases h), ?_⟩
          intro e' s' h
          cases h
          have := hU.2 _ _ hr
          exact ⟨by simpa using this.1, by simpa using this.2⟩
        · rename_i t hr
          refine ⟨?_, fun e s' h => by cases h⟩
          intro s' h
          cases h
          obtain ⟨hf, _⟩ := hU.1 _ hr
          have hp : t.path = s.path ++ [name] := by simpa using hf.path
          have ho : t.onPath = name :: s.onPath := by simpa using hf.onPath
          refine ⟨⟨pop_path _ s.path name (by simpa using hp),
            pop_onPath _ s.path name s.onPath (by simpa using hp) (by simpa using ho), ?_, ?_, ?_⟩, ?_⟩
          · intro hne
            simp only [pop_rootPos, addMemo_rootPos]
            have : 2 ≤ (push s name).path.length := by
              simp only [push_path, List.length_append, List.length_cons, List.length_nil]
              have : 0 < s.path.length := List.length_pos_iff.2 hne
              omega
            simpa using hf.rootPos this
          · intro x hx
            simp only [pop_memo, addMemo_memo]
            exact List.mem_cons_of_mem _ (hf.memo (by simpa using hx))
          · intro x hx
            simp only [pop_bind, addMemo_bind]
            exact hf.bind (by simpa using hx)
          · simp

/-! ### soundness of the memo, and the bindings of memoised scripts -/

def MInv (all : Scripts) (memo : List Bytes) (bind : List (Nat × Bytes)) : Prop :=
  (∀ m ∈ memo, GoodP all m) ∧
  (∀ m ∈ memo, ∀ uses, alookup m all = some (Status.ok uses) → ∀ u ∈ uses, (u.site, u.callee) ∈ bind)

def SInv (all : Scripts) (s : St) : Prop := MInv all s.memo s.bind

def RecSound (all : Scripts) (rec : Bytes → List Use → St → R) : Prop :=
  ∀ c cu s, alookup c all = some (.ok cu) → SInv all s →
    (∀ s', rec c cu s = .ok s' → SInv all s') ∧ (∀ e s', rec c cu s = .error (e, s') → SInv all s')

theorem SInv.pre {s : St} (h : SInv all s) (u : Use) : SInv all (pre s u) := by
  unfold SInv at *; simpa using h

theorem SInv.addBind {s : St} (h : SInv all s) (u : Use) : SInv all (addBind s u) := by
  unfold SInv
  simp only [addBind_memo, addBind_bind]
  exact ⟨h.1, fun m hm uses hl u' hu' => List.mem_cons_of_mem _ (h.2 m hm uses hl u' hu')⟩

theorem SInv.push {s : St} (h : SInv all s) (n : Bytes) : SInv all (push s n) := by
  unfold SInv at *; simpa using h

theorem SInv.pop {s : St} (h : SInv all s) : SInv all (pop s) := by
  unfold SInv at *; simpa using h

theorem dfsUses_sound {rec : Bytes → List Use → St → R} (hrec : RecSound all rec) (name : Bytes) :
    ∀ us s, SInv all s → (∀ s', dfsUses all rec name us s = .ok s' → SInv all s') ∧
      (∀ e s', dfsUses all rec name us s = .error (e, s') → SInv all s') := by
  intro us
  induction us with
  | nil =>
    intro s hs
    rw [dfsUses_nil]
    exact ⟨fun s' h => by cases h; exact hs, fun e s' h => by cases h⟩
  | cons u rest ih =>
    intro s hs
    rw [dfsUses_cons]
    split
    · exact ⟨fun s' h => (by cases h), fun e s' h => by cases h; exact hs.pre u⟩
    · exact ⟨fun s' h => (by cases h), fun e s' h => by cases h; exact hs.pre u⟩
    · rename_i cuses hl
      have hr := hrec _ _ _ hl ((hs.pre u).addBind u)
      split
      · rename_i e0 t heq
        exact ⟨fun s' h => (by cases h), fun e s' h => by cases h; exact hr.2 _ _ heq⟩
      · rename_i t heq
        exact ih t (hr.1 _ heq)

theorem dfs_sound (root : Bytes) : ∀ f, RecSound all (fun c cu st => dfs f all root c cu st) := by
  intro f
  induction f with
  | zero =>
    intro name uses s _ hs
    simp only [dfs_zero]
    exact ⟨fun s' h => (by cases h), fun e s' h => by cases h; exact hs⟩
  | succ f ih =>
    intro name uses s hl hs
    simp only [dfs_succ]
    split
    · exact ⟨fun s' h => (by cases h), fun e s' h => by cases h; exact hs⟩
    · split
      · exact ⟨fun s' h => by cases h; exact (hs.push name).pop, fun e s' h => by cases h⟩
      · have hU := dfsUses_sound ih name uses (push s name) (hs.push name)
        have hF := dfsUses_frame (all := all) (dfs_frame (all := all) root f) name uses (push s name)
        split
        · rename_i e hr
          refine ⟨fun s' h => (by cases h), ?_⟩
          intro e' s' h
          cases h
          exact hU.2 _ _ hr
        · rename_i t hr
          refine ⟨?_, fun e s' h => by cases h⟩
          intro s' h
          cases h
          have ht := hU.1 _ hr
          have hu := (hF.1 _ hr).2
          unfold SInv
          simp only [pop_memo, addMemo_memo, pop_bind, addMemo_bind]
          refine ⟨?_, ?_⟩
          · intro m hm
            rcases List.mem_cons.1 hm with rfl | hm
            · exact GoodP.mk m uses hl (fun u hu' => ht.1 _ (hu u hu').1)
            · exact ht.1 m hm
          · intro m hm uses' hl' u' hu'
            rcases List.mem_cons.1 hm with rfl | hm
            · rw [hl] at hl'
              cases hl'
              exact (hu u' hu').2
            · exact ht.2 m hm uses' hl' u' hu'

/-! ### completeness: a good script links, whatever the memo holds -/

theorem dfsUses_complete {rec : Bytes → List Use → St → R} (onP : List Bytes) (okc : Bytes → Prop)
    (hframe : RecFrame rec)
    (hrec : ∀ c cu s, okc c → alookup c all = some (.ok cu) → s.onPath = onP → ∃ s', rec c cu s = .ok s')
    (name : Bytes) :
    ∀ us s, (∀ u ∈ us, okc u.callee ∧ ∃ cu, alookup u.callee all = some (Status.ok cu)) → s.onPath = onP →
      ∃ s', dfsUses all rec name us s = .ok s' := by
  intro us
  induction us with
  | nil => intro s _ _; exact ⟨s, rfl⟩
  | cons u rest ih =>
    intro s hus ho
    obtain ⟨hok, cu, hl⟩ := hus u (List.mem_cons_self ..)
    obtain ⟨t, ht⟩ := hrec u.callee cu (addBind (pre s u) u) hok hl (by simpa using ho)
    have hf := ((hframe _ _ _).1 _ ht).1
    obtain ⟨s', hs'⟩ := ih t (fun u' hu' => hus u' (List.mem_cons_of_mem _ hu'))
      (by rw [hf.onPath]; simpa using ho)
    refine ⟨s', ?_⟩
    rw [dfsUses_cons]
    simp only [hl, ht]
    exact hs'

theorem dfs_complete (root : Bytes) : ∀ f name uses s, GoodP all name →
    alookup name all = some (.ok uses) → PathOK all f s.onPath name →
    ∃ s', dfs f all root name uses s = .ok s' := by
  intro f
  induction f with
  | zero =>
    intro name uses s hg hl hp
    exact (hp.fuel hl (hp.notMem hg)).elim
  | succ f ih =>
    intro name uses s hg hl hp
    have hm := hp.notMem hg
    rw [dfs_succ, if_neg (by simpa using hm)]
    by_cases hmemo : s.memo.contains name = true
    · rw [if_pos hmemo]; exact ⟨_, rfl⟩
    · rw [if_neg hmemo]
      obtain ⟨t, ht⟩ := dfsUses_complete (all := all) (name :: s.onPath)
        (fun c => GoodP all c ∧ PathOK all f (name :: s.onPath) c) (dfs_frame (all := all) root f)
        (fun c cu s' hc hl' ho => ih c cu s' hc.1 hl' (ho ▸ hc.2)) name uses (push s name)
        (fun u hu => ⟨⟨hg.uses hl u hu, hp.child hl hm hu⟩, (hg.uses hl u hu).checked⟩) rfl
      rw [ht]
      exact ⟨_, rfl⟩

/-! ### memo transparency: verdict and error do not depend on the (sound) memo -/

def Agree (s1 s2 : St) : Prop := s1.path = s2.path ∧ s1.onPath = s2.onPath ∧ s1.rootPos = s2.rootPos

def Sim (r1 r2 : R) : Prop :=
  (∀ s1', r1 = .ok s1' → ∃ s2', r2 = .ok s2') ∧
  (∀ e s1', r1 = .error (e, s1') → ∃ s2', r2 = .error (e, s2'))

theorem Sim.ok (a b : St) : Sim (.ok a) (.ok b) :=
  ⟨fun _ _ => ⟨b, rfl⟩, fun _ _ h => by cases h⟩

theorem Sim.err (e : PlErr) (a b : St) : Sim (.error (e, a)) (.error (e, b)) :=
  ⟨fun _ h => (by cases h), fun _ _ h => by cases h; exact ⟨b, rfl⟩⟩

theorem dfsUses_sim (root : Bytes) (f : Nat) (onP : List Bytes) (okc : Bytes → Prop)
    (ih : ∀ c cu s1 s2, okc c → alookup c all = some (.ok cu) → Agree s1 s2 → s1.onPath = onP →
      SInv all s1 → SInv all s2 → Sim (dfs f all root c cu s1) (dfs f all root c cu s2))
    (name : Bytes) :
    ∀ us s1 s2, (∀ u ∈ us, okc u.callee) → Agree s1 s2 → s1.onPath = onP → s1.path ≠ [] →
      SInv all s1 → SInv all s2 →
      Sim (dfsUses all (fun c cu st => dfs f all root c cu st) name us s1)
          (dfsUses all (fun c cu st => dfs f all root c cu st) name us s2) := by
  intro us
  induction us with
  | nil => intro s1 s2 _ _ _ _ _ _; exact Sim.ok _ _
  | cons u rest ihu =>
    intro s1 s2 hus hag ho hne hs1 hs2
    obtain ⟨hpath, hon, hrp⟩ := hag
    rw [dfsUses_cons, dfsUses_cons]
    cases hl : alookup u.callee all with
    | none => exact Sim.err _ _ _
    | some st =>
      cases st with
      | bad e => exact Sim.err _ _ _
      | ok cuses =>
        dsimp only
        have hag' : Agree (addBind (pre s1 u) u) (addBind (pre s2 u) u) :=
          ⟨by simpa using hpath, by simpa using hon, by simpa using pre_congr u hpath hrp⟩
        have hs1' := (hs1.pre u).addBind u
        have hs2' := (hs2.pre u).addBind u
        have hsim := ih u.callee cuses _ _ (hus u (List.mem_cons_self ..)) hl hag' (by simpa using ho) hs1' hs2'
        have hne2 : s2.path ≠ [] := hpath ▸ hne
        cases h1 : dfs f all root u.callee cuses (addBind (pre s1 u) u) with
        | error p =>
          obtain ⟨e0, t1⟩ := p
          obtain ⟨t2, h2⟩ := hsim.2 e0 t1 h1
          rw [h2]
          exact Sim.err _ _ _
        | ok t1 =>
          obtain ⟨t2, h2⟩ := hsim.1 t1 h1
          rw [h2]
          dsimp only
          have f1 := ((dfs_frame (all := all) root f _ _ _).1 _ h1).1
          have f2 := ((dfs_frame (all := all) root f _ _ _).1 _ h2).1
          have g1 := (dfs_sound (all := all) root f _ _ _ hl hs1').1 _ h1
          have g2 := (dfs_sound (all := all) root f _ _ _ hl hs2').1 _ h2
          refine ihu t1 t2 (fun u' hu' => hus u' (List.mem_cons_of_mem _ hu')) ⟨?_, ?_, ?_⟩ ?_ ?_ g1 g2
          · rw [f1.path, f2.path]; exact hag'.1
          · rw [f1.onPath, f2.onPath]; exact hag'.2.1
          · rw [f1.rootPos (by simpa using hne), f2.rootPos (by simpa using hne2)]; exact hag'.2.2
          · rw [f1.onPath]; simpa using ho
          · rw [f1.path]; simpa using hne

theorem dfs_sim (root : Bytes) : ∀ f name uses s1 s2, alookup name all = some (.ok uses) →
    Agree s1 s2 → PathOK all f s1.onPath name → SInv all s1 → SInv all s2 →
    Sim (dfs f all root name uses s1) (dfs f all root name uses s2) := by
  intro f
  induction f with
  | zero =>
    intro name uses s1 s2 _ _ _ _ _
    simp only [dfs_zero]
    exact Sim.err _ _ _
  | succ f ih =>
    intro name uses s1 s2 hl hag hp hs1 hs2
    obtain ⟨hpath, hon, hrp⟩ := hag
    by_cases hgood : name ∈ s1.memo ∨ name ∈ s2.memo
    · have hg : GoodP all name := hgood.elim (hs1.1 name) (hs2.1 name)
      obtain ⟨t1, h1⟩ := dfs_complete root (f+1) name uses s1 hg hl hp
      obtain ⟨t2, h2⟩ := dfs_complete root (f+1) name uses s2 hg hl (hon ▸ hp)
      rw [h1, h2]
      exact Sim.ok _ _
    · have m1 : ¬ s1.memo.contains name = true := by
        simp only [List.contains_iff_mem]; exact fun h => hgood (Or.inl h)
      have m2 : ¬ s2.memo.contains name = true := by
        simp only [List.contains_iff_mem]; exact fun h => hgood (Or.inr h)
      rw [dfs_succ, dfs_succ, ← hon, ← hrp]
      by_cases hc : s1.onPath.contains name = true
      · rw [if_pos hc, if_pos hc]
        exact Sim.err _ _ _
      · rw [if_neg hc, if_neg hc, if_neg m1, if_neg m2]
        have hm : name ∉ s1.onPath := by simpa using hc
        have hU := dfsUses_sim (all := all) root f (name :: s1.onPath)
          (fun c => PathOK all f (name :: s1.onPath) c)
          (fun c cu t1 t2 hc' hl' hag' ho' g1 g2 => ih c cu t1 t2 hl' hag' (ho' ▸ hc') g1 g2)
          name uses (push s1 name) (push s2 name) (fun u hu => hp.child hl hm hu)
          ⟨by simp [hpath], by simp [hon], by simpa using hrp⟩ rfl (by simp) (hs1.push name) (hs2.push name)
        cases h1 : dfsUses all (fun c cu st => dfs f all root c cu st) name uses (push s1 name) with
        | error p =>
          obtain ⟨e0, t1⟩ := p
          obtain ⟨t2, h2⟩ := hU.2 e0 t1 h1
          rw [h2]
          exact Sim.err _ _ _
        | ok t1 =>
          obtain ⟨t2, h2⟩ := hU.1 t1 h1
          rw [h2]
          exact Sim.ok _ _

/-! ### the driver loop over a visiting order -/

def step (all : Scripts) (res : Result) (name : Bytes) : Result :=
  match alookup name all with
  | some (.ok uses) =>
    (match dfs (all.length + 2) all name name uses { memo := res.accepted, bind := res.bind } with
     | .ok s => { res with accepted := s.memo, bind := s.bind }
     | .error (e, s) => { accepted := s.memo, errors := (name, e) :: res.errors, bind := s.bind })
  | _ => res

theorem link_eq (all : Scripts) (order : List Bytes) : link all order = order.foldl (step all) {} := rfl

/-- the root's search from the empty memo: the order-independent reference run -/
def canon (all : Scripts) (n : Bytes) (uses : List Use) : R := dfs (all.length + 2) all n n uses {}

def LInv (all : Scripts) (res : Result) : Prop :=
  MInv all res.accepted res.bind ∧
  ∀ n e, (n, e) ∈ res.errors → ∃ uses s', alookup n all = some (Status.ok uses) ∧ canon all n uses = .error (e, s')

def Mono (r r' : Result) : Prop :=
  r.accepted ⊆ r'.accepted ∧ r.errors ⊆ r'.errors ∧ r.bind ⊆ r'.bind

theorem Mono.refl (r : Result) : Mono r r := ⟨fun _ h => h, fun _ h => h, fun _ h => h⟩

theorem Mono.trans {a b c : Result} (h1 : Mono a b) (h2 : Mono b c) : Mono a c :=
  ⟨fun _ h => h2.1 (h1.1 h), fun _ h => h2.2.1 (h1.2.1 h), fun _ h => h2.2.2 (h1.2.2 h)⟩

theorem pathOK_root (all : Scripts) (n : Bytes) : PathOK all (all.length + 2) [] n :=
  ⟨List.nodup_nil, fun _ h => (by cases h), fun _ h => (by cases h), by simp⟩

theorem sinv_empty (all : Scripts) : SInv all ({} : St) :=
  ⟨fun _ h => (by cases h), fun _ h => (by cases h)⟩

theorem step_cases (res : Result) (n : Bytes) (uses : List Use) (hl : alookup n all = some (.ok uses)) :
    (∃ s, dfs (all.length + 2) all n n uses { memo := res.accepted, bind := res.bind } = .ok s ∧
      step all res n = { res with accepted := s.memo, bind := s.bind }) ∨
    (∃ e s, dfs (all.length + 2) all n n uses { memo := res.accepted, bind := res.bind } = .error (e, s) ∧
      step all res n = { accepted := s.memo, errors := (n, e) :: res.errors, bind := s.bind }) := by
  cases h : dfs (all.length + 2) all n n uses { memo := res.accepted, bind := res.bind } with
  | error p =>
    obtain ⟨e, s⟩ := p
    exact Or.inr ⟨e, s, rfl, by simp only [step, hl, h]⟩
  | ok s => exact Or.inl ⟨s, rfl, by simp only [step, hl, h]⟩

theorem step_skip (res : Result) (n : Bytes) (hl : ¬ ∃ uses, alookup n all = some (Status.ok uses)) :
    step all res n = res := by
  unfold step
  split
  · rename_i uses h; exact (hl ⟨uses, h⟩).elim
  · rfl

theorem step_sim {res : Result} (hres : LInv all res) (n : Bytes) (uses : List Use)
    (hl : alookup n all = some (.ok uses)) :
    Sim (dfs (all.length + 2) all n n uses { memo := res.accepted, bind := res.bind }) (canon all n uses) ∧
    Sim (canon all n uses) (dfs (all.length + 2) all n n uses { memo := res.accepted, bind := res.bind }) :=
  ⟨dfs_sim n _ n uses _ _ hl ⟨rfl, rfl, rfl⟩ (pathOK_root all n) hres.1 (sinv_empty all),
   dfs_sim n _ n uses _ _ hl ⟨rfl, rfl, rfl⟩ (pathOK_root all n) (sinv_empty all) hres.1⟩

theorem step_inv {res : Result} (hres : LInv all res) (n : Bytes) : LInv all (step all res n) := by
  by_cases hch : ∃ uses, alookup n all = some (Status.ok uses)
  · obtain ⟨uses, hl⟩ := hch
    have hs0 : SInv all { memo := res.accepted, bind := res.bind } := hres.1
    have hsound := dfs_sound (all := all) n (all.length + 2) n uses _ hl hs0
    rcases step_cases res n uses hl with ⟨s, h, heq⟩ | ⟨e, s, h, heq⟩
    · rw [heq]
      exact ⟨hsound.1 _ h, hres.2⟩
    · rw [heq]
      refine ⟨hsound.2 _ _ h, ?_⟩
      intro n' e' hm
      rcases List.mem_cons.1 hm with heq' | hm
      · cases heq'
        obtain ⟨s2, h2⟩ := (step_sim hres n uses hl).1.2 e s h
        exact ⟨uses, s2, hl, h2⟩
      · exact hres.2 n' e' hm
  · rw [step_skip res n hch]; exact hres

theorem step_mono (res : Result) (n : Bytes) : Mono res (step all res n) := by
  by_cases hch : ∃ uses, alookup n all = some (Status.ok uses)
  · obtain ⟨uses, hl⟩ := hch
    have hf := dfs_frame (all := all) n (all.length + 2) n uses { memo := res.accepted, bind := res.bind }
    rcases step_cases res n uses hl with ⟨s, h, heq⟩ | ⟨e, s, h, heq⟩
    · rw [heq]
      have := (hf.1 _ h).1
      exact ⟨this.memo, fun _ h => h, this.bind⟩
    · rw [heq]
      have := hf.2 _ _ h
      exact ⟨this.1, fun _ h => List.mem_cons_of_mem _ h, this.2⟩
  · rw [step_skip res n hch]; exact Mono.refl _

theorem step_good {res : Result} (_hres : LInv all res) {n : Bytes} (hg : GoodP all n) :
    n ∈ (step all res n).accepted := by
  obtain ⟨uses, hl⟩ := hg.checked
  obtain ⟨s, hs⟩ := dfs_complete (all := all) n (all.length + 2) n uses
    { memo := res.accepted, bind := res.bind } hg hl (pathOK_root all n)
  have hf := (dfs_frame (all := all) n (all.length + 2) n uses _).1 _ hs
  rcases step_cases res n uses hl with ⟨s', h, heq⟩ | ⟨e, s', h, _⟩
  · rw [hs] at h; cases h
    rw [heq]; exact hf.2
  · rw [hs] at h; cases h

theorem step_err {res : Result} (hres : LInv all res) {n : Bytes} {uses : List Use} {e : PlErr} {s' : St}
    (hl : alookup n all = some (.ok uses)) (hc : canon all n uses = .error (e, s')) :
    (n, e) ∈ (step all res n).errors := by
  obtain ⟨s2, h2⟩ := (step_sim hres n uses hl).2.2 e s' hc
  rcases step_cases res n uses hl with ⟨s, h, _⟩ | ⟨e', s, h, heq⟩
  · rw [h2] at h; cases h
  · rw [h2] at h; cases h
    rw [heq]; exact List.mem_cons_self ..

theorem linv_empty (all : Scripts) : LInv all ({} : Result) :=
  ⟨⟨fun _ h => (by cases h), fun _ h => (by cases h)⟩, fun _ _ h => (by cases h)⟩

theorem fold_inv : ∀ (order : List Bytes) (res : Result), LInv all res →
    LInv all (order.foldl (step all) res) := by
  intro order
  induction order with
  | nil => intro res h; exact h
  | cons a t ih => intro res h; exact ih _ (step_inv h a)

theorem fold_mono : ∀ (order : List Bytes) (res : Result), Mono res (order.foldl (step all) res) := by
  intro order
  induction order with
  | nil => intro res; exact Mono.refl _
  | cons a t ih => intro res; exact (step_mono res a).trans (ih _)

theorem fold_visit {n : Bytes} : ∀ (order : List Bytes) (res : Result), n ∈ order → LInv all res →
    ∃ r0, LInv all r0 ∧ Mono (step all r0 n) (order.foldl (step all) res) := by
  intro order
  induction order with
  | nil => intro res h; cases h
  | cons a t ih =>
    intro res hm hres
    by_cases hna : n = a
    · subst hna
      exact ⟨res, hres, fold_mono t _⟩
    · have : n ∈ t := by
        rcases List.mem_cons.1 hm with h | h
        · exact (hna h).elim
        · exact h
      exact ih _ this (step_inv hres a)

/-! ### the results, stated for `GoodP` -/

theorem link_inv (all : Scripts) (order : List Bytes) : LInv all (link all order) :=
  fold_inv order _ (linv_empty all)

theorem link_accept_iff (all : Scripts) (order : List Bytes)
    (hc : ∀ n, (∃ uses, alookup n all = some (Status.ok uses)) → n ∈ order) (n : Bytes) :
    n ∈ (link all order).accepted ↔ GoodP all n := by
  refine ⟨(link_inv all order).1.1 n, ?_⟩
  intro hg
  obtain ⟨r0, hr0, hmono⟩ := fold_visit (all := all) order {} (hc n hg.checked) (linv_empty all)
  exact hmono.1 (step_good hr0 hg)

/-- the error entries are exactly the errors of the reference runs: no dependence on the order -/
theorem link_errors_iff (all : Scripts) (order : List Bytes)
    (hc : ∀ n, (∃ uses, alookup n all = some (Status.ok uses)) → n ∈ order) (n : Bytes) (e : PlErr) :
    (n, e) ∈ (link all order).errors ↔
      ∃ uses s', alookup n all = some (Status.ok uses) ∧ canon all n uses = .error (e, s') := by
  refine ⟨(link_inv all order).2 n e, ?_⟩
  rintro ⟨uses, s', hl, hcan⟩
  obtain ⟨r0, hr0, hmono⟩ := fold_visit (all := all) order {} (hc n ⟨uses, hl⟩) (linv_empty all)
  exact hmono.2.1 (step_err hr0 hl hcan)

theorem canon_error_iff (all : Scripts) (n : Bytes) (uses : List Use) (hl : alookup n all = some (.ok uses)) :
    (∃ e s', canon all n uses = .error (e, s')) ↔ ¬ GoodP all n := by
  constructor
  · rintro ⟨e, s', h⟩ hg
    obtain ⟨s, hs⟩ := dfs_complete (all := all) n (all.length + 2) n uses {} hg hl (pathOK_root all n)
    unfold canon at h
    rw [hs] at h; cases h
  · intro hng
    cases h : canon all n uses with
    | error p => exact ⟨p.1, p.2, rfl⟩
    | ok s =>
      exfalso
      apply hng
      have hf := (dfs_frame (all := all) n (all.length + 2) n uses {}).1 s h
      have hs := (dfs_sound (all := all) n (all.length + 2) n uses {} hl (sinv_empty all)).1 s h
      exact hs.1 n hf.2

theorem link_rejected_iff (all : Scripts) (order : List Bytes)
    (hc : ∀ n, (∃ uses, alookup n all = some (Status.ok uses)) → n ∈ order) (n : Bytes)
    (hch : ∃ uses, alookup n all = some (Status.ok uses)) :
    (∃ e, (n, e) ∈ (link all order).errors) ↔ ¬ GoodP all n := by
  obtain ⟨uses, hl⟩ := hch
  rw [← canon_error_iff all n uses hl]
  constructor
  · rintro ⟨e, he⟩
    obtain ⟨uses', s', hl', hcan⟩ := (link_errors_iff all order hc n e).1 he
    rw [hl] at hl'; cases hl'
    exact ⟨e, s', hcan⟩
  · rintro ⟨e, s', hcan⟩
    exact ⟨e, (link_errors_iff all order hc n e).2 ⟨uses, s', hl, hcan⟩⟩

theorem link_bound (all : Scripts) (order : List Bytes)
    (hc : ∀ n, (∃ uses, alookup n all = some (Status.ok uses)) → n ∈ order) (n : Bytes) (uses : List Use)
    (hl : alookup n all = some (.ok uses)) (hg : GoodP all n) :
    ∀ u ∈ uses, (u.site, u.callee) ∈ (link all order).bind :=
  (link_inv all order).1.2 n ((link_accept_iff all order hc n).2 hg) uses hl

/-! ### string literals as byte lists (for the concrete examples) -/

theorem bytesOf_ofList_single (c : Char) (b : UInt8) (h : String.utf8EncodeChar c = [b]) :
    bytesOf (String.ofList [c]) = [b] := by
  show (String.ofList [c]).toByteArray.toList = [b]
  rw [String.toByteArray_ofList]
  simp only [List.utf8Encode, List.flatMap_cons, List.flatMap_nil, List.append_nil, h]
  unfold ByteArray.toList
  rw [ByteArray.toList.loop.eq_def]
  simp only [List.size_toByteArray, List.length_cons, List.length_nil, Nat.zero_add, Nat.lt_add_one, if_true]
  rw [ByteArray.toList.loop.eq_def]
  simp [ByteArray.get!, List.data_toByteArray]

theorem bytesOf_a : bytesOf "a" = [97] := bytesOf_ofList_single 'a' 97 (by decide)
theorem bytesOf_b : bytesOf "b" = [98] := bytesOf_ofList_single 'b' 98 (by decide)
theorem bytesOf_c : bytesOf "c" = [99] := bytesOf_ofList_single 'c' 99 (by decide)
theorem bytesOf_d : bytesOf "d" = [100] := bytesOf_ofList_single 'd' 100 (by decide)

end Platypus.Link
