import Platypus.Proofs.LexerBasic
import Platypus.Model.Unquote
/-!
Valid UTF-8 (C07): the shape of a correctly encoded rune, `decodeRune` on it, and
`encodeRune ∘ decodeRune = id` on it.
-/
namespace Platypus.Lit
open Platypus Platypus.Lex Platypus.Utf8 Platypus.Unq

/-- fuel-free form of `C07.ValidUtf8`: every decoding step yields the very bytes it consumed -/
inductive Valid : Bytes → Prop
  | nil : Valid []
  | cons (s enc : Bytes) (w : Nat) : s ≠ [] → decode s = some (enc, w) → enc = s.take w →
      Valid (s.drop w) → Valid s

theorem decode_valid_cases (b0 : UInt8) (rest enc : Bytes) (w : Nat)
    (h : decode (b0 :: rest) = some (enc, w)) (he : enc = (b0 :: rest).take w) :
    (b0.toNat < 0x80 ∧ w = 1) ∨
    (∃ b1 r, rest = b1 :: r ∧ w = 2 ∧ enc = [b0, b1] ∧ 0xC2 ≤ b0.toNat ∧ b0.toNat < 0xE0 ∧
      0x80 ≤ b1.toNat ∧ b1.toNat ≤ 0xBF) ∨
    (∃ b1 b2 r, rest = b1 :: b2 :: r ∧ w = 3 ∧ enc = [b0, b1, b2] ∧ 0xE0 ≤ b0.toNat ∧ b0.toNat < 0xF0 ∧
      0x80 ≤ b1.toNat ∧ b1.toNat ≤ 0xBF ∧ (b0.toNat = 0xE0 → 0xA0 ≤ b1.toNat) ∧
      (b0.toNat = 0xED → b1.toNat ≤ 0x9F) ∧ 0x80 ≤ b2.toNat ∧ b2.toNat ≤ 0xBF) ∨
    (∃ b1 b2 b3 r, rest = b1 :: b2 :: b3 :: r ∧ w = 4 ∧ enc = [b0, b1, b2, b3] ∧ 0xF0 ≤ b0.toNat ∧
      b0.toNat < 0xF5 ∧ 0x80 ≤ b1.toNat ∧ b1.toNat ≤ 0xBF ∧ (b0.toNat = 0xF0 → 0x90 ≤ b1.toNat) ∧
      (b0.toNat = 0xF4 → b1.toNat ≤ 0x8F) ∧ 0x80 ≤ b2.toNat ∧ b2.toNat ≤ 0xBF ∧
      0x80 ≤ b3.toNat ∧ b3.toNat ≤ 0xBF) := by
  simp only [decode] at h
  repeat' split at h
  all_goals simp only [Option.some.injEq, Prod.mk.injEq] at h
  all_goals obtain ⟨rfl, rfl⟩ := h
  all_goals simp_all [UInt8.lt_iff_toNat_lt, UInt8.le_iff_toNat_le, Utf8.runeError, isCont, ← UInt8.toNat_inj]
  all_goals first
    | omega
    | exact ⟨_, rfl, by omega⟩
    | exact ⟨_, _, ⟨rfl, rfl⟩, by omega⟩
    | exact ⟨_, _, _, ⟨rfl, rfl, rfl⟩, by omega⟩


theorem toUInt8_toNat (b : UInt8) (n : Nat) (h : n = b.toNat) : n.toUInt8 = b := by
  subst h; simp

/-- the rune at the head of a valid string -/
theorem rune_cases (u : Bytes) (hv : Valid u) : u = [] ∨
    (∃ c r, u = c :: r ∧ c.toNat < 0x80 ∧ decodeRune u = (c.toNat, 1) ∧ Valid r) ∨
    (∃ w, 2 ≤ w ∧ w ≤ 4 ∧ w ≤ u.length ∧ (decodeRune u).2 = w ∧ 0x80 ≤ (decodeRune u).1 ∧
      (decodeRune u).1 ≤ 0x10FFFF ∧ ¬ (0xD800 ≤ (decodeRune u).1 ∧ (decodeRune u).1 < 0xE000) ∧
      (∀ b ∈ u.take w, 0x80 ≤ b.toNat) ∧ encodeRune (decodeRune u).1 = u.take w ∧ Valid (u.drop w)) := by
  cases hv with
  | nil => exact Or.inl rfl
  | cons s enc w hne hd he hval =>
    right
    cases u with
    | nil => exact absurd rfl hne
    | cons b0 rest =>
    rcases decode_valid_cases b0 rest enc w hd he with ⟨h0, rfl⟩ |
      ⟨b1, r, rfl, rfl, rfl, h⟩ | ⟨b1, b2, r, rfl, rfl, rfl, h⟩ | ⟨b1, b2, b3, r, rfl, rfl, rfl, h⟩
    · left
      refine ⟨b0, rest, rfl, h0, ?_, by simpa using hval⟩
      simp [decodeRune, h0]
    · right
      have hdr : decodeRune (b0 :: b1 :: r) = ((b0.toNat % 32) * 64 + b1.toNat % 64, 2) := by
        simp only [decodeRune, hd]
        rw [if_neg (by omega)]
        simp
      refine ⟨2, by omega, by omega, by simp, by rw [hdr], ?_, ?_, ?_, ?_, ?_, by simpa using hval⟩
      · rw [hdr]; simp only; omega
      · rw [hdr]; simp only; omega
      · rw [hdr]; simp only; omega
      · simp; omega
      · rw [hdr]; simp only [encodeRune, List.take_succ_cons, List.take_zero]
        rw [if_neg (by omega), if_pos (by omega)]
        congr 1
        · apply toUInt8_toNat; omega
        · congr 1; apply toUInt8_toNat; omega
    · right
      have hdr : decodeRune (b0 :: b1 :: b2 :: r) =
          ((b0.toNat % 16) * 4096 + (b1.toNat % 64) * 64 + b2.toNat % 64, 3) := by
        simp only [decodeRune, hd]
        rw [if_neg (by omega)]
        simp
      refine ⟨3, by omega, by omega, by simp, by rw [hdr], ?_, ?_, ?_, ?_, ?_, by simpa using hval⟩
      · rw [hdr]; simp only; omega
      · rw [hdr]; simp only; omega
      · rw [hdr]; simp only; omega
      · simp; omega
      · rw [hdr]; simp only [encodeRune, List.take_succ_cons, List.take_zero]
        rw [if_neg (by omega), if_neg (by omega), if_neg (by simp; omega), if_pos (by omega)]
        congr 1
        · apply toUInt8_toNat; omega
        · congr 1
          · apply toUInt8_toNat; omega
          · congr 1; apply toUInt8_toNat; omega
    · right
      have hdr : decodeRune (b0 :: b1 :: b2 :: b3 :: r) =
          ((b0.toNat % 8) * 262144 + (b1.toNat % 64) * 4096 + (b2.toNat % 64) * 64 + b3.toNat % 64, 4) := by
        simp only [decodeRune, hd]
        rw [if_neg (by omega)]
        simp
      refine ⟨4, by omega, by omega, by simp, by rw [hdr], ?_, ?_, ?_, ?_, ?_, by simpa using hval⟩
      · rw [hdr]; simp only; omega
      · rw [hdr]; simp only; omega
      · rw [hdr]; simp only; omega
      · simp; omega
      · rw [hdr]; simp only [encodeRune, List.take_succ_cons, List.take_zero]
        rw [if_neg (by omega), if_neg (by omega), if_neg (by simp; omega), if_neg (by omega)]
        congr 1
        · apply toUInt8_toNat; omega
        · congr 1
          · apply toUInt8_toNat; omega
          · congr 1
            · apply toUInt8_toNat; omega
            · congr 1; apply toUInt8_toNat; omega


/-! ### validity of a prefix that ends at an ASCII byte -/

theorem decode_ascii (b0 : UInt8) (rest : Bytes) (h : b0.toNat < 0x80) : decode (b0 :: rest) = some ([b0], 1) := by
  simp [decode, UInt8.lt_iff_toNat_lt, h]

theorem decode_two (b0 b1 : UInt8) (r : Bytes) (h0 : 0xC2 ≤ b0.toNat) (h0' : b0.toNat < 0xE0)
    (h1 : 0x80 ≤ b1.toNat) (h1' : b1.toNat ≤ 0xBF) : decode (b0 :: b1 :: r) = some ([b0, b1], 2) := by
  simp only [decode, isCont, UInt8.lt_iff_toNat_lt, UInt8.le_iff_toNat_le]
  rw [if_neg (by simp; omega), if_neg (by simp; omega), if_pos (by simp; omega)]
  simp [h1, h1']

theorem decode_three (b0 b1 b2 : UInt8) (r : Bytes) (h0 : 0xE0 ≤ b0.toNat) (h0' : b0.toNat < 0xF0)
    (h1 : 0x80 ≤ b1.toNat) (h1' : b1.toNat ≤ 0xBF) (hlo : b0.toNat = 0xE0 → 0xA0 ≤ b1.toNat)
    (hhi : b0.toNat = 0xED → b1.toNat ≤ 0x9F) (h2 : 0x80 ≤ b2.toNat) (h2' : b2.toNat ≤ 0xBF) :
    decode (b0 :: b1 :: b2 :: r) = some ([b0, b1, b2], 3) := by
  simp only [decode, isCont, UInt8.lt_iff_toNat_lt, UInt8.le_iff_toNat_le]
  rw [if_neg (by simp; omega), if_neg (by simp; omega), if_neg (by simp; omega), if_pos (by simp; omega)]
  rw [if_pos]
  simp only [Bool.and_eq_true, decide_eq_true_eq]
  refine ⟨⟨?_, ?_⟩, h2, h2'⟩
  · split
    · rename_i h; have := hlo (by rw [beq_iff_eq] at h; rw [h]; rfl); simpa using this
    · simpa using h1
  · split
    · rename_i h; have := hhi (by rw [beq_iff_eq] at h; rw [h]; rfl); simpa using this
    · simpa using h1'

theorem decode_four (b0 b1 b2 b3 : UInt8) (r : Bytes) (h0 : 0xF0 ≤ b0.toNat) (h0' : b0.toNat < 0xF5)
    (h1 : 0x80 ≤ b1.toNat) (h1' : b1.toNat ≤ 0xBF) (hlo : b0.toNat = 0xF0 → 0x90 ≤ b1.toNat)
    (hhi : b0.toNat = 0xF4 → b1.toNat ≤ 0x8F) (h2 : 0x80 ≤ b2.toNat) (h2' : b2.toNat ≤ 0xBF)
    (h3 : 0x80 ≤ b3.toNat) (h3' : b3.toNat ≤ 0xBF) :
    decode (b0 :: b1 :: b2 :: b3 :: r) = some ([b0, b1, b2, b3], 4) := by
  simp only [decode, isCont, UInt8.lt_iff_toNat_lt, UInt8.le_iff_toNat_le]
  rw [if_neg (by simp; omega), if_neg (by simp; omega), if_neg (by simp; omega), if_neg (by simp; omega),
    if_pos (by simp; omega)]
  rw [if_pos]
  simp only [Bool.and_eq_true, decide_eq_true_eq]
  refine ⟨⟨⟨?_, ?_⟩, h2, h2'⟩, h3, h3'⟩
  · split
    · rename_i h; have := hlo (by rw [beq_iff_eq] at h; rw [h]; rfl); simpa using this
    · simpa using h1
  · split
    · rename_i h; have := hhi (by rw [beq_iff_eq] at h; rw [h]; rfl); simpa using this
    · simpa using h1'

theorem append_cons_split {b t r : Bytes} {c x : UInt8} (h : b ++ c :: t = x :: r) :
    (b = [] ∧ x = c ∧ r = t) ∨ (∃ b', b = x :: b' ∧ r = b' ++ c :: t) := by
  cases b with
  | nil => simp at h; exact Or.inl ⟨rfl, h.1.symm, h.2.symm⟩
  | cons y b' => simp at h; exact Or.inr ⟨b', by rw [h.1], h.2.symm⟩

theorem valid_prefix (c : UInt8) (t : Bytes) (hc : c.toNat < 0x80) : ∀ (n : Nat) (b : Bytes), b.length = n →
    Valid (b ++ c :: t) → Valid b := by
  intro n
  induction n using Nat.strongRecOn with
  | _ n ih =>
    intro b hn hv
    cases b with
    | nil => exact Valid.nil
    | cons a b' =>
      cases hv with
      | cons s enc w hne hd he hval =>
      rcases decode_valid_cases a (b' ++ c :: t) enc w hd he with ⟨h0, rfl⟩ |
        ⟨b1, r, hr, rfl, rfl, h⟩ | ⟨b1, b2, r, hr, rfl, rfl, h⟩ | ⟨b1, b2, b3, r, hr, rfl, rfl, h⟩
      · exact Valid.cons _ [a] 1 (by simp) (decode_ascii a b' h0) rfl
          (ih b'.length (by simp at hn; omega) b' rfl (by simpa using hval))
      · rcases append_cons_split hr with ⟨_, h1, _⟩ | ⟨b'', rfl, rfl⟩
        · subst h1; omega
        · exact Valid.cons _ [a, b1] 2 (by simp) (decode_two a b1 b'' h.1 h.2.1 h.2.2.1 h.2.2.2) rfl
            (ih b''.length (by simp at hn; omega) b'' rfl (by simpa using hval))
      · rcases append_cons_split hr with ⟨_, h1, _⟩ | ⟨b'', rfl, hr2⟩
        · subst h1; omega
        rcases append_cons_split hr2.symm with ⟨_, h1, _⟩ | ⟨b3', rfl, rfl⟩
        · subst h1; omega
        · obtain ⟨g1, g2, g3, g4, g5, g6, g7, g8⟩ := h
          exact Valid.cons _ [a, b1, b2] 3 (by simp) (decode_three a b1 b2 b3' g1 g2 g3 g4 g5 g6 g7 g8) rfl
            (ih b3'.length (by simp at hn; omega) b3' rfl (by simpa using hval))
      · rcases append_cons_split hr with ⟨_, h1, _⟩ | ⟨b'', rfl, hr2⟩
        · subst h1; omega
        rcases append_cons_split hr2.symm with ⟨_, h1, _⟩ | ⟨b3', rfl, hr3⟩
        · subst h1; omega
        rcases append_cons_split hr3.symm with ⟨_, h1, _⟩ | ⟨b4', rfl, rfl⟩
        · subst h1; omega
        · obtain ⟨g1, g2, g3, g4, g5, g6, g7, g8, g9, g10⟩ := h
          exact Valid.cons _ [a, b1, b2, b3] 4 (by simp)
            (decode_four a b1 b2 b3 b4' g1 g2 g3 g4 g5 g6 g7 g8 g9 g10) rfl
            (ih b4'.length (by simp at hn; omega) b4' rfl (by simpa using hval))

theorem valid_drop_ascii (c : UInt8) (r : Bytes) (hc : c.toNat < 0x80) (hv : Valid (c :: r)) : Valid r := by
  rcases rune_cases (c :: r) hv with h | ⟨c', r', h, _, _, hr⟩ | ⟨w, h1, _, _, _, _, _, _, hb, _⟩
  · cases h
  · injection h with h1 h2; subst h2; exact hr
  · exfalso
    have := hb c (by
      obtain ⟨w', rfl⟩ := Nat.exists_eq_succ_of_ne_zero (by omega : w ≠ 0)
      simp)
    omega

theorem valid_cons_ascii (c : UInt8) (r : Bytes) (hc : c.toNat < 0x80) (hv : Valid r) : Valid (c :: r) :=
  Valid.cons _ [c] 1 (by simp) (decode_ascii c r hc) rfl (by simpa using hv)


/-- the width of a rune is determined by its lead byte -/
def leadWidth (c : UInt8) : Nat :=
  if c.toNat < 0x80 then 1 else if c.toNat < 0xE0 then 2 else if c.toNat < 0xF0 then 3 else 4

theorem width_by_lead (c : UInt8) (r : Bytes) (hv : Valid (c :: r)) : (decodeRune (c :: r)).2 = leadWidth c := by
  cases hv with
  | cons s enc w hne hd he hval =>
    rcases decode_valid_cases c r enc w hd he with ⟨h0, rfl⟩ |
      ⟨b1, r', rfl, rfl, rfl, h⟩ | ⟨b1, b2, r', rfl, rfl, rfl, h⟩ | ⟨b1, b2, b3, r', rfl, rfl, rfl, h⟩
    · simp [decodeRune, h0, leadWidth]
    · simp only [decodeRune, hd]
      rw [if_neg (by omega)]
      simp only [leadWidth]
      rw [if_neg (by omega)]
      (repeat' split) <;> simp <;> omega
    · simp only [decodeRune, hd]
      rw [if_neg (by omega)]
      simp only [leadWidth]
      rw [if_neg (by omega)]
      (repeat' split) <;> simp <;> omega
    · simp only [decodeRune, hd]
      rw [if_neg (by omega)]
      simp only [leadWidth]
      rw [if_neg (by omega)]
      (repeat' split) <;> simp <;> omega

theorem valid_drop_asciis : ∀ (k : Nat) (u : Bytes), k ≤ u.length → (∀ c ∈ u.take k, c.toNat < 0x80) →
    Valid u → Valid (u.drop k)
  | 0, u, _, _, hv => by simpa using hv
  | k+1, [], h, _, _ => by simp at h
  | k+1, c :: r, h, hc, hv => by
    have hvr := valid_drop_ascii c r (hc c (by simp)) hv
    simpa using valid_drop_asciis k r (by simpa using h) (fun x hx => hc x (by simp [hx])) hvr

end Platypus.Lit
