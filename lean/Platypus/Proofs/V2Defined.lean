import Platypus.Proofs.V2Expr
/-!
One-sided fact about the v2 expression evaluator: when every name occurring in an expression is a
variable of the current scopes, evaluation never reports "name-not-defined" (and does not change
the scopes).  With `expr_agree` this removes the undefined-name alternative.
-/
set_option linter.unusedSimpArgs false
namespace Platypus.V2Agree
open Platypus Platypus.V2 Platypus.MachineProofs

/-- every identifier occurring in the (shared-shaped) expression is a variable of the scopes `sc` -/
inductive DefinedE (sc : Scopes) : Node → Prop
  | intLit (v p) : DefinedE sc (.intLit v p)
  | floatLit (v p) : DefinedE sc (.floatLit v p)
  | boolLit (v p) : DefinedE sc (.boolLit v p)
  | strLit (v p) : DefinedE sc (.strLit v p)
  | nilLit (p) : DefinedE sc (.nilLit p)
  | ident {name} (p) : scopeGet sc name ≠ none → DefinedE sc (.ident name p)
  | paren {e} (lp rp) : DefinedE sc e → DefinedE sc (.paren e lp rp)
  | unary {e} (op p) : DefinedE sc e → DefinedE sc (.unary op e p)
  | arith {l r} (op p) : DefinedE sc l → DefinedE sc r → DefinedE sc (.arith op l r p)
  | cond {l r} (op p) : DefinedE sc l → DefinedE sc r → DefinedE sc (.cond op l r p)
  | inE {l r} (p) : DefinedE sc l → DefinedE sc r → DefinedE sc (.inE l r p)
  | list {xs} (lb rb) : (∀ x, x ∈ xs → DefinedE sc x) → DefinedE sc (.list xs lb rb)
  | map {kvs : List (Node × Node)} (lb rb) : (∀ kv, kv ∈ kvs → DefinedE sc kv.1) → (∀ kv, kv ∈ kvs → DefinedE sc kv.2) →
      DefinedE sc (.map kvs lb rb)
  | index {name idx} (p lbs rbs) : scopeGet sc name ≠ none → (∀ x, x ∈ idx → DefinedE sc x) →
      DefinedE sc (.index (some (name, p)) idx lbs rbs)
  | slice {obj st en sp} (c2 lb rb) : DefinedE sc obj →
      (∀ e, st = some e → DefinedE sc e) → (∀ e, en = some e → DefinedE sc e) → (∀ e, sp = some e → DefinedE sc e) →
      DefinedE sc (.slice obj st en sp c2 lb rb)
  | call {name args} (np lp rp site) : (∀ x, x ∈ args → DefinedE sc x) → DefinedE sc (.call name args np lp rp site)

/-- result of a v2 expression step from scopes `sc`: scopes kept, no undefined-name error -/
def Fr {α} (sc : Scopes) (Q : α → Prop) : Res α → Prop
  | .ok a s' => s'.task.scopes = sc ∧ Q a
  | .err e _ => e.msg ≠ undefMsg
  | _ => True

def Tf {α} (sc : Scopes) (m : EM α) (Q : α → Prop) : Prop := ∀ s, s.task.scopes = sc → Fr sc Q (m s)

variable {sc : Scopes} {α β : Type}

theorem Tf.bind {m : EM α} {k : α → EM β} {Q : α → Prop} {Q' : β → Prop} (hm : Tf sc m Q)
    (hk : ∀ a, Q a → Tf sc (k a) Q') : Tf sc (m >>= k) Q' := by
  intro s hs
  rw [bind_apply]
  have h := hm s hs
  cases hr : m s with
  | ok a s' => rw [hr] at h; exact hk a h.2 s' h.1
  | err e s' => rw [hr] at h; exact h
  | panic m => trivial
  | fuel => trivial
  | need q => trivial

theorem Tf.mono {m : EM α} {Q Q' : α → Prop} (hm : Tf sc m Q) (h : ∀ a, Q a → Q' a) : Tf sc m Q' := by
  intro s hs
  have := hm s hs
  cases hr : m s <;> rw [hr] at this <;> first | exact ⟨this.1, h _ this.2⟩ | exact this

theorem Tf.ret {Q : α → Prop} {a : α} (h : Q a) : Tf sc (Pure.pure a) Q := fun _ hs => ⟨hs, h⟩
theorem Tf.out_fuel {Q : α → Prop} : Tf sc (outOfFuel : EM α) Q := fun _ _ => trivial
theorem Tf.panic_e {Q : α → Prop} (m : String) : Tf sc (Platypus.panicE m : EM α) Q := fun _ _ => trivial
theorem Tf.run_err {Q : α → Prop} (p : Pos) (m : String) (hm : m ≠ undefMsg) : Tf sc (Platypus.runErr p m : EM α) Q :=
  fun _ _ => hm
theorem Tf.get_s {k : St → EM β} {Q : β → Prop} (h : ∀ s, s.task.scopes = sc → Tf sc (k s) Q) :
    Tf sc (getS >>= k) Q := by
  intro s hs; rw [bind_apply]; exact h s hs s hs
theorem Tf.ret_set {Q : Unit → Prop} (vs : List TV) (h : Q ()) : Tf sc (retSet vs) Q := fun _ hs => ⟨hs, h⟩
theorem Tf.mod_world {Q : Unit → Prop} (g : World → World) (h : Q ()) : Tf sc (modWorld g) Q := fun _ hs => ⟨hs, h⟩
theorem Tf.get_ret {Q : TV → Prop} (p : Pos) (h : ∀ a, Q a) : Tf sc (getRet p) Q := by
  intro s hs
  unfold getRet
  split
  · exact ⟨hs, h _⟩
  · show "no-return-value" ≠ undefMsg; decide
  · show "multiple-return-values" ≠ undefMsg; decide

theorem unop_msg {h : Heap} {op : UOp} {x : TV} {m : String} (hr : unop h op x = .error m) : m ≠ undefMsg := by
  unfold unop at hr
  repeat' split at hr
  all_goals first
    | (cases hr; decide)
    | simp at hr

theorem arithOpInt_msg {l r : Int} {op : AOp} {m : String} (h : arithOpInt l r op = .error m) : m ≠ undefMsg := by
  unfold arithOpInt at h
  repeat' split at h
  all_goals first
    | (cases h; decide)
    | simp at h

theorem arithOpFloat_msg {l r : UInt64} {op : AOp} {m : String} (h : arithOpFloat l r op = .error m) : m ≠ undefMsg := by
  unfold arithOpFloat at h
  repeat' split at h
  all_goals first
    | (cases h; decide)
    | simp at h

theorem arith_msg {op : AOp} {l r : TV} {m : String} (hv : arith op l r = .error m) : m ≠ undefMsg := by
  unfold arith at hv
  repeat' split at hv
  all_goals first
    | (cases hv; decide)
    | (cases hv; exact arithOpInt_msg ‹_›)
    | (cases hv; exact arithOpFloat_msg ‹_›)
    | simp at hv

theorem condOp_msg {h : Heap} {op : COp} {l r : TV} {m : String} (hv : condOp h op l r = .error m) : m ≠ undefMsg := by
  unfold condOp at hv
  repeat' split at hv
  all_goals first
    | (cases hv; decide)
    | simp at hv

theorem inOp_msg {h : Heap} {l r : TV} {m : String} (hv : inOp h l r = .error m) : m ≠ undefMsg := by
  unfold inOp at hv
  repeat' split at hv
  all_goals first
    | (cases hv; decide)
    | simp at hv

def TT {α} : α → Prop := fun _ => True

/-- the contracts of the v2 expression functions at fuel `g` -/
structure IHd (env : Env) (sc : Scopes) (g : Nat) : Prop where
  expr : ∀ e, DefinedE sc e → Tf sc (runExpr env g e) TT
  value : ∀ e, DefinedE sc e → Tf sc (valueOf env g e) TT
  values : ∀ xs, (∀ x, x ∈ xs → DefinedE sc x) → Tf sc (valuesOf env g xs) TT
  mapLit : ∀ (kvs : List (Node × Node)) acc, (∀ kv, kv ∈ kvs → DefinedE sc kv.1) → (∀ kv, kv ∈ kvs → DefinedE sc kv.2) →
    Tf sc (mapLit env g kvs acc) TT
  search : ∀ cur idx, (∀ x, x ∈ idx → DefinedE sc x) → Tf sc (searchLM2 env g cur idx) TT
  slice : ∀ obj st en sp, DefinedE sc obj → (∀ e, st = some e → DefinedE sc e) → (∀ e, en = some e → DefinedE sc e) →
    (∀ e, sp = some e → DefinedE sc e) → Tf sc (slice2 env g obj st en sp) TT
  call : ∀ name args np, (∀ x, x ∈ args → DefinedE sc x) → Tf sc (call2 env g name args np) TT

section
variable {env : Env} {sc : Scopes} {g : Nat}

theorem runExpr_stepD (ih : IHd env sc g) (e : Node) (he : DefinedE sc e) : Tf sc (runExpr env (g+1) e) TT := by
  cases he
  case intLit v p => simp only [runExpr]; exact Tf.ret_set _ trivial
  case floatLit v p => simp only [runExpr]; exact Tf.ret_set _ trivial
  case boolLit v p => simp only [runExpr]; exact Tf.ret_set _ trivial
  case strLit v p => simp only [runExpr]; exact Tf.ret_set _ trivial
  case nilLit p => simp only [runExpr]; exact Tf.ret_set _ trivial
  case ident name p hn =>
    simp only [runExpr]
    refine Tf.get_s fun s hs => ?_
    unfold getVar
    rw [hs]
    cases hv : scopeGet sc name with
    | none => exact absurd hv hn
    | some v => exact Tf.ret_set _ trivial
  case paren e lp rp he => simp only [runExpr]; exact ih.expr e he
  case unary e op p he =>
    simp only [runExpr]
    refine Tf.bind (ih.value e he) fun v _ => ?_
    refine Tf.get_s fun s hs => ?_
    cases hr : unop s.world.heap op v with
    | ok r => exact Tf.ret_set _ trivial
    | error m => exact Tf.run_err _ _ (unop_msg hr)
  case arith l r op p hl hr =>
    simp only [runExpr]
    refine Tf.bind (ih.value l hl) fun a _ => ?_
    refine Tf.bind (ih.value r hr) fun b _ => ?_
    cases hv : arith op a b with
    | ok v => exact Tf.ret_set _ trivial
    | error m => exact Tf.run_err _ _ (arith_msg hv)
  case cond l r op p hl hr =>
    simp only [runExpr]
    refine Tf.bind (ih.value l hl) fun a _ => ?_
    split
    · exact Tf.ret_set _ trivial
    split
    · exact Tf.ret_set _ trivial
    refine Tf.bind (ih.value r hr) fun b _ => ?_
    refine Tf.get_s fun s hs => ?_
    cases hv : condOp s.world.heap op a b with
    | ok v => exact Tf.ret_set _ trivial
    | error m => exact Tf.run_err _ _ (condOp_msg hv)
  case inE l r p hl hr =>
    simp only [runExpr]
    refine Tf.bind (ih.value l hl) fun a _ => ?_
    refine Tf.bind (ih.expr r hr) fun _ _ => ?_
    refine Tf.bind (Q := TT) (Tf.get_ret _ fun _ => trivial) fun b _ => ?_
    refine Tf.get_s fun s hs => ?_
    cases hv : inOp s.world.heap a b with
    | ok v => exact Tf.ret_set _ trivial
    | error m => exact Tf.run_err _ _ (inOp_msg hv)
  case list xs lb rb hxs =>
    simp only [runExpr]
    refine Tf.bind (ih.values xs hxs) fun vs _ => ?_
    refine Tf.get_s fun s hs => ?_
    simp only [Heap.alloc]
    refine Tf.bind (Q := TT) (Tf.mod_world _ trivial) fun _ _ => ?_
    exact Tf.ret_set _ trivial
  case map kvs lb rb hk hv =>
    simp only [runExpr]
    refine Tf.bind (ih.mapLit kvs [] hk hv) fun vs _ => ?_
    refine Tf.get_s fun s hs => ?_
    simp only [Heap.alloc]
    refine Tf.bind (Q := TT) (Tf.mod_world _ trivial) fun _ _ => ?_
    exact Tf.ret_set _ trivial
  case index name idx p lbs rbs hn hidx =>
    simp only [runExpr]
    refine Tf.get_s fun s hs => ?_
    unfold getVar
    rw [hs]
    cases hv : scopeGet sc name with
    | none => exact absurd hv hn
    | some v =>
      have key : ∀ a, Tf sc (do let r ← searchLM2 env g (Val.ref a) idx
                                match r with
                                  | some x => retSet [x]
                                  | none => pure ()) TT := by
        intro a
        refine Tf.bind (ih.search _ idx hidx) fun r _ => ?_
        cases r with
        | none => exact Tf.ret trivial
        | some x => exact Tf.ret_set _ trivial
      simp only []
      repeat' split
      all_goals first
        | exact key _
        | exact Tf.run_err _ _ (by decide)
  case slice obj st en sp c2 lb rb h1 h2 h3 h4 =>
    simp only [runExpr]
    exact ih.slice obj st en sp h1 h2 h3 h4
  case call name args np lp rp site hargs =>
    simp only [runExpr]
    refine Tf.bind (Q := TT) (Tf.ret_set _ trivial) fun _ _ => ?_
    split
    · exact Tf.ret trivial
    · exact ih.call name args np hargs
end

section
variable {env : Env} {sc : Scopes} {g : Nat}

theorem valueOf_stepD (ih : IHd env sc g) (e : Node) (he : DefinedE sc e) : Tf sc (valueOf env (g+1) e) TT := by
  simp only [valueOf]
  refine Tf.bind (ih.expr e he) fun _ _ => ?_
  exact Tf.get_ret _ fun _ => trivial

theorem valuesOf_stepD (ih : IHd env sc g) (xs : List Node) (hxs : ∀ x, x ∈ xs → DefinedE sc x) :
    Tf sc (valuesOf env (g+1) xs) TT := by
  cases xs with
  | nil => simp only [valuesOf]; exact Tf.ret trivial
  | cons x r =>
    simp only [valuesOf]
    refine Tf.bind (ih.value x (hxs x List.mem_cons_self)) fun v _ => ?_
    refine Tf.bind (ih.values r fun y hy => hxs y (List.mem_cons_of_mem _ hy)) fun vs _ => ?_
    exact Tf.ret trivial

theorem mapLit_stepD (ih : IHd env sc g) (kvs : List (Node × Node)) (acc : List (Bytes × Val))
    (hk : ∀ kv, kv ∈ kvs → DefinedE sc kv.1) (hv : ∀ kv, kv ∈ kvs → DefinedE sc kv.2) :
    Tf sc (mapLit env (g+1) kvs acc) TT := by
  cases kvs with
  | nil => simp only [mapLit]; exact Tf.ret trivial
  | cons kv r =>
    obtain ⟨k, v⟩ := kv
    simp only [mapLit]
    refine Tf.bind (ih.value k (hk _ List.mem_cons_self)) fun a _ => ?_
    split
    · refine Tf.bind (ih.value v (hv _ List.mem_cons_self)) fun b _ => ?_
      split
      all_goals first
        | exact ih.mapLit r _ (fun y hy => hk y (List.mem_cons_of_mem _ hy)) (fun y hy => hv y (List.mem_cons_of_mem _ hy))
        | exact Tf.run_err _ _ (by decide)
    · exact Tf.run_err _ _ (by decide)

theorem searchLM2_stepD (ih : IHd env sc g) (cur : Val) (idx : List Node) (hidx : ∀ x, x ∈ idx → DefinedE sc x) :
    Tf sc (searchLM2 env (g+1) cur idx) TT := by
  cases idx with
  | nil =>
    simp only [searchLM2]
    refine Tf.get_s fun s hs => ?_
    exact Tf.ret trivial
  | cons i r =>
    have hr : ∀ x, x ∈ r → DefinedE sc x := fun y hy => hidx y (List.mem_cons_of_mem _ hy)
    simp only [searchLM2]
    refine Tf.bind (ih.value i (hidx _ List.mem_cons_self)) fun k _ => ?_
    refine Tf.get_s fun s hs => ?_
    repeat' split
    all_goals first
      | exact ih.search _ r hr
      | exact Tf.run_err _ _ (by decide)
      | exact Tf.ret trivial
      | exact Tf.panic_e _

theorem optValueD (ih : IHd env sc g) (st : Option Node) (h1 : ∀ e, st = some e → DefinedE sc e) :
    Tf sc (match (generalizing := false) st with | some e => some <$> valueOf env g e | none => pure none) TT := by
  cases st with
  | none => exact Tf.ret trivial
  | some e =>
    simp only []
    intro s hs
    rw [map_apply']
    have h := ih.value e (h1 e rfl) s hs
    cases hr : valueOf env g e s with
    | ok a s' => rw [hr] at h; exact ⟨h.1, trivial⟩
    | err er s' => rw [hr] at h; exact h
    | panic m => trivial
    | fuel => trivial
    | need q => trivial

theorem boundD (x : Option TV) (p : Pos) (what : String) (hw : what ++ "-not-int" ≠ undefMsg) :
    Tf sc (match (generalizing := false) x with
        | none => (pure none : EM (Option Int))
        | some tv =>
          if tv.t = .invalid || tv.t = .nil then pure none
          else if tv.t ≠ DType.int then runErr p (what ++ "-not-int") else pure (some tv.v.toI64)) TT := by
  cases x with
  | none => exact Tf.ret trivial
  | some tv =>
    simp only []
    repeat' split
    all_goals first
      | exact Tf.ret trivial
      | exact Tf.run_err _ _ hw

theorem slice2_stepD (ih : IHd env sc g) (obj : Node) (st en sp : Option Node) (ho : DefinedE sc obj)
    (h1 : ∀ e, st = some e → DefinedE sc e) (h2 : ∀ e, en = some e → DefinedE sc e)
    (h3 : ∀ e, sp = some e → DefinedE sc e) : Tf sc (slice2 env (g+1) obj st en sp) TT := by
  simp only [slice2]
  refine Tf.bind (ih.value obj ho) fun o _ => ?_
  refine Tf.bind (optValueD ih st h1) fun sv _ => ?_
  refine Tf.bind (optValueD ih en h2) fun ev _ => ?_
  refine Tf.bind (optValueD ih sp h3) fun pv _ => ?_
  refine Tf.get_s fun s hs => ?_
  split
  · exact Tf.run_err _ _ (by decide)
  · exact Tf.panic_e _
  split
  · exact Tf.out_fuel
  refine Tf.bind (boundD pv _ "step" (by decide)) fun stepI _ => ?_
  split
  · exact Tf.run_err _ _ (by decide)
  refine Tf.bind (boundD sv _ "start" (by decide)) fun startI _ => ?_
  refine Tf.bind (boundD ev _ "end" (by decide)) fun endI _ => ?_
  repeat' split
  all_goals first
    | exact Tf.ret_set _ trivial
    | exact Tf.panic_e _
    | (refine Tf.bind (Q := TT) (Tf.mod_world _ trivial) fun _ _ => ?_
       exact Tf.ret_set _ trivial)

theorem call2_stepD (ih : IHd env sc g) (name : Bytes) (args : List Node) (np : Pos)
    (hargs : ∀ x, x ∈ args → DefinedE sc x) : Tf sc (call2 env (g+1) name args np) TT := by
  simp only [call2]
  refine Tf.bind (ih.values args hargs) fun vs _ => ?_
  refine Tf.get_s fun s hs => ?_
  split
  · refine Tf.bind (Q := TT) (Tf.mod_world _ trivial) fun _ _ => ?_
    repeat' split
    all_goals exact Tf.ret_set _ trivial
  · repeat' split
    all_goals exact Tf.ret_set _ trivial

theorem ihd_all (env : Env) (sc : Scopes) : ∀ g, IHd env sc g := by
  intro g
  induction g with
  | zero =>
    refine ⟨?_, ?_, ?_, ?_, ?_, ?_, ?_⟩
    · intro e _; rw [runExpr]; exact Tf.out_fuel
    · intro e _; rw [valueOf]; exact Tf.out_fuel
    · intro xs _; rw [valuesOf]; exact Tf.out_fuel
    · intro kvs acc _ _; rw [mapLit]; exact Tf.out_fuel
    · intro cur idx _; rw [searchLM2]; exact Tf.out_fuel
    · intro obj st en sp _ _ _ _; rw [slice2]; exact Tf.out_fuel
    · intro name args np _; rw [call2]; exact Tf.out_fuel
  | succ g ih =>
    exact ⟨runExpr_stepD ih, valueOf_stepD ih, valuesOf_stepD ih, mapLit_stepD ih, searchLM2_stepD ih,
      slice2_stepD ih, call2_stepD ih⟩

/-- **no undefined-name error** when all names are defined -/
theorem valueOf_defined (g : Nat) (e : Node) (s : St) (he : DefinedE s.task.scopes e) :
    ∀ er s', valueOf env g e s = .err er s' → er.msg ≠ undefMsg := by
  intro er s' h
  have := (ihd_all env s.task.scopes g).value e he s rfl
  rw [h] at this
  exact this
end

end Platypus.V2Agree
