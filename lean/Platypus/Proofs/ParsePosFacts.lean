import Platypus.Proofs.ParsePosFactsBase
/-!
# C17 (tree part) helper, part 4: every function of the position-carrying parser keeps the invariant

`Inv f`: at fuel `f`, for every function: the leftover item list is a suffix of the input, and if the
input is a suffix of `ts0` and the tree arguments are `AllOk ts0`, so are the returned trees (closing
brackets returned on the side are offsets of items of the function's own input).  Induction on the
fuel, one step lemma per function.
-/
set_option linter.unusedSimpArgs false
set_option linter.unusedVariables false
namespace Platypus.ParsePos
open Platypus.Lex (Tok Item)
open Platypus.Parse

theorem In.head {ts0 : List Item} {i : Item} {rest : List Item} (hs : (i :: rest) <:+ ts0) :
    In ts0 i.pos i.typ := ⟨i, hs.subset List.mem_cons_self, rfl, rfl⟩

theorem In.headK {ts0 : List Item} {i : Item} {rest : List Item} {k : Tok} (hs : (i :: rest) <:+ ts0)
    (hk : i.typ = k) : In ts0 i.pos k := hk ▸ In.head hs

structure Inv (f : Nat) : Prop where
  expr : ∀ ts0 mp ts t r, ts <:+ ts0 → parsePosExpr f mp ts = some (t, r) → r <:+ ts ∧ AllOk ts0 t
  binRest : ∀ ts0 mp l ts t r, ts <:+ ts0 → AllOk ts0 l → parsePosBinRest f mp l ts = some (t, r) →
    r <:+ ts ∧ AllOk ts0 t
  unary : ∀ ts0 ts t r, ts <:+ ts0 → parsePosUnary f ts = some (t, r) → r <:+ ts ∧ AllOk ts0 t
  primary : ∀ ts0 ts t r, ts <:+ ts0 → parsePosPrimary f ts = some (t, r) → r <:+ ts ∧ AllOk ts0 t
  afterIdent : ∀ ts0 q v p r t r', r <:+ ts0 → In ts0 p (identTok q) →
    (Sorted ts0 → ∀ k, In r (hp r) k → p < hp r) →
    parsePosAfterIdent f q v p r = some (t, r') → r' <:+ r ∧ AllOk ts0 t
  indexChain : ∀ ts0 acc lbs rbs ts res r, ts <:+ ts0 → AllOkL ts0 acc → IdxOk ts0 acc lbs rbs →
    parsePosIndexChain f acc lbs rbs ts = some (res, r) →
    r <:+ ts ∧ AllOkL ts0 res.1 ∧ IdxOk ts0 res.1 res.2.1 res.2.2
  attrChain : ∀ ts0 obj ts t r, ts <:+ ts0 → AllOk ts0 obj → parsePosAttrChain f obj ts = some (t, r) →
    r <:+ ts ∧ AllOk ts0 t
  attrY : ∀ ts0 ts t r, ts <:+ ts0 → parsePosAttrY f ts = some (t, r) → r <:+ ts ∧ AllOk ts0 t
  attrYIdx : ∀ ts0 nm r t r', r <:+ ts0 → (∀ o, nm = some o → In ts0 o.2.2 (identTok o.1)) →
    parsePosAttrYIdx f nm r = some (t, r') → r' <:+ r ∧ AllOk ts0 t
  sliceChain : ∀ ts0 obj ts t r, ts <:+ ts0 → AllOk ts0 obj → parsePosSliceChain f obj ts = some (t, r) →
    r <:+ ts ∧ AllOk ts0 t
  sliceBody : ∀ ts0 st ts res r, ts <:+ ts0 → AllOkO ts0 st → parsePosSliceBody f st ts = some (res, r) →
    r <:+ ts ∧ AllOkO ts0 res.1 ∧ AllOkO ts0 res.2.1 ∧ AllOkO ts0 res.2.2.1 ∧ In ts res.2.2.2.2 .RIGHT_BRACKET
  args : ∀ ts0 acc ts res r, ts <:+ ts0 → AllOkL ts0 acc → parsePosArgs f acc ts = some (res, r) →
    r <:+ ts ∧ AllOkL ts0 res.1 ∧ In ts res.2 .RIGHT_PAREN
  listElems : ∀ ts0 acc ts res r, ts <:+ ts0 → AllOkL ts0 acc → parsePosListElems f acc ts = some (res, r) →
    r <:+ ts ∧ AllOkL ts0 res.1 ∧ In ts res.2 .RIGHT_BRACKET
  mapElems : ∀ ts0 acc ts res r, ts <:+ ts0 → AllOkKV ts0 acc → parsePosMapElems f acc ts = some (res, r) →
    r <:+ ts ∧ AllOkKV ts0 res.1 ∧ In ts res.2 .RIGHT_BRACE
  commaParams : ∀ ts0 acc ts res r, ts <:+ ts0 → AllOkL ts0 acc →
    parsePosCommaParams f acc ts = some (res, r) → r <:+ ts ∧ AllOkL ts0 res
  simple : ∀ ts0 ts t r, ts <:+ ts0 → parsePosSimple f ts = some (t, r) → r <:+ ts ∧ AllOk ts0 t
  block : ∀ ts0 ts b r, ts <:+ ts0 → parsePosBlock f ts = some (b, r) → r <:+ ts ∧ AllOkL ts0 b
  stmts : ∀ ts0 ts b r, ts <:+ ts0 → parsePosStmts f ts = some (b, r) → r <:+ ts ∧ AllOkL ts0 b
  stmtsTail : ∀ ts0 acc ts b r, ts <:+ ts0 → AllOkL ts0 acc → parsePosStmtsTail f acc ts = some (b, r) →
    r <:+ ts ∧ AllOkL ts0 b
  stmtsAfterSep : ∀ ts0 acc ts b r, ts <:+ ts0 → AllOkL ts0 acc →
    parsePosStmtsAfterSep f acc ts = some (b, r) → r <:+ ts ∧ AllOkL ts0 b
  stmt : ∀ ts0 ts t r, ts <:+ ts0 → parsePosStmt f ts = some (t, r) → r <:+ ts ∧ AllOk ts0 t
  elifs : ∀ ts0 acc ts t r, ts <:+ ts0 → IfsOk ts0 acc → acc ≠ [] → parsePosElifs f acc ts = some (t, r) →
    r <:+ ts ∧ AllOk ts0 t
  for_ : ∀ ts0 fp ts t r, ts <:+ ts0 → In ts0 fp .FOR → parsePosFor f fp ts = some (t, r) →
    r <:+ ts ∧ AllOk ts0 t
  forRest : ∀ ts0 fp init ts t r, ts <:+ ts0 → In ts0 fp .FOR → AllOkO ts0 init →
    parsePosForRest f fp init ts = some (t, r) → r <:+ ts ∧ AllOk ts0 t

theorem inv_zero : Inv 0 := by
  constructor <;> intros <;> simp_all [parsePosExpr, parsePosBinRest, parsePosUnary, parsePosPrimary,
    parsePosAfterIdent, parsePosIndexChain, parsePosAttrChain, parsePosAttrY, parsePosAttrYIdx, parsePosSliceChain,
    parsePosSliceBody, parsePosArgs, parsePosListElems, parsePosMapElems, parsePosCommaParams, parsePosSimple,
    parsePosBlock, parsePosStmts, parsePosStmtsTail, parsePosStmtsAfterSep, parsePosStmt, parsePosElifs,
    parsePosFor, parsePosForRest]

theorem inv_expr {f} (ih : Inv f) : ∀ ts0 mp ts t r, ts <:+ ts0 → parsePosExpr (f+1) mp ts = some (t, r) →
    r <:+ ts ∧ AllOk ts0 t := by
  intro ts0 mp ts t r hs h
  simp only [parsePosExpr] at h
  rcases hu : parsePosUnary f ts with _ | ⟨l, r1⟩ <;> simp only [hu, reduceCtorEq] at h
  obtain ⟨s1, o1⟩ := ih.unary ts0 ts l r1 hs hu
  obtain ⟨s2, o2⟩ := ih.binRest ts0 mp l r1 t r (by suff) o1 h
  exact ⟨by suff, o2⟩

theorem inv_binRest {f} (ih : Inv f) : ∀ ts0 mp l ts t r, ts <:+ ts0 → AllOk ts0 l →
    parsePosBinRest (f+1) mp l ts = some (t, r) → r <:+ ts ∧ AllOk ts0 t := by
  intro ts0 mp l ts t r hs hl h
  simp only [parsePosBinRest] at h
  cases ts with
  | nil => cases h; exact ⟨List.suffix_refl _, hl⟩
  | cons i rest =>
    dsimp only at h
    rcases hb : binOf i.typ with _ | ⟨p, op⟩ <;> simp only [hb] at h
    · cases h; exact ⟨List.suffix_refl _, hl⟩
    · split at h
      · rcases he : parsePosExpr f (p + 1) (skipE rest) with _ | ⟨rhs, r2⟩ <;> simp only [he, reduceCtorEq] at h
        obtain ⟨s1, o1⟩ := ih.expr ts0 (p+1) (skipE rest) rhs r2 (by suff) he
        rcases hm : mkBinP op i.pos l rhs with _ | e <;> simp only [hm, reduceCtorEq] at h
        have oe := ok_mkBinP hm hl o1 (In.headK hs (opTok_of_binOf hb).symm)
        obtain ⟨s2, o2⟩ := ih.binRest ts0 mp e r2 t r (by suff) oe h
        exact ⟨by suff, o2⟩
      · cases h; exact ⟨List.suffix_refl _, hl⟩

theorem inv_unary {f} (ih : Inv f) : ∀ ts0 ts t r, ts <:+ ts0 → parsePosUnary (f+1) ts = some (t, r) →
    r <:+ ts ∧ AllOk ts0 t := by
  intro ts0 ts t r hs h
  simp only [parsePosUnary] at h
  cases ts with
  | nil => cases h
  | cons i rest =>
    dsimp only at h
    rcases hb : unOf i.typ with _ | op <;> simp only [hb] at h
    · exact ih.primary ts0 _ t r hs h
    · rcases he : parsePosUnary f rest with _ | ⟨e, r1⟩ <;> simp only [he, reduceCtorEq] at h
      obtain ⟨s1, o1⟩ := ih.unary ts0 rest e r1 (by suff) he
      cases h
      exact ⟨by suff, ok_mkUnaryP hb (In.head hs) o1⟩

theorem inv_primary {f} (ih : Inv f) : ∀ ts0 ts t r, ts <:+ ts0 → parsePosPrimary (f+1) ts = some (t, r) →
    r <:+ ts ∧ AllOk ts0 t := by
  intro ts0 ts t r hs h
  cases ts with
  | nil => simp [parsePosPrimary] at h
  | cons i rest =>
    simp only [parsePosPrimary] at h
    cases ht : i.typ <;> simp only [ht, reduceCtorEq] at h
    case ID =>
      obtain ⟨s, o⟩ := ih.afterIdent ts0 false i.val i.pos rest t r (by suff) (In.headK hs ht)
        (fun h0 k hk => hp_lt h0 hs (List.suffix_refl _) hk) h
      exact ⟨by suff, o⟩
    case QUOTED_STRING =>
      split at h
      · obtain ⟨s, o⟩ := ih.afterIdent ts0 true i.val i.pos rest t r (by suff) (In.headK hs ht)
          (fun h0 k hk => hp_lt h0 hs (List.suffix_refl _) hk) h
        exact ⟨by suff, o⟩
      · cases h
    case DOT =>
      rcases h1 : expect .LEFT_BRACKET rest with _ | r1 <;> simp only [h1, reduceCtorEq] at h
      rcases h2 : parsePosExpr f 1 (skipE r1) with _ | ⟨e, r2⟩ <;> simp only [h2, reduceCtorEq] at h
      rcases h3 : expect .RIGHT_BRACKET (skipE r2) with _ | r3 <;> simp only [h3, reduceCtorEq] at h
      rcases h4 : parsePosIndexChain f [e] [hp rest] [hp (skipE r2)] r3 with _ | ⟨ic, r4⟩ <;>
        simp only [h4, reduceCtorEq] at h
      have e1 := expect_suffix h1
      obtain ⟨s2, o2⟩ := ih.expr ts0 1 (skipE r1) e r2 (by suff) h2
      have e3 := expect_suffix h3
      have hlb : In ts0 (hp rest) .LEFT_BRACKET := (in_of_expect h1).mono (by suff)
      have hrb : In ts0 (hp (skipE r2)) .RIGHT_BRACKET := (in_of_expect h3).mono (by suff)
      have hlt : Sorted ts0 → hp rest < hp (skipE r2) := fun h0 =>
        hp_lt h0 (by suff : rest <:+ ts0) (by suff : skipE r2 <:+ rest.drop 1) (in_of_expect h3)
      obtain ⟨s4, o4, i4⟩ := ih.indexChain ts0 [e] [hp rest] [hp (skipE r2)] r3 ic r4 (by suff)
        (AllOkL.single o2) (IdxOk.nil.snoc hlb hrb hlt) h4
      obtain ⟨s5, o5⟩ := ih.attrChain ts0 _ r4 t r (by suff) (ok_index o4 i4 (by intro o ho; cases ho)) h
      exact ⟨by suff, o5⟩
    case NUMBER =>
      obtain ⟨s, o⟩ := ih.sliceChain ts0 _ rest t r (by suff) (ok_num (In.headK hs ht) (Or.inl rfl)) h
      exact ⟨by suff, o⟩
    case TRUE =>
      obtain ⟨s, o⟩ := ih.sliceChain ts0 _ rest t r (by suff) (ok_bool (b := true) (In.headK hs ht)) h
      exact ⟨by suff, o⟩
    case FALSE =>
      obtain ⟨s, o⟩ := ih.sliceChain ts0 _ rest t r (by suff) (ok_bool (b := false) (In.headK hs ht)) h
      exact ⟨by suff, o⟩
    case NIL =>
      obtain ⟨s, o⟩ := ih.sliceChain ts0 _ rest t r (by suff) (ok_nil (In.headK hs ht) (Or.inl rfl)) h
      exact ⟨by suff, o⟩
    case NULL =>
      obtain ⟨s, o⟩ := ih.sliceChain ts0 _ rest t r (by suff) (ok_nil (In.headK hs ht) (Or.inr rfl)) h
      exact ⟨by suff, o⟩
    case STRING =>
      split at h
      · obtain ⟨s, o⟩ := ih.sliceChain ts0 _ rest t r (by suff) (ok_str (m := false) (In.headK hs ht)) h
        exact ⟨by suff, o⟩
      · cases h
    case MULTILINE_STRING =>
      split at h
      · obtain ⟨s, o⟩ := ih.sliceChain ts0 _ rest t r (by suff) (ok_str (m := true) (In.headK hs ht)) h
        exact ⟨by suff, o⟩
      · cases h
    case LEFT_BRACKET =>
      split at h
      · rename_i hrb
        have hrbI := in_of_tk hrb (by decide)
        obtain ⟨s, o⟩ := ih.sliceChain ts0 _ _ t r (by suff)
          (ok_list AllOkL.nil (In.headK hs ht) (hrbI.mono (by suff))
            (fun h0 => hp_lt h0 hs (by suff) hrbI)) h
        exact ⟨by suff, o⟩
      · rcases h1 : parsePosListElems f [] (skipE rest) with _ | ⟨xr, r2⟩ <;> simp only [h1, reduceCtorEq] at h
        obtain ⟨s1, o1, i1⟩ := ih.listElems ts0 [] (skipE rest) xr r2 (by suff) AllOkL.nil h1
        obtain ⟨s, o⟩ := ih.sliceChain ts0 _ r2 t r (by suff)
          (ok_list o1 (In.headK hs ht) (i1.mono (by suff)) (fun h0 => hp_lt h0 hs (by suff) i1)) h
        exact ⟨by suff, o⟩
    case LEFT_BRACE =>
      split at h
      · rename_i hrb
        have hrbI := in_of_tk hrb (by decide)
        cases h
        exact ⟨by suff, ok_map AllOkKV.nil (In.headK hs ht) (hrbI.mono (by suff))
          (fun h0 => hp_lt h0 hs (by suff) hrbI)⟩
      · rcases h1 : parsePosMapElems f [] (skipE rest) with _ | ⟨kr, r2⟩ <;> simp only [h1, reduceCtorEq] at h
        obtain ⟨s1, o1, i1⟩ := ih.mapElems ts0 [] (skipE rest) kr r2 (by suff) AllOkKV.nil h1
        cases h
        exact ⟨by suff, ok_map o1 (In.headK hs ht) (i1.mono (by suff)) (fun h0 => hp_lt h0 hs (by suff) i1)⟩
    case LEFT_PAREN =>
      rcases h2 : parsePosExpr f 1 (skipE rest) with _ | ⟨e, r2⟩ <;> simp only [h2, reduceCtorEq] at h
      rcases h3 : expect .RIGHT_PAREN (skipE r2) with _ | r3 <;> simp only [h3, reduceCtorEq] at h
      obtain ⟨s2, o2⟩ := ih.expr ts0 1 (skipE rest) e r2 (by suff) h2
      have e3 := expect_suffix h3
      cases h
      exact ⟨by suff, ok_paren o2 (In.headK hs ht) ((in_of_expect h3).mono (by suff))
        (fun h0 => hp_lt h0 hs (by suff) (in_of_expect h3))⟩

/-- a slice node built from a `parsePosSliceBody` result: `ts` starts with its `[` -/
theorem slice_ok {f} (ih : Inv f) {ts0 ts tb : List Item} {obj : PP} {st : Option PP}
    {sl : Option PP × Option PP × Option PP × Bool × Nat} {r2 : List Item} {s : PP}
    (hs : ts <:+ ts0) (hb : tb <:+ ts.drop 1) (hlb : In ts (hp ts) .LEFT_BRACKET) (ho : AllOk ts0 obj)
    (hst : AllOkO ts0 st) (h1 : parsePosSliceBody f st tb = some (sl, r2))
    (h2 : mkSliceP obj sl.1 sl.2.1 sl.2.2.1 sl.2.2.2.1 (hp ts) sl.2.2.2.2 = some s) :
    r2 <:+ tb ∧ AllOk ts0 s := by
  obtain ⟨s1, oa, ob, oc, i1⟩ := ih.sliceBody ts0 st tb sl r2 (by suff) hst h1
  exact ⟨s1, ok_mkSliceP h2 ho oa ob oc (hlb.mono hs) (i1.mono (by suff)) (fun h0 => hp_lt h0 hs hb i1)⟩

theorem inv_afterIdent {f} (ih : Inv f) : ∀ ts0 q v p r t r', r <:+ ts0 → In ts0 p (identTok q) →
    (Sorted ts0 → ∀ k, In r (hp r) k → p < hp r) →
    parsePosAfterIdent (f+1) q v p r = some (t, r') → r' <:+ r ∧ AllOk ts0 t := by
  intro ts0 q v p r t r' hs hp0 hbef h
  simp only [parsePosAfterIdent] at h
  cases ht : tk r <;> simp only [ht] at h
  case LEFT_PAREN =>
    have hlp := in_of_tk ht (by decide)
    split at h
    · rename_i hrp
      have hrpI := in_of_tk hrp (by decide)
      obtain ⟨s, o⟩ := ih.sliceChain ts0 _ _ t r' (by suff)
        (ok_call AllOkL.nil hp0 (hlp.mono hs) (hrpI.mono (by suff))
          (fun h0 => ⟨hbef h0 _ hlp, hp_lt h0 hs (by suff) hrpI⟩)) h
      exact ⟨by suff, o⟩
    · rcases h1 : parsePosArgs f [] (skipE (r.drop 1)) with _ | ⟨ar, r2⟩ <;> simp only [h1, reduceCtorEq] at h
      obtain ⟨s1, o1, i1⟩ := ih.args ts0 [] _ ar r2 (by suff) AllOkL.nil h1
      obtain ⟨s, o⟩ := ih.sliceChain ts0 _ r2 t r' (by suff)
        (ok_call o1 hp0 (hlp.mono hs) (i1.mono (by suff))
          (fun h0 => ⟨hbef h0 _ hlp, hp_lt h0 hs (by suff) i1⟩)) h
      exact ⟨by suff, o⟩
  case LEFT_BRACKET =>
    have hlb := in_of_tk ht (by decide)
    split at h
    · rcases h1 : parsePosSliceBody f none (skipE (r.drop 1)) with _ | ⟨sl, r2⟩ <;>
        simp only [h1, reduceCtorEq] at h
      rcases h2 : mkSliceP (.ident q v p) sl.1 sl.2.1 sl.2.2.1 sl.2.2.2.1 (hp r) sl.2.2.2.2 with _ | s <;>
        simp only [h2, reduceCtorEq] at h
      obtain ⟨s1, os⟩ := slice_ok ih hs (by suff) hlb (ok_ident hp0) AllOkO.none h1 h2
      obtain ⟨s3, o3⟩ := ih.sliceChain ts0 s r2 t r' (by suff) os h
      exact ⟨by suff, o3⟩
    · rcases hx : parsePosExpr f 1 (skipE (r.drop 1)) with _ | ⟨e, r2⟩ <;> simp only [hx, reduceCtorEq] at h
      obtain ⟨sx, ox⟩ := ih.expr ts0 1 _ e r2 (by suff) hx
      split at h
      · rcases h1 : parsePosSliceBody f (some e) r2 with _ | ⟨sl, r3⟩ <;> simp only [h1, reduceCtorEq] at h
        rcases h2 : mkSliceP (.ident q v p) sl.1 sl.2.1 sl.2.2.1 sl.2.2.2.1 (hp r) sl.2.2.2.2 with _ | s <;>
          simp only [h2, reduceCtorEq] at h
        obtain ⟨s1, os⟩ := slice_ok ih hs (by suff) hlb (ok_ident hp0) (AllOkO.some ox) h1 h2
        obtain ⟨s3, o3⟩ := ih.sliceChain ts0 s r3 t r' (by suff) os h
        exact ⟨by suff, o3⟩
      · rcases h3 : expect .RIGHT_BRACKET (skipE r2) with _ | r3 <;> simp only [h3, reduceCtorEq] at h
        rcases h4 : parsePosIndexChain f [e] [hp r] [hp (skipE r2)] r3 with _ | ⟨ic, r4⟩ <;>
          simp only [h4, reduceCtorEq] at h
        have e3 := expect_suffix h3
        have hrb := in_of_expect h3
        obtain ⟨s4, o4, i4⟩ := ih.indexChain ts0 [e] [hp r] [hp (skipE r2)] r3 ic r4 (by suff) (AllOkL.single ox)
          (IdxOk.nil.snoc (hlb.mono hs) (hrb.mono (by suff)) (fun h0 => hp_lt h0 hs (by suff) hrb)) h4
        obtain ⟨s5, o5⟩ := ih.attrChain ts0 _ r4 t r' (by suff)
          (ok_index o4 i4 (by intro o ho; cases ho; exact hp0)) h
        exact ⟨by suff, o5⟩
  case DOT => exact ih.attrChain ts0 _ r t r' hs (ok_ident hp0) h
  all_goals (cases h; exact ⟨List.suffix_refl _, ok_ident hp0⟩)

theorem inv_indexChain {f} (ih : Inv f) : ∀ ts0 acc lbs rbs ts res r, ts <:+ ts0 → AllOkL ts0 acc →
    IdxOk ts0 acc lbs rbs → parsePosIndexChain (f+1) acc lbs rbs ts = some (res, r) →
    r <:+ ts ∧ AllOkL ts0 res.1 ∧ IdxOk ts0 res.1 res.2.1 res.2.2 := by
  intro ts0 acc lbs rbs ts res r hs ha hi h
  simp only [parsePosIndexChain] at h
  split at h
  · rename_i hlb0
    have hlb := in_of_tk hlb0 (by decide)
    rcases h2 : parsePosExpr f 1 (skipE (ts.drop 1)) with _ | ⟨e, r2⟩ <;> simp only [h2, reduceCtorEq] at h
    rcases h3 : expect .RIGHT_BRACKET (skipE r2) with _ | r3 <;> simp only [h3, reduceCtorEq] at h
    obtain ⟨s2, o2⟩ := ih.expr ts0 1 _ e r2 (by suff) h2
    have e3 := expect_suffix h3
    have hrb := in_of_expect h3
    obtain ⟨s4, o4, i4⟩ := ih.indexChain ts0 _ _ _ r3 res r (by suff) (ha.snoc o2)
      (hi.snoc (hlb.mono hs) (hrb.mono (by suff)) (fun h0 => hp_lt h0 hs (by suff) hrb)) h
    exact ⟨by suff, o4, i4⟩
  · cases h; exact ⟨List.suffix_refl _, ha, hi⟩

theorem inv_attrChain {f} (ih : Inv f) : ∀ ts0 obj ts t r, ts <:+ ts0 → AllOk ts0 obj →
    parsePosAttrChain (f+1) obj ts = some (t, r) → r <:+ ts ∧ AllOk ts0 t := by
  intro ts0 obj ts t r hs ho h
  simp only [parsePosAttrChain] at h
  split at h
  · rcases h2 : parsePosAttrY f (ts.drop 1) with _ | ⟨y, r1⟩ <;> simp only [h2, reduceCtorEq] at h
    obtain ⟨s2, o2⟩ := ih.attrY ts0 _ y r1 (by suff) h2
    obtain ⟨s3, o3⟩ := ih.attrChain ts0 _ r1 t r (by suff) (ok_attr ho o2) h
    exact ⟨by suff, o3⟩
  · cases h; exact ⟨List.suffix_refl _, ho⟩

theorem inv_attrY {f} (ih : Inv f) : ∀ ts0 ts t r, ts <:+ ts0 → parsePosAttrY (f+1) ts = some (t, r) →
    r <:+ ts ∧ AllOk ts0 t := by
  intro ts0 ts t r hs h
  cases ts with
  | nil => simp [parsePosAttrY] at h
  | cons i rest =>
    simp only [parsePosAttrY] at h
    cases ht : i.typ <;> simp only [ht, reduceCtorEq] at h
    case ID =>
      obtain ⟨s, o⟩ := ih.attrYIdx ts0 (some (false, i.val, i.pos)) rest t r (by suff)
        (by intro o ho; cases ho; exact In.headK hs ht) h
      exact ⟨by suff, o⟩
    case QUOTED_STRING =>
      split at h
      · obtain ⟨s, o⟩ := ih.attrYIdx ts0 (some (true, i.val, i.pos)) rest t r (by suff)
          (by intro o ho; cases ho; exact In.headK hs ht) h
        exact ⟨by suff, o⟩
      · cases h
    case DOT =>
      split at h
      · obtain ⟨s, o⟩ := ih.attrYIdx ts0 none rest t r (by suff) (by intro o ho; cases ho) h
        exact ⟨by suff, o⟩
      · cases h

theorem inv_attrYIdx {f} (ih : Inv f) : ∀ ts0 nm r t r', r <:+ ts0 →
    (∀ o, nm = some o → In ts0 o.2.2 (identTok o.1)) →
    parsePosAttrYIdx (f+1) nm r = some (t, r') → r' <:+ r ∧ AllOk ts0 t := by
  intro ts0 nm r t r' hs hn h
  simp only [parsePosAttrYIdx] at h
  split at h
  · rcases h4 : parsePosIndexChain f [] [] [] r with _ | ⟨ic, r2⟩ <;> simp only [h4, reduceCtorEq] at h
    obtain ⟨s4, o4, i4⟩ := ih.indexChain ts0 [] [] [] r ic r2 hs AllOkL.nil IdxOk.nil h4
    cases h
    exact ⟨s4, ok_index o4 i4 hn⟩
  · rcases nm with _ | ⟨q, v, p⟩ <;> simp only [reduceCtorEq] at h
    cases h
    exact ⟨List.suffix_refl _, ok_ident (hn _ rfl)⟩

theorem inv_sliceChain {f} (ih : Inv f) : ∀ ts0 obj ts t r, ts <:+ ts0 → AllOk ts0 obj →
    parsePosSliceChain (f+1) obj ts = some (t, r) → r <:+ ts ∧ AllOk ts0 t := by
  intro ts0 obj ts t r hs ho h
  simp only [parsePosSliceChain] at h
  split at h
  · rename_i hlb0
    have hlb := in_of_tk hlb0 (by decide)
    split at h
    · rcases h1 : parsePosSliceBody f none (skipE (ts.drop 1)) with _ | ⟨sl, r2⟩ <;>
        simp only [h1, reduceCtorEq] at h
      rcases h2 : mkSliceP obj sl.1 sl.2.1 sl.2.2.1 sl.2.2.2.1 (hp ts) sl.2.2.2.2 with _ | s <;>
        simp only [h2, reduceCtorEq] at h
      obtain ⟨s1, os⟩ := slice_ok ih hs (by suff) hlb ho AllOkO.none h1 h2
      obtain ⟨s3, o3⟩ := ih.sliceChain ts0 s r2 t r (by suff) os h
      exact ⟨by suff, o3⟩
    · rcases hx : parsePosExpr f 1 (skipE (ts.drop 1)) with _ | ⟨e, r2⟩ <;> simp only [hx, reduceCtorEq] at h
      obtain ⟨sx, ox⟩ := ih.expr ts0 1 _ e r2 (by suff) hx
      rcases h1 : parsePosSliceBody f (some e) r2 with _ | ⟨sl, r3⟩ <;> simp only [h1, reduceCtorEq] at h
      rcases h2 : mkSliceP obj sl.1 sl.2.1 sl.2.2.1 sl.2.2.2.1 (hp ts) sl.2.2.2.2 with _ | s <;>
        simp only [h2, reduceCtorEq] at h
      obtain ⟨s1, os⟩ := slice_ok ih hs (by suff) hlb ho (AllOkO.some ox) h1 h2
      obtain ⟨s3, o3⟩ := ih.sliceChain ts0 s r3 t r (by suff) os h
      exact ⟨by suff, o3⟩
  · cases h; exact ⟨List.suffix_refl _, ho⟩

theorem inv_sliceBody {f} (ih : Inv f) : ∀ ts0 st ts res r, ts <:+ ts0 → AllOkO ts0 st →
    parsePosSliceBody (f+1) st ts = some (res, r) →
    r <:+ ts ∧ AllOkO ts0 res.1 ∧ AllOkO ts0 res.2.1 ∧ AllOkO ts0 res.2.2.1 ∧
      In ts res.2.2.2.2 .RIGHT_BRACKET := by
  intro ts0 st ts res r hs hst h
  simp only [parsePosSliceBody] at h
  rcases h0 : expect .COLON ts with _ | r0 <;> simp only [h0, reduceCtorEq] at h
  have e0 := expect_suffix h0
  have tail : ∀ (stop : Option PP) (r2 : List Item), r2 <:+ ts → AllOkO ts0 stop →
      (if tk r2 = Tok.COLON then
        if tk (skipE (List.drop 1 r2)) = Tok.RIGHT_BRACKET then
          some ((st, stop, none, true, hp (skipE (List.drop 1 r2))), List.drop 1 (skipE (List.drop 1 r2)))
        else
          match parsePosExpr f 1 (skipE (List.drop 1 r2)) with
          | some (e, r4) =>
            match expect Tok.RIGHT_BRACKET r4 with
            | some r5 => some ((st, stop, some e, true, hp r4), r5)
            | none => none
          | none => none
      else
        match expect Tok.RIGHT_BRACKET r2 with
        | some r3 => some ((st, stop, none, false, hp r2), r3)
        | none => none) = some (res, r) →
      r <:+ ts ∧ AllOkO ts0 res.1 ∧ AllOkO ts0 res.2.1 ∧ AllOkO ts0 res.2.2.1 ∧
        In ts res.2.2.2.2 .RIGHT_BRACKET := by
    intro stop r2 s2 ostop h
    split at h
    · split at h
      · rename_i hc hrb
        cases h
        exact ⟨by suff, hst, ostop, AllOkO.none, (in_of_tk hrb (by decide)).mono (by suff)⟩
      · rcases h3 : parsePosExpr f 1 (skipE (r2.drop 1)) with _ | ⟨e', r4⟩ <;> simp only [h3, reduceCtorEq] at h
        rcases h5 : expect .RIGHT_BRACKET r4 with _ | r5 <;> simp only [h5, reduceCtorEq] at h
        obtain ⟨s3, o3⟩ := ih.expr ts0 1 _ e' r4 (by suff) h3
        have e5 := expect_suffix h5
        cases h
        exact ⟨by suff, hst, ostop, AllOkO.some o3, (in_of_expect h5).mono (by suff)⟩
    · rcases h5 : expect .RIGHT_BRACKET r2 with _ | r3 <;> simp only [h5, reduceCtorEq] at h
      have e5 := expect_suffix h5
      cases h
      exact ⟨by suff, hst, ostop, AllOkO.none, (in_of_expect h5).mono s2⟩
  by_cases hc : (decide (tk (skipE r0) = Tok.COLON) || decide (tk (skipE r0) = Tok.RIGHT_BRACKET)) = true
  · simp only [hc, ↓reduceIte] at h
    exact tail none (skipE r0) (by suff) AllOkO.none h
  · simp only [hc, Bool.false_eq_true, ↓reduceIte] at h
    rcases h2 : parsePosExpr f 1 (skipE r0) with _ | ⟨e, r2⟩ <;> simp only [h2, reduceCtorEq] at h
    obtain ⟨s2, o2⟩ := ih.expr ts0 1 _ e r2 (by suff) h2
    exact tail (some e) r2 (by suff) (AllOkO.some o2) h

theorem inv_args {f} (ih : Inv f) : ∀ ts0 acc ts res r, ts <:+ ts0 → AllOkL ts0 acc →
    parsePosArgs (f+1) acc ts = some (res, r) → r <:+ ts ∧ AllOkL ts0 res.1 ∧ In ts res.2 .RIGHT_PAREN := by
  intro ts0 acc ts res r hs ha h
  simp only [parsePosArgs] at h
  rcases h1 : parsePosExpr f 1 ts with _ | ⟨e, r1⟩ <;> simp only [h1, reduceCtorEq] at h
  obtain ⟨s1, o1⟩ := ih.expr ts0 1 ts e r1 hs h1
  have tail : ∀ (arg : PP) (r' : List Item), r' <:+ ts → AllOk ts0 arg →
      (if tk r' = Tok.COMMA then
        if tk (skipE (List.drop 1 r')) = Tok.RIGHT_PAREN then
          some ((acc ++ [arg], hp (skipE (List.drop 1 r'))), List.drop 1 (skipE (List.drop 1 r')))
        else parsePosArgs f (acc ++ [arg]) (skipE (List.drop 1 r'))
      else
        match expect Tok.RIGHT_PAREN (skipE r') with
        | some r3 => some ((acc ++ [arg], hp (skipE r')), r3)
        | none => none) = some (res, r) →
      r <:+ ts ∧ AllOkL ts0 res.1 ∧ In ts res.2 .RIGHT_PAREN := by
    intro arg r' s' oa h
    split at h
    · split at h
      · rename_i hrp
        cases h
        exact ⟨by suff, ha.snoc oa, (in_of_tk hrp (by decide)).mono (by suff)⟩
      · obtain ⟨s2, o2, i2⟩ := ih.args ts0 _ _ res r (by suff) (ha.snoc oa) h
        exact ⟨by suff, o2, i2.mono (by suff)⟩
    · rcases h5 : expect .RIGHT_PAREN (skipE r') with _ | r3 <;> simp only [h5, reduceCtorEq] at h
      have e5 := expect_suffix h5
      cases h
      exact ⟨by suff, ha.snoc oa, (in_of_expect h5).mono (by suff)⟩
  cases e
  case ident q v p =>
    simp only at h
    by_cases hq : tk r1 = Tok.EQ
    · simp only [hq, ↓reduceIte] at h
      rcases h2 : parsePosExpr f 1 (skipE (r1.drop 1)) with _ | ⟨v', r2⟩ <;> simp only [h2, reduceCtorEq] at h
      obtain ⟨s2, o2⟩ := ih.expr ts0 1 _ v' r2 (by suff) h2
      exact tail _ r2 (by suff)
        (ok_assign (AllOkL.single o1) (AllOkL.single o2) ((in_of_tk hq (by decide)).mono (by suff))) h
    · simp only [hq, ↓reduceIte] at h
      exact tail _ r1 s1 o1 h
  all_goals (simp only at h; exact tail _ r1 s1 o1 h)

theorem inv_listElems {f} (ih : Inv f) : ∀ ts0 acc ts res r, ts <:+ ts0 → AllOkL ts0 acc →
    parsePosListElems (f+1) acc ts = some (res, r) →
    r <:+ ts ∧ AllOkL ts0 res.1 ∧ In ts res.2 .RIGHT_BRACKET := by
  intro ts0 acc ts res r hs ha h
  simp only [parsePosListElems] at h
  rcases h1 : parsePosExpr f 1 ts with _ | ⟨e, r1⟩ <;> simp only [h1, reduceCtorEq] at h
  obtain ⟨s1, o1⟩ := ih.expr ts0 1 ts e r1 hs h1
  split at h
  · rename_i hrb
    cases h
    exact ⟨by suff, ha.snoc o1, (in_of_tk hrb (by decide)).mono (by suff)⟩
  · split at h
    · split at h
      · rename_i hrb
        cases h
        exact ⟨by suff, ha.snoc o1, (in_of_tk hrb (by decide)).mono (by suff)⟩
      · obtain ⟨s2, o2, i2⟩ := ih.listElems ts0 _ _ res r (by suff) (ha.snoc o1) h
        exact ⟨by suff, o2, i2.mono (by suff)⟩
    · cases h

theorem inv_mapElems {f} (ih : Inv f) : ∀ ts0 acc ts res r, ts <:+ ts0 → AllOkKV ts0 acc →
    parsePosMapElems (f+1) acc ts = some (res, r) →
    r <:+ ts ∧ AllOkKV ts0 res.1 ∧ In ts res.2 .RIGHT_BRACE := by
  intro ts0 acc ts res r hs ha h
  simp only [parsePosMapElems] at h
  rcases h1 : parsePosExpr f 1 ts with _ | ⟨k, r1⟩ <;> simp only [h1, reduceCtorEq] at h
  obtain ⟨s1, o1⟩ := ih.expr ts0 1 ts k r1 hs h1
  rcases h2 : expect .COLON r1 with _ | r2 <;> simp only [h2, reduceCtorEq] at h
  have e2 := expect_suffix h2
  rcases h3 : parsePosExpr f 1 (skipE r2) with _ | ⟨v, r3⟩ <;> simp only [h3, reduceCtorEq] at h
  obtain ⟨s3, o3⟩ := ih.expr ts0 1 _ v r3 (by suff) h3
  split at h
  · split at h
    · rename_i hrb
      cases h
      exact ⟨by suff, ha.snoc o1 o3, (in_of_tk hrb (by decide)).mono (by suff)⟩
    · obtain ⟨s4, o4, i4⟩ := ih.mapElems ts0 _ _ res r (by suff) (ha.snoc o1 o3) h
      exact ⟨by suff, o4, i4.mono (by suff)⟩
  · rcases h5 : expect .RIGHT_BRACE (skipE r3) with _ | r4 <;> simp only [h5, reduceCtorEq] at h
    have e5 := expect_suffix h5
    cases h
    exact ⟨by suff, ha.snoc o1 o3, (in_of_expect h5).mono (by suff)⟩

theorem inv_commaParams {f} (ih : Inv f) : ∀ ts0 acc ts res r, ts <:+ ts0 → AllOkL ts0 acc →
    parsePosCommaParams (f+1) acc ts = some (res, r) → r <:+ ts ∧ AllOkL ts0 res := by
  intro ts0 acc ts res r hs ha h
  simp only [parsePosCommaParams] at h
  rcases h1 : parsePosExpr f 1 ts with _ | ⟨e, r1⟩ <;> simp only [h1, reduceCtorEq] at h
  obtain ⟨s1, o1⟩ := ih.expr ts0 1 ts e r1 hs h1
  split at h
  · obtain ⟨s2, o2⟩ := ih.commaParams ts0 _ _ res r (by suff) (ha.snoc o1) h
    exact ⟨by suff, o2⟩
  · cases h; exact ⟨s1, ha.snoc o1⟩

theorem inv_simple {f} (ih : Inv f) : ∀ ts0 ts t r, ts <:+ ts0 → parsePosSimple (f+1) ts = some (t, r) →
    r <:+ ts ∧ AllOk ts0 t := by
  intro ts0 ts t r hs h
  simp only [parsePosSimple] at h
  rcases h1 : parsePosCommaParams f [] ts with _ | ⟨es, r1⟩ <;> simp only [h1, reduceCtorEq] at h
  obtain ⟨s1, o1⟩ := ih.commaParams ts0 [] ts es r1 hs AllOkL.nil h1
  split at h
  · rename_i heq
    rcases h2 : parsePosCommaParams f [] (skipE (r1.drop 1)) with _ | ⟨rs, r2⟩ <;>
      simp only [h2, reduceCtorEq] at h
    obtain ⟨s2, o2⟩ := ih.commaParams ts0 [] _ rs r2 (by suff) AllOkL.nil h2
    cases h
    exact ⟨by suff, ok_assign o1 o2 ((in_of_tk heq (by decide)).mono (by suff))⟩
  · rcases ha : asgOf (tk r1) with _ | op <;> simp only [ha] at h
    · rcases es with _ | ⟨e, _ | ⟨e2, es⟩⟩ <;> simp only [reduceCtorEq] at h
      cases h
      exact ⟨s1, o1 _ (by simp)⟩
    · rcases es with _ | ⟨e, _ | ⟨e2, es⟩⟩ <;> simp only [reduceCtorEq] at h
      rcases h3 : parsePosExpr f 1 (skipE (r1.drop 1)) with _ | ⟨v, r2⟩ <;> simp only [h3, reduceCtorEq] at h
      obtain ⟨s3, o3⟩ := ih.expr ts0 1 _ v r2 (by suff) h3
      cases h
      have hk := asgTok_of_asgOf ha
      have hin : In r1 (hp r1) (asgTok op) := in_of_tk hk.symm (hk ▸ asgOf_ne_eof ha)
      exact ⟨by suff, ok_assign (AllOkL.single (o1 e (by simp))) (AllOkL.single o3) (hin.mono (by suff))⟩

theorem inv_block {f} (ih : Inv f) : ∀ ts0 ts b r, ts <:+ ts0 → parsePosBlock (f+1) ts = some (b, r) →
    r <:+ ts ∧ AllOkL ts0 b := by
  intro ts0 ts b r hs h
  simp only [parsePosBlock] at h
  rcases h0 : expect .LEFT_BRACE ts with _ | r0 <;> simp only [h0, reduceCtorEq] at h
  have e0 := expect_suffix h0
  split at h
  · cases h; exact ⟨by suff, AllOkL.nil⟩
  · rcases h1 : parsePosStmts f (skipE r0) with _ | ⟨ss, r2⟩ <;> simp only [h1, reduceCtorEq] at h
    rcases h2 : expect .RIGHT_BRACE r2 with _ | r3 <;> simp only [h2, reduceCtorEq] at h
    have e2 := expect_suffix h2
    obtain ⟨s1, o1⟩ := ih.stmts ts0 _ ss r2 (by suff) h1
    cases h; exact ⟨by suff, o1⟩

theorem inv_stmts {f} (ih : Inv f) : ∀ ts0 ts b r, ts <:+ ts0 → parsePosStmts (f+1) ts = some (b, r) →
    r <:+ ts ∧ AllOkL ts0 b := by
  intro ts0 ts b r hs h
  simp only [parsePosStmts] at h
  split at h
  · obtain ⟨s, o⟩ := ih.stmtsAfterSep ts0 [] _ b r (by suff) AllOkL.nil h
    exact ⟨by suff, o⟩
  · rcases h1 : parsePosStmt f ts with _ | ⟨s, r1⟩ <;> simp only [h1, reduceCtorEq] at h
    obtain ⟨s1, o1⟩ := ih.stmt ts0 ts s r1 hs h1
    obtain ⟨s2, o2⟩ := ih.stmtsTail ts0 [s] r1 b r (by suff) (AllOkL.single o1) h
    exact ⟨by suff, o2⟩

theorem inv_stmtsTail {f} (ih : Inv f) : ∀ ts0 acc ts b r, ts <:+ ts0 → AllOkL ts0 acc →
    parsePosStmtsTail (f+1) acc ts = some (b, r) → r <:+ ts ∧ AllOkL ts0 b := by
  intro ts0 acc ts b r hs ha h
  simp only [parsePosStmtsTail] at h
  split at h
  · obtain ⟨s, o⟩ := ih.stmtsAfterSep ts0 acc _ b r (by suff) ha h
    exact ⟨by suff, o⟩
  · cases h; exact ⟨List.suffix_refl _, ha⟩

theorem inv_stmtsAfterSep {f} (ih : Inv f) : ∀ ts0 acc ts b r, ts <:+ ts0 → AllOkL ts0 acc →
    parsePosStmtsAfterSep (f+1) acc ts = some (b, r) → r <:+ ts ∧ AllOkL ts0 b := by
  intro ts0 acc ts b r hs ha h
  simp only [parsePosStmtsAfterSep] at h
  split at h
  · cases h; exact ⟨List.suffix_refl _, ha⟩
  · rcases h1 : parsePosStmt f ts with _ | ⟨s, r1⟩ <;> simp only [h1, reduceCtorEq] at h
    obtain ⟨s1, o1⟩ := ih.stmt ts0 ts s r1 hs h1
    obtain ⟨s2, o2⟩ := ih.stmtsTail ts0 _ r1 b r (by suff) (ha.snoc o1) h
    exact ⟨by suff, o2⟩

theorem inv_stmt {f} (ih : Inv f) : ∀ ts0 ts t r, ts <:+ ts0 → parsePosStmt (f+1) ts = some (t, r) →
    r <:+ ts ∧ AllOk ts0 t := by
  intro ts0 ts t r hs h
  cases ts with
  | nil => simp [parsePosStmt] at h
  | cons i rest =>
    simp only [parsePosStmt] at h
    cases ht : i.typ <;> simp only [ht] at h
    case IF =>
      rcases h1 : parsePosExpr f 1 rest with _ | ⟨c, r1⟩ <;> simp only [h1, reduceCtorEq] at h
      rcases h2 : parsePosBlock f r1 with _ | ⟨b, r2⟩ <;> simp only [h2, reduceCtorEq] at h
      obtain ⟨s1, o1⟩ := ih.expr ts0 1 rest c r1 (by suff) h1
      obtain ⟨s2, o2⟩ := ih.block ts0 r1 b r2 (by suff) h2
      obtain ⟨s3, o3⟩ := ih.elifs ts0 _ r2 t r (by suff) (IfsOk.single (In.headK hs ht) o1 o2) (by simp) h
      exact ⟨by suff, o3⟩
    case FOR =>
      obtain ⟨s, o⟩ := ih.for_ ts0 i.pos rest t r (by suff) (In.headK hs ht) h
      exact ⟨by suff, o⟩
    case BREAK => cases h; exact ⟨by suff, ok_brk (In.headK hs ht)⟩
    case CONTINUE => cases h; exact ⟨by suff, ok_cont (In.headK hs ht)⟩
    all_goals exact ih.simple ts0 _ t r hs h

theorem inv_elifs {f} (ih : Inv f) : ∀ ts0 acc ts t r, ts <:+ ts0 → IfsOk ts0 acc → acc ≠ [] →
    parsePosElifs (f+1) acc ts = some (t, r) → r <:+ ts ∧ AllOk ts0 t := by
  intro ts0 acc ts t r hs ha hne h
  simp only [parsePosElifs] at h
  split at h
  · rename_i helif
    rcases h1 : parsePosExpr f 1 (ts.drop 1) with _ | ⟨c, r1⟩ <;> simp only [h1, reduceCtorEq] at h
    rcases h2 : parsePosBlock f r1 with _ | ⟨b, r2⟩ <;> simp only [h2, reduceCtorEq] at h
    obtain ⟨s1, o1⟩ := ih.expr ts0 1 _ c r1 (by suff) h1
    obtain ⟨s2, o2⟩ := ih.block ts0 r1 b r2 (by suff) h2
    obtain ⟨s3, o3⟩ := ih.elifs ts0 _ r2 t r (by suff)
      (ha.snoc hne ((in_of_tk helif (by decide)).mono hs) o1 o2) (by simp) h
    exact ⟨by suff, o3⟩
  · split at h
    · rename_i helse
      rcases h2 : parsePosBlock f (ts.drop 1) with _ | ⟨b, r2⟩ <;> simp only [h2, reduceCtorEq] at h
      obtain ⟨s2, o2⟩ := ih.block ts0 _ b r2 (by suff) h2
      cases h
      exact ⟨by suff, ok_ifelse ha (by
        intro e he; cases he; exact ⟨(in_of_tk helse (by decide)).mono hs, o2⟩)⟩
    · cases h; exact ⟨List.suffix_refl _, ok_ifelse ha (by intro e he; cases he)⟩

theorem inv_for {f} (ih : Inv f) : ∀ ts0 fp ts t r, ts <:+ ts0 → In ts0 fp .FOR →
    parsePosFor (f+1) fp ts = some (t, r) → r <:+ ts ∧ AllOk ts0 t := by
  intro ts0 fp ts t r hs hf h
  simp only [parsePosFor] at h
  split at h
  · obtain ⟨s, o⟩ := ih.forRest ts0 fp none _ t r (by suff) hf AllOkO.none h
    exact ⟨by suff, o⟩
  · rcases h1 : parsePosSimple f ts with _ | ⟨s, r1⟩ <;> simp only [h1, reduceCtorEq] at h
    obtain ⟨s1, o1⟩ := ih.simple ts0 ts s r1 hs h1
    split at h
    · rcases h2 : parsePosBlock f r1 with _ | ⟨b, r2⟩ <;> simp only [h2, reduceCtorEq] at h
      obtain ⟨s2, o2⟩ := ih.block ts0 r1 b r2 (by suff) h2
      rcases h3 : mkForInP fp s b with _ | st <;> simp only [h3, reduceCtorEq] at h
      cases h
      exact ⟨by suff, ok_mkForInP h3 o1 o2 hf⟩
    · rcases h2 : expect .SEMICOLON r1 with _ | r2 <;> simp only [h2, reduceCtorEq] at h
      have e2 := expect_suffix h2
      obtain ⟨s3, o3⟩ := ih.forRest ts0 fp (some s) r2 t r (by suff) hf (AllOkO.some o1) h
      exact ⟨by suff, o3⟩

theorem inv_forRest {f} (ih : Inv f) : ∀ ts0 fp init ts t r, ts <:+ ts0 → In ts0 fp .FOR → AllOkO ts0 init →
    parsePosForRest (f+1) fp init ts = some (t, r) → r <:+ ts ∧ AllOk ts0 t := by
  intro ts0 fp init ts t r hs hf hi h
  simp only [parsePosForRest] at h
  have tail : ∀ (cond : Option PP) (r0 : List Item), r0 <:+ ts → AllOkO ts0 cond →
      (match expect Tok.SEMICOLON r0 with
        | none => none
        | some r1 =>
          match
            if tk r1 = Tok.LEFT_BRACE then
              match parsePosBlock f r1 with
              | some (b, r2) => if stmtEnd (tk r2) = true then some (b, r2) else none
              | none => none
            else none with
          | some (b, r2) => some (PP.forS init cond none b fp, r2)
          | none =>
            match parsePosSimple f r1 with
            | some (l, r2) =>
              match parsePosBlock f r2 with
              | some (b, r3) => some (PP.forS init cond (some l) b fp, r3)
              | none => none
            | none => none) = some (t, r) → r <:+ ts ∧ AllOk ts0 t := by
    intro cond r0 s0 oc h
    rcases h1 : expect .SEMICOLON r0 with _ | r1 <;> simp only [h1, reduceCtorEq] at h
    have e1 := expect_suffix h1
    have rest : (match parsePosSimple f r1 with
          | some (l, r2) =>
            match parsePosBlock f r2 with
            | some (b, r3) => some (PP.forS init cond (some l) b fp, r3)
            | none => none
          | none => none) = some (t, r) → r <:+ ts ∧ AllOk ts0 t := by
      intro h
      rcases h2 : parsePosSimple f r1 with _ | ⟨l, r2⟩ <;> simp only [h2, reduceCtorEq] at h
      rcases h3 : parsePosBlock f r2 with _ | ⟨b, r3⟩ <;> simp only [h3, reduceCtorEq] at h
      obtain ⟨s2, o2⟩ := ih.simple ts0 r1 l r2 (by suff) h2
      obtain ⟨s3, o3⟩ := ih.block ts0 r2 b r3 (by suff) h3
      cases h
      exact ⟨by suff, ok_forS hi oc (AllOkO.some o2) o3 hf⟩
    by_cases hb : tk r1 = Tok.LEFT_BRACE
    · simp only [hb, ↓reduceIte] at h
      rcases h2 : parsePosBlock f r1 with _ | ⟨b, r2⟩ <;> simp only [h2] at h
      · exact rest h
      · by_cases he : stmtEnd (tk r2) = true
        · simp only [he, ↓reduceIte] at h
          obtain ⟨s2, o2⟩ := ih.block ts0 r1 b r2 (by suff) h2
          cases h
          exact ⟨by suff, ok_forS hi oc AllOkO.none o2 hf⟩
        · simp only [he, Bool.false_eq_true, ↓reduceIte] at h
          exact rest h
    · simp only [hb, ↓reduceIte] at h
      exact rest h
  by_cases hsc : tk ts = Tok.SEMICOLON
  · simp only [hsc, ↓reduceIte] at h
    exact tail none ts (List.suffix_refl _) AllOkO.none h
  · simp only [hsc, ↓reduceIte] at h
    rcases h1 : parsePosExpr f 1 ts with _ | ⟨c, r1⟩ <;> simp only [h1, reduceCtorEq] at h
    obtain ⟨s1, o1⟩ := ih.expr ts0 1 ts c r1 hs h1
    exact tail (some c) r1 s1 (AllOkO.some o1) h

theorem inv : ∀ f, Inv f
  | 0 => inv_zero
  | f+1 =>
    have ih := inv f
    { expr := inv_expr ih, binRest := inv_binRest ih, unary := inv_unary ih, primary := inv_primary ih
      afterIdent := inv_afterIdent ih, indexChain := inv_indexChain ih, attrChain := inv_attrChain ih
      attrY := inv_attrY ih, attrYIdx := inv_attrYIdx ih, sliceChain := inv_sliceChain ih
      sliceBody := inv_sliceBody ih, args := inv_args ih, listElems := inv_listElems ih
      mapElems := inv_mapElems ih, commaParams := inv_commaParams ih, simple := inv_simple ih
      block := inv_block ih, stmts := inv_stmts ih, stmtsTail := inv_stmtsTail ih
      stmtsAfterSep := inv_stmtsAfterSep ih, stmt := inv_stmt ih, elifs := inv_elifs ih
      for_ := inv_for ih, forRest := inv_forRest ih }

theorem NodeOk.mono {ts its : List Item} {n : PP} (h : NodeOk ts n) (hs : ts.Sublist its) : NodeOk its n := by
  obtain ⟨a, b, c, d⟩ := h
  refine ⟨?_, b, c, fun h0 => d (List.Pairwise.sublist hs h0)⟩
  intro pk hpk
  obtain ⟨i, hi, h1, h2⟩ := a pk hpk
  exact ⟨i, hs.subset hi, h1, h2⟩

/-- every tree `parsePosItems` returns satisfies the invariant with respect to the input items -/
theorem parsePosItems_ok {its : List Item} {tps : List PP} (h : parsePosItems its = some tps) :
    ∀ tp ∈ tps, AllOk its tp := by
  simp only [parsePosItems] at h
  split at h
  · cases h
  · split at h
    · split at h
      · cases h; intro tp htp; cases htp
      · cases h
    · rcases h1 : parsePosStmts (16 * (its.filter fun i => decide (i.typ ≠ .COMMENT)).length + 64)
          (skipE (its.filter fun i => decide (i.typ ≠ .COMMENT))) with _ | ⟨ss, r⟩ <;>
        simp only [h1, reduceCtorEq] at h
      split at h
      · cases h
        obtain ⟨_, o⟩ := (inv _).stmts (its.filter fun i => decide (i.typ ≠ .COMMENT)) _ _ r (skipE_suffix _) h1
        intro tp htp n hn
        exact (o tp htp n hn).mono List.filter_sublist
      · cases h

end Platypus.ParsePos
