import Platypus.Proofs.ErrPosStart
import Platypus.Proofs.ElabPos
/-!
Bridge from the error-location theorems to the front end: the token positions the error theorems
speak of (`storedOf`) are among the positions `FrontEnd.elab_positions` characterises (`allPosOf`).
-/
namespace Platypus.ErrPos
open Platypus Platypus.FrontEnd

mutual
theorem stored_sub_allPos : ∀ (n : Node) (p : Pos), p ∈ storedOf n → p ∈ allPosOf n
  | .ident _ _, p, h | .strLit _ _, p, h | .intLit _ _, p, h | .floatLit _ _, p, h
  | .boolLit _ _, p, h | .nilLit _, p, h | .brk _, p, h | .cont _, p, h => by
    simpa [storedOf, allPosOf] using h
  | .list xs lb rb, p, h => by
    simp only [storedOf, allPosOf, List.mem_cons] at h ⊢
    rcases h with h | h | h
    · exact Or.inl h
    · exact Or.inr (Or.inl h)
    · exact Or.inr (Or.inr (storedL_sub_allPos xs p h))
  | .map kvs lb rb, p, h => by
    simp only [storedOf, allPosOf, List.mem_cons] at h ⊢
    rcases h with h | h | h
    · exact Or.inl h
    · exact Or.inr (Or.inl h)
    · exact Or.inr (Or.inr (storedKV_sub_allPos kvs p h))
  | .paren e lp rp, p, h => by
    simp only [storedOf, allPosOf, List.mem_cons] at h ⊢
    rcases h with h | h | h
    · exact Or.inl h
    · exact Or.inr (Or.inl h)
    · exact Or.inr (Or.inr (stored_sub_allPos e p h))
  | .attr o a q, p, h => by
    simp only [storedOf, allPosOf, List.mem_cons, List.mem_append] at h ⊢
    rcases h with h | h | h
    · exact Or.inl h
    · exact Or.inr (Or.inl (storedO_sub_allPos o p h))
    · exact Or.inr (Or.inr (storedO_sub_allPos a p h))
  | .index obj idx lbs rbs, p, h => by
    simp only [storedOf, allPosOf, List.mem_append] at h ⊢
    rcases h with ((h | h) | h) | h
    · refine Or.inl ?_
      cases obj with
      | none => simp at h
      | some o => simpa [objPos] using h
    · exact Or.inr (Or.inl h)
    · exact Or.inr (Or.inr (Or.inl h))
    · exact Or.inr (Or.inr (Or.inr (storedL_sub_allPos idx p h)))
  | .unary _ e q, p, h => by
    simp only [storedOf, allPosOf, List.mem_cons] at h ⊢
    rcases h with h | h
    · exact Or.inl h
    · exact Or.inr (stored_sub_allPos e p h)
  | .arith _ l r q, p, h => by
    simp only [storedOf, allPosOf, List.mem_cons, List.mem_append] at h ⊢
    rcases h with h | h | h
    · exact Or.inl h
    · exact Or.inr (Or.inl (stored_sub_allPos l p h))
    · exact Or.inr (Or.inr (stored_sub_allPos r p h))
  | .cond _ l r q, p, h => by
    simp only [storedOf, allPosOf, List.mem_cons, List.mem_append] at h ⊢
    rcases h with h | h | h
    · exact Or.inl h
    · exact Or.inr (Or.inl (stored_sub_allPos l p h))
    · exact Or.inr (Or.inr (stored_sub_allPos r p h))
  | .inE l r q, p, h => by
    simp only [storedOf, allPosOf, List.mem_cons, List.mem_append] at h ⊢
    rcases h with h | h | h
    · exact Or.inl h
    · exact Or.inr (Or.inl (stored_sub_allPos l p h))
    · exact Or.inr (Or.inr (stored_sub_allPos r p h))
  | .assign _ lhs rhs q, p, h => by
    simp only [storedOf, allPosOf, List.mem_cons, List.mem_append] at h ⊢
    rcases h with h | h | h
    · exact Or.inl h
    · exact Or.inr (Or.inl (storedL_sub_allPos lhs p h))
    · exact Or.inr (Or.inr (storedL_sub_allPos rhs p h))
  | .call _ args np lp rp _, p, h => by
    simp only [storedOf, allPosOf, List.mem_cons] at h ⊢
    rcases h with h | h | h | h
    · exact Or.inl h
    · exact Or.inr (Or.inl h)
    · exact Or.inr (Or.inr (Or.inl h))
    · exact Or.inr (Or.inr (Or.inr (storedL_sub_allPos args p h)))
  | .slice o a b c _ lb rb, p, h => by
    simp only [storedOf, allPosOf, List.mem_cons, List.mem_append] at h ⊢
    rcases h with h | h | h | h | h | h
    · exact Or.inl h
    · exact Or.inr (Or.inl h)
    · exact Or.inr (Or.inr (Or.inl (stored_sub_allPos o p h)))
    · exact Or.inr (Or.inr (Or.inr (Or.inl (storedO_sub_allPos a p h))))
    · exact Or.inr (Or.inr (Or.inr (Or.inr (Or.inl (storedO_sub_allPos b p h)))))
    · exact Or.inr (Or.inr (Or.inr (Or.inr (Or.inr (storedO_sub_allPos c p h)))))
  | .ifelse ifs els ep, p, h => by
    simp only [storedOf, allPosOf, List.mem_append] at h ⊢
    rcases h with h | h
    · exact Or.inr (Or.inr (storedIfs_sub_allPos ifs p h))
    · exact Or.inr (Or.inl (storedOB_sub_allPos els p h))
  | .forS i c l b q, p, h => by
    simp only [storedOf, allPosOf, List.mem_cons, List.mem_append] at h ⊢
    rcases h with h | h | h | h | h
    · exact Or.inl h
    · exact Or.inr (Or.inl (storedO_sub_allPos i p h))
    · exact Or.inr (Or.inr (Or.inl (storedO_sub_allPos c p h)))
    · exact Or.inr (Or.inr (Or.inr (Or.inl (storedO_sub_allPos l p h))))
    · exact Or.inr (Or.inr (Or.inr (Or.inr (storedOB_sub_allPos b p h))))
  | .forIn v it b fp ip, p, h => by
    simp only [storedOf, allPosOf, List.mem_cons, List.mem_append] at h ⊢
    rcases h with h | h | h | h | h
    · exact Or.inl h
    · exact Or.inr (Or.inl h)
    · exact Or.inr (Or.inr (Or.inl (stored_sub_allPos v p h)))
    · exact Or.inr (Or.inr (Or.inr (Or.inl (stored_sub_allPos it p h))))
    · exact Or.inr (Or.inr (Or.inr (Or.inr (storedOB_sub_allPos b p h))))
theorem storedL_sub_allPos : ∀ (l : List Node) (p : Pos), p ∈ storedOfL l → p ∈ allPosOfL l
  | [], p, h => by simp [storedOfL] at h
  | x :: r, p, h => by
    simp only [storedOfL, allPosOfL, List.mem_append] at h ⊢
    rcases h with h | h
    · exact Or.inl (stored_sub_allPos x p h)
    · exact Or.inr (storedL_sub_allPos r p h)
theorem storedO_sub_allPos : ∀ (o : Option Node) (p : Pos), p ∈ storedOfO o → p ∈ allPosOfO o
  | none, p, h => by simp [storedOfO] at h
  | some x, p, h => by simpa only [allPosOfO] using stored_sub_allPos x p (by simpa only [storedOfO] using h)
theorem storedKV_sub_allPos : ∀ (l : List (Node × Node)) (p : Pos), p ∈ storedOfKV l → p ∈ allPosOfKV l
  | [], p, h => by simp [storedOfKV] at h
  | (k, v) :: r, p, h => by
    simp only [storedOfKV, allPosOfKV, List.mem_append] at h ⊢
    rcases h with h | h | h
    · exact Or.inl (stored_sub_allPos k p h)
    · exact Or.inr (Or.inl (stored_sub_allPos v p h))
    · exact Or.inr (Or.inr (storedKV_sub_allPos r p h))
theorem storedOB_sub_allPos : ∀ (o : Option (List Node)) (p : Pos), p ∈ storedOfOB o → p ∈ allPosOfOB o
  | none, p, h => by simp [storedOfOB] at h
  | some b, p, h => by simpa only [allPosOfOB] using storedL_sub_allPos b p (by simpa only [storedOfOB] using h)
theorem storedIfs_sub_allPos : ∀ (l : List (Node × Option (List Node) × Pos)) (p : Pos),
    p ∈ storedOfIfs l → p ∈ allPosOfIfs l
  | [], p, h => by simp [storedOfIfs] at h
  | (c, b, q) :: r, p, h => by
    simp only [storedOfIfs, allPosOfIfs, List.mem_cons, List.mem_append] at h ⊢
    rcases h with h | h | h | h
    · exact Or.inl h
    · exact Or.inr (Or.inl (stored_sub_allPos c p h))
    · exact Or.inr (Or.inr (Or.inl (storedOB_sub_allPos b p h)))
    · exact Or.inr (Or.inr (Or.inr (storedIfs_sub_allPos r p h)))
end

end Platypus.ErrPos
