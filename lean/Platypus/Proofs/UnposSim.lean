import Lean
import Platypus.Proofs.ElabUnpos
import Platypus.Proofs.Machine
import Platypus.Model.EvalV2
import Platypus.Model.Check
/-!
# Layout independence, helper 1: the relations and their calculus

`ErrSim` (same message, same files in the same order; positions free), `ResSim` (results equal up to
error positions), `Sim` (computations of the `EM` monad with `ResSim` results from every state),
`EnvSim` (environments equal up to the positions stored in the scripts bound to `use()` sites),
`unposEnv` (the environment with every bound script's positions forgotten).

The run-time state (`St` = `Task` × `World`) stores no position at all (names, values, flags, heap,
point, counters, trace), so states are related by *equality*.
-/
set_option linter.unusedVariables false
namespace Platypus.LayoutSemantics
open Platypus Platypus.FrontEnd Platypus.MachineProofs

/-- same trees up to stored positions -/
def SameTree (a b : Node) : Prop := unpos a = unpos b
/-- … for statement lists -/
def SameTrees (a b : List Node) : Prop := a.map unpos = b.map unpos

/-- same message, same files in the same order (hence the same chain length); positions are free -/
def ErrSim (e e' : PlErr) : Prop := e.msg = e'.msg ∧ e.chain.map (·.1) = e'.chain.map (·.1)

theorem ErrSim.refl (e : PlErr) : ErrSim e e := ⟨rfl, rfl⟩
theorem ErrSim.symm {e e' : PlErr} (h : ErrSim e e') : ErrSim e' e := ⟨h.1.symm, h.2.symm⟩
theorem ErrSim.trans {a b c : PlErr} (h : ErrSim a b) (h' : ErrSim b c) : ErrSim a c :=
  ⟨h.1.trans h'.1, h.2.trans h'.2⟩
theorem ErrSim.new (file : Bytes) (p p' : Pos) (m : String) : ErrSim (PlErr.new file p m) (PlErr.new file p' m) :=
  ⟨rfl, rfl⟩
theorem ErrSim.append {e e' : PlErr} (h : ErrSim e e') (file : Bytes) (p p' : Pos) :
    ErrSim (e.append file p) (e'.append file p') := by
  refine ⟨h.1, ?_⟩
  simp only [PlErr.append, List.map_append, h.2, List.map_cons, List.map_nil]
theorem ErrSim.length {e e' : PlErr} (h : ErrSim e e') : e.chain.length = e'.chain.length := by
  have := congrArg List.length h.2
  simpa using this

/-- equal results up to the positions in an error: equal value and state; equal state and `ErrSim`
    errors; equal panic message; equal engine question -/
def ResSim {α} : Res α → Res α → Prop
  | .ok a s, .ok a' s' => a = a' ∧ s = s'
  | .err e s, .err e' s' => ErrSim e e' ∧ s = s'
  | .panic m, .panic m' => m = m'
  | .fuel, .fuel => True
  | .need q, .need q' => q = q'
  | _, _ => False

theorem ResSim.refl {α} (r : Res α) : ResSim r r := by
  cases r <;> simp [ResSim, ErrSim.refl]
theorem ResSim.of_eq {α} {r r' : Res α} (h : r = r') : ResSim r r' := h ▸ ResSim.refl r
theorem ResSim.symm {α} {r r' : Res α} (h : ResSim r r') : ResSim r' r := by
  cases r <;> cases r' <;> first | exact h.elim | skip
  · exact ⟨h.1.symm, h.2.symm⟩
  · exact ⟨h.1.symm, h.2.symm⟩
  · exact Eq.symm h
  · exact True.intro
  · exact Eq.symm h
theorem ResSim.trans {α} {a b c : Res α} (h : ResSim a b) (h' : ResSim b c) : ResSim a c := by
  cases a <;> cases b <;> (first | exact h.elim | skip) <;> cases c <;> first | exact h'.elim | skip
  · exact ⟨h.1.trans h'.1, h.2.trans h'.2⟩
  · exact ⟨h.1.trans h'.1, h.2.trans h'.2⟩
  · exact Eq.trans h h'
  · exact True.intro
  · exact Eq.trans h h'

/-- the three ways two results can be similar -/
theorem ResSim.cases {α} {r r' : Res α} (h : ResSim r r') :
    (∃ a s, r = .ok a s ∧ r' = .ok a s) ∨
    (∃ e e' s, r = .err e s ∧ r' = .err e' s ∧ ErrSim e e') ∨
    (r = r' ∧ (∀ a s, r ≠ .ok a s) ∧ (∀ e s, r ≠ .err e s)) := by
  cases r <;> cases r' <;> first | exact h.elim | skip
  · obtain ⟨rfl, rfl⟩ := h
    exact .inl ⟨_, _, rfl, rfl⟩
  · obtain ⟨he, rfl⟩ := h
    exact .inr (.inl ⟨_, _, _, rfl, rfl, he⟩)
  · cases (h : _ = _)
    exact .inr (.inr ⟨rfl, (by intro _ _ h; cases h), (by intro _ _ h; cases h)⟩)
  · exact .inr (.inr ⟨rfl, (by intro _ _ h; cases h), (by intro _ _ h; cases h)⟩)
  · cases (h : _ = _)
    exact .inr (.inr ⟨rfl, (by intro _ _ h; cases h), (by intro _ _ h; cases h)⟩)

theorem ResSim.ok {α} (a : α) (s : St) : ResSim (.ok a s) (.ok a s) := ⟨rfl, rfl⟩
theorem ResSim.err {α} {e e' : PlErr} (h : ErrSim e e') (s : St) : ResSim (.err e s : Res α) (.err e' s) := ⟨h, rfl⟩

/-- computations with similar results from every state -/
def Sim {α} (m m' : EM α) : Prop := ∀ s, ResSim (m s) (m' s)

theorem Sim.refl {α} (m : EM α) : Sim m m := fun s => ResSim.refl _
theorem Sim.of_eq {α} {m m' : EM α} (h : m = m') : Sim m m' := h ▸ Sim.refl m
theorem Sim.symm {α} {m m' : EM α} (h : Sim m m') : Sim m' m := fun s => (h s).symm
theorem Sim.trans {α} {a b c : EM α} (h : Sim a b) (h' : Sim b c) : Sim a c := fun s => (h s).trans (h' s)

theorem rbind_sim {α β} {r r' : Res α} {k k' : α → EM β} (h : ResSim r r') (hk : ∀ a, Sim (k a) (k' a)) :
    ResSim (rbind r k) (rbind r' k') := by
  rcases h.cases with ⟨a, s, rfl, rfl⟩ | ⟨e, e', s, rfl, rfl, he⟩ | ⟨rfl, h1, h2⟩
  · exact hk a s
  · exact ⟨he, rfl⟩
  · cases r with
    | ok a s => exact absurd rfl (h1 a s)
    | err e s => exact absurd rfl (h2 e s)
    | panic m => exact rfl
    | fuel => exact True.intro
    | need q => exact rfl

theorem Sim.bind {α β} {m m' : EM α} {k k' : α → EM β} (hm : Sim m m') (hk : ∀ a, Sim (k a) (k' a)) :
    Sim (m >>= k) (m' >>= k') := by
  intro s
  simp only [bind_apply]
  exact rbind_sim (hm s) hk

theorem Sim.bind_same {α β} {m : EM α} {k k' : α → EM β} (hk : ∀ a, Sim (k a) (k' a)) :
    Sim (m >>= k) (m >>= k') := Sim.bind (Sim.refl m) hk

theorem map_apply {α β} (g : α → β) (m : EM α) (s : St) :
    (g <$> m) s = rbind (m s) (fun a => pure (g a)) := by
  show EM.bind m _ s = _
  unfold EM.bind
  cases m s <;> rfl

theorem Sim.map {α β} {m m' : EM α} (g : α → β) (hm : Sim m m') : Sim (g <$> m) (g <$> m') := by
  intro s
  simp only [map_apply]
  exact rbind_sim (hm s) fun _ => Sim.refl _

theorem Sim.runErr {α} (p p' : Pos) (msg : String) : Sim (runErr p msg : EM α) (runErr p' msg) :=
  fun s => ⟨ErrSim.new _ _ _ _, rfl⟩

theorem Sim.ite {α} (c : Prop) [Decidable c] {A A' B B' : EM α} (h1 : Sim A A') (h2 : Sim B B') :
    Sim (if c then A else B) (if c then A' else B') := by
  split
  · exact h1
  · exact h2

theorem Sim.finally {α} {m m' : EM α} (fin : St → St) (h : Sim m m') : Sim (m.finally fin) (m'.finally fin) := by
  intro s
  simp only [finally_apply]
  rcases (h s).cases with ⟨a, s', h1, h2⟩ | ⟨e, e', s', h1, h2, he⟩ | ⟨h1, h2, h3⟩
  · rw [h1, h2]; exact ⟨rfl, rfl⟩
  · rw [h1, h2]; exact ⟨he, rfl⟩
  · rw [← h1]; exact ResSim.refl _

/-! ### environments -/

/-- the environment whose bound scripts have forgotten their positions -/
def unposEnv (env : Env) : Env :=
  { env with bound := fun site => (env.bound site).map fun p => (p.1, unposL p.2) }

/-- equal environments up to the positions in the scripts bound to `use()` sites -/
structure EnvSim (env env' : Env) : Prop where
  bound : ∀ site, (env.bound site).map (fun p => (p.1, p.2.map unpos)) =
    (env'.bound site).map (fun p => (p.1, p.2.map unpos))
  fns : env.fns = env'.fns
  sigK : env.sigK = env'.sigK
  hasSignal : env.hasSignal = env'.hasSignal
  mapOrder : env.mapOrder = env'.mapOrder
  grok : env.grok = env'.grok
  oracle : env.oracle = env'.oracle

theorem EnvSim.refl (env : Env) : EnvSim env env := ⟨fun _ => rfl, rfl, rfl, rfl, rfl, rfl, rfl⟩

theorem EnvSim.unposEnv_eq {env env' : Env} (h : EnvSim env env') : unposEnv env = unposEnv env' := by
  obtain ⟨b, fns, sigK, hs, mo, gr, orc⟩ := env
  obtain ⟨b', fns', sigK', hs', mo', gr', orc'⟩ := env'
  obtain ⟨h1, h2, h3, h4, h5, h6, h7⟩ := h
  simp only at h1 h2 h3 h4 h5 h6 h7
  subst h2 h3 h4 h5 h6 h7
  simp only [unposEnv, Env.mk.injEq, and_true]
  funext site
  have := h1 site
  simpa only [unposL_eq_map] using this

@[simp] theorem unposEnv_fns (env : Env) : (unposEnv env).fns = env.fns := rfl
@[simp] theorem unposEnv_sigK (env : Env) : (unposEnv env).sigK = env.sigK := rfl
@[simp] theorem unposEnv_hasSignal (env : Env) : (unposEnv env).hasSignal = env.hasSignal := rfl
@[simp] theorem unposEnv_mapOrder (env : Env) : (unposEnv env).mapOrder = env.mapOrder := rfl
@[simp] theorem unposEnv_grok (env : Env) : (unposEnv env).grok = env.grok := rfl
@[simp] theorem unposEnv_oracle (env : Env) : (unposEnv env).oracle = env.oracle := rfl
theorem unposEnv_bound (env : Env) (site : Nat) :
    (unposEnv env).bound site = (env.bound site).map fun p => (p.1, unposL p.2) := rfl

theorem procExit_unposEnv (env : Env) : procExit (unposEnv env) = procExit env := rfl
theorem stmtReturn_unposEnv (env : Env) : stmtReturn (unposEnv env) = stmtReturn env := rfl
theorem ask_unposEnv (env : Env) : ask (unposEnv env) = ask env := rfl
theorem castToString_unposEnv (env : Env) : castToString (unposEnv env) = castToString env := by
  funext v; cases v <;> rfl
theorem conv2str_unposEnv (env : Env) : conv2str (unposEnv env) = conv2str env := by
  funext x; unfold conv2str; simp only [castToString_unposEnv, ask_unposEnv]

/-! ### position-free views of a node -/

theorem unposL_nil : unposL [] = [] := rfl
theorem unposL_cons (x : Node) (r : List Node) : unposL (x :: r) = unpos x :: unposL r := rfl
theorem unposL_length (l : List Node) : (unposL l).length = l.length := by
  rw [unposL_eq_map]; simp
theorem unposL_isEmpty (l : List Node) : (unposL l).isEmpty = l.isEmpty := by
  cases l <;> rfl

mutual
/-- forgetting positions twice is forgetting them once -/
theorem unpos_idem : ∀ n : Node, unpos (unpos n) = unpos n
  | .ident _ _ | .strLit _ _ | .intLit _ _ | .floatLit _ _ | .boolLit _ _ | .nilLit _ | .brk _ | .cont _ => rfl
  | .list xs _ _ => by simp only [unpos, unposL_idem xs]
  | .map kvs _ _ => by simp only [unpos, unposKV_idem kvs]
  | .paren e _ _ => by simp only [unpos, unpos_idem e]
  | .attr o a _ => by simp only [unpos, unposO_idem o, unposO_idem a]
  | .index obj idx lbs rbs => by
    simp only [unpos, unposL_idem idx, List.map_map, Option.map_map]
    cases obj <;> rfl
  | .unary _ e _ => by simp only [unpos, unpos_idem e]
  | .arith _ l r _ => by simp only [unpos, unpos_idem l, unpos_idem r]
  | .cond _ l r _ => by simp only [unpos, unpos_idem l, unpos_idem r]
  | .inE l r _ => by simp only [unpos, unpos_idem l, unpos_idem r]
  | .assign _ l r _ => by simp only [unpos, unposL_idem l, unposL_idem r]
  | .call _ args _ _ _ _ => by simp only [unpos, unposL_idem args]
  | .slice o a b c _ _ _ => by simp only [unpos, unpos_idem o, unposO_idem a, unposO_idem b, unposO_idem c]
  | .ifelse ifs els _ => by simp only [unpos, unposIfs_idem ifs, unposOB_idem els]
  | .forS i c l b _ => by simp only [unpos, unposO_idem i, unposO_idem c, unposO_idem l, unposOB_idem b]
  | .forIn v it b _ _ => by simp only [unpos, unpos_idem v, unpos_idem it, unposOB_idem b]
theorem unposL_idem : ∀ l : List Node, unposL (unposL l) = unposL l
  | [] => rfl
  | x :: r => by simp only [unposL, unpos_idem x, unposL_idem r]
theorem unposO_idem : ∀ o : Option Node, unposO (unposO o) = unposO o
  | none => rfl
  | some x => by simp only [unposO, unpos_idem x]
theorem unposKV_idem : ∀ l : List (Node × Node), unposKV (unposKV l) = unposKV l
  | [] => rfl
  | (k, v) :: r => by simp only [unposKV, unpos_idem k, unpos_idem v, unposKV_idem r]
theorem unposOB_idem : ∀ o : Option (List Node), unposOB (unposOB o) = unposOB o
  | none => rfl
  | some b => by simp only [unposOB, unposL_idem b]
theorem unposIfs_idem : ∀ l : List (Node × Option (List Node) × Pos), unposIfs (unposIfs l) = unposIfs l
  | [] => rfl
  | (c, b, _) :: r => by simp only [unposIfs, unpos_idem c, unposOB_idem b, unposIfs_idem r]
end

mutual
theorem nodeStr_unpos : ∀ (f : Nat) (n : Node), nodeStr f (unpos n) = nodeStr f n
  | 0, n => by cases n <;> simp only [nodeStr]
  | f+1, n => by
    cases n
    case attr o a p =>
      cases o <;> cases a <;> simp only [unpos, unposO, nodeStr, nodeStr_unpos f]
    case index obj idx lbs rbs =>
      cases obj <;> simp only [unpos, nodeStr, Option.map, idxStr_unpos f]
    all_goals simp only [unpos, nodeStr]
theorem idxStr_unpos : ∀ (f : Nat) (l : List Node), idxStr f (unposL l) = idxStr f l
  | 0, l => by simp only [idxStr]
  | f+1, [] => by simp only [unposL, idxStr]
  | f+1, x :: r => by simp only [unposL, idxStr, nodeStr_unpos f, idxStr_unpos f]
end

theorem getKeyName_unpos (n : Node) : getKeyName (unpos n) = getKeyName n := by
  cases n
  case attr o a p =>
    have := nodeStr_unpos 64 (.attr o a p)
    simp only [unpos] at this
    simp only [unpos, getKeyName, this]
  all_goals simp only [unpos, getKeyName]

theorem Sim.panic_bind {α β} (m : String) (k k' : α → EM β) : Sim (panicE m >>= k) (panicE m >>= k') :=
  fun _ => rfl
theorem Sim.fuel_bind {α β} (k k' : α → EM β) : Sim (outOfFuel >>= k) (outOfFuel >>= k') :=
  fun _ => True.intro
theorem Sim.need_bind {α β} (q : Bytes) (k k' : α → EM β) : Sim (needE q >>= k) (needE q >>= k') :=
  fun _ => rfl

open Lean Elab Tactic Meta in
/-- close the goal with a local hypothesis `∀ …, R a b` whose relation symbol is the goal's -/
elab "sim_hyp" : tactic => withMainContext do
  let g ← getMainGoal
  let tgt ← whnfR (← instantiateMVars (← g.getType))
  let some hd := tgt.getAppFn.constName? | throwError "sim_hyp: goal is not an application of a constant"
  for d in (← getLCtx) do
    if d.isImplementationDetail then continue
    let ty ← instantiateMVars d.type
    if ty.getForallBody.getAppFn.constName? == some hd then
      let s ← saveState
      try
        let gs ← g.apply d.toExpr
        if gs.isEmpty then
          replaceMainGoal []
          return
        else s.restore
      catch _ => s.restore
  throwError "sim_hyp: no hypothesis applies"

open Lean Elab Tactic Meta in
/-- `sim_res h` with `h : ResSim A B`: replace `A`, `B` in the goal by the possible pairs of similar
    results; the goals with equal non-ok, non-error results are tried with reflexivity.  Leaves the
    ok/ok goal (`a`, `s'`) and the err/err goal (`e`, `e'`, `s'`, `he : ErrSim e e'`). -/
elab "sim_res " h:term : tactic => withMainContext do
  let e ← elabTerm h none
  let ty ← whnfR (← instantiateMVars (← inferType e))
  unless ty.isAppOfArity ``Platypus.LayoutSemantics.ResSim 3 do throwError "sim_res: not a ResSim fact"
  let A ← Term.exprToSyntax ty.getAppArgs[1]!
  let B ← Term.exprToSyntax ty.getAppArgs[2]!
  let a := mkIdent `a
  let s' := mkIdent `s'
  let e1 := mkIdent `e
  let e2 := mkIdent `e'
  let he := mkIdent `he
  evalTactic (← `(tactic| (
    try dsimp only
    have hs := $h
    generalize $A = rA at hs ⊢
    generalize $B = rB at hs ⊢
    rcases ResSim.cases hs with ⟨$a, $s', h1, h2⟩ | ⟨$e1, $e2, $s', h1, h2, $he⟩ | ⟨h1, h2, h3⟩
    rotate_left 2
    · subst h1
      cases rA <;> first | exact absurd rfl (h2 _ _) | exact absurd rfl (h3 _ _) | exact ResSim.refl _
    all_goals (clear hs; subst h1; subst h2; try dsimp only) )))

/-- structural decomposition of a `Sim` goal between two computations of the same shape: reflexivity,
    error positions, hypotheses, binds, `finally`, `<$>`, then case splits on matches/ifs; what it
    cannot close is left as goals -/
syntax "sim_tac" : tactic
macro_rules
  | `(tactic| sim_tac) => `(tactic|
    first
    | (with_reducible exact Sim.refl _)
    | (with_reducible exact Sim.runErr _ _ _)
    | sim_hyp
    | (with_reducible exact Sim.panic_bind _ _ _)
    | (with_reducible exact Sim.fuel_bind _ _)
    | (with_reducible exact Sim.need_bind _ _ _)
    | (refine Sim.bind ?_ (fun _ => ?_) <;> sim_tac)
    | (refine Sim.finally _ ?_; sim_tac)
    | (refine Sim.map _ ?_; sim_tac)
    | (split <;> sim_tac)
    | skip)

end Platypus.LayoutSemantics
