import Platypus.Properties.C10
import Platypus.Properties.C01Defs
import Platypus.Model.Eval
import Platypus.Proofs.Machine
import Platypus.Proofs.Assoc
/-!
Base of the C01 proof (no run-time panic): the invariants (`WTV` well-tagged values, `valLo`
integers not below the int64 range, `GS` the state invariant), the heap order `HeapLe` (objects keep
their kind), and a small Hoare logic `Post` for the `EM` monad, pointwise.
-/
namespace Platypus.PanicProofs
open Platypus Platypus.MachineProofs Platypus.C01

/-! ### heaps -/
def kindOf : Obj → Bool
  | .list _ => true
  | .map _ => false

/-- every object of `h` still exists in `h'`, with the same kind -/
def HeapLe (h h' : Heap) : Prop :=
  ∀ a o, h.get? a = some o → ∃ o', h'.get? a = some o' ∧ kindOf o' = kindOf o

theorem HeapLe.refl (h : Heap) : HeapLe h h := fun _ o ho => ⟨o, ho, rfl⟩

theorem HeapLe.trans {h1 h2 h3 : Heap} (a : HeapLe h1 h2) (b : HeapLe h2 h3) : HeapLe h1 h3 := by
  intro x o ho
  obtain ⟨o', ho', hk⟩ := a x o ho
  obtain ⟨o'', ho'', hk'⟩ := b x o' ho'
  exact ⟨o'', ho'', hk'.trans hk⟩

theorem heapLe_append (h l : Heap) : HeapLe h (h ++ l) := by
  intro a o ho
  refine ⟨o, ?_, rfl⟩
  unfold Heap.get? at *
  rw [List.getElem?_append_left]
  · exact ho
  · exact (List.getElem?_eq_some_iff.1 ho).1

theorem heapLe_alloc (h : Heap) (o : Obj) : HeapLe h (h.alloc o).1 := heapLe_append h [o]

theorem get_alloc (h : Heap) (o : Obj) : (h.alloc o).1.get? (h.alloc o).2 = some o := by
  simp [Heap.alloc, Heap.get?]

theorem heapLe_set {h : Heap} {a : Nat} {o o' : Obj} (hg : h.get? a = some o)
    (hk : kindOf o' = kindOf o) : HeapLe h (h.set a o') := by
  intro b ob hb
  unfold Heap.get? Heap.set at *
  by_cases hab : a = b
  · subst hab
    rw [hg] at hb
    cases hb
    refine ⟨o', ?_, hk⟩
    rw [List.getElem?_set_self]
    exact (List.getElem?_eq_some_iff.1 hg).1
  · exact ⟨ob, by rw [List.getElem?_set_ne hab]; exact hb, rfl⟩

/-! ### values -/

/-- the same proposition as `C01.WTV` -/
def WTV (h : Heap) (x : TV) : Prop :=
  ((x.t = .int ∨ x.t = .float ∨ x.t = .bool ∨ x.t = .str) → C10.scalarType x.v = x.t) ∧
  (x.t = .list → ∃ a xs, x.v = .ref a ∧ h.get? a = some (.list xs)) ∧
  (x.t = .map → ∃ a kvs, x.v = .ref a ∧ h.get? a = some (.map kvs))

/-- good value: well tagged, integer not too low -/
def GV (h : Heap) (x : TV) : Prop := WTV h x ∧ valLo x.v

theorem WTV.mono {h h' : Heap} {x : TV} (hle : HeapLe h h') (hx : WTV h x) : WTV h' x := by
  refine ⟨hx.1, ?_, ?_⟩
  · intro ht
    obtain ⟨a, xs, hv, hg⟩ := hx.2.1 ht
    obtain ⟨o', ho', hk⟩ := hle a _ hg
    cases o' with
    | list ys => exact ⟨a, ys, hv, ho'⟩
    | map _ => simp [kindOf] at hk
  · intro ht
    obtain ⟨a, xs, hv, hg⟩ := hx.2.2 ht
    obtain ⟨o', ho', hk⟩ := hle a _ hg
    cases o' with
    | map ys => exact ⟨a, ys, hv, ho'⟩
    | list _ => simp [kindOf] at hk

theorem GV.mono {h h' : Heap} {x : TV} (hle : HeapLe h h') (hx : GV h x) : GV h' x :=
  ⟨hx.1.mono hle, hx.2⟩

theorem GV.wellTagged {h : Heap} {x : TV} (hx : GV h x) : C10.WellTagged x := by
  unfold C10.WellTagged
  split <;> first | trivial | (apply hx.1.1; simp [*])

/-- scalars carrying their own tag -/
theorem gv_scalar (h : Heap) (v : Val) (t : DType) (ht : C10.scalarType v = t) (hv : valLo v)
    (hnl : t ≠ .list) (hnm : t ≠ .map) : GV h ⟨v, t⟩ :=
  ⟨⟨fun _ => ht, fun e => absurd e hnl, fun e => absurd e hnm⟩, hv⟩

theorem gv_int (h : Heap) (i : Int) (hi : minI64 ≤ i) : GV h ⟨.int i, .int⟩ :=
  gv_scalar h _ _ rfl hi (by decide) (by decide)
theorem gv_nat (h : Heap) (n : Nat) : GV h ⟨.int n, .int⟩ :=
  gv_int h n (by unfold minI64; omega)
theorem gv_bool (h : Heap) (b : Bool) : GV h ⟨.bool b, .bool⟩ :=
  gv_scalar h _ _ rfl trivial (by decide) (by decide)
theorem gv_str (h : Heap) (b : Bytes) : GV h ⟨.str b, .str⟩ :=
  gv_scalar h _ _ rfl trivial (by decide) (by decide)
theorem gv_float (h : Heap) (b : UInt64) : GV h ⟨.float b, .float⟩ :=
  gv_scalar h _ _ rfl trivial (by decide) (by decide)
theorem gv_nil (h : Heap) : GV h nilTV := gv_scalar h _ _ rfl trivial (by decide) (by decide)
theorem gv_void (h : Heap) : GV h voidTV :=
  ⟨⟨fun e => by simp [voidTV] at e, fun e => by simp [voidTV] at e, fun e => by simp [voidTV] at e⟩, trivial⟩
theorem gv_inv (h : Heap) : GV h ⟨.nil, .invalid⟩ :=
  ⟨⟨fun e => by simp at e, fun e => by simp at e, fun e => by simp at e⟩, trivial⟩

theorem gv_detect (h : Heap) (v : Val) (hv : valLo v) : GV h (detect h v) := by
  cases v with
  | nil => exact gv_nil h
  | bool b => exact gv_bool h b
  | int i => exact gv_int h i hv
  | float b => exact gv_float h b
  | str b => exact gv_str h b
  | ref a =>
    simp only [detect]
    split
    · rename_i xs hg
      exact ⟨⟨fun e => by simp at e, fun _ => ⟨a, xs, rfl, hg⟩, fun e => by simp at e⟩, trivial⟩
    · rename_i kvs hg
      exact ⟨⟨fun e => by simp at e, fun e => by simp at e, fun _ => ⟨a, kvs, rfl, hg⟩⟩, trivial⟩
    · exact gv_inv h

theorem gv_ref_list {h : Heap} {a : Nat} {xs : List Val} (hg : h.get? a = some (.list xs)) :
    GV h ⟨.ref a, .list⟩ :=
  ⟨⟨fun e => by simp at e, fun _ => ⟨a, xs, rfl, hg⟩, fun e => by simp at e⟩, trivial⟩
theorem gv_ref_map {h : Heap} {a : Nat} {xs : List (Bytes × Val)} (hg : h.get? a = some (.map xs)) :
    GV h ⟨.ref a, .map⟩ :=
  ⟨⟨fun e => by simp at e, fun e => by simp at e, fun _ => ⟨a, xs, rfl, hg⟩⟩, trivial⟩

/-- a tagged string is a string -/
theorem GV.str_val {h : Heap} {x : TV} (hx : GV h x) (ht : x.t = .str) : ∃ b, x.v = .str b := by
  have := hx.1.1 (by simp [ht])
  rw [ht] at this
  cases hv : x.v <;> simp [hv, C10.scalarType] at this
  exact ⟨_, rfl⟩
theorem GV.int_val {h : Heap} {x : TV} (hx : GV h x) (ht : x.t = .int) : ∃ i, x.v = .int i ∧ minI64 ≤ i := by
  have := hx.1.1 (by simp [ht])
  rw [ht] at this
  have hlo := hx.2
  cases hv : x.v <;> simp [hv, C10.scalarType] at this
  rw [hv] at hlo
  exact ⟨_, rfl, hlo⟩
theorem GV.list_val {h : Heap} {x : TV} (hx : GV h x) (ht : x.t = .list) :
    ∃ a xs, x.v = .ref a ∧ h.get? a = some (.list xs) := hx.1.2.1 ht
theorem GV.map_val {h : Heap} {x : TV} (hx : GV h x) (ht : x.t = .map) :
    ∃ a xs, x.v = .ref a ∧ h.get? a = some (.map xs) := hx.1.2.2 ht

/-! ### heap lo-ness -/
theorem heapLo_alloc {h : Heap} {o : Obj} (hh : HeapLo h) (ho : objLo o) : HeapLo (h.alloc o).1 := by
  intro x hx
  simp only [Heap.alloc, List.mem_append, List.mem_singleton] at hx
  rcases hx with hx | rfl
  · exact hh x hx
  · exact ho

theorem heapLo_set {h : Heap} {a : Nat} {o : Obj} (hh : HeapLo h) (ho : objLo o) : HeapLo (h.set a o) := by
  intro x hx
  rcases List.mem_or_eq_of_mem_set hx with hx | rfl
  · exact hh x hx
  · exact ho

theorem heapLo_get {h : Heap} {a : Nat} {o : Obj} (hh : HeapLo h) (hg : h.get? a = some o) : objLo o :=
  hh o (List.mem_of_getElem? hg)

theorem valLo_getD {xs : List Val} (hx : ∀ x ∈ xs, valLo x) (i : Nat) : valLo (xs.getD i .nil) := by
  rw [List.getD_eq_getElem?_getD]
  cases hi : xs[i]? with
  | none => trivial
  | some v => exact hx v (List.mem_of_getElem? hi)

theorem mem_aset {β} {k : Bytes} {v : β} {m : List (Bytes × β)} {kv : Bytes × β} (h : kv ∈ aset k v m) :
    kv = (k, v) ∨ kv ∈ m := by
  induction m with
  | nil => simp at h; exact .inl h
  | cons p r ih =>
    obtain ⟨a, b⟩ := p
    rw [aset_cons] at h
    split at h
    · rcases List.mem_cons.1 h with h | h
      · exact .inl h
      · exact .inr (List.mem_cons_of_mem _ h)
    · rcases List.mem_cons.1 h with h | h
      · exact .inr (h ▸ List.mem_cons_self)
      · rcases ih h with h | h
        · exact .inl h
        · exact .inr (List.mem_cons_of_mem _ h)

theorem mem_aerase {β} {k : Bytes} {m : List (Bytes × β)} {kv : Bytes × β} (h : kv ∈ aerase k m) : kv ∈ m :=
  (aerase_sublist k m).subset h

theorem all_aset {β} {P : β → Prop} {k : Bytes} {v : β} {m : List (Bytes × β)}
    (hm : ∀ kv ∈ m, P kv.2) (hv : P v) : ∀ kv ∈ aset k v m, P kv.2 := by
  intro kv h
  rcases mem_aset h with rfl | h
  · exact hv
  · exact hm kv h

theorem all_aerase {β} {P : β → Prop} {k : Bytes} {m : List (Bytes × β)}
    (hm : ∀ kv ∈ m, P kv.2) : ∀ kv ∈ aerase k m, P kv.2 :=
  fun kv h => hm kv (mem_aerase h)

/-! ### the state invariant -/
structure GS (s : St) : Prop where
  scopes : ∀ sc ∈ s.task.scopes, ∀ kv ∈ sc, GV s.world.heap kv.2
  regs : ∀ r ∈ s.task.regs, GV s.world.heap r
  inv : C10.Inv s.world.pt
  heap : HeapLo s.world.heap
  fields : ∀ kv ∈ s.world.pt.fields, valLo kv.2

/-- postcondition of a step started in `s`: never a panic; end states satisfy the invariant and
    extend the heap of `s` -/
def Post {α} (s : St) (Q : α → St → Prop) : Res α → Prop
  | .ok a s' => GS s' ∧ HeapLe s.world.heap s'.world.heap ∧ Q a s'
  | .err _ s' => GS s' ∧ HeapLe s.world.heap s'.world.heap
  | .panic _ => False
  | _ => True

theorem Post.ok {α} {s s' : St} {Q : α → St → Prop} {a : α} (hs : GS s')
    (hle : HeapLe s.world.heap s'.world.heap) (hq : Q a s') : Post s Q (.ok a s') := ⟨hs, hle, hq⟩

theorem Post.err {α} {s s' : St} {Q : α → St → Prop} {e : PlErr} (hs : GS s')
    (hle : HeapLe s.world.heap s'.world.heap) : Post s Q (.err e s' : Res α) := ⟨hs, hle⟩

theorem Post.mono {α} {s : St} {Q Q' : α → St → Prop} {r : Res α} (h : Post s Q r)
    (hq : ∀ a s', GS s' → HeapLe s.world.heap s'.world.heap → Q a s' → Q' a s') : Post s Q' r := by
  cases r with
  | ok a s' => exact ⟨h.1, h.2.1, hq a s' h.1 h.2.1 h.2.2⟩
  | err e s' => exact h
  | panic m => exact h
  | fuel => trivial
  | need q => trivial

/-- change the start state to an earlier one -/
theorem Post.from {α} {s0 s : St} {Q : α → St → Prop} {r : Res α} (h : Post s Q r)
    (hle : HeapLe s0.world.heap s.world.heap) : Post s0 Q r := by
  cases r with
  | ok a s' => exact ⟨h.1, hle.trans h.2.1, h.2.2⟩
  | err e s' => exact ⟨h.1, hle.trans h.2⟩
  | panic m => exact h
  | fuel => trivial
  | need q => trivial

theorem Post.rbind {α β} {s : St} {Q : α → St → Prop} {R : β → St → Prop} {r : Res α} {k : α → EM β}
    (h : Post s Q r)
    (hk : ∀ a s', GS s' → HeapLe s.world.heap s'.world.heap → Q a s' → Post s' R (k a s')) :
    Post s R (rbind r k) := by
  cases r with
  | ok a s' => exact (hk a s' h.1 h.2.1 h.2.2).from h.2.1
  | err e s' => exact h
  | panic m => exact h
  | fuel => trivial
  | need q => trivial

theorem Post.fuel {α} {s : St} {Q : α → St → Prop} : Post s Q (.fuel : Res α) := trivial
theorem Post.need {α} {s : St} {Q : α → St → Prop} {q : Bytes} : Post s Q (.need q : Res α) := trivial

theorem map_apply {α β} (g : α → β) (m : EM α) (s : St) :
    (g <$> m) s = rbind (m s) (fun a => pure (g a)) := by
  show EM.bind m _ s = _
  unfold EM.bind
  cases m s <;> rfl

theorem needE_apply {α} (q : Bytes) (s : St) : (needE q : EM α) s = .need q := rfl
theorem throwE_apply {α} (e : PlErr) (s : St) : (throwE e : EM α) s = .err e s := rfl

theorem ask_apply (env : Env) (q : Bytes) (s : St) :
    ask env q s = match env.oracle q with | some a => .ok a s | none => .need q := rfl


/-! ### triples: `Tr s m Q` — running `m` from the good state `s` is safe and establishes `Q` -/
def Tr {α} (s : St) (m : EM α) (Q : α → St → Prop) : Prop := Post s Q (m s)

theorem Tr.bind {α β} {s : St} {m : EM α} {k : α → EM β} {Q : α → St → Prop} {R : β → St → Prop}
    (hm : Tr s m Q)
    (hk : ∀ a s', GS s' → HeapLe s.world.heap s'.world.heap → Q a s' → Tr s' (k a) R) :
    Tr s (m >>= k) R := by
  unfold Tr; rw [bind_apply]; exact Post.rbind hm hk

theorem Tr.map {α β} {s : St} {m : EM α} {g : α → β} {Q : α → St → Prop} {R : β → St → Prop}
    (hm : Tr s m Q) (hk : ∀ a s', GS s' → HeapLe s.world.heap s'.world.heap → Q a s' → R (g a) s') :
    Tr s (g <$> m) R := by
  unfold Tr; rw [map_apply]
  exact Post.rbind hm (fun a s' h1 h2 h3 => ⟨h1, HeapLe.refl _, hk a s' h1 h2 h3⟩)

theorem Tr.mono {α} {s : St} {m : EM α} {Q Q' : α → St → Prop} (h : Tr s m Q)
    (hq : ∀ a s', GS s' → HeapLe s.world.heap s'.world.heap → Q a s' → Q' a s') : Tr s m Q' :=
  Post.mono h hq

theorem Tr.pure {α} {s : St} {Q : α → St → Prop} {a : α} (hs : GS s) (hq : Q a s) :
    Tr s (Pure.pure a) Q := ⟨hs, HeapLe.refl _, hq⟩

theorem Tr.runErr {α} {s : St} {Q : α → St → Prop} (hs : GS s) (p : Pos) (m : String) :
    Tr s (Platypus.runErr p m : EM α) Q := ⟨hs, HeapLe.refl _⟩

theorem Tr.fuel {α} {s : St} {Q : α → St → Prop} : Tr s (outOfFuel : EM α) Q := trivial
theorem Tr.needE {α} {s : St} {Q : α → St → Prop} {q : Bytes} : Tr s (needE q : EM α) Q := trivial

theorem Tr.getS {β} {s : St} {k : St → EM β} {R : β → St → Prop} (h : Tr s (k s) R) :
    Tr s (Platypus.getS >>= k) R := by
  unfold Tr at *; rw [bind_apply]; exact h

theorem Tr.modify {s : St} {t : St → St} {Q : Unit → St → Prop} (hs : GS (t s))
    (hle : HeapLe s.world.heap (t s).world.heap) (hq : Q () (t s)) : Tr s (modifyS t) Q := ⟨hs, hle, hq⟩

theorem Tr.modify_bind {β} {s : St} {t : St → St} {k : Unit → EM β} {R : β → St → Prop}
    (hle : HeapLe s.world.heap (t s).world.heap) (h : Tr (t s) (k ()) R) : Tr s (modifyS t >>= k) R := by
  unfold Tr at *; rw [bind_apply]; exact Post.from h hle

theorem Tr.modWorld {s : St} {g : World → World} {Q : Unit → St → Prop}
    (hs : GS { s with world := g s.world }) (hle : HeapLe s.world.heap (g s.world).heap)
    (hq : Q () { s with world := g s.world }) : Tr s (Platypus.modWorld g) Q := ⟨hs, hle, hq⟩

theorem Tr.modWorld_bind {β} {s : St} {g : World → World} {k : Unit → EM β} {R : β → St → Prop}
    (hle : HeapLe s.world.heap (g s.world).heap)
    (h : Tr { s with world := g s.world } (k ()) R) : Tr s (Platypus.modWorld g >>= k) R :=
  Tr.modify_bind (t := fun s => { s with world := g s.world }) hle h

theorem Tr.modTask {s : St} {g : Task → Task} {Q : Unit → St → Prop}
    (hs : GS { s with task := g s.task }) (hq : Q () { s with task := g s.task }) : Tr s (Platypus.modTask g) Q :=
  ⟨hs, HeapLe.refl _, hq⟩

theorem Tr.modTask_bind {β} {s : St} {g : Task → Task} {k : Unit → EM β} {R : β → St → Prop}
    (h : Tr { s with task := g s.task } (k ()) R) :
    Tr s (Platypus.modTask g >>= k) R :=
  Tr.modify_bind (t := fun s => { s with task := g s.task }) (HeapLe.refl _) h

/-- change the start state to an earlier one -/
theorem Tr.from {α} {s0 s : St} {m : EM α} {Q : α → St → Prop} (h : Tr s m Q)
    (hle : HeapLe s0.world.heap s.world.heap) : Post s0 Q (m s) := Post.from h hle

end Platypus.PanicProofs
