import Platypus.Properties.C17Runtime
import Platypus.Properties.FrontEnd
import Platypus.Proofs.ErrPosElab
/-!
C01 / C17, from the source text: **a run-time or check error of a parsed script points at a token
of its source**.  `C17Runtime` locates every error at a stored token position of the tree;
`FrontEnd.elab_positions` says what the stored positions of a parsed tree are.  Together, for every
source text `src` the front-end model accepts (`elabSource … src … = some stmts`):

the position `P` the error reports for the script is the offset of an item of the lexer's output for
`src`, it lies inside the text, and its line and column are those of that offset
(line = 1 + number of line breaks before it, column = 1 + bytes since the last line break) — or it is
the marker `-1:-1`, which `ast.NodeStartPos` yields only when a chain of left operands is nested deeper
than the model's bound of 10000.
-/
namespace Platypus.C17
open Platypus Platypus.ErrPos Platypus.FrontEnd Platypus.Elab

/-- what `FrontEnd.elab_positions` says of one position of a script parsed from `src` -/
def PointsAtToken (src : Bytes) (P : Pos) : Prop :=
  ∃ i ∈ Lex.lexAll src, P.pos = i.pos ∧ i.pos ≤ src.length ∧
    ∃ lc, LnCol.spec src i.pos = some lc ∧ LnCol.cacheLnCol src i.pos = some lc ∧
      P = ⟨i.pos, lc.ln, lc.col⟩ ∧
      lc.ln = 1 + (src.take i.pos).count LnCol.NL ∧ lc.col = 1 + LnCol.trail (src.take i.pos)

theorem stored_points_at_token {pf : Bytes → Option UInt64} {src : Bytes} {s0 : Nat} {ns : List Node}
    (h : elabSource pf src s0 = some ns) {P : Pos} (hP : P ∈ storedOfL ns ∨ P = Pos.invalid) :
    PointsAtToken src P ∨ P = Pos.invalid := by
  rcases hP with hP | hP
  · exact Or.inl (elab_positions h P (storedL_sub_allPos ns P hP))
  · exact Or.inr hP

/-- v1: a run-time error of a script parsed from `src` points at a token of `src` -/
theorem source_runtime_error_points_at_token {pf : Bytes → Option UInt64} {src : Bytes} {s0 : Nat}
    {ns : List Node} (h : elabSource pf src s0 = some ns) (env : Env) (fuel : Nat) (name : Bytes)
    (w : World) (e : PlErr) (s' : St) (hr : runScript env fuel name ns w = .err e s') :
    ∃ pre P, e.chain = pre ++ [(name, P)] ∧ (PointsAtToken src P ∨ P = Pos.invalid) := by
  obtain ⟨pre, P, hc, hP⟩ := runtime_error_position_is_token env fuel name ns w e s' hr
  exact ⟨pre, P, hc, stored_points_at_token h hP⟩

/-- v2 likewise -/
theorem source_runtime_error_points_at_token_v2 {pf : Bytes → Option UInt64} {src : Bytes} {s0 : Nat}
    {ns : List Node} (h : elabSource pf src s0 = some ns) (env : Env) (fuel : Nat) (name : Bytes)
    (w : World) (e : PlErr) (s' : St) (hr : V2.runScript2 env fuel name ns w = .err e s') :
    ∃ pre P, e.chain = pre ++ [(name, P)] ∧ (PointsAtToken src P ∨ P = Pos.invalid) := by
  obtain ⟨_, pre, P, hc, hP⟩ := runtime_error_located_v2 env fuel name ns w e s' hr
  exact ⟨pre, P, hc, stored_points_at_token h hP⟩

/-- the load-time check with the registered builtins: every link of a rejection points at a token -/
theorem source_check_error_points_at_token {pf : Bytes → Option UInt64} {src : Bytes} {s0 : Nat}
    {ns : List Node} (h : elabSource pf src s0 = some ns) (fuel : Nat) (oracle : Bytes → Option Bytes)
    (fns : List Bytes) (file : Bytes) (e : PlErr) (hr : checkScript fuel oracle fns file ns = .err e) :
    e.chain ≠ [] ∧ ∀ link ∈ e.chain, link.1 = file ∧ (PointsAtToken src link.2 ∨ link.2 = Pos.invalid) := by
  obtain ⟨h1, h2⟩ := builtin_check_error_located fuel oracle fns file ns e hr
  exact ⟨h1, fun l hl => ⟨(h2 l hl).1, stored_points_at_token h (h2 l hl).2⟩⟩

end Platypus.C17
