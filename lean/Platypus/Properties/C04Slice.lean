import Platypus.Model.Slice
import Platypus.Spec.PySlice
import Platypus.Proofs.Slice
/-!
# C04 (slice part): the implementation's slice index computation equals Python's

For every sequence length `n < 2^62`, every start/stop/step present or omitted with values anywhere
in the int64 range and `step ≠ 0`, the indices visited by the implementation's loop
(`Slice.indices`, Go `int` arithmetic with wrap-around modelled by `wrap64`) are exactly the
indices CPython's `PySlice_AdjustIndices` + `range` designate (`PySlice.indices`, unbounded
integers); they all lie in `[0, n)`, and the capacity passed to `make` is their number (hence ≥ 0).
-/
namespace Platypus.C04

open Platypus

/-- a present bound lies in the int64 range -/
def BoundOk (b : Option Int) : Prop := ∀ v, b = some v → inI64 v
/-- a present step lies in the int64 range and is not 0 -/
def StepOk (b : Option Int) : Prop := ∀ v, b = some v → inI64 v ∧ v ≠ 0

theorem slice_eq_python (n : Nat) (hn : (n : Int) < 2^62) (s e st : Option Int)
    (hs : BoundOk s) (he : BoundOk e) (hst : StepOk st) :
    Slice.indices n s e st = PySlice.indices n s e st :=
  SliceProofs.indices_eq n (SliceProofs.two_pow_62 ▸ hn) s e st
    (SliceProofs.getD_inI64 s hs) (SliceProofs.getD_inI64 e he) (SliceProofs.getD_step_ne st hst)

theorem slice_indices_in_range (n : Nat) (hn : (n : Int) < 2^62) (s e st : Option Int)
    (hs : BoundOk s) (he : BoundOk e) (hst : StepOk st) :
    ∀ i ∈ Slice.indices n s e st, 0 ≤ i ∧ i < n :=
  SliceProofs.indices_mem n (SliceProofs.two_pow_62 ▸ hn) s e st
    (SliceProofs.getD_inI64 s hs) (SliceProofs.getD_inI64 e he) (SliceProofs.getD_step_ne st hst)

/-- the capacity computed by `sliceCount` from the normalised bounds is the number of indices -/
theorem slice_count_exact (n : Nat) (hn : (n : Int) < 2^62) (s e st : Option Int)
    (hs : BoundOk s) (he : BoundOk e) (hst : StepOk st) :
    let b := Slice.sliceBounds n (s.getD 0) (e.getD 0) (st.getD 1) s.isSome e.isSome
    Slice.sliceCount b.1 b.2.1 b.2.2 = (Slice.indices n s e st).length :=
  SliceProofs.count_exact n (SliceProofs.two_pow_62 ▸ hn) s e st
    (SliceProofs.getD_inI64 s hs) (SliceProofs.getD_inI64 e he) (SliceProofs.getD_step_ne st hst)

end Platypus.C04
