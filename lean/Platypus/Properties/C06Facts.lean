import Platypus.Model.GrammarExpected
import Platypus.Generated.Grammar
import Platypus.Spec.Layout
/-!
# C06 — regenerated facts (F5) tying the parser model to the source

* `grammar_is_the_modelled_one`: the productions (with their actions) and precedence lines the
  extractor reads from `pkg/parser/gram.y` on this run are the ones `Model/Parse.lean` mirrors;
* `generated_parser_is_from_grammar`: goyacc applied to gram.y reproduces `gram_y.go` byte for byte,
  and the automaton has no unresolved conflict;
* `model_levels_are_the_grammars`: the level `Parse.lvl`/`binOf` gives every binary operator is its
  line in gram.y's `%left` declarations, all of them left-associative, unary above, brackets on top;
* `documented_table_agrees`: wherever the language reference ranks two binary operators, gram.y
  ranks them the same way (the reference omits `in` and the unary operators).
-/
namespace Platypus.C06Facts
open Platypus.Parse Platypus.Generated

theorem extract_ok_F5 : extractOk_F5 = true := by decide

theorem grammar_is_the_modelled_one :
    productions = Expected.productions ∧ precLines = Expected.precLines := by
  constructor <;> decide +kernel

theorem generated_parser_is_from_grammar :
    goyaccRegenerates = true ∧ yaccConflicts = "0 shift/reduce, 0 reduce/reduce conflicts reported" := by
  constructor <;> decide

/-- the yacc token name of a binary operator -/
def tokName : BOp → String
  | .or => "OR" | .and => "AND" | .in_ => "IN"
  | .gte => "GTE" | .gt => "GT" | .neq => "NEQ" | .eqeq => "EQEQ" | .lte => "LTE" | .lt => "LT"
  | .add => "ADD" | .sub => "SUB" | .mul => "MUL" | .div => "DIV" | .mod => "MOD"

/-- index of the precedence line holding the token (0 = the assignment line, lowest) -/
def lineOf (t : String) : Option Nat := precLines.findIdx? (fun l => l.2.contains t)
def assocOf (t : String) : Option String := (precLines.find? (fun l => l.2.contains t)).map (·.1)

def allBOps : List BOp := [.or, .and, .in_, .gte, .gt, .neq, .eqeq, .lte, .lt, .add, .sub, .mul, .div, .mod]

theorem allBOps_complete (op : BOp) : op ∈ allBOps := by cases op <;> decide

/-- every binary operator sits on the `%left` line whose index is the model's level -/
theorem model_levels_are_the_grammars (op : BOp) :
    lineOf (tokName op) = some (lvl op) ∧ assocOf (tokName op) = some "left" := by
  cases op <;> decide

/-- the unary operators' line (`%right NOT UMINUS`) is above every binary operator's, and the
    brackets' line above that -/
theorem unary_above_binary : lineOf "UMINUS" = some unaryLevel ∧ lineOf "NOT" = some unaryLevel ∧
    lineOf "LEFT_BRACKET" = some 8 ∧ lineOf "LEFT_PAREN" = some 8 ∧ lineOf "DOT" = some 8 := by decide

/-- `binOf` (the parser model's table) and `lvl`/`opTok` (the specification's) are the same table -/
theorem binOf_opTok (op : BOp) : binOf (opTok op) = some (lvl op, op) := by cases op <;> rfl

/-- the symbol of a binary operator in the language reference -/
def docSym : BOp → String
  | .or => "||" | .and => "&&" | .in_ => "in"
  | .gte => ">=" | .gt => ">" | .neq => "!=" | .eqeq => "==" | .lte => "<=" | .lt => "<"
  | .add => "+" | .sub => "-" | .mul => "*" | .div => "/" | .mod => "%"

def docPrio (s : String) : Option Nat := (docOperators.find? (fun r => r.2.1 == s)).map (·.1)
def docAssoc (s : String) : Option String := (docOperators.find? (fun r => r.2.1 == s)).map (·.2.2)

/-- the documented table: what the reference ranks, gram.y ranks alike, and what it calls
    left-combinable is `%left` -/
def docAgrees (a b : BOp) : Bool :=
  match docPrio (docSym a), docPrio (docSym b) with
  | some pa, some pb => (decide (pa < pb) == decide (lvl a < lvl b)) && (decide (pa = pb) == decide (lvl a = lvl b))
  | _, _ => true

theorem documented_table_agrees :
    (allBOps.all fun a => allBOps.all fun b => docAgrees a b) = true ∧
    (allBOps.all fun a => docAssoc (docSym a) == none || docAssoc (docSym a) == some "Left") = true := by
  constructor <;> decide

/-- the reference's table as read on this run is the one these statements were written against -/
theorem documented_table_unchanged : docOperators = Expected.docOperators := by decide

end Platypus.C06Facts
