import Platypus.Model.Eval
/-!
# C04 (heap part) — lists and maps are shared by reference; literals and slices allocate

Values of list/map type are addresses into the heap, so "a write through one alias is visible
through all others" is a statement about addresses: after `changeLM` has written, *every* reader
of that address sees the new element, and every other object is unchanged (frame).  Allocation
(`Heap.alloc`, used only by list/map literals, slices and load_json) returns a fresh address and
never changes existing objects.  The slice index computation is in `C04Slice.lean`.
-/
namespace Platypus.C04

open Platypus

/-- allocation returns the next free address -/
theorem alloc_fresh (h : Heap) (o : Obj) : (h.alloc o).2 = h.length ∧ (h.alloc o).1.get? h.length = some o := by
  simp [Heap.alloc, Heap.get?]

/-- allocation leaves every existing object as it was (literals and slices never alias) -/
theorem alloc_frame (h : Heap) (o : Obj) (b : Nat) (hb : b < h.length) : (h.alloc o).1.get? b = h.get? b := by
  simp [Heap.alloc, Heap.get?, List.getElem?_append_left hb]

/-- a write to address `a` is what every alias of `a` reads afterwards -/
theorem set_visible (h : Heap) (a : Nat) (o : Obj) (ha : a < h.length) : (h.set a o).get? a = some o := by
  simp [Heap.set, Heap.get?, ha]

/-- …and no other object changes (frame) -/
theorem set_frame (h : Heap) (a b : Nat) (o : Obj) (hne : a ≠ b) : (h.set a o).get? b = h.get? b := by
  simp [Heap.set, Heap.get?, List.getElem?_set_ne hne]

/-- negative indices count from the end; out of range is rejected, never another element -/
theorem listIndex_spec (len : Nat) (k : Int) :
    listIndex len k =
      if 0 ≤ k ∧ k < len then some k.toNat
      else if k < 0 ∧ -(len : Int) ≤ k then some (len + k).toNat
      else none := by
  unfold listIndex
  simp only []
  repeat' split
  all_goals first | rfl | (exfalso; omega) | (congr 1; omega)

theorem listIndex_in_range (len : Nat) (k : Int) (j : Nat) (h : listIndex len k = some j) : j < len := by
  rw [listIndex_spec] at h
  split at h
  · simp at h; omega
  · split at h
    · simp at h; omega
    · simp at h

/-- one step of an index *read* on a list: the element at the (normalised) index, or an error -/
theorem searchLM_list_step (env : Env) (f : Nat) (a : Nat) (xs : List Val) (i : Node) (r : List Node) (s s' : St)
    (k : Int) (hi : evalNode env f i s = .ok ⟨.int k, .int⟩ s') (ha : s'.world.heap.get? a = some (.list xs)) :
    searchLM env (f+1) (.ref a) (i :: r) s =
      match listIndex xs.length k with
      | some j => searchLM env f (xs.getD j .nil) r s'
      | none => runErr (Node.start i) "index-out-of-range" s' := by
  simp [searchLM, bind, EM.bind, hi, getS, ha, Val.toI64]
  cases listIndex xs.length k <;> rfl

/-- a key that is not an integer never selects a list element -/
theorem searchLM_list_wrong_key (env : Env) (f : Nat) (a : Nat) (xs : List Val) (i : Node) (r : List Node) (s s' : St)
    (kv : TV) (hi : evalNode env f i s = .ok kv s') (ha : s'.world.heap.get? a = some (.list xs)) (hk : kv.t ≠ .int) :
    searchLM env (f+1) (.ref a) (i :: r) s = runErr (Node.start i) "key-not-int" s' := by
  simp [searchLM, bind, EM.bind, hi, getS, ha, hk]

/-- a missing map key reads as nil; a present key reads its value -/
theorem searchLM_map_step (env : Env) (f : Nat) (a : Nat) (kvs : List (Bytes × Val)) (i : Node) (r : List Node) (s s' : St)
    (key : Bytes) (hi : evalNode env f i s = .ok ⟨.str key, .str⟩ s') (ha : s'.world.heap.get? a = some (.map kvs)) :
    searchLM env (f+1) (.ref a) (i :: r) s =
      match alookup key kvs with
      | some v => searchLM env f v r s'
      | none => .ok nilTV s' := by
  simp [searchLM, bind, EM.bind, hi, getS, ha]
  cases alookup key kvs <;> rfl

/-- the last step of an index *write* on a list stores the value at the normalised index of that
    very object (so all aliases see it, by `set_visible`) and returns the value -/
theorem changeLM_list_last (env : Env) (f : Nat) (a : Nat) (xs : List Val) (i : Node) (s s' : St) (val : TV)
    (k : Int) (j : Nat) (hi : evalNode env f i s = .ok ⟨.int k, .int⟩ s') (ha : s'.world.heap.get? a = some (.list xs))
    (hj : listIndex xs.length k = some j) :
    changeLM env (f+1) (.ref a) [i] val s =
      .ok val { s' with world := { s'.world with heap := s'.world.heap.set a (.list (xs.set j val.v)) } } := by
  simp [changeLM, bind, EM.bind, hi, getS, ha, Val.toI64, hj, modWorld, modifyS, pure, EM.pure]

theorem changeLM_map_last (env : Env) (f : Nat) (a : Nat) (kvs : List (Bytes × Val)) (i : Node) (s s' : St) (val : TV)
    (key : Bytes) (hi : evalNode env f i s = .ok ⟨.str key, .str⟩ s') (ha : s'.world.heap.get? a = some (.map kvs)) :
    changeLM env (f+1) (.ref a) [i] val s =
      .ok val { s' with world := { s'.world with heap := s'.world.heap.set a (.map (aset key val.v kvs)) } } := by
  simp [changeLM, bind, EM.bind, hi, getS, ha, modWorld, modifyS, pure, EM.pure]

/-- `len`: bytes of a string, elements of a list, keys of a map -/
theorem len_values (h : Heap) (a : Nat) :
    (∀ xs, h.get? a = some (.list xs) → listLen h (.ref a) = xs.length) ∧
    (∀ kvs, h.get? a = some (.map kvs) → mapLen? h (.ref a) = some kvs.length) := by
  constructor <;> intro x hx <;> simp [listLen, mapLen?, hx]

/-! non-vacuity -/
example : listIndex 3 (-1) = some 2 ∧ listIndex 3 3 = none ∧ listIndex 3 (-4) = none ∧ listIndex 0 0 = none := by decide

end Platypus.C04
