import Platypus.Model.Cli
import Platypus.Generated.CliOrder
/-!
# C20 — the command-line runner reports the point exactly as the script left it

`prints_final_point`: for every script effect and every input point, a runner whose step
sequence has the shape `init, run, (by-value reads)…, render` — every by-value read of
measurement, time and drop flag after the run and before rendering — renders exactly what the
library API yields.  Regenerated fact: the step order extracted from `runScript` has that shape.
(Script discovery, input parsing and the JSON / line-protocol encoders are compared against the
library on generated inputs; they are not modelled.)
-/
namespace Platypus.C20
open Platypus.Cli Platypus.Generated

def isRead (s : Step) : Bool := s == .readMeas || s == .readTime || s == .readDrop || s == .readMaps

/-- the reads are by-value reads only and cover measurement, time and drop flag -/
def readsOk (reads : List Step) : Bool :=
  reads.all isRead && reads.contains .readMeas && reads.contains .readTime && reads.contains .readDrop

/-- the shape `init, run, reads…, render` -/
def shape (reads : List Step) : List Step := [.init, .run] ++ reads ++ [.render]

theorem reads_fold (script : Pt → Pt) (initial : Pt) (reads : List Step) (hall : reads.all isRead = true) (s : St) :
    let s' := reads.foldl (step script initial) s
    s'.pt = s.pt ∧ s'.out = s.out ∧
    (s'.meas = if reads.contains .readMeas then s.pt.meas else s.meas) ∧
    (s'.time = if reads.contains .readTime then s.pt.time else s.time) ∧
    (s'.drop = if reads.contains .readDrop then s.pt.drop else s.drop) := by
  induction reads generalizing s with
  | nil => simp
  | cons r rest ih =>
    simp only [List.all_cons, Bool.and_eq_true] at hall
    have := ih hall.2 (step script initial s r)
    simp only [List.foldl_cons]
    cases r <;> simp_all [step, isRead] <;> (repeat' split) <;> simp_all

/-- **for every script effect and input point**: a runner of that shape renders the library's result -/
theorem prints_final_point (script : Pt → Pt) (initial : Pt) (reads : List Step) (h : readsOk reads = true) :
    (runSteps script initial (shape reads)).out = some (libraryOut script initial) := by
  simp only [readsOk, Bool.and_eq_true] at h
  obtain ⟨⟨⟨hall, hm⟩, ht⟩, hd⟩ := h
  simp only [runSteps, shape, List.cons_append, List.nil_append, List.foldl_cons, List.foldl_append, List.foldl_nil]
  have := reads_fold script initial reads hall
    (step script initial (step script initial { pt := initial } .init) .run)
  simp only [] at this
  obtain ⟨hpt, _, hme, hti, hdr⟩ := this
  rw [hm] at hme; rw [ht] at hti; rw [hd] at hdr
  simp only [if_true] at hme hti hdr
  generalize List.foldl (step script initial) (step script initial (step script initial { pt := initial } Step.init) Step.run) reads = sf at *
  simp only [step, libraryOut] at *
  simp [hpt, hme, hti, hdr]

/-! ## regenerated fact (F7) -/
theorem extract_ok_F7 : extractOk_F7 = true := by decide

/-- the runner in the source has the shape, with these reads -/
def sourceReads : List Step := [.readMaps, .readMaps, .readDrop, .readTime, .readMeas]

theorem cli_order_is_good : cliSteps.mapM parseStep = some (shape sourceReads) ∧ readsOk sourceReads = true := by decide

/-- hence the source's runner prints the final point, for every script and input -/
theorem source_runner_prints_final_point (script : Pt → Pt) (initial : Pt) :
    (runSteps script initial (shape sourceReads)).out = some (libraryOut script initial) :=
  prints_final_point script initial sourceReads cli_order_is_good.2

/-- a runner that reads the by-value fields *before* the run prints stale values (the defect this
    repository had): non-vacuity of the hypothesis -/
example : (runSteps (fun p => { p with meas := 7 }) ⟨1, 2, false, 3⟩ [.init, .readMeas, .run, .render]).out
    ≠ some (libraryOut (fun p => { p with meas := 7 }) ⟨1, 2, false, 3⟩) := by decide

end Platypus.C20
