import Platypus.Properties.C03
import Platypus.Model.Eval
/-!
# C13 — use() shares the point but not variables; exit() ends only its own script

`use("name")` runs the bound script's statements with a *fresh task* (own variable scopes, own
break/continue/exit flags) on the *caller's world* (point, heap, signal poll counter, effects) and
then restores the caller's task.  Hence neither side can read or modify the other's variables, an
`exit()` in the callee does not end the caller, and a callee error aborts the caller with the
call site appended to the error chain.  After `exit()` a script starts no further statement.
-/
namespace Platypus.C13
open Platypus

section
variable (env : Env)

/-- the fresh task a callee starts with -/
def calleeTask (cname : Bytes) : Task := { name := cname, scopes := [[]] }

/-- what `use("…")` does, for a call site bound at load time to script `cname` -/
theorem use_contract (f : Nat) (lit : Bytes) (p np : Pos) (site : Nat) (s : St) (cname : Bytes) (stmts : List Node)
    (hb : env.bound site = some (cname, stmts)) :
    builtin env (f+1) .use (B "use") [.strLit lit p] np site s =
      match runStmts env (evalNode env f) f stmts { task := calleeTask cname, world := s.world } with
      | .ok _ s' => .ok () { task := s.task, world := s'.world }
      | .err e s' => .err (e.append s.task.name np) { task := s.task, world := s'.world }
      | .panic m => .panic m
      | .fuel => .fuel
      | .need q => .need q := by
  simp [builtin, hb, calleeTask]
  rfl

/-- a use() call whose target was not bound at load time does nothing -/
theorem use_unbound_noop (f : Nat) (lit : Bytes) (p np : Pos) (site : Nat) (s : St) (hb : env.bound site = none) :
    builtin env (f+1) .use (B "use") [.strLit lit p] np site s = .ok () s := by
  simp [builtin, hb, pure, EM.pure]

/-- the caller's task — variables, scopes, break/continue/exit flags, registers — is exactly what it
    was before the call, whatever the callee did (assigned same-named variables, called exit(),
    observed the signal, failed) -/
theorem caller_task_untouched (f : Nat) (lit : Bytes) (p np : Pos) (site : Nat) (s : St) (cname : Bytes) (stmts : List Node)
    (hb : env.bound site = some (cname, stmts)) :
    match builtin env (f+1) .use (B "use") [.strLit lit p] np site s with
    | .ok _ s' => s'.task = s.task
    | .err _ s' => s'.task = s.task
    | _ => True := by
  rw [use_contract env f lit p np site s cname stmts hb]
  cases runStmts env (evalNode env f) f stmts { task := calleeTask cname, world := s.world } <;> simp

/-- the callee cannot see the caller's variables: what it does depends on the shared world only -/
theorem callee_independent_of_caller_variables (f : Nat) (lit : Bytes) (p np : Pos) (site : Nat) (s1 s2 : St)
    (cname : Bytes) (stmts : List Node) (hb : env.bound site = some (cname, stmts)) (hw : s1.world = s2.world) :
    (match builtin env (f+1) .use (B "use") [.strLit lit p] np site s1,
           builtin env (f+1) .use (B "use") [.strLit lit p] np site s2 with
     | .ok _ a, .ok _ b => a.world = b.world
     | .err e1 a, .err e2 b => a.world = b.world ∧ e1.chain.dropLast = e2.chain.dropLast ∧ e1.msg = e2.msg
     | .panic _, .panic _ => True
     | .fuel, .fuel => True
     | .need _, .need _ => True
     | _, _ => False) := by
  rw [use_contract env f lit p np site s1 cname stmts hb, use_contract env f lit p np site s2 cname stmts hb, hw]
  cases runStmts env (evalNode env f) f stmts { task := calleeTask cname, world := s2.world } <;>
    simp [PlErr.append]

/-- a callee error aborts the caller; the chain is the callee's chain followed by this call site -/
theorem callee_error_chain (f : Nat) (lit : Bytes) (p np : Pos) (site : Nat) (s : St) (cname : Bytes) (stmts : List Node)
    (hb : env.bound site = some (cname, stmts)) (e : PlErr) (s' : St)
    (he : runStmts env (evalNode env f) f stmts { task := calleeTask cname, world := s.world } = .err e s') :
    builtin env (f+1) .use (B "use") [.strLit lit p] np site s =
      .err ⟨e.chain ++ [(s.task.name, np)], e.msg⟩ { task := s.task, world := s'.world } := by
  rw [use_contract env f lit p np site s cname stmts hb, he]
  simp [PlErr.append]

/-- exit() in the callee: the callee's own flag is set and the callee stops, the caller resumes with
    its own flags (this is `caller_task_untouched` read for the exit flag) -/
theorem exit_in_callee_resumes_caller (f : Nat) (lit : Bytes) (p np : Pos) (site : Nat) (s : St) (cname : Bytes) (stmts : List Node)
    (hb : env.bound site = some (cname, stmts)) (s' : St)
    (h : builtin env (f+1) .use (B "use") [.strLit lit p] np site s = .ok () s') :
    s'.task.exit = s.task.exit := by
  have := caller_task_untouched env f lit p np site s cname stmts hb
  rw [h] at this
  simp at this
  rw [this]

end

/-- after exit() (flag set) a block of the same script starts no statement and has no effect,
    for every expression evaluator -/
theorem exit_stops_own_script (env : Env) (ev : Node → EM TV) (f : Nat) (ns : List Node) (s : St)
    (h : s.task.exit = true) : runStmts env ev (f+1) ns s = .ok () s :=
  C03.exit_absorbs_block env ev f ns s h

/-- …and a three-clause loop ends at once -/
theorem exit_stops_for (env : Env) (ev : Node → EM TV) (f : Nat) (c l : Option Node) (body : Option (List Node)) (s : St)
    (h : s.task.exit = true) : forLoop env ev (f+1) c l body s = .ok voidTV s :=
  C03.exit_absorbs_for env ev f c l body s h

end Platypus.C13
