import Platypus.Properties.C14Prefix
import Platypus.Proofs.SignalV2Obs
/-!
# C14 for the v2 interpreter — the effects of an interrupted run are a prefix of the effects of the
# uninterrupted run

The v2 model (`Platypus.V2`, `Model/EvalV2.lean`) polls with the same `procExit`/`stmtReturn` as
v1: before every statement of a block (`stmts2`), at the head of a three-clause loop (`for2`) and at
the end of every loop iteration (`for2`, `forInStr2`, `forInItems2`).  There is no `use(…)`.

Two runs of the same script from the same world, in environments that differ only in the poll
index at which the host's signal starts to report true (`withSig env (some k)` and
`withSig env later`, with `later = none` — never — or `later = some k'`, `k ≤ k'`).

* `lockstep_script_v2`: either both runs have the *same result*, or the earlier-interrupted run has
  observed the signal (`k ≤ polls`), ended **ok** (or ran out of fuel) and its trace is a suffix
  (newest-first list: its effects are a prefix in time) of the trace of whatever state the other
  run ends in.
* `effects_prefix_v2`: the corollary for the traces of the two end states.
* `error_not_from_observation_v2`, `stops_without_error_v2`, `error_before_observation_v2`,
  `observed_implies_ok_v2`: the observation never produces an error.
* `nothing_after_observation_v2_*`: once the signal has fired, a block, a three-clause loop, a loop
  tail and a string iteration perform polls only.

Hypothesis `NoStmtInExpr`: `if`/`for` nodes occur only in statement position.  The v2 `runExpr`
*does* run a statement node that sits inside an expression (it is the same function that runs
statements), and such a statement polls; after it has observed the signal and stopped, the
expression around it is still evaluated to its end.  Without the hypothesis the statement is false
(`stmt_in_expr_breaks_prefix_v2`): in `pr(if true { 1  pr(2) })` the interrupted run records
`pr(1)`, the uninterrupted one `pr(2) pr(2)`.  (The parser never produces such trees.)
-/
namespace Platypus.C14V2
open Platypus Platypus.V2 Platypus.MachineProofs Platypus.SignalProofs Platypus.SignalV2
open Platypus.C14 (EndsIn endTrace okPolls endTrace_some observed poll_fires P0 nP nPr)

/-- statement nodes (`if`, `for`, `for … in`) occur only in statement position: the Boolean checker
    `stmtsOk2` accepts the block (at some recursion depth) -/
def NoStmtInExpr (stmts : List Node) : Prop := ∃ g, stmtsOk2 g stmts = true

theorem NoStmtInExpr.sound {stmts : List Node} (h : NoStmtInExpr stmts) : StmtsOk2 stmts := by
  obtain ⟨g, hg⟩ := h
  exact (stmtOk2_sound g).2.1 stmts hg

section
variable (env : Env) (k : Nat) (later : Option Nat) (hl : ∀ k', later = some k' → k ≤ k')
variable (fuel : Nat) (name : Bytes) (stmts : List Node) (w : World)
variable (hN : NoStmtInExpr stmts)
include hl hN

/-- the two runs have the same result, or the K-run observed the signal, ended ok (or out of fuel)
    and the L-run, wherever it ends, has at least the K-run's effects -/
theorem lockstep_script_v2 :
    runScript2 (withSig env (some k)) fuel name stmts w = runScript2 (withSig env later) fuel name stmts w ∨
    runScript2 (withSig env (some k)) fuel name stmts w = .fuel ∨
    ∃ sK, runScript2 (withSig env (some k)) fuel name stmts w = .ok () sK ∧ k ≤ sK.world.polls ∧
      ∀ sL, EndsIn (runScript2 (withSig env later) fuel name stmts w) sL →
        sK.world.trace <:+ sL.world.trace := by
  have h := stmts2_lockstep (env := env) hl fuel stmts hN.sound
    { task := { name := name, scopes := [[]] }, world := w }
  rcases h with h | h | ⟨a, sK, h1, h2, h3⟩
  · exact .inl h
  · exact .inr (.inl h)
  · exact .inr (.inr ⟨sK, h1, h2, fun sL he => h3 sL he.ends⟩)

/-- **effects prefix** (v2): the trace of the earlier-interrupted run is a suffix of the trace of the
    later-interrupted (or uninterrupted) run; traces are newest first, so the effects of the former
    are a prefix, in time, of the effects of the latter -/
theorem effects_prefix_v2 (sK sL : St)
    (hK : EndsIn (runScript2 (withSig env (some k)) fuel name stmts w) sK)
    (hL : EndsIn (runScript2 (withSig env later) fuel name stmts w) sL) :
    sK.world.trace <:+ sL.world.trace := by
  rcases lockstep_script_v2 env k later hl fuel name stmts w hN with h | h | ⟨s, h1, _, h3⟩
  · rw [h] at hK
    have : sK = sL := by
      rcases hK with hK | ⟨e, hK⟩ <;> rcases hL with hL | ⟨e', hL⟩ <;> rw [hK] at hL <;> cases hL <;> rfl
    rw [this]
    exact List.suffix_refl _
  · rw [h] at hK
    rcases hK with hK | ⟨e, hK⟩ <;> cases hK
  · rw [h1] at hK
    have : s = sK := by
      rcases hK with hK | ⟨e, hK⟩ <;> cases hK; rfl
    rw [← this]
    exact h3 sL hL

/-- an error of the interrupted run is not produced by the observation: the other run raises the
    same error in the same state -/
theorem error_not_from_observation_v2 (e : PlErr) (sK : St)
    (hK : runScript2 (withSig env (some k)) fuel name stmts w = .err e sK) :
    runScript2 (withSig env later) fuel name stmts w = .err e sK := by
  rcases lockstep_script_v2 env k later hl fuel name stmts w hN with h | h | ⟨s, h1, _, _⟩
  · rw [← h]; exact hK
  · rw [h] at hK; cases hK
  · rw [h1] at hK; cases hK

/-- if the interrupted run behaves differently from the other run at all, it has observed the signal
    and returned *without error* (`.fuel`: the bound of the model's recursion, not a result) -/
theorem stops_without_error_v2
    (hne : runScript2 (withSig env (some k)) fuel name stmts w ≠ runScript2 (withSig env later) fuel name stmts w) :
    runScript2 (withSig env (some k)) fuel name stmts w = .fuel ∨
    ∃ sK, runScript2 (withSig env (some k)) fuel name stmts w = .ok () sK ∧ k ≤ sK.world.polls := by
  rcases lockstep_script_v2 env k later hl fuel name stmts w hN with h | h | ⟨s, h1, h2, _⟩
  · exact absurd h hne
  · exact .inl h
  · exact .inr ⟨s, h1, h2⟩

end

/-- the statement-level theorem: any block, from any state (nested scopes, pending flags, any
    registers) -/
theorem stmts2_effects_prefix (env : Env) (k : Nat) (later : Option Nat) (hl : ∀ k', later = some k' → k ≤ k')
    (g : Nat) (stmts : List Node) (h : StmtsOk2 stmts) (s sK sL : St)
    (hK : Ends (stmts2 (withSig env (some k)) g stmts s) sK)
    (hL : Ends (stmts2 (withSig env later) g stmts s) sL) :
    sK.world.trace <:+ sL.world.trace := by
  rcases stmts2_lockstep (env := env) hl g stmts h s with h | h | ⟨a, s1, h1, _, h3⟩
  · rw [h] at hK
    rcases hK with ⟨a, hK⟩ | ⟨e, hK⟩ <;> rcases hL with ⟨b, hL⟩ | ⟨e', hL⟩ <;> rw [hK] at hL <;> cases hL <;>
      exact List.suffix_refl _
  · rw [h] at hK; exact absurd hK not_ends_fuel
  · rw [h1] at hK
    rw [← hK.ok]
    exact h3 sL hL

section
variable (env : Env) (k : Nat) (fuel : Nat) (name : Bytes) (stmts : List Node) (w : World)
variable (hN : NoStmtInExpr stmts)
include hN

/-- a script error of the interrupted run is raised before the observation: every evaluation is
    preceded by a poll that did not fire, and expressions do not poll -/
theorem error_before_observation_v2 (e : PlErr) (sK : St)
    (hK : runScript2 (withSig env (some k)) fuel name stmts w = .err e sK) : sK.world.polls < k :=
  stmts2_error_before_observation (env := env) fuel stmts hN.sound _ e sK hK

/-- **returns without error**: if the signal was observed during the run (a poll with number `≥ k`
    happened, i.e. `k ≤ polls` in the end state), the run's result is ok -/
theorem observed_implies_ok_v2 (sK : St)
    (hK : EndsIn (runScript2 (withSig env (some k)) fuel name stmts w) sK) (hobs : k ≤ sK.world.polls) :
    runScript2 (withSig env (some k)) fuel name stmts w = .ok () sK := by
  rcases hK with hK | ⟨e, hK⟩
  · exact hK
  · have := error_before_observation_v2 env k fuel name stmts w hN e sK hK
    omega

end

/-! ### nothing executes after the observation -/
section
variable (env : Env) (k : Nat)

/-- once the signal has fired (at or before the current poll count), a block performs one poll,
    sets the exit flag and starts no statement -/
theorem nothing_after_observation_v2_block (f : Nat) (n : Node) (ns : List Node) (s : St)
    (hk : k ≤ s.world.polls) (hx : s.task.exit = false) :
    stmts2 (withSig env (some k)) (f+1) (n :: ns) s = .ok () (observed s) := by
  simp only [stmts2, stmtReturn, poll_fires env k s hk hx]

theorem nothing_after_observation_v2_nil (f : Nat) (s : St) :
    stmts2 (withSig env (some k)) (f+1) [] s = .ok () s := rfl

/-- … and with the exit flag already set (the statements after the one that observed the signal):
    no poll, nothing at all -/
theorem nothing_after_exit_v2_block (e : Env) (f : Nat) (ns : List Node) (s : St) (hx : s.task.exit = true) :
    stmts2 e (f+1) ns s = .ok () s := by
  cases ns with
  | nil => rfl
  | cons n ns =>
    simp only [stmts2, stmtReturn_apply, pollB_of_exit e s hx, pollSt_of_exit e s hx, Bool.true_or]

/-- … a three-clause loop (also `for ;; {}`) ends at its head: no condition, no body, no clause -/
theorem nothing_after_observation_v2_for (f : Nat) (c l : Option Node) (body : Option (List Node)) (s : St)
    (hk : k ≤ s.world.polls) (hx : s.task.exit = false) :
    for2 (withSig env (some k)) (f+1) c l body s = .ok () (observed s) := by
  simp only [for2, bind_apply, poll_fires env k s hk hx, rbind_ok, if_true, pure_apply]

/-- the empty-bodied loop `for ;; {}` stops -/
theorem empty_loop_stops_v2 (f : Nat) (s : St) (hk : k ≤ s.world.polls) (hx : s.task.exit = false) :
    for2 (withSig env (some k)) (f+1) none none (some []) s = .ok () (observed s) :=
  nothing_after_observation_v2_for env k f none none (some []) s hk hx

/-- … the end of a loop iteration (three-clause loop and both kinds of `for … in`) leaves the loop:
    no further iteration, no clause, no event -/
theorem nothing_after_observation_v2_loop_tail (K : EM Unit) (s : St) (hk : k ≤ s.world.polls) :
    ∃ s', loopTail2 (withSig env (some k)) K s = .ok () s' ∧ k ≤ s'.world.polls ∧
      s'.world.trace = s.world.trace := by
  rcases Quiet.tail2 (env := env) (k := k) K s hk with h | ⟨a, s', h1, h2, h3⟩
  · exfalso
    by_cases hb : s.task.brk = true
    · rw [loopTail2_brk _ K hb] at h; cases h
    · have hb' : s.task.brk = false := by simpa using hb
      by_cases hc : s.task.cont = true
      · rw [loopTail2_cont _ K hb' hc, if_pos (pollB_fired (Sem.clearBC s) hk)] at h; cases h
      · have hc' : s.task.cont = false := by simpa using hc
        rw [loopTail2_clr _ K ⟨hb', hc'⟩, if_pos (pollB_fired _ hk)] at h; cases h
  · exact ⟨s', h1, h2, h3⟩

/-- … an iteration over the runes of a string does not iterate: it binds the loop variable, its
    body and its tail only poll -/
theorem nothing_after_observation_v2_forin_str (f : Nat) (var : Node) (rs : List Bytes)
    (body : Option (List Node)) (s : St) (hk : k ≤ s.world.polls) :
    forInStr2 (withSig env (some k)) (f+1) var rs body s = .fuel ∨
    ∃ s', forInStr2 (withSig env (some k)) (f+1) var rs body s = .ok () s' ∧ k ≤ s'.world.polls ∧
      s'.world.trace = s.world.trace := by
  have hq : Quiet k (forInStr2 (withSig env (some k)) (f+1) var rs body) := by
    cases rs with
    | nil => simp only [forInStr2]; exact Quiet.pure _
    | cons r rest =>
      have hT := Quiet.tail2 (env := env) (k := k) (forInStr2 (withSig env (some k)) f var rest body)
      cases var
      case ident nm p =>
        simp only [forInStr2]
        cases body with
        | none => exact Quiet.bind (Quiet.modTask _) fun _ => Quiet.bind Quiet.clearScope fun _ => hT
        | some b =>
          exact Quiet.bind (Quiet.modTask _) fun _ => Quiet.bind (Quiet.stmts2 f b) fun _ =>
            Quiet.bind Quiet.clearScope fun _ => hT
      all_goals
        simp only [forInStr2]
        exact Quiet.pure _
  rcases hq s hk with h | ⟨a, s', h1, h2, h3⟩
  · exact .inl h
  · exact .inr ⟨s', h1, h2, h3⟩

/-- what a computation started after the observation may do in the worst case: nothing but polls,
    or an error raised without any change of the world -/
def QuietOrErr (s : St) (r : Res Unit) : Prop :=
  r = .fuel ∨ (∃ s', r = .ok () s' ∧ k ≤ s'.world.polls ∧ s'.world.trace = s.world.trace) ∨
    (∃ e s', r = .err e s' ∧ s'.world = s.world)

theorem forInItems2_after_clear (f : Nat) (nm : Bytes) (p pos : Pos) (x : TV) (items' : List TV)
    (live' : Option (Nat × Nat × Nat)) (body : Option (List Node)) (s : St) (hk : k ≤ s.world.polls) :
    QuietOrErr k s ((clearScope >>= fun _ =>
      if x.t = .invalid then runErr pos "inner-type" else
      setVar nm x >>= fun _ =>
      (match body with
        | some b => stmts2 (withSig env (some k)) f b
        | none => pure ()) >>= fun _ =>
      loopTail2 (withSig env (some k)) (forInItems2 (withSig env (some k)) f (.ident nm p) pos items' live' body) : EM Unit) s) := by
  have hT := Quiet.tail2 (env := env) (k := k) (forInItems2 (withSig env (some k)) f (.ident nm p) pos items' live' body)
  by_cases hx : x.t = .invalid
  · right; right
    simp only [if_pos hx]
    exact ⟨_, _, rfl, rfl⟩
  · simp only [if_neg hx]
    have hq : Quiet k (clearScope >>= fun _ =>
        setVar nm x >>= fun _ =>
        (match body with
          | some b => stmts2 (withSig env (some k)) f b
          | none => pure ()) >>= fun _ =>
        loopTail2 (withSig env (some k)) (forInItems2 (withSig env (some k)) f (.ident nm p) pos items' live' body) : EM Unit) := by
      refine Quiet.bind Quiet.clearScope fun _ => Quiet.bind (Quiet.modTask _) fun _ => Quiet.bind ?_ fun _ => hT
      cases body with
      | none => exact Quiet.pure _
      | some b => exact Quiet.stmts2 f b
    rcases hq s hk with h | ⟨a, s', h1, h2, h3⟩
    · exact .inl h
    · exact .inr (.inl ⟨s', h1, h2, h3⟩)

/-- … an iteration over list elements or map keys: nothing but polls, no further iteration — or the
    `inner-type` error of a list element without data type, raised before any poll with the world
    untouched (a state with `k ≤ polls` and the exit flag unset at this point does not occur in a run:
    `error_before_observation_v2`) -/
theorem nothing_after_observation_v2_forin_items (f : Nat) (nm : Bytes) (p pos : Pos) (items : List TV)
    (live : Option (Nat × Nat × Nat)) (body : Option (List Node)) (s : St) (hk : k ≤ s.world.polls) :
    QuietOrErr k s (forInItems2 (withSig env (some k)) (f+1) (.ident nm p) pos items live body s) := by
  cases live with
  | none =>
    cases items with
    | nil => exact .inr (.inl ⟨s, rfl, hk, rfl⟩)
    | cons x r =>
      have := forInItems2_after_clear env k f nm p pos x r none body s hk
      cases body <;> exact this
  | some t =>
    obtain ⟨a, i, n⟩ := t
    by_cases hin : i < n
    · have := forInItems2_after_clear env k f nm p pos (detect s.world.heap (match s.world.heap.get? a with
            | some (.list xs) => xs.getD i .nil
            | _ => .nil)) [] (some (a, i+1, n)) body s hk
      simp only [forInItems2, if_pos hin]
      cases body <;> exact this
    · simp only [forInItems2, if_neg hin]
      exact .inr (.inl ⟨s, rfl, hk, rfl⟩)

/-! ### the empty loop stops -/


theorem pollB_low (s : St) (hx : s.task.exit = false) (h : ¬ k ≤ s.world.polls + 1) :
    pollB (withSig env (some k)) s = false := by
  unfold pollB; simp [hx, h]

theorem pollB_now (s : St) (hx : s.task.exit = false) (h : k ≤ s.world.polls + 1) :
    pollB (withSig env (some k)) s = true := by
  unfold pollB; simp [hx, h]

theorem pollSt_polls (o : Option Nat) (s : St) (hx : s.task.exit = false) :
    (pollSt (withSig env o) s).world.polls = s.world.polls + 1 := by
  unfold pollSt; simp [hx]

/-- a loop that only polls — at its head and at the end of every iteration — observes the signal:
    it ends ok, at poll `k` exactly (or at its first poll if the signal had fired before), with the
    exit flag set and without an event, provided the model's recursion bound allows for the
    `k - polls` polls -/
theorem poll_loop_terminates (L : Nat → EM Unit)
    (hL : ∀ g, L (g+1) = (procExit (withSig env (some k)) >>= fun x =>
      if x = true then pure () else loopTail2 (withSig env (some k)) (L g))) :
    ∀ (g : Nat) (s : St), s.task.exit = false → s.task.brk = false → s.task.cont = false →
      k ≤ s.world.polls + 2 * g + 2 →
      ∃ s', L (g+1) s = .ok () s' ∧ s'.task.exit = true ∧ s'.world.polls = max k (s.world.polls + 1) ∧
        s'.world.trace = s.world.trace := by
  intro g
  induction g with
  | zero =>
    intro s hx hb hc hf
    rw [hL]
    simp only [bind_apply, procExit_apply, rbind_ok]
    by_cases h1 : k ≤ s.world.polls + 1
    · rw [pollB_now env k s hx h1]
      refine ⟨_, rfl, ?_, ?_, pollSt_trace _ _⟩
      · rw [pollSt_exit, pollB_now env k s hx h1]
      · rw [pollSt_polls env _ s hx]; omega
    · rw [pollB_low env k s hx h1]
      have hx1 : (pollSt (withSig env (some k)) s).task.exit = false := by
        rw [pollSt_exit, pollB_low env k s hx h1]
      have hp1 := pollSt_polls env (some k) s hx
      have hclr : Clr (pollSt (withSig env (some k)) s) := ⟨by rw [pollSt_brk]; exact hb, by rw [pollSt_cont]; exact hc⟩
      have h2 : k ≤ (pollSt (withSig env (some k)) s).world.polls + 1 := by omega
      simp only [Bool.false_eq_true, if_false]
      rw [loopTail2_clr _ _ hclr, pollB_now env k _ hx1 h2, if_pos rfl]
      refine ⟨_, rfl, ?_, ?_, ?_⟩
      · rw [pollSt_exit, pollB_now env k _ hx1 h2]
      · rw [pollSt_polls env _ _ hx1]; omega
      · rw [pollSt_trace, pollSt_trace]
  | succ g ih =>
    intro s hx hb hc hf
    rw [hL]
    simp only [bind_apply, procExit_apply, rbind_ok]
    by_cases h1 : k ≤ s.world.polls + 1
    · rw [pollB_now env k s hx h1]
      refine ⟨_, rfl, ?_, ?_, pollSt_trace _ _⟩
      · rw [pollSt_exit, pollB_now env k s hx h1]
      · rw [pollSt_polls env _ s hx]; omega
    · rw [pollB_low env k s hx h1]
      have hx1 : (pollSt (withSig env (some k)) s).task.exit = false := by
        rw [pollSt_exit, pollB_low env k s hx h1]
      have hp1 := pollSt_polls env (some k) s hx
      have hclr : Clr (pollSt (withSig env (some k)) s) := ⟨by rw [pollSt_brk]; exact hb, by rw [pollSt_cont]; exact hc⟩
      simp only [Bool.false_eq_true, if_false]
      rw [loopTail2_clr _ _ hclr]
      by_cases h2 : k ≤ (pollSt (withSig env (some k)) s).world.polls + 1
      · rw [pollB_now env k _ hx1 h2, if_pos rfl]
        refine ⟨_, rfl, ?_, ?_, ?_⟩
        · rw [pollSt_exit, pollB_now env k _ hx1 h2]
        · rw [pollSt_polls env _ _ hx1]; omega
        · rw [pollSt_trace, pollSt_trace]
      · rw [pollB_low env k _ hx1 h2, if_neg (by simp)]
        have hx2 : (pollSt (withSig env (some k)) (pollSt (withSig env (some k)) s)).task.exit = false := by
          rw [pollSt_exit, pollB_low env k _ hx1 h2]
        have hp2 := pollSt_polls env (some k) _ hx1
        obtain ⟨s', e1, e2, e3, e4⟩ := ih (pollSt (withSig env (some k)) (pollSt (withSig env (some k)) s)) hx2
          (by rw [pollSt_brk, pollSt_brk]; exact hb) (by rw [pollSt_cont, pollSt_cont]; exact hc) (by omega)
        refine ⟨s', e1, e2, ?_, ?_⟩
        · rw [e3]; omega
        · rw [e4, pollSt_trace, pollSt_trace]

theorem for2_nil_step (e : Env) (g : Nat) :
    for2 e (g+2) none none (some []) =
      (procExit e >>= fun x => if x = true then pure () else loopTail2 e (for2 e (g+1) none none (some []))) := by
  rw [for2.eq_def]
  rfl

theorem for2_none_step (e : Env) (g : Nat) :
    for2 e (g+1) none none none =
      (procExit e >>= fun x => if x = true then pure () else loopTail2 e (for2 e g none none none)) := by
  rw [for2.eq_def]
  rfl

/-- **`for ;; {}` stops**: started before the observation, with recursion bound `g+2` allowing for
    the `k - polls` polls (two per iteration), the empty loop ends ok exactly at poll `k` -/
theorem empty_loop_terminates_v2 (g : Nat) (s : St) (hx : s.task.exit = false) (hb : s.task.brk = false)
    (hc : s.task.cont = false) (hf : k ≤ s.world.polls + 2 * g + 2) :
    ∃ s', for2 (withSig env (some k)) (g+2) none none (some []) s = .ok () s' ∧ s'.task.exit = true ∧
      s'.world.polls = max k (s.world.polls + 1) ∧ s'.world.trace = s.world.trace :=
  poll_loop_terminates env k (fun g => for2 (withSig env (some k)) (g+1) none none (some []))
    (fun g => for2_nil_step _ g) g s hx hb hc hf

end

/-! ### the full statement, and why it needs `NoStmtInExpr` -/

/-- `effects_prefix_v2` without the hypothesis on where statement nodes occur -/
def effects_prefix_v2_full : Prop :=
  ∀ (env : Env) (k : Nat) (later : Option Nat), (∀ k', later = some k' → k ≤ k') →
    ∀ (fuel : Nat) (name : Bytes) (stmts : List Node) (w : World) (sK sL : St),
      EndsIn (runScript2 (withSig env (some k)) fuel name stmts w) sK →
      EndsIn (runScript2 (withSig env later) fuel name stmts w) sL →
      sK.world.trace <:+ sL.world.trace

/-- the host's function table holds the probes `p` and `pr` -/
def env2 : Env :=
  { bound := fun _ => none, fns := [nP, nPr], sigK := none, hasSignal := false,
    mapOrder := fun _ => 0, oracle := fun _ => none }

/-- `p(args)`, `pr(args)` -/
def callP2 (args : List Node) : Node := .call nP args P0 P0 P0 1
def callPr2 (args : List Node) : Node := .call nPr args P0 P0 P0 2
/-- the variable `i` -/
def nI : Bytes := [105]
def vI : Node := .ident nI P0
/-- the renderings `int=i1`, `int=i2` -/
def int1 : Bytes := [105, 110, 116, 61, 105, 49]
def int2 : Bytes := [105, 110, 116, 61, 105, 50]

/-- `pr(if true { 1  pr(2) })`: an `if` statement in argument position (not producible by the parser) -/
def cxScript2 : List Node :=
  [callPr2 [.ifelse [(.boolLit true P0, some [.intLit 1 P0, callPr2 [.intLit 2 P0]], P0)] none P0]]

theorem exprFree_ifelse (g : Nat) (a b c) : exprFree g (.ifelse a b c) = false := by
  cases g <;> rfl

/-- the checker rejects it, at every depth -/
theorem cx2_rejected : ¬ NoStmtInExpr cxScript2 := by
  rintro ⟨g, h⟩
  revert h
  rcases g with _ | _ | _ | g <;> try (intro h; cases h)
  simp only [cxScript2, callPr2, stmtsOk2, stmtOk2, exprFree, Bool.and_eq_true]
  cases g <;> simp [exprFreeL, exprFree_ifelse]

/-- signal at poll 3 (the block's second statement): the block stops with `1` in the registers and
    the statement in progress still records `pr(1)`; the run returns ok -/
theorem cx2_interrupted :
    endTrace (runScript2 (withSig env2 (some 3)) 20 [109] cxScript2 {}) = some [.probe nPr [int1]] ∧
    okPolls (runScript2 (withSig env2 (some 3)) 20 [109] cxScript2 {}) = some 3 := by
  decide +kernel

/-- no signal: `pr(2)` in the block, then `pr(2)` -/
theorem cx2_uninterrupted :
    endTrace (runScript2 (withSig env2 none) 20 [109] cxScript2 {}) =
      some [.probe nPr [int2], .probe nPr [int2]] := by
  decide +kernel

/-- with a statement nested in an expression the effects of the interrupted run (`pr(1)`) are not a
    prefix of the effects of the uninterrupted run (`pr(2)`, `pr(2)`) -/
theorem stmt_in_expr_breaks_prefix_v2 : ¬ effects_prefix_v2_full := by
  intro h
  obtain ⟨sK, hK, tK⟩ := endTrace_some cx2_interrupted.1
  obtain ⟨sL, hL, tL⟩ := endTrace_some cx2_uninterrupted
  have := h env2 3 none (fun _ h => by cases h) 20 [109] cxScript2 {} sK sL hK hL
  rw [tK, tL] at this
  revert this
  decide

/-! ### a concrete instance -/

/-- `i = 0   for ; i < 2; p(i) { i += 1   if i == 1 { continue }   pr(i) }   p()` -/
def exScript2 : List Node :=
  [ .assign .eq [vI] [.intLit 0 P0] P0,
    .forS none (some (.cond .lt vI (.intLit 2 P0) P0)) (some (callP2 [vI]))
      (some [ .assign .addEq [vI] [.intLit 1 P0] P0,
              .ifelse [(.cond .eq vI (.intLit 1 P0) P0, some [.cont P0], P0)] none P0,
              callPr2 [vI] ]) P0,
    callP2 [] ]

theorem ex2_ok : NoStmtInExpr exScript2 := ⟨20, by decide +kernel⟩

/-- no signal, 15 polls: the first iteration continues (no `pr`), its clause records `p(1)`; the
    second records `pr(2)`, `p(2)`; then `p()` -/
theorem ex2_run_never :
    endTrace (runScript2 (withSig env2 none) 30 [109] exScript2 {}) =
      some [.probe nP [], .probe nP [int2], .probe nPr [int2], .probe nP [int1]] ∧
    okPolls (runScript2 (withSig env2 none) 30 [109] exScript2 {}) = some 15 := by
  decide +kernel

/-- signal at poll 8 — the end of the first iteration (after the `continue`): the loop clause
    `p(1)` is not run -/
theorem ex2_run_8 :
    endTrace (runScript2 (withSig env2 (some 8)) 30 [109] exScript2 {}) = some [] ∧
    okPolls (runScript2 (withSig env2 (some 8)) 30 [109] exScript2 {}) = some 8 := by
  decide +kernel

/-- signal at poll 9 — the loop head of the second iteration: `p(1)` -/
theorem ex2_run_9 :
    endTrace (runScript2 (withSig env2 (some 9)) 30 [109] exScript2 {}) = some [.probe nP [int1]] ∧
    okPolls (runScript2 (withSig env2 (some 9)) 30 [109] exScript2 {}) = some 9 := by
  decide +kernel

/-- signal at poll 13 — the end of the second iteration: `p(1)`, `pr(2)`, the clause `p(2)` is not run -/
theorem ex2_run_13 :
    endTrace (runScript2 (withSig env2 (some 13)) 30 [109] exScript2 {}) =
      some [.probe nPr [int2], .probe nP [int1]] ∧
    okPolls (runScript2 (withSig env2 (some 13)) 30 [109] exScript2 {}) = some 13 := by
  decide +kernel

/-- `effects_prefix_v2` applies to this script for every pair of poll indices -/
theorem ex2_prefix (k : Nat) (later : Option Nat) (hl : ∀ k', later = some k' → k ≤ k') (sK sL : St)
    (hK : EndsIn (runScript2 (withSig env2 (some k)) 30 [109] exScript2 {}) sK)
    (hL : EndsIn (runScript2 (withSig env2 later) 30 [109] exScript2 {}) sL) :
    sK.world.trace <:+ sL.world.trace :=
  effects_prefix_v2 env2 k later hl 30 [109] exScript2 {} ex2_ok sK sL hK hL

/-- the run reached the bound of the model's recursion -/
def isFuel : Res Unit → Bool
  | .fuel => true
  | _ => false

/-- `for ;; {}` alone, signal at poll 7, never: the interrupted run ends ok at poll 7, the other one
    only reaches the bound of the model's recursion -/
theorem ex2_empty_loop :
    okPolls (runScript2 (withSig env2 (some 7)) 30 [109] [.forS none none none (some []) P0] {}) = some 7 ∧
    isFuel (runScript2 (withSig env2 none) 30 [109] [.forS none none none (some []) P0] {}) = true := by
  decide +kernel

end Platypus.C14V2
