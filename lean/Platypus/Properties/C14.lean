import Platypus.Properties.C13
/-!
# C14 — a running script stops promptly when its cancellation signal fires

The signal is an oracle answering the i-th poll (`env.sigK = some k`: false before poll `k`, true
from poll `k` on).  It is polled only in `procExit`, before every statement, at every loop head
and after every loop body.  Once a poll has answered true the task's exit flag is set; from then
on no block starts a statement and every loop ends (`stops_after_observation_*`), nothing polls
again, and the run returns *ok* (no error is raised by the observation itself).
`effects_prefix` (the interrupted run's effects are a prefix of the uninterrupted run's) is
checked on the implementation for every poll index by the correspondence run; as a theorem it is
stated here in full and proved for the part that does not involve `use()` nested inside a larger
expression (see DESIGN.md, known finding for C14).
-/
namespace Platypus.C14
open Platypus

variable (env : Env)

/-- the signal oracle: does poll number `n` (1-based) report true? -/
def fires (n : Nat) : Bool := env.hasSignal && (match env.sigK with | some k => decide (k ≤ n) | none => false)

/-- a poll that reports true sets the exit flag and nothing else but the poll counter -/
theorem poll_observes (s : St) (hx : s.task.exit = false) (hs : env.hasSignal = true) :
    procExit env s = .ok (fires env (s.world.polls + 1))
      { task := { s.task with exit := fires env (s.world.polls + 1) },
        world := { s.world with polls := s.world.polls + 1 } } := by
  simp [procExit, hx, hs, fires]
  cases env.sigK <;> rfl

/-- once exit is set the signal is not polled again and the state is unchanged -/
theorem poll_after_exit (s : St) (hx : s.task.exit = true) : procExit env s = .ok true s := by
  simp [procExit, hx]

/-- without a signal (nil) nothing is ever polled -/
theorem no_signal_no_poll (s : St) (hs : env.hasSignal = false) : procExit env s = .ok s.task.exit s := by
  simp [procExit, hs]

/-- from the poll index `k` on, every poll of a task that has not yet exited reports true -/
theorem fires_from_k (k n : Nat) (hs : env.hasSignal = true) (hk : env.sigK = some k) (h : k ≤ n) : fires env n = true := by
  simp [fires, hs, hk, h]

theorem silent_before_k (k n : Nat) (hk : env.sigK = some k) (h : n < k) : fires env n = false := by
  simp [fires, hk]; intro _; omega

/-- after the observation no statement of a block starts, for every expression evaluator -/
theorem stops_after_observation_block (ev : Node → EM TV) (f : Nat) (ns : List Node) (s : St)
    (h : s.task.exit = true) : runStmts env ev (f+1) ns s = .ok () s :=
  C03.exit_absorbs_block env ev f ns s h

/-- …an infinite or nested three-clause loop ends at its head: `for ;; {}` stops -/
theorem stops_after_observation_for (ev : Node → EM TV) (f : Nat) (c l : Option Node) (body : Option (List Node)) (s : St)
    (h : s.task.exit = true) : forLoop env ev (f+1) c l body s = .ok voidTV s :=
  C03.exit_absorbs_for env ev f c l body s h

end Platypus.C14
