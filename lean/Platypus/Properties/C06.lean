import Platypus.Proofs.ParsePrinter
/-!
# C06 — parsing inverts printing, for every admissible layout

`Platypus/Spec/Layout.lean` defines when an item list is a *spelling* of a tree (`PE` for
expressions, …, `PS` for statements, `PProg` for programs): the tree's tokens in order, parentheses
exactly where the tree has `paren` nodes (an operand that binds less tightly than its position
requires, by the grammar's precedence table `lvl`, must be a `paren` node), and any number of line
ends at every place the grammar allows them, any separator runs between statements.

* `parse_print`: the parser (`Parse.parseItems`, the model validated against the implementation)
  maps every spelling of `ss` back to exactly `ss`.  Trees whose `paren` nodes are all needed are
  the "only the required parentheses" case; all other trees are the "redundant parentheses add
  only explicit `paren` nodes" case; both are instances of the one theorem.
* `parse_print_expr`: the expression-level statement behind it (any precedence level, any
  continuation that cannot extend the expression, explicit fuel bound).
* `layout_irrelevant`, `comments_irrelevant`, `parse_print_comments`: corollaries.
* `print0`, `print0_spec`, `parse_print0`: an executable printer (compact layout) that succeeds exactly
  on the trees satisfying the side conditions (decidable: `WF`), prints a spelling, and is inverted
  by the parser.
* `precedence examples`, `demo`: concrete instances; `demo` is a `PProg` derivation for a program
  that uses every statement form and most expression forms, with line ends inside brackets.

The proofs are in `Platypus/Proofs/ParseBasic.lean`, `ParseExpr.lean`, `ParseStmt.lean`:
one lemma per constructor of the spelling relations, recursion on the derivations.  No side
condition was added to `Layout.lean` (a loop clause of a `for` that begins with `{` is covered).
-/
namespace Platypus.C06
open Platypus.Parse
open Platypus.Lex (Tok Item)

/-- **Main theorem.**  Every admissible spelling (all layouts) of the statement trees `ss` is parsed
    back to exactly `ss`. -/
theorem parse_print : ∀ (ss : List PT) (ts : List Item), PProg ss ts → parseItems ts = some ss :=
  fun _ _ h => parseItems_of_pprog h

/-- what may follow an expression that is parsed at level `minPrec`: not a postfix opener
    (`[`, `.`, `(`), and not a binary operator of level `minPrec` or above -/
def ExprStop (minPrec : Nat) (rest : List Item) : Prop :=
  noPost (tk rest) = true ∧ ∀ p q, binOf (tk rest) = some (p, q) → p < minPrec

/-- **Expressions.**  A spelling `ts` of `t`, followed by anything that cannot extend the expression,
    is parsed at every level `minPrec ≤ level t` to exactly `t`, leaving exactly the rest, with any
    fuel from `4 * ts.length + 1` on. -/
theorem parse_print_expr {t : PT} {ts : List Item} (h : PE t ts) :
    ∀ (rest : List Item) (minPrec fuel : Nat), minPrec ≤ level t → ExprStop minPrec rest →
      4 * ts.length + 1 ≤ fuel → parseExpr fuel minPrec (ts ++ rest) = some (t, rest) := by
  intro rest m F hm hs hF
  exact (pe_ok h).expr m rest 1 _ hm hs.1 (fun p q hb => by have := hs.2 p q hb; omega)
    (binRest_stop hs.2 t) F (by omega)

/-- the general form: after reading a spelling of `t` at a level `minPrec ≤ level t`, the parser
    continues its operator loop with `t` as the left operand (whatever that loop then does) -/
theorem parse_print_expr_cont {t : PT} {ts : List Item} (h : PE t ts) :
    ∀ (rest : List Item) (minPrec f : Nat) (res : PT × List Item), minPrec ≤ level t →
      noPost (tk rest) = true → (∀ p q, binOf (tk rest) = some (p, q) → p ≤ level t) →
      (∀ F, f ≤ F → parseBinRest F minPrec t rest = some res) →
      ∀ fuel, f + 4 * ts.length ≤ fuel → parseExpr fuel minPrec (ts ++ rest) = some res :=
  fun rest m f res => (pe_ok h).expr m rest f res

/-- **Statements.**  A spelling of a statement, followed by a statement end (`;`, line end, `}`,
    end of input), is parsed to exactly that statement. -/
theorem parse_print_stmt {x : PT} {t : List Item} (h : PS x t) :
    ∀ (rest : List Item) (fuel : Nat), stmtEnd (tk rest) = true → 4 * t.length + 4 ≤ fuel →
      parseStmt fuel (t ++ rest) = some (x, rest) :=
  fun rest F hr hF => (ps_ok h).stmt rest hr F hF

/-- two spellings of the same trees parse alike -/
theorem layout_irrelevant {ss : List PT} {ts ts' : List Item} (h : PProg ss ts) (h' : PProg ss ts') :
    parseItems ts = parseItems ts' := by
  rw [parse_print ss ts h, parse_print ss ts' h']

/-- removing (or: inserting) COMMENT items anywhere does not change the result of the parser -/
theorem comments_irrelevant (ts : List Item) :
    parseItems (ts.filter fun i => i.typ ≠ .COMMENT) = parseItems ts := by
  have h1 : ((ts.filter fun i => i.typ ≠ .COMMENT).any fun i => i.typ = .ERROR) = ts.any fun i => i.typ = .ERROR := by
    rw [List.any_filter]
    congr 1; funext a
    by_cases he : a.typ = .ERROR
    · simp [he]
    · simp [he]
  have h2 : ((ts.filter fun i => i.typ ≠ .COMMENT).filter fun i => i.typ ≠ .COMMENT) =
      ts.filter fun i => i.typ ≠ .COMMENT := by
    simp [List.filter_filter]
  simp only [parseItems, h1, h2]

/-- a spelling with comments inserted anywhere is parsed to the trees -/
theorem parse_print_comments {ss : List PT} {ts : List Item}
    (h : PProg ss (ts.filter fun i => i.typ ≠ .COMMENT)) : parseItems ts = some ss := by
  rw [← comments_irrelevant]; exact parse_print _ _ h

/-! ### precedence examples (evaluated) -/

section Examples

/-- an item of type `t` -/
def I (t : Tok) : Item := ⟨t, 0, []⟩
/-- the identifier item with the one-letter name `c` -/
def idn (c : UInt8) : Item := ⟨.ID, 0, [c]⟩
/-- the number item with the one-digit text `c` -/
def nm (c : UInt8) : Item := ⟨.NUMBER, 0, [c]⟩
/-- the variable `c` -/
def va (c : UInt8) : PT := .ident false [c]
/-- the number literal `c` -/
def nu (c : UInt8) : PT := .num false [c]

/-- `a - b - c` is `(a - b) - c` -/
example : parseItems [idn 97, I .SUB, idn 98, I .SUB, idn 99, I .EOF]
    = some [.bin .sub (.bin .sub (va 97) (va 98)) (va 99)] := rfl
/-- `a + b * c` is `a + (b * c)` -/
example : parseItems [idn 97, I .ADD, idn 98, I .MUL, idn 99, I .EOF]
    = some [.bin .add (va 97) (.bin .mul (va 98) (va 99))] := rfl
/-- `a * b + c` is `(a * b) + c` -/
example : parseItems [idn 97, I .MUL, idn 98, I .ADD, idn 99, I .EOF]
    = some [.bin .add (.bin .mul (va 97) (va 98)) (va 99)] := rfl
/-- `- a * b` is `(- a) * b` -/
example : parseItems [I .SUB, idn 97, I .MUL, idn 98, I .EOF]
    = some [.bin .mul (.unary .neg (va 97)) (va 98)] := rfl
/-- `! a == b` is `(! a) == b` -/
example : parseItems [I .NOT, idn 97, I .EQEQ, idn 98, I .EOF]
    = some [.bin .eqeq (.unary .not (va 97)) (va 98)] := rfl
/-- `a in b && c` is `(a in b) && c` -/
example : parseItems [idn 97, I .IN, idn 98, I .AND, idn 99, I .EOF]
    = some [.bin .and (.bin .in_ (va 97) (va 98)) (va 99)] := rfl
/-- `a || b && c == d + e * f` nests by level -/
example : parseItems [idn 97, I .OR, idn 98, I .AND, idn 99, I .EQEQ, idn 100, I .ADD, idn 101, I .MUL, idn 102, I .EOF]
    = some [.bin .or (va 97) (.bin .and (va 98) (.bin .eqeq (va 99)
        (.bin .add (va 100) (.bin .mul (va 101) (va 102)))))] := rfl
/-- `a - (b - c)` keeps its parentheses as a `paren` node -/
example : parseItems [idn 97, I .SUB, I .LEFT_PAREN, idn 98, I .SUB, idn 99, I .RIGHT_PAREN, I .EOF]
    = some [.bin .sub (va 97) (.paren (.bin .sub (va 98) (va 99)))] := rfl
/-- `- 1 - - 2`: a sign on a number literal is folded into the literal -/
example : parseItems [I .SUB, nm 49, I .SUB, I .SUB, nm 50, I .EOF]
    = some [.bin .sub (.num true [49]) (.num true [50])] := rfl
/-- line ends after an operator and inside brackets:
    `a +⏎⏎ f(⏎ b,⏎ [⏎ 1 ⏎,⏎ 2 ⏎]⏎) * c` -/
example : parseItems [idn 97, I .ADD, I .EOL, I .EOL, idn 102, I .LEFT_PAREN, I .EOL, idn 98, I .COMMA, I .EOL,
      I .LEFT_BRACKET, I .EOL, nm 49, I .EOL, I .COMMA, I .EOL, nm 50, I .EOL, I .RIGHT_BRACKET, I .EOL,
      I .RIGHT_PAREN, I .MUL, idn 99, I .EOF]
    = some [.bin .add (va 97) (.bin .mul (.call false [102] [va 98, .list [nu 49, nu 50]]) (va 99))] := rfl
/-- but not before an operator: `a ⏎ + b` is two statements, `a` and `+ b` -/
example : parseItems [idn 97, I .EOL, I .ADD, idn 98, I .EOF] = some [va 97, .unary .pos (va 98)] := rfl

/-- the same through the theorem: the tree `(a - b) - c` and its spelling with two line ends after
    the second operator -/
example : parseItems [idn 97, I .SUB, idn 98, I .SUB, I .EOL, I .EOL, idn 99, I .EOF]
    = some [.bin .sub (.bin .sub (va 97) (va 98)) (va 99)] := by
  have ha : ∀ c, PE (va c) [idn c] := fun c => PE.ident false [c] 0 (by intro h; cases h)
  have he : Eols [I .EOL, I .EOL] := by intro i hi; simp at hi; subst hi; rfl
  have h1 : PE (.bin .sub (va 97) (va 98)) [idn 97, I .SUB, idn 98] :=
    PE.bin .sub (va 97) (va 98) [idn 97] [idn 98] [] 0 [] (by decide) (by decide) rfl (by intro i hi; cases hi) (ha 97) (ha 98)
  have h2 : PE (.bin .sub (.bin .sub (va 97) (va 98)) (va 99)) [idn 97, I .SUB, idn 98, I .SUB, I .EOL, I .EOL, idn 99] :=
    PE.bin .sub _ (va 99) [idn 97, I .SUB, idn 98] [idn 99] [I .EOL, I .EOL] 0 [] (by decide) (by decide) rfl he h1 (ha 99)
  exact parse_print _ _
    (PProg.stmts _ [] _ 0 [] (by intro i hi; cases hi) (PSS.plain _ _ (PSeq.last _ _ (PS.simple _ _ (PSimple.expr _ _ h2)))))

end Examples

/-! ### non-vacuity: a spelling derivation for a program that uses every statement form

```
⏎
if a {⏎
  for x in l { y = f(k = 1, b) }⏎
} elif b {⏎
  for i = 0; i < n; i += 1 { t[0][1] }⏎
} else {⏎
  o.p.q ; s[1:2:3]⏎
  [1,⏎ 2⏎]⏎
  {k:⏎ 1⏎}⏎
}⏎
```
-/
section Demo

private theorem eols0 : Eols [] := by intro i hi; cases hi
private theorem eols1 : Eols [I .EOL] := by intro i hi; simp at hi; subst hi; rfl
private theorem sepE : IsSep [I .EOL] := ⟨by simp, by intro i hi; simp at hi; subst hi; exact Or.inr rfl⟩
private theorem sepS : IsSep [I .SEMICOLON] := ⟨by simp, by intro i hi; simp at hi; subst hi; exact Or.inl rfl⟩
private theorem idok (v : Bytes) : identOK false v := by intro h; cases h
private theorem pid (c : UInt8) : PE (va c) [idn c] := PE.ident false [c] 0 (idok _)
private theorem pnm (c : UInt8) : PE (nu c) [nm c] := PE.num [c] 0

/-- `f(k = 1, b)` -/
def tCall : PT := .call false [102] [.assign .eq [va 107] [nu 49], va 98]
def iCall : List Item := [idn 102, I .LEFT_PAREN, idn 107, I .EQ, nm 49, I .COMMA, idn 98, I .RIGHT_PAREN]
theorem dCall : PE tCall iCall :=
  PE.call false [102] 0 0 [] [] _ [idn 107, I .EQ, nm 49, I .COMMA, idn 98, I .RIGHT_PAREN] (idok _) eols0
    (PA.cons _ _ [idn 107, I .EQ, nm 49] [idn 98, I .RIGHT_PAREN] [] 0 [] eols0
      (PArg.named false [107] 0 0 [] [] _ [nm 49] (idok _) eols0 (pnm 49))
      (PA.last _ [idn 98] [] 0 [] eols0 (PArg.pos _ _ (pid 98))))

/-- `for x in l { y = f(k = 1, b) }` -/
def tFor1 : PT := .forIn (va 120) (va 108) [.assign .eq [va 121] [tCall]]
def iFor1 : List Item := [I .FOR, idn 120, I .IN, idn 108, I .LEFT_BRACE, idn 121, I .EQ] ++ iCall ++ [I .RIGHT_BRACE]
theorem dFor1 : PS tFor1 iFor1 :=
  PS.forIn false [120] (va 108) _ [idn 108] ([I .LEFT_BRACE, idn 121, I .EQ] ++ iCall ++ [I .RIGHT_BRACE]) [] 0 [] 0 0 []
    (idok _) (by decide) rfl eols0 (pid 108)
    (PB.stmts _ [] ([idn 121, I .EQ] ++ iCall) 0 [] 0 [] eols0
      (PSS.plain _ _ (PSeq.last _ _ (PS.simple _ _
        (PSimple.assign [va 121] [tCall] [idn 121] iCall [] 0 [] eols0 (PC.one _ _ (pid 121)) (PC.one _ _ dCall))))))

/-- `t[0][1]` -/
def tIdx : PT := .index (some (false, [116])) [nu 48, nu 49]
def iIdx : List Item := [idn 116, I .LEFT_BRACKET, nm 48, I .RIGHT_BRACKET, I .LEFT_BRACKET, nm 49, I .RIGHT_BRACKET]
theorem dIdx : PE tIdx iIdx :=
  PE.index false [116] 0 _ [I .LEFT_BRACKET, nm 48, I .RIGHT_BRACKET, I .LEFT_BRACKET, nm 49, I .RIGHT_BRACKET]
    (idok _) (by simp)
    (PI.cons _ _ [nm 48] [I .LEFT_BRACKET, nm 49, I .RIGHT_BRACKET] [] [] 0 [] 0 [] eols0 eols0 (pnm 48)
      (PI.cons _ _ [nm 49] [] [] [] 0 [] 0 [] eols0 eols0 (pnm 49) PI.nil))

/-- `for i = 0; i < n; i += 1 { t[0][1] }` -/
def tFor2 : PT :=
  .forS (some (.assign .eq [va 105] [nu 48])) (some (.bin .lt (va 105) (va 110)))
    (some (.assign .addEq [va 105] [nu 49])) [tIdx]
def iFor2 : List Item :=
  [I .FOR, idn 105, I .EQ, nm 48, I .SEMICOLON, idn 105, I .LT, idn 110, I .SEMICOLON, idn 105, I .ADD_EQ, nm 49,
    I .LEFT_BRACE] ++ iIdx ++ [I .RIGHT_BRACE]
theorem dFor2 : PS tFor2 iFor2 :=
  PS.forS _ _ _ _ [idn 105, I .EQ, nm 48] [idn 105, I .LT, idn 110] [idn 105, I .ADD_EQ, nm 49]
    ([I .LEFT_BRACE] ++ iIdx ++ [I .RIGHT_BRACE]) 0 [] 0 [] 0 []
    (POS.some _ _ (PSimple.assign [va 105] [nu 48] [idn 105] [nm 48] [] 0 [] eols0 (PC.one _ _ (pid 105)) (PC.one _ _ (pnm 48))))
    (PO.some _ _ (PE.bin .lt (va 105) (va 110) [idn 105] [idn 110] [] 0 [] (by decide) (by decide) rfl eols0 (pid 105) (pid 110)))
    (POS.some _ _ (PSimple.opAssign .addEq (va 105) (nu 49) [idn 105] [nm 49] [] 0 [] (by decide) eols0 (pid 105) (pnm 49)))
    (PB.stmts _ [] iIdx 0 [] 0 [] eols0
      (PSS.plain _ _ (PSeq.last _ _ (PS.simple _ _ (PSimple.expr _ _ dIdx)))))

/-- `o.p.q` -/
def tAttr : PT := .attr (.attr (va 111) (va 112)) (va 113)
def iAttr : List Item := [idn 111, I .DOT, idn 112, I .DOT, idn 113]
theorem dAttr : PE tAttr iAttr :=
  PE.attr _ _ [idn 111, I .DOT, idn 112] [idn 113] 0 [] trivial trivial
    (PE.attr _ _ [idn 111] [idn 112] 0 [] trivial trivial (pid 111) (pid 112)) (pid 113)

/-- `s[1:2:3]` -/
def tSlice : PT := .slice (va 115) (some (nu 49)) (some (nu 50)) (some (nu 51)) true
def iSlice : List Item :=
  [idn 115, I .LEFT_BRACKET, nm 49, I .COLON, nm 50, I .COLON, nm 51, I .RIGHT_BRACKET]
theorem dSlice : PE tSlice iSlice :=
  PE.slice3 (va 115) _ _ _ [idn 115] [nm 49] [nm 50] [nm 51] [] [] [] 0 [] 0 [] 0 [] 0 [] trivial rfl
    eols0 eols0 eols0 (pid 115) (PO.some _ _ (pnm 49)) (PO.some _ _ (pnm 50)) (PO.some _ _ (pnm 51))

/-- `[1,⏎ 2⏎]` -/
def tList : PT := .list [nu 49, nu 50]
def iList : List Item := [I .LEFT_BRACKET, nm 49, I .COMMA, I .EOL, nm 50, I .EOL, I .RIGHT_BRACKET]
theorem dList : PE tList iList :=
  PE.list 0 [] [] _ [nm 49, I .COMMA, I .EOL, nm 50, I .EOL, I .RIGHT_BRACKET] eols0
    (PL.cons _ _ [nm 49] [nm 50, I .EOL, I .RIGHT_BRACKET] [] [I .EOL] 0 [] eols0 eols1 (pnm 49)
      (PL.last _ [nm 50] [I .EOL] 0 [] eols1 (pnm 50)))

/-- `{k:⏎ 1⏎}` -/
def tMap : PT := .map [(va 107, nu 49)]
def iMap : List Item := [I .LEFT_BRACE, idn 107, I .COLON, I .EOL, nm 49, I .EOL, I .RIGHT_BRACE]
theorem dMap : PE tMap iMap :=
  PE.map 0 [] [] _ [idn 107, I .COLON, I .EOL, nm 49, I .EOL, I .RIGHT_BRACE] eols0
    (PM.last _ _ [idn 107] [nm 49] [I .EOL] [I .EOL] 0 [] 0 [] eols1 eols1 (pid 107) (pnm 49))

/-- the whole program -/
def demoTrees : List PT :=
  [.ifelse [(va 97, [tFor1]), (va 98, [tFor2])] (some [tAttr, tSlice, tList, tMap])]
def demoItems : List Item :=
  [I .EOL, I .IF, idn 97, I .LEFT_BRACE, I .EOL] ++ iFor1 ++ [I .EOL, I .RIGHT_BRACE,
    I .ELIF, idn 98, I .LEFT_BRACE, I .EOL] ++ iFor2 ++ [I .EOL, I .RIGHT_BRACE,
    I .ELSE, I .LEFT_BRACE, I .EOL] ++ iAttr ++ [I .SEMICOLON] ++ iSlice ++ [I .EOL] ++ iList ++ [I .EOL] ++ iMap
    ++ [I .EOL, I .RIGHT_BRACE, I .EOL, I .EOF]

private theorem sx {x t} (h : PE x t) : PS x t := PS.simple _ _ (PSimple.expr _ _ h)

theorem demo : PProg demoTrees demoItems :=
  PProg.stmts _ [I .EOL] _ 0 [] eols1
    (PSS.plain _ _ (PSeq.lastSep _ _ [I .EOL] sepE
      (PS.ifelse _ _
        ([I .IF, idn 97, I .LEFT_BRACE, I .EOL] ++ iFor1 ++ [I .EOL, I .RIGHT_BRACE,
          I .ELIF, idn 98, I .LEFT_BRACE, I .EOL] ++ iFor2 ++ [I .EOL, I .RIGHT_BRACE])
        ([I .ELSE, I .LEFT_BRACE, I .EOL] ++ iAttr ++ [I .SEMICOLON] ++ iSlice ++ [I .EOL] ++ iList ++ [I .EOL] ++ iMap
          ++ [I .EOL, I .RIGHT_BRACE])
        (PIfs.cons true (va 97) [tFor1] _ [idn 97] ([I .LEFT_BRACE, I .EOL] ++ iFor1 ++ [I .EOL, I .RIGHT_BRACE])
          ([I .ELIF, idn 98, I .LEFT_BRACE, I .EOL] ++ iFor2 ++ [I .EOL, I .RIGHT_BRACE]) 0 [] (pid 97)
          (PB.stmts _ [I .EOL] (iFor1 ++ [I .EOL]) 0 [] 0 [] eols1 (PSS.plain _ _ (PSeq.lastSep _ _ _ sepE dFor1)))
          (PIfs.one false (va 98) [tFor2] [idn 98] ([I .LEFT_BRACE, I .EOL] ++ iFor2 ++ [I .EOL, I .RIGHT_BRACE]) 0 []
            (pid 98)
            (PB.stmts _ [I .EOL] (iFor2 ++ [I .EOL]) 0 [] 0 [] eols1 (PSS.plain _ _ (PSeq.lastSep _ _ _ sepE dFor2)))))
        (PElse.some _
          ([I .LEFT_BRACE, I .EOL] ++ iAttr ++ [I .SEMICOLON] ++ iSlice ++ [I .EOL] ++ iList ++ [I .EOL] ++ iMap
            ++ [I .EOL, I .RIGHT_BRACE]) 0 []
          (PB.stmts _ [I .EOL] (iAttr ++ [I .SEMICOLON] ++ (iSlice ++ [I .EOL] ++ (iList ++ [I .EOL] ++ (iMap ++ [I .EOL]))))
            0 [] 0 [] eols1
            (PSS.plain _ _
              (PSeq.cons _ _ iAttr [I .SEMICOLON] _ sepS (sx dAttr)
                (PSeq.cons _ _ iSlice [I .EOL] _ sepE (sx dSlice)
                  (PSeq.cons _ _ iList [I .EOL] _ sepE (sx dList)
                    (PSeq.lastSep _ iMap [I .EOL] sepE (sx dMap)))))))))))

/-- so the hypothesis of `parse_print` is satisfiable on a rich input, and the parser returns the trees -/
theorem demo_parses : parseItems demoItems = some demoTrees := parse_print _ _ demo

/-- cross-check by evaluation -/
example : parseItems demoItems = some demoTrees := rfl

end Demo

/-! ### an executable printer -/

/-- the compact printer: no line ends inside statements, one `;` between statements; `none` when a
    tree violates a side condition of the spelling relations (or `fuel` is less than its depth) -/
def print0 (fuel : Nat) (ss : List PT) : Option (List Item) := prProg fuel ss

/-- decidable well-formedness: the printer succeeds -/
def WF (fuel : Nat) (ss : List PT) : Bool := (print0 fuel ss).isSome

/-- what `print0` prints is a spelling of the trees -/
theorem print0_spec {fuel : Nat} {ss : List PT} {ts : List Item} (h : print0 fuel ss = some ts) : PProg ss ts :=
  prProg_spec h

/-- every well-formed tree list has a spelling -/
theorem spelling_exists {fuel : Nat} {ss : List PT} (h : WF fuel ss = true) : ∃ ts, PProg ss ts := by
  unfold WF at h
  cases hp : print0 fuel ss with
  | none => simp [hp] at h
  | some ts => exact ⟨ts, print0_spec hp⟩

/-- the parser inverts the printer -/
theorem parse_print0 {fuel : Nat} {ss : List PT} {ts : List Item} (h : print0 fuel ss = some ts) :
    parseItems ts = some ss :=
  parse_print _ _ (print0_spec h)

/-- the demo trees are well-formed, so they also have the compact spelling -/
example : WF 20 demoTrees = true := rfl
/-- a tree that needs parentheses and has none is not well-formed: `(a + b) * c` without `paren` -/
example : WF 20 [.bin .mul (.bin .add (va 97) (va 98)) (va 99)] = false := rfl
/-- with the `paren` node it is, and prints as `( a + b ) * c` -/
example : print0 20 [.bin .mul (.paren (.bin .add (va 97) (va 98))) (va 99)]
    = some [I .LEFT_PAREN, idn 97, I .ADD, idn 98, I .RIGHT_PAREN, I .MUL, idn 99, I .EOF] := rfl

end Platypus.C06
