import Platypus.Model.Interleave
import Platypus.Generated.SharedWrites
/-!
# C16 — loaded scripts and the parser are safe for concurrent use

`sequentially_equal`: if no run-time step writes a shared location (every step writes only
locations its own thread owns and reads only shared or own locations), then for **every schedule**
each thread's owned locations end up exactly as if that thread had run alone, and the shared
locations are never changed (`shared_unchanged`) — so no two threads ever conflict on a location
(`no_conflicting_writes`: a location written by a step is owned by the stepping thread, hence by
no other).
Regenerated fact: the set of run-time writes to shared objects extracted from the source
(assignments rooted in a syntax-tree node, a loaded script or a package-level variable, in any
function that is not a load-time function) is empty; the load-time set is the expected one.
The Go memory model and the claim that the extracted footprints are the real ones are outside
Lean: the race detector run is the check on the implementation (partial).
-/
namespace Platypus.C16
open Platypus.Interleave Platypus.Generated

def AllOK (owner : Owner) (sch : Schedule) : Prop := ∀ p ∈ sch, StepOK owner p.1 p.2

/-- shared locations are never changed by any schedule -/
theorem shared_unchanged (owner : Owner) (sch : Schedule) (h : AllOK owner sch) (s : Store) (l : Loc)
    (hl : owner l = none) : run sch s l = s l := by
  induction sch generalizing s with
  | nil => rfl
  | cons p rest ih =>
    obtain ⟨t, f⟩ := p
    have hp : StepOK owner t f := h (t, f) (by simp)
    simp only [run]
    rw [ih (fun q hq => h q (by simp [hq]))]
    exact hp.writesOwn s l (by simp [hl])

/-- a location owned by another thread is not touched by `t`'s steps: no conflicting accesses -/
theorem no_conflicting_writes (owner : Owner) (t : Tid) (f : Store → Store) (h : StepOK owner t f)
    (s : Store) (l : Loc) (u : Tid) (hu : owner l = some u) (hne : u ≠ t) : f s l = s l :=
  h.writesOwn s l (by simp [hu, hne])

/-- what thread `t` sees (its own and the shared locations) evolves under any schedule exactly as
    under its own steps alone -/
theorem view_eq_alone (owner : Owner) (t : Tid) (sch : Schedule) (h : AllOK owner sch) (s s' : Store)
    (hs : ∀ l, owner l = some t ∨ owner l = none → s l = s' l) :
    ∀ l, owner l = some t ∨ owner l = none → run sch s l = run (project t sch) s' l := by
  induction sch generalizing s s' with
  | nil => intro l hl; simpa [run, project] using hs l hl
  | cons p rest ih =>
    obtain ⟨u, f⟩ := p
    have hp : StepOK owner u f := h (u, f) (by simp)
    have hrest : AllOK owner rest := fun q hq => h q (by simp [hq])
    by_cases hut : u = t
    · subst hut
      simp only [run, project, if_true]
      apply ih hrest
      intro l hl
      rcases hl with hl | hl
      · exact hp.readsOwnOrShared s s' hs l hl
      · rw [hp.writesOwn s l (by simp [hl]), hp.writesOwn s' l (by simp [hl])]; exact hs l (Or.inr hl)
    · simp only [run, project, hut, if_false]
      apply ih hrest
      intro l hl
      have : owner l ≠ some u := by
        rcases hl with hl | hl
        · simp [hl]; exact fun e => hut e.symm
        · simp [hl]
      rw [hp.writesOwn s l this]
      exact hs l hl

/-- **every schedule**: each thread's owned state ends as if it had run alone from the same start -/
theorem sequentially_equal (owner : Owner) (t : Tid) (sch : Schedule) (h : AllOK owner sch) (s : Store) :
    ∀ l, owner l = some t → run sch s l = run (project t sch) s l :=
  fun l hl => view_eq_alone owner t sch h s s (fun _ _ => rfl) l (Or.inl hl)

/-! ## regenerated facts (F6) -/

theorem extract_ok_F6 : extractOk_F6 = true := by decide

/-- no run-time function assigns through a syntax-tree node, a loaded script or a package variable -/
theorem no_runtime_shared_writes : runTimeSharedWrites = [] := by decide

/-- the load-time annotations are exactly the expected ones (compiled grok, use() binding, call
    references, v2 normalised arguments; InitLog is host configuration; reIndexFuncArgs has no caller) -/
theorem loadtime_shared_writes :
    loadTimeSharedWrites =
      ["engine/dfs: *runtime.Script.CallRef[].PrivateData", "funcs/GrokChecking: *ast.CallExpr.Grok", "funcs/InitLog: var l",
       "funcs/reIndexFuncArgs: *ast.CallExpr.Param", "runtime/Check: *Script.CallRef",
       "runtimev2/CheckPassParam: *ast.CallExpr.ParamNormalized"] := by decide

/-! non-vacuity: two threads incrementing their own counters while reading a shared constant -/
example :
    let owner : Owner := fun l => if l = 1 then some 1 else if l = 2 then some 2 else none
    let inc (t : Tid) : Store → Store := fun s l => if l = t then s l + s 0 else s l
    StepOK owner 1 (inc 1) := by
  constructor
  · intro s l hl
    by_cases h : l = 1
    · subst h; simp at hl
    · simp [h]
  · intro s s' hs l hl
    have h1 : l = 1 := by
      by_cases h : l = 1
      · exact h
      · by_cases h2 : l = 2 <;> simp [h, h2] at hl
    subst h1
    simp
    rw [hs 1 (by simp), hs 0 (by simp)]

end Platypus.C16
