import Platypus.Proofs.SignalEval
import Platypus.Proofs.SignalObs
/-!
# C14 — the effects of an interrupted run are a prefix of the effects of the uninterrupted run

Two runs of the same script from the same world, in environments that differ only in the poll
index at which the host's signal starts to report true (`withSig env (some k)` and
`withSig env later`, with `later = none` — never — or `later = some k'`, `k ≤ k'`).

* `lockstep_script`: either both runs have the *same result*, or the earlier-interrupted run has
  observed the signal (`k ≤ polls`), ended **ok** (or ran out of fuel) and its trace is a suffix
  (the trace is a newest-first list: its effects are a prefix in time) of the trace of whatever
  state the other run ends in.
* `effects_prefix`: the corollary for the traces of the two end states.
* `error_not_from_observation`, `stops_without_error`: an error of the interrupted run is raised
  identically by the other run — the observation itself never produces an error.
* `error_before_observation`, `observed_implies_ok`: a script error of the interrupted run is raised
  in a state whose poll counter is still below `k`; hence a run in which the signal was observed
  (some poll with number `≥ k` happened: `k ≤ polls` at the end) returns **ok**.
* `nothing_after_observation_*`: once the signal has fired (`k ≤ polls`), every block, three-clause
  loop, loop tail and `use(…)` callee of *any* task performs exactly one poll, sets its exit flag and
  leaves trace, point and heap untouched.

Hypothesis `NoNestedUse`: `use(…)` occurs only as a whole statement (and `if`/`for` statements
do not occur inside expressions), in the script and in every bound callee.  Without it the statement
is false (`nested_use_breaks_prefix`): in `pr(use("b"))` the callee observes the signal and stops,
the caller's statement in progress still evaluates the rest of its expression.
-/
namespace Platypus.C14
open Platypus Platypus.MachineProofs Platypus.SignalProofs

/-- the same environment, except that the signal reports true from poll `o` on (`none`: never) -/
abbrev withSig (env : Env) (o : Option Nat) : Env := SignalProofs.withSig env o

/-- `use(…)` only as a whole statement, no statement inside an expression: the Boolean checker
    `stmtsOk` accepts the block (at some recursion depth) -/
def NoNestedUse (stmts : List Node) : Prop := ∃ g, stmtsOk g stmts = true

theorem NoNestedUse.sound {stmts : List Node} (h : NoNestedUse stmts) : StmtsOk stmts := by
  obtain ⟨g, hg⟩ := h
  exact (stmtOk_sound g).2.1 stmts hg

/-- the run ended in state `s`, successfully or with a script error -/
def EndsIn (r : Res Unit) (s : St) : Prop := r = .ok () s ∨ ∃ e, r = .err e s

theorem EndsIn.ends {r : Res Unit} {s : St} (h : EndsIn r s) : Ends r s := by
  rcases h with h | ⟨e, h⟩
  · exact .inl ⟨(), h⟩
  · exact .inr ⟨e, h⟩

section
variable (env : Env) (k : Nat) (later : Option Nat) (hl : ∀ k', later = some k' → k ≤ k')
variable (fuel : Nat) (name : Bytes) (stmts : List Node) (w : World)
variable (hN : NoNestedUse stmts)
variable (hB : ∀ site c cs, env.bound site = some (c, cs) → NoNestedUse cs)
include hl hN hB

/-- the two runs have the same result, or the K-run observed the signal, ended ok (or out of fuel)
    and the L-run, wherever it ends, has at least the K-run's effects -/
theorem lockstep_script :
    runScript (withSig env (some k)) fuel name stmts w = runScript (withSig env later) fuel name stmts w ∨
    runScript (withSig env (some k)) fuel name stmts w = .fuel ∨
    ∃ sK, runScript (withSig env (some k)) fuel name stmts w = .ok () sK ∧ k ≤ sK.world.polls ∧
      ∀ sL, EndsIn (runScript (withSig env later) fuel name stmts w) sL →
        sK.world.trace <:+ sL.world.trace := by
  have h := runStmts_lockstep (env := env) hl (fun site c cs hb => (hB site c cs hb).sound) fuel fuel stmts hN.sound
    { task := { name := name, scopes := [[]] }, world := w }
  rcases h with h | h | ⟨a, sK, h1, h2, h3⟩
  · exact .inl h
  · exact .inr (.inl h)
  · exact .inr (.inr ⟨sK, h1, h2, fun sL he => h3 sL he.ends⟩)

/-- **effects prefix**: the trace of the earlier-interrupted run is a suffix of the trace of the
    later-interrupted (or uninterrupted) run; traces are newest first, so the effects of the former
    are a prefix, in time, of the effects of the latter -/
theorem effects_prefix (sK sL : St)
    (hK : runScript (withSig env (some k)) fuel name stmts w = .ok () sK ∨
      ∃ e, runScript (withSig env (some k)) fuel name stmts w = .err e sK)
    (hL : runScript (withSig env later) fuel name stmts w = .ok () sL ∨
      ∃ e, runScript (withSig env later) fuel name stmts w = .err e sL) :
    sK.world.trace <:+ sL.world.trace := by
  rcases lockstep_script env k later hl fuel name stmts w hN hB with h | h | ⟨s, h1, _, h3⟩
  · rw [h] at hK
    have : sK = sL := by
      rcases hK with hK | ⟨e, hK⟩ <;> rcases hL with hL | ⟨e', hL⟩ <;> rw [hK] at hL <;> cases hL <;> rfl
    rw [this]
    exact List.suffix_refl _
  · rw [h] at hK
    rcases hK with hK | ⟨e, hK⟩ <;> cases hK
  · rw [h1] at hK
    have : s = sK := by
      rcases hK with hK | ⟨e, hK⟩ <;> cases hK; rfl
    rw [← this]
    exact h3 sL hL

/-- an error of the interrupted run is not produced by the observation: the other run raises the
    same error in the same state -/
theorem error_not_from_observation (e : PlErr) (sK : St)
    (hK : runScript (withSig env (some k)) fuel name stmts w = .err e sK) :
    runScript (withSig env later) fuel name stmts w = .err e sK := by
  rcases lockstep_script env k later hl fuel name stmts w hN hB with h | h | ⟨s, h1, _, _⟩
  · rw [← h]; exact hK
  · rw [h] at hK; cases hK
  · rw [h1] at hK; cases hK

/-- if the interrupted run behaves differently from the other run at all, it has observed the signal
    and returned *without error* (`.fuel`: the bound of the model's recursion, not a result) -/
theorem stops_without_error
    (hne : runScript (withSig env (some k)) fuel name stmts w ≠ runScript (withSig env later) fuel name stmts w) :
    runScript (withSig env (some k)) fuel name stmts w = .fuel ∨
    ∃ sK, runScript (withSig env (some k)) fuel name stmts w = .ok () sK ∧ k ≤ sK.world.polls := by
  rcases lockstep_script env k later hl fuel name stmts w hN hB with h | h | ⟨s, h1, h2, _⟩
  · exact absurd h hne
  · exact .inl h
  · exact .inr ⟨s, h1, h2⟩

end

/-- the machine-level theorem, for any pair of expression evaluators that agree on signal-free
    expressions, are related on `use(…)` statements and (the later one) only add to the trace:
    all control flow (blocks, if/elif/else, the three kinds of loops, break/continue) -/
theorem machine_effects_prefix (env : Env) (k : Nat) (later : Option Nat) (hl : ∀ k', later = some k' → k ≤ k')
    (evK evL : Node → EM TV) (hev : EvRel k evK evL) (g : Nat) (stmts : List Node) (h : StmtsOk stmts)
    (s sK sL : St)
    (hK : Ends (runStmts (withSig env (some k)) evK g stmts s) sK)
    (hL : Ends (runStmts (withSig env later) evL g stmts s) sL) :
    sK.world.trace <:+ sL.world.trace := by
  rcases (mrel_all (env := env) hl hev g).stmts stmts h s with h | h | ⟨a, s1, h1, _, h3⟩
  · rw [h] at hK
    rcases hK with ⟨a, hK⟩ | ⟨e, hK⟩ <;> rcases hL with ⟨b, hL⟩ | ⟨e', hL⟩ <;> rw [hK] at hL <;> cases hL <;>
      exact List.suffix_refl _
  · rw [h] at hK; exact absurd hK not_ends_fuel
  · rw [h1] at hK
    rw [← hK.ok]
    exact h3 sL hL

section
variable (env : Env) (k : Nat) (fuel : Nat) (name : Bytes) (stmts : List Node) (w : World)
variable (hN : NoNestedUse stmts)
variable (hB : ∀ site c cs, env.bound site = some (c, cs) → NoNestedUse cs)
include hN hB

/-- a script error of the interrupted run is raised before the observation: every evaluation is
    preceded by a poll of its own task that did not fire, and signal-free expressions do not poll -/
theorem error_before_observation (e : PlErr) (sK : St)
    (hK : runScript (withSig env (some k)) fuel name stmts w = .err e sK) : sK.world.polls < k :=
  runStmts_error_before_observation (env := env) (fun site c cs hb => (hB site c cs hb).sound)
    fuel fuel stmts hN.sound _ e sK hK

/-- **returns without error**: if the signal was observed during the run (a poll with number `≥ k`
    happened, i.e. `k ≤ polls` in the end state), the run's result is ok -/
theorem observed_implies_ok (sK : St)
    (hK : EndsIn (runScript (withSig env (some k)) fuel name stmts w) sK) (hobs : k ≤ sK.world.polls) :
    runScript (withSig env (some k)) fuel name stmts w = .ok () sK := by
  rcases hK with hK | ⟨e, hK⟩
  · exact hK
  · have := error_before_observation env k fuel name stmts w hN hB e sK hK
    omega

end

/-! ### nothing executes after the observation -/
section
variable (env : Env) (k : Nat) (ev : Node → EM TV)

/-- the state after the one poll that observes the signal -/
def observed (s : St) : St :=
  { task := { s.task with exit := true }, world := { s.world with polls := s.world.polls + 1 } }

theorem poll_fires (s : St) (hk : k ≤ s.world.polls) (hx : s.task.exit = false) :
    procExit (withSig env (some k)) s = .ok true (observed s) := by
  have : k ≤ s.world.polls + 1 := Nat.le_succ_of_le hk
  simp [procExit, hx, this, observed, SignalProofs.withSig]

/-- once the signal has fired (at or before the current poll count), a block of any task whose own
    exit flag is not yet set — the caller after a callee returned, a script entered later — performs
    one poll and starts no statement -/
theorem nothing_after_observation_block (f : Nat) (n : Node) (ns : List Node) (s : St)
    (hk : k ≤ s.world.polls) (hx : s.task.exit = false) :
    runStmts (withSig env (some k)) ev (f+1) (n :: ns) s = .ok () (observed s) := by
  simp only [runStmts, stmtReturn, poll_fires env k s hk hx]

theorem nothing_after_observation_nil (f : Nat) (s : St) :
    runStmts (withSig env (some k)) ev (f+1) [] s = .ok () s := rfl

/-- … a three-clause loop (also `for ;; {}`) ends at its head -/
theorem nothing_after_observation_for (f : Nat) (c l : Option Node) (body : Option (List Node)) (s : St)
    (hk : k ≤ s.world.polls) (hx : s.task.exit = false) :
    forLoop (withSig env (some k)) ev (f+1) c l body s = .ok voidTV (observed s) := by
  simp only [forLoop, bind_apply, poll_fires env k s hk hx, rbind_ok, if_true, pure_apply]

/-- … and the end of a loop iteration (after the body in which a callee observed the signal)
    leaves the loop: for every kind of loop, no further iteration, no event, no point or heap write -/
theorem nothing_after_observation_loop_tail (K : EM TV) (s : St) (hk : k ≤ s.world.polls) :
    ∃ s', loopTail (withSig env (some k)) K s = .ok voidTV s' ∧ k ≤ s'.world.polls ∧
      s'.world.trace = s.world.trace := by
  rcases Quiet.tail (env := env) (k := k) K s hk with h | ⟨a, s', h1, h2, h3⟩
  · exfalso
    by_cases hb : s.task.brk = true
    · rw [loopTail_brk _ K hb] at h; cases h
    · have hb' : s.task.brk = false := by simpa using hb
      by_cases hc : s.task.cont = true
      · rw [loopTail_cont _ K hb' hc, if_pos (pollB_fired (Sem.clearBC s) hk)] at h; cases h
      · have hc' : s.task.cont = false := by simpa using hc
        rw [loopTail_clr _ K ⟨hb', hc'⟩, if_pos (pollB_fired _ hk)] at h; cases h
  · have : a = voidTV := by
      by_cases hb : s.task.brk = true
      · rw [loopTail_brk _ K hb] at h1; cases h1; rfl
      · have hb' : s.task.brk = false := by simpa using hb
        by_cases hc : s.task.cont = true
        · rw [loopTail_cont _ K hb' hc, if_pos (pollB_fired (Sem.clearBC s) hk)] at h1; cases h1; rfl
        · have hc' : s.task.cont = false := by simpa using hc
          rw [loopTail_clr _ K ⟨hb', hc'⟩, if_pos (pollB_fired _ hk)] at h1; cases h1; rfl
    exact ⟨s', this ▸ h1, h2, h3⟩

/-- a script entered through `use(…)` after the observation performs one poll and nothing else;
    the caller gets its own task back and the world with one more poll -/
theorem nothing_after_observation_use (f : Nat) (lit : Bytes) (p np : Pos) (site : Nat) (s : St)
    (cname : Bytes) (c : Node) (cs : List Node)
    (hb : env.bound site = some (cname, c :: cs)) (hk : k ≤ s.world.polls) :
    builtin (withSig env (some k)) (f+2) .use (B "use") [.strLit lit p] np site s =
      .ok () { task := s.task, world := { s.world with polls := s.world.polls + 1 } } := by
  rw [C13.use_contract (withSig env (some k)) (f+1) lit p np site s cname (c :: cs) hb,
    nothing_after_observation_block env k _ f c cs { task := C13.calleeTask cname, world := s.world } hk rfl]
  rfl

end

/-! ### the full statement, and why it needs `NoNestedUse` -/

/-- the trace of the state a run ends in (ok or script error) -/
def endTrace : Res Unit → Option (List Event)
  | .ok _ s => some s.world.trace
  | .err _ s => some s.world.trace
  | _ => none

/-- the poll counter of the state a run ends in successfully -/
def okPolls : Res Unit → Option Nat
  | .ok _ s => some s.world.polls
  | _ => none

theorem endTrace_some {r : Res Unit} {t : List Event} (h : endTrace r = some t) :
    ∃ s, EndsIn r s ∧ s.world.trace = t := by
  cases r with
  | ok a s => exact ⟨s, .inl rfl, by simpa [endTrace] using h⟩
  | err e s => exact ⟨s, .inr ⟨e, rfl⟩, by simpa [endTrace] using h⟩
  | panic m => simp [endTrace] at h
  | fuel => simp [endTrace] at h
  | need q => simp [endTrace] at h

/-- `effects_prefix` without the hypothesis on where `use(…)` occurs -/
def effects_prefix_full : Prop :=
  ∀ (env : Env) (k : Nat) (later : Option Nat), (∀ k', later = some k' → k ≤ k') →
    ∀ (fuel : Nat) (name : Bytes) (stmts : List Node) (w : World) (sK sL : St),
      EndsIn (runScript (withSig env (some k)) fuel name stmts w) sK →
      EndsIn (runScript (withSig env later) fuel name stmts w) sL →
      sK.world.trace <:+ sL.world.trace

def P0 : Pos := ⟨0, 0, 0⟩
/-- the names `p`, `pr`, `use` -/
def nP : Bytes := [112]
def nPr : Bytes := [112, 114]
def nUse : Bytes := [117, 115, 101]
/-- `p()`, `pr(args)`, `use("b")` at call site `site` -/
def callP : Node := .call nP [] P0 P0 P0 1
def callPr (args : List Node) : Node := .call nPr args P0 P0 P0 2
def callUse (site : Nat) : Node := .call nUse [.strLit [98] P0] P0 P0 P0 site

/-- script `b` is `p() p()`; the probes `p`, `pr` and `use` are registered -/
def cxEnv : Env :=
  { bound := fun site => if site = 0 then some ([98], [callP, callP]) else none
    fns := [nP, nPr, nUse]
    sigK := none, hasSignal := false
    mapOrder := fun _ => 0
    oracle := fun _ => none }

/-- `pr(use("b"))`: the `use` call is an argument -/
def cxScript : List Node := [callPr [callUse 0]]
/-- the rendering of the void value that `use` returns -/
def voidText : Bytes := [118, 111, 105, 100, 61, 110]

/-- signal at poll 3: the callee runs one `p()`, observes the signal before its second statement and
    stops; the caller's statement in progress still records `pr(…)` -/
theorem cx_interrupted :
    endTrace (runScript (withSig cxEnv (some 3)) 20 [109] cxScript {}) =
      some [.probe nPr [voidText], .probe nP []] := by
  decide +kernel

/-- no signal: `p() p()` in the callee, then `pr(…)` -/
theorem cx_uninterrupted :
    endTrace (runScript (withSig cxEnv none) 20 [109] cxScript {}) =
      some [.probe nPr [voidText], .probe nP [], .probe nP []] := by
  decide +kernel

/-- with `use(…)` nested in a larger expression the effects of the interrupted run
    (`p`, `pr`) are not a prefix of the effects of the uninterrupted run (`p`, `p`, `pr`) -/
theorem nested_use_breaks_prefix : ¬ effects_prefix_full := by
  intro h
  obtain ⟨sK, hK, tK⟩ := endTrace_some cx_interrupted
  obtain ⟨sL, hL, tL⟩ := endTrace_some cx_uninterrupted
  have := h cxEnv 3 none (fun _ h => by cases h) 20 [109] cxScript {} sK sL hK hL
  rw [tK, tL] at this
  revert this
  decide

/-! ### a concrete instance -/

/-- script `b` is `pr() pr()` -/
def exEnv : Env :=
  { bound := fun site => if site = 0 then some ([98], [callPr [], callPr []]) else none
    fns := [nP, nPr, nUse]
    sigK := none, hasSignal := false
    mapOrder := fun _ => 0
    oracle := fun _ => none }

/-- `p()  use("b")  for ;; { pr()  break }  p()` -/
def exScript : List Node :=
  [callP, callUse 0, .forS none none none (some [callPr [], .brk P0]) P0, callP]

theorem ex_ok : NoNestedUse exScript := ⟨10, by decide +kernel⟩

theorem ex_bound_ok : ∀ site c cs, exEnv.bound site = some (c, cs) → NoNestedUse cs := by
  intro site c cs h
  simp only [exEnv] at h
  split at h
  · cases h; exact ⟨10, by decide +kernel⟩
  · cases h

/-- signal at poll 3 — the callee's first poll: the callee stops at once, the caller's next poll
    (number 4) fires too and the run returns ok with the effects `p` -/
theorem ex_run_3 :
    endTrace (runScript (withSig exEnv (some 3)) 30 [109] exScript {}) = some [.probe nP []] ∧
    okPolls (runScript (withSig exEnv (some 3)) 30 [109] exScript {}) = some 4 := by
  decide +kernel

/-- signal at poll 4: `p`, `pr` -/
theorem ex_run_4 :
    endTrace (runScript (withSig exEnv (some 4)) 30 [109] exScript {}) = some [.probe nPr [], .probe nP []] ∧
    okPolls (runScript (withSig exEnv (some 4)) 30 [109] exScript {}) = some 5 := by
  decide +kernel

/-- signal at poll 8 — inside the loop: `p`, `pr`, `pr`, `pr` -/
theorem ex_run_8 :
    endTrace (runScript (withSig exEnv (some 8)) 30 [109] exScript {}) =
      some [.probe nPr [], .probe nPr [], .probe nPr [], .probe nP []] := by
  decide +kernel

/-- no signal: `p`, `pr`, `pr`, `pr`, `p` -/
theorem ex_run_never :
    endTrace (runScript (withSig exEnv none) 30 [109] exScript {}) =
      some [.probe nP [], .probe nPr [], .probe nPr [], .probe nPr [], .probe nP []] := by
  decide +kernel

/-- `effects_prefix` applies to this script for every pair of poll indices -/
theorem ex_prefix (k : Nat) (later : Option Nat) (hl : ∀ k', later = some k' → k ≤ k') (sK sL : St)
    (hK : EndsIn (runScript (withSig exEnv (some k)) 30 [109] exScript {}) sK)
    (hL : EndsIn (runScript (withSig exEnv later) 30 [109] exScript {}) sL) :
    sK.world.trace <:+ sL.world.trace :=
  effects_prefix exEnv k later hl 30 [109] exScript {} ex_ok ex_bound_ok sK sL hK hL

end Platypus.C14
