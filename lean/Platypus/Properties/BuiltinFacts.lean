import Platypus.Model.Eval
import Platypus.Generated.FuncTable
/-!
# Regenerated facts (F2): the registered builtin tables are the ones the model knows

`pkg/inimpl/guancecloud/funcs/all.go` is read on every run.  `tables_symmetric`: every builtin has
a checker and vice versa (the stock tables are symmetric); `builtins_are_modelled`: every registered
name is a builtin of the model (`Fn.ofName`), and every builtin of the model other than the
harness's probes is registered: a builtin added to or removed from the tables breaks an obligation
instead of silently staying outside the model; `tables_unchanged`: each name still maps to the Go
function the model's clause was written from.
-/
namespace Platypus.BuiltinFacts
open Platypus Platypus.Generated

theorem extract_ok_F2 : extractOk_F2 = true := by decide

theorem tables_symmetric : funcsMap.map (·.1) = funcsCheckMap.map (·.1) := by decide

/-- the builtins of the model that are not probes of the harness -/
def modelBuiltins : List String :=
  ["add_key", "add_pattern", "cast", "datetime", "default_time", "drop_key", "exit", "get_key", "grok", "len", "load_json",
   "printf", "rename", "replace", "set_measurement", "set_tag", "sql_cover", "strfmt", "trim", "uppercase", "url_decode", "use", "xml"]

theorem registered_names : funcsMap.map (·.1) = modelBuiltins := by decide

theorem builtins_are_modelled :
    (modelBuiltins.all fun n => (Fn.ofName n.toUTF8.toList).isSome) = true := by decide +kernel

theorem tables_unchanged :
    funcsMap = [("add_key", "AddKey"), ("add_pattern", "AddPattern"), ("cast", "Cast"), ("datetime", "DateTime"),
      ("default_time", "DefaultTime"), ("drop_key", "Dropkey"), ("exit", "Exit"), ("get_key", "Getkey"), ("grok", "Grok"),
      ("len", "Len"), ("load_json", "LoadJSON"), ("printf", "Printf"), ("rename", "Rename"), ("replace", "Replace"),
      ("set_measurement", "SetMeasurement"), ("set_tag", "SetTag"), ("sql_cover", "SQLCover"), ("strfmt", "Strfmt"),
      ("trim", "Trim"), ("uppercase", "Uppercase"), ("url_decode", "URLDecode"), ("use", "Use"), ("xml", "XML")] ∧
    funcsCheckMap.map (·.2) = ["AddkeyChecking", "AddPatternChecking", "CastChecking", "DateTimeChecking", "DefaultTimeChecking",
      "DropkeyChecking", "ExitChecking", "GetkeyChecking", "GrokChecking", "LenChecking", "LoadJSONChecking", "PrintfChecking",
      "RenameChecking", "ReplaceChecking", "SetMeasurementChecking", "SetTagChecking", "SQLCoverChecking", "StrfmtChecking",
      "TrimChecking", "UppercaseChecking", "URLDecodeChecking", "UseChecking", "XMLChecking"] := by
  constructor <;> decide

end Platypus.BuiltinFacts
