import Platypus.Model.ErrChain
/-!
# C17 — error chains: rendering, copies

`render_shape`: an error with `n+1` positions renders as `file:ln:col: message` followed by
exactly `n` parts `\nfile:ln:col:` in chain order.  `append_touches_only_its_handle`: an append
through one handle changes no other error of the store — in particular an error and its copy never
share positions (`copy_then_append_isolated`, both directions), for every store and every handle.
The Go objects are replayed against this store model for all operation sequences up to a bound
(harness kind `chainops`), which is where sharing of backing arrays would show.
-/
namespace Platypus.C17Chain
open Platypus Platypus.ErrChain

theorem render_shape (p : Position) (rest : List Position) (msg : Bytes) :
    (PlE.mk (p :: rest) msg).render =
      posPrefix p ++ [32] ++ msg ++ (rest.map fun q => [10] ++ posPrefix q).flatten := rfl

theorem render_append (e : PlE) (q : Position) (h : e.chain ≠ []) :
    (e.append q).render = e.render ++ ([10] ++ posPrefix q) := by
  obtain ⟨chain, err⟩ := e
  cases chain with
  | nil => exact absurd rfl h
  | cons p rest => simp [PlE.append, PlE.render, List.append_assoc]

/-- an append through handle `h` leaves every other handle's error as it was -/
theorem append_touches_only_its_handle (s : Store) (h k : Nat) (p : Position) (hk : k ≠ h) :
    (step s (.append h p))[k]? = s[k]? := by
  simp [step, List.getElem?_mapIdx]
  cases s[k]? <;> simp [hk]

/-- the handle appended through gets exactly one more position -/
theorem append_extends_its_handle (s : Store) (h : Nat) (p : Position) (e : PlE) (he : s[h]? = some e) :
    (step s (.append h p))[h]? = some (e.append p) := by
  simp [step, List.getElem?_mapIdx, he]

/-- `Copy` yields a new handle holding an equal error and changes no existing one -/
theorem copy_adds_equal (s : Store) (h : Nat) (e : PlE) (he : s[h]? = some e) :
    (step s (.copy h))[s.length]? = some e ∧ ∀ k, k < s.length → (step s (.copy h))[k]? = s[k]? := by
  simp [step, he]
  intro k hk
  simp [List.getElem?_append_left hk]

/-- appending to a copy never alters the original, and appending to the original never alters the copy -/
theorem copy_then_append_isolated (s : Store) (h : Nat) (e : PlE) (he : s[h]? = some e) (p : Position)
    (hlt : h < s.length) :
    (step (step s (.copy h)) (.append s.length p))[h]? = some e ∧
    (step (step s (.copy h)) (.append h p))[s.length]? = some e := by
  have hc := copy_adds_equal s h e he
  constructor
  · rw [append_touches_only_its_handle _ _ _ _ (by omega)]
    rw [hc.2 h hlt]; exact he
  · rw [append_touches_only_its_handle _ _ _ _ (by omega)]
    exact hc.1

/-- non-vacuity: two copies of one error extended differently stay different from each other and
    from the original -/
example :
    let e0 : Op := .new [97] 1 1 0 [109]
    let s := run [e0, .append 0 ⟨[98], 2, 3, 9⟩, .copy 0, .copy 0, .append 1 ⟨[99], 5, 5, 20⟩, .append 2 ⟨[100], 6, 6, 30⟩]
    (s.map fun e => e.chain.length) = [2, 3, 3] ∧ s[1]? ≠ s[2]? := by decide

end Platypus.C17Chain
